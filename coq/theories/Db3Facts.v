(* Db3Facts.v - property C18, ROS 2 half: theorems about the model of DB3ToMCAP (Db3.v) composed with the writer
   model (Writer.v).

   Contents
     0. running a list of writer calls (exec / calls_pass) and the link to W;
     1. the fault-free writer: which of the calls the converter makes can fail, and with which error;
     2. the functional specification db3_expected_calls and the acceptance predicate db3_accepts;
     3. the two loops of the converter (write_topics, write_msgs) make exactly the specified calls;
     4. the main theorems: result of db3_to_mcap for accepted inputs, error (and its class) for all others;
     5. error cases and the skipped rows;
     6. what the specified calls are, read off the tables;
     7. content of the written file (through the writer theorems of ComposeFacts.v);
     8. examples. *)
From Coq Require Import List NArith ZArith Bool Lia ZifyN ZifyNat ZifyBool.
From Coq.Strings Require Import Byte.
From RecordUpdate Require Import RecordSet.
From Mcap Require Import Bytes BytesFacts GoSem Crc32 Records Writer WriterFactsA WriterFactsB WriterFactsC
  LexSpec ComposeFacts Db3.
From Mcap Require BagFacts.
Import ListNotations RecordSetNotations.
Open Scope N_scope.
Ltac Zify.zify_post_hook ::= Z.div_mod_to_equations.

(* ====================================================================================== *)
(* 0. running writer calls                                                                 *)
(* ====================================================================================== *)

Section Exec.
Variable o : wopts.
Variable lib : bytes.
Variable compress : nat -> bytes -> bytes.

Notation step := (step o lib compress None).

(* final state of a caller that makes the calls one after the other; "no call returned an error" *)
Fixpoint exec (cs : list wcall) (w : wstate) : wstate :=
  match cs with [] => w | c :: r => exec r (fst (step c w)) end.
Fixpoint calls_pass (cs : list wcall) (w : wstate) : Prop :=
  match cs with [] => True | c :: r => snd (step c w) = None /\ calls_pass r (fst (step c w)) end.
Fixpoint results (cs : list wcall) (w : wstate) : list (option err * nat) :=
  match cs with
  | [] => []
  | c :: r => let w' := fst (step c w) in (snd (step c w), w_nw w') :: results r w'
  end.

Lemma exec_app a : forall b w, exec (a ++ b) w = exec b (exec a w).
Proof. induction a as [|c a IH]; intros b w; [reflexivity|]. cbn [app exec]. apply IH. Qed.
Lemma calls_pass_app a : forall b w, calls_pass (a ++ b) w <-> calls_pass a w /\ calls_pass b (exec a w).
Proof. induction a as [|c a IH]; intros b w; cbn [app exec calls_pass]; [tauto|]. rewrite IH. tauto. Qed.

Lemma run_calls_exec cs : forall w acc,
  run_calls o lib compress None cs w acc = (exec cs w, rev acc ++ results cs w).
Proof.
  induction cs as [|c r IH]; intros w acc; cbn [run_calls exec results].
  - rewrite app_nil_r. reflexivity.
  - destruct (step c w) as [w' e] eqn:E. cbn [fst snd]. rewrite IH. cbn [rev].
    rewrite <- app_assoc. reflexivity.
Qed.
Lemma results_pass cs : forall w, Forall (fun x => fst x = None) (results cs w) <-> calls_pass cs w.
Proof.
  induction cs as [|c r IH]; intros w; cbn [results calls_pass].
  - split; auto.
  - split.
    + intro H. inversion H; subst. split; [assumption|]. apply IH. assumption.
    + intros [H1 H2]. constructor; [exact H1|]. apply IH. exact H2.
Qed.
End Exec.

(* W in terms of exec *)
Lemma W_exec o lib compress cs w0 :
  new_writer (effective_opts o) None = (w0, None) ->
  W o lib compress None cs
  = {| r_new := None; r_calls := results (effective_opts o) lib compress cs w0;
       r_writes := rev (w_out (exec (effective_opts o) lib compress cs w0));
       r_final := exec (effective_opts o) lib compress cs w0 |}.
Proof. intro H. unfold W. rewrite H, run_calls_exec. reflexivity. Qed.

Lemma W_new_err o lib compress cs w0 e :
  new_writer (effective_opts o) None = (w0, Some e) -> r_new (W o lib compress None cs) = Some e.
Proof. intro H. unfold W. rewrite H. reflexivity. Qed.

(* NewWriter's verdict does not depend on the calls made afterwards *)
Lemma W_new_indep o lib compress cs cs' : r_new (W o lib compress None cs) = r_new (W o lib compress None cs').
Proof.
  unfold W. destruct (new_writer (effective_opts o) None) as [w [e|]]; [reflexivity|].
  rewrite !run_calls_exec. reflexivity.
Qed.

Notation calls_ok := BagFacts.calls_ok.

Lemma calls_ok_exec o lib compress cs :
  calls_ok (W o lib compress None cs) <->
  exists w0, new_writer (effective_opts o) None = (w0, None) /\ calls_pass (effective_opts o) lib compress cs w0.
Proof.
  unfold BagFacts.calls_ok. destruct (new_writer (effective_opts o) None) as [w0 [e|]] eqn:E.
  - rewrite (W_new_err _ _ _ _ _ _ E). split; [intros [H _]; discriminate|intros (w & H & _); discriminate].
  - rewrite (W_exec _ _ _ _ _ E). cbn [r_new r_calls]. rewrite results_pass. split.
    + intros [_ H]. exists w0. split; [reflexivity|exact H].
    + intros (w & H & P). injection H as <-. split; [reflexivity|exact P].
Qed.

(* ====================================================================================== *)
(* 1. the fault-free writer                                                                *)
(* ====================================================================================== *)

Lemma has_assoc {A} k (l : list (N * A)) : has k l = true <-> assoc_get k l <> None.
Proof. unfold has. destruct (assoc_get k l); split; congruence. Qed.

Section Steps.
Variable o : wopts.
Variable lib : bytes.
Variable compress : nat -> bytes -> bytes.

Notation step := (step o lib compress None).

Lemma header_step h w : snd (step (CHeader h) w) = None.
Proof. cbn [Writer.step]. unfold write_header. rewrite wrd_eq. reflexivity. Qed.
Lemma header_step_frame h w : w_channels (fst (step (CHeader h) w)) = w_channels w /\ w_schemas (fst (step (CHeader h) w)) = w_schemas w.
Proof. cbn [Writer.step]. unfold write_header. rewrite wrd_eq. split; reflexivity. Qed.

Lemma auto_rec op body w :
  write_record_auto o None op body w
  = ((if in_chunk o w then rec_chunk op body w else rec_dst o op body w), None).
Proof. unfold write_record_auto. destruct (in_chunk o w); [apply wrc_eq|apply wrd_eq]. Qed.

Lemma auto_rec_frame op body w :
  let w' := if in_chunk o w then rec_chunk op body w else rec_dst o op body w in
  w_channels w' = w_channels w /\ w_schemas w' = w_schemas w.
Proof. cbv zeta. destruct (in_chunk o w); split; reflexivity. Qed.

(* WriteSchema fails exactly for the id 0 *)
Lemma schema_step_zero sc w : s_id sc = 0 -> step (CSchema sc) w = (w, Some EOther).
Proof. intro H. cbn [Writer.step]. unfold write_schema. rewrite H. reflexivity. Qed.

Lemma schema_step sc w : s_id sc <> 0 ->
  snd (step (CSchema sc) w) = None /\
  has (s_id sc) (w_schemas (fst (step (CSchema sc) w))) = true /\
  w_channels (fst (step (CSchema sc) w)) = w_channels w.
Proof.
  intro H. cbn [Writer.step]. unfold write_schema.
  destruct (s_id sc =? 0) eqn:E; [apply N.eqb_eq in E; congruence|].
  rewrite auto_rec. cbn [bindw fst snd].
  destruct (auto_rec_frame OpSchema (enc_schema sc) w) as [Hc Hs]. cbv zeta in Hc, Hs.
  set (w1 := if in_chunk o w then _ else _) in *. clearbody w1.
  split; [reflexivity|]. unfold add_schema.
  destruct (assoc_get (s_id sc) (w_schemas w1)) eqn:EA.
  - split; [|exact Hc]. unfold has. rewrite EA. reflexivity.
  - split; [|exact Hc]. cbn [w_schemas set]. unfold set. cbn.
    rewrite has_app. cbn [fst]. rewrite N.eqb_refl. apply orb_true_r.
Qed.

(* WriteChannel fails exactly for a non-zero schema id that was not written before *)
Lemma channel_step c w : c_schema c = 0 \/ has (c_schema c) (w_schemas w) = true ->
  snd (step (CChannel c) w) = None /\
  has (c_id c) (w_channels (fst (step (CChannel c) w))) = true /\
  (forall k, has k (w_channels w) = true -> has k (w_channels (fst (step (CChannel c) w))) = true).
Proof.
  intro H. cbn [Writer.step]. unfold write_channel.
  assert (E : (0 <? c_schema c) && negb (match assoc_get (c_schema c) (w_schemas w) with Some _ => true | None => false end) = false).
  { destruct H as [H|H]; [rewrite H; reflexivity|]. unfold has in H. rewrite H. apply andb_false_r. }
  rewrite E. rewrite auto_rec. cbn [bindw fst snd].
  destruct (auto_rec_frame OpChannel (enc_channel c) w) as [Hc _]. cbv zeta in Hc.
  set (w1 := if in_chunk o w then _ else _) in *. clearbody w1.
  split; [reflexivity|]. unfold add_channel.
  destruct (assoc_get (c_id c) (w_channels w1)) eqn:EA.
  - split; [unfold has; rewrite EA; reflexivity|]. intros k Hk. rewrite Hc. exact Hk.
  - unfold set. cbn. split.
    + rewrite has_app. cbn [fst]. rewrite N.eqb_refl. apply orb_true_r.
    + intros k Hk. rewrite has_app, Hc, Hk. reflexivity.
Qed.

(* WriteMessage fails exactly for a channel that was not written before *)
Lemma message_step_unknown m w : has (m_chan m) (w_channels w) = false -> step (CMessage m) w = (w, Some EOther).
Proof.
  intro H. cbn [Writer.step]. unfold write_message. unfold has in H.
  destruct (assoc_get (m_chan m) (w_channels w)); [discriminate|reflexivity].
Qed.

Lemma channels_wmis mis : forall s, w_channels (wmis o mis s) = w_channels s.
Proof. intro s. pose proof (aux_wmis o mis s) as H. apply aux_proj in H. tauto. Qed.

Lemma channels_flushed s : w_channels (flushed o compress s) = w_channels s.
Proof. unfold flushed, chunk_written. cbv zeta. cbn [w_channels set]. unfold set. cbn. rewrite channels_wmis. reflexivity. Qed.

Lemma channels_stats_time t s : w_channels (stats_time t s) = w_channels s.
Proof. pose proof (stats_time_view t s) as H. apply view_proj in H. destruct H as (_ & _ & _ & H). apply aux_proj in H. tauto. Qed.

Lemma message_step m w : has (m_chan m) (w_channels w) = true ->
  snd (step (CMessage m) w) = None /\ w_channels (fst (step (CMessage m) w)) = w_channels w.
Proof.
  intro H. cbn [Writer.step].
  assert (Hok : exists w', write_message o compress None m w = (w', None)).
  { unfold write_message. unfold has in H.
    destruct (assoc_get (m_chan m) (w_channels w)) as [c|] eqn:EC; [|discriminate].
    cbv zeta. fold (msg_pre m w). change (in_chunk o (msg_pre m w)) with (in_chunk o w).
    destruct (in_chunk o w).
    - rewrite wrc_eq. cbn [bindw]. rewrite cond_end, cond_start.
      match goal with |- context [if _ then flush_active_chunk _ _ _ ?X else _] =>
        change X with (msg_chunk_state m w) end.
      destruct (o_chunksize o <? Z.of_N (blen (w_cbuf (msg_chunk_state m w))))%Z.
      + rewrite flush_eq.
        * cbn [bindw]. eexists. reflexivity.
        * unfold msg_chunk_state. wsimpl. unfold frame_head. destruct (w_cbuf w); discriminate.
      + cbn [bindw]. eexists. reflexivity.
    - rewrite wrd_eq. cbn [bindw]. eexists. reflexivity. }
  destruct Hok as (w' & Hw). rewrite Hw. cbn [fst snd]. split; [reflexivity|].
  apply write_message_eq in Hw. destruct Hw as (c & _ & ->).
  rewrite channels_stats_time.
  destruct (in_chunk o w).
  - destruct (o_chunksize o <? Z.of_N (blen (w_cbuf (msg_chunk_state m w))))%Z.
    + rewrite channels_flushed. reflexivity.
    + reflexivity.
  - reflexivity.
Qed.

End Steps.

(* ====================================================================================== *)
(* 2. the functional specification                                                         *)
(* ====================================================================================== *)

(* the abstract database: the rows of the topics table in the order `select ... from topics` returns them, the
   result of getSchemas (None: it failed; Some l: the map type -> assembled definition), and the rows of
   `messages join topics order by timestamp` in the order the engine returns them *)

Definition is_msg_topic (t : topic_row) : bool := is_message_type (t_type t).
(* getTopics: only topics whose type matches \w+/msg/.* are kept *)
Definition msg_topics (topics : list topic_row) : list topic_row := filter is_msg_topic topics.

Definition topic_chan (t : topic_row) : N := Z.to_N (t_id t).
Definition row_chan (m : msg_row) : N := Z.to_N (mr_topic m).
(* uint64(int64 timestamp) *)
Definition row_time (m : msg_row) : N := Z.to_N (mr_ts m mod 18446744073709551616)%Z.

Definition ros2_header : header := {| h_profile := s_ros2; h_library := [] |}.

Fixpoint index_from {A} (i : N) (l : list A) : list (N * A) :=
  match l with [] => [] | x :: r => (i, x) :: index_from (i + 1) r end.

(* the i-th (from 0) message topic gets schema id i+1 (uint16) *)
Definition topic_schema (sch : list (bytes * bytes)) (it : N * topic_row) : schema :=
  {| s_id := (fst it + 1) mod two16; s_name := t_type (snd it); s_encoding := s_ros2msg;
     s_data := match schema_of (t_type (snd it)) sch with Some d => d | None => [] end |}.
Definition topic_channel (it : N * topic_row) : channel :=
  {| c_id := topic_chan (snd it); c_schema := (fst it + 1) mod two16; c_topic := t_name (snd it);
     c_menc := t_fmt (snd it);
     c_meta := match t_qos (snd it) with Some q => [(s_qos, q)] | None => [] end |}.
Definition topic_calls (sch : list (bytes * bytes)) (it : N * topic_row) : list wcall :=
  [CSchema (topic_schema sch it); CChannel (topic_channel it)].
Definition topics_calls (sch : list (bytes * bytes)) (i : N) (mt : list topic_row) : list wcall :=
  flat_map (topic_calls sch) (index_from i mt).

(* the number of rows among `before` that are on topic id ch *)
Definition rows_on (ch : N) (before : list msg_row) : N :=
  N.of_nat (length (filter (fun m => row_chan m =? ch) before)).
(* the message written for a row that is preceded by n rows of the same topic *)
Definition row_message (n : N) (m : msg_row) : message :=
  {| m_chan := row_chan m; m_seq := n mod two32; m_log := row_time m; m_pub := row_time m; m_data := mr_data m |}.
(* a row is converted iff its topic id is the id of a message topic *)
Definition row_kept (known : list N) (m : msg_row) : bool := Db3.nmem (row_chan m) known.
Fixpoint rows_calls (known : list N) (before ms : list msg_row) : list wcall :=
  match ms with
  | [] => []
  | m :: r =>
    (if row_kept known m then [CMessage (row_message (rows_on (row_chan m) before) m)] else [])
    ++ rows_calls known (before ++ [m]) r
  end.

Definition known_chans (topics : list topic_row) : list N := map topic_chan (msg_topics topics).

Definition db3_body_calls (topics : list topic_row) (sch : list (bytes * bytes)) (msgs : list msg_row) : list wcall :=
  CHeader ros2_header :: topics_calls sch 0 (msg_topics topics) ++ rows_calls (known_chans topics) [] msgs.
(* ... and the deferred writer.Close() *)
Definition db3_expected_calls (topics : list topic_row) (sch : list (bytes * bytes)) (msgs : list msg_row) : list wcall :=
  db3_body_calls topics sch msgs ++ [CClose].

(* well-formed abstract database:
   - every topic id (of every topic, message topic or not: the rows are scanned before the type is looked at) and
     every topic id of a message row is in the range of uint16;
   - every message topic's type has a definition in the result of getSchemas;
   - there are at most 65535 message topics (schema ids are uint16(i+1) and 0 is refused by the writer). *)
Definition has_schema (sch : list (bytes * bytes)) (t : topic_row) : bool :=
  match schema_of (t_type t) sch with Some _ => true | None => false end.
Definition db3_wf (topics : list topic_row) (sch : list (bytes * bytes)) (msgs : list msg_row) : bool :=
  forallb (fun t => u16_ok (t_id t)) topics &&
  forallb (has_schema sch) (msg_topics topics) &&
  (N.of_nat (length (msg_topics topics)) <=? 65535) &&
  forallb (fun m => u16_ok (mr_topic m)) msgs.

(* NewWriter accepts the options *)
Definition new_ok (o : wopts) : bool :=
  match snd (new_writer (effective_opts o) None) with None => true | Some _ => false end.

(* the inputs for which the conversion succeeds (theorem db3_to_mcap_err below: all others give an error) *)
Definition db3_accepts (o : wopts) (topics : list topic_row) (schemas : option (list (bytes * bytes)))
           (msgs : list msg_row) : bool :=
  match schemas with
  | None => false
  | Some sch => new_ok o && db3_wf topics sch msgs
  end.

(* schema ids of the first n message topics are not 0 *)
Fixpoint ids_ok (i : N) (n : nat) : bool :=
  match n with O => true | S k => negb ((i + 1) mod two16 =? 0) && ids_ok (i + 1) k end.
Lemma ids_ok_bound : forall n i, i + N.of_nat n <= 65535 -> ids_ok i n = true.
Proof.
  induction n as [|n IH]; intros i H; cbn [ids_ok]; [reflexivity|].
  rewrite IH by lia. rewrite andb_true_r. apply negb_true_iff, N.eqb_neq.
  unfold two16. rewrite N.mod_small by lia. lia.
Qed.
Lemma ids_ok_bound_conv : forall n i, i <= 65535 -> ids_ok i n = true -> i + N.of_nat n <= 65535.
Proof.
  induction n as [|n IH]; intros i Hi H; cbn [ids_ok] in H; [lia|].
  apply andb_true_iff in H as [H1 H2]. apply negb_true_iff, N.eqb_neq in H1. unfold two16 in H1.
  assert (i + 1 <= 65535).
  { destruct (N.eq_dec i 65535) as [->|]; [exfalso; apply H1; reflexivity|lia]. }
  specialize (IH (i + 1) H H2). lia.
Qed.

(* ====================================================================================== *)
(* 3. the two loops                                                                        *)
(* ====================================================================================== *)

Lemma index_from_cons {A} i (x : A) r : index_from i (x :: r) = (i, x) :: index_from (i + 1) r.
Proof. reflexivity. Qed.

Lemma topics_calls_cons sch i t r :
  topics_calls sch i (t :: r)
  = CSchema (topic_schema sch (i, t)) :: CChannel (topic_channel (i, t)) :: topics_calls sch (i + 1) r.
Proof. reflexivity. Qed.

Lemma seq_get_bump k ch : forall seq,
  seq_get k (seq_bump ch seq) = if ch =? k then (seq_get ch seq + 1) mod two32 else seq_get k seq.
Proof.
  induction seq as [|x r IH]; cbn [seq_bump seq_get].
  - cbn [fst snd]. destruct (ch =? k); reflexivity.
  - destruct (fst x =? ch) eqn:E1.
    + cbn [seq_get fst snd]. apply N.eqb_eq in E1. subst ch.
      destruct (fst x =? k) eqn:E2; reflexivity.
    + cbn [seq_get]. destruct (fst x =? k) eqn:E2.
      * apply N.eqb_eq in E2. subst k. rewrite N.eqb_sym, E1. reflexivity.
      * exact IH.
Qed.

Lemma rows_on_snoc ch before m :
  rows_on ch (before ++ [m]) = rows_on ch before + (if row_chan m =? ch then 1 else 0).
Proof.
  unfold rows_on. rewrite filter_app, app_length. cbn [filter].
  destruct (row_chan m =? ch); cbn [length]; lia.
Qed.

Section Loops.
Variable o : wopts.
Variable lib : bytes.
Variable compress : nat -> bytes -> bytes.

Notation step := (step o lib compress None).
Notation exec := (exec o lib compress).
Notation calls_pass := (calls_pass o lib compress).

Lemma write_topics_cons sch t r i w sc : schema_of (t_type t) sch = Some sc ->
  write_topics o lib compress (t :: r) i sch w
  = match step (CSchema (topic_schema sch (i, t))) w with
    | (w1, Some e) => (w1, Some e)
    | (w1, None) =>
      match step (CChannel (topic_channel (i, t))) w1 with
      | (w2, Some e) => (w2, Some e)
      | (w2, None) => write_topics o lib compress r (i + 1) sch w2
      end
    end.
Proof. intro E. cbn [write_topics]. rewrite E. unfold topic_schema. cbn [fst snd]. rewrite E. reflexivity. Qed.

Lemma write_msgs_cons known m r seq w :
  write_msgs o lib compress (m :: r) known seq w
  = if negb (u16_ok (mr_topic m)) then (w, Some EOther) else
    if negb (row_kept known m) then write_msgs o lib compress r known seq w else
    match step (CMessage {| m_chan := row_chan m; m_seq := seq_get (row_chan m) seq; m_log := row_time m;
                            m_pub := row_time m; m_data := mr_data m |}) w with
    | (w1, Some e) => (w1, Some e)
    | (w1, None) => write_msgs o lib compress r known (seq_bump (row_chan m) seq) w1
    end.
Proof. reflexivity. Qed.

Lemma write_topics_ok sch : forall ts i w,
  forallb (has_schema sch) ts = true -> ids_ok i (length ts) = true ->
  write_topics o lib compress ts i sch w = (exec (topics_calls sch i ts) w, None) /\
  calls_pass (topics_calls sch i ts) w /\
  (forall t, In t ts -> has (topic_chan t) (w_channels (exec (topics_calls sch i ts) w)) = true) /\
  (forall k, has k (w_channels w) = true -> has k (w_channels (exec (topics_calls sch i ts) w)) = true).
Proof.
  induction ts as [|t r IH]; intros i w Hs Hi.
  - cbn. repeat split; auto; intros t [].
  - cbn [forallb length ids_ok] in Hs, Hi.
    apply andb_true_iff in Hs as [Hs1 Hs2]. apply andb_true_iff in Hi as [Hi1 Hi2].
    apply negb_true_iff, N.eqb_neq in Hi1.
    unfold has_schema in Hs1. destruct (schema_of (t_type t) sch) as [sc|] eqn:ES; [|discriminate].
    rewrite (write_topics_cons sch t r i w sc ES).
    destruct (schema_step o lib compress (topic_schema sch (i, t)) w) as (A1 & A2 & A3); [exact Hi1|].
    rewrite topics_calls_cons. cbn [Db3Facts.exec Db3Facts.calls_pass].
    destruct (step (CSchema (topic_schema sch (i, t))) w) as [w1 e1] eqn:E1. cbn [fst snd] in *. subst e1.
    destruct (channel_step o lib compress (topic_channel (i, t)) w1) as (B1 & B2 & B3); [right; exact A2|].
    destruct (step (CChannel (topic_channel (i, t))) w1) as [w2 e2] eqn:E2. cbn [fst snd] in *. subst e2.
    destruct (IH (i + 1) w2 Hs2 Hi2) as (C1 & C2 & C3 & C4).
    split; [exact C1|]. split; [repeat split; exact C2|]. split.
    + intros t' [<-|Hin]; [apply C4; exact B2|apply C3; exact Hin].
    + intros k Hk. apply C4, B3. rewrite A3. exact Hk.
Qed.

Lemma write_topics_err sch : forall ts i w,
  forallb (has_schema sch) ts && ids_ok i (length ts) = false ->
  snd (write_topics o lib compress ts i sch w) = Some EOther.
Proof.
  induction ts as [|t r IH]; intros i w H; [discriminate|].
  cbn [forallb length ids_ok] in H.
  unfold has_schema in H at 1. destruct (schema_of (t_type t) sch) as [sc|] eqn:ES.
  2:{ cbn [write_topics]. rewrite ES. reflexivity. }
  rewrite (write_topics_cons sch t r i w sc ES).
  destruct ((i + 1) mod two16 =? 0) eqn:E0.
  - apply N.eqb_eq in E0. rewrite schema_step_zero by exact E0. reflexivity.
  - apply N.eqb_neq in E0.
    destruct (schema_step o lib compress (topic_schema sch (i, t)) w) as (A1 & A2 & A3); [exact E0|].
    destruct (step (CSchema (topic_schema sch (i, t))) w) as [w1 e1] eqn:E1. cbn [fst snd] in *. subst e1.
    destruct (channel_step o lib compress (topic_channel (i, t)) w1) as (B1 & B2 & B3); [right; exact A2|].
    destruct (step (CChannel (topic_channel (i, t))) w1) as [w2 e2] eqn:E2. cbn [fst snd] in *. subst e2.
    apply IH. cbn [negb andb] in H. exact H.
Qed.

Definition chans_known (known : list N) (w : wstate) : Prop :=
  forall ch, Db3.nmem ch known = true -> has ch (w_channels w) = true.

Lemma write_msgs_ok known : forall ms before seq w,
  forallb (fun m => u16_ok (mr_topic m)) ms = true ->
  chans_known known w ->
  (forall ch, Db3.nmem ch known = true -> seq_get ch seq = rows_on ch before mod two32) ->
  write_msgs o lib compress ms known seq w = (exec (rows_calls known before ms) w, None) /\
  calls_pass (rows_calls known before ms) w.
Proof.
  induction ms as [|m r IH]; intros before seq w Hu Hk Hseq.
  - cbn. split; auto.
  - cbn [forallb] in Hu. apply andb_true_iff in Hu as [Hu1 Hu2].
    rewrite write_msgs_cons. cbn [rows_calls]. rewrite Hu1. cbn [negb].
    destruct (row_kept known m) eqn:EK; cbn [negb app].
    + unfold row_kept in EK. rewrite (Hseq _ EK). fold (row_message (rows_on (row_chan m) before) m).
      destruct (message_step o lib compress (row_message (rows_on (row_chan m) before) m) w) as (A1 & A2);
        [apply Hk; exact EK|].
      cbn [Db3Facts.exec Db3Facts.calls_pass].
      destruct (step (CMessage (row_message (rows_on (row_chan m) before) m)) w) as [w1 e1] eqn:E1.
      cbn [fst snd] in *. subst e1.
      destruct (IH (before ++ [m]) (seq_bump (row_chan m) seq) w1 Hu2) as (C1 & C2).
      * intros ch Hch. rewrite A2. apply Hk, Hch.
      * intros ch Hch. rewrite seq_get_bump, rows_on_snoc.
        destruct (row_chan m =? ch) eqn:E.
        -- apply N.eqb_eq in E. subst ch. rewrite (Hseq _ EK). unfold two32.
           rewrite N.add_mod_idemp_l by discriminate. reflexivity.
        -- rewrite N.add_0_r. apply Hseq, Hch.
      * split; [exact C1|]. split; [reflexivity|exact C2].
    + apply IH; [exact Hu2|exact Hk|].
      intros ch Hch. rewrite rows_on_snoc. unfold row_kept in EK.
      destruct (row_chan m =? ch) eqn:E; [apply N.eqb_eq in E; subst ch; congruence|].
      rewrite N.add_0_r. apply Hseq, Hch.
Qed.

Lemma write_msgs_err known : forall ms seq w,
  forallb (fun m => u16_ok (mr_topic m)) ms = false ->
  chans_known known w ->
  snd (write_msgs o lib compress ms known seq w) = Some EOther.
Proof.
  induction ms as [|m r IH]; intros seq w Hu Hk; [discriminate|].
  cbn [forallb] in Hu. rewrite write_msgs_cons.
  destruct (u16_ok (mr_topic m)) eqn:Hu1; cbn [negb andb] in *; [|reflexivity].
  destruct (row_kept known m) eqn:EK; cbn [negb].
  - match goal with |- context [CMessage ?M] => set (msg := M) end.
    destruct (message_step o lib compress msg w) as (A1 & A2); [apply Hk; exact EK|].
    destruct (step (CMessage msg) w) as [w1 e1] eqn:E1. cbn [fst snd] in *. subst e1.
    apply IH; [exact Hu|]. intros ch Hch. rewrite A2. apply Hk, Hch.
  - apply IH; assumption.
Qed.

End Loops.

(* ====================================================================================== *)
(* 4. the conversion                                                                       *)
(* ====================================================================================== *)

Lemma finish_eq o compress w e :
  (let '(w', _) := close o compress None w in {| dr_err := e; dr_writes := rev (w_out w'); dr_final := w' |})
  = {| dr_err := e; dr_writes := rev (w_out (fst (close o compress None w))); dr_final := fst (close o compress None w) |}.
Proof. destruct (close o compress None w). reflexivity. Qed.

Lemma nmem_map_in {A} (f : A -> N) ch : forall l, Db3.nmem ch (map f l) = true -> exists x, In x l /\ f x = ch.
Proof.
  induction l as [|x r IH]; cbn [map Db3.nmem]; [discriminate|].
  intro H. apply orb_true_iff in H as [H|H].
  - apply N.eqb_eq in H. exists x. split; [left; reflexivity|exact H].
  - destruct (IH H) as (y & Hy & E). exists y. split; [right; exact Hy|exact E].
Qed.
Lemma in_nmem_map {A} (f : A -> N) x : forall l, In x l -> Db3.nmem (f x) (map f l) = true.
Proof.
  induction l as [|y r IH]; intros []; cbn [map Db3.nmem].
  - subst y. rewrite N.eqb_refl. reflexivity.
  - rewrite IH by assumption. apply orb_true_r.
Qed.

(* NewWriter, fault-free, fails only with an error of class EOther *)
Lemma new_writer_err_class o w e : new_writer o None = (w, Some e) -> e = EOther.
Proof.
  unfold new_writer.
  destruct (o_skip_magic o); [|rewrite dst_write_none; cbn [bindw]; rewrite log_eq]; cbn [bindw];
  (destruct (o_chunked o); [|discriminate]);
  (destruct (o_custom o);
   [destruct (bytes_eqb (o_comp o) []); congruence
   |destruct (bytes_eqb (o_comp o) comp_zstd || bytes_eqb (o_comp o) comp_lz4 || bytes_eqb (o_comp o) []); congruence]).
Qed.

Lemma wf_ids topics : (N.of_nat (length (msg_topics topics)) <=? 65535) = true -> ids_ok 0 (length (msg_topics topics)) = true.
Proof. intro H. apply N.leb_le in H. apply ids_ok_bound. lia. Qed.
Lemma wf_ids_conv topics : (N.of_nat (length (msg_topics topics)) <=? 65535) = false -> ids_ok 0 (length (msg_topics topics)) = false.
Proof.
  intro H. apply N.leb_gt in H. destruct (ids_ok 0 (length (msg_topics topics))) eqn:E; [|reflexivity].
  apply ids_ok_bound_conv in E; lia.
Qed.

Section Main.
Variable o : wopts.
Variable lib : bytes.
Variable compress : nat -> bytes -> bytes.

(* Theorem 1: an accepted input is converted by exactly the specified calls *)
Theorem db3_to_mcap_accepted topics sch msgs :
  db3_accepts o topics (Some sch) msgs = true ->
  db3_to_mcap o lib compress topics (Some sch) msgs
  = {| dr_err := None;
       dr_writes := r_writes (W o lib compress None (db3_expected_calls topics sch msgs));
       dr_final := r_final (W o lib compress None (db3_expected_calls topics sch msgs)) |}
  /\ calls_ok (W o lib compress None (db3_body_calls topics sch msgs)).
Proof.
  unfold db3_accepts, db3_wf, new_ok. intro H.
  apply andb_true_iff in H as [Hn H]. apply andb_true_iff in H as [H Hrows].
  apply andb_true_iff in H as [H Hcnt]. apply andb_true_iff in H as [Hids Hsch].
  set (o' := effective_opts o) in *.
  destruct (new_writer o' None) as [w0 [e0|]] eqn:EN; [discriminate|]. clear Hn.
  rewrite calls_ok_exec. rewrite (W_exec o lib compress _ w0 EN). cbn [r_writes r_final]. fold o'.
  unfold db3_to_mcap. cbv zeta. fold o'. rewrite Hids. cbn [negb]. rewrite EN. unfold wstep.
  fold ros2_header. change (filter (fun t => is_message_type (t_type t)) topics) with (msg_topics topics).
  pose proof (header_step o' lib compress ros2_header w0) as Hh.
  pose proof (header_step_frame o' lib compress ros2_header w0) as [Hhc _].
  destruct (step o' lib compress None (CHeader ros2_header) w0) as [w1 e1] eqn:E1. cbn [fst snd] in Hh, Hhc. subst e1.
  destruct (write_topics_ok o' lib compress sch (msg_topics topics) 0 w1 Hsch (wf_ids topics Hcnt)) as (T1 & T2 & T3 & _).
  rewrite T1.
  change (map (fun t => Z.to_N (t_id t)) (msg_topics topics)) with (known_chans topics).
  set (w2 := exec o' lib compress (topics_calls sch 0 (msg_topics topics)) w1) in *.
  destruct (write_msgs_ok o' lib compress (known_chans topics) msgs [] [] w2 Hrows) as (M1 & M2).
  { intros ch Hch. apply nmem_map_in in Hch as (t & Hin & <-). apply T3, Hin. }
  { intros ch _. reflexivity. }
  rewrite M1. rewrite finish_eq.
  unfold db3_expected_calls, db3_body_calls. rewrite exec_app. cbn [exec]. rewrite E1. cbn [fst].
  rewrite exec_app. fold w2. split; [reflexivity|].
  exists w0. split; [reflexivity|]. cbn [calls_pass]. rewrite E1. cbn [fst snd]. split; [reflexivity|].
  apply calls_pass_app. fold w2. split; assumption.
Qed.

(* Theorems 2 and 3: every other input gives an error, of class EOther *)
Theorem db3_to_mcap_rejected topics schemas msgs :
  db3_accepts o topics schemas msgs = false ->
  dr_err (db3_to_mcap o lib compress topics schemas msgs) = Some EOther.
Proof.
  unfold db3_accepts, db3_wf, new_ok. intro H. unfold db3_to_mcap. cbv zeta.
  set (o' := effective_opts o) in *.
  destruct (forallb (fun t => u16_ok (t_id t)) topics) eqn:Hids; cbn [negb]; [|reflexivity].
  destruct schemas as [sch|]; [|reflexivity].
  destruct (new_writer o' None) as [w0 [e0|]] eqn:EN.
  { apply new_writer_err_class in EN. subst e0. reflexivity. }
  cbn [snd andb] in H. unfold wstep. fold ros2_header.
  change (filter (fun t => is_message_type (t_type t)) topics) with (msg_topics topics).
  pose proof (header_step o' lib compress ros2_header w0) as Hh.
  destruct (step o' lib compress None (CHeader ros2_header) w0) as [w1 e1] eqn:E1. cbn [fst snd] in Hh. subst e1.
  destruct (forallb (has_schema sch) (msg_topics topics) && ids_ok 0 (length (msg_topics topics))) eqn:ET.
  - apply andb_true_iff in ET as [Hsch Hi].
    destruct (write_topics_ok o' lib compress sch (msg_topics topics) 0 w1 Hsch Hi) as (T1 & T2 & T3 & _).
    rewrite T1. rewrite Hsch in H. cbn [andb] in H.
    destruct (N.of_nat (length (msg_topics topics)) <=? 65535) eqn:Hcnt.
    2:{ apply wf_ids_conv in Hcnt. congruence. }
    cbn [andb] in H.
    change (map (fun t => Z.to_N (t_id t)) (msg_topics topics)) with (known_chans topics).
    set (w2 := exec o' lib compress (topics_calls sch 0 (msg_topics topics)) w1) in *.
    pose proof (write_msgs_err o' lib compress (known_chans topics) msgs [] w2 H) as M.
    destruct (write_msgs o' lib compress msgs (known_chans topics) [] w2) as [w3 e3]. cbn [snd] in M.
    rewrite finish_eq. cbn [dr_err]. apply M.
    intros ch Hch. apply nmem_map_in in Hch as (t & Hin & <-). apply T3, Hin.
  - pose proof (write_topics_err o' lib compress sch (msg_topics topics) 0 w1 ET) as T.
    destruct (write_topics o' lib compress (msg_topics topics) 0 sch w1) as [w2 [e2|]]; cbn [snd] in T; [|discriminate].
    rewrite finish_eq. cbn [dr_err]. exact T.
Qed.

Corollary db3_to_mcap_err topics schemas msgs :
  dr_err (db3_to_mcap o lib compress topics schemas msgs)
  = if db3_accepts o topics schemas msgs then None else Some EOther.
Proof.
  destruct (db3_accepts o topics schemas msgs) eqn:E.
  - destruct schemas as [sch|]; [|discriminate].
    destruct (db3_to_mcap_accepted topics sch msgs E) as [-> _]. reflexivity.
  - apply db3_to_mcap_rejected, E.
Qed.

End Main.

(* the statement in the shape of C18_bag: well-formed input, options the writer accepts *)
Lemma new_ok_W o lib compress cs : new_ok o = true <-> r_new (W o lib compress None cs) = None.
Proof.
  unfold new_ok, W. destruct (new_writer (effective_opts o) None) as [w [e|]]; cbn [snd r_new].
  - split; discriminate.
  - rewrite run_calls_exec. cbn [r_new]. split; reflexivity.
Qed.

Theorem db3_to_mcap_wf o lib compress topics sch msgs :
  db3_wf topics sch msgs = true ->
  r_new (W o lib compress None (db3_expected_calls topics sch msgs)) = None ->
  let R := db3_to_mcap o lib compress topics (Some sch) msgs in
  dr_err R = None /\
  dr_writes R = r_writes (W o lib compress None (db3_expected_calls topics sch msgs)) /\
  dr_final R = r_final (W o lib compress None (db3_expected_calls topics sch msgs)) /\
  calls_ok (W o lib compress None (db3_body_calls topics sch msgs)).
Proof.
  intros Hwf Hn R. subst R. apply new_ok_W in Hn.
  destruct (db3_to_mcap_accepted o lib compress topics sch msgs) as [-> H].
  - unfold db3_accepts. rewrite Hn, Hwf. reflexivity.
  - split; [reflexivity|]. split; [reflexivity|]. split; [reflexivity|exact H].
Qed.

(* ====================================================================================== *)
(* 2'. totality                                                                            *)
(* ====================================================================================== *)

(* The model is a structurally recursive function of the row lists: it has no fuel parameter, and its result type
   db3res carries an `option err`, so there is no Panic / Exit / OutOfFuel outcome to exclude.  In the vocabulary of
   GoSem.outcome: *)
Definition db3_outcome (R : db3res) : outcome (list bytes) :=
  match dr_err R with None => Ok (dr_writes R) | Some e => Err e end.

Theorem db3_total o lib compress topics schemas msgs :
  no_crash (db3_outcome (db3_to_mcap o lib compress topics schemas msgs)) = true /\
  (db3_outcome (db3_to_mcap o lib compress topics schemas msgs)
   = if db3_accepts o topics schemas msgs
     then Ok (dr_writes (db3_to_mcap o lib compress topics schemas msgs)) else Err EOther).
Proof.
  unfold db3_outcome. rewrite db3_to_mcap_err. destruct (db3_accepts o topics schemas msgs); split; reflexivity.
Qed.

(* the number of writer calls the conversion makes is bounded by the table sizes *)
Lemma filter_len_le {A} (f : A -> bool) : forall l, (length (filter f l) <= length l)%nat.
Proof. induction l as [|x r IH]; cbn [filter length]; [lia|]. destruct (f x); cbn [length]; lia. Qed.
Lemma rows_calls_length known : forall ms before, (length (rows_calls known before ms) <= length ms)%nat.
Proof.
  induction ms as [|m r IH]; intros bf; cbn [rows_calls length]; [lia|].
  rewrite app_length. specialize (IH (bf ++ [m])). destruct (row_kept known m); cbn [length]; lia.
Qed.
Lemma topics_calls_length sch : forall ts i, length (topics_calls sch i ts) = (2 * length ts)%nat.
Proof. induction ts as [|t r IH]; intro i; [reflexivity|]. rewrite topics_calls_cons. cbn [length]. rewrite IH. lia. Qed.
Theorem db3_calls_bound topics sch msgs :
  (length (db3_expected_calls topics sch msgs) <= 2 + 2 * length topics + length msgs)%nat.
Proof.
  unfold db3_expected_calls, db3_body_calls. rewrite app_length. cbn [length]. rewrite app_length, topics_calls_length.
  pose proof (rows_calls_length (known_chans topics) msgs []).
  pose proof (filter_len_le is_msg_topic topics). unfold msg_topics. lia.
Qed.

(* ====================================================================================== *)
(* 5. error cases; skipped rows                                                            *)
(* ====================================================================================== *)

Lemma forallb_false_in {A} (f : A -> bool) x l : In x l -> f x = false -> forallb f l = false.
Proof.
  intros Hin Hf. destruct (forallb f l) eqn:E; [|reflexivity].
  rewrite forallb_forall in E. rewrite (E x Hin) in Hf. discriminate.
Qed.

Section Errors.
Variable o : wopts.
Variable lib : bytes.
Variable compress : nat -> bytes -> bytes.

(* a message row whose topic id is not a uint16 (rows.Scan into uint16 fails) *)
Theorem db3_err_row_topic_id topics schemas msgs m :
  In m msgs -> u16_ok (mr_topic m) = false ->
  dr_err (db3_to_mcap o lib compress topics schemas msgs) = Some EOther.
Proof.
  intros Hin Hu. apply db3_to_mcap_rejected. unfold db3_accepts, db3_wf. destruct schemas; [|reflexivity].
  rewrite (forallb_false_in _ m msgs Hin Hu). rewrite !andb_false_r. reflexivity.
Qed.

(* a message topic whose type has no definition in the result of getSchemas *)
Theorem db3_err_schema_missing topics sch msgs t :
  In t topics -> is_msg_topic t = true -> schema_of (t_type t) sch = None ->
  dr_err (db3_to_mcap o lib compress topics (Some sch) msgs) = Some EOther.
Proof.
  intros Hin Hm Hs. apply db3_to_mcap_rejected. unfold db3_accepts, db3_wf.
  assert (Hin' : In t (msg_topics topics)) by (apply filter_In; split; assumption).
  rewrite (forallb_false_in (has_schema sch) t _ Hin'); [|unfold has_schema; rewrite Hs; reflexivity].
  rewrite !andb_false_r. reflexivity.
Qed.

(* getSchemas failed, or a topic id of the topics table is not a uint16: an error and nothing is written *)
Theorem db3_err_schemas_failed topics msgs :
  let R := db3_to_mcap o lib compress topics None msgs in dr_err R = Some EOther /\ dr_writes R = [].
Proof.
  cbv zeta. unfold db3_to_mcap. destruct (negb (forallb (fun t => u16_ok (t_id t)) topics)); split; reflexivity.
Qed.
Theorem db3_err_topic_id topics schemas msgs t :
  In t topics -> u16_ok (t_id t) = false ->
  let R := db3_to_mcap o lib compress topics schemas msgs in dr_err R = Some EOther /\ dr_writes R = [].
Proof.
  intros Hin Hu. cbv zeta. unfold db3_to_mcap. rewrite (forallb_false_in _ t topics Hin Hu). split; reflexivity.
Qed.

(* more than 65535 message topics: the schema id uint16(i+1) wraps to 0, which WriteSchema refuses *)
Theorem db3_err_too_many_topics topics schemas msgs :
  65535 < N.of_nat (length (msg_topics topics)) ->
  dr_err (db3_to_mcap o lib compress topics schemas msgs) = Some EOther.
Proof.
  intro H. apply db3_to_mcap_rejected. unfold db3_accepts, db3_wf. destruct schemas; [|reflexivity].
  apply N.leb_gt in H. rewrite H. rewrite !andb_false_r. reflexivity.
Qed.

(* NewWriter refuses the options *)
Theorem db3_err_new_writer topics schemas msgs :
  new_ok o = false -> dr_err (db3_to_mcap o lib compress topics schemas msgs) = Some EOther.
Proof.
  intro H. apply db3_to_mcap_rejected. unfold db3_accepts. destruct schemas; [|reflexivity]. rewrite H. reflexivity.
Qed.

End Errors.

(* rows of topics that are not message topics - and, in the model, rows whose topic id is in no row of the topics
   table at all - are skipped: they contribute no call and do not disturb the sequence numbers of the others *)
Lemma rows_calls_ext known : forall ms b1 b2,
  (forall ch, Db3.nmem ch known = true -> rows_on ch b1 = rows_on ch b2) ->
  rows_calls known b1 ms = rows_calls known b2 ms.
Proof.
  induction ms as [|m r IH]; intros b1 b2 H; cbn [rows_calls]; [reflexivity|].
  f_equal.
  - unfold row_kept. destruct (Db3.nmem (row_chan m) known) eqn:E; [|reflexivity]. rewrite (H _ E). reflexivity.
  - apply IH. intros ch Hch. rewrite !rows_on_snoc, (H _ Hch). reflexivity.
Qed.

Lemma rows_calls_skip known m r before :
  row_kept known m = false -> rows_calls known before (m :: r) = rows_calls known before r.
Proof.
  intro H. cbn [rows_calls]. rewrite H. cbn [app]. apply rows_calls_ext.
  intros ch Hch. rewrite rows_on_snoc. unfold row_kept in H.
  destruct (row_chan m =? ch) eqn:E; [apply N.eqb_eq in E; subst ch; congruence|apply N.add_0_r].
Qed.

Lemma rows_calls_filter known : forall ms before,
  rows_calls known before ms = rows_calls known before (filter (row_kept known) ms).
Proof.
  induction ms as [|m r IH]; intros bf; [reflexivity|]. cbn [filter].
  destruct (row_kept known m) eqn:E.
  - cbn [rows_calls]. rewrite E. f_equal. apply IH.
  - rewrite rows_calls_skip by exact E. apply IH.
Qed.

Definition kept_rows (topics : list topic_row) (msgs : list msg_row) : list msg_row :=
  filter (row_kept (known_chans topics)) msgs.

Theorem db3_expected_calls_skip topics sch msgs :
  db3_expected_calls topics sch msgs = db3_expected_calls topics sch (kept_rows topics msgs).
Proof. unfold db3_expected_calls, db3_body_calls, kept_rows. rewrite (rows_calls_filter _ msgs). reflexivity. Qed.

Lemma forallb_filter {A} (f g : A -> bool) l : forallb f l = true -> forallb f (filter g l) = true.
Proof.
  rewrite !forallb_forall. intros H x Hx. apply filter_In in Hx as [Hx _]. apply H, Hx.
Qed.

Theorem db3_skipped_rows o lib compress topics sch msgs :
  db3_accepts o topics (Some sch) msgs = true ->
  db3_accepts o topics (Some sch) (kept_rows topics msgs) = true /\
  db3_to_mcap o lib compress topics (Some sch) msgs
  = db3_to_mcap o lib compress topics (Some sch) (kept_rows topics msgs).
Proof.
  intro H.
  assert (H' : db3_accepts o topics (Some sch) (kept_rows topics msgs) = true).
  { unfold db3_accepts, db3_wf in *. apply andb_true_iff in H as [H1 H]. apply andb_true_iff in H as [H2 H3].
    rewrite H1, H2. apply forallb_filter, H3. }
  split; [exact H'|].
  destruct (db3_to_mcap_accepted o lib compress topics sch msgs H) as [-> _].
  destruct (db3_to_mcap_accepted o lib compress topics sch _ H') as [-> _].
  rewrite <- db3_expected_calls_skip. reflexivity.
Qed.

(* a row is kept iff its topic id is that of a message topic of the topics table *)
Lemma row_kept_iff topics m :
  row_kept (known_chans topics) m = true <->
  exists t, In t topics /\ is_msg_topic t = true /\ topic_chan t = row_chan m.
Proof.
  unfold row_kept, known_chans. split.
  - intro H. apply nmem_map_in in H as (t & Hin & E). apply filter_In in Hin as [Hin Hm]. exists t. auto.
  - intros (t & Hin & Hm & E). rewrite <- E. apply in_nmem_map. apply filter_In. split; assumption.
Qed.
(* ... with the ids compared as the integers stored in the tables, when both are uint16 *)
Lemma u16_chan_eq a b : u16_ok a = true -> u16_ok b = true -> Z.to_N a = Z.to_N b -> a = b.
Proof. unfold u16_ok. intros Ha Hb E. lia. Qed.

(* ====================================================================================== *)
(* 6. the specified calls, read off the tables                                             *)
(* ====================================================================================== *)

Definition call_msg (c : wcall) : list message := match c with CMessage m => [m] | _ => [] end.
Definition calls_msgs (cs : list wcall) : list message := flat_map call_msg cs.
Definition call_schema (c : wcall) : list schema := match c with CSchema s => [s] | _ => [] end.
Definition calls_schemas (cs : list wcall) : list schema := flat_map call_schema cs.
Definition call_channel (c : wcall) : list channel := match c with CChannel s => [s] | _ => [] end.
Definition calls_channels (cs : list wcall) : list channel := flat_map call_channel cs.

(* every row paired with the number of rows before it that have the same topic id *)
Fixpoint number_rows (before ms : list msg_row) : list (N * msg_row) :=
  match ms with
  | [] => []
  | m :: r => (rows_on (row_chan m) before, m) :: number_rows (before ++ [m]) r
  end.
Definition msg_of (x : N * msg_row) : message := row_message (fst x) (snd x).

Definition db3_messages (topics : list topic_row) (msgs : list msg_row) : list message :=
  map msg_of (number_rows [] (kept_rows topics msgs)).
Definition db3_schemas (topics : list topic_row) (sch : list (bytes * bytes)) : list schema :=
  map (topic_schema sch) (index_from 0 (msg_topics topics)).
Definition db3_channels (topics : list topic_row) : list channel :=
  map topic_channel (index_from 0 (msg_topics topics)).

Lemma rows_calls_all_kept known : forall ms bf,
  forallb (row_kept known) ms = true ->
  rows_calls known bf ms = map (fun x => CMessage (msg_of x)) (number_rows bf ms).
Proof.
  induction ms as [|m r IH]; intros bf H; [reflexivity|].
  cbn [forallb] in H. apply andb_true_iff in H as [H1 H2].
  cbn [rows_calls number_rows map]. rewrite H1. cbn [app]. f_equal. apply IH, H2.
Qed.

Lemma filter_all {A} (f : A -> bool) l : forallb f (filter f l) = true.
Proof. apply forallb_forall. intros x Hx. apply filter_In in Hx. tauto. Qed.

Lemma calls_msgs_app a b : calls_msgs (a ++ b) = calls_msgs a ++ calls_msgs b.
Proof. apply flat_map_app. Qed.
Lemma calls_schemas_app a b : calls_schemas (a ++ b) = calls_schemas a ++ calls_schemas b.
Proof. apply flat_map_app. Qed.
Lemma calls_channels_app a b : calls_channels (a ++ b) = calls_channels a ++ calls_channels b.
Proof. apply flat_map_app. Qed.

Lemma topics_calls_msgs sch : forall ts i, calls_msgs (topics_calls sch i ts) = [].
Proof. induction ts as [|t r IH]; intro i; [reflexivity|]. rewrite topics_calls_cons. cbn. apply IH. Qed.
Lemma topics_calls_schemas sch : forall ts i,
  calls_schemas (topics_calls sch i ts) = map (topic_schema sch) (index_from i ts).
Proof.
  induction ts as [|t r IH]; intro i; [reflexivity|]. rewrite topics_calls_cons, index_from_cons.
  cbn [calls_schemas flat_map call_schema app map]. f_equal. apply IH.
Qed.
Lemma topics_calls_channels sch : forall ts i,
  calls_channels (topics_calls sch i ts) = map topic_channel (index_from i ts).
Proof.
  induction ts as [|t r IH]; intro i; [reflexivity|]. rewrite topics_calls_cons, index_from_cons.
  cbn [calls_channels flat_map call_channel app map]. f_equal. apply IH.
Qed.
Lemma msg_calls_msgs (l : list (N * msg_row)) : calls_msgs (map (fun x => CMessage (msg_of x)) l) = map msg_of l.
Proof. induction l as [|x r IH]; [reflexivity|]. cbn [map calls_msgs flat_map call_msg app]. f_equal. exact IH. Qed.
Lemma msg_calls_schemas (l : list (N * msg_row)) : calls_schemas (map (fun x => CMessage (msg_of x)) l) = [].
Proof. induction l as [|x r IH]; [reflexivity|]. cbn. exact IH. Qed.
Lemma msg_calls_channels (l : list (N * msg_row)) : calls_channels (map (fun x => CMessage (msg_of x)) l) = [].
Proof. induction l as [|x r IH]; [reflexivity|]. cbn. exact IH. Qed.

(* the body calls in closed form *)
Lemma db3_body_calls_eq topics sch msgs :
  db3_body_calls topics sch msgs
  = CHeader ros2_header :: topics_calls sch 0 (msg_topics topics)
    ++ map (fun x => CMessage (msg_of x)) (number_rows [] (kept_rows topics msgs)).
Proof.
  unfold db3_body_calls, kept_rows. rewrite (rows_calls_filter _ msgs), rows_calls_all_kept by apply filter_all.
  reflexivity.
Qed.

Theorem expected_messages topics sch msgs :
  calls_msgs (db3_expected_calls topics sch msgs) = db3_messages topics msgs.
Proof.
  unfold db3_expected_calls. rewrite db3_body_calls_eq. rewrite calls_msgs_app.
  change (calls_msgs (CHeader ros2_header :: ?l)) with (calls_msgs l).
  cbn [calls_msgs flat_map call_msg app]. fold (calls_msgs (topics_calls sch 0 (msg_topics topics) ++
    map (fun x => CMessage (msg_of x)) (number_rows [] (kept_rows topics msgs)))).
  rewrite calls_msgs_app, topics_calls_msgs, msg_calls_msgs, app_nil_r. reflexivity.
Qed.

Theorem expected_schemas topics sch msgs :
  calls_schemas (db3_expected_calls topics sch msgs) = db3_schemas topics sch.
Proof.
  unfold db3_expected_calls. rewrite db3_body_calls_eq. rewrite calls_schemas_app.
  cbn [calls_schemas flat_map call_schema app]. fold (calls_schemas (topics_calls sch 0 (msg_topics topics) ++
    map (fun x => CMessage (msg_of x)) (number_rows [] (kept_rows topics msgs)))).
  rewrite calls_schemas_app, topics_calls_schemas, msg_calls_schemas, !app_nil_r. reflexivity.
Qed.

Theorem expected_channels topics sch msgs :
  calls_channels (db3_expected_calls topics sch msgs) = db3_channels topics.
Proof.
  unfold db3_expected_calls. rewrite db3_body_calls_eq. rewrite calls_channels_app.
  cbn [calls_channels flat_map call_channel app]. fold (calls_channels (topics_calls sch 0 (msg_topics topics) ++
    map (fun x => CMessage (msg_of x)) (number_rows [] (kept_rows topics msgs)))).
  rewrite calls_channels_app, topics_calls_channels, msg_calls_channels, !app_nil_r. reflexivity.
Qed.

(* the rows, in order *)
Lemma number_rows_rows : forall ms bf, map snd (number_rows bf ms) = ms.
Proof. induction ms as [|m r IH]; intro bf; [reflexivity|]. cbn [number_rows map snd]. f_equal. apply IH. Qed.

Lemma number_rows_split : forall l1 bf m l2,
  number_rows bf (l1 ++ m :: l2)
  = number_rows bf l1 ++ (rows_on (row_chan m) (bf ++ l1), m) :: number_rows (bf ++ l1 ++ [m]) l2.
Proof.
  induction l1 as [|x r IH]; intros bf m l2.
  - cbn [app number_rows]. rewrite app_nil_r. reflexivity.
  - cbn [app number_rows]. rewrite IH. rewrite <- !app_assoc. reflexivity.
Qed.

Theorem db3_messages_rows topics msgs :
  length (db3_messages topics msgs) = length (kept_rows topics msgs) /\
  map m_chan (db3_messages topics msgs) = map row_chan (kept_rows topics msgs) /\
  map m_log (db3_messages topics msgs) = map row_time (kept_rows topics msgs) /\
  map m_pub (db3_messages topics msgs) = map row_time (kept_rows topics msgs) /\
  map m_data (db3_messages topics msgs) = map mr_data (kept_rows topics msgs).
Proof.
  unfold db3_messages. rewrite map_length.
  assert (E : forall (f : message -> N) (g : msg_row -> N), (forall x, f (msg_of x) = g (snd x)) ->
              map f (map msg_of (number_rows [] (kept_rows topics msgs))) = map g (kept_rows topics msgs)).
  { intros f g H. rewrite map_map. rewrite <- (number_rows_rows (kept_rows topics msgs) []) at 2. rewrite map_map.
    apply map_ext. exact H. }
  split; [rewrite <- (number_rows_rows (kept_rows topics msgs) []) at 2; rewrite map_length; reflexivity|].
  split; [apply E; reflexivity|]. split; [apply E; reflexivity|]. split; [apply E; reflexivity|].
  rewrite map_map. rewrite <- (number_rows_rows (kept_rows topics msgs) []) at 2. rewrite map_map. reflexivity.
Qed.

(* the message of a converted row: its sequence number is the number of converted rows before it with the same
   topic id (mod 2^32), its times are the row's timestamp, its payload the row's data *)
Theorem db3_messages_at topics msgs l1 m l2 :
  kept_rows topics msgs = l1 ++ m :: l2 ->
  exists ms1 ms2,
    db3_messages topics msgs = ms1 ++ row_message (rows_on (row_chan m) l1) m :: ms2 /\
    length ms1 = length l1 /\ length ms2 = length l2.
Proof.
  intro E. unfold db3_messages. rewrite E, number_rows_split, map_app. cbn [map app].
  eexists. eexists. split; [reflexivity|]. rewrite !map_length.
  split.
  - rewrite <- (number_rows_rows l1 []) at 2. rewrite map_length. reflexivity.
  - rewrite <- (number_rows_rows l2 ([] ++ l1 ++ [m])) at 2. rewrite map_length. reflexivity.
Qed.

Lemma row_message_fields n m :
  let x := row_message n m in
  m_chan x = Z.to_N (mr_topic m) /\ m_seq x = n mod two32 /\
  m_log x = Z.to_N (mr_ts m mod 18446744073709551616)%Z /\ m_pub x = m_log x /\ m_data x = mr_data m.
Proof. cbv zeta. repeat split. Qed.

Lemma topic_schema_fields sch i t :
  let s := topic_schema sch (i, t) in
  s_id s = (i + 1) mod two16 /\ s_name s = t_type t /\ s_encoding s = s_ros2msg /\
  (forall d, schema_of (t_type t) sch = Some d -> s_data s = d).
Proof. cbv zeta. repeat split. intros d H. unfold topic_schema. cbn [s_data fst snd]. rewrite H. reflexivity. Qed.

Lemma topic_channel_fields i t :
  let c := topic_channel (i, t) in
  c_id c = Z.to_N (t_id t) /\ c_schema c = (i + 1) mod two16 /\ c_topic c = t_name t /\ c_menc c = t_fmt t /\
  c_meta c = match t_qos t with Some q => [(s_qos, q)] | None => [] end.
Proof. cbv zeta. repeat split. Qed.

(* schema ids are 1, 2, 3, ... in the order of the message topics, one schema (and one channel) per message topic *)
Lemma index_from_bound {A} (l : list A) : forall i j x, In (j, x) (index_from i l) -> i <= j < i + N.of_nat (length l).
Proof.
  induction l as [|y r IH]; intros i j x H; [destruct H|]. cbn [index_from length] in *.
  destruct H as [H|H]; [injection H as <- <-; lia|]. apply IH in H. lia.
Qed.
Lemma index_from_items {A} (l : list A) : forall i, map snd (index_from i l) = l.
Proof. induction l as [|y r IH]; intro i; [reflexivity|]. cbn [index_from map snd]. f_equal. apply IH. Qed.

Theorem db3_schema_ids topics sch :
  N.of_nat (length (msg_topics topics)) <= 65535 ->
  map s_id (db3_schemas topics sch) = map (fun x => fst x + 1) (index_from 0 (msg_topics topics)) /\
  map c_schema (db3_channels topics) = map s_id (db3_schemas topics sch) /\
  map s_name (db3_schemas topics sch) = map t_type (msg_topics topics) /\
  map c_topic (db3_channels topics) = map t_name (msg_topics topics) /\
  map c_id (db3_channels topics) = known_chans topics.
Proof.
  intro H. unfold db3_schemas, db3_channels, known_chans. rewrite !map_map. split; [|split; [|split; [|split]]].
  - apply map_ext_in. intros [j t] Hin. apply index_from_bound in Hin. cbn [topic_schema s_id fst].
    unfold two16. apply N.mod_small. lia.
  - reflexivity.
  - rewrite <- (index_from_items (msg_topics topics) 0) at 2. rewrite map_map. reflexivity.
  - rewrite <- (index_from_items (msg_topics topics) 0) at 2. rewrite map_map. reflexivity.
  - rewrite <- (index_from_items (msg_topics topics) 0) at 2. rewrite map_map. reflexivity.
Qed.

(* every written message is on a written channel: the channel of the message topic with the row's topic id *)
Theorem db3_message_channel topics msgs m :
  In m (db3_messages topics msgs) -> In (m_chan m) (map c_id (db3_channels topics)).
Proof.
  intro H. unfold db3_messages in H. apply in_map_iff in H as ([n r] & <- & Hin).
  assert (Hr : In r (kept_rows topics msgs)).
  { rewrite <- (number_rows_rows (kept_rows topics msgs) []). apply in_map_iff. exists (n, r). split; [reflexivity|exact Hin]. }
  apply filter_In in Hr as [_ Hk]. apply row_kept_iff in Hk as (t & Hin' & Hm & E).
  cbn [msg_of row_message m_chan fst snd]. rewrite <- E.
  unfold db3_channels. rewrite map_map.
  assert (Ht : In t (msg_topics topics)) by (apply filter_In; split; assumption).
  rewrite <- (index_from_items (msg_topics topics) 0) in Ht. apply in_map_iff in Ht as ([j t'] & Ej & Hj).
  cbn [snd] in Ej. subst t'. apply in_map_iff. exists (j, t). split; [reflexivity|exact Hj].
Qed.

(* ====================================================================================== *)
(* 6'. the deferred Close succeeds too (fault-free writer)                                 *)
(* ====================================================================================== *)

(* what Close needs when it repeats the schemas and channels in the summary section: no registered schema has id 0,
   every registered channel refers to schema 0 or to a registered schema *)
Definition chan_ok (w : wstate) (p : N * channel) : Prop :=
  c_schema (snd p) = 0 \/ has (c_schema (snd p)) (w_schemas w) = true.
Definition sch_inv (w : wstate) : Prop :=
  Forall (fun p : N * schema => s_id (snd p) <> 0) (w_schemas w) /\ Forall (chan_ok w) (w_channels w).

Lemma sch_inv_frame w w' : w_schemas w' = w_schemas w -> w_channels w' = w_channels w -> sch_inv w -> sch_inv w'.
Proof. unfold sch_inv, chan_ok. intros -> ->. tauto. Qed.

Lemma has_app_l {A} k (l : list (N * A)) x : has k l = true -> has k (l ++ [x]) = true.
Proof. intro H. rewrite has_app, H. reflexivity. Qed.

Lemma add_schema_inv sc w : s_id sc <> 0 -> sch_inv w -> sch_inv (add_schema sc w).
Proof.
  intros Hid [H1 H2]. unfold add_schema. destruct (assoc_get (s_id sc) (w_schemas w)); [split; assumption|].
  unfold sch_inv, chan_ok, set. cbn. split.
  - apply Forall_app. split; [exact H1|]. constructor; [exact Hid|constructor].
  - eapply Forall_impl; [|exact H2]. intros p [Hp|Hp]; [left; exact Hp|right; apply has_app_l, Hp].
Qed.
Lemma add_schema_frame sc w :
  w_channels (add_schema sc w) = w_channels w /\
  (forall k, has k (w_schemas w) = true -> has k (w_schemas (add_schema sc w)) = true).
Proof.
  unfold add_schema. destruct (assoc_get (s_id sc) (w_schemas w)); [split; auto|].
  unfold set. cbn. split; [reflexivity|]. intros k. apply has_app_l.
Qed.
Lemma add_channel_inv c w : c_schema c = 0 \/ has (c_schema c) (w_schemas w) = true -> sch_inv w -> sch_inv (add_channel c w).
Proof.
  intros Hc [H1 H2]. unfold add_channel. destruct (assoc_get (c_id c) (w_channels w)); [split; assumption|].
  unfold sch_inv, chan_ok, set. cbn. split; [exact H1|].
  apply Forall_app. split; [exact H2|]. constructor; [exact Hc|constructor].
Qed.
Lemma add_channel_schemas c w : w_schemas (add_channel c w) = w_schemas w.
Proof. unfold add_channel. destruct (assoc_get (c_id c) (w_channels w)); reflexivity. Qed.

Section ClosePass.
Variable o : wopts.
Variable lib : bytes.
Variable compress : nat -> bytes -> bytes.

Notation step := (step o lib compress None).

Lemma schema_step_eq sc w : s_id sc <> 0 ->
  step (CSchema sc) w
  = (add_schema sc (if in_chunk o w then rec_chunk OpSchema (enc_schema sc) w else rec_dst o OpSchema (enc_schema sc) w), None).
Proof.
  intro H. cbn [Writer.step]. unfold write_schema.
  destruct (s_id sc =? 0) eqn:E; [apply N.eqb_eq in E; congruence|]. rewrite auto_rec. reflexivity.
Qed.
Lemma channel_step_eq c w : c_schema c = 0 \/ has (c_schema c) (w_schemas w) = true ->
  step (CChannel c) w
  = (add_channel c (if in_chunk o w then rec_chunk OpChannel (enc_channel c) w else rec_dst o OpChannel (enc_channel c) w), None).
Proof.
  intro H. cbn [Writer.step]. unfold write_channel.
  assert (E : (0 <? c_schema c) && negb (match assoc_get (c_schema c) (w_schemas w) with Some _ => true | None => false end) = false).
  { destruct H as [H|H]; [rewrite H; reflexivity|]. unfold has in H. rewrite H. apply andb_false_r. }
  rewrite E, auto_rec. reflexivity.
Qed.
Lemma channel_step_cond c w : snd (step (CChannel c) w) = None -> c_schema c = 0 \/ has (c_schema c) (w_schemas w) = true.
Proof.
  cbn [Writer.step]. unfold write_channel, has.
  destruct (0 <? c_schema c) eqn:E0; [|intros _; left; apply N.ltb_ge in E0; lia].
  destruct (assoc_get (c_schema c) (w_schemas w)); cbn [negb andb]; [intros _; right; reflexivity|discriminate].
Qed.

Lemma schema_step_inv sc w : snd (step (CSchema sc) w) = None -> sch_inv w -> sch_inv (fst (step (CSchema sc) w)).
Proof.
  intros Hp Hi. destruct (N.eq_dec (s_id sc) 0) as [E|E]; [rewrite schema_step_zero in Hp by exact E; discriminate|].
  rewrite schema_step_eq by exact E. cbn [fst]. apply add_schema_inv; [exact E|].
  destruct (auto_rec_frame o OpSchema (enc_schema sc) w) as [Hc Hs]. cbv zeta in Hc, Hs.
  eapply sch_inv_frame; eassumption.
Qed.
Lemma channel_step_inv c w : snd (step (CChannel c) w) = None -> sch_inv w -> sch_inv (fst (step (CChannel c) w)).
Proof.
  intros Hp Hi. apply channel_step_cond in Hp. rewrite channel_step_eq by exact Hp. cbn [fst].
  destruct (auto_rec_frame o OpChannel (enc_channel c) w) as [Hc Hs]. cbv zeta in Hc, Hs.
  apply add_channel_inv; [rewrite Hs; exact Hp|]. eapply sch_inv_frame; eassumption.
Qed.

Lemma schemas_wmis mis : forall s, w_schemas (wmis o mis s) = w_schemas s.
Proof. induction mis as [|mi r IH]; intro s; [reflexivity|]. cbn [wmis fold_left]. etransitivity; [apply IH|reflexivity]. Qed.
Lemma schemas_flushed s : w_schemas (flushed o compress s) = w_schemas s.
Proof. unfold flushed, chunk_written. cbv zeta. wsimpl. rewrite schemas_wmis. reflexivity. Qed.
Lemma schemas_stats_time t s : w_schemas (stats_time t s) = w_schemas s.
Proof.
  unfold stats_time. destruct (w_st_end s <? t);
  match goal with |- context [if ?c then _ else _] => destruct c end; reflexivity.
Qed.

Lemma message_step_inv m w : snd (step (CMessage m) w) = None -> sch_inv w -> sch_inv (fst (step (CMessage m) w)).
Proof.
  intros Hp Hi. cbn [Writer.step] in *.
  destruct (write_message o compress None m w) as [w' e] eqn:E. cbn [fst snd] in *. subst e.
  apply write_message_eq in E. destruct E as (c & _ & ->).
  eapply sch_inv_frame; [| |exact Hi].
  - rewrite schemas_stats_time. destruct (in_chunk o w); [|reflexivity].
    destruct (o_chunksize o <? Z.of_N (blen (w_cbuf (msg_chunk_state m w))))%Z; [rewrite schemas_flushed|]; reflexivity.
  - rewrite (channels_stats_time). destruct (in_chunk o w); [|reflexivity].
    destruct (o_chunksize o <? Z.of_N (blen (w_cbuf (msg_chunk_state m w))))%Z; [rewrite channels_flushed|]; reflexivity.
Qed.

Definition data_call (c : wcall) : Prop :=
  match c with CHeader _ | CSchema _ | CChannel _ | CMessage _ => True | _ => False end.

Lemma exec_inv cs : forall w, Forall data_call cs -> calls_pass o lib compress cs w -> sch_inv w ->
  sch_inv (exec o lib compress cs w).
Proof.
  induction cs as [|c r IH]; intros w Hk Hp Hi; [exact Hi|].
  inversion Hk as [|? ? Hc Hr]; subst. cbn [calls_pass] in Hp. destruct Hp as [Hp1 Hp2]. cbn [exec].
  apply IH; [exact Hr|exact Hp2|].
  destruct c as [h|sc|ch|m|a src|md|]; try destruct Hc.
  - destruct (header_step_frame o lib compress h w) as [A B]. eapply sch_inv_frame; eassumption.
  - apply schema_step_inv; assumption.
  - apply channel_step_inv; assumption.
  - apply message_step_inv; assumption.
Qed.

(* --- Close --- *)
Lemma write_all_dst {A} op (g : A -> bytes) : forall l s,
  snd (write_all (fun x => write_record_dst o None op (g x)) l s) = None.
Proof.
  induction l as [|x r IH]; intro s; [reflexivity|]. cbn [write_all]. rewrite wrd_eq. cbn [bindw]. apply IH.
Qed.

Lemma write_all_schemas : forall l s, Forall (fun sc => s_id sc <> 0) l ->
  snd (write_all (write_schema o None) l s) = None /\
  w_channels (fst (write_all (write_schema o None) l s)) = w_channels s /\
  (forall k, has k (w_schemas s) = true -> has k (w_schemas (fst (write_all (write_schema o None) l s))) = true).
Proof.
  induction l as [|sc r IH]; intros s H; [repeat split; auto|].
  inversion H as [|? ? H1 H2]; subst. cbn [write_all].
  pose proof (schema_step_eq sc s H1) as E. cbn [Writer.step] in E. rewrite E. cbn [bindw].
  set (s1 := if in_chunk o s then _ else _) in *.
  destruct (auto_rec_frame o OpSchema (enc_schema sc) s) as [Hc Hs]. cbv zeta in Hc, Hs. fold s1 in Hc, Hs.
  destruct (add_schema_frame sc s1) as [F1 F2].
  destruct (IH (add_schema sc s1) H2) as (I1 & I2 & I3).
  split; [exact I1|]. split; [rewrite I2, F1, Hc; reflexivity|].
  intros k Hk. apply I3, F2. rewrite Hs. exact Hk.
Qed.

Lemma write_all_channels : forall l s,
  Forall (fun c => c_schema c = 0 \/ has (c_schema c) (w_schemas s) = true) l ->
  snd (write_all (write_channel o None) l s) = None.
Proof.
  induction l as [|c r IH]; intros s H; [reflexivity|].
  inversion H as [|? ? H1 H2]; subst. cbn [write_all].
  pose proof (channel_step_eq c s H1) as E. cbn [Writer.step] in E. rewrite E. cbn [bindw].
  apply IH. rewrite add_channel_schemas.
  destruct (auto_rec_frame o OpChannel (enc_channel c) s) as [_ Hs]. cbv zeta in Hs. rewrite Hs. exact H2.
Qed.

Definition serr (x : sres) : option err := snd (fst x).
Definition sst (x : sres) : wstate := fst (fst x).

Lemma grp_pass cond op f x :
  serr x = None -> (cond (sst x) = true -> snd (f (sst x)) = None) -> serr (grp cond op f x) = None.
Proof.
  destruct x as [[s e] offs]. unfold serr, sst. cbn [fst snd]. intros -> H. unfold grp.
  destruct (cond s); [|reflexivity]. specialize (H eq_refl). destruct (f s) as [s1 e1]. cbn [snd] in H. subst e1. reflexivity.
Qed.

Lemma summary_pass s : sch_inv s -> serr (write_summary o None s) = None.
Proof.
  intros [H1 H2]. rewrite write_summary_grp.
  apply grp_pass; [|intros _; apply write_all_dst].
  apply grp_pass; [|intros _; apply write_all_dst].
  apply grp_pass; [|intros _; apply write_all_dst].
  apply grp_pass; [|intros _; unfold g_sta; rewrite wrd_eq; reflexivity].
  assert (HS : Forall (fun sc => s_id sc <> 0) (map snd (w_schemas s))).
  { apply Forall_map. exact H1. }
  destruct (write_all_schemas (map snd (w_schemas s)) s HS) as (S1 & S2 & S3).
  assert (HX : serr (grp (c_sch o) OpSchema (g_sch o None) (s, None, [])) = None /\
               w_channels (sst (grp (c_sch o) OpSchema (g_sch o None) (s, None, []))) = w_channels s /\
               (forall k, has k (w_schemas s) = true ->
                          has k (w_schemas (sst (grp (c_sch o) OpSchema (g_sch o None) (s, None, [])))) = true)).
  { unfold grp, g_sch. destruct (c_sch o s); [|repeat split; auto].
    destruct (write_all (write_schema o None) (map snd (w_schemas s)) s) as [s1 e1]. cbn [fst snd] in S1, S2, S3. subst e1.
    unfold serr, sst. cbn [fst snd]. repeat split; auto. }
  destruct HX as (X1 & X2 & X3).
  apply grp_pass; [exact X1|]. intros _. unfold g_chn. apply write_all_channels.
  rewrite X2. apply Forall_map. eapply Forall_impl; [|exact H2].
  intros p [Hp|Hp]; [left; exact Hp|right; apply X3, Hp].
Qed.

Lemma close_tail_pass s : sch_inv s -> snd (close_tail o s) = None.
Proof.
  intro Hi. unfold close_tail. cbv zeta. rewrite wrd_eq. cbn [bindw].
  match goal with |- context [write_summary o None ?S] => set (s1 := S) end.
  assert (Hi1 : sch_inv s1) by (eapply sch_inv_frame; [| |exact Hi]; reflexivity).
  pose proof (summary_pass s1 Hi1) as HS.
  destruct (write_summary o None s1) as [[s2 e2] offs]. unfold serr in HS. cbn [fst snd] in HS. subst e2.
  match goal with |- context [if ?c then write_all ?f offs s2 else _] =>
    set (X := if c then write_all f offs s2 else (s2, None));
    assert (HW : snd X = None) by (subst X; destruct c; [apply write_all_dst|reflexivity]) end.
  destruct X as [s3 e3].
  cbn [snd] in HW. subst e3. cbn [bindw]. rewrite write_footer_eq. cbn [bindw].
  rewrite dst_write_none. cbn [bindw]. reflexivity.
Qed.

Lemma close_pass s : sch_inv s -> snd (step CClose s) = None.
Proof.
  intro Hi. cbn [Writer.step]. rewrite close_split.
  destruct (o_chunked o); [|cbn [bindw]; apply close_tail_pass, Hi].
  destruct (w_cbuf s) eqn:E.
  - rewrite flush_nil by exact E. cbn [bindw]. apply close_tail_pass, Hi.
  - rewrite flush_eq by congruence. cbn [bindw]. apply close_tail_pass.
    eapply sch_inv_frame; [apply schemas_flushed|apply channels_flushed|exact Hi].
Qed.

Lemma new_writer_inv w0 : new_writer o None = (w0, None) -> sch_inv w0.
Proof.
  unfold new_writer.
  destruct (o_skip_magic o); [|rewrite dst_write_none; cbn [bindw]; rewrite log_eq]; cbn [bindw]; intro H;
  (assert (E : w_schemas w0 = [] /\ w_channels w0 = []);
   [destruct (o_chunked o);
    [destruct (o_custom o);
     [destruct (bytes_eqb (o_comp o) [])
     |destruct (bytes_eqb (o_comp o) comp_zstd || bytes_eqb (o_comp o) comp_lz4 || bytes_eqb (o_comp o) [])]|];
    try discriminate; injection H as <-; split; reflexivity
   |destruct E as [E1 E2]; unfold sch_inv; rewrite E1, E2; split; constructor]).
Qed.

End ClosePass.

Lemma body_data_calls topics sch msgs : Forall data_call (db3_body_calls topics sch msgs).
Proof.
  rewrite db3_body_calls_eq. constructor; [exact I|]. apply Forall_app. split.
  - generalize 0. induction (msg_topics topics) as [|t r IH]; intro i; [constructor|].
    rewrite topics_calls_cons. constructor; [exact I|]. constructor; [exact I|]. apply IH.
  - apply Forall_map. apply Forall_forall. intros x _. exact I.
Qed.

(* the writer accepts every specified call, the deferred Close included *)
Theorem db3_expected_calls_ok o lib compress topics sch msgs :
  db3_accepts o topics (Some sch) msgs = true ->
  calls_ok (W o lib compress None (db3_expected_calls topics sch msgs)).
Proof.
  intro H. destruct (db3_to_mcap_accepted o lib compress topics sch msgs H) as [_ Hb].
  apply calls_ok_exec in Hb as (w0 & EN & Hp). apply calls_ok_exec. exists w0. split; [exact EN|].
  unfold db3_expected_calls. apply calls_pass_app. split; [exact Hp|]. cbn [calls_pass]. split; [|exact I].
  apply close_pass. apply exec_inv; [apply body_data_calls|exact Hp|]. exact (new_writer_inv _ _ EN).
Qed.

(* ====================================================================================== *)
(* 7. content of the written file                                                          *)
(* ====================================================================================== *)

Lemma expected_records_msgs o lib : forall cs,
  expected_records o lib (filter is_message cs) = map (fun m => CR OpMessage (enc_message m)) (calls_msgs cs).
Proof.
  induction cs as [|c r IH]; [reflexivity|].
  destruct c; cbn [filter is_message calls_msgs flat_map call_msg app]; try exact IH.
  cbn [expected_records flat_map call_rec app map]. f_equal. exact IH.
Qed.
Lemma expected_records_schemas o lib : forall cs,
  expected_records o lib (filter is_schema_call cs) = map (fun s => CR OpSchema (enc_schema s)) (calls_schemas cs).
Proof.
  induction cs as [|c r IH]; [reflexivity|].
  destruct c; cbn [filter is_schema_call calls_schemas flat_map call_schema app]; try exact IH.
  cbn [expected_records flat_map call_rec app map]. f_equal. exact IH.
Qed.
Lemma expected_records_channels o lib : forall cs,
  expected_records o lib (filter is_channel_call cs) = map (fun c => CR OpChannel (enc_channel c)) (calls_channels cs).
Proof.
  induction cs as [|c r IH]; [reflexivity|].
  destruct c; cbn [filter is_channel_call calls_channels flat_map call_channel app]; try exact IH.
  cbn [expected_records flat_map call_rec app map]. f_equal. exact IH.
Qed.

Lemma calls_msgs_body topics sch msgs : calls_msgs (db3_body_calls topics sch msgs) = db3_messages topics msgs.
Proof.
  rewrite <- (expected_messages topics sch msgs). unfold db3_expected_calls. rewrite calls_msgs_app.
  cbn [calls_msgs flat_map call_msg app]. rewrite app_nil_r. reflexivity.
Qed.
Lemma calls_schemas_body topics sch msgs : calls_schemas (db3_body_calls topics sch msgs) = db3_schemas topics sch.
Proof.
  rewrite <- (expected_schemas topics sch msgs). unfold db3_expected_calls. rewrite calls_schemas_app.
  cbn [calls_schemas flat_map call_schema app]. rewrite app_nil_r. reflexivity.
Qed.
Lemma calls_channels_body topics sch msgs : calls_channels (db3_body_calls topics sch msgs) = db3_channels topics.
Proof.
  rewrite <- (expected_channels topics sch msgs). unfold db3_expected_calls. rewrite calls_channels_app.
  cbn [calls_channels flat_map call_channel app]. rewrite app_nil_r. reflexivity.
Qed.

Lemma body_no_close topics sch msgs : Forall (fun c => c <> CClose) (db3_body_calls topics sch msgs).
Proof.
  eapply Forall_impl; [|apply body_data_calls]. intros c Hc ->. exact Hc.
Qed.

Lemma body_header_calls topics sch msgs :
  filter is_header_call (db3_body_calls topics sch msgs) = [CHeader ros2_header].
Proof.
  rewrite db3_body_calls_eq. cbn [filter is_header_call]. f_equal. rewrite filter_app.
  assert (A : forall ts i, filter is_header_call (topics_calls sch i ts) = []).
  { induction ts as [|t r IH]; intro i; [reflexivity|]. rewrite topics_calls_cons. cbn [filter is_header_call]. apply IH. }
  rewrite A. cbn [app]. induction (number_rows [] (kept_rows topics msgs)) as [|x r IH]; [reflexivity|exact IH].
Qed.

Lemma C06_hyps_body o lib compress topics sch msgs :
  db3_accepts o topics (Some sch) msgs = true -> C06_hyps o lib compress (db3_body_calls topics sch msgs).
Proof.
  intro H. pose proof (db3_expected_calls_ok o lib compress topics sch msgs H) as [H1 H2].
  split; [exact H1|]. split; [exact H2|apply body_no_close].
Qed.

(* Theorem 4.  unz: any function undoing the compressor oracle; call_small: every record that can go through a chunk
   is shorter than 2^64 bytes (true of any Go slice).  The bytes written are the rendering of the ghost trace; its
   data section (chunks replaced by the records of their uncompressed content) holds, per class and in order:
   the header with profile "ros2"; one schema per message topic; one channel per message topic; one message per
   converted row, in the order of the rows; and schemas, channels and messages in their mutual call order. *)
Theorem db3_file_content o lib compress unz topics sch msgs :
  db3_accepts o topics (Some sch) msgs = true ->
  (forall n plain, unz (o_comp o) (compress n plain) = plain) ->
  Forall call_small (db3_body_calls topics sch msgs) ->
  let R := db3_to_mcap o lib compress topics (Some sch) msgs in
  let recs := data_records unz (rev (w_trace (dr_final R))) in
  dr_err R = None /\
  concat (dr_writes R) = render (rev (w_trace (dr_final R))) /\
  filter (is_op OpHeader) recs
    = [CR OpHeader (enc_header {| h_profile := s_ros2; h_library := header_library o lib ros2_header |})] /\
  filter (is_op OpSchema) recs = map (fun s => CR OpSchema (enc_schema s)) (db3_schemas topics sch) /\
  filter (is_op OpChannel) recs = map (fun c => CR OpChannel (enc_channel c)) (db3_channels topics) /\
  filter (is_op OpMessage) recs = map (fun m => CR OpMessage (enc_message m)) (db3_messages topics msgs) /\
  filter is_auto recs = expected_records o lib (filter call_auto (db3_body_calls topics sch msgs)).
Proof.
  intros Hacc Hunz Hsmall R recs. subst recs R.
  pose proof (C06_hyps_body o lib compress topics sch msgs Hacc) as HC.
  destruct (db3_to_mcap_accepted o lib compress topics sch msgs Hacc) as [-> _]. cbn [dr_err dr_writes dr_final].
  unfold db3_expected_calls.
  pose proof (C01_file_is_trace_thm o lib compress _ HC) as HF. cbv zeta in HF. unfold file_of in HF.
  destruct (C01_trace_classes_thm o lib compress unz _ HC Hunz Hsmall) as (A & _ & _ & D & _ & M & S & C).
  split; [reflexivity|]. split; [exact HF|].
  split; [rewrite D, body_header_calls; reflexivity|].
  split; [rewrite S, expected_records_schemas, calls_schemas_body; reflexivity|].
  split; [rewrite C, expected_records_channels, calls_channels_body; reflexivity|].
  split; [rewrite M, expected_records_msgs, calls_msgs_body; reflexivity|exact A].
Qed.

(* ====================================================================================== *)
(* 8. examples                                                                             *)
(* ====================================================================================== *)

Definition bs (l : list N) : bytes := map byte_of_N l.
Definition ex_type_a : bytes := bs [112;107;103;47;109;115;103;47;65].          (* "pkg/msg/A" *)
Definition ex_type_b : bytes := bs [112;107;103;47;109;115;103;47;66].          (* "pkg/msg/B" *)
Definition ex_type_s : bytes := bs [112;107;103;47;115;114;118;47;83].          (* "pkg/srv/S": not a message type *)
Definition ex_cdr : bytes := bs [99;100;114].
(* three topics, the second one a service topic *)
Definition ex_topics : list topic_row :=
  [ {| t_id := 1; t_name := bs [47;97]; t_type := ex_type_a; t_fmt := ex_cdr; t_qos := Some (bs [113;111;115]) |};
    {| t_id := 2; t_name := bs [47;115;114;118]; t_type := ex_type_s; t_fmt := ex_cdr; t_qos := None |};
    {| t_id := 3; t_name := bs [47;98]; t_type := ex_type_b; t_fmt := ex_cdr; t_qos := None |} ].
(* the definitions of the two message types *)
Definition ex_sch : list (bytes * bytes) :=
  [ (ex_type_a, bs [105;110;116;51;50;32;120]); (ex_type_b, bs [115;116;114;105;110;103;32;115]) ].
(* five rows of message topics (two of them with the same timestamp) and one row of the service topic *)
Definition ex_msgs : list msg_row :=
  [ {| mr_topic := 1; mr_ts := 10; mr_data := bs [1;2;3] |};
    {| mr_topic := 2; mr_ts := 15; mr_data := bs [9;9] |};
    {| mr_topic := 3; mr_ts := 20; mr_data := bs [4] |};
    {| mr_topic := 1; mr_ts := 20; mr_data := bs [] |};
    {| mr_topic := 3; mr_ts := 30; mr_data := bs [5;6] |};
    {| mr_topic := 1; mr_ts := 31; mr_data := bs [7] |} ].
(* unchunked / one chunk of the default size / a new chunk after every 60 bytes *)
Definition ex_opts (chunked : bool) (chunksize : Z) : wopts :=
  {| o_crc := true; o_chunked := chunked; o_chunksize := chunksize; o_comp := []; o_custom := false; o_skip_mi := false;
     o_skip_stats := false; o_skip_rsh := false; o_skip_rch := false; o_skip_ai := false; o_skip_mdi := false;
     o_skip_ci := false; o_skip_so := false; o_override_lib := false; o_skip_magic := false |}.
Definition ex_lib : bytes := bs [109;99;97;112].
Definition ex_compress : nat -> bytes -> bytes := fun _ b => b.
Definition ex_unz : bytes -> bytes -> bytes := fun _ b => b.

Definition call_code (c : wcall) : N :=
  match c with
  | CHeader _ => 1 | CSchema s => 100 + s_id s | CChannel c => 200 + 10 * c_id c + c_schema c
  | CMessage m => 1000 + 100 * m_chan m + m_seq m | CClose => 9 | _ => 0
  end.

Lemma ex_accepted : forall chunked cs, db3_accepts (ex_opts chunked cs) ex_topics (Some ex_sch) ex_msgs = true.
Proof.
  intros chunked cs. unfold db3_accepts.
  assert (E : new_ok (ex_opts chunked cs) = true).
  { unfold new_ok, effective_opts. cbn [ex_opts o_chunked o_chunksize].
    destruct chunked; cbn [andb]; [destruct (cs =? 0)%Z|]; reflexivity. }
  rewrite E. reflexivity.
Qed.

Lemma ex_call_small : Forall call_small (db3_body_calls ex_topics ex_sch ex_msgs).
Proof. repeat constructor. Qed.

(* two topics of the same type: the converter writes the schema twice (ids 1 and 2) *)
Definition ex_topics_same_type : list topic_row :=
  [ {| t_id := 5; t_name := bs [47;97]; t_type := ex_type_a; t_fmt := ex_cdr; t_qos := None |};
    {| t_id := 6; t_name := bs [47;98]; t_type := ex_type_a; t_fmt := ex_cdr; t_qos := None |} ].

(* the acceptance predicate, spelled out *)
Lemma u16_ok_iff z : u16_ok z = true <-> (0 <= z <= 65535)%Z.
Proof. unfold u16_ok. lia. Qed.

Theorem db3_accepts_iff o topics sch msgs :
  db3_accepts o topics (Some sch) msgs = true <->
  new_ok o = true /\
  (forall t, In t topics -> (0 <= t_id t <= 65535)%Z) /\
  (forall t, In t topics -> is_msg_topic t = true -> schema_of (t_type t) sch <> None) /\
  N.of_nat (length (msg_topics topics)) <= 65535 /\
  (forall m, In m msgs -> (0 <= mr_topic m <= 65535)%Z).
Proof.
  unfold db3_accepts, db3_wf. rewrite !andb_true_iff, !forallb_forall, N.leb_le. split.
  - intros (H0 & ((H1 & H2) & H3) & H4). split; [exact H0|]. split; [|split; [|split]].
    + intros t Ht. apply u16_ok_iff, H1, Ht.
    + intros t Ht Hm. assert (Hin : In t (msg_topics topics)) by (apply filter_In; split; assumption).
      specialize (H2 t Hin). unfold has_schema in H2. destruct (schema_of (t_type t) sch); congruence.
    + exact H3.
    + intros m Hm. apply u16_ok_iff, H4, Hm.
  - intros (H0 & H1 & H2 & H3 & H4). split; [exact H0|]. split; [split; [split|]|].
    + intros t Ht. apply u16_ok_iff, H1, Ht.
    + intros t Ht. apply filter_In in Ht as [Ht Hm]. specialize (H2 t Ht Hm). unfold has_schema.
      destruct (schema_of (t_type t) sch); congruence.
    + exact H3.
    + intros m Hm. apply u16_ok_iff, H4, Hm.
Qed.

Lemma db3_expected_calls_eq topics sch msgs :
  db3_expected_calls topics sch msgs
  = (CHeader ros2_header :: topics_calls sch 0 (msg_topics topics)
     ++ map (fun x => CMessage (msg_of x)) (number_rows [] (kept_rows topics msgs))) ++ [CClose].
Proof. unfold db3_expected_calls. rewrite db3_body_calls_eq. reflexivity. Qed.

(* 65536 message topics *)
Definition ex_many_topics : list topic_row :=
  repeat {| t_id := 1; t_name := bs [47;97]; t_type := ex_type_a; t_fmt := ex_cdr; t_qos := None |} (N.to_nat 65536).
