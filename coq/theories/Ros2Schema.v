(* Ros2Schema.v - executable model of the schema assembly of go/ros/ros2db3_to_mcap.go:
   getSchema, getSchemas, fieldToQualifiedROSType, with the pieces of the Go library they use
   (strings.FieldsFunc/Split/TrimSpace/Index/Replace, path.Join = path.Clean, filepath.Split) and the file
   system as a finite tree (os.ReadFile: content, "does not exist", or another error).

   Paths are lists of components below a virtual root; the search directories are such lists. Above the
   virtual root the model keeps ".." at the root as path.Clean does for rooted paths ("/.." = "/"); the
   correspondence harness never generates inputs that climb above the scratch directory it creates. *)
From Coq Require Import List NArith ZArith Bool.
From Coq.Strings Require Import Byte.
From Mcap Require Import Bytes GoSem Records Writer Ros1Msg Db3.
Import ListNotations.
Open Scope N_scope.
Open Scope go_scope.

(* ---------- strings ---------- *)
(* strings.FieldsFunc(s, c == sep): maximal runs of non-separator bytes *)
Fixpoint fields_aux (sep : N) (s : bytes) (cur : bytes) : list bytes :=
  match s with
  | [] => match cur with [] => [] | _ => [rev cur] end
  | b :: r => if is_byte b sep
              then match cur with [] => fields_aux sep r [] | _ => rev cur :: fields_aux sep r [] end
              else fields_aux sep r (b :: cur)
  end.
Definition fields_by (sep : N) (s : bytes) : list bytes := fields_aux sep s [].

(* strings.Index(s, one byte) > 0 ? s[:i] : s *)
Definition cut_at (c : N) (s : bytes) : bytes :=
  match index_byte c s with
  | Some (S i) => firstn (S i) s
  | _ => s
  end.

(* strings.Replace(s, "/msg/", "/", 1) *)
Definition s_msg : bytes := str [47; 109; 115; 103; 47].
Fixpoint replace_msg (s : bytes) : bytes :=
  match s with
  | [] => []
  | b :: r => if starts_with s_msg s then x2f :: skipn 5 s else b :: replace_msg r
  end.

(* filepath.Split(line): the part after the last '/' *)
Definition base_name (line : bytes) : bytes := last (split_byte 47 line) [].

(* ---------- path.Clean / path.Join on component lists ---------- *)
Definition s_dot : bytes := [x2e].
Definition s_dotdot : bytes := [x2e; x2e].

(* rooted: ".." at the root is dropped *)
Fixpoint clean_rooted (comps : list bytes) (stack : list bytes) : list bytes :=
  match comps with
  | [] => rev stack
  | c :: r =>
    match c with
    | [] => clean_rooted r stack
    | _ => if bytes_eqb c s_dot then clean_rooted r stack
           else if bytes_eqb c s_dotdot then clean_rooted r (tl stack)
           else clean_rooted r (c :: stack)
    end
  end.

(* not rooted: leading ".." elements are kept *)
Fixpoint clean_rel (comps : list bytes) (stack : list bytes) : list bytes :=
  match comps with
  | [] => rev stack
  | c :: r =>
    match c with
    | [] => clean_rel r stack
    | _ => if bytes_eqb c s_dot then clean_rel r stack
           else if bytes_eqb c s_dotdot then
             match stack with
             | top :: rest => if bytes_eqb top s_dotdot then clean_rel r (c :: stack) else clean_rel r rest
             | [] => clean_rel r [c]
             end
           else clean_rel r (c :: stack)
    end
  end.

Fixpoint join_slash (l : list bytes) : bytes :=
  match l with [] => [] | [x] => x | x :: r => x ++ x2f :: join_slash r end.

(* path.Join(elems...) for relative elements, as a string: empty elements are ignored, "" when all are empty,
   otherwise Clean (which gives "." for an empty result) *)
Definition join_rel (elems : list bytes) : bytes :=
  match filter (fun e => match e with [] => false | _ => true end) elems with
  | [] => []
  | es =>
    let joined := join_slash es in
    let rooted := match joined with b :: _ => is_byte b 47 | [] => false end in
    let comps := split_byte 47 joined in
    if rooted then x2f :: join_slash (clean_rooted comps [])
    else match clean_rel comps [] with [] => s_dot | cs => join_slash cs end
  end.

(* path.Join(dir, elems...) for a rooted, clean directory given as components *)
Definition join_dir (dir : list bytes) (elems : list bytes) : list bytes :=
  clean_rooted (concat (map (split_byte 47) elems)) (rev dir).

(* ---------- the file system ---------- *)
Inductive fsres := FsOk (b : bytes) | FsNotExist | FsErr.

Fixpoint is_prefix_c (p l : list bytes) : bool :=
  match p, l with
  | [], _ => true
  | _ :: _, [] => false
  | a :: p', b :: l' => bytes_eqb a b && is_prefix_c p' l'
  end.
Fixpoint comps_eqb (a b : list bytes) : bool :=
  match a, b with
  | [], [] => true
  | x :: a', y :: b' => bytes_eqb x y && comps_eqb a' b'
  | _, _ => false
  end.

(* files: (path components, content); dirs: directories that exist besides the parents of the files *)
Record fstree := { ft_files : list (list bytes * bytes); ft_dirs : list (list bytes) }.

Fixpoint find_file (p : list bytes) (fs : list (list bytes * bytes)) : option bytes :=
  match fs with
  | [] => None
  | (q, c) :: r => if comps_eqb p q then Some c else find_file p r
  end.

(* os.ReadFile *)
Definition read_file (t : fstree) (p : list bytes) : fsres :=
  match find_file p (ft_files t) with
  | Some c => FsOk c
  | None =>
    (* an existing directory: EISDIR; a file used as a directory: ENOTDIR; otherwise ENOENT *)
    if existsb (fun f => is_prefix_c p (fst f)) (ft_files t) || existsb (fun d => is_prefix_c p d) (ft_dirs t) then FsErr
    else if existsb (fun f => is_prefix_c (fst f) p) (ft_files t) then FsErr
    else FsNotExist
  end.

(* ---------- getSchema ---------- *)
Definition s_share : bytes := str [115;104;97;114;101].
Definition s_ament_index : bytes := str [97;109;101;110;116;95;105;110;100;101;120].
Definition s_resource_index : bytes := str [114;101;115;111;117;114;99;101;95;105;110;100;101;120].
Definition s_rosidl : bytes := str [114;111;115;105;100;108;95;105;110;116;101;114;102;97;99;101;115].
Definition s_dot_msg : bytes := str [46; 109; 115; 103].
Definition s_msg_word : bytes := str [109; 115; 103].

Fixpoint find_line (base : bytes) (lines : list bytes) : option bytes :=
  match lines with
  | [] => None
  | l :: r => if bytes_eqb (base_name l) (base ++ s_dot_msg) then Some l else find_line base r
  end.

Fixpoint get_schema_dirs (t : fstree) (pkg base : bytes) (dirs : list (list bytes)) : outcome bytes :=
  match dirs with
  | [] => Err EOther                                 (* errSchemaNotFound *)
  | d :: r =>
    match read_file t (join_dir d [s_share; s_ament_index; s_resource_index; s_rosidl; pkg]) with
    | FsNotExist => get_schema_dirs t pkg base r
    | FsErr => Err EOther
    | FsOk idx =>
      match find_line base (split_byte 10 idx) with
      | None => get_schema_dirs t pkg base r
      | Some line =>
        match read_file t (join_dir d [s_share; pkg; line]) with
        | FsOk c => Ok c
        | _ => Err EOther
        end
      end
    end
  end.

Definition get_schema (t : fstree) (dirs : list (list bytes)) (ros_type : bytes) : outcome bytes :=
  match fields_by 47 ros_type with
  | pkg :: _ :: base :: _ => get_schema_dirs t pkg base dirs
  | _ => Err EOther
  end.

(* ---------- getSchemas ---------- *)
Definition site_fieldToQualified : N := 31.
Definition site_buffer_last : N := 32.

(* ROS 2 uses the same primitive list (constants.go) *)
Definition is_primitive (s : bytes) : bool := mem_b s primitives.

(* fieldToQualifiedROSType: parts[0] on an empty slice is a run-time panic; getSchemas rejects such a field type first
   (fix: malformed field type) *)
Definition field_to_qualified (field_type pkg : bytes) : outcome bytes :=
  match fields_by 47 field_type with
  | [_] => Ok (join_rel [pkg; s_msg_word; field_type])
  | p0 :: p1 :: _ => Ok (join_rel [p0; s_msg_word; p1])
  | [] => Panic site_fieldToQualified
  end.

Definition s_sep_line : bytes := repeat x3d 80 ++ [x0a].
Definition s_msg_colon : bytes := str [77; 83; 71; 58; 32].

Record subdef := { sd_parent : bytes; sd_type : bytes; sd_schema : bytes }.

(* the field types a definition refers to: one step of the scan of its lines *)
Fixpoint scan_lines (t : fstree) (dirs : list (list bytes)) (sd : subdef) (lines : list bytes)
         (seen : list bytes) (queue : list subdef) : outcome (list bytes * list subdef) :=
  match lines with
  | [] => Ok (seen, queue)
  | raw :: rest =>
    let line := trim_space raw in
    match line with
    | [] => scan_lines t dirs sd rest seen queue
    | b :: _ =>
      if is_byte b 35 then scan_lines t dirs sd rest seen queue else
      match fields_by 32 line with
      | [] => Err EOther
      | ft0 :: _ =>
        let ft := cut_at 60 (cut_at 91 ft0) in
        if is_primitive ft then scan_lines t dirs sd rest seen queue else
        let parent := match split_byte 47 (sd_type sd) with
                      | p :: _ :: _ => p
                      | _ => sd_parent sd
                      end in
        (* after the fix: a type made of separators only is a malformed field, not a crash *)
        if match fields_by 47 ft with [] => true | _ => false end then Err EOther else
        let* q := field_to_qualified ft parent in
        let* sc := get_schema t dirs q in
        if mem_b q seen then scan_lines t dirs sd rest seen queue
        else scan_lines t dirs sd rest (seen ++ [q]) (queue ++ [{| sd_parent := parent; sd_type := q; sd_schema := sc |}])
      end
    end
  end.

Fixpoint assemble (fuel : nat) (t : fstree) (dirs : list (list bytes)) (queue : list subdef) (seen : list bytes)
         (first : bool) (buf : bytes) : outcome bytes :=
  match fuel with
  | O => OutOfFuel
  | S f =>
    match queue with
    | [] => Ok buf
    | sd :: rest =>
      let* buf1 :=
        (if first then Ok buf
         else match rev buf with
              | [] => Panic site_buffer_last
              | lastb :: _ =>
                let b1 := if is_byte lastb 10 then buf else buf ++ [x0a] in
                Ok (b1 ++ s_sep_line ++ s_msg_colon ++ replace_msg (sd_type sd) ++ [x0a])
              end) in
      let buf2 := buf1 ++ sd_schema sd in
      let* (seen', queue') := scan_lines t dirs sd (fields_by 10 (sd_schema sd)) seen rest in
      assemble f t dirs queue' seen' false buf2
    end
  end.

Definition fs_weight (t : fstree) : nat := fold_left (fun n f => (n + S (length (snd f)))%nat) (ft_files t) 2%nat.

Definition get_schema_for (t : fstree) (dirs : list (list bytes)) (ros_type : bytes) : outcome bytes :=
  let pkg := hd [] (split_byte 47 ros_type) in
  let* sc := get_schema t dirs ros_type in
  assemble (fs_weight t) t dirs [{| sd_parent := pkg; sd_type := ros_type; sd_schema := sc |}] [ros_type] true [].

(* map assignment: a type listed twice keeps one entry *)
Fixpoint sch_set (k v : bytes) (l : list (bytes * bytes)) : list (bytes * bytes) :=
  match l with
  | [] => [(k, v)]
  | x :: r => if bytes_eqb (fst x) k then (k, v) :: r else x :: sch_set k v r
  end.

Fixpoint get_schemas (t : fstree) (dirs : list (list bytes)) (types : list bytes) (acc : list (bytes * bytes))
  : outcome (list (bytes * bytes)) :=
  match types with
  | [] => Ok acc
  | ty :: r =>
    let* def := get_schema_for t dirs ty in
    get_schemas t dirs r (sch_set ty def acc)
  end.

(* ---------- DB3ToMCAP with the schema assembly inside ---------- *)
(* getTopics keeps the message-typed topics; their types go to getSchemas; a failure there ends the conversion
   before anything is written.  A Panic of the assembly is kept as a Panic of the conversion. *)
Definition db3_to_mcap_fs (o : wopts) (lib_id : bytes) (compress : nat -> bytes -> bytes) (t : fstree) (dirs : list (list bytes))
           (topics : list topic_row) (msgs : list msg_row) : outcome db3res :=
  let mt := filter (fun x => is_message_type (t_type x)) topics in
  match get_schemas t dirs (map t_type mt) [] with
  | Ok l => Ok (db3_to_mcap o lib_id compress topics (Some l) msgs)
  | Err _ => Ok (db3_to_mcap o lib_id compress topics None msgs)
  | Panic s => Panic s
  | Exit s => Exit s
  | OutOfFuel => OutOfFuel
  end.
