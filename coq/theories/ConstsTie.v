(* ConstsTie.v - the constants regenerated from the Go sources (Consts_gen.v) equal the ones the model uses.
   A changed opcode, magic or compression name breaks this file, with no sampling involved. *)
From Coq Require Import List NArith.
From Coq.Strings Require Import Byte.
From Mcap Require Import Bytes Records Writer Consts_gen.
Import ListNotations.
Open Scope N_scope.

Lemma opcodes_tie :
  [go_OpHeader; go_OpFooter; go_OpSchema; go_OpChannel; go_OpMessage; go_OpChunk; go_OpMessageIndex; go_OpChunkIndex;
   go_OpAttachment; go_OpAttachmentIndex; go_OpStatistics; go_OpMetadata; go_OpMetadataIndex; go_OpSummaryOffset; go_OpDataEnd]
  = map Byte.to_N [OpHeader; OpFooter; OpSchema; OpChannel; OpMessage; OpChunk; OpMessageIndex; OpChunkIndex;
                   OpAttachment; OpAttachmentIndex; OpStatistics; OpMetadata; OpMetadataIndex; OpSummaryOffset; OpDataEnd].
Proof. reflexivity. Qed.

Lemma reserved_tie : go_OpReserved = 0.
Proof. reflexivity. Qed.

Lemma magic_tie : go_Magic = map Byte.to_N magic.
Proof. reflexivity. Qed.

Lemma compression_tie :
  go_CompressionZSTD = map Byte.to_N comp_zstd /\ go_CompressionLZ4 = map Byte.to_N comp_lz4 /\ go_CompressionNone = [].
Proof. repeat split; reflexivity. Qed.

(* ---- further constants copied into the model ---- *)
From Mcap Require Import GoSem Ros1Msg Bag Ros2Schema Py.
From Coq Require Import ZArith.

Lemma makeSafe_tie : go_makeSafe_limit = max_int32.
Proof. reflexivity. Qed.

(* NewWriter's default for ChunkSize = 0 *)
Lemma default_chunk_size_tie :
  forall o, o_chunked o = true -> o_chunksize o = 0%Z -> o_chunksize (effective_opts o) = Z.of_N go_default_chunk_size.
Proof. intros o Hc Hz. unfold effective_opts. rewrite Hc, Hz. reflexivity. Qed.

Lemma ros_primitives_tie : go_ros_primitives = map (map Byte.to_N) primitives.
Proof. reflexivity. Qed.

Lemma ros_separator_tie : go_ros_separator = map Byte.to_N s_sep_line.
Proof. reflexivity. Qed.

Lemma bag_magic_tie : go_bag_magic = map Byte.to_N bag_magic.
Proof. reflexivity. Qed.

(* the Python package's opcode table is the Go one, its magic and limits are what Py.v uses *)
Lemma py_opcodes_tie :
  [py_op_HEADER; py_op_FOOTER; py_op_SCHEMA; py_op_CHANNEL; py_op_MESSAGE; py_op_CHUNK; py_op_MESSAGE_INDEX; py_op_CHUNK_INDEX;
   py_op_ATTACHMENT; py_op_ATTACHMENT_INDEX; py_op_STATISTICS; py_op_METADATA; py_op_METADATA_INDEX; py_op_SUMMARY_OFFSET; py_op_DATA_END]
  = [go_OpHeader; go_OpFooter; go_OpSchema; go_OpChannel; go_OpMessage; go_OpChunk; go_OpMessageIndex; go_OpChunkIndex;
     go_OpAttachment; go_OpAttachmentIndex; go_OpStatistics; go_OpMetadata; go_OpMetadataIndex; go_OpSummaryOffset; go_OpDataEnd].
Proof. reflexivity. Qed.

Lemma py_magic_tie : py_magic = map Byte.to_N magic /\ py_magic_size = 8.
Proof. split; reflexivity. Qed.

Lemma py_limit_tie : limit_4g = Some py_record_size_limit.
Proof. reflexivity. Qed.
