(* ConstsTie.v - the constants regenerated from the Go sources (Consts_gen.v) equal the ones the model uses.
   A changed opcode, magic or compression name breaks this file, with no sampling involved. *)
From Coq Require Import List NArith.
From Coq.Strings Require Import Byte.
From Mcap Require Import Bytes Records Writer Consts_gen.
Import ListNotations.
Open Scope N_scope.

Lemma opcodes_tie :
  [go_OpHeader; go_OpFooter; go_OpSchema; go_OpChannel; go_OpMessage; go_OpChunk; go_OpMessageIndex; go_OpChunkIndex;
   go_OpAttachment; go_OpAttachmentIndex; go_OpStatistics; go_OpMetadata; go_OpMetadataIndex; go_OpSummaryOffset; go_OpDataEnd]
  = map Byte.to_N [OpHeader; OpFooter; OpSchema; OpChannel; OpMessage; OpChunk; OpMessageIndex; OpChunkIndex;
                   OpAttachment; OpAttachmentIndex; OpStatistics; OpMetadata; OpMetadataIndex; OpSummaryOffset; OpDataEnd].
Proof. reflexivity. Qed.

Lemma reserved_tie : go_OpReserved = 0.
Proof. reflexivity. Qed.

Lemma magic_tie : go_Magic = map Byte.to_N magic.
Proof. reflexivity. Qed.

Lemma compression_tie :
  go_CompressionZSTD = map Byte.to_N comp_zstd /\ go_CompressionLZ4 = map Byte.to_N comp_lz4 /\ go_CompressionNone = [].
Proof. repeat split; reflexivity. Qed.
