(* GoToPy.v - property C16 end to end: an UNCOMPRESSED file written by the Go writer model (Writer.W)
   is read by the Python reader model (Py.v: StreamReader / NonSeekingReader, CRC validation on or
   off; SeekingReader.get_summary) as exactly the content of the calls.

   The two halves joined here:
     PyReadFacts.v   the Python streaming reader on  magic ++ py_render ps ++ magic  for a typed
                     description ps with pwf_file;
     WriterFactsB/C, ComposeFacts, EndToEnd (E2E_Writer)   the shape and content of the Go writer's trace.

   Contents
     1.   generic list facts
     2.   typed records; 2b. values wrapped to their wire widths; 2c. the data section of the trace, typed
          (data_typed); 2d. iter_messages in terms of the calls (msgs_arec); 2e. a StreamReader started
          with skip_magic inside the file (py_gen_skip, py_sk_get_summary)
     3.   the run: shape, classes, the typed description of the whole file (g_typed, go_trace_typed_run),
          what the Python readers return (the go_py theorems)
     5.   the statements over the hypotheses bundle go_hyps (go_trace_typed and the go_to_python theorems)
     6.   deciding the hypotheses (go_checks); the example workloads; the hypotheses are needed

   Hypotheses that input bounds do not imply, and why they are there (section 6, the gz examples):
     call_utf8      a string that is not valid UTF-8 makes Python raise UnicodeDecodeError;
     o_skip_magic   without the leading magic Python raises InvalidMagic;
     ids_consistent Python resolves a message through the latest registration of its channel id, go_msgs
                    (like the writer's tables) through the first.
   The typed description carries time stamps and counters reduced to their wire widths (2b): the writer
   theorems (WriterFactsC.chunk_ok) describe a chunk through an existentially quantified record list, which
   fixes these values only through their encodings. *)
From Coq Require Import List NArith ZArith Bool Lia ZifyN ZifyNat ZifyBool Permutation Sorted PeanoNat.
From Coq.Strings Require Import Byte.
From RecordUpdate Require Import RecordSet.
From Mcap Require Import Bytes BytesFacts GoSem Crc32 Crc32Facts Records RecordsFacts Writer WriterFactsA WriterFactsB
  WriterFactsC Lexer LexSpec LexerFactsB ComposeFacts Py PyReadFacts EndToEnd.
From McapProps Require Import C02.
Import ListNotations RecordSetNotations.
Import E2E_Writer E2E_Scan.
Open Scope N_scope.
Ltac Zify.zify_post_hook ::= Z.div_mod_to_equations.

Arguments utf8_valid : simpl never.
Arguments crc32 : simpl never.

(* ====================================================================================== *)
(** * 1. generic facts *)

(* a list with exactly one element satisfying P splits around it in one way only *)
Lemma unique_split {A} (P : A -> Prop) (l1 : list A) : forall l2 x y r1 r2,
  l1 ++ x :: r1 = l2 ++ y :: r2 ->
  Forall (fun z => ~ P z) l1 -> Forall (fun z => ~ P z) r1 -> P y ->
  l1 = l2 /\ x = y /\ r1 = r2.
Proof.
  induction l1 as [|a l1 IH]; intros l2 x y r1 r2 E H1 H2 Py.
  - destruct l2 as [|z l2]; cbn [app] in E.
    + injection E as -> ->. auto.
    + injection E as -> E. exfalso. rewrite Forall_forall in H2. apply (H2 y); [|exact Py].
      rewrite E. apply in_or_app. right. left. reflexivity.
  - inversion H1 as [|? ? Ha H1']; subst. destruct l2 as [|z l2]; cbn [app] in E.
    + injection E as -> _. contradiction.
    + injection E as -> E. destruct (IH _ _ _ _ _ E H1' H2 Py) as (-> & -> & ->). auto.
Qed.

Lemma map_eq_app_inv {A B} (f : A -> B) l : forall a b, map f l = a ++ b ->
  map f (firstn (length a) l) = a /\ map f (skipn (length a) l) = b.
Proof.
  intros a b E. rewrite <- firstn_map, <- skipn_map, E. split; [apply firstn_app_len|apply skipn_app_len].
Qed.

(* ====================================================================================== *)
(** * 2. typed records *)

(* the identity decompressor *)
Definition uid : bytes -> bytes -> bytes := fun _ stored => stored.

Definition ninner (a : arec) : pinner :=
  match a with ASchema s => NSchema s | AChannel c => NChannel c | AMessage m => NMessage m end.
Definition arec_prec (a : arec) : prec :=
  match a with ASchema s => PSchema s | AChannel c => PChannel c | AMessage m => PMessage m end.
(* what Python holds for it *)
Definition arec_out (a : arec) : prec := py_norm (arec_prec a).

Lemma arec_bytes a : pitem_bytes (PIRec (arec_prec a)) = frame (fst (apair a)) (snd (apair a)).
Proof. destruct a; reflexivity. Qed.

Lemma chunk_bytes_ninner l : chunk_bytes (map ninner l) = frames (map apair l).
Proof.
  unfold chunk_bytes, frames. rewrite !map_map. f_equal. apply map_ext. intros []; reflexivity.
Qed.

Lemma chunk_recs_ninner l : chunk_recs (map ninner l) = map arec_out l.
Proof.
  unfold chunk_recs. induction l as [|a l IH]; [reflexivity|]. cbn [map flat_map]. rewrite IH. destruct a; reflexivity.
Qed.

(* schema, channel and message records: what iter_messages looks at *)
Definition scm (r : prec) : bool :=
  match r with PSchema _ | PChannel _ | PMessage _ => true | _ => false end.

Lemma scm_arec_out a : scm (arec_out a) = true.
Proof. destruct a; reflexivity. Qed.

Lemma filter_scm_out l : filter scm (map arec_out l) = map arec_out l.
Proof. induction l as [|a l IH]; [reflexivity|]. cbn [map filter]. rewrite scm_arec_out, IH. reflexivity. Qed.

(* the attachment record with its data filled in (the writer takes the data from the source) *)
Definition att_set (a : attachment) (data : bytes) : attachment :=
  {| a_log := a_log a; a_create := a_create a; a_name := a_name a; a_media := a_media a;
     a_size := a_size a; a_data := data |}.

Lemma att_set_fields a data : enc_attachment_fields (att_set a data) = enc_attachment_fields a.
Proof. reflexivity. Qed.

(* UTF-8 validity of every string Python decodes *)
Definition kvs_utf8 (m : kvs) : Prop :=
  Forall (fun kv => utf8_valid (fst kv) = true /\ utf8_valid (snd kv) = true) m.

Definition call_utf8 (c : wcall) : Prop :=
  match c with
  | CHeader h => utf8_valid (h_profile h) = true /\ utf8_valid (h_library h) = true
  | CSchema s => utf8_valid (s_name s) = true /\ utf8_valid (s_encoding s) = true
  | CChannel c => utf8_valid (c_topic c) = true /\ utf8_valid (c_menc c) = true /\ kvs_utf8 (c_meta c)
  | CMessage _ => True
  | CAttachment a _ => utf8_valid (a_name a) = true /\ utf8_valid (a_media a) = true
  | CMetadata m => utf8_valid (md_name m) = true /\ kvs_utf8 (md_meta m)
  | CClose => True
  end.

Definition arec_ok (a : arec) : Prop :=
  match a with
  | ASchema s => pwf_schema s
  | AChannel c => pwf_channel c
  | AMessage m => wf_message m
  end.

(* ====================================================================================== *)
(** * 2b. wrapping values to their wire widths

   The writer theorems describe a chunk through an existentially quantified list of records, so the
   time stamps in chunk, message index and chunk index records, and the counters of the statistics
   record, are known only through their encodings.  The typed description below therefore carries
   the values reduced to the width of their fields: the bytes are the same, and the reduction is
   the identity on values that fit (every value of a Go uint16/32/64). *)

Lemma u16_mod x : u16 (x mod two16) = u16 x. Proof. apply (le_mod 2). Qed.
Lemma u32_mod x : u32 (x mod two32) = u32 x. Proof. apply (le_mod 4). Qed.

Lemma mod16_lt x : x mod two16 < two16. Proof. apply N.mod_lt. discriminate. Qed.
Lemma mod32_lt x : x mod two32 < two32. Proof. apply N.mod_lt. discriminate. Qed.
Lemma mod64_lt x : x mod two64 < two64. Proof. apply N.mod_lt. discriminate. Qed.

Definition nn_wrap (e : N * N) : N * N := (fst e mod two16, snd e mod two64).
Definition mie_wrap (e : N * N) : N * N := (fst e mod two64, snd e mod two64).

Lemma enc_nn_wrap l : concat (map enc_nn (map nn_wrap l)) = concat (map enc_nn l).
Proof.
  induction l as [|e l IH]; [reflexivity|]. cbn [map concat]. rewrite IH. f_equal.
  unfold enc_nn, nn_wrap. cbn [fst snd]. rewrite u16_mod, u64_mod. reflexivity.
Qed.
Lemma enc_mie_wrap l : concat (map enc_mi_entry (map mie_wrap l)) = concat (map enc_mi_entry l).
Proof.
  induction l as [|e l IH]; [reflexivity|]. cbn [map concat]. rewrite IH. f_equal.
  unfold enc_mi_entry, mie_wrap. cbn [fst snd]. rewrite !u64_mod. reflexivity.
Qed.
Lemma nn_wrap_wf l : Forall wf_nn (map nn_wrap l).
Proof. apply Forall_forall. intros e He. apply in_map_iff in He. destruct He as (x & <- & _). split; [apply mod16_lt|apply mod64_lt]. Qed.
Lemma mie_wrap_wf l : Forall wf_mi_entry (map mie_wrap l).
Proof. apply Forall_forall. intros e He. apply in_map_iff in He. destruct He as (x & <- & _). split; apply mod64_lt. Qed.
Lemma nn_wrap_id l : Forall wf_nn l -> map nn_wrap l = l.
Proof.
  induction 1 as [|e l [H1 H2] _ IH]; [reflexivity|]. cbn [map]. rewrite IH. f_equal.
  destruct e as [a b]. unfold nn_wrap. cbn [fst snd] in *. rewrite !N.mod_small by assumption. reflexivity.
Qed.
Lemma mie_wrap_id l : Forall wf_mi_entry l -> map mie_wrap l = l.
Proof.
  induction 1 as [|e l [H1 H2] _ IH]; [reflexivity|]. cbn [map]. rewrite IH. f_equal.
  destruct e as [a b]. unfold mie_wrap. cbn [fst snd] in *. rewrite !N.mod_small by assumption. reflexivity.
Qed.

Definition mi_wrap (mi : msgindex) : msgindex :=
  {| mi_chan := mi_chan mi mod two16; mi_entries := map mie_wrap (mi_entries mi) |}.
Lemma enc_mi_wrap mi : enc_msgindex (mi_wrap mi) = enc_msgindex mi.
Proof.
  unfold enc_msgindex, mi_wrap. cbn [mi_chan mi_entries]. cbv zeta. rewrite enc_mie_wrap, u16_mod. reflexivity.
Qed.
Lemma mi_wrap_wf mi : blen (enc_msgindex mi) <= two32 -> wf_msgindex (mi_wrap mi).
Proof.
  intro H. unfold wf_msgindex, mi_wrap. cbn [mi_chan mi_entries]. split; [apply mod16_lt|]. split; [apply mie_wrap_wf|].
  rewrite map_length. unfold blen in H. rewrite enc_msgindex_length in H. unfold two32 in *. lia.
Qed.
Lemma mi_wrap_id mi : wf_msgindex mi -> mi_wrap mi = mi.
Proof.
  destruct mi as [ch es]. unfold wf_msgindex, mi_wrap. cbn [mi_chan mi_entries]. intros (H1 & H2 & _).
  rewrite N.mod_small by exact H1. rewrite mie_wrap_id by exact H2. reflexivity.
Qed.

Definition ci_wrap (ci : chunkindex) : chunkindex :=
  {| ci_start := ci_start ci mod two64; ci_end := ci_end ci mod two64; ci_offset := ci_offset ci mod two64;
     ci_length := ci_length ci mod two64; ci_mioffsets := map nn_wrap (ci_mioffsets ci);
     ci_milength := ci_milength ci mod two64; ci_comp := ci_comp ci;
     ci_csize := ci_csize ci mod two64; ci_usize := ci_usize ci mod two64 |}.
Lemma enc_ci_wrap ci : enc_chunkindex (ci_wrap ci) = enc_chunkindex ci.
Proof.
  unfold enc_chunkindex, ci_wrap.
  cbn [ci_start ci_end ci_offset ci_length ci_mioffsets ci_milength ci_comp ci_csize ci_usize]. cbv zeta.
  rewrite enc_nn_wrap, !u64_mod. reflexivity.
Qed.
Lemma ci_wrap_wf ci : blen (enc_chunkindex ci) <= two32 -> blen (ci_comp ci) < two32 -> wf_chunkindex (ci_wrap ci).
Proof.
  intros H Hc. unfold wf_chunkindex, ci_wrap.
  cbn [ci_start ci_end ci_offset ci_length ci_mioffsets ci_milength ci_comp ci_csize ci_usize].
  repeat split; try apply mod64_lt; try exact Hc; [apply nn_wrap_wf|].
  rewrite map_length. unfold enc_chunkindex, blen in H. cbv zeta in H.
  rewrite !app_length, enc_nn_body_length in H. unfold two32 in *. lia.
Qed.
Lemma ci_wrap_id ci : wf_chunkindex ci -> ci_wrap ci = ci.
Proof.
  destruct ci as [a b c d mo e comp f g]. unfold wf_chunkindex, ci_wrap.
  cbn [ci_start ci_end ci_offset ci_length ci_mioffsets ci_milength ci_comp ci_csize ci_usize].
  intros (H1 & H2 & H3 & H4 & H5 & _ & H7 & _ & H9 & H10).
  rewrite !N.mod_small by assumption. rewrite nn_wrap_id by exact H5. reflexivity.
Qed.

Definition st_wrap (st : statistics) : statistics :=
  {| st_messages := st_messages st mod two64; st_schemas := st_schemas st mod two16;
     st_channels := st_channels st mod two32; st_attachments := st_attachments st mod two32;
     st_metadata := st_metadata st mod two32; st_chunks := st_chunks st mod two32;
     st_start := st_start st mod two64; st_end := st_end st mod two64;
     st_counts := map nn_wrap (st_counts st) |}.
Lemma enc_st_wrap st : enc_statistics (st_wrap st) = enc_statistics st.
Proof.
  unfold enc_statistics, st_wrap.
  cbn [st_messages st_schemas st_channels st_attachments st_metadata st_chunks st_start st_end st_counts]. cbv zeta.
  rewrite enc_nn_wrap, !u64_mod, !u32_mod, u16_mod. reflexivity.
Qed.
Lemma st_wrap_wf st : blen (enc_statistics st) <= two32 -> wf_statistics (st_wrap st).
Proof.
  intros H. unfold wf_statistics, st_wrap.
  cbn [st_messages st_schemas st_channels st_attachments st_metadata st_chunks st_start st_end st_counts].
  repeat split; try apply mod64_lt; try apply mod32_lt; try apply mod16_lt; [apply nn_wrap_wf|].
  rewrite map_length. unfold enc_statistics, blen in H. cbv zeta in H.
  rewrite !app_length, enc_nn_body_length in H. unfold two32 in *. lia.
Qed.
Lemma st_wrap_id st : wf_statistics st -> st_wrap st = st.
Proof.
  destruct st as [a b c d e f g h cnt]. unfold wf_statistics, st_wrap.
  cbn [st_messages st_schemas st_channels st_attachments st_metadata st_chunks st_start st_end st_counts].
  intros (H1 & H2 & H3 & H4 & H5 & H6 & H7 & H8 & H9 & _).
  rewrite !N.mod_small by assumption. rewrite nn_wrap_id by exact H9. reflexivity.
Qed.

(* ====================================================================================== *)
(** * 2c. the data section of the trace, typed *)

(* no record of the file, frame included, is longer than 2^32 bytes (the Python reader refuses records
   whose length field exceeds 2^32) *)
Definition item_small (it : item) : Prop := blen (render_item it) <= two32.

Definition is_dataend_item (p : pitem) : bool := match p with PIRec (PDataEnd _) => true | _ => false end.

(* the records Python reports for the data section *)
Definition data_rec (r : prec) : Prop :=
  match r with
  | PSchema _ | PChannel _ | PMessage _ | PAttachment _ | PMetadata _ | PMsgIndex _ => True
  | _ => False
  end.

Definition att_ok (ad : attachment * bytes) : Prop := pwf_attachment (att_set (fst ad) (snd ad)) (snd ad).

Lemma pstr_prefix_inj a b x y : blen a < two32 -> blen b < two32 -> pstr a ++ x = pstr b ++ y -> a = b.
Proof.
  intros Ha Hb E. unfold pstr in E. rewrite <- !app_assoc in E.
  assert (E4 : u32 (blen a) = u32 (blen b)).
  { pose proof (f_equal (firstn 4) E) as F. rewrite !firstn_app_exact' in F by (symmetry; apply u32_length). exact F. }
  assert (EL : blen a = blen b).
  { rewrite <- (unle_u32 _ Ha), <- (unle_u32 _ Hb), E4. reflexivity. }
  rewrite E4 in E. apply app_inv_head in E.
  pose proof (f_equal (firstn (length a)) E) as F. rewrite firstn_app_len in F.
  assert (L : length a = length b) by (unfold blen in EL; lia).
  rewrite L, firstn_app_len in F. exact F.
Qed.

Lemma enc_metadata_name m m' : blen (enc_metadata m) <= two32 -> blen (md_name m') < two32 ->
  enc_metadata m = enc_metadata m' -> md_name m = md_name m'.
Proof.
  intros H1 H2 E. unfold enc_metadata in E. apply (pstr_prefix_inj _ _ _ _) in E; [exact E| |exact H2].
  unfold enc_metadata, pstr in H1. rewrite !PyReadFacts.blen_app, PyReadFacts.blen_u32 in H1. unfold two32 in *. lia.
Qed.

(* records of message index items belong to none of the classes *)
Lemma mi_records_none mis :
  filter is_auto (all_records uid (map mi_item mis)) = [] /\
  filter ComposeFacts.is_att (all_records uid (map mi_item mis)) = [] /\
  filter (is_op OpMetadata) (all_records uid (map mi_item mis)) = [].
Proof.
  induction mis as [|mi mis (I1 & I2 & I3)]; [repeat split|].
  cbn [map all_records flat_map mi_item item_records app filter]. fold (all_records uid (map mi_item mis)).
  change (is_auto (CR OpMessageIndex (enc_msgindex mi))) with false.
  change (ComposeFacts.is_att (CR OpMessageIndex (enc_msgindex mi))) with false.
  change (is_op OpMetadata (CR OpMessageIndex (enc_msgindex mi))) with false. cbv iota. auto.
Qed.

Lemma auto_pairs_classes (l : list arec) :
  filter is_auto (map cr_of (map apair l)) = map cr_of (map apair l) /\
  filter ComposeFacts.is_att (map cr_of (map apair l)) = [] /\
  filter (is_op OpMetadata) (map cr_of (map apair l)) = [].
Proof.
  induction l as [|a l (I1 & I2 & I3)]; [repeat split|]. cbn [map filter]. rewrite I1, I2, I3.
  destruct a; repeat split.
Qed.

Lemma chunk_item_records k inner :
  k_records k = frames inner -> Forall (fun r => blen (snd r) < two64) inner ->
  item_records uid (IChunk k) = map cr_of inner.
Proof.
  intros Hr Hs. cbn [item_records]. f_equal. unfold ComposeFacts.chunk_recs, uid. cbv beta zeta. rewrite Hr.
  apply split_records_frames; [exact Hs|lia].
Qed.

Lemma ninner_body a : inner_body (ninner a) = snd (apair a).
Proof. destruct a; reflexivity. Qed.

Lemma pwf_inner_ninner a l : arec_ok a -> In a l -> blen (frames (map apair l)) < two63 -> pwf_inner (ninner a).
Proof.
  intros Ha Hin Hl. split.
  - rewrite ninner_body. pose proof (frames_body_le (apair a) (map apair l) (in_map apair _ _ Hin)). lia.
  - destruct a; exact Ha.
Qed.

Lemma two32_lt_two63' n : n <= two32 -> n < two63.
Proof. unfold two32, two63. lia. Qed.

Lemma arec_item_wf a v : arec_ok a -> blen (frame (fst (apair a)) (snd (apair a))) <= two32 ->
  pwf_pitem v false (PIRec (arec_prec a)).
Proof.
  intros Ha Hl. rewrite blen_frame in Hl. split.
  - destruct a; cbn [arec_prec rec_body apair fst snd] in *; lia.
  - split; [|destruct a; reflexivity].
    destruct a as [s|c|m]; cbn [arec_prec pwf_rec arec_ok] in *; try exact Ha.
    split; [exact Ha|]. cbn [apair snd] in Hl. apply message_data_bound. unfold two32, two63 in *. lia.
Qed.

Lemma ca_cons_inj a d c l a' d' c' l' : CA a d c :: l = CA a' d' c' :: l' -> a = a' /\ d = d' /\ c = c' /\ l = l'.
Proof. intro H. injection H. auto. Qed.
Lemma cr_cons_inj op b l op' b' l' : CR op b :: l = CR op' b' :: l' -> op = op' /\ b = b' /\ l = l'.
Proof. intro H. injection H. auto. Qed.

Section Data.
Variable o : wopts.
Variable compress : nat -> bytes -> bytes.
Hypothesis Hid : forall i b, compress i b = b.
Hypothesis Hunc : o_chunked o = true -> o_comp o = [].

Definition chunk_pitem (k : chunk) (l : list arec) : pitem :=
  PIChunk (k_start k mod two64) (k_end k mod two64) (k_crc k) (map ninner l).

Lemma chunk_pitem_bytes k l :
  k_records k = frames (map apair l) -> k_usize k = blen (k_records k) -> k_comp k = [] ->
  pitem_bytes (chunk_pitem k l) = render_item (IChunk k).
Proof.
  intros Hr Hu Hc. unfold chunk_pitem. cbn [pitem_bytes render_item]. f_equal.
  unfold enc_chunk, enc_chunk_top, mk_chunk. cbn [k_start k_end k_usize k_crc k_comp k_records].
  rewrite chunk_bytes_ninner, !u64_mod, Hu, Hc, Hr. reflexivity.
Qed.

Lemma data_typed : forall D n off (A : list arec) (M : list metadata) (T : list (attachment * bytes)),
  Forall (data_sitem o) D -> chunks_ok o compress n D ->
  Forall item_small (flatten D) ->
  off + offset_of (flatten D) < two63 ->
  filter is_auto (all_records uid (flatten D)) = map (fun a => cr_of (apair a)) A ->
  filter (is_op OpMetadata) (all_records uid (flatten D)) = map (fun m => CR OpMetadata (enc_metadata m)) M ->
  filter ComposeFacts.is_att (all_records uid (flatten D))
    = map (fun ad => CA (fst ad) (snd ad) (crc32 (enc_attachment_fields (fst ad) ++ snd ad))) T ->
  Forall arec_ok A -> Forall pwf_metadata M -> Forall att_ok T ->
  exists ps,
    map pitem_bytes ps = map render_item (flatten D) /\
    Forall (fun p => forall v, pwf_pitem v false p) ps /\
    Forall (fun p => is_footer_item p = false /\ is_dataend_item p = false) ps /\
    filter scm (py_expected ps) = map arec_out A /\
    file_atts ps = map (fun ad => att_set (fst ad) (snd ad)) T /\
    file_mds ps = M /\
    Forall pwf_attindex (flat_map exp_att (slocated off D)) /\
    Forall pwf_mdindex (flat_map exp_md (slocated off D)) /\
    Forall (fun ci => ci_comp ci = []) (flat_map exp_ci (slocated off D)) /\
    Forall data_rec (py_expected ps).
Proof.
  induction D as [|x D IH]; intros n off A M T HD HK HS Hoff EA EM ET WA WM WT.
  - cbn in EA, EM, ET. destruct A; [|discriminate]. destruct M; [|discriminate]. destruct T; [|discriminate].
    exists []. repeat split; constructor.
  - inversion HD as [|? ? Hx HD']; subst.
    change (flatten (x :: D)) with (flat1 x ++ flatten D) in *.
    apply Forall_app in HS. destruct HS as [HSx HS'].
    rewrite offset_of_app in Hoff.
    rewrite all_records_app in EA, EM, ET. rewrite filter_app in EA, EM, ET.
    cbn [slocated flat_map].
    assert (Hoff' : off + offset_of (flat1 x) + offset_of (flatten D) < two63) by lia.
    destruct x as [it|m|k mis].
    + (* a single item *)
      cbn [chunks_ok] in HK.
      destruct it as [|op body|k|a data crc|ss sos crc]; cbn [data_sitem] in Hx; try contradiction.
      * (* schema / channel / message record, writer not chunked *)
        destruct Hx as [_ Hop].
        assert (Hau : is_auto (CR op body) = true) by (destruct Hop as [->|[->| ->]]; reflexivity).
        assert (Hat : ComposeFacts.is_att (CR op body) = false) by reflexivity.
        assert (Hmd : is_op OpMetadata (CR op body) = false) by (destruct Hop as [->|[->| ->]]; reflexivity).
        cbn [flat1 all_records flat_map item_records app filter] in EA, EM, ET.
        rewrite Hau in EA. rewrite Hmd in EM. rewrite Hat in ET. cbn [app] in EA, EM, ET.
        destruct A as [|a A']; [discriminate|]. cbn [map] in EA. unfold cr_of at 1 in EA. apply cr_cons_inj in EA. destruct EA as (E1 & E2 & EA).
        inversion WA as [|? ? Wa WA']; subst.
        destruct (IH n _ A' M T HD' HK HS' Hoff' EA EM ET WA' WM WT) as (ps & P1 & P2 & P3 & P4 & P5 & P6 & P7 & P8 & P9 & P10).
        exists (PIRec (arec_prec a) :: ps).
        pose proof (Forall_inv HSx) as Hsm. unfold item_small in Hsm. cbn [render_item] in Hsm.
        split; [cbn [map flat1 app]; rewrite arec_bytes, P1; reflexivity|].
        split; [constructor; [intro v; apply arec_item_wf; [exact Wa|exact Hsm]|exact P2]|].
        split; [constructor; [destruct a; split; reflexivity|exact P3]|].
        split; [change (py_expected (PIRec (arec_prec a) :: ps)) with (arec_out a :: py_expected ps);
                cbn [filter]; rewrite scm_arec_out, P4; reflexivity|].
        split; [unfold file_atts in *; cbn [flat_map]; rewrite P5; destruct a; reflexivity|].
        split; [unfold file_mds in *; cbn [flat_map]; rewrite P6; destruct a; reflexivity|].
        cbn [exp_att exp_md exp_ci snd app]. split; [exact P7|]. split; [exact P8|]. split; [exact P9|].
        change (py_expected (PIRec (arec_prec a) :: ps)) with (arec_out a :: py_expected ps).
        constructor; [destruct a; exact I|exact P10].
      * (* attachment *)
        destruct Hx as (Hsz & Hcrc & Hsmall).
        cbn [flat1 all_records flat_map item_records app filter ComposeFacts.is_att is_auto is_op] in EA, EM, ET.
        destruct T as [|ad T']; [discriminate|]. cbn [map] in ET. apply ca_cons_inj in ET. destruct ET as (E1 & E2 & E3 & ET).
        inversion WT as [|? ? Wt WT']; subst. destruct ad as [a data]. cbn [fst snd] in *.
        destruct (IH n _ A M T' HD' HK HS' Hoff' EA EM ET WA WM WT') as (ps & P1 & P2 & P3 & P4 & P5 & P6 & P7 & P8 & P9 & P10).
        set (crc := crc32 (enc_attachment_fields a ++ data)).
        exists (PIAttach (att_set a data) crc :: ps).
        pose proof (Forall_inv HSx) as Hsm. unfold item_small in Hsm. cbn [render_item] in Hsm. fold crc in Hsm.
        rewrite blen_frame in Hsm.
        split; [cbn [map flat1 app pitem_bytes render_item att_set a_data]; rewrite att_set_fields, P1; reflexivity|].
        split; [constructor; [|exact P2]|].
        { intro v. split; [cbn [att_set a_data]; rewrite att_set_fields; lia|exact Wt]. }
        split; [constructor; [split; reflexivity|exact P3]|].
        split; [change (py_expected (PIAttach (att_set a data) crc :: ps))
                  with (PAttachment (py_attachment (att_set a data) (a_data (att_set a data))) :: py_expected ps);
                cbn [filter scm]; exact P4|].
        split; [unfold file_atts in *; cbn [flat_map pitem_atts app map fst snd]; rewrite P5; reflexivity|].
        split; [unfold file_mds in *; cbn [flat_map pitem_mds app]; exact P6|].
        cbn [exp_att exp_md exp_ci snd fst app].
        split; [|split; [exact P8|split; [exact P9|]]].
        2:{ change (py_expected (PIAttach (att_set a data) crc :: ps))
              with (PAttachment (py_attachment (att_set a data) (a_data (att_set a data))) :: py_expected ps).
            constructor; [exact I|exact P10]. }
        constructor; [|exact P7].
        destruct Wt as (W1 & W2 & W3 & W4 & U1 & U2 & W5 & W6). cbn [fst snd att_set a_log a_create a_name a_media a_size a_data] in W1, W2, W3, W4, U1, U2, W5, W6.
        split; [|split; assumption].
        unfold wf_attindex. cbn [ai_offset ai_length ai_log ai_create ai_size ai_name ai_media render_item].
        rewrite blen_frame.
        unfold two63, two64, two32 in *. repeat split; try assumption; lia.
    + (* metadata *)
      cbn [chunks_ok] in HK.
      cbn [flat1 all_records flat_map item_records app filter ComposeFacts.is_att] in EA, EM, ET.
      change (is_auto (CR OpMetadata (enc_metadata m))) with false in EA.
      change (is_op OpMetadata (CR OpMetadata (enc_metadata m))) with true in EM. cbv iota in EA, EM. cbn [app] in EA, EM.
      destruct M as [|m' M']; [discriminate|]. cbn [map] in EM. apply cr_cons_inj in EM. destruct EM as (_ & E1 & EM).
      inversion WM as [|? ? Wm WM']; subst.
      destruct (IH n _ A M' T HD' HK HS' Hoff' EA EM ET WA WM' WT) as (ps & P1 & P2 & P3 & P4 & P5 & P6 & P7 & P8 & P9 & P10).
      exists (PIRec (PMetadata m') :: ps).
      pose proof (Forall_inv HSx) as Hsm. unfold item_small in Hsm. cbn [render_item] in Hsm. rewrite blen_frame in Hsm.
      split; [cbn [map flat1 app pitem_bytes rec_op rec_body render_item]; rewrite <- E1, P1; reflexivity|].
      split; [constructor; [|exact P2]|].
      { intro v. split; [cbn [rec_body]; rewrite <- E1; lia|]. split; [exact Wm|reflexivity]. }
      split; [constructor; [split; reflexivity|exact P3]|].
      split; [change (py_expected (PIRec (PMetadata m') :: ps)) with (PMetadata (py_metadata m') :: py_expected ps);
              cbn [filter scm]; exact P4|].
      split; [unfold file_atts in *; cbn [flat_map pitem_atts app]; exact P5|].
      split; [unfold file_mds in *; cbn [flat_map pitem_mds app]; rewrite P6; reflexivity|].
      cbn [exp_att exp_md exp_ci snd fst app].
      split; [exact P7|]. split; [|split; [exact P9|]].
      2:{ change (py_expected (PIRec (PMetadata m') :: ps)) with (PMetadata (py_metadata m') :: py_expected ps).
          constructor; [exact I|exact P10]. }
      constructor; [|exact P8].
      assert (En : md_name m = md_name m').
      { apply enc_metadata_name; [lia|apply Wm|exact E1]. }
      destruct Wm as (W1 & U1 & _). split; [|cbn [mx_name]; rewrite En; exact U1].
      unfold wf_mdindex. cbn [mx_offset mx_length mx_name]. rewrite En, blen_frame.
      cbn [flat1] in Hoff. unfold offset_of in Hoff. rewrite rendered_one in Hoff. cbn [render_item] in Hoff.
      rewrite blen_frame in Hoff.
      unfold two63, two64, two32 in *. repeat split; try assumption; lia.
    + (* chunk with its message indexes *)
      cbn [chunks_ok] in HK. destruct HK as [HK1 HK2]. cbn [data_sitem] in Hx.
      destruct HK1 as (recs & Hr & Hu & Hne & Hc & Hcrc & _ & _).
      rewrite Hid in Hr. rewrite (Hunc Hx) in Hc.
      cbn [flat1] in HSx. inversion HSx as [|? ? Hsk HSm]; subst. unfold item_small in Hsk.
      cbn [render_item] in Hsk. rewrite blen_frame in Hsk. unfold enc_chunk in Hsk. rewrite PyReadFacts.blen_app in Hsk.
      rewrite plain_of_frames in Hr.
      assert (Hsmall : Forall (fun r => blen (snd r) < two64) (map cpair recs)).
      { apply Forall_forall. intros r Hin. pose proof (frames_body_le r _ Hin) as L. rewrite <- Hr in L.
        unfold two32, two64 in *. lia. }
      cbn [flat1] in EA, EM, ET. rewrite !(all_records_cons uid (IChunk k)) in EA, EM, ET.
      rewrite (chunk_item_records k _ Hr Hsmall) in EA, EM, ET.
      rewrite !filter_app in EA, EM, ET.
      destruct (mi_records_none mis) as (N1 & N2 & N3). rewrite N1 in EA. rewrite N2 in ET. rewrite N3 in EM.
      rewrite app_nil_r in EA, EM, ET.
      (* the typed records of this chunk are a prefix of A *)
      assert (Hcls : filter is_auto (map cr_of (map cpair recs)) = map cr_of (map cpair recs) /\
                     filter ComposeFacts.is_att (map cr_of (map cpair recs)) = [] /\
                     filter (is_op OpMetadata) (map cr_of (map cpair recs)) = []).
      { clear. induction recs as [|r recs (I1 & I2 & I3)]; [repeat split|]. cbn [map filter]. rewrite I1, I2, I3.
        destruct r; repeat split. }
      destruct Hcls as (C1 & C2 & C3). rewrite C1 in EA. rewrite C2 in ET. rewrite C3 in EM. cbn [app] in ET, EM.
      destruct (map_eq_app_inv _ _ _ _ (eq_sym EA)) as [EA1 EA2].
      set (nk := length (map cr_of (map cpair recs))) in *.
      set (Ak := firstn nk A) in *. set (A' := skipn nk A) in *.
      assert (EAk : map apair Ak = map cpair recs).
      { apply map_cr_of_inj. rewrite map_map. exact EA1. }
      assert (HA : A = Ak ++ A') by (symmetry; apply firstn_skipn).
      assert (WAk : Forall arec_ok Ak /\ Forall arec_ok A').
      { rewrite HA in WA. apply Forall_app in WA. exact WA. }
      destruct WAk as [WAk WA'].
      rewrite <- EAk in Hr.
      destruct (IH (S n) _ A' M T HD' HK2 HS' Hoff' (eq_sym EA2) EM ET WA' WM WT) as (ps & P1 & P2 & P3 & P4 & P5 & P6 & P7 & P8 & P9 & P10).
      assert (Hu' : k_usize k = blen (k_records k)) by (rewrite Hu, plain_of_frames, <- EAk, Hr; reflexivity).
      exists (chunk_pitem k Ak :: map (fun mi => PIRec (PMsgIndex (mi_wrap mi))) mis ++ ps).
      assert (Hmi_b : map pitem_bytes (map (fun mi => PIRec (PMsgIndex (mi_wrap mi))) mis) = map render_item (map mi_item mis)).
      { rewrite !map_map. apply map_ext. intro mi. cbn [pitem_bytes rec_op rec_body mi_item render_item].
        rewrite enc_mi_wrap. reflexivity. }
      split.
      { cbn [map app]. rewrite (chunk_pitem_bytes k Ak Hr Hu' Hc). f_equal. rewrite !map_app, Hmi_b, P1. reflexivity. }
      split.
      { constructor.
        - intro v. unfold chunk_pitem. split.
          + pose proof (chunk_pitem_bytes k Ak Hr Hu' Hc) as B. unfold chunk_pitem in B. cbn [pitem_bytes render_item] in B.
            pose proof (f_equal blen B) as B'. rewrite !blen_frame in B'. unfold enc_chunk at 2 in B'.
            rewrite PyReadFacts.blen_app in B'. lia.
          + split; [apply mod64_lt|]. split; [apply mod64_lt|]. split.
            * rewrite Hcrc. destruct (o_crc o); [apply crc32_bound|reflexivity].
            * intros _. split.
              -- apply Forall_forall. intros i Hi. apply in_map_iff in Hi. destruct Hi as (a & <- & Ha).
                 rewrite Forall_forall in WAk. apply (pwf_inner_ninner a Ak (WAk a Ha) Ha).
                 rewrite <- Hr. unfold two32, two63 in *. lia.
              -- intros _. rewrite Hcrc, chunk_bytes_ninner, plain_of_frames, <- EAk.
                 destruct (o_crc o); [right|left]; reflexivity.
        - apply Forall_app. split; [|exact P2].
          apply Forall_forall. intros p Hp. apply in_map_iff in Hp. destruct Hp as (mi & <- & Hmi).
          rewrite Forall_forall in HSm. specialize (HSm (mi_item mi) (in_map mi_item _ _ Hmi)).
          unfold item_small in HSm. cbn [mi_item render_item] in HSm. rewrite blen_frame in HSm.
          intro v. split; [cbn [rec_body]; rewrite enc_mi_wrap; lia|].
          split; [cbn [pwf_rec]; apply mi_wrap_wf; lia|reflexivity]. }
      split.
      { constructor; [split; reflexivity|]. apply Forall_app. split; [|exact P3].
        apply Forall_forall. intros p Hp. apply in_map_iff in Hp. destruct Hp as (mi & <- & _). split; reflexivity. }
      assert (Hmi_e : forall f, (forall mi, f (PMsgIndex (mi_wrap mi)) = false) ->
                filter f (py_expected (map (fun mi => PIRec (PMsgIndex (mi_wrap mi))) mis)) = []).
      { intros f Hf. clear - Hf. induction mis as [|mi mis IHm]; [reflexivity|].
        cbn [map]. change (py_expected (?p :: ?l)) with (pitem_recs false p ++ py_expected l).
        cbn [pitem_recs py_norm app filter]. rewrite Hf. exact IHm. }
      split.
      { change (py_expected (chunk_pitem k Ak :: ?l)) with (chunk_recs (map ninner Ak) ++ py_expected l).
        unfold py_expected. rewrite py_expected_app. fold py_expected.
        rewrite chunk_recs_ninner, !filter_app, filter_scm_out, (Hmi_e scm) by reflexivity.
        rewrite P4, HA, map_app. reflexivity. }
      split.
      { unfold file_atts in *. cbn [flat_map pitem_atts chunk_pitem app]. rewrite flat_map_app, P5.
        replace (flat_map pitem_atts (map (fun mi => PIRec (PMsgIndex (mi_wrap mi))) mis)) with (@nil attachment); [reflexivity|].
        clear. induction mis; [reflexivity|assumption]. }
      split.
      { unfold file_mds in *. cbn [flat_map pitem_mds chunk_pitem app]. rewrite flat_map_app, P6.
        replace (flat_map pitem_mds (map (fun mi => PIRec (PMsgIndex (mi_wrap mi))) mis)) with (@nil metadata); [reflexivity|].
        clear. induction mis; [reflexivity|assumption]. }
      cbn [exp_att exp_md exp_ci snd fst app].
      split; [exact P7|]. split; [exact P8|]. split; [constructor; [exact Hc|exact P9]|].
      change (py_expected (chunk_pitem k Ak :: ?l)) with (chunk_recs (map ninner Ak) ++ py_expected l).
      unfold py_expected. rewrite py_expected_app. fold py_expected. rewrite chunk_recs_ninner.
      apply Forall_app. split; [|apply Forall_app; split; [|exact P10]].
      * apply Forall_forall. intros r0 Hr0. apply in_map_iff in Hr0. destruct Hr0 as (a & <- & _). destruct a; exact I.
      * clear. induction mis as [|mi mis IHm]; [constructor|]. cbn [map].
        change (py_expected (?p :: ?l)) with (pitem_recs false p ++ py_expected l).
        cbn [pitem_recs py_norm app]. constructor; [exact I|exact IHm].
Qed.
End Data.

(* no DataEnd record inside the data section (chunk contents included) *)
Lemma D_no_dataend o compress (Hid : forall i b, compress i b = b) : forall D n,
  Forall (data_sitem o) D -> chunks_ok o compress n D -> Forall item_small (flatten D) ->
  Forall (fun r => ComposeFacts.is_dataend r = false) (all_records uid (flatten D)).
Proof.
  induction D as [|x D IH]; intros n HD HK HS; [constructor|].
  inversion HD as [|? ? Hx HD']; subst.
  change (flatten (x :: D)) with (flat1 x ++ flatten D) in *.
  apply Forall_app in HS. destruct HS as [HSx HS'].
  rewrite all_records_app. apply Forall_app.
  destruct x as [it|m|k mis].
  - cbn [chunks_ok] in HK. split; [|exact (IH n HD' HK HS')].
    destruct it as [|op body|k|a data crc|ss sos crc]; cbn [data_sitem] in Hx; try contradiction.
    + destruct Hx as [_ Hop]. cbn [flat1 all_records flat_map item_records app]. constructor; [|constructor].
      destruct Hop as [->|[->| ->]]; reflexivity.
    + cbn [flat1 all_records flat_map item_records app]. constructor; [reflexivity|constructor].
  - cbn [chunks_ok] in HK. split; [|exact (IH n HD' HK HS')].
    cbn [flat1 all_records flat_map item_records app]. constructor; [reflexivity|constructor].
  - cbn [chunks_ok] in HK. destruct HK as [HK1 HK2]. split; [|exact (IH (S n) HD' HK2 HS')].
    destruct HK1 as (recs & Hr & _). rewrite Hid, plain_of_frames in Hr.
    cbn [flat1] in HSx. pose proof (Forall_inv HSx) as Hsk. unfold item_small in Hsk.
    cbn [render_item] in Hsk. rewrite blen_frame in Hsk. unfold enc_chunk in Hsk. rewrite PyReadFacts.blen_app in Hsk.
    assert (Hsmall : Forall (fun r => blen (snd r) < two64) (map cpair recs)).
    { apply Forall_forall. intros r Hin. pose proof (frames_body_le r _ Hin) as L. rewrite <- Hr in L.
      unfold two32, two64 in *. lia. }
    cbn [flat1]. rewrite (all_records_cons uid (IChunk k)), (chunk_item_records k _ Hr Hsmall).
    apply Forall_app. split.
    + clear. induction recs as [|r recs IHr]; [constructor|]. cbn [map]. constructor; [destruct r; reflexivity|exact IHr].
    + clear. induction mis as [|mi mis IHm]; [constructor|]. cbn [map all_records flat_map mi_item item_records app].
      constructor; [reflexivity|exact IHm].
Qed.

(* the typed content of well-formed, UTF-8 clean calls is what the Python record readers accept *)
Lemma kvs_ok_of m : wf_kvs m -> kvs_utf8 m -> Forall kv_ok m.
Proof.
  intros [_ H1] H2. unfold kvs_utf8 in H2. rewrite Forall_forall in *. intros kv Hkv. specialize (H1 kv Hkv). specialize (H2 kv Hkv).
  destruct H2 as [U1 U2]. split; [exact H1|split; assumption].
Qed.

Lemma schema_call_ok sc : call_wf (CSchema sc) -> call_utf8 (CSchema sc) -> pwf_schema sc.
Proof. cbn [call_wf call_utf8]. intros W [U1 U2]. split; [exact W|split; assumption]. Qed.

Lemma channel_call_ok c : call_wf (CChannel c) -> call_utf8 (CChannel c) -> pwf_channel c.
Proof.
  cbn [call_wf call_utf8]. intros (W1 & W2 & W3 & W4 & W5 & W6) (U1 & U2 & U3).
  unfold pwf_channel. repeat split; try assumption; [apply kvs_ok_of; assumption|].
  unfold enc_channel, enc_map in W6. cbv zeta in W6. rewrite !app_length in W6. unfold blen. lia.
Qed.

Lemma metadata_call_ok m : call_wf (CMetadata m) -> call_utf8 (CMetadata m) -> pwf_metadata m.
Proof.
  cbn [call_wf call_utf8]. intros ((W1 & W2 & W3) & _) (U1 & U2).
  unfold pwf_metadata. repeat split; try assumption; [apply kvs_ok_of; assumption|].
  unfold enc_metadata, enc_map in W3. cbv zeta in W3. rewrite !app_length in W3. unfold blen. lia.
Qed.

Lemma attachment_call_ok a src : call_wf (CAttachment a src) -> call_utf8 (CAttachment a src) ->
  att_ok (a, concat (as_frags src)).
Proof.
  cbn [call_wf call_utf8]. intros (W1 & W2 & W3 & W4 & W5 & W6 & W7) (U1 & U2).
  unfold att_ok, pwf_attachment. cbn [fst snd att_set a_log a_create a_name a_media a_size a_data].
  repeat split; try assumption.
  unfold attach_body in W7. rewrite !PyReadFacts.blen_app in W7. lia.
Qed.

Lemma calls_ok cs : Forall call_wf cs -> Forall call_utf8 cs ->
  Forall arec_ok (auto_recs cs) /\ Forall pwf_metadata (metadata_of cs) /\ Forall att_ok (attachments_of cs).
Proof.
  intros HW. induction HW as [|c cs Wc _ IH]; intro HU; [repeat split; constructor|].
  inversion HU as [|? ? Uc HU']; subst. destruct (IH HU') as (I1 & I2 & I3).
  unfold auto_recs, metadata_of, attachments_of in *. cbn [flat_map].
  destruct c as [h|sc|c|m|a src|m|]; cbn [app]; repeat split; try assumption; constructor; try assumption.
  - exact (schema_call_ok sc Wc Uc).
  - exact (channel_call_ok c Wc Uc).
  - exact (attachment_call_ok a src Wc Uc).
  - exact (metadata_call_ok m Wc Uc).
Qed.

(* ====================================================================================== *)
(** * 2d. iter_messages: only schema, channel and message records matter; the triples in terms of the calls *)

Lemma latest_schema_scm pre id : latest_schema (filter scm pre) id = latest_schema pre id.
Proof.
  unfold latest_schema. generalize (@None schema). induction pre as [|r pre IH]; intro acc; [reflexivity|].
  cbn [filter]. destruct r; cbn [scm fold_left]; apply IH.
Qed.
Lemma latest_channel_scm pre id : latest_channel (filter scm pre) id = latest_channel pre id.
Proof.
  unfold latest_channel. generalize (@None channel). induction pre as [|r pre IH]; intro acc; [reflexivity|].
  cbn [filter]. destruct r; cbn [scm fold_left]; apply IH.
Qed.

Lemma msg_triple_scm flt pre m : msg_triple flt (filter scm pre) m = msg_triple flt pre m.
Proof.
  unfold msg_triple. rewrite latest_channel_scm. destruct (latest_channel pre (m_chan m)) as [c|]; [|reflexivity].
  rewrite latest_schema_scm. reflexivity.
Qed.

Lemma filter_scm_snoc pre r : filter scm (pre ++ [r]) = filter scm pre ++ (if scm r then [r] else []).
Proof. rewrite filter_app. cbn [filter]. destruct (scm r); reflexivity. Qed.

Lemma msgs_spec_scm flt rs : forall pre, msgs_spec flt (filter scm pre) (filter scm rs) = msgs_spec flt pre rs.
Proof.
  induction rs as [|r rs IH]; intro pre; [reflexivity|]. cbn [msgs_spec]. rewrite <- (IH (pre ++ [r])), filter_scm_snoc.
  cbn [filter]. destruct r; cbn [scm msgs_spec app]; rewrite ?app_nil_r; try reflexivity.
  rewrite msg_triple_scm. reflexivity.
Qed.

Lemma refs_ok_scm rs : forall pre, refs_ok (filter scm pre) (filter scm rs) = refs_ok pre rs.
Proof.
  induction rs as [|r rs IH]; intro pre; [reflexivity|]. cbn [refs_ok]. rewrite <- (IH (pre ++ [r])), filter_scm_snoc.
  cbn [filter]. destruct r; cbn [scm refs_ok andb]; rewrite ?app_nil_r, ?latest_schema_scm, ?latest_channel_scm; reflexivity.
Qed.

Lemma latest_channel_out L : forall id x, latest_channel (map arec_out L) id = Some x ->
  exists c, x = py_channel c /\ In (AChannel c) L /\ c_id c = id.
Proof.
  induction L as [|a L IH] using rev_ind; intros id x H; [discriminate H|].
  rewrite map_app in H. cbn [map] in H. rewrite latest_channel_snoc in H.
  assert (K : latest_channel (map arec_out L) id = Some x -> exists c, x = py_channel c /\ In (AChannel c) (L ++ [a]) /\ c_id c = id).
  { intro H'. destruct (IH _ _ H') as (c & E1 & E2 & E3). exists c. split; [exact E1|]. split; [apply in_or_app; left; exact E2|exact E3]. }
  destruct a as [sc|c|m]; cbn [arec_out arec_prec py_norm] in H; try (apply K; exact H).
  change (c_id (py_channel c)) with (c_id c) in H. destruct (N.eqb_spec (c_id c) id) as [E|E]; [|apply K; exact H].
  injection H as <-. exists c. split; [reflexivity|]. split; [apply in_or_app; right; left; reflexivity|exact E].
Qed.
Lemma latest_schema_out L : forall id x, latest_schema (map arec_out L) id = Some x ->
  In (ASchema x) L /\ s_id x = id.
Proof.
  induction L as [|a L IH] using rev_ind; intros id x H; [discriminate H|].
  rewrite map_app in H. cbn [map] in H. rewrite latest_schema_snoc in H.
  assert (K : latest_schema (map arec_out L) id = Some x -> In (ASchema x) (L ++ [a]) /\ s_id x = id).
  { intro H'. destruct (IH _ _ H') as (E2 & E3). split; [apply in_or_app; left; exact E2|exact E3]. }
  destruct a as [sc|c|m]; cbn [arec_out arec_prec py_norm] in H; try (apply K; exact H).
  destruct (N.eqb_spec (s_id sc) id) as [E|E]; [|apply K; exact H].
  injection H as <-. split; [apply in_or_app; right; left; reflexivity|exact E].
Qed.
Lemma latest_channel_some L c : In (AChannel c) L -> latest_channel (map arec_out L) (c_id c) <> None.
Proof.
  induction L as [|a L IH] using rev_ind; intro H; [destruct H|].
  rewrite map_app. cbn [map]. rewrite latest_channel_snoc. apply in_app_or in H.
  destruct a as [sc|c'|m]; cbn [arec_out arec_prec py_norm];
    try (destruct H as [H|[H|[]]]; [apply IH; exact H|discriminate H]).
  change (c_id (py_channel c')) with (c_id c'). destruct (N.eqb_spec (c_id c') (c_id c)) as [E|E]; [discriminate|].
  destruct H as [H|[H|[]]]; [apply IH; exact H|]. injection H as ->. contradiction.
Qed.
Lemma latest_schema_some L sc : In (ASchema sc) L -> latest_schema (map arec_out L) (s_id sc) <> None.
Proof.
  induction L as [|a L IH] using rev_ind; intro H; [destruct H|].
  rewrite map_app. cbn [map]. rewrite latest_schema_snoc. apply in_app_or in H.
  destruct a as [sc'|c'|m]; cbn [arec_out arec_prec py_norm];
    try (destruct H as [H|[H|[]]]; [apply IH; exact H|discriminate H]).
  destruct (N.eqb_spec (s_id sc') (s_id sc)) as [E|E]; [discriminate|].
  destruct H as [H|[H|[]]]; [apply IH; exact H|]. injection H as ->. contradiction.
Qed.

(* what iter_messages yields for a message call: its channel and that channel's schema as the calls
   registered them (py_channel: the metadata dict in the order Go wrote the pairs) *)
Definition go_triple (cs : list wcall) (flt : mfilter) (m : message) : list triple :=
  match call_chan cs (m_chan m) with
  | Some c =>
    if msg_selected flt (py_channel c) m
    then [(if c_schema c =? 0 then None else call_schema cs (c_schema c), py_channel c, m)]
    else []
  | None => []
  end.
Definition go_msgs (cs : list wcall) (flt : mfilter) : list triple := flat_map (go_triple cs flt) (messages_of cs).

Section Msgs.
Variable cs : list wcall.
Variable flt : mfilter.

Lemma msgs_arec : forall A2 A1 chs schs,
  (forall id, In id chs -> exists c, In (AChannel c) A1 /\ c_id c = id) ->
  (forall id, In id schs -> exists sc, In (ASchema sc) A1 /\ s_id sc = id) ->
  (forall c, In (AChannel c) A1 -> c_schema c = 0 \/ exists sc, In (ASchema sc) A1 /\ s_id sc = c_schema c) ->
  (forall c, In (AChannel c) (A1 ++ A2) -> call_chan cs (c_id c) = Some c) ->
  (forall sc, In (ASchema sc) (A1 ++ A2) -> call_schema cs (s_id sc) = Some sc) ->
  scoped chs schs A2 ->
  msgs_spec flt (map arec_out A1) (map arec_out A2) = flat_map (go_triple cs flt) (amsgs A2) /\
  refs_ok (map arec_out A1) (map arec_out A2) = true.
Proof.
  induction A2 as [|a A2 IH]; intros A1 chs schs I1 I2 I3 G1 G2 HS; [split; reflexivity|].
  assert (EA : (A1 ++ [a]) ++ A2 = A1 ++ a :: A2) by (rewrite <- app_assoc; reflexivity).
  assert (Hmap : map arec_out A1 ++ [arec_out a] = map arec_out (A1 ++ [a])) by (rewrite map_app; reflexivity).
  cbn [map msgs_spec refs_ok]. rewrite Hmap.
  destruct a as [sc|c|m]; cbn [scoped] in HS.
  - (* schema *)
    destruct (IH (A1 ++ [ASchema sc]) chs (s_id sc :: schs)) as [R1 R2]; try (rewrite EA; assumption); try exact HS.
    + intros id Hid. destruct (I1 id Hid) as (c & C1 & C2). exists c. split; [apply in_or_app; left; exact C1|exact C2].
    + intros id [<-|Hid]; [exists sc; split; [apply in_or_app; right; left; reflexivity|reflexivity]|].
      destruct (I2 id Hid) as (x & C1 & C2). exists x. split; [apply in_or_app; left; exact C1|exact C2].
    + intros c Hc. apply in_app_or in Hc. destruct Hc as [Hc|[Hc|[]]]; [|discriminate Hc].
      destruct (I3 c Hc) as [Z|(x & C1 & C2)]; [left; exact Z|right]. exists x. split; [apply in_or_app; left; exact C1|exact C2].
    + cbn [arec_out arec_prec py_norm app amsgs flat_map]. fold (amsgs A2). split; [exact R1|exact R2].
  - (* channel *)
    destruct HS as [Hsch HS].
    destruct (IH (A1 ++ [AChannel c]) (c_id c :: chs) schs) as [R1 R2]; try (rewrite EA; assumption); try exact HS.
    + intros id [<-|Hid]; [exists c; split; [apply in_or_app; right; left; reflexivity|reflexivity]|].
      destruct (I1 id Hid) as (x & C1 & C2). exists x. split; [apply in_or_app; left; exact C1|exact C2].
    + intros id Hid. destruct (I2 id Hid) as (x & C1 & C2). exists x. split; [apply in_or_app; left; exact C1|exact C2].
    + intros c' Hc. apply in_app_or in Hc. destruct Hc as [Hc|[Hc|[]]].
      * destruct (I3 c' Hc) as [Z|(x & C1 & C2)]; [left; exact Z|right]. exists x. split; [apply in_or_app; left; exact C1|exact C2].
      * injection Hc as <-. destruct Hsch as [Z|Hin]; [left; exact Z|right].
        destruct (I2 _ Hin) as (x & C1 & C2). exists x. split; [apply in_or_app; left; exact C1|exact C2].
    + cbn [arec_out arec_prec py_norm app amsgs flat_map]. fold (amsgs A2). split; [exact R1|].
      change (c_schema (py_channel c)) with (c_schema c). rewrite R2, andb_true_r.
      destruct Hsch as [Z|Hin]; [rewrite Z; reflexivity|].
      destruct (I2 _ Hin) as (x & C1 & C2). pose proof (latest_schema_some A1 x C1) as NS. rewrite C2 in NS.
      destruct (latest_schema (map arec_out A1) (c_schema c)); [apply orb_true_r|contradiction].
  - (* message *)
    destruct HS as [Hch HS].
    destruct (IH (A1 ++ [AMessage m]) chs schs) as [R1 R2]; try (rewrite EA; assumption); try exact HS.
    + intros id Hid. destruct (I1 id Hid) as (x & C1 & C2). exists x. split; [apply in_or_app; left; exact C1|exact C2].
    + intros id Hid. destruct (I2 id Hid) as (x & C1 & C2). exists x. split; [apply in_or_app; left; exact C1|exact C2].
    + intros c Hc. apply in_app_or in Hc. destruct Hc as [Hc|[Hc|[]]]; [|discriminate Hc].
      destruct (I3 c Hc) as [Z|(x & C1 & C2)]; [left; exact Z|right]. exists x. split; [apply in_or_app; left; exact C1|exact C2].
    + cbn [arec_out arec_prec py_norm amsgs flat_map]. fold (amsgs A2). rewrite R1, R2, andb_true_r.
      destruct (I1 _ Hch) as (c0 & C1 & C2).
      pose proof (latest_channel_some A1 c0 C1) as NC. rewrite C2 in NC.
      destruct (latest_channel (map arec_out A1) (m_chan m)) as [x|] eqn:LC; [|contradiction].
      destruct (latest_channel_out A1 _ _ LC) as (c & -> & Hc & Hcid).
      split; [|reflexivity]. rewrite flat_map_app. cbn [flat_map]. rewrite app_nil_r. f_equal.
      unfold msg_triple, go_triple. rewrite LC.
      rewrite <- Hcid, (G1 c (in_or_app _ _ _ (or_introl Hc))).
      change (c_schema (py_channel c)) with (c_schema c).
      destruct (msg_selected flt (py_channel c) m); [|reflexivity].
      destruct (N.eqb_spec (c_schema c) 0) as [Z|NZ]; [reflexivity|].
      destruct (I3 c Hc) as [Z|(x & X1 & X2)]; [contradiction|].
      pose proof (latest_schema_some A1 x X1) as NS. rewrite X2 in NS.
      destruct (latest_schema (map arec_out A1) (c_schema c)) as [y|] eqn:LS; [|contradiction].
      destruct (latest_schema_out A1 _ _ LS) as (Hy & Hyid).
      rewrite <- Hyid, (G2 y (in_or_app _ _ _ (or_introl Hy))). reflexivity.
Qed.
End Msgs.

(* ====================================================================================== *)
(** * 2e. a StreamReader started with skip_magic=True inside the file (SeekingReader.get_summary) *)

Definition sr_skipped (r : sr) : sr :=
  {| sr_s := sr_s r; sr_skip := true; sr_emit := sr_emit r; sr_validate := sr_validate r; sr_limit := sr_limit r;
     sr_phase := sr_phase r; sr_pending := sr_pending r |}.

Definition lift_skipped (x : pres (option prec * sr)) : pres (option prec * sr) :=
  match x with POk (y, r') => POk (y, sr_skipped r') | PRaise e => PRaise e | PFuel => PFuel end.

(* without CRC validation the skip flag is looked at only at the start *)
Lemma sr_iter_skipped r : sr_validate r = false -> sr_iter (sr_skipped r) = sr_iter r.
Proof.
  intro H. unfold sr_iter, sr_skipped. cbn [sr_s sr_skip sr_emit sr_validate sr_limit]. rewrite H. reflexivity.
Qed.

Lemma sr_next_skipped fuel : forall r, sr_validate r = false -> sr_phase r <> PhStart ->
  sr_next fuel (sr_skipped r) = lift_skipped (sr_next fuel r).
Proof.
  induction fuel as [|fuel IH]; intros r HV HP; [reflexivity|]. cbn [sr_next].
  change (sr_pending (sr_skipped r)) with (sr_pending r). change (sr_phase (sr_skipped r)) with (sr_phase r).
  destruct (sr_pending r) as [|x rest]; [|reflexivity].
  destruct (sr_phase r) eqn:EP; [contradiction| | |reflexivity].
  - rewrite (sr_iter_skipped r HV). destruct (sr_iter r) as [[[ys isf] s']| |]; cbn [pbind lift_skipped]; try reflexivity.
    change (sr_with (sr_skipped r) s' (if isf then PhFooter else PhLoop) ys)
      with (sr_skipped (sr_with r s' (if isf then PhFooter else PhLoop) ys)).
    apply IH; [exact HV|]. cbn [sr_with sr_phase]. destruct isf; discriminate.
  - change (sr_s (sr_skipped r)) with (sr_s r). destruct (read_magic (sr_s r)) as [s'| |]; reflexivity.
Qed.

Lemma sr_next_phase fuel : forall r x r', sr_phase r <> PhStart -> sr_next fuel r = POk (x, r') ->
  sr_phase r' <> PhStart /\ sr_validate r' = sr_validate r.
Proof.
  induction fuel as [|fuel IH]; intros r x r' HP H; [discriminate H|]. cbn [sr_next] in H.
  destruct (sr_pending r) as [|y rest].
  - destruct (sr_phase r) eqn:EP; [contradiction| | |].
    + destruct (sr_iter r) as [[[ys isf] s']| |]; cbn [pbind] in H; try discriminate H.
      apply IH in H; [exact H|]. cbn [sr_with sr_phase]. destruct isf; discriminate.
    + destruct (read_magic (sr_s r)) as [s'| |]; cbn [pbind] in H; try discriminate H.
      injection H as _ <-. split; [discriminate|reflexivity].
    + injection H as _ <-. split; [rewrite EP; discriminate|reflexivity].
  - injection H as _ <-. split; [exact HP|reflexivity].
Qed.

Lemma gen_yields_skipped r xs : gen_yields r xs -> sr_validate r = false -> sr_phase r <> PhStart ->
  gen_yields (sr_skipped r) xs.
Proof.
  induction 1 as [r r' E|r x r' xs E G IH]; intros HV HP.
  - eapply gy_stop. unfold sr_pull in *. change (sr_fuel (sr_skipped r)) with (sr_fuel r).
    rewrite (sr_next_skipped _ r HV HP), E. reflexivity.
  - destruct (sr_next_phase _ _ _ _ HP E) as [HP' HV'].
    eapply gy_step; [|apply IH; [rewrite HV'; exact HV|exact HP']].
    unfold sr_pull in *. change (sr_fuel (sr_skipped r)) with (sr_fuel r).
    rewrite (sr_next_skipped _ r HV HP), E. reflexivity.
Qed.

(* the generator started (skip_magic=True, no validation) at the first byte of a record of the file *)
Theorem py_gen_skip body f :
  Forall (pwf_pitem false false) (body ++ [PIRec (PFooter f)]) ->
  Forall (fun p => is_footer_item p = false) body ->
  gen_yields (new_sr (py_render (body ++ [PIRec (PFooter f)]) ++ magic) true false false limit_4g)
             (py_expected (body ++ [PIRec (PFooter f)])).
Proof.
  intros W NF. set (b := py_render (body ++ [PIRec (PFooter f)]) ++ magic).
  set (s0 := mem_stream b false).
  assert (HD : dataend_ok false [] (body ++ [PIRec (PFooter f)])) by (intro V; discriminate V).
  assert (HF : (length body + 2 <= length b + 3)%nat).
  { unfold b. rewrite app_length. pose proof (py_render_length (body ++ [PIRec (PFooter f)])) as L.
    rewrite app_length in L. cbn [length] in L. lia. }
  pose proof (sr_next_items false false s0 f (fun V => False_ind _ (Bool.diff_false_true V)) body [] (length b + 3)%nat W NF HD HF) as G.
  change (adv s0 [] (py_render (body ++ [PIRec (PFooter f)]) ++ magic)) with (adv s0 [] (ps_buf s0)) in G.
  rewrite adv_nil in G.
  apply gen_yields_pull. unfold sr_pull.
  replace (sr_fuel (new_sr b true false false limit_4g)) with (S (length b + 3))
    by (unfold sr_fuel; cbn [new_sr sr_s mem_stream ps_buf]; lia).
  cbn [sr_next new_sr sr_pending sr_phase sr_skip sr_s].
  change (sr_with (new_sr b true false false limit_4g) (mem_stream b false) PhLoop [])
    with (sr_skipped (mk_sr false false s0 PhLoop [])).
  rewrite sr_next_skipped by (reflexivity || discriminate).
  unfold py_expected. destruct (py_expected_gen false (body ++ [PIRec (PFooter f)])) as [|x xs]; cbn [gen_body] in *.
  - destruct G as [r' E]. rewrite E. eexists. reflexivity.
  - destruct G as (r' & E & G'). rewrite E. eexists. split; [reflexivity|].
    assert (HP0 : sr_phase (mk_sr false false s0 PhLoop []) <> PhStart) by discriminate.
    destruct (sr_next_phase _ _ _ _ HP0 E) as [HP' HV'].
    apply gen_yields_skipped; [exact G'|rewrite HV'; reflexivity|exact HP'].
Qed.

Lemma pdrop_app_exact a b : pdrop (blen a) (a ++ b) = b.
Proof.
  unfold pdrop. rewrite PyReadFacts.blen_app, N.min_l by lia. unfold blen. rewrite Nat2N.id. apply skipn_app_exact.
Qed.

(* SeekingReader.get_summary on a typed file whose summary section starts at the offset the footer gives *)
Theorem py_sk_get_summary (dataps : list pitem) (srs : list prec) (ft : footer) :
  let ps := dataps ++ map PIRec srs ++ [PIRec (PFooter ft)] in
  Forall (pwf_pitem false false) (map PIRec srs ++ [PIRec (PFooter ft)]) ->
  Forall (fun p => is_footer_item p = false) (map PIRec srs) ->
  (f_summary_start ft = 0 \/ f_summary_start ft = blen (magic ++ py_render dataps)) ->
  blen (the_file ps) < two63 ->
  sk_get_summary (the_file ps)
  = POk (if f_summary_start ft =? 0 then None else Some (fold_left summary_add (map py_norm srs) empty_summary)).
Proof.
  intros ps W NF Hss Hsz.
  assert (EF : the_file ps = (magic ++ py_render dataps) ++ py_render (map PIRec srs ++ [PIRec (PFooter ft)]) ++ magic).
  { unfold the_file, ps, py_render. rewrite !map_app, !concat_app, <- !app_assoc. reflexivity. }
  assert (EF2 : the_file ps = (magic ++ py_render dataps ++ py_render (map PIRec srs))
                              ++ py_render ([] ++ [PIRec (PFooter ft)]) ++ magic).
  { rewrite EF. unfold py_render. rewrite !map_app, !concat_app, <- !app_assoc. reflexivity. }
  unfold sk_get_summary, sr_at.
  assert (E1 : blen (the_file ps) - (footer_size + 8) = blen (magic ++ py_render dataps ++ py_render (map PIRec srs))).
  { rewrite EF2 at 1. rewrite PyReadFacts.blen_app. cbn [app]. unfold py_render at 3. cbn [map concat pitem_bytes rec_op rec_body].
    rewrite app_nil_r, (PyReadFacts.blen_app (frame _ _)), blen_frame. unfold enc_footer.
    rewrite !PyReadFacts.blen_app, !PyReadFacts.blen_u64, PyReadFacts.blen_u32. change (blen magic) with 8. unfold footer_size. lia. }
  rewrite E1. rewrite EF2 at 1. rewrite pdrop_app_exact.
  assert (W0 : Forall (pwf_pitem false false) ([] ++ [PIRec (PFooter ft)])).
  { apply Forall_app in W. destruct W as [_ W]. exact W. }
  pose proof (py_gen_skip [] ft W0 (Forall_nil _)) as G0.
  change (py_expected ([] ++ [PIRec (PFooter ft)])) with [PFooter ft] in G0.
  apply gen_yields_cons in G0. destruct G0 as (r' & E0 & _). rewrite E0. cbn [pbind].
  destruct (N.eqb_spec (f_summary_start ft) 0) as [Z|NZ]; [reflexivity|].
  destruct Hss as [Z|Hss]; [contradiction|].
  assert (Hle : f_summary_start ft <= blen (the_file ps)).
  { rewrite Hss, EF, !PyReadFacts.blen_app. lia. }
  replace (max_ssize <? Z.of_N (f_summary_start ft))%Z with false
    by (symmetry; apply Z.ltb_ge; unfold max_ssize, two63 in *; lia).
  rewrite Hss. rewrite EF at 2. rewrite pdrop_app_exact.
  pose proof (py_gen_skip (map PIRec srs) ft W NF) as G.
  unfold py_expected in G. rewrite py_expected_app in G. fold py_expected in G.
  change (py_expected_gen false [PIRec (PFooter ft)]) with [PFooter ft] in G.
  assert (EX : py_expected (map PIRec srs) = map py_norm srs).
  { unfold py_expected, py_expected_gen. clear. induction srs as [|r l IH]; [reflexivity|].
    cbn [map flat_map pitem_recs app]. rewrite IH. reflexivity. }
  rewrite EX in G.
  rewrite (read_summary_gen (map py_norm srs) _ ft [] empty_summary _ G).
  - destruct (N.eqb_spec (f_summary_start ft) 0); [contradiction|reflexivity].
  - rewrite <- EX. apply expected_no_footer. exact NF.
  - unfold all_fuel. rewrite EF, !app_length.
    pose proof (py_expected_length false (map PIRec srs ++ [PIRec (PFooter ft)])) as L.
    unfold py_expected in EX. rewrite py_expected_app, EX, app_length in L. cbn [length] in L. lia.
Qed.

(* ====================================================================================== *)
(** * 3. the run *)

Lemma eff_flags o :
  let eo := effective_opts o in
  o_crc eo = o_crc o /\ o_chunked eo = o_chunked o /\ o_comp eo = o_comp o /\ o_skip_magic eo = o_skip_magic o /\
  o_skip_stats eo = o_skip_stats o.
Proof. unfold effective_opts. destruct (_ && _); repeat split. Qed.

Definition is_de_item (it : item) : Prop := match it with IRec op _ => op = OpDataEnd | _ => False end.

(* the summary section, typed *)
Definition sum_recs (sch : list schema) (chs : list channel) (sts : list statistics)
  (cis : list chunkindex) (ais : list attindex) (mxs : list mdindex) (offs : list sumoffset) : list prec :=
  map PSchema sch ++ map PChannel chs ++ map (fun st => PStatistics (st_wrap st)) sts ++
  map (fun ci => PChunkIndex (ci_wrap ci)) cis ++ map PAttIndex ais ++ map PMdIndex mxs ++ map PSumOffset offs.

Lemma sum_recs_bytes sch chs sts cis ais mxs offs :
  map pitem_bytes (map PIRec (sum_recs sch chs sts cis ais mxs offs))
  = map render_item
      (sum_items [(OpSchema, map enc_schema sch); (OpChannel, map enc_channel chs);
                  (OpStatistics, map enc_statistics sts); (OpChunkIndex, map enc_chunkindex cis);
                  (OpAttachmentIndex, map enc_attindex ais); (OpMetadataIndex, map enc_mdindex mxs)]
       ++ map so_item offs).
Proof.
  unfold sum_recs. cbn [sum_items flat_map]. rewrite app_nil_r. unfold group_items. cbn [fst snd].
  rewrite !map_app, !map_map. rewrite <- !app_assoc.
  repeat (apply (f_equal2 (@app bytes)); [apply map_ext; intro x; cbn [pitem_bytes rec_op rec_body render_item so_item];
                    rewrite ?enc_st_wrap, ?enc_ci_wrap; reflexivity|]).
  apply map_ext. intro x. reflexivity.
Qed.

(* the typed description of a whole file *)
Definition go_ps (h : header) (dps : list pitem) (c1 : N) (srs : list prec) (ft : footer) : list pitem :=
  PIRec (PHeader h) :: dps ++ PIRec (PDataEnd {| de_crc := c1 |}) :: map PIRec srs ++ [PIRec (PFooter ft)].

Definition sum_rec_ok (r : prec) : Prop :=
  pwf_rec r /\ blen (rec_body r) <= two32 /\ PyReadFacts.is_chunk r = false /\
  is_footer_item (PIRec r) = false /\ is_dataend_item (PIRec r) = false.

Lemma Forall_map_eq {A B C} (P : C -> Prop) (f : A -> C) (g : B -> C) l l' :
  map f l = map g l' -> Forall (fun y => P (g y)) l' -> Forall (fun x => P (f x)) l.
Proof. intros E H. apply Forall_map. rewrite E. apply Forall_map. exact H. Qed.

Lemma mk_summary_nil a b c d e f : mk_summary a b c d e f = [] <-> sum_recs a b c d e f [] = [].
Proof. destruct a, b, c, d, e, f; cbn; split; intro H; try discriminate H; reflexivity. Qed.

(* ---------- what Python reports for a typed file ---------- *)
Lemma go_ps_expected h dps c1 srs ft :
  py_expected (go_ps h dps c1 srs ft)
  = PHeader h :: py_expected dps ++ PDataEnd {| de_crc := c1 |} :: map py_norm srs ++ [PFooter ft].
Proof.
  unfold go_ps, py_expected, py_expected_gen. cbn [flat_map pitem_recs py_norm app]. f_equal.
  rewrite flat_map_app. f_equal. cbn [flat_map pitem_recs py_norm app]. f_equal.
  rewrite flat_map_app. f_equal.
  clear. induction srs as [|r srs IH]; [reflexivity|]. cbn [map flat_map pitem_recs app]. rewrite IH. reflexivity.
Qed.

(* records that carry neither attachments, metadata nor messages *)
Definition plain_rec (r : prec) : Prop :=
  match r with PAttachment _ | PMetadata _ | PMessage _ | PFooter _ => False | _ => True end.

Lemma sum_recs_plain sch chs sts cis ais mxs offs : Forall plain_rec (sum_recs sch chs sts cis ais mxs offs).
Proof.
  unfold sum_recs. repeat (apply Forall_app; split); apply Forall_forall; intros r Hr; apply in_map_iff in Hr;
    destruct Hr as (x & <- & _); exact I.
Qed.

Lemma plain_no_att srs : Forall plain_rec srs -> flat_map pitem_atts (map PIRec srs) = [].
Proof. induction 1 as [|r srs Hr _ IH]; [reflexivity|]. cbn [map flat_map]. rewrite IH. destruct r; try reflexivity; destruct Hr. Qed.
Lemma plain_no_md srs : Forall plain_rec srs -> flat_map pitem_mds (map PIRec srs) = [].
Proof. induction 1 as [|r srs Hr _ IH]; [reflexivity|]. cbn [map flat_map]. rewrite IH. destruct r; try reflexivity; destruct Hr. Qed.

Lemma go_ps_atts h dps c1 srs ft : Forall plain_rec srs -> file_atts (go_ps h dps c1 srs ft) = file_atts dps.
Proof.
  intro H. unfold file_atts, go_ps. cbn [flat_map pitem_atts app]. rewrite flat_map_app. cbn [flat_map pitem_atts app].
  rewrite flat_map_app, (plain_no_att srs H). cbn [flat_map pitem_atts app]. rewrite app_nil_r. reflexivity.
Qed.
Lemma go_ps_mds h dps c1 srs ft : Forall plain_rec srs -> file_mds (go_ps h dps c1 srs ft) = file_mds dps.
Proof.
  intro H. unfold file_mds, go_ps. cbn [flat_map pitem_mds app]. rewrite flat_map_app. cbn [flat_map pitem_mds app].
  rewrite flat_map_app, (plain_no_md srs H). cbn [flat_map pitem_mds app]. rewrite app_nil_r. reflexivity.
Qed.

Lemma sum_recs_scm sch chs sts cis ais mxs offs :
  filter scm (map py_norm (sum_recs sch chs sts cis ais mxs offs)) = map arec_out (map ASchema sch ++ map AChannel chs).
Proof.
  unfold sum_recs. rewrite !map_app, !filter_app, !map_map.
  assert (N : forall {A} (f : A -> prec) (l : list A), (forall x, scm (py_norm (f x)) = false) ->
              filter scm (map (fun x => py_norm (f x)) l) = []).
  { intros A f l Hf. induction l as [|x l IH]; [reflexivity|]. cbn [map filter]. rewrite Hf. exact IH. }
  rewrite (N _ (fun st => PStatistics (st_wrap st))), (N _ (fun ci => PChunkIndex (ci_wrap ci))), (N _ PAttIndex),
    (N _ PMdIndex), (N _ PSumOffset) by reflexivity.
  rewrite !app_nil_r. f_equal.
  - induction sch as [|x l IH]; [reflexivity|]. cbn [map filter]. change (scm (py_norm (PSchema x))) with true.
    cbv iota. f_equal. exact IH.
  - induction chs as [|x l IH]; [reflexivity|]. cbn [map filter]. change (scm (py_norm (PChannel x))) with true.
    cbv iota. f_equal. exact IH.
Qed.

Lemma call_chan_consistent cs c : ids_consistent cs -> In (CChannel c) cs -> call_chan cs (c_id c) = Some c.
Proof.
  intros [HC _] Hin. unfold call_chan. destruct (find _ _) as [c1|] eqn:E.
  - apply find_some in E. destruct E as [E1 E2]. apply N.eqb_eq in E2. apply in_channel_calls in E1.
    f_equal. apply HC; assumption.
  - pose proof (find_none _ _ E c (proj2 (in_channel_calls c cs) Hin)) as X. cbv beta in X. rewrite N.eqb_refl in X. discriminate.
Qed.
Lemma call_schema_consistent cs sc : ids_consistent cs -> In (CSchema sc) cs -> call_schema cs (s_id sc) = Some sc.
Proof.
  intros [_ HC] Hin. unfold call_schema. destruct (find _ _) as [c1|] eqn:E.
  - apply find_some in E. destruct E as [E1 E2]. apply N.eqb_eq in E2. apply in_schema_calls in E1.
    f_equal. apply HC; assumption.
  - pose proof (find_none _ _ E sc (proj2 (in_schema_calls sc cs) Hin)) as X. cbv beta in X. rewrite N.eqb_refl in X. discriminate.
Qed.

(* ---------- the Summary object Python builds from the records ---------- *)
Definition sel_stat (r : prec) : list statistics := match r with PStatistics x => [x] | _ => [] end.
Definition sel_ci (r : prec) : list chunkindex := match r with PChunkIndex x => [x] | _ => [] end.
Definition sel_ai (r : prec) : list attindex := match r with PAttIndex x => [x] | _ => [] end.
Definition sel_mx (r : prec) : list mdindex := match r with PMdIndex x => [x] | _ => [] end.
Definition lastopt {A} (l : list A) (d : option A) : option A := fold_left (fun _ x => Some x) l d.

Lemma lastopt_app {A} (a b : list A) d : lastopt (a ++ b) d = lastopt b (lastopt a d).
Proof. unfold lastopt. apply fold_left_app. Qed.

Lemma su_fold_stats xs : forall su, su_stats (fold_left summary_add xs su) = lastopt (flat_map sel_stat xs) (su_stats su).
Proof.
  induction xs as [|r xs IH]; intro su; [reflexivity|]. cbn [fold_left flat_map]. rewrite IH, lastopt_app.
  destruct r; reflexivity.
Qed.
Lemma su_fold_chunks xs : forall su, su_chunks (fold_left summary_add xs su) = su_chunks su ++ flat_map sel_ci xs.
Proof.
  induction xs as [|r xs IH]; intro su; cbn [fold_left flat_map]; [rewrite app_nil_r; reflexivity|]. rewrite IH.
  destruct r; cbn [summary_add su_chunks sel_ci app]; rewrite <- ?app_assoc; reflexivity.
Qed.
Lemma su_fold_atts xs : forall su, su_atts (fold_left summary_add xs su) = su_atts su ++ flat_map sel_ai xs.
Proof.
  induction xs as [|r xs IH]; intro su; cbn [fold_left flat_map]; [rewrite app_nil_r; reflexivity|]. rewrite IH.
  destruct r; cbn [summary_add su_atts sel_ai app]; rewrite <- ?app_assoc; reflexivity.
Qed.
Lemma su_fold_mds xs : forall su, su_mds (fold_left summary_add xs su) = su_mds su ++ flat_map sel_mx xs.
Proof.
  induction xs as [|r xs IH]; intro su; cbn [fold_left flat_map]; [rewrite app_nil_r; reflexivity|]. rewrite IH.
  destruct r; cbn [summary_add su_mds sel_mx app]; rewrite <- ?app_assoc; reflexivity.
Qed.

Lemma flat_map_map_nil {A B C} (sel : B -> list C) (g : A -> B) l : (forall x, sel (g x) = []) -> flat_map sel (map g l) = [].
Proof. intro H. induction l as [|x l IH]; [reflexivity|]. cbn [map flat_map]. rewrite H, IH. reflexivity. Qed.
Lemma flat_map_map_one {A B C} (sel : B -> list C) (g : A -> B) (h : A -> C) l :
  (forall x, sel (g x) = [h x]) -> flat_map sel (map g l) = map h l.
Proof. intro H. induction l as [|x l IH]; [reflexivity|]. cbn [map flat_map]. rewrite H, IH. reflexivity. Qed.

Lemma data_rec_sel {C} (sel : prec -> list C) xs :
  (forall r, data_rec r -> sel r = []) -> Forall data_rec xs -> flat_map sel xs = [].
Proof. intros H F. induction F as [|r xs Hr _ IH]; [reflexivity|]. cbn [flat_map]. rewrite (H r Hr), IH. reflexivity. Qed.

Lemma sum_recs_sel sch chs sts cis ais mxs offs :
  flat_map sel_stat (map py_norm (sum_recs sch chs sts cis ais mxs offs)) = map (fun st => py_statistics (st_wrap st)) sts /\
  flat_map sel_ci (map py_norm (sum_recs sch chs sts cis ais mxs offs)) = map (fun ci => py_chunkindex (ci_wrap ci)) cis /\
  flat_map sel_ai (map py_norm (sum_recs sch chs sts cis ais mxs offs)) = ais /\
  flat_map sel_mx (map py_norm (sum_recs sch chs sts cis ais mxs offs)) = mxs.
Proof.
  unfold sum_recs. rewrite !map_app, !map_map, !flat_map_app.
  repeat split.
  - rewrite (flat_map_map_nil sel_stat (fun x => py_norm (PSchema x))), (flat_map_map_nil sel_stat (fun x => py_norm (PChannel x))),
      (flat_map_map_one sel_stat _ (fun st => py_statistics (st_wrap st))),
      (flat_map_map_nil sel_stat (fun x => py_norm (PChunkIndex (ci_wrap x)))), (flat_map_map_nil sel_stat (fun x => py_norm (PAttIndex x))),
      (flat_map_map_nil sel_stat (fun x => py_norm (PMdIndex x))), (flat_map_map_nil sel_stat (fun x => py_norm (PSumOffset x)))
      by reflexivity. cbn [app]. rewrite app_nil_r. reflexivity.
  - rewrite (flat_map_map_nil sel_ci (fun x => py_norm (PSchema x))), (flat_map_map_nil sel_ci (fun x => py_norm (PChannel x))),
      (flat_map_map_nil sel_ci (fun st => py_norm (PStatistics (st_wrap st)))),
      (flat_map_map_one sel_ci _ (fun ci => py_chunkindex (ci_wrap ci))), (flat_map_map_nil sel_ci (fun x => py_norm (PAttIndex x))),
      (flat_map_map_nil sel_ci (fun x => py_norm (PMdIndex x))), (flat_map_map_nil sel_ci (fun x => py_norm (PSumOffset x)))
      by reflexivity. cbn [app]. rewrite app_nil_r. reflexivity.
  - rewrite (flat_map_map_nil sel_ai (fun x => py_norm (PSchema x))), (flat_map_map_nil sel_ai (fun x => py_norm (PChannel x))),
      (flat_map_map_nil sel_ai (fun st => py_norm (PStatistics (st_wrap st)))),
      (flat_map_map_nil sel_ai (fun x => py_norm (PChunkIndex (ci_wrap x)))), (flat_map_map_one sel_ai _ (fun x => x)),
      (flat_map_map_nil sel_ai (fun x => py_norm (PMdIndex x))), (flat_map_map_nil sel_ai (fun x => py_norm (PSumOffset x)))
      by reflexivity. cbn [app]. rewrite app_nil_r, map_id. reflexivity.
  - rewrite (flat_map_map_nil sel_mx (fun x => py_norm (PSchema x))), (flat_map_map_nil sel_mx (fun x => py_norm (PChannel x))),
      (flat_map_map_nil sel_mx (fun st => py_norm (PStatistics (st_wrap st)))),
      (flat_map_map_nil sel_mx (fun x => py_norm (PChunkIndex (ci_wrap x)))), (flat_map_map_nil sel_mx (fun x => py_norm (PAttIndex x))),
      (flat_map_map_one sel_mx _ (fun x => x)), (flat_map_map_nil sel_mx (fun x => py_norm (PSumOffset x)))
      by reflexivity. cbn [app]. rewrite app_nil_r, map_id. reflexivity.
Qed.

(* ---------- the schema and channel tables of the Summary object ---------- *)
Definition sch_step (acc : list (N * schema)) (r : prec) : list (N * schema) :=
  match r with PSchema x => pn_set (s_id x) x acc | _ => acc end.
Definition chn_step (acc : list (N * channel)) (r : prec) : list (N * channel) :=
  match r with PChannel x => pn_set (c_id x) x acc | _ => acc end.

Lemma su_fold_schemas xs : forall su, su_schemas (fold_left summary_add xs su) = fold_left sch_step xs (su_schemas su).
Proof. induction xs as [|r xs IH]; intro su; [reflexivity|]. cbn [fold_left]. rewrite IH. destruct r; reflexivity. Qed.
Lemma su_fold_channels xs : forall su, su_channels (fold_left summary_add xs su) = fold_left chn_step xs (su_channels su).
Proof. induction xs as [|r xs IH]; intro su; [reflexivity|]. cbn [fold_left]. rewrite IH. destruct r; reflexivity. Qed.

Lemma fold_scm {B} (f : B -> prec -> B) xs : (forall acc r, scm r = false -> f acc r = acc) ->
  forall acc, fold_left f (filter scm xs) acc = fold_left f xs acc.
Proof.
  intro H. induction xs as [|r xs IH]; intro acc; [reflexivity|]. cbn [filter fold_left].
  destruct (scm r) eqn:E; cbn [fold_left]; [apply IH|]. rewrite (H acc r E). apply IH.
Qed.

(* Python's dict assignment against the writer's first-wins table, when equal keys mean equal values *)
Lemma pn_set_fw {A B} (key : A -> N) (h : A -> B) t x :
  (forall p, In p t -> fst p = key (snd p)) -> (forall p, In p t -> key (snd p) = key x -> snd p = x) ->
  pn_set (key x) (h x) (map (fun p => (fst p, h (snd p))) t) = map (fun p => (fst p, h (snd p))) (fw_add key t x).
Proof.
  induction t as [|p t IH]; intros H1 H2; [reflexivity|].
  cbn [map pn_set fst]. unfold fw_add. cbn [assoc_get].
  destruct (N.eqb_spec (fst p) (key x)) as [E|E].
  - assert (Ex : snd p = x) by (apply H2; [left; reflexivity|rewrite <- E; symmetry; apply H1; left; reflexivity]).
    cbn [map]. rewrite <- E, <- Ex. reflexivity.
  - assert (IH' : pn_set (key x) (h x) (map (fun p => (fst p, h (snd p))) t) = map (fun p => (fst p, h (snd p))) (fw_add key t x)).
    { apply IH; intros q Hq; [apply H1|apply H2]; right; exact Hq. }
    rewrite IH'. unfold fw_add. destruct (assoc_get (key x) t); reflexivity.
Qed.

Lemma map_pair_id {A} (t : list (N * A)) : map (fun p => (fst p, snd p)) t = t.
Proof. induction t as [|[k v] t IH]; [reflexivity|]. cbn [map fst snd]. rewrite IH. reflexivity. Qed.

Section Tables.
Context {A B : Type}.
Variable key : A -> N.
Variable h : A -> B.
Variable good : A -> Prop.
Hypothesis good_inj : forall x y, good x -> good y -> key x = key y -> x = y.
Let g (p : N * A) : N * B := (fst p, h (snd p)).
Let inv (t : list (N * A)) : Prop := forall p, In p t -> fst p = key (snd p) /\ good (snd p).

Lemma inv_fw_add t x : inv t -> good x -> inv (fw_add key t x).
Proof.
  intros I G. unfold fw_add. destruct (assoc_get (key x) t); [exact I|].
  intros p Hp. apply in_app_or in Hp. destruct Hp as [Hp|[<-|[]]]; [apply I; exact Hp|]. split; [reflexivity|exact G].
Qed.

Lemma pn_fold_fw l : forall t, inv t -> Forall good l ->
  fold_left (fun acc x => pn_set (key x) (h x) acc) l (map g t) = map g (fold_left (fw_add key) l t) /\
  inv (fold_left (fw_add key) l t).
Proof.
  induction l as [|x l IH]; intros t I G; [split; [reflexivity|exact I]|].
  inversion G as [|? ? Gx G']; subst. cbn [fold_left].
  unfold g. rewrite (pn_set_fw key h t x).
  - apply IH; [apply inv_fw_add; assumption|exact G'].
  - intros p Hp. apply I. exact Hp.
  - intros p Hp E. apply good_inj; [apply I; exact Hp|exact Gx|exact E].
Qed.

(* a value already in the table under its key *)
Lemma pn_set_present t x : inv t -> good x -> In x (map snd t) ->
  pn_set (key x) (h x) (map g t) = map g t.
Proof.
  intros I G Hin. unfold g. rewrite (pn_set_fw key h t x).
  - unfold fw_add. destruct (assoc_get (key x) t) eqn:E; [reflexivity|]. exfalso.
    refine (keyed_get key t x _ Hin E). apply Forall_forall. intros p Hp. apply I. exact Hp.
  - intros p Hp. apply I. exact Hp.
  - intros p Hp E. apply good_inj; [apply I; exact Hp|exact G|exact E].
Qed.

Lemma pn_fold_present l t : inv t -> Forall good l -> incl l (map snd t) ->
  fold_left (fun acc x => pn_set (key x) (h x) acc) l (map g t) = map g t.
Proof.
  intros I. induction l as [|x l IH]; intros G HI; [reflexivity|]. inversion G as [|? ? Gx G']; subst.
  cbn [fold_left]. rewrite pn_set_present; [|exact I|exact Gx|apply HI; left; reflexivity].
  apply IH; [exact G'|]. intros y Hy. apply HI. right. exact Hy.
Qed.
End Tables.

(* the two folds over the typed records of a file *)
Lemma sch_fold_arecs L : forall acc,
  fold_left sch_step (map arec_out L) acc
  = fold_left (fun acc x => pn_set (s_id x) x acc) (flat_map (fun a => match a with ASchema x => [x] | _ => [] end) L) acc.
Proof.
  induction L as [|a L IH]; intro acc; [reflexivity|]. cbn [map fold_left flat_map]. rewrite fold_left_app, IH.
  destruct a; reflexivity.
Qed.
Lemma chn_fold_arecs L : forall acc,
  fold_left chn_step (map arec_out L) acc
  = fold_left (fun acc x => pn_set (c_id x) (py_channel x) acc)
              (flat_map (fun a => match a with AChannel x => [x] | _ => [] end) L) acc.
Proof.
  induction L as [|a L IH]; intro acc; [reflexivity|]. cbn [map fold_left flat_map]. rewrite fold_left_app, IH.
  destruct a; reflexivity.
Qed.

Lemma arec_schemas cs sch chs :
  flat_map (fun a => match a with ASchema x => [x] | _ => [] end) (auto_recs cs ++ map ASchema sch ++ map AChannel chs)
  = schema_calls cs ++ sch.
Proof.
  rewrite !flat_map_app. f_equal.
  - unfold auto_recs, schema_calls. induction cs as [|c cs IH]; [reflexivity|]. cbn [flat_map]. rewrite flat_map_app, IH.
    destruct c; reflexivity.
  - replace (flat_map _ (map AChannel chs)) with (@nil schema) by (induction chs; [reflexivity|assumption]).
    rewrite app_nil_r. induction sch as [|x l IH]; [reflexivity|]. cbn [map flat_map app]. rewrite IH. reflexivity.
Qed.
Lemma arec_channels cs sch chs :
  flat_map (fun a => match a with AChannel x => [x] | _ => [] end) (auto_recs cs ++ map ASchema sch ++ map AChannel chs)
  = channel_calls cs ++ chs.
Proof.
  rewrite !flat_map_app. f_equal.
  - unfold auto_recs, channel_calls. induction cs as [|c cs IH]; [reflexivity|]. cbn [flat_map]. rewrite flat_map_app, IH.
    destruct c; reflexivity.
  - replace (flat_map _ (map ASchema sch)) with (@nil channel) by (induction sch; [reflexivity|assumption]).
    cbn [app]. induction chs as [|x l IH]; [reflexivity|]. cbn [map flat_map app]. rewrite IH. reflexivity.
Qed.

(* the summary records of a final writer state *)
Definition state_sum_recs (eo : wopts) (s : wstate) (offs : list sumoffset) : list prec :=
  sum_recs (if o_skip_rsh eo then [] else map snd (w_schemas s))
           (if o_skip_rch eo then [] else map snd (w_channels s))
           (if o_skip_stats eo then [] else [stats_record s])
           (if o_skip_ci eo then [] else w_chunk_indexes s)
           (if o_skip_ai eo then [] else w_att_indexes s)
           (if o_skip_mdi eo then [] else w_md_indexes s) offs.

Section Run.
Variable o : wopts.
Variable lib : bytes.
Variable compress : nat -> bytes -> bytes.
Variable hd : header.
Variable cs : list wcall.

Let eo := effective_opts o.
Let w := W o lib compress None (CHeader hd :: cs ++ [CClose]).
Let s := r_final w.
Let tr := rev (w_trace s).
Let F := file_of w.
Let hdr : header := {| h_profile := h_profile hd; h_library := header_library eo lib hd |}.

Hypothesis Hwf : Forall call_wf cs.
Hypothesis Hnh : no_header cs.
Hypothesis Hok : all_ok w.
Hypothesis Hsmall : Forall call_small cs.
Hypothesis Hid : forall i b, compress i b = b.
Hypothesis Hunc : o_chunked o = true -> o_comp o = [].
Hypothesis Hmagic : o_skip_magic o = false.
Hypothesis Hutf : Forall call_utf8 cs.
Hypothesis Hhutf : utf8_valid (h_profile hd) = true /\ utf8_valid (header_library eo lib hd) = true.
Hypothesis Hsize : blen F < two63.
Hypothesis Hitems : Forall item_small tr.

Let pre := file_prefix eo lib hd.
Let gs := summary_groups eo (xB1 eo s) (xB2 eo s) (xB3 eo s) s.

Lemma g_pre : pre = [IMagic; IRec OpHeader (enc_header hdr)].
Proof.
  unfold pre, file_prefix. destruct (eff_flags o) as (_ & _ & _ & E & _). fold eo in E. rewrite E, Hmagic. reflexivity.
Qed.

Lemma g_unc : o_chunked eo = true -> o_comp eo = [].
Proof. destruct (eff_flags o) as (_ & E1 & E2 & _). fold eo in E1, E2. rewrite E1, E2. exact Hunc. Qed.

Lemma g_file : F = render tr.
Proof. exact (run_file_is_trace o lib compress hd cs Hwf Hok). Qed.

Section WithShape.
Variable D : list sitem.
Variable de : bytes.
Variables ss sos crc : N.
Hypothesis HS : Shape o lib compress hd cs D de ss sos crc.

Let data := pre ++ flatten D ++ [IRec OpDataEnd de].
Let offs := group_offsets (offset_of data) gs.
Let off_items := if o_skip_so eo then [] else map so_item offs.
Let rest := sum_items gs ++ off_items ++ [IFooter ss sos crc; IMagic].

Lemma g_tr : tr = pre ++ flatten D ++ IRec OpDataEnd de :: rest.
Proof. exact (shape_tr o lib compress hd cs D de ss sos crc HS). Qed.

Lemma g_data_ok : Forall (data_sitem eo) D /\ chunks_ok eo compress 0 D /\
  w_chunk_indexes s = flat_map exp_ci (slocated (offset_of pre) D) /\
  w_att_indexes s = flat_map exp_att (slocated (offset_of pre) D) /\
  w_md_indexes s = flat_map exp_md (slocated (offset_of pre) D).
Proof. exact (shape_data_ok o lib compress hd cs D de ss sos crc HS). Qed.

Lemma g_items_D : Forall item_small (flatten D).
Proof.
  pose proof Hitems as H. rewrite g_tr in H. apply Forall_app in H. destruct H as [_ H].
  apply Forall_app in H. apply H.
Qed.

Lemma g_no_dataend : Forall (fun r => ComposeFacts.is_dataend r = false) (all_records uid (flatten D)).
Proof.
  destruct g_data_ok as (HD & HK & _). exact (D_no_dataend eo compress Hid D 0%nat HD HK g_items_D).
Qed.

Lemma g_classes :
  filter is_auto (all_records uid (flatten D)) = map (fun a => cr_of (apair a)) (auto_recs cs) /\
  filter ComposeFacts.is_att (all_records uid (flatten D))
    = map (fun ad => CA (fst ad) (snd ad) (crc32 (enc_attachment_fields (fst ad) ++ snd ad))) (attachments_of cs) /\
  filter (is_op OpMetadata) (all_records uid (flatten D))
    = map (fun m => CR OpMetadata (enc_metadata m)) (metadata_of cs).
Proof.
  assert (Hu : forall n plain, uid (o_comp o) (compress n plain) = plain) by (intros; apply Hid).
  assert (Hsm : Forall call_small (CHeader hd :: cs)) by (constructor; [exact I|exact Hsmall]).
  pose proof (C01_trace_classes_thm o lib compress uid (CHeader hd :: cs)
                (run_C06_hyps o lib compress hd cs Hwf Hok) Hu Hsm) as HC.
  cbv zeta in HC.
  change (rev (w_trace (r_final (W o lib compress None ((CHeader hd :: cs) ++ [CClose]))))) with tr in HC.
  assert (Edr : data_records uid tr = CR OpHeader (enc_header hdr) :: all_records uid (flatten D)).
  { unfold data_records. rewrite g_tr, g_pre. cbn [app all_records flat_map item_records].
    fold (all_records uid (flatten D ++ IRec OpDataEnd de :: rest)). rewrite all_records_app.
    cbn [all_records flat_map item_records app].
    change (CR OpHeader (enc_header hdr) :: all_records uid (flatten D) ++ CR OpDataEnd de :: flat_map (item_records uid) rest)
      with ((CR OpHeader (enc_header hdr) :: all_records uid (flatten D)) ++ CR OpDataEnd de :: flat_map (item_records uid) rest).
    apply upto_dataend_app; [constructor; [reflexivity|exact g_no_dataend]|reflexivity]. }
  rewrite Edr in HC. destruct HC as (C1 & C2 & C3 & _).
  cbn [filter is_auto auto_op call_auto] in C1. change (auto_op OpHeader) with false in C1. cbv iota in C1.
  rewrite expected_auto in C1.
  cbn [filter ComposeFacts.is_att is_attachment] in C2. rewrite expected_att in C2.
  cbn [filter is_op is_metadata] in C3. change (Byte.eqb OpHeader OpMetadata) with false in C3. cbv iota in C3.
  rewrite expected_md in C3.
  split; [exact C1|]. split; [exact C2|exact C3].
Qed.

Lemma g_render_split : blen F = offset_of pre + offset_of (flatten D) + blen (render (IRec OpDataEnd de :: rest)).
Proof.
  rewrite g_file, g_tr. change render with rendered. rewrite !rendered_app, !WriterFactsC.blen_app.
  unfold offset_of. lia.
Qed.

Lemma g_data_typed : exists dps,
  map pitem_bytes dps = map render_item (flatten D) /\
  Forall (fun p => forall v, pwf_pitem v false p) dps /\
  Forall (fun p => is_footer_item p = false /\ is_dataend_item p = false) dps /\
  filter scm (py_expected dps) = map arec_out (auto_recs cs) /\
  file_atts dps = map (fun ad => att_set (fst ad) (snd ad)) (attachments_of cs) /\
  file_mds dps = metadata_of cs /\
  Forall pwf_attindex (w_att_indexes s) /\
  Forall pwf_mdindex (w_md_indexes s) /\
  Forall (fun ci => ci_comp ci = []) (w_chunk_indexes s) /\
  Forall data_rec (py_expected dps).
Proof.
  destruct g_data_ok as (HD & HK & E1 & E2 & E3). destruct g_classes as (C1 & C2 & C3).
  destruct (calls_ok cs Hwf Hutf) as (W1 & W2 & W3).
  rewrite E1, E2, E3.
  apply (data_typed eo compress Hid g_unc D 0%nat (offset_of pre) (auto_recs cs) (metadata_of cs) (attachments_of cs)
           HD HK g_items_D); try assumption.
  pose proof g_render_split. lia.
Qed.

(* the DataEnd record carries the CRC of everything before it, or 0 *)
Lemma g_dataend : exists c1, de = enc_dataend {| de_crc := c1 |} /\
  c1 = (if o_crc o then crc32 (render (pre ++ flatten D)) else 0).
Proof.
  destruct (C06_structure_thm o lib compress (CHeader hd :: cs) (run_C06_hyps o lib compress hd cs Hwf Hok))
    as (Tpre & Tsum & ss0 & sos0 & c1 & c2 & Et & _ & Ec1 & _).
  change (rev (w_trace (r_final (W o lib compress None ((CHeader hd :: cs) ++ [CClose]))))) with tr in Et.
  rewrite g_tr, app_assoc in Et.
  assert (N1 : Forall (fun z => ~ is_de_item z) (pre ++ flatten D)).
  { apply Forall_app. split.
    - rewrite g_pre. repeat constructor; cbn; intros; discriminate || auto.
    - destruct g_data_ok as (HD & _). pose proof (data_items_kind eo D HD) as K.
      eapply Forall_impl; [|exact K]. intros it Hit. destruct it as [|op body| | |]; cbn [is_de_item]; auto.
      cbn [data_item] in Hit. intros ->. destruct Hit as [[_ [H|[H|[H|[]]]]]|[H|[_ H]]]; discriminate. }
  assert (N2 : Forall (fun z => ~ is_de_item z) rest).
  { unfold rest. apply Forall_app. split; [|apply Forall_app; split].
    - apply Forall_forall. intros it Hit. destruct (sum_items_ops _ _ _ _ _ _ Hit) as (op & body & -> & Hop).
      cbn [is_de_item]. intros ->. unfold summary_ops in Hop. cbn [In] in Hop.
      repeat (destruct Hop as [Hop|Hop]; [discriminate|]). exact Hop.
    - unfold off_items. destruct (o_skip_so eo); [constructor|]. apply Forall_forall. intros it Hit.
      apply in_map_iff in Hit. destruct Hit as (so & <- & _). cbn. discriminate.
    - repeat constructor; cbn; auto. }
  destruct (unique_split is_de_item _ _ _ _ _ _ Et N1 N2 eq_refl) as (E1 & E2 & _).
  exists c1. injection E2 as E2. split; [exact E2|]. rewrite Ec1, <- E1. reflexivity.
Qed.

(* ---------- the summary section ---------- *)
Let sch' := if o_skip_rsh eo then [] else map snd (w_schemas s).
Let chs' := if o_skip_rch eo then [] else map snd (w_channels s).
Let sts' := if o_skip_stats eo then [] else [stats_record s].
Let cis' := if o_skip_ci eo then [] else w_chunk_indexes s.
Let ais' := if o_skip_ai eo then [] else w_att_indexes s.
Let mxs' := if o_skip_mdi eo then [] else w_md_indexes s.
Let offs' := if o_skip_so eo then [] else offs.
Let srs := sum_recs sch' chs' sts' cis' ais' mxs' offs'.
Let ft := {| f_summary_start := ss; f_summary_offset_start := sos; f_crc := crc |}.

Lemma g_sum_bytes : map pitem_bytes (map PIRec srs) = map render_item (sum_items gs ++ off_items).
Proof.
  unfold srs. rewrite sum_recs_bytes. f_equal. f_equal.
  - unfold gs, summary_groups. rewrite sum_items_filter.
    unfold xB1, xB2, xB3, sch', chs', sts', cis', ais', mxs'.
    destruct (o_skip_rsh eo), (o_skip_rch eo), (o_skip_stats eo), (o_skip_ci eo), (o_skip_ai eo), (o_skip_mdi eo);
      reflexivity.
  - unfold off_items, offs'. destruct (o_skip_so eo); reflexivity.
Qed.

Lemma g_tr_mid : tr = IMagic :: (IRec OpHeader (enc_header hdr) :: flatten D ++ IRec OpDataEnd de ::
                                   (sum_items gs ++ off_items) ++ [IFooter ss sos crc]) ++ [IMagic].
Proof.
  rewrite g_tr, g_pre. unfold rest. cbn [app]. rewrite <- !app_assoc. cbn [app]. rewrite <- !app_assoc. reflexivity.
Qed.

Lemma g_sizes : Forall (fun b => blen b <= two32) (map render_item tr).
Proof. apply Forall_map. exact Hitems. Qed.

Lemma g_sum_sizes : Forall (fun r => blen (rec_body r) <= two32) srs.
Proof.
  assert (H : Forall item_small (sum_items gs ++ off_items)).
  { apply Forall_forall. intros it Hit. rewrite Forall_forall in Hitems. apply Hitems.
    rewrite g_tr. apply in_or_app; right. apply in_or_app; right. right. unfold rest. rewrite app_assoc.
    apply in_or_app. left. exact Hit. }
  pose proof g_sum_bytes as E. rewrite map_map in E.
  pose proof (Forall_map_eq (fun b => blen b <= two32) _ _ _ _ E H) as H'. cbv beta in H'.
  clear H. rename H' into H.
  eapply Forall_impl; [|exact H]. intros r Hr. cbn [pitem_bytes] in Hr. rewrite blen_frame in Hr. lia.
Qed.

Lemma g_call_in c : In c cs -> call_wf c /\ call_utf8 c.
Proof. intro H. rewrite Forall_forall in Hwf, Hutf. split; [apply Hwf|apply Hutf]; exact H. Qed.

Lemma g_sum_ok :
  Forall pwf_attindex (w_att_indexes s) -> Forall pwf_mdindex (w_md_indexes s) ->
  Forall (fun ci => ci_comp ci = []) (w_chunk_indexes s) ->
  Forall sum_rec_ok srs.
Proof.
  intros HA HM HC. pose proof g_sum_sizes as HZ. rewrite Forall_forall in HZ. apply Forall_forall. intros r Hr.
  specialize (HZ r Hr). unfold srs, sum_recs in Hr.
  repeat (apply in_app_or in Hr; destruct Hr as [Hr|Hr]); apply in_map_iff in Hr; destruct Hr as (x & <- & Hx);
    (split; [|split; [exact HZ|repeat split]]); cbn [pwf_rec].
  - unfold sch' in Hx. destruct (o_skip_rsh eo); [destruct Hx|].
    destruct (g_call_in _ (tab_schema_in o lib compress hd cs Hwf Hnh Hok x Hx)) as [W U]. exact (schema_call_ok x W U).
  - unfold chs' in Hx. destruct (o_skip_rch eo); [destruct Hx|].
    destruct (g_call_in _ (tab_channel_in o lib compress hd cs Hwf Hnh Hok x Hx)) as [W U]. exact (channel_call_ok x W U).
  - apply st_wrap_wf. cbn [rec_body] in HZ. rewrite enc_st_wrap in HZ. exact HZ.
  - unfold cis' in Hx. destruct (o_skip_ci eo); [destruct Hx|]. rewrite Forall_forall in HC. specialize (HC x Hx).
    split; [|unfold u8; cbn [ci_wrap ci_comp]; rewrite HC; reflexivity].
    apply ci_wrap_wf; [cbn [rec_body] in HZ; rewrite enc_ci_wrap in HZ; exact HZ|rewrite HC; reflexivity].
  - unfold ais' in Hx. destruct (o_skip_ai eo); [destruct Hx|]. rewrite Forall_forall in HA. exact (HA x Hx).
  - unfold mxs' in Hx. destruct (o_skip_mdi eo); [destruct Hx|]. rewrite Forall_forall in HM. exact (HM x Hx).
  - pose proof g_render_split as HR.
    revert Hx. unfold offs'. case (o_skip_so eo); intro Hx; [destruct Hx|]. unfold offs in Hx.
    destruct (group_offsets_split _ _ _ Hx) as (g1 & g & g2 & Eg & _ & Es & El).
    unfold rest in HR. rewrite Eg in HR.
    change (IRec OpDataEnd de :: sum_items (g1 ++ g :: g2) ++ off_items ++ [IFooter ss sos crc; IMagic])
      with ([IRec OpDataEnd de] ++ sum_items (g1 ++ g :: g2) ++ off_items ++ [IFooter ss sos crc; IMagic]) in HR.
    change render with rendered in HR. rewrite !rendered_app, !WriterFactsC.blen_app in HR.
    rewrite sum_items_app in HR. change (sum_items (g :: g2)) with (group_items g ++ sum_items g2) in HR.
    rewrite !rendered_app, !WriterFactsC.blen_app in HR.
    unfold wf_sumoffset. rewrite Es, El. unfold data. unfold offset_of. rewrite !rendered_app, !WriterFactsC.blen_app.
    unfold offset_of in HR. unfold two63, two64 in *. lia.
Qed.

Lemma g_hdr_ok v : pwf_pitem v false (PIRec (PHeader hdr)).
Proof.
  assert (Hs : item_small (IRec OpHeader (enc_header hdr))).
  { rewrite Forall_forall in Hitems. apply Hitems. rewrite g_tr, g_pre. right. left. reflexivity. }
  unfold item_small in Hs. cbn [render_item] in Hs. rewrite blen_frame in Hs.
  split; [cbn [rec_body]; lia|]. split; [|reflexivity]. cbn [pwf_rec]. split; [|exact Hhutf].
  unfold wf_header. unfold enc_header, pstr in Hs. rewrite !PyReadFacts.blen_app, !PyReadFacts.blen_u32 in Hs.
  cbn [hdr h_profile h_library] in *. unfold two32 in *. lia.
Qed.

Lemma g_ft_ok v : pwf_pitem v false (PIRec (PFooter ft)).
Proof.
  split; [cbn [rec_body]; unfold enc_footer; rewrite !PyReadFacts.blen_app, !PyReadFacts.blen_u64, PyReadFacts.blen_u32; unfold two32; lia|].
  split; [|reflexivity]. cbn [pwf_rec].
  exact (ft_wf ds_id o lib compress hd cs Hwf Hok Hsize D de ss sos crc HS).
Qed.

Lemma g_ss : ss = 0 <-> sum_recs sch' chs' sts' cis' ais' mxs' [] = [].
Proof.
  rewrite <- mk_summary_nil.
  assert (E : ss = if match mk_summary sch' chs' sts' cis' ais' mxs' with [] => true | _ => false end then 0 else offset_of data)
    by exact (ss_eq o lib compress hd cs D de ss sos crc HS).
  assert (P : 0 < offset_of data) by exact (data_len_pos ds_id o lib compress hd cs Hsize D de).
  destruct (mk_summary sch' chs' sts' cis' ais' mxs'); split; intro H; try discriminate H; try exact E; try reflexivity.
  rewrite E in H. lia.
Qed.

(* the typed description of the file *)
Theorem g_typed : exists dps c1,
  let ps := go_ps hdr dps c1 srs ft in
  F = the_file ps /\
  map pitem_bytes ps = map render_item (removelast (tl tr)) /\
  (forall v, pwf_file v false ps) /\
  c1 = (if o_crc o then crc32 (magic ++ py_render (PIRec (PHeader hdr) :: dps)) else 0) /\
  Forall (fun p => forall v, pwf_pitem v false p) dps /\
  Forall (fun p => is_footer_item p = false /\ is_dataend_item p = false) dps /\
  filter scm (py_expected dps) = map arec_out (auto_recs cs) /\
  file_atts dps = map (fun ad => att_set (fst ad) (snd ad)) (attachments_of cs) /\
  file_mds dps = metadata_of cs /\
  Forall data_rec (py_expected dps) /\
  Forall sum_rec_ok srs /\
  (f_summary_start ft = 0 <-> sum_recs sch' chs' sts' cis' ais' mxs' [] = []) /\
  (f_summary_start ft = 0 \/
   f_summary_start ft = blen (magic ++ py_render (PIRec (PHeader hdr) :: dps ++ [PIRec (PDataEnd {| de_crc := c1 |})]))).
Proof.
  destruct g_data_typed as (dps & P1 & P2 & P3 & P4 & P5 & P6 & P7 & P8 & P9 & P10).
  destruct g_dataend as (c1 & Ede & Ec1).
  pose proof (g_sum_ok P7 P8 P9) as HSok.
  exists dps, c1. cbv zeta.
  assert (EB : map pitem_bytes (go_ps hdr dps c1 srs ft)
               = map render_item (IRec OpHeader (enc_header hdr) :: flatten D ++ IRec OpDataEnd de ::
                                    (sum_items gs ++ off_items) ++ [IFooter ss sos crc])).
  { unfold go_ps. cbn [map]. rewrite !map_app. cbn [map]. rewrite !map_app, P1, g_sum_bytes, Ede, !map_app. reflexivity. }
  assert (EH : render (pre ++ flatten D) = magic ++ py_render (PIRec (PHeader hdr) :: dps)).
  { rewrite g_pre. unfold render, py_render. cbn [map app concat]. rewrite P1. reflexivity. }
  split; [|split; [|split; [|split; [|repeat split; try assumption; try apply g_ss]]]].
  5:{ destruct HS as (_ & _ & _ & Hss0 & _). cbn [ft f_summary_start].
      assert (Hd : ss = 0 \/ ss = offset_of data).
      { assert (Hss1 : ss = match gs with [] => 0 | _ :: _ => offset_of data end) by exact Hss0.
        revert Hss1. generalize gs. intros g Hg. destruct g; [left|right]; exact Hg. }
      destruct Hd as [Hd|Hd]; [left; exact Hd|right]. rewrite Hd. unfold data, offset_of. f_equal.
      rewrite g_pre, Ede. unfold rendered, py_render. cbn [map app concat]. rewrite !map_app, !concat_app, P1.
      reflexivity. }
  - rewrite g_file, g_tr_mid. unfold the_file, py_render. rewrite EB. unfold render.
    cbn [map concat]. rewrite map_app, concat_app. cbn [map concat render_item]. rewrite app_nil_r. reflexivity.
  - rewrite EB, g_tr_mid. cbn [tl]. rewrite removelast_last. reflexivity.
  - intro v. exists (PIRec (PHeader hdr) :: dps ++ PIRec (PDataEnd {| de_crc := c1 |}) :: map PIRec srs), ft.
    split; [unfold go_ps; cbn [app]; rewrite <- app_assoc; reflexivity|].
    assert (HSum : Forall (pwf_pitem v false) (map PIRec srs)).
    { apply Forall_map. eapply Forall_impl; [|exact HSok]. intros r (R1 & R2 & R3 & _). split; [exact R2|split; assumption]. }
    assert (Hde : pwf_pitem v false (PIRec (PDataEnd {| de_crc := c1 |}))).
    { split; [cbn [rec_body]; unfold enc_dataend; rewrite PyReadFacts.blen_u32; unfold two32; lia|].
      split; [|reflexivity]. cbn [pwf_rec]. unfold wf_dataend. cbn [de_crc]. rewrite Ec1.
      destruct (o_crc o); [apply crc32_bound|reflexivity]. }
    split; [|split].
    + unfold go_ps. constructor; [apply g_hdr_ok|]. apply Forall_app. split.
      * eapply Forall_impl; [|exact P2]. intros p Hp. apply Hp.
      * constructor; [exact Hde|]. apply Forall_app. split; [exact HSum|]. constructor; [apply g_ft_ok|constructor].
    + constructor; [reflexivity|]. apply Forall_app. split.
      * eapply Forall_impl; [|exact P3]. intros p [Hp _]. exact Hp.
      * constructor; [reflexivity|]. apply Forall_map. eapply Forall_impl; [|exact HSok].
        intros r (_ & _ & _ & R4 & _). exact R4.
    + intros V pre0 d0 post E.
      assert (N1 : Forall (fun z => ~ (is_dataend_item z = true)) (PIRec (PHeader hdr) :: dps)).
      { constructor; [discriminate|]. eapply Forall_impl; [|exact P3]. intros p [_ Hp]. rewrite Hp. discriminate. }
      assert (N2 : Forall (fun z => ~ (is_dataend_item z = true)) (map PIRec srs ++ [PIRec (PFooter ft)])).
      { apply Forall_app. split; [|repeat constructor; discriminate]. apply Forall_map.
        eapply Forall_impl; [|exact HSok]. intros r (_ & _ & _ & _ & R5). rewrite R5. discriminate. }
      unfold go_ps in E. rewrite app_comm_cons in E.
      destruct (unique_split (fun z => is_dataend_item z = true) _ _ _ _ _ _ E N1 N2 eq_refl) as (E1 & E2 & _).
      injection E2 as <-. cbn [de_crc]. rewrite <- E1, Ec1, EH. destruct (o_crc o); [right|left]; reflexivity.
  - rewrite Ec1, EH. reflexivity.
Qed.

End WithShape.

(* ---------- 4. the statement without the shape parameters ---------- *)
Definition run_sum_recs (offs : list sumoffset) : list prec := state_sum_recs eo s offs.

Theorem go_trace_typed_run : exists dps c1 offs ft,
  let ps := go_ps hdr dps c1 (run_sum_recs offs) ft in
  F = the_file ps /\
  map pitem_bytes ps = map render_item (removelast (tl tr)) /\
  (forall v, pwf_file v false ps) /\
  c1 = (if o_crc o then crc32 (magic ++ py_render (PIRec (PHeader hdr) :: dps)) else 0) /\
  Forall (fun p => forall v, pwf_pitem v false p) dps /\
  Forall (fun p => is_footer_item p = false /\ is_dataend_item p = false) dps /\
  filter scm (py_expected dps) = map arec_out (auto_recs cs) /\
  file_atts dps = map (fun ad => att_set (fst ad) (snd ad)) (attachments_of cs) /\
  file_mds dps = metadata_of cs /\
  Forall data_rec (py_expected dps) /\
  Forall sum_rec_ok (run_sum_recs offs) /\
  (f_summary_start ft = 0 <-> run_sum_recs [] = []) /\
  (f_summary_start ft = 0 \/
   f_summary_start ft = blen (magic ++ py_render (PIRec (PHeader hdr) :: dps ++ [PIRec (PDataEnd {| de_crc := c1 |})]))).
Proof.
  destruct (run_shape o lib compress hd cs Hwf Hnh Hok) as (D & de & ss & sos & crc & HS).
  destruct (g_typed D de ss sos crc HS) as (dps & c1 & H). cbv zeta in H.
  exists dps, c1, (if o_skip_so eo then [] else group_offsets (offset_of (pre ++ flatten D ++ [IRec OpDataEnd de])) gs),
    {| f_summary_start := ss; f_summary_offset_start := sos; f_crc := crc |}.
  exact H.
Qed.
(* ---------- 5. what the Python readers return, in terms of the calls ---------- *)

(* StreamReader(...).records: exactly the records of the typed description, then the normal end *)
Theorem go_py_stream v : exists ps,
  F = the_file ps /\ pwf_file v false ps /\
  stream_records F false false v limit_4g = (py_expected ps, EStop).
Proof.
  destruct go_trace_typed_run as (dps & c1 & offs & ft & H). cbv zeta in H. destruct H as (E & _ & W & _).
  eexists. split; [exact E|]. split; [apply W|]. rewrite E. apply py_stream_records, W.
Qed.

(* (a) get_header *)
Theorem go_py_header v : ns_get_header F v = POk hdr.
Proof.
  destruct go_trace_typed_run as (dps & c1 & offs & ft & H). cbv zeta in H. destruct H as (E & _ & W & _).
  rewrite E. eapply py_ns_get_header; [|reflexivity]. apply W.
Qed.

(* (b) iter_attachments: every attachment call, in call order, every field and the data *)
Theorem go_py_attachments v :
  ns_iter Py.is_att F v = (map (fun ad => PAttachment (att_set (fst ad) (snd ad))) (attachments_of cs), EStop).
Proof.
  destruct go_trace_typed_run as (dps & c1 & offs & ft & H). cbv zeta in H.
  destruct H as (E & _ & W & _ & _ & _ & _ & HA & _).
  rewrite E, (py_ns_iter_attachments v _ (W v)). unfold run_sum_recs, state_sum_recs. rewrite go_ps_atts by apply sum_recs_plain.
  rewrite HA, map_map. reflexivity.
Qed.

(* (c) iter_metadata: every metadata call, in call order; the map as the dict built from the pairs
   in the order Go wrote them (sorted by key) *)
Theorem go_py_metadata v :
  ns_iter is_md F v = (map (fun m => PMetadata (py_metadata m)) (metadata_of cs), EStop).
Proof.
  destruct go_trace_typed_run as (dps & c1 & offs & ft & H). cbv zeta in H.
  destruct H as (E & _ & W & _ & _ & _ & _ & _ & HM & _).
  rewrite E, (py_ns_iter_metadata v _ (W v)). unfold run_sum_recs, state_sum_recs. rewrite go_ps_mds by apply sum_recs_plain.
  rewrite HM. reflexivity.
Qed.

(* (d), (e) iter_messages *)
Hypothesis Hcons : ids_consistent cs.

Let L_all := auto_recs cs ++ map ASchema (if o_skip_rsh eo then [] else map snd (w_schemas s))
                          ++ map AChannel (if o_skip_rch eo then [] else map snd (w_channels s)).

Lemma go_scm_expected dps c1 offs ft :
  filter scm (py_expected dps) = map arec_out (auto_recs cs) ->
  filter scm (py_expected (go_ps hdr dps c1 (run_sum_recs offs) ft)) = map arec_out L_all.
Proof.
  intro HD. rewrite go_ps_expected. cbn [filter scm]. rewrite filter_app. cbn [filter scm]. rewrite filter_app.
  cbn [filter scm]. rewrite app_nil_r, HD. unfold run_sum_recs, state_sum_recs. rewrite sum_recs_scm. unfold L_all. rewrite !map_app. reflexivity.
Qed.

Lemma go_msgs_spec flt :
  msgs_spec flt [] (map arec_out L_all) = go_msgs cs flt /\ refs_ok [] (map arec_out L_all) = true.
Proof.
  assert (HCh : forall c, In (AChannel c) L_all -> In (CChannel c) cs)
    by exact (L_all_channel o lib compress hd cs Hwf Hnh Hok).
  assert (HSc : forall sc, In (ASchema sc) L_all -> In (CSchema sc) cs)
    by exact (L_all_schema o lib compress hd cs Hwf Hnh Hok).
  destruct (msgs_arec cs flt L_all [] [] []) as [R1 R2].
  - intros id [].
  - intros id [].
  - intros c [].
  - intros c Hc. apply call_chan_consistent; [exact Hcons|apply HCh; exact Hc].
  - intros sc Hsc. apply call_schema_consistent; [exact Hcons|apply HSc; exact Hsc].
  - exact (L_all_scoped o lib compress hd cs Hwf Hnh Hok).
  - split; [|exact R2]. cbn [map] in R1. rewrite R1. unfold go_msgs. f_equal.
    exact (L_all_msgs o lib compress hd cs).
Qed.

Theorem go_py_messages v flt reverse :
  ns_iter_messages F v flt false reverse = (go_msgs cs flt, EStop).
Proof.
  destruct go_trace_typed_run as (dps & c1 & offs & ft & H). cbv zeta in H.
  destruct H as (E & _ & W & _ & _ & _ & HD & _).
  destruct (go_msgs_spec flt) as [R1 R2].
  pose proof (go_scm_expected dps c1 offs ft HD) as ES.
  rewrite E, (py_ns_iter_messages_file_order v _ flt reverse (W v)).
  - rewrite <- (msgs_spec_scm flt _ []). cbn [filter]. rewrite ES. rewrite R1. reflexivity.
  - rewrite <- (refs_ok_scm _ []). cbn [filter]. rewrite ES. exact R2.
Qed.

Theorem go_py_messages_log_order v flt reverse :
  ns_iter_messages F v flt true reverse = (py_sorted reverse (go_msgs cs flt), EStop).
Proof.
  destruct go_trace_typed_run as (dps & c1 & offs & ft & H). cbv zeta in H.
  destruct H as (E & _ & W & _ & _ & _ & HD & _).
  destruct (go_msgs_spec flt) as [R1 R2].
  pose proof (go_scm_expected dps c1 offs ft HD) as ES.
  rewrite E, (py_ns_iter_messages_log_order v _ flt reverse (W v)).
  - rewrite <- (msgs_spec_scm flt _ []). cbn [filter]. rewrite ES. rewrite R1. reflexivity.
  - rewrite <- (refs_ok_scm _ []). cbn [filter]. rewrite ES. exact R2.
Qed.

(* ---------- get_summary ---------- *)
Lemma go_summary_fold v : exists dps c1 offs,
  let xs := PHeader hdr :: py_expected dps ++ PDataEnd {| de_crc := c1 |} :: map py_norm (run_sum_recs offs) in
  ns_get_summary F v
    = POk (match run_sum_recs [] with [] => None | _ => Some (fold_left summary_add xs empty_summary) end) /\
  Forall data_rec (py_expected dps) /\
  filter scm (py_expected dps) = map arec_out (auto_recs cs).
Proof.
  destruct go_trace_typed_run as (dps & c1 & offs & ft & H). cbv zeta in H.
  destruct H as (E & _ & W & _ & _ & P3 & HD & _ & _ & PD & HSok & Hss & Hst).
  set (body := PIRec (PHeader hdr) :: dps ++ PIRec (PDataEnd {| de_crc := c1 |}) :: map PIRec (run_sum_recs offs)).
  assert (Eps : go_ps hdr dps c1 (run_sum_recs offs) ft = body ++ [PIRec (PFooter ft)]).
  { unfold go_ps, body. cbn [app]. rewrite <- app_assoc. reflexivity. }
  assert (NF : Forall (fun p => is_footer_item p = false) body).
  { unfold body. constructor; [reflexivity|]. apply Forall_app. split.
    - eapply Forall_impl; [|exact P3]. intros p [Hp _]. exact Hp.
    - constructor; [reflexivity|]. apply Forall_map. eapply Forall_impl; [|exact HSok]. intros r (_ & _ & _ & R4 & _). exact R4. }
  pose proof (W v) as Wv. rewrite Eps in Wv.
  pose proof (py_ns_get_summary v body ft Wv NF) as G. rewrite <- Eps, <- E in G.
  assert (EX : py_expected body = PHeader hdr :: py_expected dps ++ PDataEnd {| de_crc := c1 |} :: map py_norm (run_sum_recs offs)).
  { unfold body, py_expected, py_expected_gen. cbn [flat_map pitem_recs py_norm app]. f_equal.
    rewrite flat_map_app. f_equal. cbn [flat_map pitem_recs py_norm app]. f_equal.
    generalize (run_sum_recs offs). intro l. induction l as [|r l IH]; [reflexivity|].
    cbn [map flat_map pitem_recs app]. rewrite IH. reflexivity. }
  exists dps, c1, offs. cbv zeta. split; [|split; [exact PD|exact HD]].
  rewrite G, EX. destruct (N.eqb_spec (f_summary_start ft) 0) as [Z|NZ].
  - apply Hss in Z. rewrite Z. reflexivity.
  - destruct (run_sum_recs []) eqn:ER; [exfalso; apply NZ, Hss; reflexivity|reflexivity].
Qed.

Theorem go_py_summary v : exists su,
  ns_get_summary F v = POk (match run_sum_recs [] with [] => None | _ => Some su end) /\
  su_stats su = (if o_skip_stats eo then None else Some (py_statistics (st_wrap (stats_record s)))) /\
  su_chunks su = map (fun ci => py_chunkindex (ci_wrap ci)) (if o_skip_ci eo then [] else w_chunk_indexes s) /\
  su_atts su = (if o_skip_ai eo then [] else w_att_indexes s) /\
  su_mds su = (if o_skip_mdi eo then [] else w_md_indexes s) /\
  (ids_consistent cs ->
   su_schemas su = w_schemas s /\ su_channels su = map (fun p => (fst p, py_channel (snd p))) (w_channels s)).
Proof.
  destruct (go_summary_fold v) as (dps & c1 & offs & G & PD & HD). cbv zeta in G.
  eexists. split; [exact G|].
  destruct (sum_recs_sel (if o_skip_rsh eo then [] else map snd (w_schemas s))
              (if o_skip_rch eo then [] else map snd (w_channels s))
              (if o_skip_stats eo then [] else [stats_record s])
              (if o_skip_ci eo then [] else w_chunk_indexes s)
              (if o_skip_ai eo then [] else w_att_indexes s)
              (if o_skip_mdi eo then [] else w_md_indexes s) offs) as (S1 & S2 & S3 & S4).
  rewrite su_fold_stats, su_fold_chunks, su_fold_atts, su_fold_mds. unfold run_sum_recs, state_sum_recs.
  cbn [flat_map sel_stat sel_ci sel_ai sel_mx app]. rewrite !flat_map_app. cbn [flat_map sel_stat sel_ci sel_ai sel_mx app].
  rewrite S1, S2, S3, S4.
  rewrite (data_rec_sel sel_stat), (data_rec_sel sel_ci), (data_rec_sel sel_ai), (data_rec_sel sel_mx);
    try exact PD; try (intros r Hr; destruct r; try reflexivity; destruct Hr).
  cbn [app su_stats su_chunks su_atts su_mds empty_summary].
  split; [destruct (o_skip_stats eo); reflexivity|]. split; [reflexivity|]. split; [reflexivity|]. split; [reflexivity|].
  (* the tables *)
  intro Hc.
  set (sch' := if o_skip_rsh eo then [] else map snd (w_schemas s)).
  set (chs' := if o_skip_rch eo then [] else map snd (w_channels s)).
  assert (ES : filter scm (PHeader hdr :: py_expected dps ++ PDataEnd {| de_crc := c1 |}
                           :: map py_norm (sum_recs sch' chs' (if o_skip_stats eo then [] else [stats_record s])
                                (if o_skip_ci eo then [] else w_chunk_indexes s)
                                (if o_skip_ai eo then [] else w_att_indexes s)
                                (if o_skip_mdi eo then [] else w_md_indexes s) offs))
               = map arec_out (auto_recs cs ++ map ASchema sch' ++ map AChannel chs')).
  { cbn [filter scm]. rewrite filter_app. cbn [filter scm]. rewrite HD, sum_recs_scm, !map_app. reflexivity. }
  destruct (EndToEnd.run_tables o lib compress hd cs Hwf Hnh Hok) as (T1 & T2 & _ & [K1 K2] & _).
  fold w s in T1, T2, K1, K2.
  assert (GS : forall sc, In sc (schema_calls cs) -> In (CSchema sc) cs) by (intros sc Hs; apply in_schema_calls; exact Hs).
  assert (GC : forall c, In c (channel_calls cs) -> In (CChannel c) cs) by (intros c Hs; apply in_channel_calls; exact Hs).
  destruct Hc as [HcC HcS].
  split.
  - rewrite su_fold_schemas. cbn [su_schemas empty_summary].
    rewrite <- (fold_scm sch_step) by (intros acc r Hr; destruct r; try reflexivity; discriminate Hr).
    rewrite ES, sch_fold_arecs, arec_schemas, fold_left_app.
    destruct (pn_fold_fw s_id (fun x => x) (fun x => In (CSchema x) cs) (fun x y Hx Hy => HcS x y Hx Hy)
                (schema_calls cs) []) as [F1 F2]; [intros p []|apply Forall_forall; exact GS|].
    cbn [map] in F1. rewrite map_pair_id in F1. rewrite F1, <- T1.
    assert (X : fold_left (fun acc x => pn_set (s_id x) x acc) sch' (map (fun p => (fst p, snd p)) (w_schemas s))
                = map (fun p => (fst p, snd p)) (w_schemas s)).
    { apply (pn_fold_present s_id (fun x => x) (fun x => In (CSchema x) cs) (fun x y Hx Hy => HcS x y Hx Hy)).
      + rewrite T1. exact F2.
      + apply Forall_forall. intros x Hx. unfold sch' in Hx. destruct (o_skip_rsh eo); [destruct Hx|].
        exact (tab_schema_in o lib compress hd cs Hwf Hnh Hok x Hx).
      + unfold sch'. destruct (o_skip_rsh eo); [intros x []|apply incl_refl]. }
    rewrite map_pair_id in X. exact X.
  - rewrite su_fold_channels. cbn [su_channels empty_summary].
    rewrite <- (fold_scm chn_step) by (intros acc r Hr; destruct r; try reflexivity; discriminate Hr).
    rewrite ES, chn_fold_arecs, arec_channels, fold_left_app.
    destruct (pn_fold_fw c_id py_channel (fun x => In (CChannel x) cs) (fun x y Hx Hy => HcC x y Hx Hy)
                (channel_calls cs) []) as [F1 F2]; [intros p []|apply Forall_forall; exact GC|].
    cbn [map] in F1. rewrite F1, <- T2.
    apply (pn_fold_present c_id py_channel (fun x => In (CChannel x) cs) (fun x y Hx Hy => HcC x y Hx Hy)).
    + rewrite T2. exact F2.
    + apply Forall_forall. intros x Hx. unfold chs' in Hx. destruct (o_skip_rch eo); [destruct Hx|].
      exact (tab_channel_in o lib compress hd cs Hwf Hnh Hok x Hx).
    + unfold chs'. destruct (o_skip_rch eo); [intros x []|apply incl_refl].
Qed.

(* SeekingReader.get_summary: the footer read at the end of the file, then the summary section from
   summary_start on; only the records of the summary section are seen *)
Theorem go_sk_summary : exists su,
  sk_get_summary F = POk (match run_sum_recs [] with [] => None | _ => Some su end) /\
  su_stats su = (if o_skip_stats eo then None else Some (py_statistics (st_wrap (stats_record s)))) /\
  su_chunks su = map (fun ci => py_chunkindex (ci_wrap ci)) (if o_skip_ci eo then [] else w_chunk_indexes s) /\
  su_atts su = (if o_skip_ai eo then [] else w_att_indexes s) /\
  su_mds su = (if o_skip_mdi eo then [] else w_md_indexes s).
Proof.
  destruct go_trace_typed_run as (dps & c1 & offs & ft & H). cbv zeta in H.
  destruct H as (E & _ & W & _ & _ & _ & _ & _ & _ & _ & HSok & Hss & Hst).
  set (dataps := PIRec (PHeader hdr) :: dps ++ [PIRec (PDataEnd {| de_crc := c1 |})]) in *.
  assert (Eps : go_ps hdr dps c1 (run_sum_recs offs) ft = dataps ++ map PIRec (run_sum_recs offs) ++ [PIRec (PFooter ft)]).
  { unfold go_ps, dataps. cbn [app]. rewrite <- app_assoc. reflexivity. }
  assert (W1 : Forall (pwf_pitem false false) (map PIRec (run_sum_recs offs) ++ [PIRec (PFooter ft)])).
  { destruct (W false) as (body & f & _ & WF & _). rewrite Eps in WF. apply Forall_app in WF. apply WF. }
  assert (NF : Forall (fun p => is_footer_item p = false) (map PIRec (run_sum_recs offs))).
  { apply Forall_map. eapply Forall_impl; [|exact HSok]. intros r (_ & _ & _ & R4 & _). exact R4. }
  pose proof (py_sk_get_summary dataps (run_sum_recs offs) ft W1 NF Hst) as G. cbv zeta in G.
  rewrite <- Eps, <- E in G. specialize (G Hsize).
  eexists. split.
  - rewrite G. destruct (N.eqb_spec (f_summary_start ft) 0) as [Z|NZ].
    + apply Hss in Z. rewrite Z. reflexivity.
    + destruct (run_sum_recs []) eqn:ER; [exfalso; apply NZ, Hss; reflexivity|reflexivity].
  - destruct (sum_recs_sel (if o_skip_rsh eo then [] else map snd (w_schemas s))
                (if o_skip_rch eo then [] else map snd (w_channels s))
                (if o_skip_stats eo then [] else [stats_record s])
                (if o_skip_ci eo then [] else w_chunk_indexes s)
                (if o_skip_ai eo then [] else w_att_indexes s)
                (if o_skip_mdi eo then [] else w_md_indexes s) offs) as (S1 & S2 & S3 & S4).
    rewrite su_fold_stats, su_fold_chunks, su_fold_atts, su_fold_mds. unfold run_sum_recs, state_sum_recs.
    rewrite S1, S2, S3, S4. cbn [app su_stats su_chunks su_atts su_mds empty_summary].
    repeat split. destruct (o_skip_stats eo); reflexivity.
Qed.

(* the record stream, explicitly: header, the records of the data section (chunks broken up), DataEnd, the
   summary records of the writer's final state, footer *)
Theorem go_py_records : exists dx c1 offs ft,
  (forall v, stream_records F false false v limit_4g
             = (PHeader hdr :: dx ++ PDataEnd {| de_crc := c1 |} :: map py_norm (run_sum_recs offs) ++ [PFooter ft], EStop)) /\
  Forall data_rec dx /\
  filter scm dx = map arec_out (auto_recs cs) /\
  filter Py.is_att dx = map (fun ad => PAttachment (att_set (fst ad) (snd ad))) (attachments_of cs) /\
  filter is_md dx = map (fun m => PMetadata (py_metadata m)) (metadata_of cs) /\
  (o_crc o = false -> c1 = 0).
Proof.
  destruct go_trace_typed_run as (dps & c1 & offs & ft & H). cbv zeta in H.
  destruct H as (E & _ & W & Ec & P2 & _ & HD & HA & HM & PD & _).
  exists (py_expected dps), c1, offs, ft.
  split; [|split; [exact PD|split; [exact HD|split; [|split]]]].
  - intro v. rewrite E. unfold the_file. rewrite (py_stream_records v _ (W v)), go_ps_expected. reflexivity.
  - rewrite (expected_atts true dps); [rewrite HA, map_map; reflexivity|].
    eapply Forall_impl; [|exact P2]. intros p Hp. apply Hp.
  - rewrite expected_mds, HM. reflexivity.
  - intro Hc. rewrite Ec, Hc. reflexivity.
Qed.

End Run.

(* ====================================================================================== *)
(** * 5. the statements over the hypotheses bundle *)

(* when the writer is not chunked the compressor is never consulted *)
Lemma step_unchunked o lib c1 c2 flt call st : o_chunked o = false ->
  step o lib c1 flt call st = step o lib c2 flt call st.
Proof.
  intro H. destruct call as [h|sc|c|m|a src|m|]; cbn [step];
    [reflexivity|reflexivity|reflexivity| |reflexivity|reflexivity| ].
  - unfold write_message, Writer.in_chunk. rewrite H. cbn [andb]. reflexivity.
  - unfold close. rewrite H. reflexivity.
Qed.

Lemma run_calls_unchunked o lib c1 c2 flt cs : o_chunked o = false -> forall st acc,
  run_calls o lib c1 flt cs st acc = run_calls o lib c2 flt cs st acc.
Proof.
  intro H. induction cs as [|c cs IH]; intros st acc; [reflexivity|]. cbn [run_calls].
  rewrite (step_unchunked o lib c1 c2 flt c st H). destruct (step o lib c2 flt c st) as [s' e]. apply IH.
Qed.

Lemma W_unchunked o lib c1 c2 flt cs : o_chunked o = false -> W o lib c1 flt cs = W o lib c2 flt cs.
Proof.
  intro H. unfold W. cbv zeta.
  assert (E : o_chunked (effective_opts o) = false) by (destruct (eff_flags o) as (_ & E & _); rewrite E; exact H).
  destruct (new_writer (effective_opts o) flt) as [st [e|]]; [reflexivity|].
  rewrite (run_calls_unchunked (effective_opts o) lib c1 c2 flt cs E). reflexivity.
Qed.

(* the hypotheses: an error-free legal run of an UNCOMPRESSED writer that writes the leading magic,
   calls whose fields fit their wire formats, UTF-8 strings, sizes within the Python reader's limits *)
Definition go_hyps (o : wopts) (lib : bytes) (compress : nat -> bytes -> bytes) (hd : header) (cs : list wcall) : Prop :=
  let R := W o lib compress None (CHeader hd :: cs ++ [CClose]) in
  (o_chunked o = true -> o_comp o = [] /\ forall i b, compress i b = b) /\
  o_skip_magic o = false /\
  Forall call_wf cs /\ no_header cs /\ all_ok R /\ Forall call_small cs /\
  Forall call_utf8 cs /\
  utf8_valid (h_profile hd) = true /\ utf8_valid (header_library (effective_opts o) lib hd) = true /\
  blen (file_of R) < two63 /\
  Forall item_small (rev (w_trace (r_final R))).

Definition idc (n : nat) (b : bytes) : bytes := b.

(* the run is the run of a writer whose compressor is (extensionally) the identity *)
Lemma go_hyps_id o lib compress hd cs : go_hyps o lib compress hd cs ->
  exists c', (forall i b, c' i b = b) /\
    W o lib compress None (CHeader hd :: cs ++ [CClose]) = W o lib c' None (CHeader hd :: cs ++ [CClose]) /\
    (o_chunked o = true -> o_comp o = []).
Proof.
  intros (H1 & _). destruct (o_chunked o) eqn:E.
  - destruct (H1 eq_refl) as [Hc Hi]. exists compress. split; [exact Hi|]. split; [reflexivity|intros _; exact Hc].
  - exists idc. split; [reflexivity|]. split; [apply W_unchunked; exact E|discriminate].
Qed.

Ltac go_reduce H :=
  let c' := fresh "c'" in let Hi := fresh "Hi" in let EW := fresh "EW" in let Hunc := fresh "Hunc" in
  destruct (go_hyps_id _ _ _ _ _ H) as (c' & Hi & EW & Hunc);
  destruct H as (_ & Hm & Hwf & Hnh & Hok & Hsm & Hutf & Hu1 & Hu2 & Hsz & Hit);
  cbv zeta in Hok, Hsz, Hit; rewrite EW in Hok, Hsz, Hit; cbv zeta; rewrite ?EW.

(* 1. the file is the rendering of a typed description the Python reader accepts, with and without
      CRC validation; item by item it is the writer's trace between the two magics *)
Theorem go_trace_typed o lib compress hd cs : go_hyps o lib compress hd cs ->
  let R := W o lib compress None (CHeader hd :: cs ++ [CClose]) in
  exists ps,
    file_of R = magic ++ py_render ps ++ magic /\
    map render_item (to_items ps) = map render_item (removelast (tl (rev (w_trace (r_final R))))) /\
    pwf_file true false ps /\ pwf_file false false ps.
Proof.
  intro H. go_reduce H.
  destruct (go_trace_typed_run o lib c' hd cs Hwf Hnh Hok Hsm Hi Hunc Hm Hutf (conj Hu1 Hu2) Hsz Hit)
    as (dps & c1 & offs & ft & G). cbv zeta in G. destruct G as (E & EB & W0 & _).
  eexists. split; [exact E|]. split; [|split; apply W0].
  rewrite <- EB. unfold to_items. rewrite map_map. apply map_ext. intro p. symmetry. apply pitem_bytes_go.
Qed.

(* 2. StreamReader(file, validate_crcs=...).records *)
Theorem go_to_python_stream o lib compress hd cs : go_hyps o lib compress hd cs ->
  let R := W o lib compress None (CHeader hd :: cs ++ [CClose]) in
  exists ps,
    file_of R = magic ++ py_render ps ++ magic /\
    pwf_file true false ps /\ pwf_file false false ps /\
    stream_records (file_of R) false false true limit_4g = (py_expected ps, EStop) /\
    stream_records (file_of R) false false false limit_4g = (py_expected ps, EStop).
Proof.
  intro H. go_reduce H.
  destruct (go_trace_typed_run o lib c' hd cs Hwf Hnh Hok Hsm Hi Hunc Hm Hutf (conj Hu1 Hu2) Hsz Hit)
    as (dps & c1 & offs & ft & G). cbv zeta in G. destruct G as (E & _ & W0 & _).
  eexists. split; [exact E|]. split; [apply W0|]. split; [apply W0|].
  rewrite E. split; apply py_stream_records, W0.
Qed.

(* 2 (a)-(e). NonSeekingReader, CRC validation on or off *)
Theorem go_to_python_content o lib compress hd cs : go_hyps o lib compress hd cs -> ids_consistent cs ->
  let R := W o lib compress None (CHeader hd :: cs ++ [CClose]) in
  forall validate,
  (* (a) get_header: the profile, and the library string the writer computed *)
  ns_get_header (file_of R) validate
    = POk {| h_profile := h_profile hd; h_library := header_library (effective_opts o) lib hd |} /\
  (* (b) iter_attachments: the attachment calls in order, all fields, the data of the source *)
  ns_iter Py.is_att (file_of R) validate
    = (map (fun ad => PAttachment (att_set (fst ad) (snd ad))) (attachments_of cs), EStop) /\
  (* (c) iter_metadata: the metadata calls in order *)
  ns_iter is_md (file_of R) validate = (map (fun m => PMetadata (py_metadata m)) (metadata_of cs), EStop) /\
  (* (d) iter_messages in file order: the message calls in call order, each with its channel and schema *)
  (forall flt reverse, ns_iter_messages (file_of R) validate flt false reverse = (go_msgs cs flt, EStop)) /\
  (* (e) in log-time order *)
  (forall flt reverse, ns_iter_messages (file_of R) validate flt true reverse = (py_sorted reverse (go_msgs cs flt), EStop)).
Proof.
  intros H Hc. go_reduce H. intro v.
  split; [exact (go_py_header o lib c' hd cs Hwf Hnh Hok Hsm Hi Hunc Hm Hutf (conj Hu1 Hu2) Hsz Hit v)|].
  split; [exact (go_py_attachments o lib c' hd cs Hwf Hnh Hok Hsm Hi Hunc Hm Hutf (conj Hu1 Hu2) Hsz Hit v)|].
  split; [exact (go_py_metadata o lib c' hd cs Hwf Hnh Hok Hsm Hi Hunc Hm Hutf (conj Hu1 Hu2) Hsz Hit v)|].
  split; intros flt reverse.
  - exact (go_py_messages o lib c' hd cs Hwf Hnh Hok Hsm Hi Hunc Hm Hutf (conj Hu1 Hu2) Hsz Hit Hc v flt reverse).
  - exact (go_py_messages_log_order o lib c' hd cs Hwf Hnh Hok Hsm Hi Hunc Hm Hutf (conj Hu1 Hu2) Hsz Hit Hc v flt reverse).
Qed.

(* 3. get_summary of the NonSeekingReader: None when the writer wrote no summary section, otherwise the
      statistics record and the index lists of the writer's final state (values reduced to their wire
      widths, maps as Python builds them) *)
Theorem go_to_python_summary o lib compress hd cs : go_hyps o lib compress hd cs ->
  let R := W o lib compress None (CHeader hd :: cs ++ [CClose]) in
  let s := r_final R in
  let eo := effective_opts o in
  forall validate, exists su,
    ns_get_summary (file_of R) validate = POk (match state_sum_recs eo s [] with [] => None | _ => Some su end) /\
    su_stats su = (if o_skip_stats eo then None else Some (py_statistics (st_wrap (stats_record s)))) /\
    su_chunks su = map (fun ci => py_chunkindex (ci_wrap ci)) (if o_skip_ci eo then [] else w_chunk_indexes s) /\
    su_atts su = (if o_skip_ai eo then [] else w_att_indexes s) /\
    su_mds su = (if o_skip_mdi eo then [] else w_md_indexes s) /\
    (ids_consistent cs ->
     su_schemas su = w_schemas s /\ su_channels su = map (fun p => (fst p, py_channel (snd p))) (w_channels s)).
Proof.
  intro H. go_reduce H. intro v.
  exact (go_py_summary o lib c' hd cs Hwf Hnh Hok Hsm Hi Hunc Hm Hutf (conj Hu1 Hu2) Hsz Hit v).
Qed.

Lemma sum_recs_stats_nonempty a b x c d e f g : sum_recs a b (x :: c) d e f g <> [].
Proof. unfold sum_recs. destruct a; [destruct b; discriminate|discriminate]. Qed.

(* the statistics Python reports are the statistics record of the writer's final state, which carries the
   true aggregates of the calls (C08) *)
Theorem go_to_python_statistics o lib compress hd cs : go_hyps o lib compress hd cs ->
  let R := W o lib compress None (CHeader hd :: cs ++ [CClose]) in
  let s := r_final R in
  o_skip_stats o = false -> wf_statistics (stats_record s) ->
  forall validate, exists su,
    ns_get_summary (file_of R) validate = POk (Some su) /\
    su_stats su = Some (stats_record s) /\
    record_correct (CHeader hd :: cs ++ [CClose]) (N.of_nat (length (w_chunk_indexes s))) (stats_record s).
Proof.
  intros H R s Hst Hwfst v.
  assert (RC : record_correct (CHeader hd :: cs ++ [CClose]) (N.of_nat (length (w_chunk_indexes s))) (stats_record s)).
  { destruct H as (_ & _ & _ & _ & [Hn Hc] & _).
    exact (proj2 (C08_statistics_record_proof o lib compress None (CHeader hd :: cs) Hn Hc Hst)). }
  destruct (go_to_python_summary o lib compress hd cs H v) as (su & E1 & E2 & _).
  fold R s in E1, E2.
  assert (Es : o_skip_stats (effective_opts o) = false) by (destruct (eff_flags o) as (_ & _ & _ & _ & E); rewrite E; exact Hst).
  rewrite Es in E2. exists su. split; [|split; [|exact RC]].
  - rewrite E1. unfold state_sum_recs. rewrite Es.
    destruct (sum_recs _ _ [stats_record s] _ _ _ []) eqn:EE; [|reflexivity].
    exfalso. exact (sum_recs_stats_nonempty _ _ _ _ _ _ _ _ EE).
  - rewrite E2, st_wrap_id by exact Hwfst. rewrite py_statistics_nodup; [reflexivity|].
    destruct RC as (_ & _ & _ & _ & _ & _ & _ & _ & _ & ND). exact ND.
Qed.

(* the record stream in terms of the calls and the writer's final state *)
Theorem go_to_python_records o lib compress hd cs : go_hyps o lib compress hd cs ->
  let R := W o lib compress None (CHeader hd :: cs ++ [CClose]) in
  let s := r_final R in
  let eo := effective_opts o in
  let hdr := {| h_profile := h_profile hd; h_library := header_library eo lib hd |} in
  exists dx c1 offs ft,
    (forall validate, stream_records (file_of R) false false validate limit_4g
       = (PHeader hdr :: dx ++ PDataEnd {| de_crc := c1 |} :: map py_norm (state_sum_recs eo s offs) ++ [PFooter ft], EStop)) /\
    Forall data_rec dx /\
    filter scm dx = map arec_out (auto_recs cs) /\
    filter Py.is_att dx = map (fun ad => PAttachment (att_set (fst ad) (snd ad))) (attachments_of cs) /\
    filter is_md dx = map (fun m => PMetadata (py_metadata m)) (metadata_of cs) /\
    (o_crc o = false -> c1 = 0).
Proof.
  intro H. go_reduce H.
  exact (go_py_records o lib c' hd cs Hwf Hnh Hok Hsm Hi Hunc Hm Hutf (conj Hu1 Hu2) Hsz Hit).
Qed.

(* SeekingReader.get_summary *)
Theorem go_to_python_seeking_summary o lib compress hd cs : go_hyps o lib compress hd cs ->
  let R := W o lib compress None (CHeader hd :: cs ++ [CClose]) in
  let s := r_final R in
  let eo := effective_opts o in
  exists su,
    sk_get_summary (file_of R) = POk (match state_sum_recs eo s [] with [] => None | _ => Some su end) /\
    su_stats su = (if o_skip_stats eo then None else Some (py_statistics (st_wrap (stats_record s)))) /\
    su_chunks su = map (fun ci => py_chunkindex (ci_wrap ci)) (if o_skip_ci eo then [] else w_chunk_indexes s) /\
    su_atts su = (if o_skip_ai eo then [] else w_att_indexes s) /\
    su_mds su = (if o_skip_mdi eo then [] else w_md_indexes s).
Proof.
  intro H. go_reduce H.
  exact (go_sk_summary o lib c' hd cs Hwf Hnh Hok Hsm Hi Hunc Hm Hutf (conj Hu1 Hu2) Hsz Hit).
Qed.

(* ====================================================================================== *)
(** * 6. deciding the hypotheses; non-vacuity *)

Definition kvs_utf8b (m : kvs) : bool := forallb (fun kv => utf8_valid (fst kv) && utf8_valid (snd kv)) m.
Definition call_utf8b (c : wcall) : bool :=
  match c with
  | CHeader h => utf8_valid (h_profile h) && utf8_valid (h_library h)
  | CSchema s => utf8_valid (s_name s) && utf8_valid (s_encoding s)
  | CChannel c => utf8_valid (c_topic c) && utf8_valid (c_menc c) && kvs_utf8b (c_meta c)
  | CMessage _ => true
  | CAttachment a _ => utf8_valid (a_name a) && utf8_valid (a_media a)
  | CMetadata m => utf8_valid (md_name m) && kvs_utf8b (md_meta m)
  | CClose => true
  end.

Lemma kvs_utf8b_ok m : kvs_utf8b m = true -> kvs_utf8 m.
Proof.
  unfold kvs_utf8b, kvs_utf8. intro H. apply Forall_forall. intros kv Hkv. rewrite forallb_forall in H.
  specialize (H kv Hkv). apply andb_prop in H. exact H.
Qed.
Lemma call_utf8b_ok c : call_utf8b c = true -> call_utf8 c.
Proof.
  destruct c as [h|sc|c|m|a src|m|]; cbn [call_utf8b call_utf8]; intro H; try exact I;
    repeat (apply andb_prop in H; destruct H as [H ?]); repeat split; try assumption; apply kvs_utf8b_ok; assumption.
Qed.

Definition item_smallb (it : item) : bool := blen (render_item it) <=? two32.
Lemma item_smallb_ok it : item_smallb it = true -> item_small it.
Proof. apply N.leb_le. Qed.

Definition no_headerb (cs : list wcall) : bool := forallb (fun c => negb (is_hdr c)) cs.
Lemma no_headerb_ok cs : no_headerb cs = true -> no_header cs.
Proof.
  intro H. apply (forallb_Forall' _ _ _ (fun c Hc => proj1 (negb_true_iff _) Hc) H).
Qed.

(* everything decidable in go_hyps, for the identity compressor *)
Definition go_checks (o : wopts) (lib : bytes) (hd : header) (cs : list wcall) : bool :=
  let R := W o lib idc None (CHeader hd :: cs ++ [CClose]) in
  (negb (o_chunked o) || bytes_eqb (o_comp o) []) && negb (o_skip_magic o) &&
  forallb call_wfb cs && no_headerb cs &&
  match r_new R with None => true | Some _ => false end && all_okb (r_calls R) &&
  forallb call_smallb cs && forallb call_utf8b cs &&
  utf8_valid (h_profile hd) && utf8_valid (header_library (effective_opts o) lib hd) &&
  (blen (file_of R) <? two63) && forallb item_smallb (rev (w_trace (r_final R))).

Lemma go_checks_ok o lib hd cs : go_checks o lib hd cs = true -> go_hyps o lib idc hd cs.
Proof.
  unfold go_checks. cbv zeta. intro H.
  repeat (apply andb_prop in H; let X := fresh "X" in destruct H as [H X]).
  unfold go_hyps. cbv zeta.
  split.
  { intro Hc. rewrite Hc in H. cbn [negb orb] in H. split; [|reflexivity].
    destruct (o_comp o); [reflexivity|discriminate H]. }
  split; [apply negb_true_iff; assumption|].
  split; [exact (forallb_Forall' _ _ _ call_wfb_ok ltac:(eassumption))|].
  split; [apply no_headerb_ok; assumption|].
  split.
  { split; [destruct (r_new _); [discriminate|reflexivity]|]. apply all_okb_ok. assumption. }
  split; [exact (forallb_Forall' _ _ _ call_smallb_ok ltac:(eassumption))|].
  split; [exact (forallb_Forall' _ _ _ call_utf8b_ok ltac:(eassumption))|].
  split; [assumption|]. split; [assumption|].
  split; [apply N.ltb_lt; assumption|].
  exact (forallb_Forall' _ _ _ item_smallb_ok ltac:(eassumption)).
Qed.

(* ---------- the example workloads ---------- *)
Definition gx_o (chunked crc : bool) : wopts :=
  {| o_crc := crc; o_chunked := chunked; o_chunksize := 40; o_comp := []; o_custom := false;
     o_skip_mi := false; o_skip_stats := false; o_skip_rsh := false; o_skip_rch := false;
     o_skip_ai := false; o_skip_mdi := false; o_skip_ci := false; o_skip_so := false;
     o_override_lib := false; o_skip_magic := false |}.

(* workload of properties/C02_full.v (EndToEnd.ex_cs): a schema, two channels (one with metadata, one without
   schema), four messages, an attachment from a two-fragment source, a metadata record *)
Definition gx_lib : bytes := [x6c].
Definition gx_hd : header := EndToEnd.ex_hd.
Definition gx_cs : list wcall := EndToEnd.ex_cs.

(* workload of properties/C01.v (WriterFactsB.ex_cs_pre): a schema, a channel, three messages, an attachment,
   a metadata record *)
Definition gy_lib : bytes := WriterFactsB.ex_lib.
Definition gy_hd : header := {| h_profile := []; h_library := [] |}.
Definition gy_cs : list wcall := tl WriterFactsB.ex_cs_pre.

Lemma gy_cs_eq : WriterFactsB.ex_cs_pre = CHeader gy_hd :: gy_cs.
Proof. reflexivity. Qed.

Lemma gx_consistent : ids_consistent gx_cs.
Proof. exact ex_cs_consistent. Qed.

Lemma gy_consistent : ids_consistent gy_cs.
Proof.
  split.
  - intros c c' H1 H2 E0. unfold gy_cs, WriterFactsB.ex_cs_pre in H1, H2. cbn [tl In] in H1, H2.
    repeat (destruct H1 as [H1|H1]; try discriminate); try contradiction;
    repeat (destruct H2 as [H2|H2]; try discriminate); try contradiction;
    injection H1 as <-; injection H2 as <-; reflexivity.
  - intros sc sc' H1 H2 E0. unfold gy_cs, WriterFactsB.ex_cs_pre in H1, H2. cbn [tl In] in H1, H2.
    repeat (destruct H1 as [H1|H1]; try discriminate); try contradiction;
    repeat (destruct H2 as [H2|H2]; try discriminate); try contradiction;
    injection H1 as <-; injection H2 as <-; reflexivity.
Qed.

Example gx_hyps chunked crc : go_hyps (gx_o chunked crc) gx_lib idc gx_hd gx_cs.
Proof. apply go_checks_ok. destruct chunked, crc; vm_compute; reflexivity. Qed.

Example gy_hyps chunked crc : go_hyps (gx_o chunked crc) gy_lib idc gy_hd gy_cs.
Proof. apply go_checks_ok. destruct chunked, crc; vm_compute; reflexivity. Qed.

(* what a direct evaluation of the Python model on the written file is compared with: every right-hand side
   below is computed from the calls and the writer's final state, none from the file *)
Definition flt_all : mfilter := {| mf_topics := None; mf_start := None; mf_end := None |}.

Definition go_example_spec (o : wopts) (lib : bytes) (hd : header) (cs : list wcall) (validate : bool) : Prop :=
  let R := W o lib idc None (CHeader hd :: cs ++ [CClose]) in
  let F := file_of R in
  let s := r_final R in
  let hdr := {| h_profile := h_profile hd; h_library := header_library (effective_opts o) lib hd |} in
  let recs := fst (stream_records F false false validate limit_4g) in
  snd (stream_records F false false validate limit_4g) = EStop /\
  firstn 1 recs = [PHeader hdr] /\
  filter scm recs = map arec_out (auto_recs cs ++ map ASchema (map snd (w_schemas s)) ++ map AChannel (map snd (w_channels s))) /\
  filter Py.is_att recs = map (fun ad => PAttachment (att_set (fst ad) (snd ad))) (attachments_of cs) /\
  filter is_md recs = map (fun m => PMetadata (py_metadata m)) (metadata_of cs) /\
  flat_map sel_stat recs = [stats_record s] /\
  flat_map sel_ci recs = w_chunk_indexes s /\ flat_map sel_ai recs = w_att_indexes s /\ flat_map sel_mx recs = w_md_indexes s /\
  match last recs (PHeader hdr) with
  | PFooter ft =>
    filter PyReadFacts.is_dataend recs
    = [PDataEnd {| de_crc := if o_crc o then crc32 (firstn (N.to_nat (f_summary_start ft) - 13) F) else 0 |}]
  | _ => False
  end /\
  ns_get_header F validate = POk hdr /\
  ns_iter_messages F validate flt_all false false = (go_msgs cs flt_all, EStop) /\
  ns_iter_messages F validate flt_all true false = (py_sorted false (go_msgs cs flt_all), EStop) /\
  ns_iter_messages F validate flt_all true true = (py_sorted true (go_msgs cs flt_all), EStop) /\
  length (go_msgs cs flt_all) = length (messages_of cs) /\
  match ns_get_summary F validate with
  | POk (Some su) =>
    su_stats su = Some (stats_record s) /\ su_chunks su = w_chunk_indexes s /\
    su_atts su = w_att_indexes s /\ su_mds su = w_md_indexes s /\
    su_schemas su = w_schemas s /\ su_channels su = map (fun p => (fst p, py_channel (snd p))) (w_channels s)
  | _ => False
  end /\
  match sk_get_summary F with
  | POk (Some su) =>
    su_stats su = Some (stats_record s) /\ su_chunks su = w_chunk_indexes s /\
    su_atts su = w_att_indexes s /\ su_mds su = w_md_indexes s /\
    su_schemas su = w_schemas s /\ su_channels su = map (fun p => (fst p, py_channel (snd p))) (w_channels s)
  | _ => False
  end.

Example gx_example chunked crc validate : go_example_spec (gx_o chunked crc) gx_lib gx_hd gx_cs validate.
Proof. destruct chunked, crc, validate; vm_compute; repeat split. Qed.

Example gy_example chunked crc validate : go_example_spec (gx_o chunked crc) gy_lib gy_hd gy_cs validate.
Proof. destruct chunked, crc, validate; vm_compute; repeat split. Qed.

(* a writer that is not chunked may be given any compressor *)
Example gx_hyps_any_compressor crc : go_hyps (gx_o false crc) gx_lib (fun _ b => xff :: b) gx_hd gx_cs.
Proof.
  pose proof (gx_hyps false crc) as H. unfold go_hyps in *. cbv zeta in *.
  rewrite (W_unchunked (gx_o false crc) gx_lib (fun _ b => xff :: b) idc None _ eq_refl).
  destruct H as (_ & H). split; [discriminate|exact H].
Qed.

(* ---------- the hypotheses are needed ---------- *)
(* a schema name that is not valid UTF-8: every other hypothesis holds, Python raises UnicodeDecodeError
   after the header *)
Definition gz_bad_cs : list wcall := [CSchema {| s_id := 1; s_name := [xff]; s_encoding := []; s_data := [] |}].
Example gz_utf8_needed :
  let R := W (gx_o false true) gx_lib idc None (CHeader gx_hd :: gz_bad_cs ++ [CClose]) in
  forallb call_wfb gz_bad_cs = true /\ forallb call_smallb gz_bad_cs = true /\ r_new R = None /\
  all_okb (r_calls R) = true /\ forallb item_smallb (rev (w_trace (r_final R))) = true /\
  forallb call_utf8b gz_bad_cs = false /\
  stream_records (file_of R) false false true limit_4g
    = ([PHeader {| h_profile := []; h_library := gx_lib |}], ERaise PUnicode).
Proof. vm_compute. repeat split. Qed.

(* a channel id registered twice with different content: go_hyps holds, ids_consistent does not; Go writes both
   channel records, Python resolves the second message through the second registration, go_msgs (like the
   summary section of the file) through the first *)
Definition gz_c1 : channel := {| c_id := 1; c_schema := 0; c_topic := [x74]; c_menc := []; c_meta := [] |}.
Definition gz_c1' : channel := {| c_id := 1; c_schema := 0; c_topic := [x75]; c_menc := []; c_meta := [] |}.
Definition gz_m (n : N) : message := {| m_chan := 1; m_seq := n; m_log := n; m_pub := n; m_data := [] |}.
Definition gz_re_cs : list wcall := [CChannel gz_c1; CMessage (gz_m 1); CChannel gz_c1'; CMessage (gz_m 2)].
Example gz_consistency_needed :
  let R := W (gx_o false true) gx_lib idc None (CHeader gx_hd :: gz_re_cs ++ [CClose]) in
  go_hyps (gx_o false true) gx_lib idc gx_hd gz_re_cs /\ ~ ids_consistent gz_re_cs /\
  map (fun t => c_topic (snd (fst t))) (fst (ns_iter_messages (file_of R) true flt_all false false)) = [[x74]; [x75]] /\
  map (fun t => c_topic (snd (fst t))) (go_msgs gz_re_cs flt_all) = [[x74]; [x74]].
Proof.
  cbv zeta. split; [apply go_checks_ok; vm_compute; reflexivity|]. split; [|vm_compute; split; reflexivity].
  intros [H _]. specialize (H gz_c1 gz_c1'). cbn in H. assert (E : gz_c1 = gz_c1') by (apply H; auto). discriminate E.
Qed.

(* without the leading magic the Python readers fail at once *)
Definition gz_o_nomagic : wopts :=
  {| o_crc := true; o_chunked := false; o_chunksize := 40; o_comp := []; o_custom := false;
     o_skip_mi := false; o_skip_stats := false; o_skip_rsh := false; o_skip_rch := false;
     o_skip_ai := false; o_skip_mdi := false; o_skip_ci := false; o_skip_so := false;
     o_override_lib := false; o_skip_magic := true |}.
Example gz_magic_needed :
  let R := W gz_o_nomagic gx_lib idc None (CHeader gx_hd :: gx_cs ++ [CClose]) in
  r_new R = None /\ all_okb (r_calls R) = true /\
  ns_get_header (file_of R) true = PRaise PInvalidMagic /\
  stream_records (file_of R) false false true limit_4g = ([], ERaise PInvalidMagic).
Proof. vm_compute. repeat split. Qed.

(* a file of at most 4 GiB has no record longer than 2^32 bytes *)
Lemma items_small_of_file o lib compress hd cs :
  let R := W o lib compress None (CHeader hd :: cs ++ [CClose]) in
  Forall call_wf cs -> all_ok R -> blen (file_of R) <= two32 ->
  Forall item_small (rev (w_trace (r_final R))).
Proof.
  intros R Hwf Hok Hsz. subst R. apply Forall_forall. intros it Hit. unfold item_small.
  pose proof (render_item_le it _ Hit) as L.
  rewrite <- (run_file_is_trace o lib compress hd cs Hwf Hok) in L. lia.
Qed.
