(* GoToPy.v - property C16 end to end: an UNCOMPRESSED file written by the Go writer model (Writer.W)
   is read by the Python reader model (Py.v: StreamReader / NonSeekingReader, CRC validation on or
   off) as exactly the content of the calls.

   The two halves joined here:
     PyReadFacts.v   the Python streaming reader on  magic ++ py_render ps ++ magic  for a typed
                     description ps with pwf_file;
     WriterFactsB/C, ComposeFacts, EndToEnd (E2E_Writer)   the shape and content of the Go writer's trace.

   Contents
     1. generic list facts
     2. the data section of the trace, typed (data_typed)
     3. the summary section, typed
     4. go_trace_typed: the typed description of the whole file and pwf_file
     5. what the Python reader returns, in terms of the calls
     6. non-vacuity *)
From Coq Require Import List NArith ZArith Bool Lia ZifyN ZifyNat ZifyBool Permutation Sorted PeanoNat.
From Coq.Strings Require Import Byte.
From RecordUpdate Require Import RecordSet.
From Mcap Require Import Bytes BytesFacts GoSem Crc32 Crc32Facts Records RecordsFacts Writer WriterFactsA WriterFactsB
  WriterFactsC Lexer LexSpec LexerFactsB ComposeFacts Py PyReadFacts EndToEnd.
From McapProps Require Import C02.
Import ListNotations RecordSetNotations.
Import E2E_Writer E2E_Scan.
Open Scope N_scope.
Ltac Zify.zify_post_hook ::= Z.div_mod_to_equations.

Arguments utf8_valid : simpl never.
Arguments crc32 : simpl never.

(* ====================================================================================== *)
(** * 1. generic facts *)

(* a list with exactly one element satisfying P splits around it in one way only *)
Lemma unique_split {A} (P : A -> Prop) (l1 : list A) : forall l2 x y r1 r2,
  l1 ++ x :: r1 = l2 ++ y :: r2 ->
  Forall (fun z => ~ P z) l1 -> Forall (fun z => ~ P z) r1 -> P y ->
  l1 = l2 /\ x = y /\ r1 = r2.
Proof.
  induction l1 as [|a l1 IH]; intros l2 x y r1 r2 E H1 H2 Py.
  - destruct l2 as [|z l2]; cbn [app] in E.
    + injection E as -> ->. auto.
    + injection E as -> E. exfalso. rewrite Forall_forall in H2. apply (H2 y); [|exact Py].
      rewrite E. apply in_or_app. right. left. reflexivity.
  - inversion H1 as [|? ? Ha H1']; subst. destruct l2 as [|z l2]; cbn [app] in E.
    + injection E as -> _. contradiction.
    + injection E as -> E. destruct (IH _ _ _ _ _ E H1' H2 Py) as (-> & -> & ->). auto.
Qed.

Lemma map_eq_app_inv {A B} (f : A -> B) l : forall a b, map f l = a ++ b ->
  map f (firstn (length a) l) = a /\ map f (skipn (length a) l) = b.
Proof.
  intros a b E. rewrite <- firstn_map, <- skipn_map, E. split; [apply firstn_app_len|apply skipn_app_len].
Qed.

(* ====================================================================================== *)
(** * 2. typed records *)

(* the identity decompressor *)
Definition uid : bytes -> bytes -> bytes := fun _ stored => stored.

Definition ninner (a : arec) : pinner :=
  match a with ASchema s => NSchema s | AChannel c => NChannel c | AMessage m => NMessage m end.
Definition arec_prec (a : arec) : prec :=
  match a with ASchema s => PSchema s | AChannel c => PChannel c | AMessage m => PMessage m end.
(* what Python holds for it *)
Definition arec_out (a : arec) : prec := py_norm (arec_prec a).

Lemma arec_bytes a : pitem_bytes (PIRec (arec_prec a)) = frame (fst (apair a)) (snd (apair a)).
Proof. destruct a; reflexivity. Qed.

Lemma chunk_bytes_ninner l : chunk_bytes (map ninner l) = frames (map apair l).
Proof.
  unfold chunk_bytes, frames. rewrite !map_map. f_equal. apply map_ext. intros []; reflexivity.
Qed.

Lemma chunk_recs_ninner l : chunk_recs (map ninner l) = map arec_out l.
Proof.
  unfold chunk_recs. induction l as [|a l IH]; [reflexivity|]. cbn [map flat_map]. rewrite IH. destruct a; reflexivity.
Qed.

(* schema, channel and message records: what iter_messages looks at *)
Definition scm (r : prec) : bool :=
  match r with PSchema _ | PChannel _ | PMessage _ => true | _ => false end.

Lemma scm_arec_out a : scm (arec_out a) = true.
Proof. destruct a; reflexivity. Qed.

Lemma filter_scm_out l : filter scm (map arec_out l) = map arec_out l.
Proof. induction l as [|a l IH]; [reflexivity|]. cbn [map filter]. rewrite scm_arec_out, IH. reflexivity. Qed.

(* the attachment record with its data filled in (the writer takes the data from the source) *)
Definition att_set (a : attachment) (data : bytes) : attachment :=
  {| a_log := a_log a; a_create := a_create a; a_name := a_name a; a_media := a_media a;
     a_size := a_size a; a_data := data |}.

Lemma att_set_fields a data : enc_attachment_fields (att_set a data) = enc_attachment_fields a.
Proof. reflexivity. Qed.

(* UTF-8 validity of every string Python decodes *)
Definition kvs_utf8 (m : kvs) : Prop :=
  Forall (fun kv => utf8_valid (fst kv) = true /\ utf8_valid (snd kv) = true) m.

Definition call_utf8 (c : wcall) : Prop :=
  match c with
  | CHeader h => utf8_valid (h_profile h) = true /\ utf8_valid (h_library h) = true
  | CSchema s => utf8_valid (s_name s) = true /\ utf8_valid (s_encoding s) = true
  | CChannel c => utf8_valid (c_topic c) = true /\ utf8_valid (c_menc c) = true /\ kvs_utf8 (c_meta c)
  | CMessage _ => True
  | CAttachment a _ => utf8_valid (a_name a) = true /\ utf8_valid (a_media a) = true
  | CMetadata m => utf8_valid (md_name m) = true /\ kvs_utf8 (md_meta m)
  | CClose => True
  end.

Definition arec_ok (a : arec) : Prop :=
  match a with
  | ASchema s => pwf_schema s
  | AChannel c => pwf_channel c
  | AMessage m => wf_message m
  end.

(* ====================================================================================== *)
(** * 2b. wrapping values to their wire widths

   The writer theorems describe a chunk through an existentially quantified list of records, so the
   time stamps in chunk, message index and chunk index records, and the counters of the statistics
   record, are known only through their encodings.  The typed description below therefore carries
   the values reduced to the width of their fields: the bytes are the same, and the reduction is
   the identity on values that fit (every value of a Go uint16/32/64). *)

Lemma u16_mod x : u16 (x mod two16) = u16 x. Proof. apply (le_mod 2). Qed.
Lemma u32_mod x : u32 (x mod two32) = u32 x. Proof. apply (le_mod 4). Qed.

Lemma mod16_lt x : x mod two16 < two16. Proof. apply N.mod_lt. discriminate. Qed.
Lemma mod32_lt x : x mod two32 < two32. Proof. apply N.mod_lt. discriminate. Qed.
Lemma mod64_lt x : x mod two64 < two64. Proof. apply N.mod_lt. discriminate. Qed.

Definition nn_wrap (e : N * N) : N * N := (fst e mod two16, snd e mod two64).
Definition mie_wrap (e : N * N) : N * N := (fst e mod two64, snd e mod two64).

Lemma enc_nn_wrap l : concat (map enc_nn (map nn_wrap l)) = concat (map enc_nn l).
Proof.
  induction l as [|e l IH]; [reflexivity|]. cbn [map concat]. rewrite IH. f_equal.
  unfold enc_nn, nn_wrap. cbn [fst snd]. rewrite u16_mod, u64_mod. reflexivity.
Qed.
Lemma enc_mie_wrap l : concat (map enc_mi_entry (map mie_wrap l)) = concat (map enc_mi_entry l).
Proof.
  induction l as [|e l IH]; [reflexivity|]. cbn [map concat]. rewrite IH. f_equal.
  unfold enc_mi_entry, mie_wrap. cbn [fst snd]. rewrite !u64_mod. reflexivity.
Qed.
Lemma nn_wrap_wf l : Forall wf_nn (map nn_wrap l).
Proof. apply Forall_forall. intros e He. apply in_map_iff in He. destruct He as (x & <- & _). split; [apply mod16_lt|apply mod64_lt]. Qed.
Lemma mie_wrap_wf l : Forall wf_mi_entry (map mie_wrap l).
Proof. apply Forall_forall. intros e He. apply in_map_iff in He. destruct He as (x & <- & _). split; apply mod64_lt. Qed.
Lemma nn_wrap_id l : Forall wf_nn l -> map nn_wrap l = l.
Proof.
  induction 1 as [|e l [H1 H2] _ IH]; [reflexivity|]. cbn [map]. rewrite IH. f_equal.
  destruct e as [a b]. unfold nn_wrap. cbn [fst snd] in *. rewrite !N.mod_small by assumption. reflexivity.
Qed.
Lemma mie_wrap_id l : Forall wf_mi_entry l -> map mie_wrap l = l.
Proof.
  induction 1 as [|e l [H1 H2] _ IH]; [reflexivity|]. cbn [map]. rewrite IH. f_equal.
  destruct e as [a b]. unfold mie_wrap. cbn [fst snd] in *. rewrite !N.mod_small by assumption. reflexivity.
Qed.

Definition mi_wrap (mi : msgindex) : msgindex :=
  {| mi_chan := mi_chan mi mod two16; mi_entries := map mie_wrap (mi_entries mi) |}.
Lemma enc_mi_wrap mi : enc_msgindex (mi_wrap mi) = enc_msgindex mi.
Proof.
  unfold enc_msgindex, mi_wrap. cbn [mi_chan mi_entries]. cbv zeta. rewrite enc_mie_wrap, u16_mod. reflexivity.
Qed.
Lemma mi_wrap_wf mi : blen (enc_msgindex mi) <= two32 -> wf_msgindex (mi_wrap mi).
Proof.
  intro H. unfold wf_msgindex, mi_wrap. cbn [mi_chan mi_entries]. split; [apply mod16_lt|]. split; [apply mie_wrap_wf|].
  rewrite map_length. unfold blen in H. rewrite enc_msgindex_length in H. unfold two32 in *. lia.
Qed.
Lemma mi_wrap_id mi : wf_msgindex mi -> mi_wrap mi = mi.
Proof.
  destruct mi as [ch es]. unfold wf_msgindex, mi_wrap. cbn [mi_chan mi_entries]. intros (H1 & H2 & _).
  rewrite N.mod_small by exact H1. rewrite mie_wrap_id by exact H2. reflexivity.
Qed.

Definition ci_wrap (ci : chunkindex) : chunkindex :=
  {| ci_start := ci_start ci mod two64; ci_end := ci_end ci mod two64; ci_offset := ci_offset ci mod two64;
     ci_length := ci_length ci mod two64; ci_mioffsets := map nn_wrap (ci_mioffsets ci);
     ci_milength := ci_milength ci mod two64; ci_comp := ci_comp ci;
     ci_csize := ci_csize ci mod two64; ci_usize := ci_usize ci mod two64 |}.
Lemma enc_ci_wrap ci : enc_chunkindex (ci_wrap ci) = enc_chunkindex ci.
Proof.
  unfold enc_chunkindex, ci_wrap.
  cbn [ci_start ci_end ci_offset ci_length ci_mioffsets ci_milength ci_comp ci_csize ci_usize]. cbv zeta.
  rewrite enc_nn_wrap, !u64_mod. reflexivity.
Qed.
Lemma ci_wrap_wf ci : blen (enc_chunkindex ci) <= two32 -> blen (ci_comp ci) < two32 -> wf_chunkindex (ci_wrap ci).
Proof.
  intros H Hc. unfold wf_chunkindex, ci_wrap.
  cbn [ci_start ci_end ci_offset ci_length ci_mioffsets ci_milength ci_comp ci_csize ci_usize].
  repeat split; try apply mod64_lt; try exact Hc; [apply nn_wrap_wf|].
  rewrite map_length. unfold enc_chunkindex, blen in H. cbv zeta in H.
  rewrite !app_length, enc_nn_body_length in H. unfold two32 in *. lia.
Qed.
Lemma ci_wrap_id ci : wf_chunkindex ci -> ci_wrap ci = ci.
Proof.
  destruct ci as [a b c d mo e comp f g]. unfold wf_chunkindex, ci_wrap.
  cbn [ci_start ci_end ci_offset ci_length ci_mioffsets ci_milength ci_comp ci_csize ci_usize].
  intros (H1 & H2 & H3 & H4 & H5 & _ & H7 & _ & H9 & H10).
  rewrite !N.mod_small by assumption. rewrite nn_wrap_id by exact H5. reflexivity.
Qed.

Definition st_wrap (st : statistics) : statistics :=
  {| st_messages := st_messages st mod two64; st_schemas := st_schemas st mod two16;
     st_channels := st_channels st mod two32; st_attachments := st_attachments st mod two32;
     st_metadata := st_metadata st mod two32; st_chunks := st_chunks st mod two32;
     st_start := st_start st mod two64; st_end := st_end st mod two64;
     st_counts := map nn_wrap (st_counts st) |}.
Lemma enc_st_wrap st : enc_statistics (st_wrap st) = enc_statistics st.
Proof.
  unfold enc_statistics, st_wrap.
  cbn [st_messages st_schemas st_channels st_attachments st_metadata st_chunks st_start st_end st_counts]. cbv zeta.
  rewrite enc_nn_wrap, !u64_mod, !u32_mod, u16_mod. reflexivity.
Qed.
Lemma st_wrap_wf st : blen (enc_statistics st) <= two32 -> wf_statistics (st_wrap st).
Proof.
  intros H. unfold wf_statistics, st_wrap.
  cbn [st_messages st_schemas st_channels st_attachments st_metadata st_chunks st_start st_end st_counts].
  repeat split; try apply mod64_lt; try apply mod32_lt; try apply mod16_lt; [apply nn_wrap_wf|].
  rewrite map_length. unfold enc_statistics, blen in H. cbv zeta in H.
  rewrite !app_length, enc_nn_body_length in H. unfold two32 in *. lia.
Qed.
Lemma st_wrap_id st : wf_statistics st -> st_wrap st = st.
Proof.
  destruct st as [a b c d e f g h cnt]. unfold wf_statistics, st_wrap.
  cbn [st_messages st_schemas st_channels st_attachments st_metadata st_chunks st_start st_end st_counts].
  intros (H1 & H2 & H3 & H4 & H5 & H6 & H7 & H8 & H9 & _).
  rewrite !N.mod_small by assumption. rewrite nn_wrap_id by exact H9. reflexivity.
Qed.

(* ====================================================================================== *)
(** * 2c. the data section of the trace, typed *)

(* no record of the file, frame included, is longer than 2^32 bytes (the Python reader refuses records
   whose length field exceeds 2^32) *)
Definition item_small (it : item) : Prop := blen (render_item it) <= two32.

Definition is_dataend_item (p : pitem) : bool := match p with PIRec (PDataEnd _) => true | _ => false end.

(* the records Python reports for the data section *)
Definition data_rec (r : prec) : Prop :=
  match r with
  | PSchema _ | PChannel _ | PMessage _ | PAttachment _ | PMetadata _ | PMsgIndex _ => True
  | _ => False
  end.

Definition att_ok (ad : attachment * bytes) : Prop := pwf_attachment (att_set (fst ad) (snd ad)) (snd ad).

Lemma pstr_prefix_inj a b x y : blen a < two32 -> blen b < two32 -> pstr a ++ x = pstr b ++ y -> a = b.
Proof.
  intros Ha Hb E. unfold pstr in E. rewrite <- !app_assoc in E.
  assert (E4 : u32 (blen a) = u32 (blen b)).
  { pose proof (f_equal (firstn 4) E) as F. rewrite !firstn_app_exact' in F by (symmetry; apply u32_length). exact F. }
  assert (EL : blen a = blen b).
  { rewrite <- (unle_u32 _ Ha), <- (unle_u32 _ Hb), E4. reflexivity. }
  rewrite E4 in E. apply app_inv_head in E.
  pose proof (f_equal (firstn (length a)) E) as F. rewrite firstn_app_len in F.
  assert (L : length a = length b) by (unfold blen in EL; lia).
  rewrite L, firstn_app_len in F. exact F.
Qed.

Lemma enc_metadata_name m m' : blen (enc_metadata m) <= two32 -> blen (md_name m') < two32 ->
  enc_metadata m = enc_metadata m' -> md_name m = md_name m'.
Proof.
  intros H1 H2 E. unfold enc_metadata in E. apply (pstr_prefix_inj _ _ _ _) in E; [exact E| |exact H2].
  unfold enc_metadata, pstr in H1. rewrite !PyReadFacts.blen_app, PyReadFacts.blen_u32 in H1. unfold two32 in *. lia.
Qed.

(* records of message index items belong to none of the classes *)
Lemma mi_records_none mis :
  filter is_auto (all_records uid (map mi_item mis)) = [] /\
  filter ComposeFacts.is_att (all_records uid (map mi_item mis)) = [] /\
  filter (is_op OpMetadata) (all_records uid (map mi_item mis)) = [].
Proof.
  induction mis as [|mi mis (I1 & I2 & I3)]; [repeat split|].
  cbn [map all_records flat_map mi_item item_records app filter]. fold (all_records uid (map mi_item mis)).
  change (is_auto (CR OpMessageIndex (enc_msgindex mi))) with false.
  change (ComposeFacts.is_att (CR OpMessageIndex (enc_msgindex mi))) with false.
  change (is_op OpMetadata (CR OpMessageIndex (enc_msgindex mi))) with false. cbv iota. auto.
Qed.

Lemma auto_pairs_classes (l : list arec) :
  filter is_auto (map cr_of (map apair l)) = map cr_of (map apair l) /\
  filter ComposeFacts.is_att (map cr_of (map apair l)) = [] /\
  filter (is_op OpMetadata) (map cr_of (map apair l)) = [].
Proof.
  induction l as [|a l (I1 & I2 & I3)]; [repeat split|]. cbn [map filter]. rewrite I1, I2, I3.
  destruct a; repeat split.
Qed.

Lemma chunk_item_records k inner :
  k_records k = frames inner -> Forall (fun r => blen (snd r) < two64) inner ->
  item_records uid (IChunk k) = map cr_of inner.
Proof.
  intros Hr Hs. cbn [item_records]. f_equal. unfold ComposeFacts.chunk_recs, uid. cbv beta zeta. rewrite Hr.
  apply split_records_frames; [exact Hs|lia].
Qed.

Lemma ninner_body a : inner_body (ninner a) = snd (apair a).
Proof. destruct a; reflexivity. Qed.

Lemma pwf_inner_ninner a l : arec_ok a -> In a l -> blen (frames (map apair l)) < two63 -> pwf_inner (ninner a).
Proof.
  intros Ha Hin Hl. split.
  - rewrite ninner_body. pose proof (frames_body_le (apair a) (map apair l) (in_map apair _ _ Hin)). lia.
  - destruct a; exact Ha.
Qed.

Lemma two32_lt_two63' n : n <= two32 -> n < two63.
Proof. unfold two32, two63. lia. Qed.

Lemma arec_item_wf a v : arec_ok a -> blen (frame (fst (apair a)) (snd (apair a))) <= two32 ->
  pwf_pitem v false (PIRec (arec_prec a)).
Proof.
  intros Ha Hl. rewrite blen_frame in Hl. split.
  - destruct a; cbn [arec_prec rec_body apair fst snd] in *; lia.
  - split; [|destruct a; reflexivity].
    destruct a as [s|c|m]; cbn [arec_prec pwf_rec arec_ok] in *; try exact Ha.
    split; [exact Ha|]. cbn [apair snd] in Hl. apply message_data_bound. unfold two32, two63 in *. lia.
Qed.

Lemma ca_cons_inj a d c l a' d' c' l' : CA a d c :: l = CA a' d' c' :: l' -> a = a' /\ d = d' /\ c = c' /\ l = l'.
Proof. intro H. injection H. auto. Qed.
Lemma cr_cons_inj op b l op' b' l' : CR op b :: l = CR op' b' :: l' -> op = op' /\ b = b' /\ l = l'.
Proof. intro H. injection H. auto. Qed.

Section Data.
Variable o : wopts.
Variable compress : nat -> bytes -> bytes.
Hypothesis Hid : forall i b, compress i b = b.
Hypothesis Hunc : o_chunked o = true -> o_comp o = [].

Definition chunk_pitem (k : chunk) (l : list arec) : pitem :=
  PIChunk (k_start k mod two64) (k_end k mod two64) (k_crc k) (map ninner l).

Lemma chunk_pitem_bytes k l :
  k_records k = frames (map apair l) -> k_usize k = blen (k_records k) -> k_comp k = [] ->
  pitem_bytes (chunk_pitem k l) = render_item (IChunk k).
Proof.
  intros Hr Hu Hc. unfold chunk_pitem. cbn [pitem_bytes render_item]. f_equal.
  unfold enc_chunk, enc_chunk_top, mk_chunk. cbn [k_start k_end k_usize k_crc k_comp k_records].
  rewrite chunk_bytes_ninner, !u64_mod, Hu, Hc, Hr. reflexivity.
Qed.

Lemma data_typed : forall D n off (A : list arec) (M : list metadata) (T : list (attachment * bytes)),
  Forall (data_sitem o) D -> chunks_ok o compress n D ->
  Forall item_small (flatten D) ->
  off + offset_of (flatten D) < two63 ->
  filter is_auto (all_records uid (flatten D)) = map (fun a => cr_of (apair a)) A ->
  filter (is_op OpMetadata) (all_records uid (flatten D)) = map (fun m => CR OpMetadata (enc_metadata m)) M ->
  filter ComposeFacts.is_att (all_records uid (flatten D))
    = map (fun ad => CA (fst ad) (snd ad) (crc32 (enc_attachment_fields (fst ad) ++ snd ad))) T ->
  Forall arec_ok A -> Forall pwf_metadata M -> Forall att_ok T ->
  exists ps,
    map pitem_bytes ps = map render_item (flatten D) /\
    Forall (fun p => forall v, pwf_pitem v false p) ps /\
    Forall (fun p => is_footer_item p = false /\ is_dataend_item p = false) ps /\
    filter scm (py_expected ps) = map arec_out A /\
    file_atts ps = map (fun ad => att_set (fst ad) (snd ad)) T /\
    file_mds ps = M /\
    Forall pwf_attindex (flat_map exp_att (slocated off D)) /\
    Forall pwf_mdindex (flat_map exp_md (slocated off D)) /\
    Forall (fun ci => ci_comp ci = []) (flat_map exp_ci (slocated off D)) /\
    Forall data_rec (py_expected ps).
Proof.
  induction D as [|x D IH]; intros n off A M T HD HK HS Hoff EA EM ET WA WM WT.
  - cbn in EA, EM, ET. destruct A; [|discriminate]. destruct M; [|discriminate]. destruct T; [|discriminate].
    exists []. repeat split; constructor.
  - inversion HD as [|? ? Hx HD']; subst.
    change (flatten (x :: D)) with (flat1 x ++ flatten D) in *.
    apply Forall_app in HS. destruct HS as [HSx HS'].
    rewrite offset_of_app in Hoff.
    rewrite all_records_app in EA, EM, ET. rewrite filter_app in EA, EM, ET.
    cbn [slocated flat_map].
    assert (Hoff' : off + offset_of (flat1 x) + offset_of (flatten D) < two63) by lia.
    destruct x as [it|m|k mis].
    + (* a single item *)
      cbn [chunks_ok] in HK.
      destruct it as [|op body|k|a data crc|ss sos crc]; cbn [data_sitem] in Hx; try contradiction.
      * (* schema / channel / message record, writer not chunked *)
        destruct Hx as [_ Hop].
        assert (Hau : is_auto (CR op body) = true) by (destruct Hop as [->|[->| ->]]; reflexivity).
        assert (Hat : ComposeFacts.is_att (CR op body) = false) by reflexivity.
        assert (Hmd : is_op OpMetadata (CR op body) = false) by (destruct Hop as [->|[->| ->]]; reflexivity).
        cbn [flat1 all_records flat_map item_records app filter] in EA, EM, ET.
        rewrite Hau in EA. rewrite Hmd in EM. rewrite Hat in ET. cbn [app] in EA, EM, ET.
        destruct A as [|a A']; [discriminate|]. cbn [map] in EA. unfold cr_of at 1 in EA. apply cr_cons_inj in EA. destruct EA as (E1 & E2 & EA).
        inversion WA as [|? ? Wa WA']; subst.
        destruct (IH n _ A' M T HD' HK HS' Hoff' EA EM ET WA' WM WT) as (ps & P1 & P2 & P3 & P4 & P5 & P6 & P7 & P8 & P9 & P10).
        exists (PIRec (arec_prec a) :: ps).
        pose proof (Forall_inv HSx) as Hsm. unfold item_small in Hsm. cbn [render_item] in Hsm.
        split; [cbn [map flat1 app]; rewrite arec_bytes, P1; reflexivity|].
        split; [constructor; [intro v; apply arec_item_wf; [exact Wa|exact Hsm]|exact P2]|].
        split; [constructor; [destruct a; split; reflexivity|exact P3]|].
        split; [change (py_expected (PIRec (arec_prec a) :: ps)) with (arec_out a :: py_expected ps);
                cbn [filter]; rewrite scm_arec_out, P4; reflexivity|].
        split; [unfold file_atts in *; cbn [flat_map]; rewrite P5; destruct a; reflexivity|].
        split; [unfold file_mds in *; cbn [flat_map]; rewrite P6; destruct a; reflexivity|].
        cbn [exp_att exp_md exp_ci snd app]. split; [exact P7|]. split; [exact P8|]. split; [exact P9|].
        change (py_expected (PIRec (arec_prec a) :: ps)) with (arec_out a :: py_expected ps).
        constructor; [destruct a; exact I|exact P10].
      * (* attachment *)
        destruct Hx as (Hsz & Hcrc & Hsmall).
        cbn [flat1 all_records flat_map item_records app filter ComposeFacts.is_att is_auto is_op] in EA, EM, ET.
        destruct T as [|ad T']; [discriminate|]. cbn [map] in ET. apply ca_cons_inj in ET. destruct ET as (E1 & E2 & E3 & ET).
        inversion WT as [|? ? Wt WT']; subst. destruct ad as [a data]. cbn [fst snd] in *.
        destruct (IH n _ A M T' HD' HK HS' Hoff' EA EM ET WA WM WT') as (ps & P1 & P2 & P3 & P4 & P5 & P6 & P7 & P8 & P9 & P10).
        set (crc := crc32 (enc_attachment_fields a ++ data)).
        exists (PIAttach (att_set a data) crc :: ps).
        pose proof (Forall_inv HSx) as Hsm. unfold item_small in Hsm. cbn [render_item] in Hsm. fold crc in Hsm.
        rewrite blen_frame in Hsm.
        split; [cbn [map flat1 app pitem_bytes render_item att_set a_data]; rewrite att_set_fields, P1; reflexivity|].
        split; [constructor; [|exact P2]|].
        { intro v. split; [cbn [att_set a_data]; rewrite att_set_fields; lia|exact Wt]. }
        split; [constructor; [split; reflexivity|exact P3]|].
        split; [change (py_expected (PIAttach (att_set a data) crc :: ps))
                  with (PAttachment (py_attachment (att_set a data) (a_data (att_set a data))) :: py_expected ps);
                cbn [filter scm]; exact P4|].
        split; [unfold file_atts in *; cbn [flat_map pitem_atts app map fst snd]; rewrite P5; reflexivity|].
        split; [unfold file_mds in *; cbn [flat_map pitem_mds app]; exact P6|].
        cbn [exp_att exp_md exp_ci snd fst app].
        split; [|split; [exact P8|split; [exact P9|]]].
        2:{ change (py_expected (PIAttach (att_set a data) crc :: ps))
              with (PAttachment (py_attachment (att_set a data) (a_data (att_set a data))) :: py_expected ps).
            constructor; [exact I|exact P10]. }
        constructor; [|exact P7].
        destruct Wt as (W1 & W2 & W3 & W4 & U1 & U2 & W5 & W6). cbn [fst snd att_set a_log a_create a_name a_media a_size a_data] in W1, W2, W3, W4, U1, U2, W5, W6.
        split; [|split; assumption].
        unfold wf_attindex. cbn [ai_offset ai_length ai_log ai_create ai_size ai_name ai_media render_item].
        rewrite blen_frame.
        unfold two63, two64, two32 in *. repeat split; try assumption; lia.
    + (* metadata *)
      cbn [chunks_ok] in HK.
      cbn [flat1 all_records flat_map item_records app filter ComposeFacts.is_att] in EA, EM, ET.
      change (is_auto (CR OpMetadata (enc_metadata m))) with false in EA.
      change (is_op OpMetadata (CR OpMetadata (enc_metadata m))) with true in EM. cbv iota in EA, EM. cbn [app] in EA, EM.
      destruct M as [|m' M']; [discriminate|]. cbn [map] in EM. apply cr_cons_inj in EM. destruct EM as (_ & E1 & EM).
      inversion WM as [|? ? Wm WM']; subst.
      destruct (IH n _ A M' T HD' HK HS' Hoff' EA EM ET WA WM' WT) as (ps & P1 & P2 & P3 & P4 & P5 & P6 & P7 & P8 & P9 & P10).
      exists (PIRec (PMetadata m') :: ps).
      pose proof (Forall_inv HSx) as Hsm. unfold item_small in Hsm. cbn [render_item] in Hsm. rewrite blen_frame in Hsm.
      split; [cbn [map flat1 app pitem_bytes rec_op rec_body render_item]; rewrite <- E1, P1; reflexivity|].
      split; [constructor; [|exact P2]|].
      { intro v. split; [cbn [rec_body]; rewrite <- E1; lia|]. split; [exact Wm|reflexivity]. }
      split; [constructor; [split; reflexivity|exact P3]|].
      split; [change (py_expected (PIRec (PMetadata m') :: ps)) with (PMetadata (py_metadata m') :: py_expected ps);
              cbn [filter scm]; exact P4|].
      split; [unfold file_atts in *; cbn [flat_map pitem_atts app]; exact P5|].
      split; [unfold file_mds in *; cbn [flat_map pitem_mds app]; rewrite P6; reflexivity|].
      cbn [exp_att exp_md exp_ci snd fst app].
      split; [exact P7|]. split; [|split; [exact P9|]].
      2:{ change (py_expected (PIRec (PMetadata m') :: ps)) with (PMetadata (py_metadata m') :: py_expected ps).
          constructor; [exact I|exact P10]. }
      constructor; [|exact P8].
      assert (En : md_name m = md_name m').
      { apply enc_metadata_name; [lia|apply Wm|exact E1]. }
      destruct Wm as (W1 & U1 & _). split; [|cbn [mx_name]; rewrite En; exact U1].
      unfold wf_mdindex. cbn [mx_offset mx_length mx_name]. rewrite En, blen_frame.
      cbn [flat1] in Hoff. unfold offset_of in Hoff. rewrite rendered_one in Hoff. cbn [render_item] in Hoff.
      rewrite blen_frame in Hoff.
      unfold two63, two64, two32 in *. repeat split; try assumption; lia.
    + (* chunk with its message indexes *)
      cbn [chunks_ok] in HK. destruct HK as [HK1 HK2]. cbn [data_sitem] in Hx.
      destruct HK1 as (recs & Hr & Hu & Hne & Hc & Hcrc & _ & _).
      rewrite Hid in Hr. rewrite (Hunc Hx) in Hc.
      cbn [flat1] in HSx. inversion HSx as [|? ? Hsk HSm]; subst. unfold item_small in Hsk.
      cbn [render_item] in Hsk. rewrite blen_frame in Hsk. unfold enc_chunk in Hsk. rewrite PyReadFacts.blen_app in Hsk.
      rewrite plain_of_frames in Hr.
      assert (Hsmall : Forall (fun r => blen (snd r) < two64) (map cpair recs)).
      { apply Forall_forall. intros r Hin. pose proof (frames_body_le r _ Hin) as L. rewrite <- Hr in L.
        unfold two32, two64 in *. lia. }
      cbn [flat1] in EA, EM, ET. rewrite !(all_records_cons uid (IChunk k)) in EA, EM, ET.
      rewrite (chunk_item_records k _ Hr Hsmall) in EA, EM, ET.
      rewrite !filter_app in EA, EM, ET.
      destruct (mi_records_none mis) as (N1 & N2 & N3). rewrite N1 in EA. rewrite N2 in ET. rewrite N3 in EM.
      rewrite app_nil_r in EA, EM, ET.
      (* the typed records of this chunk are a prefix of A *)
      assert (Hcls : filter is_auto (map cr_of (map cpair recs)) = map cr_of (map cpair recs) /\
                     filter ComposeFacts.is_att (map cr_of (map cpair recs)) = [] /\
                     filter (is_op OpMetadata) (map cr_of (map cpair recs)) = []).
      { clear. induction recs as [|r recs (I1 & I2 & I3)]; [repeat split|]. cbn [map filter]. rewrite I1, I2, I3.
        destruct r; repeat split. }
      destruct Hcls as (C1 & C2 & C3). rewrite C1 in EA. rewrite C2 in ET. rewrite C3 in EM. cbn [app] in ET, EM.
      destruct (map_eq_app_inv _ _ _ _ (eq_sym EA)) as [EA1 EA2].
      set (nk := length (map cr_of (map cpair recs))) in *.
      set (Ak := firstn nk A) in *. set (A' := skipn nk A) in *.
      assert (EAk : map apair Ak = map cpair recs).
      { apply map_cr_of_inj. rewrite map_map. exact EA1. }
      assert (HA : A = Ak ++ A') by (symmetry; apply firstn_skipn).
      assert (WAk : Forall arec_ok Ak /\ Forall arec_ok A').
      { rewrite HA in WA. apply Forall_app in WA. exact WA. }
      destruct WAk as [WAk WA'].
      rewrite <- EAk in Hr.
      destruct (IH (S n) _ A' M T HD' HK2 HS' Hoff' (eq_sym EA2) EM ET WA' WM WT) as (ps & P1 & P2 & P3 & P4 & P5 & P6 & P7 & P8 & P9 & P10).
      assert (Hu' : k_usize k = blen (k_records k)) by (rewrite Hu, plain_of_frames, <- EAk, Hr; reflexivity).
      exists (chunk_pitem k Ak :: map (fun mi => PIRec (PMsgIndex (mi_wrap mi))) mis ++ ps).
      assert (Hmi_b : map pitem_bytes (map (fun mi => PIRec (PMsgIndex (mi_wrap mi))) mis) = map render_item (map mi_item mis)).
      { rewrite !map_map. apply map_ext. intro mi. cbn [pitem_bytes rec_op rec_body mi_item render_item].
        rewrite enc_mi_wrap. reflexivity. }
      split.
      { cbn [map app]. rewrite (chunk_pitem_bytes k Ak Hr Hu' Hc). f_equal. rewrite !map_app, Hmi_b, P1. reflexivity. }
      split.
      { constructor.
        - intro v. unfold chunk_pitem. split.
          + pose proof (chunk_pitem_bytes k Ak Hr Hu' Hc) as B. unfold chunk_pitem in B. cbn [pitem_bytes render_item] in B.
            pose proof (f_equal blen B) as B'. rewrite !blen_frame in B'. unfold enc_chunk at 2 in B'.
            rewrite PyReadFacts.blen_app in B'. lia.
          + split; [apply mod64_lt|]. split; [apply mod64_lt|]. split.
            * rewrite Hcrc. destruct (o_crc o); [apply crc32_bound|reflexivity].
            * intros _. split.
              -- apply Forall_forall. intros i Hi. apply in_map_iff in Hi. destruct Hi as (a & <- & Ha).
                 rewrite Forall_forall in WAk. apply (pwf_inner_ninner a Ak (WAk a Ha) Ha).
                 rewrite <- Hr. unfold two32, two63 in *. lia.
              -- intros _. rewrite Hcrc, chunk_bytes_ninner, plain_of_frames, <- EAk.
                 destruct (o_crc o); [right|left]; reflexivity.
        - apply Forall_app. split; [|exact P2].
          apply Forall_forall. intros p Hp. apply in_map_iff in Hp. destruct Hp as (mi & <- & Hmi).
          rewrite Forall_forall in HSm. specialize (HSm (mi_item mi) (in_map mi_item _ _ Hmi)).
          unfold item_small in HSm. cbn [mi_item render_item] in HSm. rewrite blen_frame in HSm.
          intro v. split; [cbn [rec_body]; rewrite enc_mi_wrap; lia|].
          split; [cbn [pwf_rec]; apply mi_wrap_wf; lia|reflexivity]. }
      split.
      { constructor; [split; reflexivity|]. apply Forall_app. split; [|exact P3].
        apply Forall_forall. intros p Hp. apply in_map_iff in Hp. destruct Hp as (mi & <- & _). split; reflexivity. }
      assert (Hmi_e : forall f, (forall mi, f (PMsgIndex (mi_wrap mi)) = false) ->
                filter f (py_expected (map (fun mi => PIRec (PMsgIndex (mi_wrap mi))) mis)) = []).
      { intros f Hf. clear - Hf. induction mis as [|mi mis IHm]; [reflexivity|].
        cbn [map]. change (py_expected (?p :: ?l)) with (pitem_recs false p ++ py_expected l).
        cbn [pitem_recs py_norm app filter]. rewrite Hf. exact IHm. }
      split.
      { change (py_expected (chunk_pitem k Ak :: ?l)) with (chunk_recs (map ninner Ak) ++ py_expected l).
        unfold py_expected. rewrite py_expected_app. fold py_expected.
        rewrite chunk_recs_ninner, !filter_app, filter_scm_out, (Hmi_e scm) by reflexivity.
        rewrite P4, HA, map_app. reflexivity. }
      split.
      { unfold file_atts in *. cbn [flat_map pitem_atts chunk_pitem app]. rewrite flat_map_app, P5.
        replace (flat_map pitem_atts (map (fun mi => PIRec (PMsgIndex (mi_wrap mi))) mis)) with (@nil attachment); [reflexivity|].
        clear. induction mis; [reflexivity|assumption]. }
      split.
      { unfold file_mds in *. cbn [flat_map pitem_mds chunk_pitem app]. rewrite flat_map_app, P6.
        replace (flat_map pitem_mds (map (fun mi => PIRec (PMsgIndex (mi_wrap mi))) mis)) with (@nil metadata); [reflexivity|].
        clear. induction mis; [reflexivity|assumption]. }
      cbn [exp_att exp_md exp_ci snd fst app].
      split; [exact P7|]. split; [exact P8|]. split; [constructor; [exact Hc|exact P9]|].
      change (py_expected (chunk_pitem k Ak :: ?l)) with (chunk_recs (map ninner Ak) ++ py_expected l).
      unfold py_expected. rewrite py_expected_app. fold py_expected. rewrite chunk_recs_ninner.
      apply Forall_app. split; [|apply Forall_app; split; [|exact P10]].
      * apply Forall_forall. intros r0 Hr0. apply in_map_iff in Hr0. destruct Hr0 as (a & <- & _). destruct a; exact I.
      * clear. induction mis as [|mi mis IHm]; [constructor|]. cbn [map].
        change (py_expected (?p :: ?l)) with (pitem_recs false p ++ py_expected l).
        cbn [pitem_recs py_norm app]. constructor; [exact I|exact IHm].
Qed.
End Data.

(* no DataEnd record inside the data section (chunk contents included) *)
Lemma D_no_dataend o compress (Hid : forall i b, compress i b = b) : forall D n,
  Forall (data_sitem o) D -> chunks_ok o compress n D -> Forall item_small (flatten D) ->
  Forall (fun r => ComposeFacts.is_dataend r = false) (all_records uid (flatten D)).
Proof.
  induction D as [|x D IH]; intros n HD HK HS; [constructor|].
  inversion HD as [|? ? Hx HD']; subst.
  change (flatten (x :: D)) with (flat1 x ++ flatten D) in *.
  apply Forall_app in HS. destruct HS as [HSx HS'].
  rewrite all_records_app. apply Forall_app.
  destruct x as [it|m|k mis].
  - cbn [chunks_ok] in HK. split; [|exact (IH n HD' HK HS')].
    destruct it as [|op body|k|a data crc|ss sos crc]; cbn [data_sitem] in Hx; try contradiction.
    + destruct Hx as [_ Hop]. cbn [flat1 all_records flat_map item_records app]. constructor; [|constructor].
      destruct Hop as [->|[->| ->]]; reflexivity.
    + cbn [flat1 all_records flat_map item_records app]. constructor; [reflexivity|constructor].
  - cbn [chunks_ok] in HK. split; [|exact (IH n HD' HK HS')].
    cbn [flat1 all_records flat_map item_records app]. constructor; [reflexivity|constructor].
  - cbn [chunks_ok] in HK. destruct HK as [HK1 HK2]. split; [|exact (IH (S n) HD' HK2 HS')].
    destruct HK1 as (recs & Hr & _). rewrite Hid, plain_of_frames in Hr.
    cbn [flat1] in HSx. pose proof (Forall_inv HSx) as Hsk. unfold item_small in Hsk.
    cbn [render_item] in Hsk. rewrite blen_frame in Hsk. unfold enc_chunk in Hsk. rewrite PyReadFacts.blen_app in Hsk.
    assert (Hsmall : Forall (fun r => blen (snd r) < two64) (map cpair recs)).
    { apply Forall_forall. intros r Hin. pose proof (frames_body_le r _ Hin) as L. rewrite <- Hr in L.
      unfold two32, two64 in *. lia. }
    cbn [flat1]. rewrite (all_records_cons uid (IChunk k)), (chunk_item_records k _ Hr Hsmall).
    apply Forall_app. split.
    + clear. induction recs as [|r recs IHr]; [constructor|]. cbn [map]. constructor; [destruct r; reflexivity|exact IHr].
    + clear. induction mis as [|mi mis IHm]; [constructor|]. cbn [map all_records flat_map mi_item item_records app].
      constructor; [reflexivity|exact IHm].
Qed.

(* the typed content of well-formed, UTF-8 clean calls is what the Python record readers accept *)
Lemma kvs_ok_of m : wf_kvs m -> kvs_utf8 m -> Forall kv_ok m.
Proof.
  intros [_ H1] H2. unfold kvs_utf8 in H2. rewrite Forall_forall in *. intros kv Hkv. specialize (H1 kv Hkv). specialize (H2 kv Hkv).
  destruct H2 as [U1 U2]. split; [exact H1|split; assumption].
Qed.

Lemma schema_call_ok sc : call_wf (CSchema sc) -> call_utf8 (CSchema sc) -> pwf_schema sc.
Proof. cbn [call_wf call_utf8]. intros W [U1 U2]. split; [exact W|split; assumption]. Qed.

Lemma channel_call_ok c : call_wf (CChannel c) -> call_utf8 (CChannel c) -> pwf_channel c.
Proof.
  cbn [call_wf call_utf8]. intros (W1 & W2 & W3 & W4 & W5 & W6) (U1 & U2 & U3).
  unfold pwf_channel. repeat split; try assumption; [apply kvs_ok_of; assumption|].
  unfold enc_channel, enc_map in W6. cbv zeta in W6. rewrite !app_length in W6. unfold blen. lia.
Qed.

Lemma metadata_call_ok m : call_wf (CMetadata m) -> call_utf8 (CMetadata m) -> pwf_metadata m.
Proof.
  cbn [call_wf call_utf8]. intros ((W1 & W2 & W3) & _) (U1 & U2).
  unfold pwf_metadata. repeat split; try assumption; [apply kvs_ok_of; assumption|].
  unfold enc_metadata, enc_map in W3. cbv zeta in W3. rewrite !app_length in W3. unfold blen. lia.
Qed.

Lemma attachment_call_ok a src : call_wf (CAttachment a src) -> call_utf8 (CAttachment a src) ->
  att_ok (a, concat (as_frags src)).
Proof.
  cbn [call_wf call_utf8]. intros (W1 & W2 & W3 & W4 & W5 & W6 & W7) (U1 & U2).
  unfold att_ok, pwf_attachment. cbn [fst snd att_set a_log a_create a_name a_media a_size a_data].
  repeat split; try assumption.
  unfold attach_body in W7. rewrite !PyReadFacts.blen_app in W7. lia.
Qed.

Lemma calls_ok cs : Forall call_wf cs -> Forall call_utf8 cs ->
  Forall arec_ok (auto_recs cs) /\ Forall pwf_metadata (metadata_of cs) /\ Forall att_ok (attachments_of cs).
Proof.
  intros HW. induction HW as [|c cs Wc _ IH]; intro HU; [repeat split; constructor|].
  inversion HU as [|? ? Uc HU']; subst. destruct (IH HU') as (I1 & I2 & I3).
  unfold auto_recs, metadata_of, attachments_of in *. cbn [flat_map].
  destruct c as [h|sc|c|m|a src|m|]; cbn [app]; repeat split; try assumption; constructor; try assumption.
  - exact (schema_call_ok sc Wc Uc).
  - exact (channel_call_ok c Wc Uc).
  - exact (attachment_call_ok a src Wc Uc).
  - exact (metadata_call_ok m Wc Uc).
Qed.

(* ====================================================================================== *)
(** * 2d. iter_messages: only schema, channel and message records matter; the triples in terms of the calls *)

Lemma latest_schema_scm pre id : latest_schema (filter scm pre) id = latest_schema pre id.
Proof.
  unfold latest_schema. generalize (@None schema). induction pre as [|r pre IH]; intro acc; [reflexivity|].
  cbn [filter]. destruct r; cbn [scm fold_left]; apply IH.
Qed.
Lemma latest_channel_scm pre id : latest_channel (filter scm pre) id = latest_channel pre id.
Proof.
  unfold latest_channel. generalize (@None channel). induction pre as [|r pre IH]; intro acc; [reflexivity|].
  cbn [filter]. destruct r; cbn [scm fold_left]; apply IH.
Qed.

Lemma msg_triple_scm flt pre m : msg_triple flt (filter scm pre) m = msg_triple flt pre m.
Proof.
  unfold msg_triple. rewrite latest_channel_scm. destruct (latest_channel pre (m_chan m)) as [c|]; [|reflexivity].
  rewrite latest_schema_scm. reflexivity.
Qed.

Lemma filter_scm_snoc pre r : filter scm (pre ++ [r]) = filter scm pre ++ (if scm r then [r] else []).
Proof. rewrite filter_app. cbn [filter]. destruct (scm r); reflexivity. Qed.

Lemma msgs_spec_scm flt rs : forall pre, msgs_spec flt (filter scm pre) (filter scm rs) = msgs_spec flt pre rs.
Proof.
  induction rs as [|r rs IH]; intro pre; [reflexivity|]. cbn [msgs_spec]. rewrite <- (IH (pre ++ [r])), filter_scm_snoc.
  cbn [filter]. destruct r; cbn [scm msgs_spec app]; rewrite ?app_nil_r; try reflexivity.
  rewrite msg_triple_scm. reflexivity.
Qed.

Lemma refs_ok_scm rs : forall pre, refs_ok (filter scm pre) (filter scm rs) = refs_ok pre rs.
Proof.
  induction rs as [|r rs IH]; intro pre; [reflexivity|]. cbn [refs_ok]. rewrite <- (IH (pre ++ [r])), filter_scm_snoc.
  cbn [filter]. destruct r; cbn [scm refs_ok andb]; rewrite ?app_nil_r, ?latest_schema_scm, ?latest_channel_scm; reflexivity.
Qed.

Lemma latest_channel_out L : forall id x, latest_channel (map arec_out L) id = Some x ->
  exists c, x = py_channel c /\ In (AChannel c) L /\ c_id c = id.
Proof.
  induction L as [|a L IH] using rev_ind; intros id x H; [discriminate H|].
  rewrite map_app in H. cbn [map] in H. rewrite latest_channel_snoc in H.
  assert (K : latest_channel (map arec_out L) id = Some x -> exists c, x = py_channel c /\ In (AChannel c) (L ++ [a]) /\ c_id c = id).
  { intro H'. destruct (IH _ _ H') as (c & E1 & E2 & E3). exists c. split; [exact E1|]. split; [apply in_or_app; left; exact E2|exact E3]. }
  destruct a as [sc|c|m]; cbn [arec_out arec_prec py_norm] in H; try (apply K; exact H).
  change (c_id (py_channel c)) with (c_id c) in H. destruct (N.eqb_spec (c_id c) id) as [E|E]; [|apply K; exact H].
  injection H as <-. exists c. split; [reflexivity|]. split; [apply in_or_app; right; left; reflexivity|exact E].
Qed.
Lemma latest_schema_out L : forall id x, latest_schema (map arec_out L) id = Some x ->
  In (ASchema x) L /\ s_id x = id.
Proof.
  induction L as [|a L IH] using rev_ind; intros id x H; [discriminate H|].
  rewrite map_app in H. cbn [map] in H. rewrite latest_schema_snoc in H.
  assert (K : latest_schema (map arec_out L) id = Some x -> In (ASchema x) (L ++ [a]) /\ s_id x = id).
  { intro H'. destruct (IH _ _ H') as (E2 & E3). split; [apply in_or_app; left; exact E2|exact E3]. }
  destruct a as [sc|c|m]; cbn [arec_out arec_prec py_norm] in H; try (apply K; exact H).
  destruct (N.eqb_spec (s_id sc) id) as [E|E]; [|apply K; exact H].
  injection H as <-. split; [apply in_or_app; right; left; reflexivity|exact E].
Qed.
Lemma latest_channel_some L c : In (AChannel c) L -> latest_channel (map arec_out L) (c_id c) <> None.
Proof.
  induction L as [|a L IH] using rev_ind; intro H; [destruct H|].
  rewrite map_app. cbn [map]. rewrite latest_channel_snoc. apply in_app_or in H.
  destruct a as [sc|c'|m]; cbn [arec_out arec_prec py_norm];
    try (destruct H as [H|[H|[]]]; [apply IH; exact H|discriminate H]).
  change (c_id (py_channel c')) with (c_id c'). destruct (N.eqb_spec (c_id c') (c_id c)) as [E|E]; [discriminate|].
  destruct H as [H|[H|[]]]; [apply IH; exact H|]. injection H as ->. contradiction.
Qed.
Lemma latest_schema_some L sc : In (ASchema sc) L -> latest_schema (map arec_out L) (s_id sc) <> None.
Proof.
  induction L as [|a L IH] using rev_ind; intro H; [destruct H|].
  rewrite map_app. cbn [map]. rewrite latest_schema_snoc. apply in_app_or in H.
  destruct a as [sc'|c'|m]; cbn [arec_out arec_prec py_norm];
    try (destruct H as [H|[H|[]]]; [apply IH; exact H|discriminate H]).
  destruct (N.eqb_spec (s_id sc') (s_id sc)) as [E|E]; [discriminate|].
  destruct H as [H|[H|[]]]; [apply IH; exact H|]. injection H as ->. contradiction.
Qed.

(* what iter_messages yields for a message call: its channel and that channel's schema as the calls
   registered them (py_channel: the metadata dict in the order Go wrote the pairs) *)
Definition go_triple (cs : list wcall) (flt : mfilter) (m : message) : list triple :=
  match call_chan cs (m_chan m) with
  | Some c =>
    if msg_selected flt (py_channel c) m
    then [(if c_schema c =? 0 then None else call_schema cs (c_schema c), py_channel c, m)]
    else []
  | None => []
  end.
Definition go_msgs (cs : list wcall) (flt : mfilter) : list triple := flat_map (go_triple cs flt) (messages_of cs).

Section Msgs.
Variable cs : list wcall.
Variable flt : mfilter.

Lemma msgs_arec : forall A2 A1 chs schs,
  (forall id, In id chs -> exists c, In (AChannel c) A1 /\ c_id c = id) ->
  (forall id, In id schs -> exists sc, In (ASchema sc) A1 /\ s_id sc = id) ->
  (forall c, In (AChannel c) A1 -> c_schema c = 0 \/ exists sc, In (ASchema sc) A1 /\ s_id sc = c_schema c) ->
  (forall c, In (AChannel c) (A1 ++ A2) -> call_chan cs (c_id c) = Some c) ->
  (forall sc, In (ASchema sc) (A1 ++ A2) -> call_schema cs (s_id sc) = Some sc) ->
  scoped chs schs A2 ->
  msgs_spec flt (map arec_out A1) (map arec_out A2) = flat_map (go_triple cs flt) (amsgs A2) /\
  refs_ok (map arec_out A1) (map arec_out A2) = true.
Proof.
  induction A2 as [|a A2 IH]; intros A1 chs schs I1 I2 I3 G1 G2 HS; [split; reflexivity|].
  assert (EA : (A1 ++ [a]) ++ A2 = A1 ++ a :: A2) by (rewrite <- app_assoc; reflexivity).
  assert (Hmap : map arec_out A1 ++ [arec_out a] = map arec_out (A1 ++ [a])) by (rewrite map_app; reflexivity).
  cbn [map msgs_spec refs_ok]. rewrite Hmap.
  destruct a as [sc|c|m]; cbn [scoped] in HS.
  - (* schema *)
    destruct (IH (A1 ++ [ASchema sc]) chs (s_id sc :: schs)) as [R1 R2]; try (rewrite EA; assumption); try exact HS.
    + intros id Hid. destruct (I1 id Hid) as (c & C1 & C2). exists c. split; [apply in_or_app; left; exact C1|exact C2].
    + intros id [<-|Hid]; [exists sc; split; [apply in_or_app; right; left; reflexivity|reflexivity]|].
      destruct (I2 id Hid) as (x & C1 & C2). exists x. split; [apply in_or_app; left; exact C1|exact C2].
    + intros c Hc. apply in_app_or in Hc. destruct Hc as [Hc|[Hc|[]]]; [|discriminate Hc].
      destruct (I3 c Hc) as [Z|(x & C1 & C2)]; [left; exact Z|right]. exists x. split; [apply in_or_app; left; exact C1|exact C2].
    + cbn [arec_out arec_prec py_norm app amsgs flat_map]. fold (amsgs A2). split; [exact R1|exact R2].
  - (* channel *)
    destruct HS as [Hsch HS].
    destruct (IH (A1 ++ [AChannel c]) (c_id c :: chs) schs) as [R1 R2]; try (rewrite EA; assumption); try exact HS.
    + intros id [<-|Hid]; [exists c; split; [apply in_or_app; right; left; reflexivity|reflexivity]|].
      destruct (I1 id Hid) as (x & C1 & C2). exists x. split; [apply in_or_app; left; exact C1|exact C2].
    + intros id Hid. destruct (I2 id Hid) as (x & C1 & C2). exists x. split; [apply in_or_app; left; exact C1|exact C2].
    + intros c' Hc. apply in_app_or in Hc. destruct Hc as [Hc|[Hc|[]]].
      * destruct (I3 c' Hc) as [Z|(x & C1 & C2)]; [left; exact Z|right]. exists x. split; [apply in_or_app; left; exact C1|exact C2].
      * injection Hc as <-. destruct Hsch as [Z|Hin]; [left; exact Z|right].
        destruct (I2 _ Hin) as (x & C1 & C2). exists x. split; [apply in_or_app; left; exact C1|exact C2].
    + cbn [arec_out arec_prec py_norm app amsgs flat_map]. fold (amsgs A2). split; [exact R1|].
      change (c_schema (py_channel c)) with (c_schema c). rewrite R2, andb_true_r.
      destruct Hsch as [Z|Hin]; [rewrite Z; reflexivity|].
      destruct (I2 _ Hin) as (x & C1 & C2). pose proof (latest_schema_some A1 x C1) as NS. rewrite C2 in NS.
      destruct (latest_schema (map arec_out A1) (c_schema c)); [apply orb_true_r|contradiction].
  - (* message *)
    destruct HS as [Hch HS].
    destruct (IH (A1 ++ [AMessage m]) chs schs) as [R1 R2]; try (rewrite EA; assumption); try exact HS.
    + intros id Hid. destruct (I1 id Hid) as (x & C1 & C2). exists x. split; [apply in_or_app; left; exact C1|exact C2].
    + intros id Hid. destruct (I2 id Hid) as (x & C1 & C2). exists x. split; [apply in_or_app; left; exact C1|exact C2].
    + intros c Hc. apply in_app_or in Hc. destruct Hc as [Hc|[Hc|[]]]; [|discriminate Hc].
      destruct (I3 c Hc) as [Z|(x & C1 & C2)]; [left; exact Z|right]. exists x. split; [apply in_or_app; left; exact C1|exact C2].
    + cbn [arec_out arec_prec py_norm amsgs flat_map]. fold (amsgs A2). rewrite R1, R2, andb_true_r.
      destruct (I1 _ Hch) as (c0 & C1 & C2).
      pose proof (latest_channel_some A1 c0 C1) as NC. rewrite C2 in NC.
      destruct (latest_channel (map arec_out A1) (m_chan m)) as [x|] eqn:LC; [|contradiction].
      destruct (latest_channel_out A1 _ _ LC) as (c & -> & Hc & Hcid).
      split; [|reflexivity]. rewrite flat_map_app. cbn [flat_map]. rewrite app_nil_r. f_equal.
      unfold msg_triple, go_triple. rewrite LC.
      rewrite <- Hcid, (G1 c (in_or_app _ _ _ (or_introl Hc))).
      change (c_schema (py_channel c)) with (c_schema c).
      destruct (msg_selected flt (py_channel c) m); [|reflexivity].
      destruct (N.eqb_spec (c_schema c) 0) as [Z|NZ]; [reflexivity|].
      destruct (I3 c Hc) as [Z|(x & X1 & X2)]; [contradiction|].
      pose proof (latest_schema_some A1 x X1) as NS. rewrite X2 in NS.
      destruct (latest_schema (map arec_out A1) (c_schema c)) as [y|] eqn:LS; [|contradiction].
      destruct (latest_schema_out A1 _ _ LS) as (Hy & Hyid).
      rewrite <- Hyid, (G2 y (in_or_app _ _ _ (or_introl Hy))). reflexivity.
Qed.
End Msgs.

(* ====================================================================================== *)
(** * 3. the run *)

Lemma eff_flags o :
  let eo := effective_opts o in
  o_crc eo = o_crc o /\ o_chunked eo = o_chunked o /\ o_comp eo = o_comp o /\ o_skip_magic eo = o_skip_magic o /\
  o_skip_stats eo = o_skip_stats o.
Proof. unfold effective_opts. destruct (_ && _); repeat split. Qed.

Definition is_de_item (it : item) : Prop := match it with IRec op _ => op = OpDataEnd | _ => False end.

(* the summary section, typed *)
Definition sum_recs (sch : list schema) (chs : list channel) (sts : list statistics)
  (cis : list chunkindex) (ais : list attindex) (mxs : list mdindex) (offs : list sumoffset) : list prec :=
  map PSchema sch ++ map PChannel chs ++ map (fun st => PStatistics (st_wrap st)) sts ++
  map (fun ci => PChunkIndex (ci_wrap ci)) cis ++ map PAttIndex ais ++ map PMdIndex mxs ++ map PSumOffset offs.

Lemma sum_recs_bytes sch chs sts cis ais mxs offs :
  map pitem_bytes (map PIRec (sum_recs sch chs sts cis ais mxs offs))
  = map render_item
      (sum_items [(OpSchema, map enc_schema sch); (OpChannel, map enc_channel chs);
                  (OpStatistics, map enc_statistics sts); (OpChunkIndex, map enc_chunkindex cis);
                  (OpAttachmentIndex, map enc_attindex ais); (OpMetadataIndex, map enc_mdindex mxs)]
       ++ map so_item offs).
Proof.
  unfold sum_recs. cbn [sum_items flat_map]. rewrite app_nil_r. unfold group_items. cbn [fst snd].
  rewrite !map_app, !map_map. rewrite <- !app_assoc.
  repeat (apply (f_equal2 (@app bytes)); [apply map_ext; intro x; cbn [pitem_bytes rec_op rec_body render_item so_item];
                    rewrite ?enc_st_wrap, ?enc_ci_wrap; reflexivity|]).
  apply map_ext. intro x. reflexivity.
Qed.

(* the typed description of a whole file *)
Definition go_ps (h : header) (dps : list pitem) (c1 : N) (srs : list prec) (ft : footer) : list pitem :=
  PIRec (PHeader h) :: dps ++ PIRec (PDataEnd {| de_crc := c1 |}) :: map PIRec srs ++ [PIRec (PFooter ft)].

Definition sum_rec_ok (r : prec) : Prop :=
  pwf_rec r /\ blen (rec_body r) <= two32 /\ PyReadFacts.is_chunk r = false /\
  is_footer_item (PIRec r) = false /\ is_dataend_item (PIRec r) = false.

Lemma Forall_map_eq {A B C} (P : C -> Prop) (f : A -> C) (g : B -> C) l l' :
  map f l = map g l' -> Forall (fun y => P (g y)) l' -> Forall (fun x => P (f x)) l.
Proof. intros E H. apply Forall_map. rewrite E. apply Forall_map. exact H. Qed.

Lemma mk_summary_nil a b c d e f : mk_summary a b c d e f = [] <-> sum_recs a b c d e f [] = [].
Proof. destruct a, b, c, d, e, f; cbn; split; intro H; try discriminate H; reflexivity. Qed.

(* ---------- what Python reports for a typed file ---------- *)
Lemma go_ps_expected h dps c1 srs ft :
  py_expected (go_ps h dps c1 srs ft)
  = PHeader h :: py_expected dps ++ PDataEnd {| de_crc := c1 |} :: map py_norm srs ++ [PFooter ft].
Proof.
  unfold go_ps, py_expected, py_expected_gen. cbn [flat_map pitem_recs py_norm app]. f_equal.
  rewrite flat_map_app. f_equal. cbn [flat_map pitem_recs py_norm app]. f_equal.
  rewrite flat_map_app. f_equal.
  clear. induction srs as [|r srs IH]; [reflexivity|]. cbn [map flat_map pitem_recs app]. rewrite IH. reflexivity.
Qed.

(* records that carry neither attachments, metadata nor messages *)
Definition plain_rec (r : prec) : Prop :=
  match r with PAttachment _ | PMetadata _ | PMessage _ | PFooter _ => False | _ => True end.

Lemma sum_recs_plain sch chs sts cis ais mxs offs : Forall plain_rec (sum_recs sch chs sts cis ais mxs offs).
Proof.
  unfold sum_recs. repeat (apply Forall_app; split); apply Forall_forall; intros r Hr; apply in_map_iff in Hr;
    destruct Hr as (x & <- & _); exact I.
Qed.

Lemma plain_no_att srs : Forall plain_rec srs -> flat_map pitem_atts (map PIRec srs) = [].
Proof. induction 1 as [|r srs Hr _ IH]; [reflexivity|]. cbn [map flat_map]. rewrite IH. destruct r; try reflexivity; destruct Hr. Qed.
Lemma plain_no_md srs : Forall plain_rec srs -> flat_map pitem_mds (map PIRec srs) = [].
Proof. induction 1 as [|r srs Hr _ IH]; [reflexivity|]. cbn [map flat_map]. rewrite IH. destruct r; try reflexivity; destruct Hr. Qed.

Lemma go_ps_atts h dps c1 srs ft : Forall plain_rec srs -> file_atts (go_ps h dps c1 srs ft) = file_atts dps.
Proof.
  intro H. unfold file_atts, go_ps. cbn [flat_map pitem_atts app]. rewrite flat_map_app. cbn [flat_map pitem_atts app].
  rewrite flat_map_app, (plain_no_att srs H). cbn [flat_map pitem_atts app]. rewrite app_nil_r. reflexivity.
Qed.
Lemma go_ps_mds h dps c1 srs ft : Forall plain_rec srs -> file_mds (go_ps h dps c1 srs ft) = file_mds dps.
Proof.
  intro H. unfold file_mds, go_ps. cbn [flat_map pitem_mds app]. rewrite flat_map_app. cbn [flat_map pitem_mds app].
  rewrite flat_map_app, (plain_no_md srs H). cbn [flat_map pitem_mds app]. rewrite app_nil_r. reflexivity.
Qed.

Lemma sum_recs_scm sch chs sts cis ais mxs offs :
  filter scm (map py_norm (sum_recs sch chs sts cis ais mxs offs)) = map arec_out (map ASchema sch ++ map AChannel chs).
Proof.
  unfold sum_recs. rewrite !map_app, !filter_app, !map_map.
  assert (N : forall {A} (f : A -> prec) (l : list A), (forall x, scm (py_norm (f x)) = false) ->
              filter scm (map (fun x => py_norm (f x)) l) = []).
  { intros A f l Hf. induction l as [|x l IH]; [reflexivity|]. cbn [map filter]. rewrite Hf. exact IH. }
  rewrite (N _ (fun st => PStatistics (st_wrap st))), (N _ (fun ci => PChunkIndex (ci_wrap ci))), (N _ PAttIndex),
    (N _ PMdIndex), (N _ PSumOffset) by reflexivity.
  rewrite !app_nil_r. f_equal.
  - induction sch as [|x l IH]; [reflexivity|]. cbn [map filter]. change (scm (py_norm (PSchema x))) with true.
    cbv iota. f_equal. exact IH.
  - induction chs as [|x l IH]; [reflexivity|]. cbn [map filter]. change (scm (py_norm (PChannel x))) with true.
    cbv iota. f_equal. exact IH.
Qed.

Lemma call_chan_consistent cs c : ids_consistent cs -> In (CChannel c) cs -> call_chan cs (c_id c) = Some c.
Proof.
  intros [HC _] Hin. unfold call_chan. destruct (find _ _) as [c1|] eqn:E.
  - apply find_some in E. destruct E as [E1 E2]. apply N.eqb_eq in E2. apply in_channel_calls in E1.
    f_equal. apply HC; assumption.
  - pose proof (find_none _ _ E c (proj2 (in_channel_calls c cs) Hin)) as X. cbv beta in X. rewrite N.eqb_refl in X. discriminate.
Qed.
Lemma call_schema_consistent cs sc : ids_consistent cs -> In (CSchema sc) cs -> call_schema cs (s_id sc) = Some sc.
Proof.
  intros [_ HC] Hin. unfold call_schema. destruct (find _ _) as [c1|] eqn:E.
  - apply find_some in E. destruct E as [E1 E2]. apply N.eqb_eq in E2. apply in_schema_calls in E1.
    f_equal. apply HC; assumption.
  - pose proof (find_none _ _ E sc (proj2 (in_schema_calls sc cs) Hin)) as X. cbv beta in X. rewrite N.eqb_refl in X. discriminate.
Qed.

Section Run.
Variable o : wopts.
Variable lib : bytes.
Variable compress : nat -> bytes -> bytes.
Variable hd : header.
Variable cs : list wcall.

Let eo := effective_opts o.
Let w := W o lib compress None (CHeader hd :: cs ++ [CClose]).
Let s := r_final w.
Let tr := rev (w_trace s).
Let F := file_of w.
Let hdr : header := {| h_profile := h_profile hd; h_library := header_library eo lib hd |}.

Hypothesis Hwf : Forall call_wf cs.
Hypothesis Hnh : no_header cs.
Hypothesis Hok : all_ok w.
Hypothesis Hsmall : Forall call_small cs.
Hypothesis Hid : forall i b, compress i b = b.
Hypothesis Hunc : o_chunked o = true -> o_comp o = [].
Hypothesis Hmagic : o_skip_magic o = false.
Hypothesis Hutf : Forall call_utf8 cs.
Hypothesis Hhutf : utf8_valid (h_profile hd) = true /\ utf8_valid (header_library eo lib hd) = true.
Hypothesis Hsize : blen F < two63.
Hypothesis Hitems : Forall item_small tr.

Let pre := file_prefix eo lib hd.
Let gs := summary_groups eo (xB1 eo s) (xB2 eo s) (xB3 eo s) s.

Lemma g_pre : pre = [IMagic; IRec OpHeader (enc_header hdr)].
Proof.
  unfold pre, file_prefix. destruct (eff_flags o) as (_ & _ & _ & E & _). fold eo in E. rewrite E, Hmagic. reflexivity.
Qed.

Lemma g_unc : o_chunked eo = true -> o_comp eo = [].
Proof. destruct (eff_flags o) as (_ & E1 & E2 & _). fold eo in E1, E2. rewrite E1, E2. exact Hunc. Qed.

Lemma g_file : F = render tr.
Proof. exact (run_file_is_trace o lib compress hd cs Hwf Hok). Qed.

Section WithShape.
Variable D : list sitem.
Variable de : bytes.
Variables ss sos crc : N.
Hypothesis HS : Shape o lib compress hd cs D de ss sos crc.

Let data := pre ++ flatten D ++ [IRec OpDataEnd de].
Let offs := group_offsets (offset_of data) gs.
Let off_items := if o_skip_so eo then [] else map so_item offs.
Let rest := sum_items gs ++ off_items ++ [IFooter ss sos crc; IMagic].

Lemma g_tr : tr = pre ++ flatten D ++ IRec OpDataEnd de :: rest.
Proof. exact (shape_tr o lib compress hd cs D de ss sos crc HS). Qed.

Lemma g_data_ok : Forall (data_sitem eo) D /\ chunks_ok eo compress 0 D /\
  w_chunk_indexes s = flat_map exp_ci (slocated (offset_of pre) D) /\
  w_att_indexes s = flat_map exp_att (slocated (offset_of pre) D) /\
  w_md_indexes s = flat_map exp_md (slocated (offset_of pre) D).
Proof. exact (shape_data_ok o lib compress hd cs D de ss sos crc HS). Qed.

Lemma g_items_D : Forall item_small (flatten D).
Proof.
  pose proof Hitems as H. rewrite g_tr in H. apply Forall_app in H. destruct H as [_ H].
  apply Forall_app in H. apply H.
Qed.

Lemma g_no_dataend : Forall (fun r => ComposeFacts.is_dataend r = false) (all_records uid (flatten D)).
Proof.
  destruct g_data_ok as (HD & HK & _). exact (D_no_dataend eo compress Hid D 0%nat HD HK g_items_D).
Qed.

Lemma g_classes :
  filter is_auto (all_records uid (flatten D)) = map (fun a => cr_of (apair a)) (auto_recs cs) /\
  filter ComposeFacts.is_att (all_records uid (flatten D))
    = map (fun ad => CA (fst ad) (snd ad) (crc32 (enc_attachment_fields (fst ad) ++ snd ad))) (attachments_of cs) /\
  filter (is_op OpMetadata) (all_records uid (flatten D))
    = map (fun m => CR OpMetadata (enc_metadata m)) (metadata_of cs).
Proof.
  assert (Hu : forall n plain, uid (o_comp o) (compress n plain) = plain) by (intros; apply Hid).
  assert (Hsm : Forall call_small (CHeader hd :: cs)) by (constructor; [exact I|exact Hsmall]).
  pose proof (C01_trace_classes_thm o lib compress uid (CHeader hd :: cs)
                (run_C06_hyps o lib compress hd cs Hwf Hok) Hu Hsm) as HC.
  cbv zeta in HC.
  change (rev (w_trace (r_final (W o lib compress None ((CHeader hd :: cs) ++ [CClose]))))) with tr in HC.
  assert (Edr : data_records uid tr = CR OpHeader (enc_header hdr) :: all_records uid (flatten D)).
  { unfold data_records. rewrite g_tr, g_pre. cbn [app all_records flat_map item_records].
    fold (all_records uid (flatten D ++ IRec OpDataEnd de :: rest)). rewrite all_records_app.
    cbn [all_records flat_map item_records app].
    change (CR OpHeader (enc_header hdr) :: all_records uid (flatten D) ++ CR OpDataEnd de :: flat_map (item_records uid) rest)
      with ((CR OpHeader (enc_header hdr) :: all_records uid (flatten D)) ++ CR OpDataEnd de :: flat_map (item_records uid) rest).
    apply upto_dataend_app; [constructor; [reflexivity|exact g_no_dataend]|reflexivity]. }
  rewrite Edr in HC. destruct HC as (C1 & C2 & C3 & _).
  cbn [filter is_auto auto_op call_auto] in C1. change (auto_op OpHeader) with false in C1. cbv iota in C1.
  rewrite expected_auto in C1.
  cbn [filter ComposeFacts.is_att is_attachment] in C2. rewrite expected_att in C2.
  cbn [filter is_op is_metadata] in C3. change (Byte.eqb OpHeader OpMetadata) with false in C3. cbv iota in C3.
  rewrite expected_md in C3.
  split; [exact C1|]. split; [exact C2|exact C3].
Qed.

Lemma g_render_split : blen F = offset_of pre + offset_of (flatten D) + blen (render (IRec OpDataEnd de :: rest)).
Proof.
  rewrite g_file, g_tr. change render with rendered. rewrite !rendered_app, !WriterFactsC.blen_app.
  unfold offset_of. lia.
Qed.

Lemma g_data_typed : exists dps,
  map pitem_bytes dps = map render_item (flatten D) /\
  Forall (fun p => forall v, pwf_pitem v false p) dps /\
  Forall (fun p => is_footer_item p = false /\ is_dataend_item p = false) dps /\
  filter scm (py_expected dps) = map arec_out (auto_recs cs) /\
  file_atts dps = map (fun ad => att_set (fst ad) (snd ad)) (attachments_of cs) /\
  file_mds dps = metadata_of cs /\
  Forall pwf_attindex (w_att_indexes s) /\
  Forall pwf_mdindex (w_md_indexes s) /\
  Forall (fun ci => ci_comp ci = []) (w_chunk_indexes s) /\
  Forall data_rec (py_expected dps).
Proof.
  destruct g_data_ok as (HD & HK & E1 & E2 & E3). destruct g_classes as (C1 & C2 & C3).
  destruct (calls_ok cs Hwf Hutf) as (W1 & W2 & W3).
  rewrite E1, E2, E3.
  apply (data_typed eo compress Hid g_unc D 0%nat (offset_of pre) (auto_recs cs) (metadata_of cs) (attachments_of cs)
           HD HK g_items_D); try assumption.
  pose proof g_render_split. lia.
Qed.

(* the DataEnd record carries the CRC of everything before it, or 0 *)
Lemma g_dataend : exists c1, de = enc_dataend {| de_crc := c1 |} /\
  c1 = (if o_crc o then crc32 (render (pre ++ flatten D)) else 0).
Proof.
  destruct (C06_structure_thm o lib compress (CHeader hd :: cs) (run_C06_hyps o lib compress hd cs Hwf Hok))
    as (Tpre & Tsum & ss0 & sos0 & c1 & c2 & Et & _ & Ec1 & _).
  change (rev (w_trace (r_final (W o lib compress None ((CHeader hd :: cs) ++ [CClose]))))) with tr in Et.
  rewrite g_tr, app_assoc in Et.
  assert (N1 : Forall (fun z => ~ is_de_item z) (pre ++ flatten D)).
  { apply Forall_app. split.
    - rewrite g_pre. repeat constructor; cbn; intros; discriminate || auto.
    - destruct g_data_ok as (HD & _). pose proof (data_items_kind eo D HD) as K.
      eapply Forall_impl; [|exact K]. intros it Hit. destruct it as [|op body| | |]; cbn [is_de_item]; auto.
      cbn [data_item] in Hit. intros ->. destruct Hit as [[_ [H|[H|[H|[]]]]]|[H|[_ H]]]; discriminate. }
  assert (N2 : Forall (fun z => ~ is_de_item z) rest).
  { unfold rest. apply Forall_app. split; [|apply Forall_app; split].
    - apply Forall_forall. intros it Hit. destruct (sum_items_ops _ _ _ _ _ _ Hit) as (op & body & -> & Hop).
      cbn [is_de_item]. intros ->. unfold summary_ops in Hop. cbn [In] in Hop.
      repeat (destruct Hop as [Hop|Hop]; [discriminate|]). exact Hop.
    - unfold off_items. destruct (o_skip_so eo); [constructor|]. apply Forall_forall. intros it Hit.
      apply in_map_iff in Hit. destruct Hit as (so & <- & _). cbn. discriminate.
    - repeat constructor; cbn; auto. }
  destruct (unique_split is_de_item _ _ _ _ _ _ Et N1 N2 eq_refl) as (E1 & E2 & _).
  exists c1. injection E2 as E2. split; [exact E2|]. rewrite Ec1, <- E1. reflexivity.
Qed.

(* ---------- the summary section ---------- *)
Let sch' := if o_skip_rsh eo then [] else map snd (w_schemas s).
Let chs' := if o_skip_rch eo then [] else map snd (w_channels s).
Let sts' := if o_skip_stats eo then [] else [stats_record s].
Let cis' := if o_skip_ci eo then [] else w_chunk_indexes s.
Let ais' := if o_skip_ai eo then [] else w_att_indexes s.
Let mxs' := if o_skip_mdi eo then [] else w_md_indexes s.
Let offs' := if o_skip_so eo then [] else offs.
Let srs := sum_recs sch' chs' sts' cis' ais' mxs' offs'.
Let ft := {| f_summary_start := ss; f_summary_offset_start := sos; f_crc := crc |}.

Lemma g_sum_bytes : map pitem_bytes (map PIRec srs) = map render_item (sum_items gs ++ off_items).
Proof.
  unfold srs. rewrite sum_recs_bytes. f_equal. f_equal.
  - unfold gs, summary_groups. rewrite sum_items_filter.
    unfold xB1, xB2, xB3, sch', chs', sts', cis', ais', mxs'.
    destruct (o_skip_rsh eo), (o_skip_rch eo), (o_skip_stats eo), (o_skip_ci eo), (o_skip_ai eo), (o_skip_mdi eo);
      reflexivity.
  - unfold off_items, offs'. destruct (o_skip_so eo); reflexivity.
Qed.

Lemma g_tr_mid : tr = IMagic :: (IRec OpHeader (enc_header hdr) :: flatten D ++ IRec OpDataEnd de ::
                                   (sum_items gs ++ off_items) ++ [IFooter ss sos crc]) ++ [IMagic].
Proof.
  rewrite g_tr, g_pre. unfold rest. cbn [app]. rewrite <- !app_assoc. cbn [app]. rewrite <- !app_assoc. reflexivity.
Qed.

Lemma g_sizes : Forall (fun b => blen b <= two32) (map render_item tr).
Proof. apply Forall_map. exact Hitems. Qed.

Lemma g_sum_sizes : Forall (fun r => blen (rec_body r) <= two32) srs.
Proof.
  assert (H : Forall item_small (sum_items gs ++ off_items)).
  { apply Forall_forall. intros it Hit. rewrite Forall_forall in Hitems. apply Hitems.
    rewrite g_tr. apply in_or_app; right. apply in_or_app; right. right. unfold rest. rewrite app_assoc.
    apply in_or_app. left. exact Hit. }
  pose proof g_sum_bytes as E. rewrite map_map in E.
  pose proof (Forall_map_eq (fun b => blen b <= two32) _ _ _ _ E H) as H'. cbv beta in H'.
  clear H. rename H' into H.
  eapply Forall_impl; [|exact H]. intros r Hr. cbn [pitem_bytes] in Hr. rewrite blen_frame in Hr. lia.
Qed.

Lemma g_call_in c : In c cs -> call_wf c /\ call_utf8 c.
Proof. intro H. rewrite Forall_forall in Hwf, Hutf. split; [apply Hwf|apply Hutf]; exact H. Qed.

Lemma g_sum_ok :
  Forall pwf_attindex (w_att_indexes s) -> Forall pwf_mdindex (w_md_indexes s) ->
  Forall (fun ci => ci_comp ci = []) (w_chunk_indexes s) ->
  Forall sum_rec_ok srs.
Proof.
  intros HA HM HC. pose proof g_sum_sizes as HZ. rewrite Forall_forall in HZ. apply Forall_forall. intros r Hr.
  specialize (HZ r Hr). unfold srs, sum_recs in Hr.
  repeat (apply in_app_or in Hr; destruct Hr as [Hr|Hr]); apply in_map_iff in Hr; destruct Hr as (x & <- & Hx);
    (split; [|split; [exact HZ|repeat split]]); cbn [pwf_rec].
  - unfold sch' in Hx. destruct (o_skip_rsh eo); [destruct Hx|].
    destruct (g_call_in _ (tab_schema_in o lib compress hd cs Hwf Hnh Hok x Hx)) as [W U]. exact (schema_call_ok x W U).
  - unfold chs' in Hx. destruct (o_skip_rch eo); [destruct Hx|].
    destruct (g_call_in _ (tab_channel_in o lib compress hd cs Hwf Hnh Hok x Hx)) as [W U]. exact (channel_call_ok x W U).
  - apply st_wrap_wf. cbn [rec_body] in HZ. rewrite enc_st_wrap in HZ. exact HZ.
  - unfold cis' in Hx. destruct (o_skip_ci eo); [destruct Hx|]. rewrite Forall_forall in HC. specialize (HC x Hx).
    split; [|unfold u8; cbn [ci_wrap ci_comp]; rewrite HC; reflexivity].
    apply ci_wrap_wf; [cbn [rec_body] in HZ; rewrite enc_ci_wrap in HZ; exact HZ|rewrite HC; reflexivity].
  - unfold ais' in Hx. destruct (o_skip_ai eo); [destruct Hx|]. rewrite Forall_forall in HA. exact (HA x Hx).
  - unfold mxs' in Hx. destruct (o_skip_mdi eo); [destruct Hx|]. rewrite Forall_forall in HM. exact (HM x Hx).
  - pose proof g_render_split as HR.
    revert Hx. unfold offs'. case (o_skip_so eo); intro Hx; [destruct Hx|]. unfold offs in Hx.
    destruct (group_offsets_split _ _ _ Hx) as (g1 & g & g2 & Eg & _ & Es & El).
    unfold rest in HR. rewrite Eg in HR.
    change (IRec OpDataEnd de :: sum_items (g1 ++ g :: g2) ++ off_items ++ [IFooter ss sos crc; IMagic])
      with ([IRec OpDataEnd de] ++ sum_items (g1 ++ g :: g2) ++ off_items ++ [IFooter ss sos crc; IMagic]) in HR.
    change render with rendered in HR. rewrite !rendered_app, !WriterFactsC.blen_app in HR.
    rewrite sum_items_app in HR. change (sum_items (g :: g2)) with (group_items g ++ sum_items g2) in HR.
    rewrite !rendered_app, !WriterFactsC.blen_app in HR.
    unfold wf_sumoffset. rewrite Es, El. unfold data. unfold offset_of. rewrite !rendered_app, !WriterFactsC.blen_app.
    unfold offset_of in HR. unfold two63, two64 in *. lia.
Qed.

Lemma g_hdr_ok v : pwf_pitem v false (PIRec (PHeader hdr)).
Proof.
  assert (Hs : item_small (IRec OpHeader (enc_header hdr))).
  { rewrite Forall_forall in Hitems. apply Hitems. rewrite g_tr, g_pre. right. left. reflexivity. }
  unfold item_small in Hs. cbn [render_item] in Hs. rewrite blen_frame in Hs.
  split; [cbn [rec_body]; lia|]. split; [|reflexivity]. cbn [pwf_rec]. split; [|exact Hhutf].
  unfold wf_header. unfold enc_header, pstr in Hs. rewrite !PyReadFacts.blen_app, !PyReadFacts.blen_u32 in Hs.
  cbn [hdr h_profile h_library] in *. unfold two32 in *. lia.
Qed.

Lemma g_ft_ok v : pwf_pitem v false (PIRec (PFooter ft)).
Proof.
  split; [cbn [rec_body]; unfold enc_footer; rewrite !PyReadFacts.blen_app, !PyReadFacts.blen_u64, PyReadFacts.blen_u32; unfold two32; lia|].
  split; [|reflexivity]. cbn [pwf_rec].
  exact (ft_wf ds_id o lib compress hd cs Hwf Hok Hsize D de ss sos crc HS).
Qed.

Lemma g_ss : ss = 0 <-> sum_recs sch' chs' sts' cis' ais' mxs' [] = [].
Proof.
  rewrite <- mk_summary_nil.
  assert (E : ss = if match mk_summary sch' chs' sts' cis' ais' mxs' with [] => true | _ => false end then 0 else offset_of data)
    by exact (ss_eq o lib compress hd cs D de ss sos crc HS).
  assert (P : 0 < offset_of data) by exact (data_len_pos ds_id o lib compress hd cs Hsize D de).
  destruct (mk_summary sch' chs' sts' cis' ais' mxs'); split; intro H; try discriminate H; try exact E; try reflexivity.
  rewrite E in H. lia.
Qed.

(* the typed description of the file *)
Theorem g_typed : exists dps c1,
  let ps := go_ps hdr dps c1 srs ft in
  F = the_file ps /\
  map pitem_bytes ps = map render_item (removelast (tl tr)) /\
  (forall v, pwf_file v false ps) /\
  c1 = (if o_crc o then crc32 (magic ++ py_render (PIRec (PHeader hdr) :: dps)) else 0) /\
  Forall (fun p => forall v, pwf_pitem v false p) dps /\
  Forall (fun p => is_footer_item p = false /\ is_dataend_item p = false) dps /\
  filter scm (py_expected dps) = map arec_out (auto_recs cs) /\
  file_atts dps = map (fun ad => att_set (fst ad) (snd ad)) (attachments_of cs) /\
  file_mds dps = metadata_of cs /\
  Forall data_rec (py_expected dps) /\
  Forall sum_rec_ok srs /\
  (f_summary_start ft = 0 <-> sum_recs sch' chs' sts' cis' ais' mxs' [] = []).
Proof.
  destruct g_data_typed as (dps & P1 & P2 & P3 & P4 & P5 & P6 & P7 & P8 & P9 & P10).
  destruct g_dataend as (c1 & Ede & Ec1).
  pose proof (g_sum_ok P7 P8 P9) as HSok.
  exists dps, c1. cbv zeta.
  assert (EB : map pitem_bytes (go_ps hdr dps c1 srs ft)
               = map render_item (IRec OpHeader (enc_header hdr) :: flatten D ++ IRec OpDataEnd de ::
                                    (sum_items gs ++ off_items) ++ [IFooter ss sos crc])).
  { unfold go_ps. cbn [map]. rewrite !map_app. cbn [map]. rewrite !map_app, P1, g_sum_bytes, Ede, !map_app. reflexivity. }
  assert (EH : render (pre ++ flatten D) = magic ++ py_render (PIRec (PHeader hdr) :: dps)).
  { rewrite g_pre. unfold render, py_render. cbn [map app concat]. rewrite P1. reflexivity. }
  split; [|split; [|split; [|split; [|repeat split; try assumption; apply g_ss]]]].
  - rewrite g_file, g_tr_mid. unfold the_file, py_render. rewrite EB. unfold render.
    cbn [map concat]. rewrite map_app, concat_app. cbn [map concat render_item]. rewrite app_nil_r. reflexivity.
  - rewrite EB, g_tr_mid. cbn [tl]. rewrite removelast_last. reflexivity.
  - intro v. exists (PIRec (PHeader hdr) :: dps ++ PIRec (PDataEnd {| de_crc := c1 |}) :: map PIRec srs), ft.
    split; [unfold go_ps; cbn [app]; rewrite <- app_assoc; reflexivity|].
    assert (HSum : Forall (pwf_pitem v false) (map PIRec srs)).
    { apply Forall_map. eapply Forall_impl; [|exact HSok]. intros r (R1 & R2 & R3 & _). split; [exact R2|split; assumption]. }
    assert (Hde : pwf_pitem v false (PIRec (PDataEnd {| de_crc := c1 |}))).
    { split; [cbn [rec_body]; unfold enc_dataend; rewrite PyReadFacts.blen_u32; unfold two32; lia|].
      split; [|reflexivity]. cbn [pwf_rec]. unfold wf_dataend. cbn [de_crc]. rewrite Ec1.
      destruct (o_crc o); [apply crc32_bound|reflexivity]. }
    split; [|split].
    + unfold go_ps. constructor; [apply g_hdr_ok|]. apply Forall_app. split.
      * eapply Forall_impl; [|exact P2]. intros p Hp. apply Hp.
      * constructor; [exact Hde|]. apply Forall_app. split; [exact HSum|]. constructor; [apply g_ft_ok|constructor].
    + constructor; [reflexivity|]. apply Forall_app. split.
      * eapply Forall_impl; [|exact P3]. intros p [Hp _]. exact Hp.
      * constructor; [reflexivity|]. apply Forall_map. eapply Forall_impl; [|exact HSok].
        intros r (_ & _ & _ & R4 & _). exact R4.
    + intros V pre0 d0 post E.
      assert (N1 : Forall (fun z => ~ (is_dataend_item z = true)) (PIRec (PHeader hdr) :: dps)).
      { constructor; [discriminate|]. eapply Forall_impl; [|exact P3]. intros p [_ Hp]. rewrite Hp. discriminate. }
      assert (N2 : Forall (fun z => ~ (is_dataend_item z = true)) (map PIRec srs ++ [PIRec (PFooter ft)])).
      { apply Forall_app. split; [|repeat constructor; discriminate]. apply Forall_map.
        eapply Forall_impl; [|exact HSok]. intros r (_ & _ & _ & _ & R5). rewrite R5. discriminate. }
      unfold go_ps in E. rewrite app_comm_cons in E.
      destruct (unique_split (fun z => is_dataend_item z = true) _ _ _ _ _ _ E N1 N2 eq_refl) as (E1 & E2 & _).
      injection E2 as <-. cbn [de_crc]. rewrite <- E1, Ec1, EH. destruct (o_crc o); [right|left]; reflexivity.
  - rewrite Ec1, EH. reflexivity.
Qed.

End WithShape.

(* ---------- 4. the statement without the shape parameters ---------- *)
Definition run_sum_recs (offs : list sumoffset) : list prec :=
  sum_recs (if o_skip_rsh eo then [] else map snd (w_schemas s))
           (if o_skip_rch eo then [] else map snd (w_channels s))
           (if o_skip_stats eo then [] else [stats_record s])
           (if o_skip_ci eo then [] else w_chunk_indexes s)
           (if o_skip_ai eo then [] else w_att_indexes s)
           (if o_skip_mdi eo then [] else w_md_indexes s) offs.

Theorem go_trace_typed_run : exists dps c1 offs ft,
  let ps := go_ps hdr dps c1 (run_sum_recs offs) ft in
  F = the_file ps /\
  map pitem_bytes ps = map render_item (removelast (tl tr)) /\
  (forall v, pwf_file v false ps) /\
  c1 = (if o_crc o then crc32 (magic ++ py_render (PIRec (PHeader hdr) :: dps)) else 0) /\
  Forall (fun p => forall v, pwf_pitem v false p) dps /\
  Forall (fun p => is_footer_item p = false /\ is_dataend_item p = false) dps /\
  filter scm (py_expected dps) = map arec_out (auto_recs cs) /\
  file_atts dps = map (fun ad => att_set (fst ad) (snd ad)) (attachments_of cs) /\
  file_mds dps = metadata_of cs /\
  Forall data_rec (py_expected dps) /\
  Forall sum_rec_ok (run_sum_recs offs) /\
  (f_summary_start ft = 0 <-> run_sum_recs [] = []).
Proof.
  destruct (run_shape o lib compress hd cs Hwf Hnh Hok) as (D & de & ss & sos & crc & HS).
  destruct (g_typed D de ss sos crc HS) as (dps & c1 & H). cbv zeta in H.
  exists dps, c1, (if o_skip_so eo then [] else group_offsets (offset_of (pre ++ flatten D ++ [IRec OpDataEnd de])) gs),
    {| f_summary_start := ss; f_summary_offset_start := sos; f_crc := crc |}.
  exact H.
Qed.
(* ---------- 5. what the Python readers return, in terms of the calls ---------- *)

(* StreamReader(...).records: exactly the records of the typed description, then the normal end *)
Theorem go_py_stream v : exists ps,
  F = the_file ps /\ pwf_file v false ps /\
  stream_records F false false v limit_4g = (py_expected ps, EStop).
Proof.
  destruct go_trace_typed_run as (dps & c1 & offs & ft & H). cbv zeta in H. destruct H as (E & _ & W & _).
  eexists. split; [exact E|]. split; [apply W|]. rewrite E. apply py_stream_records, W.
Qed.

(* (a) get_header *)
Theorem go_py_header v : ns_get_header F v = POk hdr.
Proof.
  destruct go_trace_typed_run as (dps & c1 & offs & ft & H). cbv zeta in H. destruct H as (E & _ & W & _).
  rewrite E. eapply py_ns_get_header; [|reflexivity]. apply W.
Qed.

(* (b) iter_attachments: every attachment call, in call order, every field and the data *)
Theorem go_py_attachments v :
  ns_iter Py.is_att F v = (map (fun ad => PAttachment (att_set (fst ad) (snd ad))) (attachments_of cs), EStop).
Proof.
  destruct go_trace_typed_run as (dps & c1 & offs & ft & H). cbv zeta in H.
  destruct H as (E & _ & W & _ & _ & _ & _ & HA & _).
  rewrite E, (py_ns_iter_attachments v _ (W v)). unfold run_sum_recs. rewrite go_ps_atts by apply sum_recs_plain.
  rewrite HA, map_map. reflexivity.
Qed.

(* (c) iter_metadata: every metadata call, in call order; the map as the dict built from the pairs
   in the order Go wrote them (sorted by key) *)
Theorem go_py_metadata v :
  ns_iter is_md F v = (map (fun m => PMetadata (py_metadata m)) (metadata_of cs), EStop).
Proof.
  destruct go_trace_typed_run as (dps & c1 & offs & ft & H). cbv zeta in H.
  destruct H as (E & _ & W & _ & _ & _ & _ & _ & HM & _).
  rewrite E, (py_ns_iter_metadata v _ (W v)). unfold run_sum_recs. rewrite go_ps_mds by apply sum_recs_plain.
  rewrite HM. reflexivity.
Qed.

(* (d), (e) iter_messages *)
Hypothesis Hcons : ids_consistent cs.

Let L_all := auto_recs cs ++ map ASchema (if o_skip_rsh eo then [] else map snd (w_schemas s))
                          ++ map AChannel (if o_skip_rch eo then [] else map snd (w_channels s)).

Lemma go_scm_expected dps c1 offs ft :
  filter scm (py_expected dps) = map arec_out (auto_recs cs) ->
  filter scm (py_expected (go_ps hdr dps c1 (run_sum_recs offs) ft)) = map arec_out L_all.
Proof.
  intro HD. rewrite go_ps_expected. cbn [filter scm]. rewrite filter_app. cbn [filter scm]. rewrite filter_app.
  cbn [filter scm]. rewrite app_nil_r, HD. unfold run_sum_recs. rewrite sum_recs_scm. unfold L_all. rewrite !map_app. reflexivity.
Qed.

Lemma go_msgs_spec flt :
  msgs_spec flt [] (map arec_out L_all) = go_msgs cs flt /\ refs_ok [] (map arec_out L_all) = true.
Proof.
  assert (HCh : forall c, In (AChannel c) L_all -> In (CChannel c) cs)
    by exact (L_all_channel o lib compress hd cs Hwf Hnh Hok).
  assert (HSc : forall sc, In (ASchema sc) L_all -> In (CSchema sc) cs)
    by exact (L_all_schema o lib compress hd cs Hwf Hnh Hok).
  destruct (msgs_arec cs flt L_all [] [] []) as [R1 R2].
  - intros id [].
  - intros id [].
  - intros c [].
  - intros c Hc. apply call_chan_consistent; [exact Hcons|apply HCh; exact Hc].
  - intros sc Hsc. apply call_schema_consistent; [exact Hcons|apply HSc; exact Hsc].
  - exact (L_all_scoped o lib compress hd cs Hwf Hnh Hok).
  - split; [|exact R2]. cbn [map] in R1. rewrite R1. unfold go_msgs. f_equal.
    exact (L_all_msgs o lib compress hd cs).
Qed.

Theorem go_py_messages v flt reverse :
  ns_iter_messages F v flt false reverse = (go_msgs cs flt, EStop).
Proof.
  destruct go_trace_typed_run as (dps & c1 & offs & ft & H). cbv zeta in H.
  destruct H as (E & _ & W & _ & _ & _ & HD & _).
  destruct (go_msgs_spec flt) as [R1 R2].
  pose proof (go_scm_expected dps c1 offs ft HD) as ES.
  rewrite E, (py_ns_iter_messages_file_order v _ flt reverse (W v)).
  - rewrite <- (msgs_spec_scm flt _ []). cbn [filter]. rewrite ES. rewrite R1. reflexivity.
  - rewrite <- (refs_ok_scm _ []). cbn [filter]. rewrite ES. exact R2.
Qed.

Theorem go_py_messages_log_order v flt reverse :
  ns_iter_messages F v flt true reverse = (py_sorted reverse (go_msgs cs flt), EStop).
Proof.
  destruct go_trace_typed_run as (dps & c1 & offs & ft & H). cbv zeta in H.
  destruct H as (E & _ & W & _ & _ & _ & HD & _).
  destruct (go_msgs_spec flt) as [R1 R2].
  pose proof (go_scm_expected dps c1 offs ft HD) as ES.
  rewrite E, (py_ns_iter_messages_log_order v _ flt reverse (W v)).
  - rewrite <- (msgs_spec_scm flt _ []). cbn [filter]. rewrite ES. rewrite R1. reflexivity.
  - rewrite <- (refs_ok_scm _ []). cbn [filter]. rewrite ES. exact R2.
Qed.

End Run.
