(* ReaderFacts2.v - the summary section reader (Reader.parse_summary / Reader.info) on rendered
   files (C08 second half), its independence of the order of the summary records (C12) and the
   discharge of Iter.loader_ok for rendered chunks (C02).

   Contents
     1. tables (tab_set / tab_get)
     2. what one iteration of summ_loop does on a rendered summary record
     3. parse_summary on a rendered file: parse_summary_rendered_thm, Info: C08_info_thm
        (C08_info_offs_thm, with the summary offset records written separately, is at the end)
     4. walk / load_chunk_i on a rendered chunk: C02_loader_ok_rendered_thm and the end-to-end
        corollary C02_indexed_read_rendered_thm
     5. permutation invariance: C12_summary_order_thm, C12_dispatch_thm
     6. boolean checkers, examples (non-vacuity) on files produced by the writer model *)
From Coq Require Import List NArith ZArith Bool Lia ZifyN ZifyNat ZifyBool Permutation Sorted PeanoNat.
From Coq.Strings Require Import Byte.
From RecordUpdate Require Import RecordSet.
From Mcap Require Import Bytes BytesFacts GoSem Crc32 Records RecordsFacts Writer Lexer LexSpec LexerFactsB
  Reader Iter.
Import ListNotations RecordSetNotations.
Open Scope N_scope.
Ltac Zify.zify_post_hook ::= Z.div_mod_to_equations.

(* ====================================================================================== *)
(** * 1. tables *)

Lemma tab_get_set_same {A} k (v : A) : forall l, tab_get k (tab_set k v l) = Some v.
Proof.
  induction l as [|x l IH]; cbn [tab_set tab_get fst snd].
  - rewrite N.eqb_refl. reflexivity.
  - destruct (N.eqb_spec (fst x) k) as [E|E].
    + cbn [tab_get fst snd]. rewrite N.eqb_refl. reflexivity.
    + destruct (k <? fst x).
      * cbn [tab_get fst snd]. rewrite N.eqb_refl. reflexivity.
      * cbn [tab_get]. destruct (N.eqb_spec (fst x) k); [contradiction|]. exact IH.
Qed.

Lemma tab_get_set_other {A} k k' (v : A) : k <> k' -> forall l, tab_get k' (tab_set k v l) = tab_get k' l.
Proof.
  intros Hk. induction l as [|x l IH]; cbn [tab_set tab_get fst snd].
  - destruct (N.eqb_spec k k'); [contradiction|reflexivity].
  - destruct (N.eqb_spec (fst x) k) as [E|E].
    + cbn [tab_get fst snd]. destruct (N.eqb_spec k k'); [contradiction|].
      destruct (N.eqb_spec (fst x) k'); [congruence|reflexivity].
    + destruct (k <? fst x).
      * cbn [tab_get fst snd]. destruct (N.eqb_spec k k'); [contradiction|]. reflexivity.
      * cbn [tab_get]. rewrite IH. reflexivity.
Qed.

(* the table built by inserting the records l in order, keyed by key *)
Definition tab_of {A} (key : A -> N) (l : list A) (t0 : list (N * A)) : list (N * A) :=
  fold_left (fun t x => tab_set (key x) x t) l t0.

Lemma tab_of_app {A} (key : A -> N) a b t0 : tab_of key (a ++ b) t0 = tab_of key b (tab_of key a t0).
Proof. unfold tab_of. apply fold_left_app. Qed.

(* last definition of an id wins *)
Lemma tab_get_tab_of {A} (key : A -> N) id : forall l t0,
  tab_get id (tab_of key l t0) =
  match find (fun x => key x =? id) (rev l) with Some x => Some x | None => tab_get id t0 end.
Proof.
  intros l. induction l as [|x l IH] using rev_ind; intro t0; [reflexivity|].
  rewrite tab_of_app, rev_app_distr. cbn [rev app find tab_of fold_left].
  destruct (N.eqb_spec (key x) id) as [E|E].
  - rewrite <- E. apply tab_get_set_same.
  - rewrite tab_get_set_other by exact E. apply IH.
Qed.

Definition tlt {A} (a b : N * A) : Prop := fst a < fst b.

Lemma tab_set_in {A} y k (v : A) : forall l, In y (tab_set k v l) -> y = (k, v) \/ In y l.
Proof.
  induction l as [|x l IH]; cbn [tab_set]; intro H.
  - destruct H as [H|[]]; auto.
  - destruct (fst x =? k). { destruct H as [H|H]; [auto|right; right; exact H]. }
    destruct (k <? fst x). { destruct H as [H|H]; auto. }
    destruct H as [H|H]; [right; left; exact H|]. destruct (IH H); auto. right. right. assumption.
Qed.

Lemma tab_set_sorted {A} k (v : A) : forall l, StronglySorted tlt l -> StronglySorted tlt (tab_set k v l).
Proof.
  induction l as [|x l IH]; intro S; cbn [tab_set].
  - constructor; constructor.
  - inversion S as [|? ? S' Hx]; subst.
    destruct (N.eqb_spec (fst x) k) as [E|E].
    + constructor; [exact S'|]. eapply Forall_impl; [|exact Hx]. unfold tlt. cbn [fst]. intros a Ha. lia.
    + destruct (N.ltb_spec k (fst x)) as [L|L].
      * constructor; [exact S|]. constructor; [exact L|].
        eapply Forall_impl; [|exact Hx]. unfold tlt. cbn [fst]. intros a Ha. lia.
      * constructor; [apply IH, S'|]. rewrite Forall_forall in *. intros y Hy.
        apply tab_set_in in Hy. destruct Hy as [->|Hy]; [unfold tlt; cbn [fst]; lia|apply Hx, Hy].
Qed.

Lemma tab_set_perm {A} k (v : A) : forall l, ~ In k (map fst l) -> Permutation ((k, v) :: l) (tab_set k v l).
Proof.
  induction l as [|x l IH]; intro H; cbn [tab_set]; [reflexivity|].
  cbn [map In] in H.
  destruct (N.eqb_spec (fst x) k) as [E|E]; [exfalso; apply H; left; exact E|].
  destruct (k <? fst x); [reflexivity|].
  rewrite perm_swap. apply perm_skip. apply IH. intro HI. apply H. right. exact HI.
Qed.

Lemma tab_of_sorted {A} (key : A -> N) : forall l t0, StronglySorted tlt t0 -> StronglySorted tlt (tab_of key l t0).
Proof.
  induction l as [|x l IH]; intros t0 S; cbn [tab_of fold_left]; [exact S|]. apply IH, tab_set_sorted, S.
Qed.

Lemma tab_of_perm {A} (key : A -> N) : forall l t0,
  NoDup (map key l ++ map fst t0) ->
  Permutation (tab_of key l t0) (map (fun x => (key x, x)) l ++ t0).
Proof.
  induction l as [|x l IH]; intros t0 H; cbn [tab_of fold_left map app]; [reflexivity|].
  cbn [map app] in H. inversion H as [|? ? Hx Hnd]; subst.
  fold (tab_of key l (tab_set (key x) x t0)).
  assert (Hx0 : ~ In (key x) (map fst t0)) by (intro HI; apply Hx, in_or_app; right; exact HI).
  pose proof (tab_set_perm (key x) x t0 Hx0) as P.
  rewrite IH.
  - rewrite <- P. symmetry. apply Permutation_middle.
  - eapply Permutation_NoDup; [|exact H].
    rewrite <- (Permutation_map fst P). cbn [map fst]. apply Permutation_middle.
Qed.

(* insertion order is irrelevant when the keys are pairwise distinct *)
Lemma tab_of_perm_eq {A} (key : A -> N) l l' :
  Permutation l l' -> NoDup (map key l) -> tab_of key l [] = tab_of key l' [].
Proof.
  intros HP Hnd.
  assert (Hnd' : NoDup (map key l')) by (eapply Permutation_NoDup; [apply Permutation_map, HP|exact Hnd]).
  assert (P1 := tab_of_perm key l []). assert (P2 := tab_of_perm key l' []).
  cbn [map] in P1, P2. rewrite !app_nil_r in *. specialize (P1 Hnd). specialize (P2 Hnd').
  apply (sorted_perm_unique tlt).
  - intros a b Ha Hb H1 H2. unfold tlt in *. lia.
  - apply tab_of_sorted. constructor.
  - apply tab_of_sorted. constructor.
  - rewrite P1, P2. apply Permutation_map, HP.
Qed.

(* ====================================================================================== *)
(** * 2. summary records and one iteration of summ_loop *)

(* the records of a summary section.  SOther covers every record the summary reader ignores:
   summary offsets, data end, header, message, message index, metadata and unknown opcodes *)
Inductive srec :=
| SSchema (s : schema)
| SChannel (c : channel)
| SStats (st : statistics)
| SChunkIdx (ci : chunkindex)
| SAttIdx (ai : attindex)
| SMdIdx (mx : mdindex)
| SOther (op : byte) (body : bytes).

Definition srec_op (r : srec) : byte :=
  match r with
  | SSchema _ => OpSchema | SChannel _ => OpChannel | SStats _ => OpStatistics
  | SChunkIdx _ => OpChunkIndex | SAttIdx _ => OpAttachmentIndex | SMdIdx _ => OpMetadataIndex
  | SOther op _ => op
  end.
Definition srec_body (r : srec) : bytes :=
  match r with
  | SSchema s => enc_schema s | SChannel c => enc_channel c | SStats st => enc_statistics st
  | SChunkIdx ci => enc_chunkindex ci | SAttIdx ai => enc_attindex ai | SMdIdx mx => enc_mdindex mx
  | SOther _ body => body
  end.
(* a summary record together with the padding that follows the encoded fields inside the record *)
Definition sum_item (x : srec * bytes) : item := IRec (srec_op (fst x)) (srec_body (fst x) ++ snd x).
Definition so_srec (so : sumoffset) : srec := SOther OpSummaryOffset (enc_sumoffset so).

Definition ignored_op (op : byte) : Prop :=
  op <> x00 /\ op <> OpChunk /\ op <> OpAttachment /\ op <> OpFooter /\ op <> OpSchema /\ op <> OpChannel
  /\ op <> OpStatistics /\ op <> OpChunkIndex /\ op <> OpAttachmentIndex /\ op <> OpMetadataIndex.

Definition wf_srec (r : srec) : Prop :=
  match r with
  | SSchema s => wf_schema s | SChannel c => wf_channel c | SStats st => wf_statistics st
  | SChunkIdx ci => wf_chunkindex ci | SAttIdx ai => wf_attindex ai | SMdIdx mx => wf_mdindex mx
  | SOther op _ => ignored_op op
  end.
Definition wf_sitem (x : srec * bytes) : Prop :=
  wf_srec (fst x) /\ blen (srec_body (fst x) ++ snd x) < max_int32.

(* what the record contributes to the summary (parseSummarySection, one case of the switch) *)
Definition summ_step (ro : ropts) (im : bool) (sm : summ) (r : srec) : summ :=
  match r with
  | SSchema s => sm <| sm_schemas := tab_set (s_id s) s (sm_schemas sm) |>
  | SChannel c =>
    if topic_selected (ro_topics ro) (c_topic c)
    then sm <| sm_channels := tab_set (c_id c) (channel_norm c) (sm_channels sm) |> else sm
  | SStats st => sm <| sm_stats := Some (statistics_norm st) |>
  | SChunkIdx ci =>
    if ci_time_ok ro im (chunkindex_norm ci)
    then sm <| sm_cis := sm_cis sm ++ [chunkindex_norm ci] |> else sm
  | SAttIdx ai => sm <| sm_ais := sm_ais sm ++ [ai] |>
  | SMdIdx mx => sm <| sm_mxs := sm_mxs sm ++ [mx] |>
  | SOther _ _ => sm
  end.
(* the footer case: topic pruning over the complete channel table, then the load order *)
Definition summ_finish (ro : ropts) (sm : summ) : summ :=
  sm <| sm_cis := ci_sort (ro_order ro)
                    (match ro_topics ro with
                     | [] => sm_cis sm
                     | _ => filter (ci_topic_ok (sm_channels sm)) (sm_cis sm) end) |>.

Section SummLoop.
Variable ds : doracle.

(* summ_loop entered with lexer fuel fl (the loop passes its own fuel to the lexer, and the lexer
   uses some of it on records with unknown opcodes) *)
Definition summ_from (f fl : nat) (ro : ropts) (info_mode : bool) (l : lstate) (sm : summ) : outcome summ :=
    match lex_next summary_lopts ds fl 0 l [] with
    | Ok (_, NErr e, _) => Err e
    | Ok (_, NTok (EvToken op body), l') =>
      if Byte.eqb op OpSchema then
        let* sc := parse_schema body in summ_loop ds f ro info_mode l' (sm <| sm_schemas := tab_set (s_id sc) sc (sm_schemas sm) |>)
      else if Byte.eqb op OpChannel then
        let* c := parse_channel body in
        if topic_selected (ro_topics ro) (c_topic c)
        then summ_loop ds f ro info_mode l' (sm <| sm_channels := tab_set (c_id c) c (sm_channels sm) |>)
        else summ_loop ds f ro info_mode l' sm
      else if Byte.eqb op OpAttachmentIndex then
        let* x := parse_attindex body in summ_loop ds f ro info_mode l' (sm <| sm_ais := sm_ais sm ++ [x] |>)
      else if Byte.eqb op OpMetadataIndex then
        let* x := parse_mdindex body in summ_loop ds f ro info_mode l' (sm <| sm_mxs := sm_mxs sm ++ [x] |>)
      else if Byte.eqb op OpChunkIndex then
        let* ci := parse_chunkindex body in
        if ci_time_ok ro info_mode ci
        then summ_loop ds f ro info_mode l' (sm <| sm_cis := sm_cis sm ++ [ci] |>)
        else summ_loop ds f ro info_mode l' sm
      else if Byte.eqb op OpStatistics then
        let* st := parse_statistics body in summ_loop ds f ro info_mode l' (sm <| sm_stats := Some st |>)
      else if Byte.eqb op OpFooter then
        let cis := match ro_topics ro with
                   | [] => sm_cis sm
                   | _ => filter (ci_topic_ok (sm_channels sm)) (sm_cis sm) end in
        Ok (sm <| sm_cis := ci_sort (ro_order ro) cis |>)
      else summ_loop ds f ro info_mode l' sm
    | Ok (_, NTok _, l') => summ_loop ds f ro info_mode l' sm
    | Err e => Err e
    | Panic p => Panic p | Exit p => Exit p | OutOfFuel => OutOfFuel
    end.

Lemma summ_loop_S f ro im l sm : summ_loop ds (S f) ro im l sm = summ_from f (S f) ro im l sm.
Proof. reflexivity. Qed.

Lemma summary_len_ok n : len_ok summary_lopts n.
Proof. reflexivity. Qed.

Lemma known_ignored op : ignored_op op -> known_op op = true \/ known_op op = false.
Proof. intros _. destruct (known_op op); auto. Qed.

(* one record of the summary *)
Lemma summ_from_item ro im x rest f fl l sm :
  wf_sitem x ->
  at_top l (rd (render_item (sum_item x) ++ rest) None false) ->
  exists l' fl', at_top l' (rd rest None false) /\
    ((fl' = S f /\ summ_from (S f) (S fl) ro im l sm = summ_loop ds (S f) ro im l' (summ_step ro im sm (fst x)))
     \/ (fl' = fl /\ summ_from (S f) (S fl) ro im l sm = summ_from (S f) fl ro im l' (summ_step ro im sm (fst x)))).
Proof.
  destruct x as [r pad]. intros [W Hlen] Htop. cbn [fst snd] in *.
  unfold sum_item in Htop. cbn [fst snd render_item] in Htop.
  assert (Hop : Byte.eqb (srec_op r) OpChunk && negb (lo_emit_chunks summary_lopts) = false
                /\ srec_op r <> OpAttachment /\ srec_op r <> x00).
  { destruct r; cbn [srec_op]; try (split; [reflexivity|split; discriminate]).
    destruct W as (W0 & W1 & W2 & _). split; [|split; assumption].
    rewrite (byte_eqb_neq _ _ W1). reflexivity. }
  destruct Hop as (Hck & Hat & H0).
  destruct (lex_next_plain summary_lopts ds 0 l (srec_op r) (srec_body r ++ pad) rest None false
              (at_top_cur _ _ Htop) Hck Hat H0 Hlen (summary_len_ok _)) as (l' & Hm & Heq).
  exists l'. pose proof (moved_top _ _ _ _ Htop Hm) as Htop'.
  destruct r as [s|c|st|ci|ai|mx|op body]; cbn [srec_op srec_body] in *.
  - exists (S f). split; [exact Htop'|]. left. split; [reflexivity|].
    unfold summ_from at 1. rewrite Heq. change (known_op OpSchema) with true. cbv beta iota.
    change (Byte.eqb OpSchema OpSchema) with true. cbv beta iota.
    rewrite parse_enc_schema by exact W. reflexivity.
  - exists (S f). split; [exact Htop'|]. left. split; [reflexivity|].
    unfold summ_from at 1. rewrite Heq. change (known_op OpChannel) with true. cbv beta iota.
    change (Byte.eqb OpChannel OpSchema) with false. change (Byte.eqb OpChannel OpChannel) with true. cbv beta iota.
    rewrite parse_enc_channel by exact W. cbn [bind summ_step channel_norm c_topic c_id].
    destruct (topic_selected (ro_topics ro) (c_topic c)); reflexivity.
  - exists (S f). split; [exact Htop'|]. left. split; [reflexivity|].
    unfold summ_from at 1. rewrite Heq. change (known_op OpStatistics) with true. cbv beta iota.
    change (Byte.eqb OpStatistics OpSchema) with false. change (Byte.eqb OpStatistics OpChannel) with false.
    change (Byte.eqb OpStatistics OpAttachmentIndex) with false. change (Byte.eqb OpStatistics OpMetadataIndex) with false.
    change (Byte.eqb OpStatistics OpChunkIndex) with false. change (Byte.eqb OpStatistics OpStatistics) with true.
    cbv beta iota. rewrite parse_enc_statistics by exact W. reflexivity.
  - exists (S f). split; [exact Htop'|]. left. split; [reflexivity|].
    unfold summ_from at 1. rewrite Heq. change (known_op OpChunkIndex) with true. cbv beta iota.
    change (Byte.eqb OpChunkIndex OpSchema) with false. change (Byte.eqb OpChunkIndex OpChannel) with false.
    change (Byte.eqb OpChunkIndex OpAttachmentIndex) with false. change (Byte.eqb OpChunkIndex OpMetadataIndex) with false.
    change (Byte.eqb OpChunkIndex OpChunkIndex) with true.
    cbv beta iota. rewrite parse_enc_chunkindex by exact W. cbn [bind summ_step].
    destruct (ci_time_ok ro im (chunkindex_norm ci)); reflexivity.
  - exists (S f). split; [exact Htop'|]. left. split; [reflexivity|].
    unfold summ_from at 1. rewrite Heq. change (known_op OpAttachmentIndex) with true. cbv beta iota.
    change (Byte.eqb OpAttachmentIndex OpSchema) with false. change (Byte.eqb OpAttachmentIndex OpChannel) with false.
    change (Byte.eqb OpAttachmentIndex OpAttachmentIndex) with true.
    cbv beta iota. rewrite parse_enc_attindex by exact W. reflexivity.
  - exists (S f). split; [exact Htop'|]. left. split; [reflexivity|].
    unfold summ_from at 1. rewrite Heq. change (known_op OpMetadataIndex) with true. cbv beta iota.
    change (Byte.eqb OpMetadataIndex OpSchema) with false. change (Byte.eqb OpMetadataIndex OpChannel) with false.
    change (Byte.eqb OpMetadataIndex OpAttachmentIndex) with false. change (Byte.eqb OpMetadataIndex OpMetadataIndex) with true.
    cbv beta iota. rewrite parse_enc_mdindex by exact W. reflexivity.
  - destruct W as (_ & _ & _ & Wf & Ws & Wc & Wst & Wci & Wai & Wmx).
    destruct (known_op op) eqn:K.
    + exists (S f). split; [exact Htop'|]. left. split; [reflexivity|].
      unfold summ_from at 1. rewrite Heq.
      rewrite (byte_eqb_neq _ _ Ws), (byte_eqb_neq _ _ Wc), (byte_eqb_neq _ _ Wai), (byte_eqb_neq _ _ Wmx),
        (byte_eqb_neq _ _ Wci), (byte_eqb_neq _ _ Wst), (byte_eqb_neq _ _ Wf). reflexivity.
    + exists fl. split; [exact Htop'|]. right. split; [reflexivity|].
      unfold summ_from. rewrite Heq. reflexivity.
Qed.

(* the footer record ends the loop *)
Lemma summ_from_footer ro im ft rest f fl l sm :
  at_top l (rd (frame OpFooter (enc_footer ft) ++ rest) None false) ->
  summ_from f (S fl) ro im l sm = Ok (summ_finish ro sm).
Proof.
  intro Htop.
  assert (Hb : blen (enc_footer ft) = 20).
  { unfold enc_footer, blen. rewrite !app_length, !u64_length, u32_length. reflexivity. }
  assert (Hl : blen (enc_footer ft) < max_int32) by (rewrite Hb; reflexivity).
  assert (Ha : OpFooter <> OpAttachment) by discriminate.
  assert (H0 : OpFooter <> x00) by discriminate.
  destruct (lex_next_plain summary_lopts ds 0 l OpFooter (enc_footer ft) rest None false
              (at_top_cur _ _ Htop) eq_refl Ha H0 Hl (summary_len_ok _)) as (l' & Hm & Heq).
  unfold summ_from. rewrite Heq. reflexivity.
Qed.

Lemma render_cons it items : render (it :: items) = render_item it ++ render items.
Proof. reflexivity. Qed.

Lemma summ_from_items ro im ft tail : forall (S : list (srec * bytes)) f fl l sm,
  Forall wf_sitem S ->
  at_top l (rd (render (map sum_item S) ++ frame OpFooter (enc_footer ft) ++ tail) None false) ->
  (length S < fl)%nat -> (length S <= f)%nat ->
  summ_from f fl ro im l sm = Ok (summ_finish ro (fold_left (summ_step ro im) (map fst S) sm)).
Proof.
  induction S as [|x S IH]; intros f fl l sm HW Htop Hfl Hf.
  - cbn [map render concat app] in Htop. cbn [map fold_left].
    destruct fl as [|fl]; [cbn [length] in Hfl; lia|]. eapply summ_from_footer; exact Htop.
  - inversion HW as [|? ? Wx HW']; subst. cbn [length] in *.
    destruct fl as [|fl]; [lia|]. destruct f as [|f]; [lia|].
    cbn [map] in Htop. rewrite render_cons, <- app_assoc in Htop.
    destruct (summ_from_item ro im x _ f fl l sm Wx Htop) as (l' & fl' & Htop' & [[-> E]|[-> E]]);
      rewrite E; cbn [map fold_left].
    + rewrite summ_loop_S. apply IH; try assumption; lia.
    + apply IH; try assumption; lia.
Qed.

End SummLoop.

(* ====================================================================================== *)
(** * 3. parse_summary and Info on a rendered file *)

Definition footer_item (ft : footer) : item :=
  IFooter (f_summary_start ft) (f_summary_offset_start ft) (f_crc ft).

(* a file: anything (pre), the summary records (summary offsets are SOther records), footer, magic *)
Definition summ_file (pre : list item) (S : list (srec * bytes)) (ft : footer) : bytes :=
  render (pre ++ map sum_item S ++ [footer_item ft; IMagic]).

Lemma enc_footer_blen ft : blen (enc_footer ft) = 20.
Proof. unfold enc_footer, blen. rewrite !app_length, !u64_length, u32_length. reflexivity. Qed.

Lemma render_footer_magic ft : render [footer_item ft; IMagic] = frame OpFooter (enc_footer ft) ++ magic.
Proof. destruct ft as [a b c]. unfold render, footer_item. cbn [map concat render_item f_summary_start f_summary_offset_start f_crc]. rewrite app_nil_r. reflexivity. Qed.

Lemma summ_file_eq pre S ft :
  summ_file pre S ft = render pre ++ render (map sum_item S) ++ frame OpFooter (enc_footer ft) ++ magic.
Proof. unfold summ_file. rewrite !render_app, render_footer_magic. reflexivity. Qed.

Lemma render_item_len9 it : it <> IMagic -> (9 <= length (render_item it))%nat.
Proof.
  destruct it; intro H; try contradiction; cbn [render_item]; rewrite frame_length; lia.
Qed.

Lemma render_sum_items_length S : (9 * length S <= length (render (map sum_item S)))%nat.
Proof.
  induction S as [|x S IH]; [cbn; lia|]. cbn [map length]. rewrite render_cons, app_length.
  unfold sum_item at 1. cbn [render_item]. rewrite frame_length. lia.
Qed.

Lemma fs_stream_none F off sk : fs_stream {| fs_data := F; fs_fail := None |} off sk = rd (drop off F) None sk.
Proof. reflexivity. Qed.

Section ParseSummary.
Variable ds : doracle.

(* the part of parseSummarySection before the loop: the last 28 bytes are footer fields and magic *)
Lemma parse_summary_front X ft ro im :
  wf_footer ft ->
  let f := {| fs_data := X ++ enc_footer ft ++ magic; fs_fail := None |} in
  parse_summary ds f ro im =
    let sm := empty_summ <| sm_footer := Some ft |> in
    if f_summary_start ft =? 0 then Ok sm else
    let* _ := seek_ok (fs_size f) (f_summary_start ft) in
    summ_loop ds (S (N.to_nat (fs_size f))) ro im
      {| lx_base := rd (drop (f_summary_start ft) (fs_data f)) None false; lx_chunk := None; lx_ubuf := 0;
         lx_bufcap := 32; lx_allocs := [] |} sm.
Proof.
  intros W f. unfold parse_summary. subst f. rewrite !fs_stream_none. cbn [fs_data].
  set (f := {| fs_data := X ++ enc_footer ft ++ magic; fs_fail := None |}).
  assert (Hsz : fs_size f = blen X + 28).
  { unfold fs_size, f. cbn [fs_data]. rewrite !blen_app, enc_footer_blen. reflexivity. }
  destruct (N.ltb_spec (fs_size f) 28) as [L|L]; [lia|].
  replace (fs_size f - 28) with (blen X) by lia.
  rewrite drop_app_exact.
  rewrite <- (app_nil_r (enc_footer ft ++ magic)).
  rewrite (rd_full_exact 28 (enc_footer ft ++ magic) [] None true)
    by (rewrite blen_app, enc_footer_blen; reflexivity).
  cbv beta iota zeta.
  assert (L20 : length (enc_footer ft) = 20%nat).
  { pose proof (enc_footer_blen ft) as H. unfold blen in H. lia. }
  rewrite skipn_app_exact' by (symmetry; exact L20).
  rewrite bytes_eqb_refl. cbn [negb].
  rewrite firstn_app_exact' by (symmetry; exact L20).
  rewrite <- (app_nil_r (enc_footer ft)), parse_enc_footer by exact W.
  reflexivity.
Qed.

Theorem parse_summary_rendered_thm ro im pre S ft :
  Forall wf_sitem S -> wf_footer ft ->
  f_summary_start ft = blen (render pre) -> 0 < f_summary_start ft -> f_summary_start ft < two63 ->
  parse_summary ds {| fs_data := summ_file pre S ft; fs_fail := None |} ro im =
    Ok (summ_finish ro (fold_left (summ_step ro im) (map fst S) (empty_summ <| sm_footer := Some ft |>))).
Proof.
  intros HW Wft Hss Hpos H63.
  rewrite summ_file_eq. unfold frame. rewrite <- !app_assoc.
  set (X := render pre ++ render (map sum_item S) ++ frame_head OpFooter (blen (enc_footer ft))).
  replace (render pre ++ render (map sum_item S) ++ frame_head OpFooter (blen (enc_footer ft)) ++ enc_footer ft ++ magic)
    with (X ++ enc_footer ft ++ magic) by (unfold X; rewrite <- !app_assoc; reflexivity).
  rewrite parse_summary_front by exact Wft. cbv zeta.
  destruct (N.eqb_spec (f_summary_start ft) 0) as [E|_]; [lia|].
  set (f := {| fs_data := X ++ enc_footer ft ++ magic; fs_fail := None |}).
  assert (Hsz : fs_size f = blen (render pre) + blen (render (map sum_item S)) + 9 + 28).
  { unfold fs_size, f, X. cbn [fs_data]. rewrite !blen_app, frame_head_blen, enc_footer_blen.
    change (blen magic) with 8. lia. }
  unfold seek_ok. destruct (N.ltb_spec 9223372036854775807 (f_summary_start ft)) as [L|_]; [unfold two63 in H63; lia|].
  destruct (N.leb_spec (fs_size f) (f_summary_start ft)) as [L|_]; [lia|]. cbn [bind].
  rewrite Hss. unfold f at 2, X. cbn [fs_data]. rewrite <- !app_assoc, drop_app_exact.
  rewrite summ_loop_S.
  apply (summ_from_items ds ro im ft magic).
  - exact HW.
  - split; [reflexivity|]. cbn [lx_base]. unfold frame. rewrite <- !app_assoc. reflexivity.
  - pose proof (render_sum_items_length S). unfold blen in Hsz. lia.
  - pose proof (render_sum_items_length S). unfold blen in Hsz. lia.
Qed.

(* summary_start = 0: nothing is read besides the footer *)
Theorem parse_summary_no_summary_thm ro im B ft :
  wf_footer ft -> f_summary_start ft = 0 ->
  parse_summary ds {| fs_data := B ++ frame OpFooter (enc_footer ft) ++ magic; fs_fail := None |} ro im =
    Ok (empty_summ <| sm_footer := Some ft |>).
Proof.
  intros Wft Hss. unfold frame. rewrite <- app_assoc.
  replace (B ++ frame_head OpFooter (blen (enc_footer ft)) ++ enc_footer ft ++ magic)
    with ((B ++ frame_head OpFooter (blen (enc_footer ft))) ++ enc_footer ft ++ magic)
    by (rewrite <- !app_assoc; reflexivity).
  rewrite parse_summary_front by exact Wft. cbv zeta. rewrite Hss. reflexivity.
Qed.

End ParseSummary.

(* ---------- the result, field by field ---------- *)
Definition schemas_of (rs : list srec) : list schema :=
  flat_map (fun r => match r with SSchema s => [s] | _ => [] end) rs.
(* channel records as the reader parses them (metadata map sorted by key) *)
Definition channels_of (rs : list srec) : list channel :=
  flat_map (fun r => match r with SChannel c => [channel_norm c] | _ => [] end) rs.
Definition stats_of (rs : list srec) : list statistics :=
  flat_map (fun r => match r with SStats st => [statistics_norm st] | _ => [] end) rs.
Definition cis_of (rs : list srec) : list chunkindex :=
  flat_map (fun r => match r with SChunkIdx ci => [chunkindex_norm ci] | _ => [] end) rs.
Definition ais_of (rs : list srec) : list attindex :=
  flat_map (fun r => match r with SAttIdx ai => [ai] | _ => [] end) rs.
Definition mxs_of (rs : list srec) : list mdindex :=
  flat_map (fun r => match r with SMdIdx mx => [mx] | _ => [] end) rs.

(* the last element of a list, d when there is none *)
Definition last_or {A} (l : list A) (d : option A) : option A := fold_left (fun _ x => Some x) l d.
Lemma last_or_nil {A} (d : option A) : last_or [] d = d.
Proof. reflexivity. Qed.
Lemma last_or_snoc {A} (l : list A) x d : last_or (l ++ [x]) d = Some x.
Proof. unfold last_or. rewrite fold_left_app. reflexivity. Qed.
Lemma last_or_app {A} (a b : list A) d : last_or (a ++ b) d = last_or b (last_or a d).
Proof. unfold last_or. apply fold_left_app. Qed.

Definition chan_sel (ro : ropts) (c : channel) : bool := topic_selected (ro_topics ro) (c_topic c).

Lemma summ_fold_eq ro im : forall rs sm,
  fold_left (summ_step ro im) rs sm =
  {| sm_schemas := tab_of s_id (schemas_of rs) (sm_schemas sm);
     sm_channels := tab_of c_id (filter (chan_sel ro) (channels_of rs)) (sm_channels sm);
     sm_stats := last_or (stats_of rs) (sm_stats sm);
     sm_cis := sm_cis sm ++ filter (ci_time_ok ro im) (cis_of rs);
     sm_ais := sm_ais sm ++ ais_of rs;
     sm_mxs := sm_mxs sm ++ mxs_of rs;
     sm_footer := sm_footer sm |}.
Proof.
  induction rs as [|r rs IH]; intro sm.
  - cbn [fold_left schemas_of channels_of stats_of cis_of ais_of mxs_of flat_map filter tab_of last_or].
    rewrite !app_nil_r. destruct sm; reflexivity.
  - cbn [fold_left]. rewrite IH. clear IH.
    destruct r as [s|c|st|ci|ai|mx|op body];
      cbn [summ_step schemas_of channels_of stats_of cis_of ais_of mxs_of flat_map app].
    + destruct sm; reflexivity.
    + fold (channels_of rs). cbn [filter]. unfold chan_sel at 2. cbn [channel_norm c_topic].
      destruct (topic_selected (ro_topics ro) (c_topic c)); destruct sm; reflexivity.
    + destruct sm; reflexivity.
    + fold (cis_of rs). cbn [filter].
      destruct (ci_time_ok ro im (chunkindex_norm ci)); destruct sm; cbn; rewrite <- ?app_assoc; reflexivity.
    + destruct sm; cbn; rewrite <- ?app_assoc; reflexivity.
    + destruct sm; cbn; rewrite <- ?app_assoc; reflexivity.
    + destruct sm; reflexivity.
Qed.

Lemma ci_time_ok_info ro ci : ci_time_ok ro true ci = true.
Proof. reflexivity. Qed.

Lemma filter_true {A} (p : A -> bool) l : (forall x, p x = true) -> filter p l = l.
Proof. intro H. induction l as [|x l IH]; cbn [filter]; [reflexivity|]. rewrite H, IH. reflexivity. Qed.

(* Info: every schema, channel, chunk index, attachment index and metadata index record of the
   summary is listed, and the statistics are those of the (last) statistics record *)
Theorem C08_info_thm ds pre S ft :
  Forall wf_sitem S -> wf_footer ft ->
  f_summary_start ft = blen (render pre) -> 0 < f_summary_start ft -> f_summary_start ft < two63 ->
  let rs := map fst S in
  exists sm, info ds {| fs_data := summ_file pre S ft; fs_fail := None |} = Ok sm /\
    sm_footer sm = Some ft /\
    sm_schemas sm = tab_of s_id (schemas_of rs) [] /\
    sm_channels sm = tab_of c_id (channels_of rs) [] /\
    (forall id, tab_get id (sm_schemas sm) = find (fun s => s_id s =? id) (rev (schemas_of rs))) /\
    (forall id, tab_get id (sm_channels sm) = find (fun c => c_id c =? id) (rev (channels_of rs))) /\
    sm_ais sm = ais_of rs /\
    sm_mxs sm = mxs_of rs /\
    sm_cis sm = ci_sort FileOrder (cis_of rs) /\
    sm_stats sm = last_or (stats_of rs) None.
Proof.
  intros HW Wft Hss Hpos H63 rs. unfold info.
  rewrite (parse_summary_rendered_thm ds info_opts true pre S ft HW Wft Hss Hpos H63).
  fold rs. rewrite summ_fold_eq. eexists. split; [reflexivity|].
  unfold summ_finish. cbn.
  assert (Hc : filter (chan_sel info_opts) (channels_of rs) = channels_of rs) by (apply filter_true; reflexivity).
  assert (Hk : filter (ci_time_ok info_opts true) (cis_of rs) = cis_of rs) by (apply filter_true; reflexivity).
  rewrite Hc, Hk.
  split; [reflexivity|]. split; [reflexivity|]. split; [reflexivity|].
  split. { intro id. rewrite tab_get_tab_of. destruct (find _ _); reflexivity. }
  split. { intro id. rewrite tab_get_tab_of. destruct (find _ _); reflexivity. }
  repeat split; reflexivity.
Qed.

(* summary_start = 0: Info returns the footer and an empty summary *)
Theorem C08_info_no_summary_thm ds B ft :
  wf_footer ft -> f_summary_start ft = 0 ->
  info ds {| fs_data := B ++ frame OpFooter (enc_footer ft) ++ magic; fs_fail := None |} =
    Ok (empty_summ <| sm_footer := Some ft |>).
Proof. intros. apply parse_summary_no_summary_thm; assumption. Qed.

(* ====================================================================================== *)
(** * 4. the chunk loader of the indexed reader on rendered chunks (C02) *)

(* the records of a decompressed chunk: messages, and anything else (schemas, channels, unknown
   opcodes), which the indexed reader steps over *)
Inductive krec := KMsg (m : message) | KOther (op : byte) (body : bytes).
Definition krec_pair (r : krec) : byte * bytes :=
  match r with KMsg m => (OpMessage, enc_message m) | KOther op body => (op, body) end.
Definition krec_bytes (r : krec) : bytes := frame_of (krec_pair r).
Definition kplain (recs : list krec) : bytes := frames (map krec_pair recs).
Definition wf_krec (r : krec) : Prop :=
  match r with KMsg m => wf_message m | KOther op _ => op <> OpMessage end.
Definition kmsgs (recs : list krec) : list message :=
  flat_map (fun r => match r with KMsg m => [m] | _ => [] end) recs.

(* the selection test of walk *)
Definition ksel (sm : summ) (ro : ropts) (m : message) : bool :=
  match tab_get (m_chan m) (sm_channels sm) with Some _ => in_window ro (m_log m) | None => false end.

(* the queue entries of a chunk: (log time, offset of the record in the chunk, slot) of every
   selected message, in order *)
Fixpoint kentries (sm : summ) (ro : ropts) (slot : nat) (off : N) (recs : list krec) : list entry :=
  match recs with
  | [] => []
  | r :: rest =>
    match r with
    | KMsg m => if ksel sm ro m then [{| en_ts := m_log m; en_off := off; en_slot := slot |}] else []
    | KOther _ _ => []
    end ++ kentries sm ro slot (off + blen (krec_bytes r)) rest
  end.

Lemma kplain_cons r recs : kplain (r :: recs) = krec_bytes r ++ kplain recs.
Proof. reflexivity. Qed.

Lemma take9_frame op body rest : take 9 (frame op body ++ rest) = frame_head op (blen body).
Proof.
  unfold frame. rewrite <- app_assoc. rewrite <- (frame_head_blen op (blen body)) at 1. apply take_app_exact.
Qed.

Lemma frame_blen op body : blen (frame op body) = 9 + blen body.
Proof. unfold frame. rewrite blen_app, frame_head_blen. reflexivity. Qed.

Lemma kplain_length recs : (9 * length recs <= length (kplain recs))%nat.
Proof.
  induction recs as [|r recs IH]; [cbn; lia|]. rewrite kplain_cons, app_length. cbn [length].
  unfold krec_bytes, frame_of. rewrite frame_length. lia.
Qed.

Lemma walk_frames ro sm slot : forall recs fuel pre acc,
  Forall wf_krec recs -> blen (pre ++ kplain recs) < two64 -> (length recs < fuel)%nat ->
  walk ro sm fuel (pre ++ kplain recs) (blen pre) slot acc = Ok (acc ++ kentries sm ro slot (blen pre) recs).
Proof.
  induction recs as [|r recs IH]; intros fuel pre acc HW H64 Hfuel; (destruct fuel as [|fu]; [cbn [length] in Hfuel; lia|]).
  - cbn [walk kentries]. unfold kplain, frames. cbn [map concat]. rewrite !app_nil_r.
    destruct (N.leb_spec (blen pre) (blen pre)); [reflexivity|lia].
  - inversion HW as [|? ? Wr HW']; subst. cbn [length] in Hfuel.
    rewrite kplain_cons in *. unfold krec_bytes, frame_of in *.
    set (op := fst (krec_pair r)) in *. set (body := snd (krec_pair r)) in *.
    set (buf := pre ++ frame op body ++ kplain recs) in *.
    assert (Hsz : blen buf = blen pre + 9 + blen body + blen (kplain recs)).
    { unfold buf, frame. rewrite !blen_app, frame_head_blen. lia. }
    assert (Hhd : take 9 (drop (blen pre) buf) = frame_head op (blen body)).
    { unfold buf. rewrite drop_app_exact. apply take9_frame. }
    assert (Hbd : take (blen body) (drop (blen pre + 9) buf) = body).
    { unfold buf, frame. replace (blen pre + 9) with (blen (pre ++ frame_head op (blen body)))
        by (rewrite blen_app, frame_head_blen; reflexivity).
      rewrite <- !app_assoc, (app_assoc pre), drop_app_exact. apply take_app_exact. }
    assert (Hnext : buf = (pre ++ frame op body) ++ kplain recs) by (unfold buf; rewrite <- app_assoc; reflexivity).
    assert (Hoff : blen pre + 9 + blen body = blen (pre ++ frame op body)).
    { unfold frame. rewrite !blen_app, frame_head_blen. lia. }
    cbn [walk]. cbv zeta. rewrite Hhd.
    change (skipn 1 (frame_head op (blen body))) with (u64 (blen body)).
    change (match frame_head op (blen body) with [] => x00 | b :: _ => b end) with op.
    rewrite unle_u64 by lia. rewrite Hbd.
    destruct (N.leb_spec (blen buf) (blen pre)); [lia|].
    destruct (N.ltb_spec (blen buf) (blen pre + 9)); [lia|].
    destruct (N.leb_spec two64 (blen pre + 9 + blen body)); [lia|].
    destruct (N.ltb_spec (blen buf) (blen pre + 9 + blen body)); [lia|].
    rewrite Hoff, Hnext.
    destruct r as [m|op' body']; cbn [krec_pair fst snd] in op, body; subst op body.
    + change (Byte.eqb OpMessage OpMessage) with true. cbv iota.
      rewrite parse_enc_message by exact Wr. cbn [bind]. fold (ksel sm ro m).
      rewrite IH; [|exact HW'|rewrite <- Hnext; exact H64|lia].
      cbn [kentries krec_pair]. unfold krec_bytes, frame_of. cbn [krec_pair fst snd].
      rewrite <- Hoff. destruct (ksel sm ro m).
      * rewrite <- app_assoc, frame_blen, N.add_assoc. reflexivity.
      * rewrite frame_blen, N.add_assoc. reflexivity.
    + cbn [wf_krec] in Wr. rewrite (byte_eqb_neq _ _ Wr).
      rewrite IH; [|exact HW'|rewrite <- Hnext; exact H64|lia].
      cbn [kentries krec_pair app]. unfold krec_bytes, frame_of. cbn [krec_pair fst snd].
      rewrite <- Hoff. rewrite frame_blen, N.add_assoc. reflexivity.
Qed.

(* ---------- load_chunk_i ---------- *)
(* the chunk index ci designates the chunk record k of the file F *)
Definition chunk_at (F : bytes) (ci : chunkindex) (k : chunk) : Prop :=
  exists p post, F = render (p ++ IChunk k :: post)
                 /\ ci_offset ci = blen (render p) /\ ci_length ci = blen (render_item (IChunk k)).

Lemma chunk_plain_len dall k plain :
  Iter.chunk_plain dall k = Ok plain -> blen plain = k_usize k /\ k_usize k < max_int32.
Proof.
  unfold Iter.chunk_plain. destruct (N.leb_spec max_int32 (k_usize k)) as [L|L]; [discriminate|].
  destruct (bytes_eqb (k_comp k) []).
  - destruct (N.eqb_spec (blen (k_records k)) (k_usize k)) as [E|E]; [|discriminate].
    intro H. inversion H; subst. auto.
  - destruct (_ || _); [|discriminate]. destruct (dall _ _ _) as [p|]; [|discriminate].
    destruct (N.eqb_spec (blen p) (k_usize k)) as [E|E]; [|discriminate]. intro H. inversion H; subst. auto.
Qed.

(* uncompressed chunks *)
Lemma chunk_plain_uncompressed dall k :
  k_comp k = [] -> k_usize k = blen (k_records k) -> blen (k_records k) < max_int32 ->
  Iter.chunk_plain dall k = Ok (k_records k).
Proof.
  intros Hc Hu Hl. unfold Iter.chunk_plain. rewrite Hc, Hu.
  destruct (N.leb_spec max_int32 (blen (k_records k))); [lia|]. cbn [bytes_eqb].
  rewrite N.eqb_refl. reflexivity.
Qed.

(* zstd / lz4 chunks: the whole-buffer decoder is an oracle *)
Lemma chunk_plain_oracle (dall : dalloracle) k plain :
  k_comp k = comp_zstd \/ k_comp k = comp_lz4 ->
  dall (k_comp k) (k_records k) (k_usize k) = Some plain -> blen plain = k_usize k -> k_usize k < max_int32 ->
  Iter.chunk_plain dall k = Ok plain.
Proof.
  intros Hc Hd Hl Hu. unfold Iter.chunk_plain.
  destruct (N.leb_spec max_int32 (k_usize k)); [lia|]. rewrite Hd, Hl, N.eqb_refl.
  destruct Hc as [-> | ->]; reflexivity.
Qed.

Lemma load_chunk_i_rendered dall ro sm F ci k plain recs s :
  blen F < two63 -> chunk_at F ci k -> wf_chunk k ->
  Iter.chunk_plain dall k = Ok plain -> plain = kplain recs -> Forall wf_krec recs ->
  let new := kentries sm ro (islot s) 0 recs in
  exists s', load_chunk_i dall ro sm {| fs_data := F; fs_fail := None |} ci s = Ok s' /\
    i_slots s' = slot_set (i_slots s) (islot s) (N.of_nat (length new), plain) /\
    i_queue s' = merge_queue (ro_order ro) (i_queue s) new.
Proof.
  intros H63 (p & post & HF & Hoff & Hlen) Wk Hplain Hk HW new.
  set (f := {| fs_data := F; fs_fail := None |}).
  set (rec := frame OpChunk (enc_chunk k)).
  assert (HF' : F = render p ++ rec ++ render post).
  { rewrite HF, render_app, render_cons. reflexivity. }
  assert (Hsz : fs_size f = blen (render p) + blen rec + blen (render post)).
  { unfold fs_size, f. cbn [fs_data]. rewrite HF', !blen_app. lia. }
  assert (Hrec : blen rec = 9 + blen (enc_chunk k)) by apply frame_blen.
  cbn [render_item] in Hlen. fold rec in Hlen.
  destruct (chunk_plain_len _ _ _ Hplain) as [Hpl Hus].
  apply (load_chunk_i_ok dall ro sm f ci s rec (rd (render post) None true) k plain new).
  - unfold seek_ok. rewrite Hoff.
    destruct (N.ltb_spec 9223372036854775807 (blen (render p))) as [L|_].
    { unfold fs_size, f in Hsz. cbn [fs_data] in Hsz. unfold two63 in H63. lia. }
    destruct (N.leb_spec (fs_size f) (blen (render p))); [lia|reflexivity].
  - rewrite Hlen. destruct (N.ltb_spec (blen rec) 9); [lia|reflexivity].
  - rewrite Hlen, Hoff. destruct (N.ltb_spec (fs_size f - blen (render p)) (blen rec)); [lia|reflexivity].
  - unfold f. rewrite fs_stream_none, Hlen, Hoff, HF', drop_app_exact. apply rd_full_exact. reflexivity.
  - unfold rec, frame. rewrite skipn_app_exact' by (rewrite frame_head_length; reflexivity).
    rewrite <- (app_nil_r (enc_chunk k)). apply parse_enc_chunk, Wk.
  - exact Hplain.
  - subst plain. apply (walk_frames ro sm (islot s) recs (S (length (kplain recs))) [] []).
    + exact HW.
    + cbn [app]. unfold max_int32, two64 in *. lia.
    + pose proof (kplain_length recs). lia.
Qed.

(* ---------- the loader hypothesis of Iter.v ---------- *)
(* an abstract message stands for a message record *)
Definition msg_match (m : message) (a : amsg) : Prop := am_ts a = m_log m /\ am_chan a = m_chan m.

(* the pair (ci, c): ci designates a chunk record of F whose decompressed content is a sequence of
   framed records, the messages among them being (in order) the abstract messages of c *)
Definition rendered_chunk_ok (dall : dalloracle) (F : bytes) (ci : chunkindex) (c : achunk) : Prop :=
  exists k plain recs,
    chunk_at F ci k /\ wf_chunk k /\ Iter.chunk_plain dall k = Ok plain /\ plain = kplain recs
    /\ Forall wf_krec recs /\ Forall2 msg_match (kmsgs recs) (ac_msgs c).

Lemma kentries_match sm ro slot : forall recs off msgs,
  Forall2 msg_match (kmsgs recs) msgs ->
  Forall2 (fun e m => en_ts e = am_ts m /\ en_slot e = slot)
          (kentries sm ro slot off recs) (filter (tw_sel (sm_channels sm) ro) msgs).
Proof.
  induction recs as [|r recs IH]; intros off msgs H.
  - cbn [kmsgs flat_map] in H. inversion H; subst. constructor.
  - destruct r as [m|op body]; cbn [kmsgs flat_map app kentries] in *.
    + fold (kmsgs recs) in H. inversion H as [|? a ? msgs' [Ht Hc] H']; subst. cbn [filter].
      assert (E : tw_sel (sm_channels sm) ro a = ksel sm ro m).
      { unfold tw_sel, known_chan, ksel. rewrite Ht, Hc. destruct (tab_get _ _); reflexivity. }
      rewrite E. destruct (ksel sm ro m); cbn [app]; [constructor; [cbn; auto|]|]; apply IH; exact H'.
    + fold (kmsgs recs) in H. apply IH. exact H.
Qed.

Theorem C02_loader_ok_rendered_thm dall ro sm F pairs :
  blen F < two63 ->
  (forall ci c, In (ci, c) pairs -> rendered_chunk_ok dall F ci c) ->
  loader_ok dall ro sm {| fs_data := F; fs_fail := None |} (tw_sel (sm_channels sm) ro) pairs.
Proof.
  intros H63 Hall ci c s Hin.
  destruct (Hall ci c Hin) as (k & plain & recs & Hat & Wk & Hplain & Hk & HW & Hm).
  destruct (load_chunk_i_rendered dall ro sm F ci k plain recs s H63 Hat Wk Hplain Hk HW) as (s' & Hl & Hs & Hq).
  exists s', (kentries sm ro (islot s) 0 recs).
  split; [exact Hl|]. split; [apply kentries_match, Hm|]. split; [exact Hq|].
  rewrite Hs, slot_set_map. reflexivity.
Qed.

(* end to end, no loader hypothesis: an indexed read of a file all of whose indexed chunks are
   rendered chunks returns, when it ends with io.EOF, exactly the selected messages (log times),
   in the order of the abstract run *)
Theorem C02_indexed_read_rendered_thm dall ro sm F pairs fuel n cis cks ms st :
  blen F < two63 ->
  (forall ci c, In (ci, c) pairs -> rendered_chunk_ok dall F ci c) ->
  Forall2 (ci_match pairs) cis cks ->
  indexed_all dall fuel n ro sm {| fs_data := F; fs_fail := None |} (i_init ro cis) [] (O, O) = Ok (ms, EEOF, st) ->
  let sel := tw_sel (sm_channels sm) ro in
  exists out, a_read sel (ro_order ro) fuel n cks = Some (out, st) /\ map log_of ms = map am_ts out
              /\ Permutation out (filter sel (all_msgs cks)).
Proof.
  intros H63 Hall Hm H sel.
  pose proof (C02_loader_ok_rendered_thm dall ro sm F pairs H63 Hall) as HL.
  destruct (indexed_read_refines_thm dall ro sm _ sel pairs HL fuel n cis cks ms st Hm H) as (out & Hr & Hl).
  exists out. split; [exact Hr|]. split; [exact Hl|]. eapply a_read_perm; exact Hr.
Qed.

(* ====================================================================================== *)
(** * 5. the order of the summary records does not matter (C12) *)

Lemma summ_result_fields ro im rs ft :
  let sm := summ_finish ro (fold_left (summ_step ro im) rs (empty_summ <| sm_footer := Some ft |>)) in
  let chans := tab_of c_id (filter (chan_sel ro) (channels_of rs)) [] in
  let timed := filter (ci_time_ok ro im) (cis_of rs) in
  sm_schemas sm = tab_of s_id (schemas_of rs) [] /\
  sm_channels sm = chans /\
  sm_stats sm = last_or (stats_of rs) None /\
  sm_cis sm = ci_sort (ro_order ro) (match ro_topics ro with [] => timed | _ => filter (ci_topic_ok chans) timed end) /\
  sm_ais sm = ais_of rs /\ sm_mxs sm = mxs_of rs /\ sm_footer sm = Some ft.
Proof. cbv zeta. rewrite summ_fold_eq. unfold summ_finish. cbn. repeat split; reflexivity. Qed.

Lemma ci_before_asym o a b : ci_before o a b = true -> ci_before o b a = false.
Proof.
  destruct o; unfold ci_before.
  - lia.
  - destruct (N.eqb_spec (ci_start a) (ci_start b)), (N.eqb_spec (ci_start b) (ci_start a)); lia.
  - destruct (N.eqb_spec (ci_end a) (ci_end b)), (N.eqb_spec (ci_end b) (ci_end a)); lia.
Qed.
Definition ci_le (o : rorder) : chunkindex -> chunkindex -> Prop := gle (ci_before o).
Lemma ci_le_trans o a b c : ci_le o a b -> ci_le o b c -> ci_le o a c.
Proof.
  destruct o; unfold ci_le, gle, ci_before.
  - lia.
  - destruct (N.eqb_spec (ci_start b) (ci_start a)), (N.eqb_spec (ci_start c) (ci_start b)),
      (N.eqb_spec (ci_start c) (ci_start a)); lia.
  - destruct (N.eqb_spec (ci_end b) (ci_end a)), (N.eqb_spec (ci_end c) (ci_end b)),
      (N.eqb_spec (ci_end c) (ci_end a)); lia.
Qed.
Lemma ci_le_antisym_off o a b : ci_le o a b -> ci_le o b a -> ci_offset a = ci_offset b.
Proof.
  destruct o; unfold ci_le, gle, ci_before.
  - lia.
  - destruct (N.eqb_spec (ci_start b) (ci_start a)), (N.eqb_spec (ci_start a) (ci_start b)); lia.
  - destruct (N.eqb_spec (ci_end b) (ci_end a)), (N.eqb_spec (ci_end a) (ci_end b)); lia.
Qed.

(* the load order does not depend on the order of the chunk index records *)
Lemma ci_sort_deterministic o l l' :
  Permutation l l' -> NoDup (map ci_offset l) -> ci_sort o l = ci_sort o l'.
Proof.
  intros HP Hnd. rewrite !ci_sort_gsort. apply (sorted_perm_unique (ci_le o)).
  - intros a b Ha Hb H1 H2. apply (NoDup_map_inj_in ci_offset l).
    + exact Hnd.
    + eapply Permutation_in; [apply gsort_perm|exact Ha].
    + eapply Permutation_in; [apply gsort_perm|exact Hb].
    + eapply ci_le_antisym_off; eassumption.
  - apply gsort_sorted; [apply ci_before_asym|apply ci_le_trans].
  - apply gsort_sorted; [apply ci_before_asym|apply ci_le_trans].
  - rewrite !gsort_perm. exact HP.
Qed.

Lemma perm_filter {A} (p : A -> bool) l l' : Permutation l l' -> Permutation (filter p l) (filter p l').
Proof.
  induction 1 as [|x l l' H IH|x y l|l l' l'' H1 IH1 H2 IH2]; cbn [filter].
  - constructor.
  - destruct (p x); [apply perm_skip|]; exact IH.
  - destruct (p x), (p y); try reflexivity. apply perm_swap.
  - etransitivity; eassumption.
Qed.

Lemma NoDup_map_filter {A B} (f : A -> B) (p : A -> bool) l : NoDup (map f l) -> NoDup (map f (filter p l)).
Proof.
  induction l as [|x l IH]; cbn [map filter]; intro H; [constructor|].
  inversion H as [|? ? Hx Hnd]; subst. destruct (p x); [|apply IH, Hnd].
  cbn [map]. constructor; [|apply IH, Hnd]. intro HI. apply Hx.
  apply in_map_iff in HI. destruct HI as (y & Hy & Hin). apply filter_In in Hin.
  apply in_map_iff. exists y. split; [exact Hy|apply Hin].
Qed.

Lemma last_or_perm_le1 {A} (l l' : list A) d : Permutation l l' -> (length l <= 1)%nat -> last_or l d = last_or l' d.
Proof.
  intros HP Hl. destruct l as [|x [|y l]]; cbn [length] in Hl; try lia.
  - apply Permutation_nil in HP. subst. reflexivity.
  - apply Permutation_length_1_inv in HP. subst. reflexivity.
Qed.

Theorem C12_summary_order_thm ds ro im pre S S' ft ft' :
  Permutation S S' -> Forall wf_sitem S -> wf_footer ft -> wf_footer ft' ->
  f_summary_start ft = blen (render pre) -> f_summary_start ft' = f_summary_start ft ->
  0 < f_summary_start ft -> f_summary_start ft < two63 ->
  let rs := map fst S in
  NoDup (map s_id (schemas_of rs)) -> NoDup (map c_id (channels_of rs)) ->
  NoDup (map ci_offset (cis_of rs)) -> (length (stats_of rs) <= 1)%nat ->
  exists sm sm',
    parse_summary ds {| fs_data := summ_file pre S ft; fs_fail := None |} ro im = Ok sm /\
    parse_summary ds {| fs_data := summ_file pre S' ft'; fs_fail := None |} ro im = Ok sm' /\
    sm_schemas sm = sm_schemas sm' /\ sm_channels sm = sm_channels sm' /\
    Permutation (sm_ais sm) (sm_ais sm') /\ Permutation (sm_mxs sm) (sm_mxs sm') /\
    sm_cis sm = sm_cis sm' /\ sm_stats sm = sm_stats sm' /\
    can_use_index sm = can_use_index sm'.
Proof.
  intros HP HW Wft Wft' Hss Hss' Hpos H63 rs Ns Nc Nk Nst.
  assert (HW' : Forall wf_sitem S') by (eapply Permutation_Forall; eassumption).
  rewrite (parse_summary_rendered_thm ds ro im pre S ft HW Wft Hss Hpos H63).
  rewrite (parse_summary_rendered_thm ds ro im pre S' ft' HW' Wft') by (rewrite ?Hss'; assumption).
  fold rs. set (rs' := map fst S').
  assert (HPr : Permutation rs rs') by (apply Permutation_map, HP).
  destruct (summ_result_fields ro im rs ft) as (E1 & E2 & E3 & E4 & E5 & E6 & _).
  destruct (summ_result_fields ro im rs' ft') as (E1' & E2' & E3' & E4' & E5' & E6' & _).
  do 2 eexists. split; [reflexivity|]. split; [reflexivity|].
  assert (Hsch : tab_of s_id (schemas_of rs) [] = tab_of s_id (schemas_of rs') []).
  { apply tab_of_perm_eq; [apply Permutation_flat_map, HPr|exact Ns]. }
  assert (Hch : tab_of c_id (filter (chan_sel ro) (channels_of rs)) []
                = tab_of c_id (filter (chan_sel ro) (channels_of rs')) []).
  { apply tab_of_perm_eq; [apply perm_filter, Permutation_flat_map, HPr|apply NoDup_map_filter, Nc]. }
  assert (Hti : Permutation (filter (ci_time_ok ro im) (cis_of rs)) (filter (ci_time_ok ro im) (cis_of rs')))
    by (apply perm_filter, Permutation_flat_map, HPr).
  assert (Hcis : sm_cis (summ_finish ro (fold_left (summ_step ro im) rs (empty_summ <| sm_footer := Some ft |>)))
                 = sm_cis (summ_finish ro (fold_left (summ_step ro im) rs' (empty_summ <| sm_footer := Some ft' |>)))).
  { rewrite E4, E4', <- Hch. destruct (ro_topics ro).
    - apply ci_sort_deterministic; [exact Hti|apply NoDup_map_filter, Nk].
    - apply ci_sort_deterministic; [apply perm_filter, Hti|apply NoDup_map_filter, NoDup_map_filter, Nk]. }
  assert (Hst : last_or (stats_of rs) None = last_or (stats_of rs') None).
  { apply last_or_perm_le1; [apply Permutation_flat_map, HPr|exact Nst]. }
  split; [rewrite E1, E1'; exact Hsch|]. split; [rewrite E2, E2'; exact Hch|].
  split; [rewrite E5, E5'; apply Permutation_flat_map, HPr|].
  split; [rewrite E6, E6'; apply Permutation_flat_map, HPr|].
  split; [exact Hcis|]. split; [rewrite E3, E3'; exact Hst|].
  unfold can_use_index. rewrite Hcis, E2, E2', Hch, E3, E3', Hst. reflexivity.
Qed.

(* the same iterator is chosen for both layouts *)
Corollary C12_dispatch_thm ds pre S S' ft ft' os :
  Permutation S S' -> Forall wf_sitem S -> wf_footer ft -> wf_footer ft' ->
  f_summary_start ft = blen (render pre) -> f_summary_start ft' = f_summary_start ft ->
  0 < f_summary_start ft -> f_summary_start ft < two63 ->
  let rs := map fst S in
  NoDup (map s_id (schemas_of rs)) -> NoDup (map c_id (channels_of rs)) ->
  NoDup (map ci_offset (cis_of rs)) -> (length (stats_of rs) <= 1)%nat ->
  messages_dispatch ds {| fs_data := summ_file pre S ft; fs_fail := None |} os =
  messages_dispatch ds {| fs_data := summ_file pre S' ft'; fs_fail := None |} os.
Proof.
  intros HP HW Wft Wft' Hss Hss' Hpos H63 rs Ns Nc Nk Nst.
  destruct (C12_summary_order_thm ds info_opts true pre S S' ft ft' HP HW Wft Wft' Hss Hss' Hpos H63 Ns Nc Nk Nst)
    as (sm & sm' & P1 & P2 & _ & _ & _ & _ & _ & _ & Hc).
  unfold messages_dispatch, info. rewrite P1, P2.
  destruct (apply_opts os default_ropts) as [r| | | |]; cbn [bind]; try reflexivity.
  rewrite Hc. reflexivity.
Qed.

(* ====================================================================================== *)
(** * 6. boolean checkers and examples (non-vacuity) *)

Definition ignored_opb (op : byte) : bool :=
  negb (Byte.eqb op x00) && negb (Byte.eqb op OpChunk) && negb (Byte.eqb op OpAttachment)
  && negb (Byte.eqb op OpFooter) && negb (Byte.eqb op OpSchema) && negb (Byte.eqb op OpChannel)
  && negb (Byte.eqb op OpStatistics) && negb (Byte.eqb op OpChunkIndex)
  && negb (Byte.eqb op OpAttachmentIndex) && negb (Byte.eqb op OpMetadataIndex).

Lemma negb_eqb_neq a b : negb (Byte.eqb a b) = true -> a <> b.
Proof. intros H ->. rewrite byte_eqb_refl in H. discriminate. Qed.

Lemma ignored_opb_ok op : ignored_opb op = true -> ignored_op op.
Proof.
  unfold ignored_opb, ignored_op. rewrite !andb_true_iff.
  intros (((((((((H0 & H1) & H2) & H3) & H4) & H5) & H6) & H7) & H8) & H9).
  repeat split; apply negb_eqb_neq; assumption.
Qed.

Definition wf_srecb (r : srec) : bool :=
  match r with
  | SSchema s => wf_schemab s | SChannel c => wf_channelb c | SStats st => wf_statisticsb st
  | SChunkIdx ci => wf_chunkindexb ci | SAttIdx ai => wf_attindexb ai | SMdIdx mx => wf_mdindexb mx
  | SOther op _ => ignored_opb op
  end.
Definition wf_sitemb (x : srec * bytes) : bool :=
  wf_srecb (fst x) && (blen (srec_body (fst x) ++ snd x) <? max_int32).

Lemma wf_sitemb_ok S : forallb wf_sitemb S = true -> Forall wf_sitem S.
Proof.
  intro H. apply Forall_forall. intros x Hx. rewrite forallb_forall in H. specialize (H x Hx).
  unfold wf_sitemb in H. apply andb_true_iff in H. destruct H as [H1 H2]. split; [|lia].
  destruct (fst x); cbn [wf_srecb wf_srec] in *.
  - apply wf_schemab_iff, H1.
  - apply wf_channelb_iff, H1.
  - apply wf_statisticsb_iff, H1.
  - apply wf_chunkindexb_iff, H1.
  - apply wf_attindexb_iff, H1.
  - apply wf_mdindexb_iff, H1.
  - apply ignored_opb_ok, H1.
Qed.

Definition wf_krecb (r : krec) : bool :=
  match r with KMsg m => wf_messageb m | KOther op _ => negb (Byte.eqb op OpMessage) end.
Lemma wf_krecb_ok recs : forallb wf_krecb recs = true -> Forall wf_krec recs.
Proof.
  intro H. apply Forall_forall. intros r Hr. rewrite forallb_forall in H. specialize (H r Hr).
  destruct r; cbn [wf_krecb wf_krec] in *; [apply wf_messageb_iff, H|apply negb_eqb_neq, H].
Qed.

(* reading a summary item / the content of a chunk back into the structured form *)
Definition decode_srec (it : item) : option (srec * bytes) :=
  match it with
  | IRec op body =>
    if Byte.eqb op OpSchema then match parse_schema body with Ok x => Some (SSchema x, []) | _ => None end
    else if Byte.eqb op OpChannel then match parse_channel body with Ok x => Some (SChannel x, []) | _ => None end
    else if Byte.eqb op OpStatistics then match parse_statistics body with Ok x => Some (SStats x, []) | _ => None end
    else if Byte.eqb op OpChunkIndex then match parse_chunkindex body with Ok x => Some (SChunkIdx x, []) | _ => None end
    else if Byte.eqb op OpAttachmentIndex then match parse_attindex body with Ok x => Some (SAttIdx x, []) | _ => None end
    else if Byte.eqb op OpMetadataIndex then match parse_mdindex body with Ok x => Some (SMdIdx x, []) | _ => None end
    else Some (SOther op body, [])
  | _ => None
  end.
Definition decode_summary (l : list item) : list (srec * bytes) :=
  flat_map (fun it => match decode_srec it with Some x => [x] | None => [] end) l.
Definition decode_krec (r : byte * bytes) : krec :=
  if Byte.eqb (fst r) OpMessage
  then match parse_message (snd r) with Ok m => KMsg m | _ => KOther (fst r) (snd r) end
  else KOther (fst r) (snd r).
Definition decode_plain (b : bytes) : list krec := map decode_krec (split_records (length b) b).

(* ---------- a file produced by the writer model: chunk size 1, so every message closes a chunk;
   four chunks, an attachment, a metadata record, full summary with summary offsets ---------- *)
Definition y_o : wopts :=
  {| o_crc := true; o_chunked := true; o_chunksize := 1; o_comp := []; o_custom := false;
     o_skip_mi := false; o_skip_stats := false; o_skip_rsh := false; o_skip_rch := false;
     o_skip_ai := false; o_skip_mdi := false; o_skip_ci := false; o_skip_so := false;
     o_override_lib := false; o_skip_magic := false |}.
Definition y_cs : list wcall :=
  [CHeader {| h_profile := []; h_library := [] |};
   CSchema {| s_id := 1; s_name := [x73]; s_encoding := []; s_data := [x01] |};
   CChannel {| c_id := 1; c_schema := 1; c_topic := [x74]; c_menc := []; c_meta := [] |};
   CChannel {| c_id := 2; c_schema := 0; c_topic := [x75]; c_menc := []; c_meta := [([x6b], [x76])] |};
   CMessage {| m_chan := 1; m_seq := 0; m_log := 10; m_pub := 10; m_data := [x01; x02] |};
   CMessage {| m_chan := 2; m_seq := 0; m_log := 7; m_pub := 7; m_data := [x03] |};
   CAttachment {| a_log := 5; a_create := 6; a_name := [x61]; a_media := [x62]; a_size := 3; a_data := [] |}
               {| as_frags := [[x0a; x0b]; [x0c]]; as_fail := false |};
   CMessage {| m_chan := 1; m_seq := 1; m_log := 12; m_pub := 12; m_data := [] |};
   CMetadata {| md_name := [x6d]; md_meta := [([x61], [x62])] |};
   CMessage {| m_chan := 2; m_seq := 1; m_log := 3; m_pub := 3; m_data := [x04] |};
   CClose].
Definition y_R : wresult := W y_o [x6c] (fun _ b => b) None y_cs.
Definition y_F : bytes := file_of y_R.
Definition y_tr : list item := rev (w_trace (r_final y_R)).
(* magic, header, data section up to and including DataEnd *)
Definition y_pre : list item := firstn 13 y_tr.
(* schema, 2 channels, statistics, 4 chunk indexes, attachment index, metadata index, 6 summary offsets *)
Definition y_S : list (srec * bytes) := decode_summary (firstn 16 (skipn 13 y_tr)).
Definition y_ft : footer :=
  match nth 29 y_tr IMagic with
  | IFooter ss sos crc => {| f_summary_start := ss; f_summary_offset_start := sos; f_crc := crc |}
  | _ => {| f_summary_start := 0; f_summary_offset_start := 0; f_crc := 0 |}
  end.

Example y_writer_ok : r_new y_R = None /\ map fst (r_calls y_R) = repeat None 11.
Proof. vm_compute. split; reflexivity. Qed.

Example y_file_shape :
  y_F = summ_file y_pre y_S y_ft /\ length y_S = 16%nat /\
  map (fun x => srec_op (fst x)) y_S =
    [OpSchema; OpChannel; OpChannel; OpStatistics; OpChunkIndex; OpChunkIndex; OpChunkIndex; OpChunkIndex;
     OpAttachmentIndex; OpMetadataIndex; OpSummaryOffset; OpSummaryOffset; OpSummaryOffset; OpSummaryOffset;
     OpSummaryOffset; OpSummaryOffset].
Proof. vm_compute. repeat split. Qed.

Example y_info_hyps :
  Forall wf_sitem y_S /\ wf_footer y_ft /\ f_summary_start y_ft = blen (render y_pre)
  /\ 0 < f_summary_start y_ft /\ f_summary_start y_ft < two63.
Proof.
  split; [apply wf_sitemb_ok; vm_compute; reflexivity|].
  split; [apply wf_footerb_iff; vm_compute; reflexivity|].
  vm_compute. repeat split.
Qed.

Definition ds_none : doracle := fun _ avail pend => (avail, pend).

(* what Info returns on it *)
Example y_info_value :
  match info ds_none {| fs_data := y_F; fs_fail := None |} with
  | Ok sm => Some (map fst (sm_schemas sm), map fst (sm_channels sm), map ci_offset (sm_cis sm),
                   map ai_offset (sm_ais sm), map mx_offset (sm_mxs sm),
                   option_map st_messages (sm_stats sm), option_map f_summary_start (sm_footer sm))
  | _ => None
  end = Some ([1], [1; 2], [26; 226; 388; 527], [338], [499], Some 4, Some 652).
Proof. vm_compute. reflexivity. Qed.

(* the statistics Info reports are the statistics record of the writer *)
Example y_info_stats :
  match info ds_none {| fs_data := y_F; fs_fail := None |} with
  | Ok sm => sm_stats sm | _ => None end = Some (stats_record (r_final y_R)).
Proof. vm_compute. reflexivity. Qed.

Example y_info_applies :
  let rs := map fst y_S in
  exists sm, info ds_none {| fs_data := y_F; fs_fail := None |} = Ok sm /\
    sm_footer sm = Some y_ft /\
    sm_schemas sm = tab_of s_id (schemas_of rs) [] /\
    sm_channels sm = tab_of c_id (channels_of rs) [] /\
    (forall id, tab_get id (sm_schemas sm) = find (fun s => s_id s =? id) (rev (schemas_of rs))) /\
    (forall id, tab_get id (sm_channels sm) = find (fun c => c_id c =? id) (rev (channels_of rs))) /\
    sm_ais sm = ais_of rs /\ sm_mxs sm = mxs_of rs /\
    sm_cis sm = ci_sort FileOrder (cis_of rs) /\
    sm_stats sm = last_or (stats_of rs) None.
Proof.
  destruct y_file_shape as [E _]. rewrite E.
  destruct y_info_hyps as (H1 & H2 & H3 & H4 & H5).
  exact (C08_info_thm ds_none y_pre y_S y_ft H1 H2 H3 H4 H5).
Qed.

(* a file without summary: summary_start = 0 *)
Definition y_o_nosummary : wopts :=
  {| o_crc := true; o_chunked := false; o_chunksize := 0; o_comp := []; o_custom := false;
     o_skip_mi := true; o_skip_stats := true; o_skip_rsh := true; o_skip_rch := true;
     o_skip_ai := true; o_skip_mdi := true; o_skip_ci := true; o_skip_so := true;
     o_override_lib := false; o_skip_magic := false |}.
Definition y_R0 : wresult := W y_o_nosummary [x6c] (fun _ b => b) None y_cs.
Definition y_ft0 : footer :=
  match nth 1 (w_trace (r_final y_R0)) IMagic with
  | IFooter ss sos crc => {| f_summary_start := ss; f_summary_offset_start := sos; f_crc := crc |}
  | _ => {| f_summary_start := 1; f_summary_offset_start := 0; f_crc := 0 |}
  end.
Example y_no_summary_hyps :
  wf_footer y_ft0 /\ f_summary_start y_ft0 = 0 /\ f_crc y_ft0 <> 0 /\
  file_of y_R0 = firstn (length (file_of y_R0) - 37) (file_of y_R0) ++ frame OpFooter (enc_footer y_ft0) ++ magic /\
  info ds_none {| fs_data := file_of y_R0; fs_fail := None |} = Ok (empty_summ <| sm_footer := Some y_ft0 |>).
Proof.
  split; [apply wf_footerb_iff; vm_compute; reflexivity|]. split; [vm_compute; reflexivity|].
  split; [vm_compute; discriminate|].
  split; vm_compute; reflexivity.
Qed.

(* ---------- C12: the summary records in reverse order ---------- *)
Definition y_S' : list (srec * bytes) := rev y_S.
Definition y_ro (topics : list bytes) (o : rorder) : ropts :=
  {| ro_start := 0; ro_end := 0; ro_topics := topics; ro_use_index := true; ro_order := o;
     ro_md_cb := false; ro_start_n := 0; ro_end_n := max_u64; ro_unbounded := true |}.

Example y_order_hyps :
  let rs := map fst y_S in
  Permutation y_S y_S' /\ y_S <> y_S' /\
  NoDup (map s_id (schemas_of rs)) /\ NoDup (map c_id (channels_of rs)) /\
  NoDup (map ci_offset (cis_of rs)) /\ (length (stats_of rs) <= 1)%nat /\
  f_summary_start y_ft = f_summary_start y_ft.
Proof.
  split; [apply Permutation_rev|]. split; [vm_compute; discriminate|].
  split; [apply nodupNb_ok; vm_compute; reflexivity|].
  split; [apply nodupNb_ok; vm_compute; reflexivity|].
  split; [apply nodupNb_ok; vm_compute; reflexivity|].
  split; [vm_compute; lia|reflexivity].
Qed.

Example y_order_applies : forall ro im,
  exists sm sm',
    parse_summary ds_none {| fs_data := y_F; fs_fail := None |} ro im = Ok sm /\
    parse_summary ds_none {| fs_data := summ_file y_pre y_S' y_ft; fs_fail := None |} ro im = Ok sm' /\
    sm_schemas sm = sm_schemas sm' /\ sm_channels sm = sm_channels sm' /\
    Permutation (sm_ais sm) (sm_ais sm') /\ Permutation (sm_mxs sm) (sm_mxs sm') /\
    sm_cis sm = sm_cis sm' /\ sm_stats sm = sm_stats sm' /\
    can_use_index sm = can_use_index sm'.
Proof.
  intros ro im. destruct y_file_shape as [E _]. rewrite E.
  destruct y_info_hyps as (H1 & H2 & H3 & H4 & H5).
  destruct y_order_hyps as (P & _ & N1 & N2 & N3 & N4 & _).
  exact (C12_summary_order_thm ds_none ro im y_pre y_S y_S' y_ft y_ft P H1 H2 H2 H3 eq_refl H4 H5 N1 N2 N3 N4).
Qed.

(* reading only topic "u" (channel 2) in log-time order: both layouts keep the chunks at 226 and 527,
   loaded in the order 527 (start 3), 226 (start 7) *)
Example y_order_value :
  let r := y_ro [[x75]] LogTimeOrder in
  let view x := match x with Ok sm => Some (map ci_offset (sm_cis sm), map fst (sm_channels sm)) | _ => None end in
  view (parse_summary ds_none {| fs_data := y_F; fs_fail := None |} r false) = Some ([527; 226], [2]) /\
  view (parse_summary ds_none {| fs_data := summ_file y_pre y_S' y_ft; fs_fail := None |} r false) = Some ([527; 226], [2]).
Proof. vm_compute. split; reflexivity. Qed.

(* with a repeated channel id the last record wins, so the order matters: the distinctness
   hypotheses cannot be dropped *)
Example y_order_needs_distinct_ids :
  let c1 := {| c_id := 1; c_schema := 0; c_topic := [x61]; c_menc := []; c_meta := [] |} in
  let c2 := {| c_id := 1; c_schema := 0; c_topic := [x62]; c_menc := []; c_meta := [] |} in
  let S1 := [(SChannel c1, []); (SChannel c2, [])] in
  let ft := {| f_summary_start := 8; f_summary_offset_start := 0; f_crc := 0 |} in
  let view S := match info ds_none {| fs_data := summ_file [IMagic] S ft; fs_fail := None |} with
                | Ok sm => Some (map (fun kv => c_topic (snd kv)) (sm_channels sm)) | _ => None end in
  view S1 = Some [[x62]] /\ view (rev S1) = Some [[x61]].
Proof. vm_compute. split; reflexivity. Qed.

(* ---------- C02: the loader hypothesis for the four chunks of the file ---------- *)
Fixpoint chunks_at (off : N) (tr : list item) : list (N * chunk) :=
  match tr with
  | [] => []
  | it :: r => match it with IChunk k => [(off, k)] | _ => [] end ++ chunks_at (off + blen (render_item it)) r
  end.
Definition am_of (m : message) : amsg := {| am_ts := m_log m; am_chan := m_chan m; am_uid := N.to_nat (m_log m) |}.
Definition ac_of (x : N * chunk) : achunk :=
  {| ac_start := k_start (snd x); ac_end := k_end (snd x); ac_off := fst x;
     ac_msgs := map am_of (kmsgs (decode_plain (k_records (snd x)))) |}.
Definition y_cis : list chunkindex := w_chunk_indexes (r_final y_R).
Definition y_chunks : list (N * chunk) := chunks_at 0 y_tr.
Definition y_pairs : list (chunkindex * achunk) := combine y_cis (map ac_of y_chunks).

Example y_pairs_shape :
  length y_pairs = 4%nat /\ map (fun x => ci_offset (fst x)) y_pairs = [26; 226; 388; 527] /\
  map (fun x => map am_ts (ac_msgs (snd x))) y_pairs = [[10]; [7]; [12]; [3]] /\
  map (fun x => length (decode_plain (k_records (snd x)))) y_chunks = [4; 1; 1; 1]%nat.
Proof. vm_compute. repeat split. Qed.

Lemma rendered_chunk_ok_intro dall F i tr k ci c :
  F = render tr -> nth_error tr i = Some (IChunk k) ->
  ci_offset ci = blen (render (firstn i tr)) -> ci_length ci = blen (render_item (IChunk k)) ->
  wf_chunk k -> Iter.chunk_plain dall k = Ok (kplain (decode_plain (k_records k))) ->
  Forall wf_krec (decode_plain (k_records k)) ->
  Forall2 msg_match (kmsgs (decode_plain (k_records k))) (ac_msgs c) ->
  rendered_chunk_ok dall F ci c.
Proof.
  intros HF Hn Ho Hl Wk Hp HW Hm. exists k, (kplain (decode_plain (k_records k))), (decode_plain (k_records k)).
  split; [|auto 10]. exists (firstn i tr), (skipn (S i) tr). split; [|auto].
  rewrite HF. f_equal. rewrite <- (firstn_skipn i tr) at 1. f_equal.
  clear - Hn. revert i Hn. induction tr as [|x tr IH]; intros [|i] Hn; try discriminate.
  - inversion Hn; subst. reflexivity.
  - cbn [nth_error] in Hn. cbn [skipn]. rewrite IH by exact Hn. reflexivity.
Qed.

Lemma map_am_of_match l : Forall2 msg_match l (map am_of l).
Proof. induction l; cbn [map]; constructor; [split; reflexivity|assumption]. Qed.

Ltac y_chunk i :=
  eapply (rendered_chunk_ok_intro x_dall y_F i y_tr);
  [ vm_compute; reflexivity | vm_compute; reflexivity | vm_compute; reflexivity | vm_compute; reflexivity
  | apply wf_chunkb_iff; vm_compute; reflexivity | vm_compute; reflexivity
  | apply wf_krecb_ok; vm_compute; reflexivity | apply map_am_of_match ].

Definition y_pairs_list : list (chunkindex * achunk) :=
  [ (nth 0 y_cis x_ci, ac_of (nth 0 y_chunks (0, x_chunk)));
    (nth 1 y_cis x_ci, ac_of (nth 1 y_chunks (0, x_chunk)));
    (nth 2 y_cis x_ci, ac_of (nth 2 y_chunks (0, x_chunk)));
    (nth 3 y_cis x_ci, ac_of (nth 3 y_chunks (0, x_chunk))) ].
Example y_pairs_list_eq : y_pairs = y_pairs_list.
Proof. vm_compute. reflexivity. Qed.

Example y_chunks_ok : forall ci c, In (ci, c) y_pairs -> rendered_chunk_ok x_dall y_F ci c.
Proof.
  assert (H : Forall (fun x => rendered_chunk_ok x_dall y_F (fst x) (snd x)) y_pairs_list).
  { unfold y_pairs_list.
    constructor; [|constructor; [|constructor; [|constructor; [|constructor]]]]; cbn [fst snd].
    - y_chunk 2%nat.
    - y_chunk 4%nat.
    - y_chunk 7%nat.
    - y_chunk 10%nat. }
  intros ci c Hin. rewrite y_pairs_list_eq in Hin. rewrite Forall_forall in H. exact (H (ci, c) Hin).
Qed.

Lemma ci_match_sub pairs : forall sub, incl sub pairs ->
  Forall (fun x => ci_start (fst x) = ac_start (snd x) /\ ci_end (fst x) = ac_end (snd x)
                   /\ ci_offset (fst x) = ac_off (snd x)) sub ->
  Forall2 (ci_match pairs) (map fst sub) (map snd sub).
Proof.
  induction sub as [|[ci c] sub IH]; intros Hi HF; cbn [map]; [constructor|].
  inversion HF as [|? ? Hx HF']; subst. cbn [fst snd] in *. constructor.
  - split; [apply Hi; left; reflexivity|exact Hx].
  - apply IH; [|exact HF']. intros y Hy. apply Hi. right. exact Hy.
Qed.
Lemma ci_match_pairs pairs :
  Forall (fun x => ci_start (fst x) = ac_start (snd x) /\ ci_end (fst x) = ac_end (snd x)
                   /\ ci_offset (fst x) = ac_off (snd x)) pairs ->
  Forall2 (ci_match pairs) (map fst pairs) (map snd pairs).
Proof. apply ci_match_sub. intros y Hy. exact Hy. Qed.

Example y_loader_ok : forall ro sm,
  loader_ok x_dall ro sm {| fs_data := y_F; fs_fail := None |} (tw_sel (sm_channels sm) ro) y_pairs.
Proof.
  intros ro sm. apply C02_loader_ok_rendered_thm; [vm_compute; reflexivity|exact y_chunks_ok].
Qed.

(* the summary the indexed reader works with, and a complete read in log-time order *)
Definition y_sm (ro : ropts) : summ :=
  match parse_summary ds_none {| fs_data := y_F; fs_fail := None |} ro false with Ok sm => sm | _ => empty_summ end.
Notation y_read ro :=
  (indexed_all x_dall 12 12 ro (y_sm ro) {| fs_data := y_F; fs_fail := None |} (i_init ro y_cis) [] (O, O)).
Notation y_ro1 := (y_ro [] LogTimeOrder).

Example y_read_value :
  match y_read y_ro1 with
  | Ok (ms, e, st) => Some (map log_of ms, e, st) | _ => None end = Some ([3; 7; 10; 12], EEOF, (1, 0)%nat) /\
  match y_read (y_ro [[x75]] ReverseLogTimeOrder) with
  | Ok (ms, e, st) => Some (map log_of ms, e, st) | _ => None end = Some ([7; 3], EEOF, (1, 0)%nat).
Proof. vm_compute. split; reflexivity. Qed.

Example y_end_to_end_hyps :
  blen y_F < two63 /\
  (forall ci c, In (ci, c) y_pairs -> rendered_chunk_ok x_dall y_F ci c) /\
  Forall2 (ci_match y_pairs) y_cis (map snd y_pairs) /\
  exists ms st, y_read y_ro1 = Ok (ms, EEOF, st).
Proof.
  split; [vm_compute; reflexivity|]. split; [exact y_chunks_ok|]. split.
  - assert (E : y_cis = map fst y_pairs) by (vm_compute; reflexivity). rewrite E.
    apply ci_match_pairs. rewrite y_pairs_list_eq. unfold y_pairs_list.
    constructor; [vm_compute; repeat split|]. constructor; [vm_compute; repeat split|].
    constructor; [vm_compute; repeat split|]. constructor; [vm_compute; repeat split|]. constructor.
  - destruct y_read_value as [H _].
    destruct (y_read y_ro1) as [[[ms e] st]| | | |]; try discriminate.
    exists ms, st. inversion H. reflexivity.
Qed.

Example y_end_to_end_applies :
  let sel := tw_sel (sm_channels (y_sm y_ro1)) y_ro1 in
  exists ms st out, y_read y_ro1 = Ok (ms, EEOF, st) /\
    a_read sel (ro_order y_ro1) 12 12 (map snd y_pairs) = Some (out, st) /\ map log_of ms = map am_ts out
    /\ Permutation out (filter sel (all_msgs (map snd y_pairs))).
Proof.
  intros sel. destruct y_end_to_end_hyps as (H1 & H2 & H3 & ms & st & H4).
  exists ms, st.
  destruct (C02_indexed_read_rendered_thm x_dall y_ro1 (y_sm y_ro1) y_F y_pairs 12 12 y_cis (map snd y_pairs) ms st H1 H2 H3 H4)
    as (out & Ha & Hb & Hc).
  exists out. split; [exact H4|]. split; [exact Ha|]. split; [exact Hb|exact Hc].
Qed.

(* the other theorems of sections 3 and 4 on the same file *)
Example y_parse_summary_applies : forall ro im,
  parse_summary ds_none {| fs_data := y_F; fs_fail := None |} ro im =
    Ok (summ_finish ro (fold_left (summ_step ro im) (map fst y_S) (empty_summ <| sm_footer := Some y_ft |>))).
Proof.
  intros ro im. destruct y_file_shape as [E _]. rewrite E.
  destruct y_info_hyps as (H1 & H2 & H3 & H4 & H5).
  exact (parse_summary_rendered_thm ds_none ro im y_pre y_S y_ft H1 H2 H3 H4 H5).
Qed.

Example y_dispatch_applies : forall os,
  messages_dispatch ds_none {| fs_data := y_F; fs_fail := None |} os =
  messages_dispatch ds_none {| fs_data := summ_file y_pre y_S' y_ft; fs_fail := None |} os.
Proof.
  intro os. destruct y_file_shape as [E _]. rewrite E.
  destruct y_info_hyps as (H1 & H2 & H3 & H4 & H5).
  destruct y_order_hyps as (P & _ & N1 & N2 & N3 & N4 & _).
  exact (C12_dispatch_thm ds_none y_pre y_S y_S' y_ft y_ft os P H1 H2 H2 H3 eq_refl H4 H5 N1 N2 N3 N4).
Qed.

(* summary offset records are ignored records of the summary *)
Lemma wf_so_item so : wf_sitem (so_srec so, []).
Proof.
  split.
  - cbn [fst so_srec wf_srec]. apply ignored_opb_ok. reflexivity.
  - cbn [fst snd so_srec srec_body]. rewrite app_nil_r. unfold enc_sumoffset, blen.
    cbn [length]. rewrite app_length, !u64_length. reflexivity.
Qed.

(* ---------- a compressed chunk: compression name zstd, the codec is an oracle (here: identity) ---------- *)
Definition z_o : wopts :=
  {| o_crc := true; o_chunked := true; o_chunksize := 4096; o_comp := comp_zstd; o_custom := true;
     o_skip_mi := false; o_skip_stats := false; o_skip_rsh := false; o_skip_rch := false;
     o_skip_ai := false; o_skip_mdi := false; o_skip_ci := false; o_skip_so := false;
     o_override_lib := false; o_skip_magic := false |}.
Definition z_R : wresult := W z_o [x6c] (fun _ b => b) None y_cs.
Definition z_F : bytes := file_of z_R.
Definition z_tr : list item := rev (w_trace (r_final z_R)).
Definition z_dall : dalloracle := fun _ payload _ => Some payload.
Definition z_ci : chunkindex := nth 0 (w_chunk_indexes (r_final z_R)) x_ci.
Definition z_ac : achunk := ac_of (nth 0 (chunks_at 0 z_tr) (0, x_chunk)).

Example z_shape :
  r_new z_R = None /\ map fst (r_calls z_R) = repeat None 11 /\
  map (fun x => k_comp (snd x)) (chunks_at 0 z_tr) = [comp_zstd] /\ map am_ts (ac_msgs z_ac) = [10; 7; 12; 3].
Proof. vm_compute. repeat split. Qed.

Example z_chunk_plain_oracle :
  let k := snd (nth 0 (chunks_at 0 z_tr) (0, x_chunk)) in
  (k_comp k = comp_zstd \/ k_comp k = comp_lz4) /\
  z_dall (k_comp k) (k_records k) (k_usize k) = Some (k_records k) /\ blen (k_records k) = k_usize k
  /\ k_usize k < max_int32.
Proof. vm_compute. repeat split. left. reflexivity. Qed.

Example z_chunk_plain_applies :
  let k := snd (nth 0 (chunks_at 0 z_tr) (0, x_chunk)) in Iter.chunk_plain z_dall k = Ok (k_records k).
Proof.
  intro k. destruct z_chunk_plain_oracle as (H1 & H2 & H3 & H4). exact (chunk_plain_oracle z_dall k _ H1 H2 H3 H4).
Qed.

Example z_chunk_ok : rendered_chunk_ok z_dall z_F z_ci z_ac.
Proof.
  eapply (rendered_chunk_ok_intro z_dall z_F 4%nat z_tr);
  [ vm_compute; reflexivity | vm_compute; reflexivity | vm_compute; reflexivity | vm_compute; reflexivity
  | apply wf_chunkb_iff; vm_compute; reflexivity | vm_compute; reflexivity
  | apply wf_krecb_ok; vm_compute; reflexivity | apply map_am_of_match ].
Qed.

(* an uncompressed chunk, for chunk_plain_uncompressed *)
Example y_chunk_plain_uncompressed :
  let k := snd (nth 0 y_chunks (0, x_chunk)) in
  k_comp k = [] /\ k_usize k = blen (k_records k) /\ blen (k_records k) < max_int32.
Proof. vm_compute. repeat split. Qed.

(* ---------- Info, with the summary offset records written separately ---------- *)
Definition so_item (so : sumoffset) : item := IRec OpSummaryOffset (enc_sumoffset so).

Lemma map_so_items offs : map sum_item (map (fun so => (so_srec so, [])) offs) = map so_item offs.
Proof.
  induction offs as [|so offs IH]; [reflexivity|]. cbn [map]. rewrite IH. f_equal.
Qed.

Lemma flat_map_so {B} (g : srec -> list B) (offs : list sumoffset) :
  (forall op body, g (SOther op body) = []) ->
  flat_map g (map fst (map (fun so => (so_srec so, @nil byte)) offs)) = [].
Proof.
  intro Hg. induction offs as [|so offs IH]; [reflexivity|]. cbn [map flat_map fst]. unfold so_srec at 1.
  rewrite Hg, IH. reflexivity.
Qed.

Theorem C08_info_offs_thm ds pre (summary : list (srec * bytes)) (offs : list sumoffset) ss sos crc :
  let ft := {| f_summary_start := ss; f_summary_offset_start := sos; f_crc := crc |} in
  let F := render (pre ++ map sum_item summary ++ map so_item offs ++ [IFooter ss sos crc; IMagic]) in
  Forall wf_sitem summary -> wf_footer ft ->
  ss = blen (render pre) -> 0 < ss -> ss < two63 ->
  let rs := map fst summary in
  exists sm, info ds {| fs_data := F; fs_fail := None |} = Ok sm /\
    sm_footer sm = Some ft /\
    sm_schemas sm = tab_of s_id (schemas_of rs) [] /\
    sm_channels sm = tab_of c_id (channels_of rs) [] /\
    (forall id, tab_get id (sm_schemas sm) = find (fun s => s_id s =? id) (rev (schemas_of rs))) /\
    (forall id, tab_get id (sm_channels sm) = find (fun c => c_id c =? id) (rev (channels_of rs))) /\
    sm_ais sm = ais_of rs /\
    sm_mxs sm = mxs_of rs /\
    sm_cis sm = ci_sort FileOrder (cis_of rs) /\
    sm_stats sm = last_or (stats_of rs) None.
Proof.
  intros ft F HW Wft Hss Hpos H63 rs.
  set (S := summary ++ map (fun so => (so_srec so, [])) offs).
  assert (HF : F = summ_file pre S ft).
  { unfold F, summ_file, S, footer_item, ft. cbn [f_summary_start f_summary_offset_start f_crc].
    rewrite map_app, map_so_items, <- app_assoc. reflexivity. }
  assert (HWS : Forall wf_sitem S).
  { unfold S. apply Forall_app. split; [exact HW|]. apply Forall_forall. intros x Hx.
    apply in_map_iff in Hx. destruct Hx as (so & <- & _). apply wf_so_item. }
  destruct (C08_info_thm ds pre S ft HWS Wft Hss Hpos H63) as (sm & Hi & R).
  exists sm. rewrite HF. split; [exact Hi|].
  assert (E : forall B (g : srec -> list B), (forall op body, g (SOther op body) = []) ->
              flat_map g (map fst S) = flat_map g rs).
  { intros B g Hg. unfold S, rs. rewrite map_app, flat_map_app, flat_map_so by exact Hg. apply app_nil_r. }
  unfold schemas_of, channels_of, stats_of, cis_of, ais_of, mxs_of in *.
  rewrite !E in R by reflexivity. exact R.
Qed.

Example y_info_offs_hyps :
  let summary := firstn 10 y_S in
  let offs := [ {| so_op := OpSchema; so_start := 1; so_length := 2 |} ] in
  let ft := {| f_summary_start := 652; f_summary_offset_start := 0; f_crc := 0 |} in
  Forall wf_sitem summary /\ wf_footer ft /\ 652 = blen (render y_pre) /\ 0 < 652 /\ 652 < two63 /\ length offs = 1%nat.
Proof.
  cbv zeta. split; [apply wf_sitemb_ok; vm_compute; reflexivity|].
  split; [apply wf_footerb_iff; vm_compute; reflexivity|]. vm_compute. repeat split.
Qed.
