(* DecisionsR_gen.v - GENERATED on every run by tools/gen_decisions.py from the Go AST of /repo/go/mcap
   (indexed_message_iterator.go, unindexed_message_iterator.go, reader_options.go, mcap.go) through tools/gotrans.
   Do not edit. Each definition is one boolean decision of the code, over the model's state. *)
From Coq Require Import List NArith ZArith Bool.
From Mcap Require Import Bytes GoSem Records Lexer Writer Reader.
Import ListNotations.

Definition go_notnil {A} (x : option A) : bool := match x with Some _ => true | None => false end.
Definition go_isnil {A} (x : option A) : bool := match x with Some _ => false | None => true end.

Definition go_ci_less_FileOrder (a b : chunkindex) : bool :=
  (N.ltb (ci_offset a) (ci_offset b)).
Definition go_ci_less_LogTimeOrder (a b : chunkindex) : bool :=
  (if (N.eqb (ci_start a) (ci_start b)) then (N.ltb (ci_offset a) (ci_offset b)) else (N.ltb (ci_start a) (ci_start b))).
Definition go_ci_less_ReverseLogTimeOrder (a b : chunkindex) : bool :=
  (if (N.eqb (ci_end a) (ci_end b)) then (N.ltb (ci_offset b) (ci_offset a)) else (N.ltb (ci_end b) (ci_end a))).
Definition go_ci_overlap (ro : ropts) (ci : chunkindex) : bool :=
  (orb (andb (N.eqb (ro_end_n ro) 0%N) (N.eqb (ro_start_n ro) 0%N)) (andb (orb (N.ltb (ci_start ci) (ro_end_n ro)) (ro_unbounded ro)) (N.leb (ro_start_n ro) (ci_end ci)))).
Definition go_en_less_LogTimeOrder (a b : entry) : bool :=
  (N.ltb (en_ts a) (en_ts b)).
Definition go_en_less_ReverseLogTimeOrder (a b : entry) : bool :=
  (N.ltb (en_ts b) (en_ts a)).
Definition go_msg_select_indexed (ro : ropts) (chans : list (N * channel)) (is_msg : bool) (m : message) : bool :=
  (andb (andb (is_msg) (go_notnil (tab_get (m_chan m) chans))) (andb (N.leb (ro_start_n ro) (m_log m)) (orb (N.ltb (m_log m) (ro_end_n ro)) (ro_unbounded ro)))).
Definition go_load_first (ro : ropts) (ci : chunkindex) (e : entry) : bool :=
  (orb (andb (rorder_eqb (ro_order ro) (LogTimeOrder)) (N.ltb (ci_start ci) (en_ts e))) (andb (rorder_eqb (ro_order ro) (ReverseLogTimeOrder)) (N.ltb (en_ts e) (ci_end ci)))).
Definition go_prune_init (ci : chunkindex) : bool :=
  (N.eqb (N.of_nat (List.length (ci_mioffsets ci))) 0%N).
Definition go_prune_hit (chans : list (N * channel)) (chanID : N) : bool :=
  (go_notnil (tab_get chanID chans)).
Definition go_u_chan_select (ro : ropts) (t : bytes) : bool :=
  (orb (N.eqb (N.of_nat (List.length (ro_topics ro))) 0%N) (mem_bytes t (ro_topics ro))).
Definition go_u_msg_window (ro : ropts) (m : message) : bool :=
  (andb (N.leb (ro_start_n ro) (m_log m)) (orb (N.ltb (m_log m) (ro_end_n ro)) (ro_unbounded ro))).
Definition go_opt_After_err (r : ropts) (x : Z) : bool :=
  (andb (Z.ltb 0%Z (ro_end r)) (Z.ltb (ro_end r) (x))).
Definition go_opt_Before_err (r : ropts) (x : Z) : bool :=
  (Z.ltb (x) (ro_start r)).
Definition go_opt_AfterNanos_err (r : ropts) (x : N) : bool :=
  (N.ltb (ro_end_n r) (x)).
Definition go_opt_BeforeNanos_err (r : ropts) (x : N) : bool :=
  (N.ltb (x) (ro_start_n r)).
Definition go_opt_InOrder_err (r : ropts) (x : rorder) : bool :=
  (andb (negb (ro_use_index r)) (negb (rorder_eqb (x) (FileOrder)))).
Definition go_opt_UsingIndex_err (r : ropts) (x : bool) : bool :=
  (andb (negb (rorder_eqb (ro_order r) (FileOrder))) (negb (x))).
Definition go_finalize_start (r : ropts) : bool :=
  (andb (N.eqb (ro_start_n r) 0%N) (Z.ltb 0%Z (ro_start r))).
Definition go_finalize_end (r : ropts) : bool :=
  (andb (orb (N.eqb (ro_end_n r) 0%N) (ro_unbounded r)) (Z.ltb 0%Z (ro_end r))).
Definition go_can_use_index (sm : summ) : bool :=
  (orb (andb (N.ltb 0%N (N.of_nat (List.length (sm_cis sm)))) (N.ltb 0%N (N.of_nat (List.length (sm_channels sm))))) (andb (go_notnil (sm_stats sm)) (N.eqb (match sm_stats sm with Some st => st_messages st | None => 0%N end) 0%N))).
