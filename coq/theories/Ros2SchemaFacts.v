(* Ros2SchemaFacts.v - proofs about the model of the ROS 2 schema assembly (Ros2Schema.v):
   part 1: totality.  get_schema, scan_lines, get_schema_for, get_schemas produce Ok or Err for every input; the Panic
           site of fieldToQualifiedROSType is unreachable; the Panic site of the buffer access in getSchemas is
           unreachable from get_schema_for (an invariant of the loop; `assemble` alone can reach it from a state
           that get_schema_for never creates); the fuel `fs_weight t` always suffices;
   part 2: db3_to_mcap_fs;
   part 3: functional correctness on trees that realise an abstract universe of definitions. *)
From Coq Require Import List NArith ZArith Bool Lia ZifyN ZifyNat ZifyBool.
From Coq.Strings Require Import Byte.
From Mcap Require Import Bytes BytesFacts GoSem Records Writer Ros1Msg Ros1MsgFacts Db3 Db3Facts Ros2Schema.
Import ListNotations.
Open Scope nat_scope.
Open Scope go_scope.

(* ------------------------------------------------------------------------------------------ *)
(* strings.FieldsFunc / strings.Split on one byte                                              *)

Definition nonempty_b (e : bytes) : bool := match e with [] => false | _ => true end.
Definition noslash (c : bytes) : Prop := contains_byte 47 c = false.

Lemma nonempty_rev cur : nonempty_b (rev cur) = nonempty_b cur.
Proof. destruct cur; simpl; auto. destruct (rev cur); reflexivity. Qed.

Lemma fields_aux_filter sep s : forall cur,
  fields_aux sep s cur = filter nonempty_b (split_byte_aux sep s cur).
Proof.
  induction s as [|b r IH]; intros cur; simpl.
  - rewrite nonempty_rev. destruct cur; reflexivity.
  - destruct (is_byte b sep); simpl.
    + rewrite nonempty_rev. destruct cur; simpl; rewrite IH; reflexivity.
    + apply IH.
Qed.

(* FieldsFunc = the non-empty elements of Split *)
Lemma fields_filter sep s : fields_by sep s = filter nonempty_b (split_byte sep s).
Proof. apply fields_aux_filter. Qed.

Lemma contains_byte_rev c s : contains_byte c (rev s) = contains_byte c s.
Proof.
  induction s as [|b s IH]; simpl; auto.
  rewrite contains_byte_app, IH. simpl. rewrite orb_false_r. apply orb_comm.
Qed.

Lemma split_aux_comps sep s : forall cur, contains_byte sep cur = false ->
  Forall (fun c => contains_byte sep c = false) (split_byte_aux sep s cur).
Proof.
  induction s as [|b r IH]; intros cur Hc; simpl.
  - constructor; auto. rewrite contains_byte_rev. exact Hc.
  - destruct (is_byte b sep) eqn:E.
    + constructor; [rewrite contains_byte_rev; exact Hc|]. apply IH. reflexivity.
    + apply IH. simpl. rewrite E, Hc. reflexivity.
Qed.

Lemma split_comps sep s : Forall (fun c => contains_byte sep c = false) (split_byte sep s).
Proof. apply split_aux_comps. reflexivity. Qed.

Lemma fields_comps sep s c : In c (fields_by sep s) -> c <> [] /\ contains_byte sep c = false.
Proof.
  rewrite fields_filter, filter_In. intros [H1 H2]. split; [destruct c; [discriminate|congruence]|].
  pose proof (split_comps sep s) as H. rewrite Forall_forall in H. auto.
Qed.

Lemma fields_nosep sep c : c <> [] -> contains_byte sep c = false -> fields_by sep c = [c].
Proof. intros H1 H2. rewrite fields_filter, split_nosep by auto. destruct c; [congruence|reflexivity]. Qed.

Lemma fields_nil sep : fields_by sep [] = [].
Proof. reflexivity. Qed.

Lemma filter_all_true {A} (f : A -> bool) l : Forall (fun x => f x = true) l -> filter f l = l.
Proof. induction 1 as [|x l H _ IH]; simpl; [|rewrite H, IH]; reflexivity. Qed.

(* ------------------------------------------------------------------------------------------ *)
(* path.Join / path.Clean                                                                      *)

Lemma x2f_sep : is_byte x2f 47 = true. Proof. reflexivity. Qed.

Lemma split_join_slash cs : cs <> [] -> Forall noslash cs -> split_byte 47 (join_slash cs) = cs.
Proof.
  intros Hne H. induction H as [|l ls Hl Hls IH]; [congruence|].
  destruct ls as [|l2 ls]; [simpl; apply split_nosep; auto|].
  change (join_slash (l :: l2 :: ls)) with (l ++ x2f :: join_slash (l2 :: ls)).
  rewrite split_sep; auto. f_equal. apply IH. discriminate.
Qed.

Definition comp_ok (c : bytes) : Prop := c <> [] /\ noslash c.

Lemma fields_join_slash cs : Forall comp_ok cs -> fields_by 47 (join_slash cs) = cs.
Proof.
  intros H. rewrite fields_filter. destruct cs as [|c cs]; [reflexivity|].
  rewrite split_join_slash; [|discriminate|eapply Forall_impl; [|exact H]; intros a [_ Ha]; exact Ha].
  apply filter_all_true. eapply Forall_impl; [|exact H]. intros a [Ha _]. destruct a; [congruence|reflexivity].
Qed.

Lemma clean_rel_filter comps : forall st, clean_rel comps st = clean_rel (filter nonempty_b comps) st.
Proof.
  induction comps as [|c r IH]; intros st; [reflexivity|].
  destruct c as [|c0 cr]; [simpl; apply IH|].
  cbn [filter nonempty_b clean_rel].
  destruct (bytes_eqb (c0 :: cr) s_dot); [apply IH|].
  destruct (bytes_eqb (c0 :: cr) s_dotdot); [|apply IH].
  destruct st as [|top rest]; [apply IH|]. destruct (bytes_eqb top s_dotdot); apply IH.
Qed.

Lemma s_msg_word_eq : s_msg_word = [x6d; x73; x67]. Proof. reflexivity. Qed.
Lemma msg_noslash : noslash s_msg_word. Proof. reflexivity. Qed.
Lemma msg_comp_ok : comp_ok s_msg_word. Proof. split; [discriminate|reflexivity]. Qed.

(* path.Join(a, "msg", c) for a without '/' and c with exactly one field c1 between slashes *)
Lemma join_rel3 a c c1 : noslash a -> fields_by 47 c = [c1] ->
  join_rel [a; s_msg_word; c] =
  match clean_rel (filter nonempty_b [a] ++ [s_msg_word; c1]) [] with [] => s_dot | cs => join_slash cs end.
Proof.
  intros Ha Hc. destruct c as [|c0 cr]; [discriminate Hc|].
  rewrite fields_filter in Hc. unfold join_rel.
  destruct a as [|a0 ar].
  - cbn [filter nonempty_b]. rewrite s_msg_word_eq.
    cbn [filter nonempty_b join_slash app]. change (is_byte x6d 47) with false. cbv iota.
    change (x6d :: x73 :: x67 :: x2f :: c0 :: cr) with ([x6d; x73; x67] ++ x2f :: c0 :: cr).
    rewrite split_sep by reflexivity. rewrite clean_rel_filter.
    cbn [filter nonempty_b app]. rewrite Hc. reflexivity.
  - cbn [filter nonempty_b join_slash]. cbn [app]. unfold noslash in Ha. simpl in Ha.
    apply orb_false_iff in Ha. destruct Ha as [Ha0 Har]. rewrite Ha0. cbv iota.
    change (a0 :: ar ++ x2f :: s_msg_word ++ x2f :: c0 :: cr) with ((a0 :: ar) ++ x2f :: s_msg_word ++ x2f :: c0 :: cr).
    rewrite split_sep; [|simpl; rewrite Ha0, Har; reflexivity|reflexivity].
    rewrite split_sep by reflexivity. rewrite clean_rel_filter.
    cbn [filter nonempty_b]. rewrite s_msg_word_eq. cbn [filter nonempty_b app]. rewrite Hc. reflexivity.
Qed.

Lemma dot_fields : fields_by 47 s_dot = [s_dot]. Proof. reflexivity. Qed.

(* when the result has three or more fields it is exactly a/msg/c1 *)
Lemma join_rel3_three a c c1 : noslash a -> fields_by 47 c = [c1] ->
  3 <= length (fields_by 47 (join_rel [a; s_msg_word; c])) ->
  a <> [] /\ a <> s_dot /\ join_rel [a; s_msg_word; c] = join_slash [a; s_msg_word; c1] /\
  fields_by 47 (join_rel [a; s_msg_word; c]) = [a; s_msg_word; c1].
Proof.
  intros Ha Hc. rewrite (join_rel3 a c c1 Ha Hc).
  assert (Hc1 : comp_ok c1).
  { destruct (fields_comps 47 c c1) as [H1 H2]; [rewrite Hc; left; reflexivity|]. split; auto. }
  pose proof msg_comp_ok as Hm.
  destruct c1 as [|d0 dr]; [destruct Hc1; congruence|].
  destruct a as [|a0 ar].
  - cbn [filter nonempty_b app]. rewrite s_msg_word_eq in *. cbn [clean_rel].
    change (bytes_eqb [x6d; x73; x67] s_dot) with false. change (bytes_eqb [x6d; x73; x67] s_dotdot) with false.
    cbv iota.
    destruct (bytes_eqb (d0 :: dr) s_dot); [simpl; intros; lia|].
    destruct (bytes_eqb (d0 :: dr) s_dotdot); [simpl; intros; lia|].
    cbn [rev app]. rewrite fields_join_slash by (repeat constructor; auto; apply Hc1). simpl. intros; lia.
  - assert (Hao : comp_ok (a0 :: ar)) by (split; [discriminate|exact Ha]).
    cbn [filter nonempty_b app]. rewrite s_msg_word_eq in *. cbn [clean_rel].
    change (bytes_eqb [x6d; x73; x67] s_dot) with false. change (bytes_eqb [x6d; x73; x67] s_dotdot) with false.
    destruct (bytes_eqb (a0 :: ar) s_dot) eqn:Ea1.
    + cbv iota.
      destruct (bytes_eqb (d0 :: dr) s_dot); [simpl; intros; lia|].
      destruct (bytes_eqb (d0 :: dr) s_dotdot); [simpl; intros; lia|].
      cbn [rev app]. rewrite fields_join_slash by (repeat constructor; auto). simpl. intros; lia.
    + apply bytes_eqb_false in Ea1.
      destruct (bytes_eqb (a0 :: ar) s_dotdot) eqn:Ea2; cbv iota.
      * destruct (bytes_eqb (d0 :: dr) s_dot).
        { cbn [rev app]. rewrite fields_join_slash by (repeat constructor; auto). simpl. intros; lia. }
        destruct (bytes_eqb (d0 :: dr) s_dotdot).
        { change (bytes_eqb [x6d; x73; x67] s_dotdot) with false. cbv iota. cbn [rev app].
          rewrite fields_join_slash by (repeat constructor; auto). simpl. intros; lia. }
        cbn [rev app]. rewrite fields_join_slash by (repeat constructor; auto). intros _.
        repeat split; auto. discriminate.
      * destruct (bytes_eqb (d0 :: dr) s_dot).
        { cbn [rev app]. rewrite fields_join_slash by (repeat constructor; auto). simpl. intros; lia. }
        destruct (bytes_eqb (d0 :: dr) s_dotdot).
        { change (bytes_eqb [x6d; x73; x67] s_dotdot) with false. cbv iota. cbn [rev app].
          rewrite fields_join_slash by (repeat constructor; auto). simpl. intros; lia. }
        cbn [rev app]. rewrite fields_join_slash by (repeat constructor; auto). intros _.
        repeat split; auto. discriminate.
Qed.
