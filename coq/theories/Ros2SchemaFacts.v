(* Ros2SchemaFacts.v - proofs about the model of the ROS 2 schema assembly (Ros2Schema.v):
   part 1: totality.  get_schema, scan_lines, get_schema_for, get_schemas produce Ok or Err for every input; the Panic
           site of fieldToQualifiedROSType is unreachable; the Panic site of the buffer access in getSchemas is
           unreachable from get_schema_for (an invariant of the loop; `assemble` alone can reach it from a state
           that get_schema_for never creates); the fuel `fs_weight t` always suffices;
   part 2: db3_to_mcap_fs;
   part 3: functional correctness on trees that realise an abstract universe of definitions. *)
From Coq Require Import List NArith ZArith Bool Lia ZifyN ZifyNat ZifyBool.
From Coq.Strings Require Import Byte.
From Mcap Require Import Bytes BytesFacts GoSem Records Writer Ros1Msg Ros1MsgFacts Db3 Db3Facts Ros2Schema.
Import ListNotations.
Open Scope nat_scope.
Open Scope go_scope.

(* ------------------------------------------------------------------------------------------ *)
(* strings.FieldsFunc / strings.Split on one byte                                              *)

Definition nonempty_b (e : bytes) : bool := match e with [] => false | _ => true end.
Definition noslash (c : bytes) : Prop := contains_byte 47 c = false.

Lemma nonempty_rev cur : nonempty_b (rev cur) = nonempty_b cur.
Proof. destruct cur; simpl; auto. destruct (rev cur); reflexivity. Qed.

Lemma fields_aux_filter sep s : forall cur,
  fields_aux sep s cur = filter nonempty_b (split_byte_aux sep s cur).
Proof.
  induction s as [|b r IH]; intros cur; simpl.
  - rewrite nonempty_rev. destruct cur; reflexivity.
  - destruct (is_byte b sep); simpl.
    + rewrite nonempty_rev. destruct cur; simpl; rewrite IH; reflexivity.
    + apply IH.
Qed.

(* FieldsFunc = the non-empty elements of Split *)
Lemma fields_filter sep s : fields_by sep s = filter nonempty_b (split_byte sep s).
Proof. apply fields_aux_filter. Qed.

Lemma contains_byte_rev c s : contains_byte c (rev s) = contains_byte c s.
Proof.
  induction s as [|b s IH]; simpl; auto.
  rewrite contains_byte_app, IH. simpl. rewrite orb_false_r. apply orb_comm.
Qed.

Lemma split_aux_comps sep s : forall cur, contains_byte sep cur = false ->
  Forall (fun c => contains_byte sep c = false) (split_byte_aux sep s cur).
Proof.
  induction s as [|b r IH]; intros cur Hc; simpl.
  - constructor; auto. rewrite contains_byte_rev. exact Hc.
  - destruct (is_byte b sep) eqn:E.
    + constructor; [rewrite contains_byte_rev; exact Hc|]. apply IH. reflexivity.
    + apply IH. simpl. rewrite E, Hc. reflexivity.
Qed.

Lemma split_comps sep s : Forall (fun c => contains_byte sep c = false) (split_byte sep s).
Proof. apply split_aux_comps. reflexivity. Qed.

Lemma fields_comps sep s c : In c (fields_by sep s) -> c <> [] /\ contains_byte sep c = false.
Proof.
  rewrite fields_filter, filter_In. intros [H1 H2]. split; [destruct c; [discriminate|congruence]|].
  pose proof (split_comps sep s) as H. rewrite Forall_forall in H. auto.
Qed.

Lemma fields_nosep sep c : c <> [] -> contains_byte sep c = false -> fields_by sep c = [c].
Proof. intros H1 H2. rewrite fields_filter, split_nosep by auto. destruct c; [congruence|reflexivity]. Qed.

Lemma fields_nil sep : fields_by sep [] = [].
Proof. reflexivity. Qed.

Lemma filter_all_true {A} (f : A -> bool) l : Forall (fun x => f x = true) l -> filter f l = l.
Proof. induction 1 as [|x l H _ IH]; simpl; [|rewrite H, IH]; reflexivity. Qed.

(* ------------------------------------------------------------------------------------------ *)
(* path.Join / path.Clean                                                                      *)

Lemma x2f_sep : is_byte x2f 47 = true. Proof. reflexivity. Qed.

Lemma split_join_slash cs : cs <> [] -> Forall noslash cs -> split_byte 47 (join_slash cs) = cs.
Proof.
  intros Hne H. induction H as [|l ls Hl Hls IH]; [congruence|].
  destruct ls as [|l2 ls]; [simpl; apply split_nosep; auto|].
  change (join_slash (l :: l2 :: ls)) with (l ++ x2f :: join_slash (l2 :: ls)).
  rewrite split_sep; auto. f_equal. apply IH. discriminate.
Qed.

Definition comp_ok (c : bytes) : Prop := c <> [] /\ noslash c.

Lemma fields_join_slash cs : Forall comp_ok cs -> fields_by 47 (join_slash cs) = cs.
Proof.
  intros H. rewrite fields_filter. destruct cs as [|c cs]; [reflexivity|].
  rewrite split_join_slash; [|discriminate|eapply Forall_impl; [|exact H]; intros a [_ Ha]; exact Ha].
  apply filter_all_true. eapply Forall_impl; [|exact H]. intros a [Ha _]. destruct a; [congruence|reflexivity].
Qed.

Lemma clean_rel_filter comps : forall st, clean_rel comps st = clean_rel (filter nonempty_b comps) st.
Proof.
  induction comps as [|c r IH]; intros st; [reflexivity|].
  destruct c as [|c0 cr]; [simpl; apply IH|].
  cbn [filter nonempty_b clean_rel].
  destruct (bytes_eqb (c0 :: cr) s_dot); [apply IH|].
  destruct (bytes_eqb (c0 :: cr) s_dotdot); [|apply IH].
  destruct st as [|top rest]; [apply IH|]. destruct (bytes_eqb top s_dotdot); apply IH.
Qed.

Lemma s_msg_word_eq : s_msg_word = [x6d; x73; x67]. Proof. reflexivity. Qed.
Lemma msg_noslash : noslash s_msg_word. Proof. reflexivity. Qed.
Lemma msg_comp_ok : comp_ok s_msg_word. Proof. split; [discriminate|reflexivity]. Qed.

(* path.Join(a, "msg", c) for a without '/' and c with exactly one field c1 between slashes *)
Lemma join_rel3 a c c1 : noslash a -> fields_by 47 c = [c1] ->
  join_rel [a; s_msg_word; c] =
  match clean_rel (filter nonempty_b [a] ++ [s_msg_word; c1]) [] with [] => s_dot | cs => join_slash cs end.
Proof.
  intros Ha Hc. destruct c as [|c0 cr]; [discriminate Hc|].
  rewrite fields_filter in Hc. unfold join_rel. rewrite s_msg_word_eq.
  destruct a as [|a0 ar].
  - cbn [filter nonempty_b join_slash app]. change (is_byte x6d 47) with false. cbv iota.
    change (x6d :: x73 :: x67 :: x2f :: c0 :: cr) with ([x6d; x73; x67] ++ x2f :: c0 :: cr).
    rewrite split_sep by reflexivity. rewrite clean_rel_filter.
    cbn [filter nonempty_b app]. rewrite Hc. reflexivity.
  - cbn [filter nonempty_b join_slash]. cbn [app]. unfold noslash in Ha. simpl in Ha.
    apply orb_false_iff in Ha. destruct Ha as [Ha0 Har]. rewrite Ha0. cbv iota.
    change (a0 :: ar ++ x2f :: x6d :: x73 :: x67 :: x2f :: c0 :: cr)
      with ((a0 :: ar) ++ x2f :: [x6d; x73; x67] ++ x2f :: c0 :: cr).
    rewrite split_sep; [|simpl; rewrite Ha0, Har; reflexivity|reflexivity].
    rewrite split_sep by reflexivity. rewrite clean_rel_filter.
    cbn [filter nonempty_b app]. rewrite Hc. reflexivity.
Qed.

Ltac fall := repeat (apply Forall_cons; [assumption|]); apply Forall_nil.

Lemma dot_fields : fields_by 47 s_dot = [s_dot]. Proof. reflexivity. Qed.

(* when the result has three or more fields it is exactly a/msg/c1 *)
Lemma join_rel3_three a c c1 : noslash a -> fields_by 47 c = [c1] ->
  3 <= length (fields_by 47 (join_rel [a; s_msg_word; c])) ->
  a <> [] /\ a <> s_dot /\ join_rel [a; s_msg_word; c] = join_slash [a; s_msg_word; c1] /\
  fields_by 47 (join_rel [a; s_msg_word; c]) = [a; s_msg_word; c1].
Proof.
  intros Ha Hc. rewrite (join_rel3 a c c1 Ha Hc).
  assert (Hc1 : comp_ok c1).
  { destruct (fields_comps 47 c c1) as [H1 H2]; [rewrite Hc; left; reflexivity|]. split; auto. }
  pose proof msg_comp_ok as Hm.
  destruct c1 as [|d0 dr]; [destruct Hc1; congruence|].
  destruct a as [|a0 ar].
  - cbn [filter nonempty_b app]. rewrite s_msg_word_eq in *. cbn [clean_rel].
    change (bytes_eqb [x6d; x73; x67] s_dot) with false. change (bytes_eqb [x6d; x73; x67] s_dotdot) with false.
    cbv iota.
    destruct (bytes_eqb (d0 :: dr) s_dot); [simpl; intros; lia|].
    destruct (bytes_eqb (d0 :: dr) s_dotdot); [simpl; intros; lia|].
    cbn [rev app]. rewrite fields_join_slash by fall. simpl. intros; lia.
  - assert (Hao : comp_ok (a0 :: ar)) by (split; [discriminate|exact Ha]).
    cbn [filter nonempty_b app]. rewrite s_msg_word_eq in *. cbn [clean_rel].
    change (bytes_eqb [x6d; x73; x67] s_dot) with false. change (bytes_eqb [x6d; x73; x67] s_dotdot) with false.
    destruct (bytes_eqb (a0 :: ar) s_dot) eqn:Ea1.
    + cbv iota.
      destruct (bytes_eqb (d0 :: dr) s_dot); [simpl; intros; lia|].
      destruct (bytes_eqb (d0 :: dr) s_dotdot); [simpl; intros; lia|].
      cbn [rev app]. rewrite fields_join_slash by fall. simpl. intros; lia.
    + apply bytes_eqb_false in Ea1.
      destruct (bytes_eqb (a0 :: ar) s_dotdot) eqn:Ea2; cbv iota.
      * destruct (bytes_eqb (d0 :: dr) s_dot).
        { cbn [rev app]. rewrite fields_join_slash by fall. simpl. intros; lia. }
        destruct (bytes_eqb (d0 :: dr) s_dotdot).
        { change (bytes_eqb [x6d; x73; x67] s_dotdot) with false. cbv iota. cbn [rev app].
          rewrite fields_join_slash by fall. simpl. intros; lia. }
        cbn [rev app]. rewrite fields_join_slash by fall. intros _.
        repeat split; auto. discriminate.
      * destruct (bytes_eqb (d0 :: dr) s_dot).
        { cbn [rev app]. rewrite fields_join_slash by fall. simpl. intros; lia. }
        destruct (bytes_eqb (d0 :: dr) s_dotdot).
        { change (bytes_eqb [x6d; x73; x67] s_dotdot) with false. cbv iota. cbn [rev app].
          rewrite fields_join_slash by fall. simpl. intros; lia. }
        cbn [rev app]. rewrite fields_join_slash by fall. intros _.
        repeat split; auto. discriminate.
Qed.

(* ------------------------------------------------------------------------------------------ *)
(* the file system                                                                             *)

Lemma comps_eqb_eq a : forall b, comps_eqb a b = true -> a = b.
Proof.
  induction a as [|x a IH]; intros [|y b]; simpl; try discriminate; auto.
  rewrite andb_true_iff, bytes_eqb_eq. intros [-> H]. f_equal. auto.
Qed.

Lemma comps_eqb_refl a : comps_eqb a a = true.
Proof. induction a as [|x a IH]; simpl; auto. rewrite bytes_eqb_refl. exact IH. Qed.

Lemma find_file_In p fs c : find_file p fs = Some c -> In (p, c) fs.
Proof.
  induction fs as [|[q c'] r IH]; simpl; [discriminate|].
  destruct (comps_eqb p q) eqn:E; [|auto].
  intros H. injection H as ->. apply comps_eqb_eq in E. subst. auto.
Qed.

Lemma read_file_In t p c : read_file t p = FsOk c -> In (p, c) (ft_files t).
Proof.
  unfold read_file. destruct (find_file p (ft_files t)) eqn:E.
  - intros H. injection H as ->. apply find_file_In. exact E.
  - destruct (_ || _); [discriminate|]. destruct (existsb _ _); discriminate.
Qed.

Lemma find_line_In base lines l : find_line base lines = Some l -> In l lines /\ base_name l = base ++ s_dot_msg.
Proof.
  induction lines as [|x r IH]; simpl; [discriminate|].
  destruct (bytes_eqb (base_name x) (base ++ s_dot_msg)) eqn:E.
  - intros H. injection H as ->. apply bytes_eqb_eq in E. auto.
  - intros H. destruct (IH H). auto.
Qed.

Definition idx_path (d : list bytes) (P : bytes) : list bytes :=
  join_dir d [s_share; s_ament_index; s_resource_index; s_rosidl; P].

Lemma get_schema_dirs_fine t P C dirs : no_crash (get_schema_dirs t P C dirs) = true.
Proof.
  induction dirs as [|d r IH]; simpl; auto.
  destruct (read_file t _); auto. destruct (find_line _ _); auto. destruct (read_file t _); auto.
Qed.

Lemma get_schema_dirs_ok t P C dirs sc : get_schema_dirs t P C dirs = Ok sc ->
  exists d idx line, In d dirs /\ In (idx_path d P, idx) (ft_files t) /\ In line (split_byte 10 idx) /\
                     base_name line = C ++ s_dot_msg.
Proof.
  induction dirs as [|d r IH]; simpl; [discriminate|].
  destruct (read_file t (join_dir d [s_share; s_ament_index; s_resource_index; s_rosidl; P])) as [idx| |] eqn:Er.
  - destruct (find_line C (split_byte 10 idx)) as [line|] eqn:El.
    + intros _. apply read_file_In in Er. apply find_line_In in El. destruct El.
      exists d, idx, line. auto.
    + intros H. destruct (IH H) as (d' & idx' & line & H1 & H2). exists d', idx', line. tauto.
  - intros H. destruct (IH H) as (d' & idx' & line & H1 & H2). exists d', idx', line. tauto.
  - discriminate.
Qed.

(* getSchema never crashes *)
Theorem get_schema_fine t dirs q : no_crash (get_schema t dirs q) = true.
Proof.
  unfold get_schema. destruct (fields_by 47 q) as [|a [|b [|c r]]]; auto. apply get_schema_dirs_fine.
Qed.

Lemma get_schema_ok t dirs q sc : get_schema t dirs q = Ok sc ->
  exists P m C r, fields_by 47 q = P :: m :: C :: r /\ get_schema_dirs t P C dirs = Ok sc.
Proof.
  unfold get_schema. destruct (fields_by 47 q) as [|a [|b [|c r]]]; try discriminate.
  intros H. exists a, b, c, r. auto.
Qed.

(* the lines of all files, keyed by the path of the file *)
Definition keys (t : fstree) : list (list bytes * bytes) :=
  flat_map (fun f => map (fun l => (fst f, base_name l)) (split_byte 10 (snd f))) (ft_files t).

Lemma split_aux_length sep s : forall cur, length (split_byte_aux sep s cur) <= S (length s).
Proof.
  induction s as [|b r IH]; intros cur; simpl; [lia|].
  destruct (is_byte b sep); simpl; [specialize (IH []); lia|specialize (IH (b :: cur)); lia].
Qed.

Fixpoint sum_weight (l : list (list bytes * bytes)) : nat :=
  match l with [] => 0 | f :: r => S (length (snd f)) + sum_weight r end.

Lemma fold_weight (l : list (list bytes * bytes)) : forall a,
  fold_left (fun n f => n + S (length (snd f))) l a = a + sum_weight l.
Proof.
  induction l as [|f l IH]; intros a; cbn [fold_left sum_weight]; [lia|]. rewrite IH, Nat.add_assoc. reflexivity.
Qed.

Lemma keys_weight t : length (keys t) + 2 <= fs_weight t.
Proof.
  unfold fs_weight, keys. rewrite fold_weight.
  assert (H : forall l : list (list bytes * bytes),
            length (flat_map (fun f => map (fun l => (fst f, base_name l)) (split_byte 10 (snd f))) l)
            <= sum_weight l).
  { induction l as [|f l IH]; cbn [flat_map sum_weight]; [simpl; lia|]. rewrite !app_length, map_length.
    pose proof (split_aux_length 10 (snd f) []). unfold split_byte, bytes in *. lia. }
  specialize (H (ft_files t)). lia.
Qed.

Lemma keys_In t p idx line : In (p, idx) (ft_files t) -> In line (split_byte 10 idx) -> In (p, base_name line) (keys t).
Proof.
  intros H1 H2. unfold keys. apply in_flat_map. exists (p, idx). split; auto.
  simpl. apply in_map_iff. exists line. auto.
Qed.

(* the index path of a package name *)
Lemma clean_rooted_push c r st : c <> [] -> c <> s_dot -> c <> s_dotdot ->
  clean_rooted (c :: r) st = clean_rooted r (c :: st).
Proof.
  intros H1 H2 H3. destruct c; [congruence|]. cbn [clean_rooted].
  apply bytes_eqb_false in H2, H3. rewrite H2, H3. reflexivity.
Qed.

Definition normalP (P : bytes) : Prop := P <> [] /\ P <> s_dot /\ noslash P.

Lemma idx_path_eq d P : normalP P ->
  idx_path d P = if bytes_eqb P s_dotdot then d ++ [s_share; s_ament_index; s_resource_index]
                 else d ++ [s_share; s_ament_index; s_resource_index; s_rosidl; P].
Proof.
  intros (H1 & H2 & H3). unfold idx_path, join_dir. cbn [map concat].
  change (split_byte 47 s_share) with [s_share]. change (split_byte 47 s_ament_index) with [s_ament_index].
  change (split_byte 47 s_resource_index) with [s_resource_index]. change (split_byte 47 s_rosidl) with [s_rosidl].
  rewrite (split_nosep 47 P H3). cbn [app].
  rewrite !clean_rooted_push by (intro X; vm_compute in X; discriminate X).
  destruct P as [|p0 pr]; [congruence|]. cbn [clean_rooted].
  apply bytes_eqb_false in H2. rewrite H2.
  destruct (bytes_eqb (p0 :: pr) s_dotdot); cbn [clean_rooted tl rev app]; rewrite rev_involutive, <- !app_assoc; reflexivity.
Qed.

Lemma idx_path_inj d P d' P' : normalP P -> normalP P' -> idx_path d P = idx_path d' P' -> P = P'.
Proof.
  intros HP HP'. rewrite (idx_path_eq d P HP), (idx_path_eq d' P' HP').
  destruct (bytes_eqb P s_dotdot) eqn:E1; destruct (bytes_eqb P' s_dotdot) eqn:E2.
  - apply bytes_eqb_eq in E1, E2. congruence.
  - intros H. exfalso.
    change (d ++ [s_share; s_ament_index; s_resource_index]) with (d ++ [s_share; s_ament_index] ++ [s_resource_index]) in H.
    change (d' ++ [s_share; s_ament_index; s_resource_index; s_rosidl; P'])
      with (d' ++ [s_share; s_ament_index; s_resource_index; s_rosidl] ++ [P']) in H.
    rewrite !app_assoc in H. apply app_inj_tail in H. destruct H as [H _].
    change ((d ++ [s_share; s_ament_index])) with (d ++ [s_share] ++ [s_ament_index]) in H.
    change (d' ++ [s_share; s_ament_index; s_resource_index; s_rosidl])
      with (d' ++ [s_share; s_ament_index; s_resource_index] ++ [s_rosidl]) in H.
    rewrite !app_assoc in H. apply app_inj_tail in H. destruct H as [_ H]. vm_compute in H. discriminate H.
  - intros H. exfalso. symmetry in H.
    change (d' ++ [s_share; s_ament_index; s_resource_index]) with (d' ++ [s_share; s_ament_index] ++ [s_resource_index]) in H.
    change (d ++ [s_share; s_ament_index; s_resource_index; s_rosidl; P])
      with (d ++ [s_share; s_ament_index; s_resource_index; s_rosidl] ++ [P]) in H.
    rewrite !app_assoc in H. apply app_inj_tail in H. destruct H as [H _].
    change ((d' ++ [s_share; s_ament_index])) with (d' ++ [s_share] ++ [s_ament_index]) in H.
    change (d ++ [s_share; s_ament_index; s_resource_index; s_rosidl])
      with (d ++ [s_share; s_ament_index; s_resource_index] ++ [s_rosidl]) in H.
    rewrite !app_assoc in H. apply app_inj_tail in H. destruct H as [_ H]. vm_compute in H. discriminate H.
  - intros H.
    change (d ++ [s_share; s_ament_index; s_resource_index; s_rosidl; P])
      with (d ++ [s_share; s_ament_index; s_resource_index; s_rosidl] ++ [P]) in H.
    change (d' ++ [s_share; s_ament_index; s_resource_index; s_rosidl; P'])
      with (d' ++ [s_share; s_ament_index; s_resource_index; s_rosidl] ++ [P']) in H.
    rewrite !app_assoc in H. apply app_inj_tail in H. tauto.
Qed.

(* ------------------------------------------------------------------------------------------ *)
(* a qualified type that getSchema accepts determines a line of an index file                  *)

Definition keyrel (q : bytes) (k : list bytes * bytes) : Prop :=
  exists P C d, q = join_slash [P; s_msg_word; C] /\ normalP P /\ fst k = idx_path d P /\ snd k = C ++ s_dot_msg.

Definition good (t : fstree) (q : bytes) : Prop := exists k, In k (keys t) /\ keyrel q k.

Lemma keyrel_inj q q' k : keyrel q k -> keyrel q' k -> q = q'.
Proof.
  intros (P & C & d & -> & HP & H1 & H2) (P' & C' & d' & -> & HP' & H1' & H2').
  rewrite H1 in H1'. rewrite H2 in H2'. apply idx_path_inj in H1'; auto. apply app_inv_tail in H2'. congruence.
Qed.

Lemma pigeon_aux {A B} (R : A -> B -> Prop) (inj : forall a a' b, R a b -> R a' b -> a = a') :
  forall l l', Forall2 R l l' -> NoDup l -> NoDup l'.
Proof.
  induction 1 as [|a b l l' Hab HF IH]; intros Hnd; [constructor|].
  inversion Hnd; subst. constructor; auto.
  intros Hin.
  assert (H : exists a', In a' l /\ R a' b).
  { clear -HF Hin. induction HF as [|x y l l' Hxy HF IH]; simpl in *; [tauto|].
    destruct Hin as [->|Hin]; [eauto|]. destruct (IH Hin) as (a' & ? & ?); eauto. }
  destruct H as (a' & Hin' & Hr). rewrite (inj _ _ _ Hab Hr) in *. contradiction.
Qed.

Lemma Forall2_len {A B} (R : A -> B -> Prop) l l' : Forall2 R l l' -> length l = length l'.
Proof. induction 1; simpl; auto. Qed.

Lemma pigeon {A B} (R : A -> B -> Prop) (U : list B) :
  (forall a a' b, R a b -> R a' b -> a = a') ->
  forall l, NoDup l -> Forall (fun a => exists b, In b U /\ R a b) l -> length l <= length U.
Proof.
  intros inj l Hnd Hl.
  assert (H : exists l', Forall2 R l l' /\ incl l' U).
  { clear Hnd. induction Hl as [|a l (b & Hb & Hab) _ (l' & H1 & H2)]; [exists []; split; [constructor|intros x []]|].
    exists (b :: l'). split; [constructor; auto|]. intros x [<-|Hx]; auto. }
  destruct H as (l' & H1 & H2).
  rewrite (Forall2_len _ _ _ H1). apply NoDup_incl_length; auto. eapply pigeon_aux; eauto.
Qed.

Lemma good_bound t l : NoDup l -> Forall (good t) l -> length l <= length (keys t).
Proof. intros. apply (pigeon keyrel (keys t)); auto. intros a a' b. apply keyrel_inj. Qed.

(* ------------------------------------------------------------------------------------------ *)
(* one line of a definition                                                                    *)

Definition parent_of (sd : subdef) : bytes :=
  match split_byte 47 (sd_type sd) with p :: _ :: _ => p | _ => sd_parent sd end.

(* None: nothing to look up (empty, comment, primitive); Some q: a field of the qualified type q *)
Definition line_ref (parent raw : bytes) : outcome (option bytes) :=
  let line := trim_space raw in
  match line with
  | [] => Ok None
  | b :: _ =>
    if is_byte b 35 then Ok None else
    match fields_by 32 line with
    | [] => Err EOther
    | ft0 :: _ =>
      let ft := cut_at 60 (cut_at 91 ft0) in
      if is_primitive ft then Ok None else
      if match fields_by 47 ft with [] => true | _ => false end then Err EOther else
      let* q := field_to_qualified ft parent in Ok (Some q)
    end
  end.

Definition enqueue (parent q sc : bytes) (seen : list bytes) (queue : list subdef) : list bytes * list subdef :=
  if mem_b q seen then (seen, queue)
  else (seen ++ [q], queue ++ [{| sd_parent := parent; sd_type := q; sd_schema := sc |}]).

Lemma scan_lines_cons t dirs sd raw rest seen queue :
  scan_lines t dirs sd (raw :: rest) seen queue =
  match line_ref (parent_of sd) raw with
  | Ok None => scan_lines t dirs sd rest seen queue
  | Ok (Some q) =>
    let* sc := get_schema t dirs q in
    scan_lines t dirs sd rest (fst (enqueue (parent_of sd) q sc seen queue)) (snd (enqueue (parent_of sd) q sc seen queue))
  | Err e => Err e
  | Panic s => Panic s
  | Exit s => Exit s
  | OutOfFuel => OutOfFuel
  end.
Proof.
  unfold line_ref, enqueue. cbn [scan_lines]. fold (parent_of sd).
  destruct (trim_space raw) as [|b l0]; [reflexivity|].
  destruct (is_byte b 35); [reflexivity|].
  destruct (fields_by 32 (b :: l0)) as [|ft0 fr]; [reflexivity|]. cbv zeta.
  destruct (is_primitive _); [reflexivity|].
  destruct (fields_by 47 _) eqn:Ef; [reflexivity|]. cbv iota.
  destruct (field_to_qualified _ _) as [q| | | |]; try reflexivity.
  cbn [bind]. destruct (get_schema t dirs q); try reflexivity. cbn [bind].
  destruct (mem_b q seen); reflexivity.
Qed.

Lemma field_to_qualified_ok ft parent : fields_by 47 ft <> [] -> noslash parent ->
  exists a c c1, field_to_qualified ft parent = Ok (join_rel [a; s_msg_word; c]) /\ noslash a /\ fields_by 47 c = [c1].
Proof.
  intros Hne Hp. unfold field_to_qualified. destruct (fields_by 47 ft) as [|p0 [|p1 r]] eqn:Ef; [congruence| |].
  - exists parent, ft, p0. auto.
  - destruct (fields_comps 47 ft p0) as [Ha Hb]; [rewrite Ef; simpl; auto|].
    destruct (fields_comps 47 ft p1) as [Hc Hd]; [rewrite Ef; simpl; auto|].
    exists p0, p1, p1. split; auto. split; auto. apply fields_nosep; auto.
Qed.

(* the panic site of fieldToQualifiedROSType is not reachable *)
Lemma line_ref_fine parent raw : no_crash (line_ref parent raw) = true.
Proof.
  unfold line_ref. destruct (trim_space raw) as [|b l0]; auto.
  destruct (is_byte b 35); auto. destruct (fields_by 32 (b :: l0)) as [|ft0 fr]; auto. cbv zeta.
  destruct (is_primitive _); auto. unfold field_to_qualified.
  destruct (fields_by 47 _) as [|p0 [|p1 r]]; auto.
Qed.

Lemma line_ref_some parent raw q : line_ref parent raw = Ok (Some q) -> noslash parent ->
  exists a c c1, q = join_rel [a; s_msg_word; c] /\ noslash a /\ fields_by 47 c = [c1].
Proof.
  unfold line_ref. destruct (trim_space raw) as [|b l0]; [discriminate|].
  destruct (is_byte b 35); [discriminate|]. destruct (fields_by 32 (b :: l0)) as [|ft0 fr]; [discriminate|]. cbv zeta.
  destruct (is_primitive _); [discriminate|].
  set (ft := cut_at 60 (cut_at 91 ft0)).
  destruct (fields_by 47 ft) eqn:Ef; [discriminate|]. intros H Hp.
  destruct (field_to_qualified_ok ft parent) as (a & c & c1 & H1 & H2 & H3); [congruence|auto|].
  rewrite H1 in H. cbn [bind] in H. injection H as <-. exists a, c, c1. auto.
Qed.

Lemma line_ref_good t dirs parent raw q sc : line_ref parent raw = Ok (Some q) -> noslash parent ->
  get_schema t dirs q = Ok sc -> good t q.
Proof.
  intros H Hp Hs. destruct (line_ref_some _ _ _ H Hp) as (a & c & c1 & -> & Ha & Hc).
  destruct (get_schema_ok _ _ _ _ Hs) as (P & m & C & r & Hf & Hd).
  destruct (join_rel3_three a c c1 Ha Hc) as (H1 & H2 & H3 & H4); [rewrite Hf; simpl; lia|].
  rewrite H4 in Hf. injection Hf as <- <- <- <-.
  destruct (get_schema_dirs_ok _ _ _ _ _ Hd) as (d & idx & line & Hin & Hfile & Hline & Hbase).
  exists (idx_path d a, c1 ++ s_dot_msg). split.
  - rewrite <- Hbase. eapply keys_In; eauto.
  - exists a, c1, d. repeat split; auto.
Qed.

Definition sd_ok (sd : subdef) : Prop := noslash (parent_of sd).

Lemma parent_of_ok par q sc : noslash par -> sd_ok {| sd_parent := par; sd_type := q; sd_schema := sc |}.
Proof.
  intros H. unfold sd_ok, parent_of. cbn [sd_type sd_parent].
  pose proof (split_comps 47 q) as Hs. destruct (split_byte 47 q) as [|p [|p2 r]]; auto.
  inversion Hs; auto.
Qed.

(* ------------------------------------------------------------------------------------------ *)
(* the scan of a definition                                                                    *)

Theorem scan_lines_fine t dirs sd : forall lines seen queue,
  no_crash (scan_lines t dirs sd lines seen queue) = true.
Proof.
  induction lines as [|raw rest IH]; intros seen queue; [reflexivity|].
  rewrite scan_lines_cons. pose proof (line_ref_fine (parent_of sd) raw) as Hl.
  destruct (line_ref (parent_of sd) raw) as [[q|]| | | |]; try discriminate; auto.
  pose proof (get_schema_fine t dirs q) as Hg.
  destruct (get_schema t dirs q); try discriminate; auto. cbn [bind]. apply IH.
Qed.

Lemma scan_lines_spec t dirs sd : sd_ok sd -> forall lines seen queue seen' queue',
  scan_lines t dirs sd lines seen queue = Ok (seen', queue') ->
  exists newq, queue' = queue ++ newq /\ seen' = seen ++ map sd_type newq /\
    NoDup (map sd_type newq) /\
    Forall (fun s => ~ In (sd_type s) seen /\ good t (sd_type s) /\ sd_ok s) newq.
Proof.
  intros Hsd. induction lines as [|raw rest IH]; intros seen queue seen' queue'.
  - simpl. intros H. injection H as <- <-. exists []. simpl. rewrite !app_nil_r. repeat split; constructor.
  - rewrite scan_lines_cons.
    destruct (line_ref (parent_of sd) raw) as [[q|]| | | |] eqn:El; try discriminate; [|apply IH].
    destruct (get_schema t dirs q) as [sc| | | |] eqn:Eg; try discriminate. cbn [bind].
    unfold enqueue. destruct (mem_b q seen) eqn:Em; cbn [fst snd]; [apply IH|].
    intros H. destruct (IH _ _ _ _ H) as (newq & H1 & H2 & H3 & H4).
    exists ({| sd_parent := parent_of sd; sd_type := q; sd_schema := sc |} :: newq).
    rewrite <- app_assoc in H1, H2. split; [exact H1|]. split; [exact H2|].
    rewrite Forall_forall in H4. split.
    + cbn [map sd_type]. constructor; auto. intros Hin. apply in_map_iff in Hin. destruct Hin as (s & Hs1 & Hs2).
      destruct (H4 s Hs2) as (Hn & _). apply Hn. apply in_or_app. right. left. auto.
    + constructor.
      * cbn [sd_type]. split; [apply mem_b_false; exact Em|]. split.
        -- eapply line_ref_good; eauto.
        -- apply parent_of_ok. exact Hsd.
      * apply Forall_forall. intros s Hs. destruct (H4 s Hs) as (Hn & Hg & Ho). split; auto.
        intros Hin. apply Hn. apply in_or_app. auto.
Qed.

Lemma scan_lines_nil_schema t dirs sd seen queue : scan_lines t dirs sd (fields_by 10 []) seen queue = Ok (seen, queue).
Proof. reflexivity. Qed.

(* ------------------------------------------------------------------------------------------ *)
(* the loop of getSchemas                                                                      *)

Definition ends_nl (buf : bytes) : bool := match rev buf with b :: _ => is_byte b 10 | [] => false end.

(* what is in the buffer before the definition of the next type is appended *)
Definition next_buf (first : bool) (buf ty : bytes) : bytes :=
  if first then buf
  else (if ends_nl buf then buf else buf ++ [x0a]) ++ s_sep_line ++ s_msg_colon ++ replace_msg ty ++ [x0a].

Lemma assemble_S f t dirs sd rest seen first buf :
  assemble (S f) t dirs (sd :: rest) seen first buf =
  let* buf1 := (if first then Ok buf
                else match rev buf with
                     | [] => Panic site_buffer_last
                     | lastb :: _ => Ok ((if is_byte lastb 10 then buf else buf ++ [x0a])
                                         ++ s_sep_line ++ s_msg_colon ++ replace_msg (sd_type sd) ++ [x0a])
                     end) in
  let* (seen', queue') := scan_lines t dirs sd (fields_by 10 (sd_schema sd)) seen rest in
  assemble f t dirs queue' seen' false (buf1 ++ sd_schema sd).
Proof. reflexivity. Qed.

Lemma rev_nil_inv {A} (l : list A) : rev l = [] -> l = [].
Proof. intros H. rewrite <- (rev_involutive l), H. reflexivity. Qed.

Lemma assemble_step f t dirs sd rest seen first buf : first = true \/ buf <> [] ->
  assemble (S f) t dirs (sd :: rest) seen first buf =
  let* (seen', queue') := scan_lines t dirs sd (fields_by 10 (sd_schema sd)) seen rest in
  assemble f t dirs queue' seen' false (next_buf first buf (sd_type sd) ++ sd_schema sd).
Proof.
  intros H. rewrite assemble_S. unfold next_buf, ends_nl. destruct first; [reflexivity|].
  destruct H as [H|H]; [discriminate|]. destruct (rev buf) eqn:E; [apply rev_nil_inv in E; congruence|reflexivity].
Qed.

(* the buffer is not empty when something is left to append after the first definition *)
Definition buf_inv (first : bool) (buf : bytes) (queue : list subdef) : Prop :=
  buf <> [] \/ queue = [] \/ (first = true /\ length queue = 1).

Lemma next_buf_nonempty first buf ty : first = true \/ buf <> [] -> buf <> [] -> next_buf first buf ty <> [].
Proof.
  intros _ Hb. unfold next_buf. destruct first; auto.
  destruct (ends_nl buf); destruct buf; try congruence; discriminate.
Qed.

Lemma next_buf_false_nonempty buf ty : next_buf false buf ty <> [].
Proof.
  unfold next_buf. intros H. apply app_eq_nil in H. destruct H as [_ H].
  apply app_eq_nil in H. destruct H as [H _]. discriminate H.
Qed.

Lemma buf_inv_first first buf queue : buf_inv first buf queue -> queue <> [] -> first = true \/ buf <> [].
Proof. intros [H|[H|[H _]]] Hq; auto; congruence. Qed.

Lemma buf_inv_step t dirs first buf sd rest seen newq :
  buf_inv first buf (sd :: rest) ->
  scan_lines t dirs sd (fields_by 10 (sd_schema sd)) seen rest = Ok (seen ++ map sd_type newq, rest ++ newq) ->
  buf_inv false (next_buf first buf (sd_type sd) ++ sd_schema sd) (rest ++ newq).
Proof.
  intros Hi Es. destruct buf as [|b0 br].
  - destruct Hi as [H|[H|[-> H]]]; [congruence|discriminate|].
    destruct rest; [|discriminate H]. unfold next_buf. cbn [app].
    destruct (sd_schema sd) eqn:E; [|left; discriminate].
    right. left. rewrite scan_lines_nil_schema in Es. injection Es as _ Hq. symmetry. exact Hq.
  - left. intros H. apply app_eq_nil in H. destruct H as [H _].
    destruct first; [discriminate H|]. exact (next_buf_false_nonempty _ _ H).
Qed.

Lemma NoDup_app_intro {A} (a b : list A) : NoDup a -> NoDup b -> (forall x, In x a -> ~ In x b) -> NoDup (a ++ b).
Proof.
  induction 1 as [|x a Hx Ha IH]; intros Hb Hd; simpl; auto.
  constructor.
  - intros Hin. apply in_app_or in Hin. destruct Hin as [Hin|Hin]; [contradiction|]. apply (Hd x); simpl; auto.
  - apply IH; auto. intros y Hy. apply Hd. simpl; auto.
Qed.

Definition no_panic_exit {A} (x : outcome A) : Prop := match x with Panic _ | Exit _ => False | _ => True end.

(* for every amount of fuel: from a state that satisfies the buffer invariant the loop does not reach the buffer
   access with an empty buffer *)
Theorem assemble_no_panic t dirs : forall fuel queue seen first buf,
  buf_inv first buf queue -> Forall sd_ok queue ->
  no_panic_exit (assemble fuel t dirs queue seen first buf).
Proof.
  induction fuel as [|f IH]; intros queue seen first buf Hi Hq; [exact I|].
  destruct queue as [|sd rest]; [exact I|].
  rewrite assemble_step by (apply (buf_inv_first _ _ _ Hi); discriminate).
  pose proof (scan_lines_fine t dirs sd (fields_by 10 (sd_schema sd)) seen rest) as Hf.
  destruct (scan_lines t dirs sd (fields_by 10 (sd_schema sd)) seen rest) as [[seen' queue']| | | |] eqn:Es;
    try discriminate Hf; [|exact I].
  cbn [bind]. inversion Hq as [|? ? Hsd Hrest]; subst.
  destruct (scan_lines_spec t dirs sd Hsd _ _ _ _ _ Es) as (newq & -> & -> & Hnd & Hall).
  apply IH.
  - eapply buf_inv_step; eauto.
  - apply Forall_app. split; auto. eapply Forall_impl; [|exact Hall]. intros s (_ & _ & H). exact H.
Qed.

(* and the fuel suffices when it covers the queue, the index lines not yet used, and the final test *)
Theorem assemble_fine t dirs : forall fuel queue seen first buf added,
  buf_inv first buf queue -> Forall sd_ok queue ->
  NoDup added -> incl added seen -> Forall (good t) added ->
  length queue + (length (keys t) - length added) + 1 <= fuel ->
  no_crash (assemble fuel t dirs queue seen first buf) = true.
Proof.
  induction fuel as [|f IH]; intros queue seen first buf added Hi Hq Hnd Hincl Hgood Hfuel; [lia|].
  destruct queue as [|sd rest]; [reflexivity|].
  rewrite assemble_step by (apply (buf_inv_first _ _ _ Hi); discriminate).
  pose proof (scan_lines_fine t dirs sd (fields_by 10 (sd_schema sd)) seen rest) as Hf.
  destruct (scan_lines t dirs sd (fields_by 10 (sd_schema sd)) seen rest) as [[seen' queue']| | | |] eqn:Es;
    try discriminate Hf; [|reflexivity].
  cbn [bind]. inversion Hq as [|? ? Hsd Hrest]; subst.
  destruct (scan_lines_spec t dirs sd Hsd _ _ _ _ _ Es) as (newq & -> & -> & Hnd' & Hall).
  assert (Hnd2 : NoDup (added ++ map sd_type newq)).
  { apply NoDup_app_intro; auto. intros x Hx Hin. apply in_map_iff in Hin. destruct Hin as (s & <- & Hs).
    rewrite Forall_forall in Hall. destruct (Hall s Hs) as (Hn & _). apply Hn. apply Hincl. exact Hx. }
  assert (Hg2 : Forall (good t) (added ++ map sd_type newq)).
  { apply Forall_app. split; auto. apply Forall_forall. intros x Hin. apply in_map_iff in Hin.
    destruct Hin as (s & <- & Hs). rewrite Forall_forall in Hall. destruct (Hall s Hs) as (_ & Hg & _). exact Hg. }
  apply IH with (added := added ++ map sd_type newq); auto.
  - eapply buf_inv_step; eauto.
  - apply Forall_app. split; auto. eapply Forall_impl; [|exact Hall]. intros s (_ & _ & H). exact H.
  - apply incl_app; [apply incl_appl; exact Hincl|apply incl_appr; apply incl_refl].
  - pose proof (good_bound t _ Hnd2 Hg2) as Hb. rewrite app_length, map_length in Hb. rewrite !app_length, map_length. simpl in Hfuel. lia.
Qed.

(* the invariant is needed: a state that get_schema_for never creates (two queued definitions, the first one
   empty, nothing written yet) reaches the buffer access with an empty buffer *)
Example assemble_panic_outside_invariant :
  let sd := {| sd_parent := []; sd_type := []; sd_schema := [] |} in
  assemble 3 {| ft_files := []; ft_dirs := [] |} [] [sd; sd] [] true [] = Panic site_buffer_last.
Proof. reflexivity. Qed.

Lemma root_sd_ok ty sc : sd_ok {| sd_parent := hd [] (split_byte 47 ty); sd_type := ty; sd_schema := sc |}.
Proof.
  apply parent_of_ok. pose proof (split_comps 47 ty) as H. destruct (split_byte 47 ty); [reflexivity|].
  inversion H; auto.
Qed.

(* getSchemas, one type: no crash for any tree, any search directories, any type name, with the fuel of the model *)
Theorem get_schema_for_fine t dirs ty : no_crash (get_schema_for t dirs ty) = true.
Proof.
  unfold get_schema_for. pose proof (get_schema_fine t dirs ty) as Hf.
  destruct (get_schema t dirs ty) as [sc| | | |]; try discriminate Hf; [|reflexivity].
  cbn [bind]. apply assemble_fine with (added := []).
  - right. right. auto.
  - constructor; [apply root_sd_ok|constructor].
  - constructor.
  - intros x [].
  - constructor.
  - pose proof (keys_weight t). simpl. lia.
Qed.

Theorem get_schemas_fine t dirs : forall types acc, no_crash (get_schemas t dirs types acc) = true.
Proof.
  induction types as [|ty r IH]; intros acc; [reflexivity|]. cbn [get_schemas].
  pose proof (get_schema_for_fine t dirs ty) as Hf.
  destruct (get_schema_for t dirs ty); try discriminate Hf; [|reflexivity]. cbn [bind]. apply IH.
Qed.

(* ------------------------------------------------------------------------------------------ *)
(* part 2: DB3ToMCAP with the schema assembly inside                                           *)

Theorem db3_to_mcap_fs_cases o lib compress t dirs topics msgs :
  let types := map t_type (filter (fun x => is_message_type (t_type x)) topics) in
  match get_schemas t dirs types [] with
  | Ok l => db3_to_mcap_fs o lib compress t dirs topics msgs = Ok (db3_to_mcap o lib compress topics (Some l) msgs)
  | Err _ => exists r, db3_to_mcap_fs o lib compress t dirs topics msgs = Ok r /\
                       r = db3_to_mcap o lib compress topics None msgs /\
                       dr_err r = Some EOther /\ dr_writes r = []
  | _ => False
  end.
Proof.
  intros types. unfold db3_to_mcap_fs. fold types.
  pose proof (get_schemas_fine t dirs types []) as Hf.
  destruct (get_schemas t dirs types []); try discriminate Hf; [reflexivity|].
  eexists. split; [reflexivity|]. split; [reflexivity|]. apply db3_err_schemas_failed.
Qed.

Theorem db3_to_mcap_fs_total o lib compress t dirs topics msgs :
  exists r, db3_to_mcap_fs o lib compress t dirs topics msgs = Ok r.
Proof.
  pose proof (db3_to_mcap_fs_cases o lib compress t dirs topics msgs) as H. cbv zeta in H.
  destruct (get_schemas t dirs _ []); try contradiction; [eauto|]. destruct H as (r & H & _). eauto.
Qed.

(* ------------------------------------------------------------------------------------------ *)
(* part 3: functional correctness on trees that realise an abstract universe of definitions    *)
(* ------------------------------------------------------------------------------------------ *)

(* --- the abstract universe --- *)
Inductive ftype := FPrim (p : bytes) | FLocal (name : bytes) | FQual (pkg name : bytes).
(* a line of a definition: "#text", "", or "<type><suffix> <rest>" (suffix: array / bound; rest: field name, default
   value, trailing comment) *)
Inductive dline := DComment (text : bytes) | DEmpty | DField (ty : ftype) (suffix : bytes) (rest : bytes).
Record mdef := { md_pkg : bytes; md_name : bytes; md_lines : list dline }.

Definition ftype_text (ty : ftype) : bytes :=
  match ty with FPrim p => p | FLocal n => n | FQual p n => p ++ x2f :: n end.
Definition render_dline (l : dline) : bytes :=
  match l with
  | DComment text => x23 :: text
  | DEmpty => []
  | DField ty suffix rest => ftype_text ty ++ suffix ++ x20 :: rest
  end.
(* "pkg/msg/Name" *)
Definition type_of (d : mdef) : bytes := join_slash [md_pkg d; s_msg_word; md_name d].
(* the lines joined by newlines: a final DEmpty gives a text that ends in a newline *)
Definition text_of (d : mdef) : bytes := join_nl (map render_dline (md_lines d)).

Definition ref_of (pkg : bytes) (l : dline) : option bytes :=
  match l with
  | DField (FLocal n) _ _ => Some (join_slash [pkg; s_msg_word; n])
  | DField (FQual p n) _ _ => Some (join_slash [p; s_msg_word; n])
  | _ => None
  end.
Definition opt_list {A} (o : option A) : list A := match o with Some x => [x] | None => [] end.
Definition refs_of_lines (pkg : bytes) (ls : list dline) : list bytes := flat_map (fun l => opt_list (ref_of pkg l)) ls.
Definition refs_of (d : mdef) : list bytes := refs_of_lines (md_pkg d) (md_lines d).

Fixpoint lookup (defs : list mdef) (q : bytes) : option mdef :=
  match defs with [] => None | d :: r => if bytes_eqb (type_of d) q then Some d else lookup r q end.

(* --- the specification: breadth-first order, first occurrence only --- *)
Fixpoint fresh (refs seen : list bytes) : list bytes :=
  match refs with
  | [] => []
  | q :: r => if mem_b q seen then fresh r seen else q :: fresh r (seen ++ [q])
  end.

Fixpoint bfs (fuel : nat) (defs : list mdef) (queue seen : list bytes) : list bytes :=
  match fuel with
  | O => []
  | S f =>
    match queue with
    | [] => []
    | q :: rest =>
      let new := fresh (match lookup defs q with Some d => refs_of d | None => [] end) seen in
      q :: bfs f defs (rest ++ new) (seen ++ new)
    end
  end.
Definition bfs_order (defs : list mdef) (ty : bytes) : list bytes := bfs (length defs) defs [ty] [ty].

(* 80 '=' and a newline, "MSG: pkg/Name" and a newline *)
Definition header (d : mdef) : bytes := s_sep_line ++ s_msg_colon ++ md_pkg d ++ x2f :: md_name d ++ [x0a].
Fixpoint render_rest (buf : bytes) (ds : list mdef) : bytes :=
  match ds with
  | [] => buf
  | d :: r => render_rest ((if ends_nl buf then buf else buf ++ [x0a]) ++ header d ++ text_of d) r
  end.
Definition render_defs (ds : list mdef) : bytes :=
  match ds with [] => [] | d :: r => render_rest (text_of d) r end.
Definition lookup_all (defs : list mdef) (qs : list bytes) : list mdef := flat_map (fun q => opt_list (lookup defs q)) qs.
Definition expected_schema (defs : list mdef) (ty : bytes) : bytes :=
  render_defs (lookup_all defs (bfs_order defs ty)).

(* --- the tree: one search directory, an index file per package, a file per definition --- *)
Fixpoint dedup (l : list bytes) : list bytes :=
  match l with [] => [] | x :: r => if mem_b x r then dedup r else x :: dedup r end.
Definition pkgs (defs : list mdef) : list bytes := dedup (map md_pkg defs).
Definition s_msg_slash : bytes := s_msg_word ++ [x2f].
Definition index_line (d : mdef) : bytes := s_msg_slash ++ md_name d ++ s_dot_msg.
Definition index_text (defs : list mdef) (p : bytes) : bytes :=
  join_nl (map index_line (filter (fun d => bytes_eqb (md_pkg d) p) defs)).
Definition index_file (dir : list bytes) (defs : list mdef) (p : bytes) : list bytes * bytes :=
  (dir ++ [s_share; s_ament_index; s_resource_index; s_rosidl; p], index_text defs p).
Definition def_file (dir : list bytes) (d : mdef) : list bytes * bytes :=
  (dir ++ [s_share; md_pkg d; s_msg_word; md_name d ++ s_dot_msg], text_of d).
Definition tree_of (dir : list bytes) (defs : list mdef) : fstree :=
  {| ft_files := map (index_file dir defs) (pkgs defs) ++ map (def_file dir) defs; ft_dirs := [] |}.

(* --- well-formedness --- *)
(* bytes of package and type names: visible ASCII except '/', '.', '[', '<', '#' *)
Definition nm_byte (b : byte) : bool :=
  ascii_vis b && negb (is_byte b 47) && negb (is_byte b 46) && negb (is_byte b 91) && negb (is_byte b 60)
  && negb (is_byte b 35).
Definition pkg_ok (s : bytes) : bool := nonempty_b s && forallb nm_byte s.
Definition name_ok (s : bytes) : bool := nonempty_b s && forallb nm_byte s && negb (is_primitive s).
(* "" or '[' ... or '<' ... without white space *)
Definition suffix_ok (s : bytes) : bool :=
  match s with [] => true | b :: _ => (is_byte b 91 || is_byte b 60) && forallb ascii_vis s end.
(* after the type: not empty, no newline, the last byte is visible ASCII *)
Definition rest_ok (r : bytes) : bool := nonempty_b r && negb (contains_byte 10 r) && ascii_vis (last r x20).
Definition comment_ok (c : bytes) : bool := negb (contains_byte 10 c) && ascii_vis (last c x23).
Definition ftype_ok (ty : ftype) : bool :=
  match ty with FPrim p => is_primitive p | FLocal n => name_ok n | FQual p n => pkg_ok p && name_ok n end.
Definition dline_ok (l : dline) : bool :=
  match l with
  | DComment c => comment_ok c
  | DEmpty => true
  | DField ty suf rest => ftype_ok ty && suffix_ok suf && rest_ok rest
  end.
Definition mdef_ok (d : mdef) : bool := pkg_ok (md_pkg d) && name_ok (md_name d) && forallb dline_ok (md_lines d).
(* names and lines well formed; distinct (package, name) pairs; every reference resolvable *)
Definition wf_defs (defs : list mdef) : bool :=
  forallb mdef_ok defs && nodup_b (map type_of defs)
  && forallb (fun d => forallb (fun q => mem_b q (map type_of defs)) (refs_of d)) defs.

(* ------------------------------------------------------------------------------------------ *)
(* names                                                                                       *)

Lemma nm_byte_props b : nm_byte b = true ->
  ascii_vis b = true /\ is_byte b 47 = false /\ is_byte b 46 = false /\ is_byte b 91 = false /\
  is_byte b 60 = false /\ is_byte b 35 = false.
Proof. unfold nm_byte. rewrite !andb_true_iff, !negb_true_iff. tauto. Qed.

Lemma nm_props s : pkg_ok s = true ->
  s <> [] /\ noslash s /\ s <> s_dot /\ s <> s_dotdot /\ contains_byte 91 s = false /\ contains_byte 60 s = false /\
  contains_byte 35 s = false /\ forallb ascii_vis s = true.
Proof.
  unfold pkg_ok. rewrite andb_true_iff. intros [H1 H2].
  assert (H46 : contains_byte 46 s = false).
  { eapply forallb_contains; [|exact H2]. intros b Hb. apply nm_byte_props in Hb. tauto. }
  split; [destruct s; [discriminate|congruence]|].
  split; [eapply forallb_contains; [|exact H2]; intros b Hb; apply nm_byte_props in Hb; tauto|].
  split; [intros ->; discriminate H46|]. split; [intros ->; discriminate H46|].
  split; [eapply forallb_contains; [|exact H2]; intros b Hb; apply nm_byte_props in Hb; tauto|].
  split; [eapply forallb_contains; [|exact H2]; intros b Hb; apply nm_byte_props in Hb; tauto|].
  split; [eapply forallb_contains; [|exact H2]; intros b Hb; apply nm_byte_props in Hb; tauto|].
  eapply forallb_imp; [|exact H2]. intros b Hb. apply nm_byte_props in Hb. tauto.
Qed.

Lemma name_pkg_ok s : name_ok s = true -> pkg_ok s = true /\ is_primitive s = false.
Proof. unfold name_ok, pkg_ok. rewrite !andb_true_iff, negb_true_iff. tauto. Qed.

Lemma nm_comp_ok s : pkg_ok s = true -> comp_ok s.
Proof. intros H. apply nm_props in H. split; tauto. Qed.

Lemma prim_props p : is_primitive p = true -> pkg_ok p = true.
Proof.
  unfold is_primitive. rewrite mem_b_In. intros H.
  assert (Hall : forallb pkg_ok primitives = true) by (vm_compute; reflexivity).
  exact (forallb_In _ _ _ Hall H).
Qed.

Lemma vis_contains c s : (forall b, ascii_vis b = true -> is_byte b c = false) -> forallb ascii_vis s = true -> contains_byte c s = false.
Proof. intros H. apply forallb_contains. exact H. Qed.

Lemma vis_no32 s : forallb ascii_vis s = true -> contains_byte 32 s = false.
Proof. apply vis_contains. intros b Hb. apply vis_props in Hb. tauto. Qed.
Lemma vis_no10 s : forallb ascii_vis s = true -> contains_byte 10 s = false.
Proof. apply vis_contains. intros b Hb. apply vis_props in Hb. tauto. Qed.

(* ------------------------------------------------------------------------------------------ *)
(* strings                                                                                     *)

Lemma rev_last_cons {A} (s : list A) d : s <> [] -> rev s = last s d :: rev (removelast s).
Proof. intros H. rewrite (app_removelast_last d H) at 1. rewrite rev_app_distr. reflexivity. Qed.

Lemma last_app_ne {A} (l1 l2 : list A) d : l2 <> [] -> last (l1 ++ l2) d = last l2 d.
Proof.
  intros H. induction l1 as [|x l1 IH]; [reflexivity|]. simpl.
  destruct (l1 ++ l2) eqn:E; [apply app_eq_nil in E; destruct E; congruence|exact IH].
Qed.

Lemma last_cons_same {A} (x : A) l : last (x :: l) x = last l x.
Proof. destruct l; reflexivity. Qed.

Lemma last_default {A} (l : list A) d d' : l <> [] -> last l d = last l d'.
Proof. induction l as [|x l IH]; [congruence|]. intros _. destruct l; [reflexivity|]. apply IH. discriminate. Qed.

(* a line that starts and ends with visible ASCII is not changed by TrimSpace *)
Lemma trim_plain b r : ascii_vis b = true -> ascii_vis (last (b :: r) b) = true -> trim_space (b :: r) = b :: r.
Proof.
  intros H1 H2. apply trim_space_id; [apply vis_lead; exact H1|].
  rewrite (rev_last_cons (b :: r) b) by discriminate. apply vis_trail. exact H2.
Qed.

Lemma fields_sep sep a x r : a <> [] -> contains_byte sep a = false -> is_byte x sep = true ->
  fields_by sep (a ++ x :: r) = a :: fields_by sep r.
Proof.
  intros H1 H2 H3. rewrite !fields_filter, split_sep by auto. destruct a; [congruence|reflexivity].
Qed.

Lemma cut_at_none c s : contains_byte c s = false -> cut_at c s = s.
Proof. intros H. unfold cut_at, index_byte. rewrite index_aux_none by exact H. reflexivity. Qed.

Lemma cut_at_some c a x r : a <> [] -> contains_byte c a = false -> is_byte x c = true -> cut_at c (a ++ x :: r) = a.
Proof.
  intros H1 H2 H3. unfold cut_at, index_byte. rewrite index_aux_some by auto.
  destruct a as [|a0 ar]; [congruence|]. cbn [length Nat.add].
  change (S (length ar)) with (length (a0 :: ar)). apply firstn_app_exact.
Qed.

Lemma contains_split c s : contains_byte c s = true ->
  exists s1 y s2, s = s1 ++ y :: s2 /\ contains_byte c s1 = false /\ is_byte y c = true.
Proof.
  induction s as [|b s IH]; simpl; [discriminate|].
  destruct (is_byte b c) eqn:E.
  - intros _. exists [], b, s. auto.
  - simpl. intros H. destruct (IH H) as (s1 & y & s2 & -> & H1 & H2).
    exists (b :: s1), y, s2. simpl. rewrite E, H1. auto.
Qed.

Lemma cut_at_keep c a s : a <> [] -> contains_byte c a = false -> exists s', cut_at c (a ++ s) = a ++ s'.
Proof.
  intros H1 H2. destruct (contains_byte c s) eqn:E.
  - destruct (contains_split c s E) as (s1 & y & s2 & -> & H3 & H4).
    exists s1. rewrite app_assoc. apply cut_at_some; auto.
    + destruct a; [congruence|discriminate].
    + rewrite contains_byte_app, H2, H3. reflexivity.
  - exists s. apply cut_at_none. rewrite contains_byte_app, H2, E. reflexivity.
Qed.

(* the type of a field: "[...": array, "<...": bound *)
Lemma cut_token base suf : base <> [] -> contains_byte 91 base = false -> contains_byte 60 base = false ->
  suffix_ok suf = true -> cut_at 60 (cut_at 91 (base ++ suf)) = base.
Proof.
  intros H1 H2 H3 Hs. destruct suf as [|x sr].
  - rewrite app_nil_r, (cut_at_none 91 base H2), (cut_at_none 60 base H3). reflexivity.
  - simpl in Hs. apply andb_true_iff in Hs. destruct Hs as [Hx _].
    destruct (is_byte x 91) eqn:E91.
    + rewrite cut_at_some by auto. apply cut_at_none. exact H3.
    + simpl in Hx. destruct (cut_at_keep 91 (base ++ [x]) sr) as (s' & Hc).
      * destruct base; discriminate.
      * rewrite contains_byte_app, H2. simpl. rewrite E91. reflexivity.
      * rewrite <- app_assoc in Hc. cbn [app] in Hc. rewrite Hc, <- app_assoc. cbn [app].
        apply cut_at_some; auto.
Qed.

Lemma join_rel_normal a c1 : comp_ok a -> a <> s_dot -> a <> s_dotdot -> comp_ok c1 -> c1 <> s_dot -> c1 <> s_dotdot ->
  join_rel [a; s_msg_word; c1] = join_slash [a; s_msg_word; c1].
Proof.
  intros [Ha1 Ha2] Ha3 Ha4 [Hc1 Hc2] Hc3 Hc4.
  rewrite (join_rel3 a c1 c1 Ha2 (fields_nosep 47 c1 Hc1 Hc2)).
  apply bytes_eqb_false in Ha3, Ha4, Hc3, Hc4.
  destruct a as [|a0 ar]; [congruence|]. destruct c1 as [|d0 dr]; [congruence|].
  rewrite s_msg_word_eq. cbn [filter nonempty_b app clean_rel].
  rewrite Ha3, Ha4, Hc3, Hc4.
  change (bytes_eqb [x6d; x73; x67] s_dot) with false. change (bytes_eqb [x6d; x73; x67] s_dotdot) with false.
  reflexivity.
Qed.

(* ------------------------------------------------------------------------------------------ *)
(* one rendered line                                                                           *)

Lemma line_ref_token pkg base suf rest :
  base <> [] -> forallb ascii_vis base = true -> contains_byte 35 base = false ->
  contains_byte 91 base = false -> contains_byte 60 base = false ->
  suffix_ok suf = true -> rest_ok rest = true ->
  line_ref pkg (base ++ suf ++ x20 :: rest) =
  if is_primitive base then Ok None
  else if match fields_by 47 base with [] => true | _ => false end then Err EOther
       else let* q := field_to_qualified base pkg in Ok (Some q).
Proof.
  intros Hne Hvis H35 H91 H60 Hsuf Hrest.
  unfold rest_ok in Hrest. rewrite !andb_true_iff, negb_true_iff in Hrest. destruct Hrest as [[Hr1 Hr2] Hr3].
  assert (Hrne : rest <> []) by (destruct rest; [discriminate|congruence]).
  assert (Hsv : forallb ascii_vis suf = true).
  { destruct suf; [reflexivity|]. simpl in Hsuf. apply andb_true_iff in Hsuf. tauto. }
  assert (Htok : forallb ascii_vis (base ++ suf) = true) by (rewrite forallb_app, Hvis, Hsv; reflexivity).
  destruct base as [|b0 br]; [congruence|].
  assert (Hb0 : ascii_vis b0 = true) by (simpl in Hvis; apply andb_true_iff in Hvis; tauto).
  assert (Hb35 : is_byte b0 35 = false) by (simpl in H35; apply orb_false_iff in H35; tauto).
  unfold line_ref. rewrite app_assoc.
  change (((b0 :: br) ++ suf) ++ x20 :: rest) with (b0 :: (br ++ suf) ++ x20 :: rest).
  rewrite trim_plain; [|exact Hb0|].
  2:{ change (b0 :: (br ++ suf) ++ x20 :: rest) with (((b0 :: br) ++ suf) ++ [x20] ++ rest).
      rewrite app_assoc, (last_app_ne _ rest b0 Hrne), (last_default rest b0 x20 Hrne). exact Hr3. }
  rewrite Hb35.
  change (b0 :: (br ++ suf) ++ x20 :: rest) with (((b0 :: br) ++ suf) ++ x20 :: rest).
  rewrite fields_sep; [|discriminate|apply vis_no32; exact Htok|reflexivity].
  cbv zeta. rewrite cut_token by (auto; discriminate). reflexivity.
Qed.

Theorem line_ref_render pkg l : pkg_ok pkg = true -> dline_ok l = true ->
  line_ref pkg (render_dline l) = Ok (ref_of pkg l).
Proof.
  intros Hpkg Hl. destruct l as [c| |ty suf rest].
  - simpl in Hl. unfold comment_ok in Hl. rewrite andb_true_iff in Hl. destruct Hl as [_ Hl].
    unfold line_ref. cbn [render_dline]. rewrite trim_plain; [reflexivity|reflexivity|].
    rewrite last_cons_same. exact Hl.
  - reflexivity.
  - cbn [dline_ok] in Hl. rewrite !andb_true_iff in Hl. destruct Hl as [[Hty Hsuf] Hrest].
    cbn [render_dline ref_of].
    pose proof (nm_props pkg Hpkg) as (P1 & P2 & P3 & P4 & _).
    destruct ty as [p|n|p n]; cbn [ftype_ok ftype_text] in *.
    + pose proof (nm_props p (prim_props p Hty)) as (H1 & H2 & H3 & H4 & H5 & H6 & H7 & H8).
      rewrite line_ref_token by auto. rewrite Hty. reflexivity.
    + destruct (name_pkg_ok n Hty) as [Hn Hnp].
      pose proof (nm_props n Hn) as (H1 & H2 & H3 & H4 & H5 & H6 & H7 & H8).
      rewrite line_ref_token by auto. rewrite Hnp, (fields_nosep 47 n H1 H2).
      unfold field_to_qualified. rewrite (fields_nosep 47 n H1 H2). cbn [bind].
      rewrite join_rel_normal by (auto; split; auto). reflexivity.
    + apply andb_true_iff in Hty. destruct Hty as [Hp Hty]. destruct (name_pkg_ok n Hty) as [Hn Hnp].
      pose proof (nm_props n Hn) as (H1 & H2 & H3 & H4 & H5 & H6 & H7 & H8).
      pose proof (nm_props p Hp) as (G1 & G2 & G3 & G4 & G5 & G6 & G7 & G8).
      assert (Hf : fields_by 47 (p ++ x2f :: n) = [p; n]).
      { rewrite fields_sep by (auto; reflexivity). rewrite fields_nosep by auto. reflexivity. }
      rewrite line_ref_token.
      * destruct (is_primitive (p ++ x2f :: n)) eqn:Ep.
        { apply prim_props, nm_props in Ep. destruct Ep as (_ & Ep & _). unfold noslash in Ep.
          rewrite contains_byte_app in Ep. simpl in Ep. rewrite orb_true_r in Ep. discriminate. }
        rewrite Hf. unfold field_to_qualified. rewrite Hf. cbn [bind].
        rewrite join_rel_normal by (auto; split; auto). reflexivity.
      * destruct p; [congruence|discriminate].
      * rewrite forallb_app. cbn [forallb]. rewrite G8, H8. reflexivity.
      * rewrite contains_byte_app. cbn [contains_byte]. rewrite G7, H7. reflexivity.
      * rewrite contains_byte_app. cbn [contains_byte]. rewrite G5, H5. reflexivity.
      * rewrite contains_byte_app. cbn [contains_byte]. rewrite G6, H6. reflexivity.
      * exact Hsuf.
      * exact Hrest.
Qed.
