(* Ros2SchemaFacts.v - proofs about the model of the ROS 2 schema assembly (Ros2Schema.v):
   part 1: totality, for every tree, every list of search directories and every type name.  get_schema, scan_lines,
           get_schema_for, get_schemas produce Ok or Err; the panic site of fieldToQualifiedROSType is unreachable;
           the panic site of the buffer access in getSchemas is unreachable from get_schema_for (loop invariant
           buf_inv; `assemble` alone reaches it from a state that get_schema_for never creates:
           assemble_panic_outside_invariant); the fuel `fs_weight t` always suffices: every enqueued type is the
           Clean-ed "P/msg/C", which determines a line of an index file of the tree (keyrel, pigeon), and the tree has
           at most fs_weight t - 2 such lines;
   part 2: db3_to_mcap_fs is Ok for every input; the two cases;
   part 3: functional correctness on the tree (tree_of) of an abstract universe of definitions (mdef): the assembled
           text is expected_schema (breadth-first order of first occurrence, cycles included); the specification
           is independent of its fuel (bfs_order_stable) and characterised (bfs_order_spec); special cases;
           the composition with the db3 conversion; examples used by properties/C18_schema.v. *)
From Coq Require Import List NArith ZArith Bool Lia ZifyN ZifyNat ZifyBool.
From Coq.Strings Require Import Byte.
From Coq.Strings Require String.
Import String.StringSyntax.
Delimit Scope string_scope with string.
From Mcap Require Import Bytes BytesFacts GoSem Records Writer Ros1Msg Ros1MsgFacts Db3 Db3Facts Ros2Schema.
Import ListNotations.
Open Scope nat_scope.
Open Scope go_scope.

(* ------------------------------------------------------------------------------------------ *)
(* strings.FieldsFunc / strings.Split on one byte                                              *)

Definition nonempty_b (e : bytes) : bool := match e with [] => false | _ => true end.
Definition noslash (c : bytes) : Prop := contains_byte 47 c = false.

Lemma nonempty_rev cur : nonempty_b (rev cur) = nonempty_b cur.
Proof. destruct cur; simpl; auto. destruct (rev cur); reflexivity. Qed.

Lemma fields_aux_filter sep s : forall cur,
  fields_aux sep s cur = filter nonempty_b (split_byte_aux sep s cur).
Proof.
  induction s as [|b r IH]; intros cur; simpl.
  - rewrite nonempty_rev. destruct cur; reflexivity.
  - destruct (is_byte b sep); simpl.
    + rewrite nonempty_rev. destruct cur; simpl; rewrite IH; reflexivity.
    + apply IH.
Qed.

(* FieldsFunc = the non-empty elements of Split *)
Lemma fields_filter sep s : fields_by sep s = filter nonempty_b (split_byte sep s).
Proof. apply fields_aux_filter. Qed.

Lemma contains_byte_rev c s : contains_byte c (rev s) = contains_byte c s.
Proof.
  induction s as [|b s IH]; simpl; auto.
  rewrite contains_byte_app, IH. simpl. rewrite orb_false_r. apply orb_comm.
Qed.

Lemma split_aux_comps sep s : forall cur, contains_byte sep cur = false ->
  Forall (fun c => contains_byte sep c = false) (split_byte_aux sep s cur).
Proof.
  induction s as [|b r IH]; intros cur Hc; simpl.
  - constructor; auto. rewrite contains_byte_rev. exact Hc.
  - destruct (is_byte b sep) eqn:E.
    + constructor; [rewrite contains_byte_rev; exact Hc|]. apply IH. reflexivity.
    + apply IH. simpl. rewrite E, Hc. reflexivity.
Qed.

Lemma split_comps sep s : Forall (fun c => contains_byte sep c = false) (split_byte sep s).
Proof. apply split_aux_comps. reflexivity. Qed.

Lemma fields_comps sep s c : In c (fields_by sep s) -> c <> [] /\ contains_byte sep c = false.
Proof.
  rewrite fields_filter, filter_In. intros [H1 H2]. split; [destruct c; [discriminate|congruence]|].
  pose proof (split_comps sep s) as H. rewrite Forall_forall in H. auto.
Qed.

Lemma fields_nosep sep c : c <> [] -> contains_byte sep c = false -> fields_by sep c = [c].
Proof. intros H1 H2. rewrite fields_filter, split_nosep by auto. destruct c; [congruence|reflexivity]. Qed.

Lemma fields_nil sep : fields_by sep [] = [].
Proof. reflexivity. Qed.

Lemma filter_all_true {A} (f : A -> bool) l : Forall (fun x => f x = true) l -> filter f l = l.
Proof. induction 1 as [|x l H _ IH]; simpl; [|rewrite H, IH]; reflexivity. Qed.

(* ------------------------------------------------------------------------------------------ *)
(* path.Join / path.Clean                                                                      *)

Lemma x2f_sep : is_byte x2f 47 = true. Proof. reflexivity. Qed.

Lemma split_join_slash cs : cs <> [] -> Forall noslash cs -> split_byte 47 (join_slash cs) = cs.
Proof.
  intros Hne H. induction H as [|l ls Hl Hls IH]; [congruence|].
  destruct ls as [|l2 ls]; [simpl; apply split_nosep; auto|].
  change (join_slash (l :: l2 :: ls)) with (l ++ x2f :: join_slash (l2 :: ls)).
  rewrite split_sep; auto. f_equal. apply IH. discriminate.
Qed.

Definition comp_ok (c : bytes) : Prop := c <> [] /\ noslash c.

Lemma fields_join_slash cs : Forall comp_ok cs -> fields_by 47 (join_slash cs) = cs.
Proof.
  intros H. rewrite fields_filter. destruct cs as [|c cs]; [reflexivity|].
  rewrite split_join_slash; [|discriminate|eapply Forall_impl; [|exact H]; intros a [_ Ha]; exact Ha].
  apply filter_all_true. eapply Forall_impl; [|exact H]. intros a [Ha _]. destruct a; [congruence|reflexivity].
Qed.

Lemma clean_rel_filter comps : forall st, clean_rel comps st = clean_rel (filter nonempty_b comps) st.
Proof.
  induction comps as [|c r IH]; intros st; [reflexivity|].
  destruct c as [|c0 cr]; [simpl; apply IH|].
  cbn [filter nonempty_b clean_rel].
  destruct (bytes_eqb (c0 :: cr) s_dot); [apply IH|].
  destruct (bytes_eqb (c0 :: cr) s_dotdot); [|apply IH].
  destruct st as [|top rest]; [apply IH|]. destruct (bytes_eqb top s_dotdot); apply IH.
Qed.

Lemma s_msg_word_eq : s_msg_word = [x6d; x73; x67]. Proof. reflexivity. Qed.
Lemma msg_noslash : noslash s_msg_word. Proof. reflexivity. Qed.
Lemma msg_comp_ok : comp_ok s_msg_word. Proof. split; [discriminate|reflexivity]. Qed.

(* path.Join(a, "msg", c) for a without '/' and c with exactly one field c1 between slashes *)
Lemma join_rel3 a c c1 : noslash a -> fields_by 47 c = [c1] ->
  join_rel [a; s_msg_word; c] =
  match clean_rel (filter nonempty_b [a] ++ [s_msg_word; c1]) [] with [] => s_dot | cs => join_slash cs end.
Proof.
  intros Ha Hc. destruct c as [|c0 cr]; [discriminate Hc|].
  rewrite fields_filter in Hc. unfold join_rel. rewrite s_msg_word_eq.
  destruct a as [|a0 ar].
  - cbn [filter nonempty_b join_slash app]. change (is_byte x6d 47) with false. cbv iota.
    change (x6d :: x73 :: x67 :: x2f :: c0 :: cr) with ([x6d; x73; x67] ++ x2f :: c0 :: cr).
    rewrite split_sep by reflexivity. rewrite clean_rel_filter.
    cbn [filter nonempty_b app]. rewrite Hc. reflexivity.
  - cbn [filter nonempty_b join_slash]. cbn [app]. unfold noslash in Ha. simpl in Ha.
    apply orb_false_iff in Ha. destruct Ha as [Ha0 Har]. rewrite Ha0. cbv iota.
    change (a0 :: ar ++ x2f :: x6d :: x73 :: x67 :: x2f :: c0 :: cr)
      with ((a0 :: ar) ++ x2f :: [x6d; x73; x67] ++ x2f :: c0 :: cr).
    rewrite split_sep; [|simpl; rewrite Ha0, Har; reflexivity|reflexivity].
    rewrite split_sep by reflexivity. rewrite clean_rel_filter.
    cbn [filter nonempty_b app]. rewrite Hc. reflexivity.
Qed.

Ltac fall := repeat (apply Forall_cons; [assumption|]); apply Forall_nil.

Lemma dot_fields : fields_by 47 s_dot = [s_dot]. Proof. reflexivity. Qed.

(* when the result has three or more fields it is exactly a/msg/c1 *)
Lemma join_rel3_three a c c1 : noslash a -> fields_by 47 c = [c1] ->
  3 <= length (fields_by 47 (join_rel [a; s_msg_word; c])) ->
  a <> [] /\ a <> s_dot /\ join_rel [a; s_msg_word; c] = join_slash [a; s_msg_word; c1] /\
  fields_by 47 (join_rel [a; s_msg_word; c]) = [a; s_msg_word; c1].
Proof.
  intros Ha Hc. rewrite (join_rel3 a c c1 Ha Hc).
  assert (Hc1 : comp_ok c1).
  { destruct (fields_comps 47 c c1) as [H1 H2]; [rewrite Hc; left; reflexivity|]. split; auto. }
  pose proof msg_comp_ok as Hm.
  destruct c1 as [|d0 dr]; [destruct Hc1; congruence|].
  destruct a as [|a0 ar].
  - cbn [filter nonempty_b app]. rewrite s_msg_word_eq in *. cbn [clean_rel].
    change (bytes_eqb [x6d; x73; x67] s_dot) with false. change (bytes_eqb [x6d; x73; x67] s_dotdot) with false.
    cbv iota.
    destruct (bytes_eqb (d0 :: dr) s_dot); [simpl; intros; lia|].
    destruct (bytes_eqb (d0 :: dr) s_dotdot); [simpl; intros; lia|].
    cbn [rev app]. rewrite fields_join_slash by fall. simpl. intros; lia.
  - assert (Hao : comp_ok (a0 :: ar)) by (split; [discriminate|exact Ha]).
    cbn [filter nonempty_b app]. rewrite s_msg_word_eq in *. cbn [clean_rel].
    change (bytes_eqb [x6d; x73; x67] s_dot) with false. change (bytes_eqb [x6d; x73; x67] s_dotdot) with false.
    destruct (bytes_eqb (a0 :: ar) s_dot) eqn:Ea1.
    + cbv iota.
      destruct (bytes_eqb (d0 :: dr) s_dot); [simpl; intros; lia|].
      destruct (bytes_eqb (d0 :: dr) s_dotdot); [simpl; intros; lia|].
      cbn [rev app]. rewrite fields_join_slash by fall. simpl. intros; lia.
    + apply bytes_eqb_false in Ea1.
      destruct (bytes_eqb (a0 :: ar) s_dotdot) eqn:Ea2; cbv iota.
      * destruct (bytes_eqb (d0 :: dr) s_dot).
        { cbn [rev app]. rewrite fields_join_slash by fall. simpl. intros; lia. }
        destruct (bytes_eqb (d0 :: dr) s_dotdot).
        { change (bytes_eqb [x6d; x73; x67] s_dotdot) with false. cbv iota. cbn [rev app].
          rewrite fields_join_slash by fall. simpl. intros; lia. }
        cbn [rev app]. rewrite fields_join_slash by fall. intros _.
        repeat split; auto. discriminate.
      * destruct (bytes_eqb (d0 :: dr) s_dot).
        { cbn [rev app]. rewrite fields_join_slash by fall. simpl. intros; lia. }
        destruct (bytes_eqb (d0 :: dr) s_dotdot).
        { change (bytes_eqb [x6d; x73; x67] s_dotdot) with false. cbv iota. cbn [rev app].
          rewrite fields_join_slash by fall. simpl. intros; lia. }
        cbn [rev app]. rewrite fields_join_slash by fall. intros _.
        repeat split; auto. discriminate.
Qed.

(* ------------------------------------------------------------------------------------------ *)
(* the file system                                                                             *)

Lemma comps_eqb_eq a : forall b, comps_eqb a b = true -> a = b.
Proof.
  induction a as [|x a IH]; intros [|y b]; simpl; try discriminate; auto.
  rewrite andb_true_iff, bytes_eqb_eq. intros [-> H]. f_equal. auto.
Qed.

Lemma comps_eqb_refl a : comps_eqb a a = true.
Proof. induction a as [|x a IH]; simpl; auto. rewrite bytes_eqb_refl. exact IH. Qed.

Lemma find_file_In p fs c : find_file p fs = Some c -> In (p, c) fs.
Proof.
  induction fs as [|[q c'] r IH]; simpl; [discriminate|].
  destruct (comps_eqb p q) eqn:E; [|auto].
  intros H. injection H as ->. apply comps_eqb_eq in E. subst. auto.
Qed.

Lemma read_file_In t p c : read_file t p = FsOk c -> In (p, c) (ft_files t).
Proof.
  unfold read_file. destruct (find_file p (ft_files t)) eqn:E.
  - intros H. injection H as ->. apply find_file_In. exact E.
  - destruct (_ || _); [discriminate|]. destruct (existsb _ _); discriminate.
Qed.

Lemma find_line_In base lines l : find_line base lines = Some l -> In l lines /\ base_name l = base ++ s_dot_msg.
Proof.
  induction lines as [|x r IH]; simpl; [discriminate|].
  destruct (bytes_eqb (base_name x) (base ++ s_dot_msg)) eqn:E.
  - intros H. injection H as ->. apply bytes_eqb_eq in E. auto.
  - intros H. destruct (IH H). auto.
Qed.

Definition idx_path (d : list bytes) (P : bytes) : list bytes :=
  join_dir d [s_share; s_ament_index; s_resource_index; s_rosidl; P].

Lemma get_schema_dirs_fine t P C dirs : no_crash (get_schema_dirs t P C dirs) = true.
Proof.
  induction dirs as [|d r IH]; simpl; auto.
  destruct (read_file t _); auto. destruct (find_line _ _); auto. destruct (read_file t _); auto.
Qed.

Lemma get_schema_dirs_ok t P C dirs sc : get_schema_dirs t P C dirs = Ok sc ->
  exists d idx line, In d dirs /\ In (idx_path d P, idx) (ft_files t) /\ In line (split_byte 10 idx) /\
                     base_name line = C ++ s_dot_msg.
Proof.
  induction dirs as [|d r IH]; simpl; [discriminate|].
  destruct (read_file t (join_dir d [s_share; s_ament_index; s_resource_index; s_rosidl; P])) as [idx| |] eqn:Er.
  - destruct (find_line C (split_byte 10 idx)) as [line|] eqn:El.
    + intros _. apply read_file_In in Er. apply find_line_In in El. destruct El.
      exists d, idx, line. auto.
    + intros H. destruct (IH H) as (d' & idx' & line & H1 & H2). exists d', idx', line. tauto.
  - intros H. destruct (IH H) as (d' & idx' & line & H1 & H2). exists d', idx', line. tauto.
  - discriminate.
Qed.

(* getSchema never crashes *)
Theorem get_schema_fine t dirs q : no_crash (get_schema t dirs q) = true.
Proof.
  unfold get_schema. destruct (fields_by 47 q) as [|a [|b [|c r]]]; auto. apply get_schema_dirs_fine.
Qed.

Lemma get_schema_ok t dirs q sc : get_schema t dirs q = Ok sc ->
  exists P m C r, fields_by 47 q = P :: m :: C :: r /\ get_schema_dirs t P C dirs = Ok sc.
Proof.
  unfold get_schema. destruct (fields_by 47 q) as [|a [|b [|c r]]]; try discriminate.
  intros H. exists a, b, c, r. auto.
Qed.

(* the lines of all files, keyed by the path of the file *)
Definition keys (t : fstree) : list (list bytes * bytes) :=
  flat_map (fun f => map (fun l => (fst f, base_name l)) (split_byte 10 (snd f))) (ft_files t).

Lemma split_aux_length sep s : forall cur, length (split_byte_aux sep s cur) <= S (length s).
Proof.
  induction s as [|b r IH]; intros cur; simpl; [lia|].
  destruct (is_byte b sep); simpl; [specialize (IH []); lia|specialize (IH (b :: cur)); lia].
Qed.

Fixpoint sum_weight (l : list (list bytes * bytes)) : nat :=
  match l with [] => 0 | f :: r => S (length (snd f)) + sum_weight r end.

Lemma fold_weight (l : list (list bytes * bytes)) : forall a,
  fold_left (fun n f => n + S (length (snd f))) l a = a + sum_weight l.
Proof.
  induction l as [|f l IH]; intros a; cbn [fold_left sum_weight]; [lia|]. rewrite IH, Nat.add_assoc. reflexivity.
Qed.

Lemma keys_weight t : length (keys t) + 2 <= fs_weight t.
Proof.
  unfold fs_weight, keys. rewrite fold_weight.
  assert (H : forall l : list (list bytes * bytes),
            length (flat_map (fun f => map (fun l => (fst f, base_name l)) (split_byte 10 (snd f))) l)
            <= sum_weight l).
  { induction l as [|f l IH]; cbn [flat_map sum_weight]; [simpl; lia|]. rewrite !app_length, map_length.
    pose proof (split_aux_length 10 (snd f) []). unfold split_byte, bytes in *. lia. }
  specialize (H (ft_files t)). lia.
Qed.

Lemma keys_In t p idx line : In (p, idx) (ft_files t) -> In line (split_byte 10 idx) -> In (p, base_name line) (keys t).
Proof.
  intros H1 H2. unfold keys. apply in_flat_map. exists (p, idx). split; auto.
  simpl. apply in_map_iff. exists line. auto.
Qed.

(* the index path of a package name *)
Lemma clean_rooted_push c r st : c <> [] -> c <> s_dot -> c <> s_dotdot ->
  clean_rooted (c :: r) st = clean_rooted r (c :: st).
Proof.
  intros H1 H2 H3. destruct c; [congruence|]. cbn [clean_rooted].
  apply bytes_eqb_false in H2, H3. rewrite H2, H3. reflexivity.
Qed.

Definition normalP (P : bytes) : Prop := P <> [] /\ P <> s_dot /\ noslash P.

Lemma idx_path_eq d P : normalP P ->
  idx_path d P = if bytes_eqb P s_dotdot then d ++ [s_share; s_ament_index; s_resource_index]
                 else d ++ [s_share; s_ament_index; s_resource_index; s_rosidl; P].
Proof.
  intros (H1 & H2 & H3). unfold idx_path, join_dir. cbn [map concat].
  change (split_byte 47 s_share) with [s_share]. change (split_byte 47 s_ament_index) with [s_ament_index].
  change (split_byte 47 s_resource_index) with [s_resource_index]. change (split_byte 47 s_rosidl) with [s_rosidl].
  rewrite (split_nosep 47 P H3). cbn [app].
  rewrite !clean_rooted_push by (intro X; vm_compute in X; discriminate X).
  destruct P as [|p0 pr]; [congruence|]. cbn [clean_rooted].
  apply bytes_eqb_false in H2. rewrite H2.
  destruct (bytes_eqb (p0 :: pr) s_dotdot); cbn [clean_rooted tl rev app]; rewrite rev_involutive, <- !app_assoc; reflexivity.
Qed.

Lemma idx_path_inj d P d' P' : normalP P -> normalP P' -> idx_path d P = idx_path d' P' -> P = P'.
Proof.
  intros HP HP'. rewrite (idx_path_eq d P HP), (idx_path_eq d' P' HP').
  destruct (bytes_eqb P s_dotdot) eqn:E1; destruct (bytes_eqb P' s_dotdot) eqn:E2.
  - apply bytes_eqb_eq in E1, E2. congruence.
  - intros H. exfalso.
    change (d ++ [s_share; s_ament_index; s_resource_index]) with (d ++ [s_share; s_ament_index] ++ [s_resource_index]) in H.
    change (d' ++ [s_share; s_ament_index; s_resource_index; s_rosidl; P'])
      with (d' ++ [s_share; s_ament_index; s_resource_index; s_rosidl] ++ [P']) in H.
    rewrite !app_assoc in H. apply app_inj_tail in H. destruct H as [H _].
    change ((d ++ [s_share; s_ament_index])) with (d ++ [s_share] ++ [s_ament_index]) in H.
    change (d' ++ [s_share; s_ament_index; s_resource_index; s_rosidl])
      with (d' ++ [s_share; s_ament_index; s_resource_index] ++ [s_rosidl]) in H.
    rewrite !app_assoc in H. apply app_inj_tail in H. destruct H as [_ H]. vm_compute in H. discriminate H.
  - intros H. exfalso. symmetry in H.
    change (d' ++ [s_share; s_ament_index; s_resource_index]) with (d' ++ [s_share; s_ament_index] ++ [s_resource_index]) in H.
    change (d ++ [s_share; s_ament_index; s_resource_index; s_rosidl; P])
      with (d ++ [s_share; s_ament_index; s_resource_index; s_rosidl] ++ [P]) in H.
    rewrite !app_assoc in H. apply app_inj_tail in H. destruct H as [H _].
    change ((d' ++ [s_share; s_ament_index])) with (d' ++ [s_share] ++ [s_ament_index]) in H.
    change (d ++ [s_share; s_ament_index; s_resource_index; s_rosidl])
      with (d ++ [s_share; s_ament_index; s_resource_index] ++ [s_rosidl]) in H.
    rewrite !app_assoc in H. apply app_inj_tail in H. destruct H as [_ H]. vm_compute in H. discriminate H.
  - intros H.
    change (d ++ [s_share; s_ament_index; s_resource_index; s_rosidl; P])
      with (d ++ [s_share; s_ament_index; s_resource_index; s_rosidl] ++ [P]) in H.
    change (d' ++ [s_share; s_ament_index; s_resource_index; s_rosidl; P'])
      with (d' ++ [s_share; s_ament_index; s_resource_index; s_rosidl] ++ [P']) in H.
    rewrite !app_assoc in H. apply app_inj_tail in H. tauto.
Qed.

(* ------------------------------------------------------------------------------------------ *)
(* a qualified type that getSchema accepts determines a line of an index file                  *)

Definition keyrel (q : bytes) (k : list bytes * bytes) : Prop :=
  exists P C d, q = join_slash [P; s_msg_word; C] /\ normalP P /\ fst k = idx_path d P /\ snd k = C ++ s_dot_msg.

Definition good (t : fstree) (q : bytes) : Prop := exists k, In k (keys t) /\ keyrel q k.

Lemma keyrel_inj q q' k : keyrel q k -> keyrel q' k -> q = q'.
Proof.
  intros (P & C & d & -> & HP & H1 & H2) (P' & C' & d' & -> & HP' & H1' & H2').
  rewrite H1 in H1'. rewrite H2 in H2'. apply idx_path_inj in H1'; auto. apply app_inv_tail in H2'. congruence.
Qed.

Lemma pigeon_aux {A B} (R : A -> B -> Prop) (inj : forall a a' b, R a b -> R a' b -> a = a') :
  forall l l', Forall2 R l l' -> NoDup l -> NoDup l'.
Proof.
  induction 1 as [|a b l l' Hab HF IH]; intros Hnd; [constructor|].
  inversion Hnd; subst. constructor; auto.
  intros Hin.
  assert (H : exists a', In a' l /\ R a' b).
  { clear -HF Hin. induction HF as [|x y l l' Hxy HF IH]; simpl in *; [tauto|].
    destruct Hin as [->|Hin]; [eauto|]. destruct (IH Hin) as (a' & ? & ?); eauto. }
  destruct H as (a' & Hin' & Hr). rewrite (inj _ _ _ Hab Hr) in *. contradiction.
Qed.

Lemma Forall2_len {A B} (R : A -> B -> Prop) l l' : Forall2 R l l' -> length l = length l'.
Proof. induction 1; simpl; auto. Qed.

Lemma pigeon {A B} (R : A -> B -> Prop) (U : list B) :
  (forall a a' b, R a b -> R a' b -> a = a') ->
  forall l, NoDup l -> Forall (fun a => exists b, In b U /\ R a b) l -> length l <= length U.
Proof.
  intros inj l Hnd Hl.
  assert (H : exists l', Forall2 R l l' /\ incl l' U).
  { clear Hnd. induction Hl as [|a l (b & Hb & Hab) _ (l' & H1 & H2)]; [exists []; split; [constructor|intros x []]|].
    exists (b :: l'). split; [constructor; auto|]. intros x [<-|Hx]; auto. }
  destruct H as (l' & H1 & H2).
  rewrite (Forall2_len _ _ _ H1). apply NoDup_incl_length; auto. eapply pigeon_aux; eauto.
Qed.

Lemma good_bound t l : NoDup l -> Forall (good t) l -> length l <= length (keys t).
Proof. intros. apply (pigeon keyrel (keys t)); auto. intros a a' b. apply keyrel_inj. Qed.

(* ------------------------------------------------------------------------------------------ *)
(* one line of a definition                                                                    *)

Definition parent_of (sd : subdef) : bytes :=
  match split_byte 47 (sd_type sd) with p :: _ :: _ => p | _ => sd_parent sd end.

(* None: nothing to look up (empty, comment, primitive); Some q: a field of the qualified type q *)
Definition line_ref (parent raw : bytes) : outcome (option bytes) :=
  let line := trim_space raw in
  match line with
  | [] => Ok None
  | b :: _ =>
    if is_byte b 35 then Ok None else
    match fields_by 32 line with
    | [] => Err EOther
    | ft0 :: _ =>
      let ft := cut_at 60 (cut_at 91 ft0) in
      if is_primitive ft then Ok None else
      if match fields_by 47 ft with [] => true | _ => false end then Err EOther else
      let* q := field_to_qualified ft parent in Ok (Some q)
    end
  end.

Definition enqueue (parent q sc : bytes) (seen : list bytes) (queue : list subdef) : list bytes * list subdef :=
  if mem_b q seen then (seen, queue)
  else (seen ++ [q], queue ++ [{| sd_parent := parent; sd_type := q; sd_schema := sc |}]).

Lemma scan_lines_cons t dirs sd raw rest seen queue :
  scan_lines t dirs sd (raw :: rest) seen queue =
  match line_ref (parent_of sd) raw with
  | Ok None => scan_lines t dirs sd rest seen queue
  | Ok (Some q) =>
    let* sc := get_schema t dirs q in
    scan_lines t dirs sd rest (fst (enqueue (parent_of sd) q sc seen queue)) (snd (enqueue (parent_of sd) q sc seen queue))
  | Err e => Err e
  | Panic s => Panic s
  | Exit s => Exit s
  | OutOfFuel => OutOfFuel
  end.
Proof.
  unfold line_ref, enqueue. cbn [scan_lines]. fold (parent_of sd).
  destruct (trim_space raw) as [|b l0]; [reflexivity|].
  destruct (is_byte b 35); [reflexivity|].
  destruct (fields_by 32 (b :: l0)) as [|ft0 fr]; [reflexivity|]. cbv zeta.
  destruct (is_primitive _); [reflexivity|].
  destruct (fields_by 47 _) eqn:Ef; [reflexivity|]. cbv iota.
  destruct (field_to_qualified _ _) as [q| | | |]; try reflexivity.
  cbn [bind]. destruct (get_schema t dirs q); try reflexivity. cbn [bind].
  destruct (mem_b q seen); reflexivity.
Qed.

Lemma field_to_qualified_ok ft parent : fields_by 47 ft <> [] -> noslash parent ->
  exists a c c1, field_to_qualified ft parent = Ok (join_rel [a; s_msg_word; c]) /\ noslash a /\ fields_by 47 c = [c1].
Proof.
  intros Hne Hp. unfold field_to_qualified. destruct (fields_by 47 ft) as [|p0 [|p1 r]] eqn:Ef; [congruence| |].
  - exists parent, ft, p0. auto.
  - destruct (fields_comps 47 ft p0) as [Ha Hb]; [rewrite Ef; simpl; auto|].
    destruct (fields_comps 47 ft p1) as [Hc Hd]; [rewrite Ef; simpl; auto|].
    exists p0, p1, p1. split; auto. split; auto. apply fields_nosep; auto.
Qed.

(* the panic site of fieldToQualifiedROSType is not reachable *)
Lemma line_ref_fine parent raw : no_crash (line_ref parent raw) = true.
Proof.
  unfold line_ref. destruct (trim_space raw) as [|b l0]; auto.
  destruct (is_byte b 35); auto. destruct (fields_by 32 (b :: l0)) as [|ft0 fr]; auto. cbv zeta.
  destruct (is_primitive _); auto. unfold field_to_qualified.
  destruct (fields_by 47 _) as [|p0 [|p1 r]]; auto.
Qed.

Lemma line_ref_some parent raw q : line_ref parent raw = Ok (Some q) -> noslash parent ->
  exists a c c1, q = join_rel [a; s_msg_word; c] /\ noslash a /\ fields_by 47 c = [c1].
Proof.
  unfold line_ref. destruct (trim_space raw) as [|b l0]; [discriminate|].
  destruct (is_byte b 35); [discriminate|]. destruct (fields_by 32 (b :: l0)) as [|ft0 fr]; [discriminate|]. cbv zeta.
  destruct (is_primitive _); [discriminate|].
  set (ft := cut_at 60 (cut_at 91 ft0)).
  destruct (fields_by 47 ft) eqn:Ef; [discriminate|]. intros H Hp.
  destruct (field_to_qualified_ok ft parent) as (a & c & c1 & H1 & H2 & H3); [congruence|auto|].
  rewrite H1 in H. cbn [bind] in H. injection H as <-. exists a, c, c1. auto.
Qed.

Lemma line_ref_good t dirs parent raw q sc : line_ref parent raw = Ok (Some q) -> noslash parent ->
  get_schema t dirs q = Ok sc -> good t q.
Proof.
  intros H Hp Hs. destruct (line_ref_some _ _ _ H Hp) as (a & c & c1 & -> & Ha & Hc).
  destruct (get_schema_ok _ _ _ _ Hs) as (P & m & C & r & Hf & Hd).
  destruct (join_rel3_three a c c1 Ha Hc) as (H1 & H2 & H3 & H4); [rewrite Hf; simpl; lia|].
  rewrite H4 in Hf. injection Hf as <- <- <- <-.
  destruct (get_schema_dirs_ok _ _ _ _ _ Hd) as (d & idx & line & Hin & Hfile & Hline & Hbase).
  exists (idx_path d a, c1 ++ s_dot_msg). split.
  - rewrite <- Hbase. eapply keys_In; eauto.
  - exists a, c1, d. repeat split; auto.
Qed.

Definition sd_ok (sd : subdef) : Prop := noslash (parent_of sd).

Lemma parent_of_ok par q sc : noslash par -> sd_ok {| sd_parent := par; sd_type := q; sd_schema := sc |}.
Proof.
  intros H. unfold sd_ok, parent_of. cbn [sd_type sd_parent].
  pose proof (split_comps 47 q) as Hs. destruct (split_byte 47 q) as [|p [|p2 r]]; auto.
  inversion Hs; auto.
Qed.

(* ------------------------------------------------------------------------------------------ *)
(* the scan of a definition                                                                    *)

Theorem scan_lines_fine t dirs sd : forall lines seen queue,
  no_crash (scan_lines t dirs sd lines seen queue) = true.
Proof.
  induction lines as [|raw rest IH]; intros seen queue; [reflexivity|].
  rewrite scan_lines_cons. pose proof (line_ref_fine (parent_of sd) raw) as Hl.
  destruct (line_ref (parent_of sd) raw) as [[q|]| | | |]; try discriminate; auto.
  pose proof (get_schema_fine t dirs q) as Hg.
  destruct (get_schema t dirs q); try discriminate; auto. cbn [bind]. apply IH.
Qed.

Lemma scan_lines_spec t dirs sd : sd_ok sd -> forall lines seen queue seen' queue',
  scan_lines t dirs sd lines seen queue = Ok (seen', queue') ->
  exists newq, queue' = queue ++ newq /\ seen' = seen ++ map sd_type newq /\
    NoDup (map sd_type newq) /\
    Forall (fun s => ~ In (sd_type s) seen /\ good t (sd_type s) /\ sd_ok s) newq.
Proof.
  intros Hsd. induction lines as [|raw rest IH]; intros seen queue seen' queue'.
  - simpl. intros H. injection H as <- <-. exists []. simpl. rewrite !app_nil_r. repeat split; constructor.
  - rewrite scan_lines_cons.
    destruct (line_ref (parent_of sd) raw) as [[q|]| | | |] eqn:El; try discriminate; [|apply IH].
    destruct (get_schema t dirs q) as [sc| | | |] eqn:Eg; try discriminate. cbn [bind].
    unfold enqueue. destruct (mem_b q seen) eqn:Em; cbn [fst snd]; [apply IH|].
    intros H. destruct (IH _ _ _ _ H) as (newq & H1 & H2 & H3 & H4).
    exists ({| sd_parent := parent_of sd; sd_type := q; sd_schema := sc |} :: newq).
    rewrite <- app_assoc in H1, H2. split; [exact H1|]. split; [exact H2|].
    rewrite Forall_forall in H4. split.
    + cbn [map sd_type]. constructor; auto. intros Hin. apply in_map_iff in Hin. destruct Hin as (s & Hs1 & Hs2).
      destruct (H4 s Hs2) as (Hn & _). apply Hn. apply in_or_app. right. left. auto.
    + constructor.
      * cbn [sd_type]. split; [apply mem_b_false; exact Em|]. split.
        -- eapply line_ref_good; eauto.
        -- apply parent_of_ok. exact Hsd.
      * apply Forall_forall. intros s Hs. destruct (H4 s Hs) as (Hn & Hg & Ho). split; auto.
        intros Hin. apply Hn. apply in_or_app. auto.
Qed.

Lemma scan_lines_nil_schema t dirs sd seen queue : scan_lines t dirs sd (fields_by 10 []) seen queue = Ok (seen, queue).
Proof. reflexivity. Qed.

(* ------------------------------------------------------------------------------------------ *)
(* the loop of getSchemas                                                                      *)

Definition ends_nl (buf : bytes) : bool := match rev buf with b :: _ => is_byte b 10 | [] => false end.

(* what is in the buffer before the definition of the next type is appended *)
Definition next_buf (first : bool) (buf ty : bytes) : bytes :=
  if first then buf
  else (if ends_nl buf then buf else buf ++ [x0a]) ++ s_sep_line ++ s_msg_colon ++ replace_msg ty ++ [x0a].

Lemma assemble_S f t dirs sd rest seen first buf :
  assemble (S f) t dirs (sd :: rest) seen first buf =
  let* buf1 := (if first then Ok buf
                else match rev buf with
                     | [] => Panic site_buffer_last
                     | lastb :: _ => Ok ((if is_byte lastb 10 then buf else buf ++ [x0a])
                                         ++ s_sep_line ++ s_msg_colon ++ replace_msg (sd_type sd) ++ [x0a])
                     end) in
  let* (seen', queue') := scan_lines t dirs sd (fields_by 10 (sd_schema sd)) seen rest in
  assemble f t dirs queue' seen' false (buf1 ++ sd_schema sd).
Proof. reflexivity. Qed.

Lemma rev_nil_inv {A} (l : list A) : rev l = [] -> l = [].
Proof. intros H. rewrite <- (rev_involutive l), H. reflexivity. Qed.

Lemma assemble_step f t dirs sd rest seen first buf : first = true \/ buf <> [] ->
  assemble (S f) t dirs (sd :: rest) seen first buf =
  let* (seen', queue') := scan_lines t dirs sd (fields_by 10 (sd_schema sd)) seen rest in
  assemble f t dirs queue' seen' false (next_buf first buf (sd_type sd) ++ sd_schema sd).
Proof.
  intros H. rewrite assemble_S. unfold next_buf, ends_nl. destruct first; [reflexivity|].
  destruct H as [H|H]; [discriminate|]. destruct (rev buf) eqn:E; [apply rev_nil_inv in E; congruence|reflexivity].
Qed.

(* the buffer is not empty when something is left to append after the first definition *)
Definition buf_inv (first : bool) (buf : bytes) (queue : list subdef) : Prop :=
  buf <> [] \/ queue = [] \/ (first = true /\ length queue = 1).

Lemma next_buf_nonempty first buf ty : first = true \/ buf <> [] -> buf <> [] -> next_buf first buf ty <> [].
Proof.
  intros _ Hb. unfold next_buf. destruct first; auto.
  destruct (ends_nl buf); destruct buf; try congruence; discriminate.
Qed.

Lemma next_buf_false_nonempty buf ty : next_buf false buf ty <> [].
Proof.
  unfold next_buf. intros H. apply app_eq_nil in H. destruct H as [_ H].
  apply app_eq_nil in H. destruct H as [H _]. discriminate H.
Qed.

Lemma buf_inv_first first buf queue : buf_inv first buf queue -> queue <> [] -> first = true \/ buf <> [].
Proof. intros [H|[H|[H _]]] Hq; auto; congruence. Qed.

Lemma buf_inv_step t dirs first buf sd rest seen newq :
  buf_inv first buf (sd :: rest) ->
  scan_lines t dirs sd (fields_by 10 (sd_schema sd)) seen rest = Ok (seen ++ map sd_type newq, rest ++ newq) ->
  buf_inv false (next_buf first buf (sd_type sd) ++ sd_schema sd) (rest ++ newq).
Proof.
  intros Hi Es. destruct buf as [|b0 br].
  - destruct Hi as [H|[H|[-> H]]]; [congruence|discriminate|].
    destruct rest; [|discriminate H]. unfold next_buf. cbn [app].
    destruct (sd_schema sd) eqn:E; [|left; discriminate].
    right. left. rewrite scan_lines_nil_schema in Es. injection Es as _ Hq. symmetry. exact Hq.
  - left. intros H. apply app_eq_nil in H. destruct H as [H _].
    destruct first; [discriminate H|]. exact (next_buf_false_nonempty _ _ H).
Qed.

Lemma NoDup_app_intro {A} (a b : list A) : NoDup a -> NoDup b -> (forall x, In x a -> ~ In x b) -> NoDup (a ++ b).
Proof.
  induction 1 as [|x a Hx Ha IH]; intros Hb Hd; simpl; auto.
  constructor.
  - intros Hin. apply in_app_or in Hin. destruct Hin as [Hin|Hin]; [contradiction|]. apply (Hd x); simpl; auto.
  - apply IH; auto. intros y Hy. apply Hd. simpl; auto.
Qed.

Definition no_panic_exit {A} (x : outcome A) : Prop := match x with Panic _ | Exit _ => False | _ => True end.

(* for every amount of fuel: from a state that satisfies the buffer invariant the loop does not reach the buffer
   access with an empty buffer *)
Theorem assemble_no_panic t dirs : forall fuel queue seen first buf,
  buf_inv first buf queue -> Forall sd_ok queue ->
  no_panic_exit (assemble fuel t dirs queue seen first buf).
Proof.
  induction fuel as [|f IH]; intros queue seen first buf Hi Hq; [exact I|].
  destruct queue as [|sd rest]; [exact I|].
  rewrite assemble_step by (apply (buf_inv_first _ _ _ Hi); discriminate).
  pose proof (scan_lines_fine t dirs sd (fields_by 10 (sd_schema sd)) seen rest) as Hf.
  destruct (scan_lines t dirs sd (fields_by 10 (sd_schema sd)) seen rest) as [[seen' queue']| | | |] eqn:Es;
    try discriminate Hf; [|exact I].
  cbn [bind]. inversion Hq as [|? ? Hsd Hrest]; subst.
  destruct (scan_lines_spec t dirs sd Hsd _ _ _ _ _ Es) as (newq & -> & -> & Hnd & Hall).
  apply IH.
  - eapply buf_inv_step; eauto.
  - apply Forall_app. split; auto. eapply Forall_impl; [|exact Hall]. intros s (_ & _ & H). exact H.
Qed.

(* and the fuel suffices when it covers the queue, the index lines not yet used, and the final test *)
Theorem assemble_fine t dirs : forall fuel queue seen first buf added,
  buf_inv first buf queue -> Forall sd_ok queue ->
  NoDup added -> incl added seen -> Forall (good t) added ->
  length queue + (length (keys t) - length added) + 1 <= fuel ->
  no_crash (assemble fuel t dirs queue seen first buf) = true.
Proof.
  induction fuel as [|f IH]; intros queue seen first buf added Hi Hq Hnd Hincl Hgood Hfuel; [lia|].
  destruct queue as [|sd rest]; [reflexivity|].
  rewrite assemble_step by (apply (buf_inv_first _ _ _ Hi); discriminate).
  pose proof (scan_lines_fine t dirs sd (fields_by 10 (sd_schema sd)) seen rest) as Hf.
  destruct (scan_lines t dirs sd (fields_by 10 (sd_schema sd)) seen rest) as [[seen' queue']| | | |] eqn:Es;
    try discriminate Hf; [|reflexivity].
  cbn [bind]. inversion Hq as [|? ? Hsd Hrest]; subst.
  destruct (scan_lines_spec t dirs sd Hsd _ _ _ _ _ Es) as (newq & -> & -> & Hnd' & Hall).
  assert (Hnd2 : NoDup (added ++ map sd_type newq)).
  { apply NoDup_app_intro; auto. intros x Hx Hin. apply in_map_iff in Hin. destruct Hin as (s & <- & Hs).
    rewrite Forall_forall in Hall. destruct (Hall s Hs) as (Hn & _). apply Hn. apply Hincl. exact Hx. }
  assert (Hg2 : Forall (good t) (added ++ map sd_type newq)).
  { apply Forall_app. split; auto. apply Forall_forall. intros x Hin. apply in_map_iff in Hin.
    destruct Hin as (s & <- & Hs). rewrite Forall_forall in Hall. destruct (Hall s Hs) as (_ & Hg & _). exact Hg. }
  apply IH with (added := added ++ map sd_type newq); auto.
  - eapply buf_inv_step; eauto.
  - apply Forall_app. split; auto. eapply Forall_impl; [|exact Hall]. intros s (_ & _ & H). exact H.
  - apply incl_app; [apply incl_appl; exact Hincl|apply incl_appr; apply incl_refl].
  - pose proof (good_bound t _ Hnd2 Hg2) as Hb. rewrite app_length, map_length in Hb. rewrite !app_length, map_length. simpl in Hfuel. lia.
Qed.

(* the invariant is needed: a state that get_schema_for never creates (two queued definitions, the first one
   empty, nothing written yet) reaches the buffer access with an empty buffer *)
Example assemble_panic_outside_invariant :
  let sd := {| sd_parent := []; sd_type := []; sd_schema := [] |} in
  assemble 3 {| ft_files := []; ft_dirs := [] |} [] [sd; sd] [] true [] = Panic site_buffer_last.
Proof. reflexivity. Qed.

Lemma root_sd_ok ty sc : sd_ok {| sd_parent := hd [] (split_byte 47 ty); sd_type := ty; sd_schema := sc |}.
Proof.
  apply parent_of_ok. pose proof (split_comps 47 ty) as H. destruct (split_byte 47 ty); [reflexivity|].
  inversion H; auto.
Qed.

(* getSchemas, one type: no crash for any tree, any search directories, any type name, with the fuel of the model *)
Theorem get_schema_for_fine t dirs ty : no_crash (get_schema_for t dirs ty) = true.
Proof.
  unfold get_schema_for. pose proof (get_schema_fine t dirs ty) as Hf.
  destruct (get_schema t dirs ty) as [sc| | | |]; try discriminate Hf; [|reflexivity].
  cbn [bind]. apply assemble_fine with (added := []).
  - right. right. auto.
  - constructor; [apply root_sd_ok|constructor].
  - constructor.
  - intros x [].
  - constructor.
  - pose proof (keys_weight t). simpl. lia.
Qed.

Theorem get_schemas_fine t dirs : forall types acc, no_crash (get_schemas t dirs types acc) = true.
Proof.
  induction types as [|ty r IH]; intros acc; [reflexivity|]. cbn [get_schemas].
  pose proof (get_schema_for_fine t dirs ty) as Hf.
  destruct (get_schema_for t dirs ty); try discriminate Hf; [|reflexivity]. cbn [bind]. apply IH.
Qed.

(* ------------------------------------------------------------------------------------------ *)
(* part 2: DB3ToMCAP with the schema assembly inside                                           *)

Theorem db3_to_mcap_fs_cases o lib compress t dirs topics msgs :
  let types := map t_type (filter (fun x => is_message_type (t_type x)) topics) in
  match get_schemas t dirs types [] with
  | Ok l => db3_to_mcap_fs o lib compress t dirs topics msgs = Ok (db3_to_mcap o lib compress topics (Some l) msgs)
  | Err _ => exists r, db3_to_mcap_fs o lib compress t dirs topics msgs = Ok r /\
                       r = db3_to_mcap o lib compress topics None msgs /\
                       dr_err r = Some EOther /\ dr_writes r = []
  | _ => False
  end.
Proof.
  intros types. unfold db3_to_mcap_fs. fold types.
  pose proof (get_schemas_fine t dirs types []) as Hf.
  destruct (get_schemas t dirs types []); try discriminate Hf; [reflexivity|].
  eexists. split; [reflexivity|]. split; [reflexivity|]. apply db3_err_schemas_failed.
Qed.

Theorem db3_to_mcap_fs_total o lib compress t dirs topics msgs :
  exists r, db3_to_mcap_fs o lib compress t dirs topics msgs = Ok r.
Proof.
  pose proof (db3_to_mcap_fs_cases o lib compress t dirs topics msgs) as H. cbv zeta in H.
  destruct (get_schemas t dirs _ []); try contradiction; [eauto|]. destruct H as (r & H & _). eauto.
Qed.

(* ------------------------------------------------------------------------------------------ *)
(* part 3: functional correctness on trees that realise an abstract universe of definitions    *)
(* ------------------------------------------------------------------------------------------ *)

(* --- the abstract universe --- *)
Inductive ftype := FPrim (p : bytes) | FLocal (name : bytes) | FQual (pkg name : bytes).
(* a line of a definition: "#text", "", or "<type><suffix> <rest>" (suffix: array / bound; rest: field name, default
   value, trailing comment) *)
Inductive dline := DComment (text : bytes) | DEmpty | DField (ty : ftype) (suffix : bytes) (rest : bytes).
Record mdef := { md_pkg : bytes; md_name : bytes; md_lines : list dline }.

Definition ftype_text (ty : ftype) : bytes :=
  match ty with FPrim p => p | FLocal n => n | FQual p n => p ++ x2f :: n end.
Definition render_dline (l : dline) : bytes :=
  match l with
  | DComment text => x23 :: text
  | DEmpty => []
  | DField ty suffix rest => ftype_text ty ++ suffix ++ x20 :: rest
  end.
(* "pkg/msg/Name" *)
Definition type_of (d : mdef) : bytes := join_slash [md_pkg d; s_msg_word; md_name d].
(* the lines joined by newlines: a final DEmpty gives a text that ends in a newline *)
Definition text_of (d : mdef) : bytes := join_nl (map render_dline (md_lines d)).

Definition ref_of (pkg : bytes) (l : dline) : option bytes :=
  match l with
  | DField (FLocal n) _ _ => Some (join_slash [pkg; s_msg_word; n])
  | DField (FQual p n) _ _ => Some (join_slash [p; s_msg_word; n])
  | _ => None
  end.
Definition opt_list {A} (o : option A) : list A := match o with Some x => [x] | None => [] end.
Definition refs_of_lines (pkg : bytes) (ls : list dline) : list bytes := flat_map (fun l => opt_list (ref_of pkg l)) ls.
Definition refs_of (d : mdef) : list bytes := refs_of_lines (md_pkg d) (md_lines d).

Fixpoint lookup (defs : list mdef) (q : bytes) : option mdef :=
  match defs with [] => None | d :: r => if bytes_eqb (type_of d) q then Some d else lookup r q end.

(* --- the specification: breadth-first order, first occurrence only --- *)
Fixpoint fresh (refs seen : list bytes) : list bytes :=
  match refs with
  | [] => []
  | q :: r => if mem_b q seen then fresh r seen else q :: fresh r (seen ++ [q])
  end.

Fixpoint bfs (fuel : nat) (defs : list mdef) (queue seen : list bytes) : list bytes :=
  match fuel with
  | O => []
  | S f =>
    match queue with
    | [] => []
    | q :: rest =>
      let new := fresh (match lookup defs q with Some d => refs_of d | None => [] end) seen in
      q :: bfs f defs (rest ++ new) (seen ++ new)
    end
  end.
Definition bfs_order (defs : list mdef) (ty : bytes) : list bytes := bfs (length defs) defs [ty] [ty].

(* 80 '=' and a newline, "MSG: pkg/Name" and a newline *)
Definition header (d : mdef) : bytes := s_sep_line ++ s_msg_colon ++ md_pkg d ++ x2f :: md_name d ++ [x0a].
Fixpoint render_rest (buf : bytes) (ds : list mdef) : bytes :=
  match ds with
  | [] => buf
  | d :: r => render_rest ((if ends_nl buf then buf else buf ++ [x0a]) ++ header d ++ text_of d) r
  end.
Definition render_defs (ds : list mdef) : bytes :=
  match ds with [] => [] | d :: r => render_rest (text_of d) r end.
Definition lookup_all (defs : list mdef) (qs : list bytes) : list mdef := flat_map (fun q => opt_list (lookup defs q)) qs.
Definition expected_schema (defs : list mdef) (ty : bytes) : bytes :=
  render_defs (lookup_all defs (bfs_order defs ty)).

(* --- the tree: one search directory, an index file per package, a file per definition --- *)
Fixpoint dedup (l : list bytes) : list bytes :=
  match l with [] => [] | x :: r => if mem_b x r then dedup r else x :: dedup r end.
Definition pkgs (defs : list mdef) : list bytes := dedup (map md_pkg defs).
Definition s_msg_slash : bytes := s_msg_word ++ [x2f].
Definition index_line (d : mdef) : bytes := s_msg_slash ++ md_name d ++ s_dot_msg.
Definition index_text (defs : list mdef) (p : bytes) : bytes :=
  join_nl (map index_line (filter (fun d => bytes_eqb (md_pkg d) p) defs)).
Definition index_file (dir : list bytes) (defs : list mdef) (p : bytes) : list bytes * bytes :=
  (dir ++ [s_share; s_ament_index; s_resource_index; s_rosidl; p], index_text defs p).
Definition def_file (dir : list bytes) (d : mdef) : list bytes * bytes :=
  (dir ++ [s_share; md_pkg d; s_msg_word; md_name d ++ s_dot_msg], text_of d).
Definition tree_of (dir : list bytes) (defs : list mdef) : fstree :=
  {| ft_files := map (index_file dir defs) (pkgs defs) ++ map (def_file dir) defs; ft_dirs := [] |}.

(* --- well-formedness --- *)
(* bytes of package and type names: visible ASCII except '/', '.', '[', '<', '#' *)
Definition nm_byte (b : byte) : bool :=
  ascii_vis b && negb (is_byte b 47) && negb (is_byte b 46) && negb (is_byte b 91) && negb (is_byte b 60)
  && negb (is_byte b 35).
Definition pkg_ok (s : bytes) : bool := nonempty_b s && forallb nm_byte s.
Definition name_ok (s : bytes) : bool := nonempty_b s && forallb nm_byte s && negb (is_primitive s).
(* "" or '[' ... or '<' ... without white space *)
Definition suffix_ok (s : bytes) : bool :=
  match s with [] => true | b :: _ => (is_byte b 91 || is_byte b 60) && forallb ascii_vis s end.
(* after the type: not empty, no newline, the last byte is visible ASCII *)
Definition rest_ok (r : bytes) : bool := nonempty_b r && negb (contains_byte 10 r) && ascii_vis (last r x20).
Definition comment_ok (c : bytes) : bool := negb (contains_byte 10 c) && ascii_vis (last c x23).
Definition ftype_ok (ty : ftype) : bool :=
  match ty with FPrim p => is_primitive p | FLocal n => name_ok n | FQual p n => pkg_ok p && name_ok n end.
Definition dline_ok (l : dline) : bool :=
  match l with
  | DComment c => comment_ok c
  | DEmpty => true
  | DField ty suf rest => ftype_ok ty && suffix_ok suf && rest_ok rest
  end.
Definition mdef_ok (d : mdef) : bool := pkg_ok (md_pkg d) && name_ok (md_name d) && forallb dline_ok (md_lines d).
(* names and lines well formed; distinct (package, name) pairs; every reference resolvable *)
Definition wf_defs (defs : list mdef) : bool :=
  forallb mdef_ok defs && nodup_b (map type_of defs)
  && forallb (fun d => forallb (fun q => mem_b q (map type_of defs)) (refs_of d)) defs.

(* ------------------------------------------------------------------------------------------ *)
(* names                                                                                       *)

Lemma nm_byte_props b : nm_byte b = true ->
  ascii_vis b = true /\ is_byte b 47 = false /\ is_byte b 46 = false /\ is_byte b 91 = false /\
  is_byte b 60 = false /\ is_byte b 35 = false.
Proof. unfold nm_byte. rewrite !andb_true_iff, !negb_true_iff. tauto. Qed.

Lemma nm_props s : pkg_ok s = true ->
  s <> [] /\ noslash s /\ s <> s_dot /\ s <> s_dotdot /\ contains_byte 91 s = false /\ contains_byte 60 s = false /\
  contains_byte 35 s = false /\ forallb ascii_vis s = true.
Proof.
  unfold pkg_ok. rewrite andb_true_iff. intros [H1 H2].
  assert (H46 : contains_byte 46 s = false).
  { eapply forallb_contains; [|exact H2]. intros b Hb. apply nm_byte_props in Hb. tauto. }
  split; [destruct s; [discriminate|congruence]|].
  split; [eapply forallb_contains; [|exact H2]; intros b Hb; apply nm_byte_props in Hb; tauto|].
  split; [intros ->; discriminate H46|]. split; [intros ->; discriminate H46|].
  split; [eapply forallb_contains; [|exact H2]; intros b Hb; apply nm_byte_props in Hb; tauto|].
  split; [eapply forallb_contains; [|exact H2]; intros b Hb; apply nm_byte_props in Hb; tauto|].
  split; [eapply forallb_contains; [|exact H2]; intros b Hb; apply nm_byte_props in Hb; tauto|].
  eapply forallb_imp; [|exact H2]. intros b Hb. apply nm_byte_props in Hb. tauto.
Qed.

Lemma name_pkg_ok s : name_ok s = true -> pkg_ok s = true /\ is_primitive s = false.
Proof. unfold name_ok, pkg_ok. rewrite !andb_true_iff, negb_true_iff. tauto. Qed.

Lemma nm_comp_ok s : pkg_ok s = true -> comp_ok s.
Proof. intros H. apply nm_props in H. split; tauto. Qed.

Lemma prim_props p : is_primitive p = true -> pkg_ok p = true.
Proof.
  unfold is_primitive. rewrite mem_b_In. intros H.
  assert (Hall : forallb pkg_ok primitives = true) by (vm_compute; reflexivity).
  exact (forallb_In _ _ _ Hall H).
Qed.

Lemma vis_contains c s : (forall b, ascii_vis b = true -> is_byte b c = false) -> forallb ascii_vis s = true -> contains_byte c s = false.
Proof. intros H. apply forallb_contains. exact H. Qed.

Lemma vis_no32 s : forallb ascii_vis s = true -> contains_byte 32 s = false.
Proof. apply vis_contains. intros b Hb. apply vis_props in Hb. tauto. Qed.
Lemma vis_no10 s : forallb ascii_vis s = true -> contains_byte 10 s = false.
Proof. apply vis_contains. intros b Hb. apply vis_props in Hb. tauto. Qed.

(* ------------------------------------------------------------------------------------------ *)
(* strings                                                                                     *)

Lemma rev_last_cons {A} (s : list A) d : s <> [] -> rev s = last s d :: rev (removelast s).
Proof. intros H. rewrite (app_removelast_last d H) at 1. rewrite rev_app_distr. reflexivity. Qed.

Lemma last_app_ne {A} (l1 l2 : list A) d : l2 <> [] -> last (l1 ++ l2) d = last l2 d.
Proof.
  intros H. induction l1 as [|x l1 IH]; [reflexivity|]. simpl.
  destruct (l1 ++ l2) eqn:E; [apply app_eq_nil in E; destruct E; congruence|exact IH].
Qed.

Lemma last_cons_same {A} (x : A) l : last (x :: l) x = last l x.
Proof. destruct l; reflexivity. Qed.

Lemma last_default {A} (l : list A) d d' : l <> [] -> last l d = last l d'.
Proof. induction l as [|x l IH]; [congruence|]. intros _. destruct l; [reflexivity|]. apply IH. discriminate. Qed.

(* a line that starts and ends with visible ASCII is not changed by TrimSpace *)
Lemma trim_plain b r : ascii_vis b = true -> ascii_vis (last (b :: r) b) = true -> trim_space (b :: r) = b :: r.
Proof.
  intros H1 H2. apply trim_space_id; [apply vis_lead; exact H1|].
  rewrite (rev_last_cons (b :: r) b) by discriminate. apply vis_trail. exact H2.
Qed.

Lemma fields_sep sep a x r : a <> [] -> contains_byte sep a = false -> is_byte x sep = true ->
  fields_by sep (a ++ x :: r) = a :: fields_by sep r.
Proof.
  intros H1 H2 H3. rewrite !fields_filter, split_sep by auto. destruct a; [congruence|reflexivity].
Qed.

Lemma cut_at_none c s : contains_byte c s = false -> cut_at c s = s.
Proof. intros H. unfold cut_at, index_byte. rewrite index_aux_none by exact H. reflexivity. Qed.

Lemma cut_at_some c a x r : a <> [] -> contains_byte c a = false -> is_byte x c = true -> cut_at c (a ++ x :: r) = a.
Proof.
  intros H1 H2 H3. unfold cut_at, index_byte. rewrite index_aux_some by auto.
  destruct a as [|a0 ar]; [congruence|]. cbn [length Nat.add].
  change (S (length ar)) with (length (a0 :: ar)). apply firstn_app_exact.
Qed.

Lemma contains_split c s : contains_byte c s = true ->
  exists s1 y s2, s = s1 ++ y :: s2 /\ contains_byte c s1 = false /\ is_byte y c = true.
Proof.
  induction s as [|b s IH]; simpl; [discriminate|].
  destruct (is_byte b c) eqn:E.
  - intros _. exists [], b, s. auto.
  - simpl. intros H. destruct (IH H) as (s1 & y & s2 & -> & H1 & H2).
    exists (b :: s1), y, s2. simpl. rewrite E, H1. auto.
Qed.

Lemma cut_at_keep c a s : a <> [] -> contains_byte c a = false -> exists s', cut_at c (a ++ s) = a ++ s'.
Proof.
  intros H1 H2. destruct (contains_byte c s) eqn:E.
  - destruct (contains_split c s E) as (s1 & y & s2 & -> & H3 & H4).
    exists s1. rewrite app_assoc. apply cut_at_some; auto.
    + destruct a; [congruence|discriminate].
    + rewrite contains_byte_app, H2, H3. reflexivity.
  - exists s. apply cut_at_none. rewrite contains_byte_app, H2, E. reflexivity.
Qed.

(* the type of a field: "[...": array, "<...": bound *)
Lemma cut_token base suf : base <> [] -> contains_byte 91 base = false -> contains_byte 60 base = false ->
  suffix_ok suf = true -> cut_at 60 (cut_at 91 (base ++ suf)) = base.
Proof.
  intros H1 H2 H3 Hs. destruct suf as [|x sr].
  - rewrite app_nil_r, (cut_at_none 91 base H2), (cut_at_none 60 base H3). reflexivity.
  - simpl in Hs. apply andb_true_iff in Hs. destruct Hs as [Hx _].
    destruct (is_byte x 91) eqn:E91.
    + rewrite cut_at_some by auto. apply cut_at_none. exact H3.
    + simpl in Hx. destruct (cut_at_keep 91 (base ++ [x]) sr) as (s' & Hc).
      * destruct base; discriminate.
      * rewrite contains_byte_app, H2. simpl. rewrite E91. reflexivity.
      * rewrite <- app_assoc in Hc. cbn [app] in Hc. rewrite Hc, <- app_assoc. cbn [app].
        apply cut_at_some; auto.
Qed.

Lemma join_rel_normal a c1 : comp_ok a -> a <> s_dot -> a <> s_dotdot -> comp_ok c1 -> c1 <> s_dot -> c1 <> s_dotdot ->
  join_rel [a; s_msg_word; c1] = join_slash [a; s_msg_word; c1].
Proof.
  intros [Ha1 Ha2] Ha3 Ha4 [Hc1 Hc2] Hc3 Hc4.
  rewrite (join_rel3 a c1 c1 Ha2 (fields_nosep 47 c1 Hc1 Hc2)).
  apply bytes_eqb_false in Ha3, Ha4, Hc3, Hc4.
  destruct a as [|a0 ar]; [congruence|]. destruct c1 as [|d0 dr]; [congruence|].
  rewrite s_msg_word_eq. cbn [filter nonempty_b app clean_rel].
  rewrite Ha3, Ha4, Hc3, Hc4.
  change (bytes_eqb [x6d; x73; x67] s_dot) with false. change (bytes_eqb [x6d; x73; x67] s_dotdot) with false.
  reflexivity.
Qed.

(* ------------------------------------------------------------------------------------------ *)
(* one rendered line                                                                           *)

Lemma line_ref_token pkg base suf rest :
  base <> [] -> forallb ascii_vis base = true -> contains_byte 35 base = false ->
  contains_byte 91 base = false -> contains_byte 60 base = false ->
  suffix_ok suf = true -> rest_ok rest = true ->
  line_ref pkg (base ++ suf ++ x20 :: rest) =
  if is_primitive base then Ok None
  else if match fields_by 47 base with [] => true | _ => false end then Err EOther
       else let* q := field_to_qualified base pkg in Ok (Some q).
Proof.
  intros Hne Hvis H35 H91 H60 Hsuf Hrest.
  unfold rest_ok in Hrest. rewrite !andb_true_iff, negb_true_iff in Hrest. destruct Hrest as [[Hr1 Hr2] Hr3].
  assert (Hrne : rest <> []) by (destruct rest; [discriminate|congruence]).
  assert (Hsv : forallb ascii_vis suf = true).
  { destruct suf; [reflexivity|]. simpl in Hsuf. apply andb_true_iff in Hsuf. tauto. }
  assert (Htok : forallb ascii_vis (base ++ suf) = true) by (rewrite forallb_app, Hvis, Hsv; reflexivity).
  destruct base as [|b0 br]; [congruence|].
  assert (Hb0 : ascii_vis b0 = true) by (simpl in Hvis; apply andb_true_iff in Hvis; tauto).
  assert (Hb35 : is_byte b0 35 = false) by (simpl in H35; apply orb_false_iff in H35; tauto).
  unfold line_ref. rewrite app_assoc.
  change (((b0 :: br) ++ suf) ++ x20 :: rest) with (b0 :: (br ++ suf) ++ x20 :: rest).
  rewrite trim_plain; [|exact Hb0|].
  2:{ change (b0 :: (br ++ suf) ++ x20 :: rest) with (((b0 :: br) ++ suf) ++ [x20] ++ rest).
      rewrite app_assoc, (last_app_ne _ rest b0 Hrne), (last_default rest b0 x20 Hrne). exact Hr3. }
  rewrite Hb35.
  change (b0 :: (br ++ suf) ++ x20 :: rest) with (((b0 :: br) ++ suf) ++ x20 :: rest).
  rewrite fields_sep; [|discriminate|apply vis_no32; exact Htok|reflexivity].
  cbv zeta. rewrite cut_token by (auto; discriminate). reflexivity.
Qed.

Theorem line_ref_render pkg l : pkg_ok pkg = true -> dline_ok l = true ->
  line_ref pkg (render_dline l) = Ok (ref_of pkg l).
Proof.
  intros Hpkg Hl. destruct l as [c| |ty suf rest].
  - simpl in Hl. unfold comment_ok in Hl. rewrite andb_true_iff in Hl. destruct Hl as [_ Hl].
    unfold line_ref. cbn [render_dline]. rewrite trim_plain; [reflexivity|reflexivity|].
    rewrite last_cons_same. exact Hl.
  - reflexivity.
  - cbn [dline_ok] in Hl. rewrite !andb_true_iff in Hl. destruct Hl as [[Hty Hsuf] Hrest].
    cbn [render_dline ref_of].
    pose proof (nm_props pkg Hpkg) as (P1 & P2 & P3 & P4 & _).
    destruct ty as [p|n|p n]; cbn [ftype_ok ftype_text] in *.
    + pose proof (nm_props p (prim_props p Hty)) as (H1 & H2 & H3 & H4 & H5 & H6 & H7 & H8).
      rewrite line_ref_token by auto. rewrite Hty. reflexivity.
    + destruct (name_pkg_ok n Hty) as [Hn Hnp].
      pose proof (nm_props n Hn) as (H1 & H2 & H3 & H4 & H5 & H6 & H7 & H8).
      rewrite line_ref_token by auto. rewrite Hnp, (fields_nosep 47 n H1 H2).
      unfold field_to_qualified. rewrite (fields_nosep 47 n H1 H2). cbn [bind].
      rewrite join_rel_normal by (auto; split; auto). reflexivity.
    + apply andb_true_iff in Hty. destruct Hty as [Hp Hty]. destruct (name_pkg_ok n Hty) as [Hn Hnp].
      pose proof (nm_props n Hn) as (H1 & H2 & H3 & H4 & H5 & H6 & H7 & H8).
      pose proof (nm_props p Hp) as (G1 & G2 & G3 & G4 & G5 & G6 & G7 & G8).
      assert (Hf : fields_by 47 (p ++ x2f :: n) = [p; n]).
      { rewrite fields_sep by (auto; reflexivity). rewrite fields_nosep by auto. reflexivity. }
      rewrite line_ref_token.
      * destruct (is_primitive (p ++ x2f :: n)) eqn:Ep.
        { apply prim_props, nm_props in Ep. destruct Ep as (_ & Ep & _). unfold noslash in Ep.
          rewrite contains_byte_app in Ep. simpl in Ep. rewrite orb_true_r in Ep. discriminate. }
        rewrite Hf. unfold field_to_qualified. rewrite Hf. cbn [bind].
        rewrite join_rel_normal by (auto; split; auto). reflexivity.
      * destruct p; [congruence|discriminate].
      * rewrite forallb_app. cbn [forallb]. rewrite G8, H8. reflexivity.
      * rewrite contains_byte_app. cbn [contains_byte]. rewrite G7, H7. reflexivity.
      * rewrite contains_byte_app. cbn [contains_byte]. rewrite G5, H5. reflexivity.
      * rewrite contains_byte_app. cbn [contains_byte]. rewrite G6, H6. reflexivity.
      * exact Hsuf.
      * exact Hrest.
Qed.

(* ------------------------------------------------------------------------------------------ *)
(* getSchema on the tree of a universe                                                         *)

Lemma find_file_app p a b :
  find_file p (a ++ b) = match find_file p a with Some c => Some c | None => find_file p b end.
Proof. induction a as [|[q c] a IH]; simpl; auto. destruct (comps_eqb p q); auto. Qed.

Lemma find_file_none p l : (forall f, In f l -> fst f <> p) -> find_file p l = None.
Proof.
  induction l as [|[q c] l IH]; simpl; intros H; auto.
  destruct (comps_eqb p q) eqn:E.
  - apply comps_eqb_eq in E. exfalso. apply (H (q, c)); simpl; auto.
  - apply IH. intros f Hf. apply H. auto.
Qed.

Lemma find_file_map {A} (f : A -> list bytes * bytes) x l :
  In x l -> (forall y, In y l -> fst (f y) = fst (f x) -> f y = f x) ->
  find_file (fst (f x)) (map f l) = Some (snd (f x)).
Proof.
  induction l as [|a l IH]; simpl; intros Hin Hinj; [tauto|].
  destruct (f a) as [q c] eqn:E. destruct (comps_eqb (fst (f x)) q) eqn:Ec.
  - apply comps_eqb_eq in Ec. assert (H : f a = f x) by (apply Hinj; [auto|rewrite E; simpl; auto]).
    rewrite E in H. rewrite <- H. reflexivity.
  - destruct Hin as [->|Hin]; [rewrite E in Ec; simpl in Ec; rewrite comps_eqb_refl in Ec; discriminate|].
    apply IH; auto.
Qed.

Lemma read_file_found t p c : find_file p (ft_files t) = Some c -> read_file t p = FsOk c.
Proof. intros H. unfold read_file. rewrite H. reflexivity. Qed.

Lemma nodup_b_NoDup l : nodup_b l = true -> NoDup l.
Proof.
  induction l as [|x l IH]; simpl; [constructor|]. rewrite andb_true_iff, negb_true_iff, mem_b_false.
  intros [H1 H2]. constructor; auto.
Qed.

Lemma NoDup_map_inj {A B} (f : A -> B) l x y : NoDup (map f l) -> In x l -> In y l -> f x = f y -> x = y.
Proof.
  induction l as [|a l IH]; simpl; [tauto|]. intros Hnd Hx Hy Hf. inversion Hnd as [|? ? Hn Hnd']; subst.
  destruct Hx as [->|Hx]; destruct Hy as [->|Hy]; auto.
  - exfalso. apply Hn. rewrite Hf. apply in_map. exact Hy.
  - exfalso. apply Hn. rewrite <- Hf. apply in_map. exact Hx.
Qed.

Lemma dedup_In x l : In x (dedup l) <-> In x l.
Proof.
  induction l as [|a l IH]; simpl; [tauto|].
  destruct (mem_b a l) eqn:E; simpl; rewrite IH; [|tauto].
  apply mem_b_In in E. split; [auto|]. intros [<-|H]; auto.
Qed.

Lemma dot_msg_noslash : noslash s_dot_msg. Proof. reflexivity. Qed.

Lemma base_name_index n : noslash n -> base_name (s_msg_slash ++ n ++ s_dot_msg) = n ++ s_dot_msg.
Proof.
  intros Hn. unfold base_name.
  change (s_msg_slash ++ n ++ s_dot_msg) with (s_msg_word ++ x2f :: n ++ s_dot_msg).
  rewrite split_sep by reflexivity. rewrite split_nosep; [reflexivity|].
  rewrite contains_byte_app, Hn. reflexivity.
Qed.

Lemma lookup_In defs q d : lookup defs q = Some d -> In d defs /\ type_of d = q.
Proof.
  induction defs as [|a l IH]; simpl; [discriminate|].
  destruct (bytes_eqb (type_of a) q) eqn:E.
  - intros H. injection H as <-. apply bytes_eqb_eq in E. auto.
  - intros H. destruct (IH H). auto.
Qed.

Section Universe.
  Variable dir : list bytes.
  Variable defs : list mdef.
  Hypothesis Hwf : wf_defs defs = true.

  Let T := tree_of dir defs.

  Lemma wf_parts :
    (forall d, In d defs -> mdef_ok d = true) /\ NoDup (map type_of defs) /\
    (forall d q, In d defs -> In q (refs_of d) -> In q (map type_of defs)).
  Proof.
    unfold wf_defs in Hwf. rewrite !andb_true_iff in Hwf. destruct Hwf as [[H1 H2] H3].
    split; [intros d Hd; exact (forallb_In _ _ _ H1 Hd)|]. split; [apply nodup_b_NoDup; exact H2|].
    intros d q Hd Hq. pose proof (forallb_In _ _ _ H3 Hd) as H. cbv beta in H.
    apply mem_b_In. exact (forallb_In _ _ _ H Hq).
  Qed.

  Lemma def_parts d : In d defs ->
    pkg_ok (md_pkg d) = true /\ pkg_ok (md_name d) = true /\ is_primitive (md_name d) = false /\
    forallb dline_ok (md_lines d) = true.
  Proof.
    intros Hd. destruct wf_parts as (H & _). specialize (H d Hd). unfold mdef_ok in H.
    rewrite !andb_true_iff in H. destruct H as [[H1 H2] H3]. destruct (name_pkg_ok _ H2). auto.
  Qed.

  Lemma type_of_inj d d' : In d defs -> In d' defs -> type_of d = type_of d' -> d = d'.
  Proof. destruct wf_parts as (_ & H & _). apply NoDup_map_inj. exact H. Qed.

  Lemma lookup_type d : In d defs -> lookup defs (type_of d) = Some d.
  Proof.
    intros Hd. assert (H : forall l, incl l defs -> In d l -> lookup l (type_of d) = Some d).
    { induction l as [|a l IH]; simpl; [tauto|]. intros Hincl Hin.
      destruct (bytes_eqb (type_of a) (type_of d)) eqn:E.
      - apply bytes_eqb_eq in E. f_equal. apply type_of_inj; auto. apply Hincl. left. reflexivity.
      - destruct Hin as [->|Hin]; [rewrite bytes_eqb_refl in E; discriminate|].
        apply IH; auto. intros x Hx. apply Hincl. right. exact Hx. }
    apply H; auto. apply incl_refl.
  Qed.

  Lemma type_fields d : In d defs -> fields_by 47 (type_of d) = [md_pkg d; s_msg_word; md_name d].
  Proof.
    intros Hd. destruct (def_parts d Hd) as (H1 & H2 & _). unfold type_of.
    apply fields_join_slash. pose proof (nm_comp_ok _ H1). pose proof (nm_comp_ok _ H2). pose proof msg_comp_ok. fall.
  Qed.

  Lemma type_split d : In d defs -> split_byte 47 (type_of d) = [md_pkg d; s_msg_word; md_name d].
  Proof.
    intros Hd. destruct (def_parts d Hd) as (H1 & H2 & _). unfold type_of.
    apply split_join_slash; [discriminate|].
    pose proof (nm_comp_ok _ H1) as [_ ?]. pose proof (nm_comp_ok _ H2) as [_ ?]. pose proof msg_noslash. fall.
  Qed.

  Lemma index_line_no_nl d : In d defs -> contains_byte 10 (index_line d) = false.
  Proof.
    intros Hd. destruct (def_parts d Hd) as (_ & H2 & _). apply nm_props in H2.
    destruct H2 as (_ & _ & _ & _ & _ & _ & _ & H2). unfold index_line.
    rewrite !contains_byte_app, (vis_no10 _ H2). reflexivity.
  Qed.

  Lemma find_line_index d : forall ds, incl ds defs -> In d ds ->
    find_line (md_name d) (map index_line ds) = Some (index_line d).
  Proof.
    induction ds as [|x r IH]; simpl; [tauto|]. intros Hincl Hin.
    assert (Hx : In x defs) by (apply Hincl; left; reflexivity).
    destruct (def_parts x Hx) as (_ & Hn & _). apply nm_props in Hn. destruct Hn as (_ & Hn & _).
    unfold index_line at 1. rewrite base_name_index by exact Hn.
    destruct (bytes_eqb (md_name x ++ s_dot_msg) (md_name d ++ s_dot_msg)) eqn:E.
    - apply bytes_eqb_eq, app_inv_tail in E. unfold index_line. rewrite E. reflexivity.
    - destruct Hin as [->|Hin]; [rewrite bytes_eqb_refl in E; discriminate|].
      apply IH; auto. intros y Hy. apply Hincl. right. exact Hy.
  Qed.

  Lemma index_file_found d : In d defs ->
    find_file (idx_path dir (md_pkg d)) (ft_files T) = Some (index_text defs (md_pkg d)).
  Proof.
    intros Hd. destruct (def_parts d Hd) as (H1 & _). pose proof (nm_props _ H1) as (P1 & P2 & P3 & P4 & _).
    rewrite idx_path_eq by (split; auto). apply bytes_eqb_false in P4. rewrite P4.
    unfold T, tree_of. cbn [ft_files]. rewrite find_file_app.
    change (dir ++ [s_share; s_ament_index; s_resource_index; s_rosidl; md_pkg d])
      with (fst (index_file dir defs (md_pkg d))).
    rewrite (find_file_map (index_file dir defs) (md_pkg d) (pkgs defs)); [reflexivity| |].
    - apply dedup_In. apply in_map. exact Hd.
    - intros y _ Hy. unfold index_file in Hy. cbn [fst] in Hy. apply app_inv_head in Hy.
      injection Hy as ->. reflexivity.
  Qed.

  Lemma def_path_eq d : In d defs ->
    join_dir dir [s_share; md_pkg d; index_line d] = fst (def_file dir d).
  Proof.
    intros Hd. destruct (def_parts d Hd) as (H1 & H2 & _).
    pose proof (nm_props _ H1) as (P1 & P2 & P3 & P4 & _). pose proof (nm_props _ H2) as (N1 & N2 & _).
    unfold join_dir. cbn [map concat]. change (split_byte 47 s_share) with [s_share].
    rewrite (split_nosep 47 _ P2). unfold index_line.
    change (s_msg_slash ++ md_name d ++ s_dot_msg) with (s_msg_word ++ x2f :: md_name d ++ s_dot_msg).
    rewrite split_sep by reflexivity. rewrite split_nosep by (rewrite contains_byte_app, N2; reflexivity).
    cbn [app].
    assert (L : forall X : bytes, md_name d ++ s_dot_msg = X -> (length X <= 2)%nat -> False).
    { intros X <-. rewrite app_length. change (length s_dot_msg) with 4. lia. }
    rewrite !clean_rooted_push; auto;
      try (intro X; vm_compute in X; discriminate X);
      try (intro X; apply (L _ X); simpl; lia).
    cbn [clean_rooted rev app]. rewrite rev_involutive, <- !app_assoc. reflexivity.
  Qed.

  Lemma def_file_found d : In d defs -> find_file (fst (def_file dir d)) (ft_files T) = Some (text_of d).
  Proof.
    intros Hd. unfold T, tree_of. cbn [ft_files]. rewrite find_file_app, find_file_none.
    - rewrite (find_file_map (def_file dir) d defs); [reflexivity|exact Hd|].
      intros y Hy Hp. unfold def_file in Hp. cbn [fst] in Hp. apply app_inv_head in Hp.
      injection Hp as Hp1 Hp2. apply app_inv_tail in Hp2.
      assert (y = d) by (apply type_of_inj; auto; unfold type_of; rewrite Hp1, Hp2; reflexivity).
      subst. reflexivity.
    - intros f Hf. apply in_map_iff in Hf. destruct Hf as (p & <- & _).
      unfold index_file, def_file. cbn [fst]. intros X. apply app_inv_head in X. discriminate X.
  Qed.

  (* the definition file of a type of the universe is found *)
  Theorem get_schema_universe d : In d defs -> get_schema T [dir] (type_of d) = Ok (text_of d).
  Proof.
    intros Hd. unfold get_schema. rewrite (type_fields d Hd). cbn [get_schema_dirs].
    fold (idx_path dir (md_pkg d)). rewrite (read_file_found _ _ _ (index_file_found d Hd)).
    unfold index_text. rewrite split_join_nl.
    - rewrite find_line_index.
      + rewrite (def_path_eq d Hd), (read_file_found _ _ _ (def_file_found d Hd)). reflexivity.
      + intros x Hx. apply filter_In in Hx. tauto.
      + apply filter_In. split; [exact Hd|apply bytes_eqb_refl].
    - intros X. apply map_eq_nil in X.
      assert (Hin : In d (filter (fun d0 => bytes_eqb (md_pkg d0) (md_pkg d)) defs))
        by (apply filter_In; split; [exact Hd|apply bytes_eqb_refl]).
      rewrite X in Hin. destruct Hin.
    - apply Forall_forall. intros l Hl. apply in_map_iff in Hl. destruct Hl as (x & <- & Hx).
      apply filter_In in Hx. apply index_line_no_nl. tauto.
  Qed.
End Universe.

(* ------------------------------------------------------------------------------------------ *)
(* the scan of a definition of the universe, the loop, the result                              *)

Lemma render_empty pkg l : nonempty_b (render_dline l) = false -> ref_of pkg l = None.
Proof.
  destruct l as [c| |ty suf rest]; try reflexivity. intros H. exfalso. cbn [render_dline] in H.
  destruct (ftype_text ty); destruct suf; discriminate H.
Qed.

Lemma ftype_vis ty : ftype_ok ty = true -> forallb ascii_vis (ftype_text ty) = true.
Proof.
  destruct ty as [p|n|p n]; cbn [ftype_ok ftype_text]; intros H.
  - apply prim_props, nm_props in H. tauto.
  - apply name_pkg_ok in H. destruct H as [H _]. apply nm_props in H. tauto.
  - apply andb_true_iff in H. destruct H as [H1 H2]. apply name_pkg_ok in H2. destruct H2 as [H2 _].
    apply nm_props in H1, H2. rewrite forallb_app. cbn [forallb].
    destruct H1 as (_ & _ & _ & _ & _ & _ & _ & ->). destruct H2 as (_ & _ & _ & _ & _ & _ & _ & ->). reflexivity.
Qed.

Lemma render_no_nl l : dline_ok l = true -> contains_byte 10 (render_dline l) = false.
Proof.
  destruct l as [c| |ty suf rest]; cbn [dline_ok render_dline]; [| reflexivity |].
  - unfold comment_ok. rewrite andb_true_iff, negb_true_iff. intros [H _]. simpl. exact H.
  - rewrite !andb_true_iff. intros [[H1 H2] H3]. unfold rest_ok in H3.
    rewrite !andb_true_iff, negb_true_iff in H3. destruct H3 as [[_ H3] _].
    rewrite !contains_byte_app. cbn [contains_byte]. rewrite (vis_no10 _ (ftype_vis ty H1)), H3.
    assert (Hs : forallb ascii_vis suf = true).
    { destruct suf; [reflexivity|]. simpl in H2. apply andb_true_iff in H2. tauto. }
    rewrite (vis_no10 _ Hs). reflexivity.
Qed.

Lemma text_fields d : forallb dline_ok (md_lines d) = true ->
  fields_by 10 (text_of d) = filter nonempty_b (map render_dline (md_lines d)).
Proof.
  intros H. rewrite fields_filter. unfold text_of. destruct (md_lines d) as [|l ls] eqn:E; [reflexivity|].
  rewrite split_join_nl; [reflexivity|discriminate|].
  apply Forall_forall. intros x Hx. apply in_map_iff in Hx. destruct Hx as (y & <- & Hy).
  apply render_no_nl. exact (forallb_In _ _ _ H Hy).
Qed.

Lemma fresh_spec refs : forall seen,
  NoDup (fresh refs seen) /\ forall x, In x (fresh refs seen) -> In x refs /\ ~ In x seen.
Proof.
  induction refs as [|q r IH]; intros seen; simpl; [split; [constructor|tauto]|].
  destruct (mem_b q seen) eqn:E.
  - destruct (IH seen) as [H1 H2]. split; auto. intros x Hx. destruct (H2 x Hx). auto.
  - destruct (IH (seen ++ [q])) as [H1 H2]. apply mem_b_false in E. split.
    + constructor; auto. intros Hin. destruct (H2 q Hin) as [_ Hn]. apply Hn. apply in_or_app. right. left. reflexivity.
    + intros x [<-|Hx]; [auto|]. destruct (H2 x Hx) as [Ha Hb]. split; auto.
      intros Hin. apply Hb. apply in_or_app. auto.
Qed.

Lemma not47_eqb b : is_byte b 47 = false -> Byte.eqb x2f b = false.
Proof.
  intros H. destruct (Byte.eqb x2f b) eqn:E; auto. apply byte_eqb_eq in E. subst. discriminate H.
Qed.

(* strings.Replace(q, "/msg/", "/", 1) on "pkg/msg/Name" *)
Lemma replace_msg_type p n : noslash p -> replace_msg (p ++ x2f :: s_msg_word ++ x2f :: n) = p ++ x2f :: n.
Proof.
  intros Hp. induction p as [|b p IH]; [reflexivity|].
  unfold noslash in Hp. simpl in Hp. apply orb_false_iff in Hp. destruct Hp as [Hb Hp].
  cbn [app replace_msg]. change s_msg with [x2f; x6d; x73; x67; x2f]. cbn [Db3.starts_with].
  rewrite (not47_eqb b Hb). cbn [andb]. f_equal. apply IH. exact Hp.
Qed.

Lemma assemble_mono t dirs : forall f queue seen first buf r,
  assemble f t dirs queue seen first buf = Ok r -> forall f', f <= f' -> assemble f' t dirs queue seen first buf = Ok r.
Proof.
  induction f as [|f IH]; intros queue seen first buf r H f' Hle; [discriminate H|].
  destruct f' as [|f']; [lia|]. destruct queue as [|sd rest]; [exact H|].
  rewrite assemble_S in *.
  destruct (if first then Ok buf else _) as [b1| | | |]; try discriminate H. cbn [bind] in *.
  destruct (scan_lines t dirs sd (fields_by 10 (sd_schema sd)) seen rest) as [[s q]| | | |]; try discriminate H.
  cbn [bind] in *. apply IH with (f' := f') in H; [exact H|lia].
Qed.

Lemma sum_weight_ge l : length l <= sum_weight l.
Proof. induction l as [|f l IH]; simpl; lia. Qed.

Section Universe2.
  Variable dir : list bytes.
  Variable defs : list mdef.
  Hypothesis Hwf : wf_defs defs = true.

  Let T := tree_of dir defs.
  Let types := map type_of defs.

  Definition text_for (q : bytes) : bytes := match lookup defs q with Some d => text_of d | None => [] end.
  Definition mk_sd (parent q : bytes) : subdef := {| sd_parent := parent; sd_type := q; sd_schema := text_for q |}.

  Lemma map_mk p new : map sd_type (map (mk_sd p) new) = new.
  Proof. induction new as [|q r IH]; simpl; [|rewrite IH]; reflexivity. Qed.

  Lemma in_types q : In q types -> exists d, In d defs /\ type_of d = q.
  Proof. intros H. apply in_map_iff in H. destruct H as (d & H1 & H2). eauto. Qed.

  Lemma text_for_type d : In d defs -> text_for (type_of d) = text_of d.
  Proof. intros Hd. unfold text_for. rewrite (lookup_type defs Hwf d Hd). reflexivity. Qed.

  Lemma scan_dlines d sd : In d defs -> sd_type sd = type_of d -> forall ls,
    forallb dline_ok ls = true -> (forall q, In q (refs_of_lines (md_pkg d) ls) -> In q types) ->
    forall seen queue,
    scan_lines T [dir] sd (filter nonempty_b (map render_dline ls)) seen queue =
    Ok (seen ++ fresh (refs_of_lines (md_pkg d) ls) seen,
        queue ++ map (mk_sd (md_pkg d)) (fresh (refs_of_lines (md_pkg d) ls) seen)).
  Proof.
    intros Hd Hty. destruct (def_parts defs Hwf d Hd) as (Hpkg & _).
    assert (Hpar : parent_of sd = md_pkg d).
    { unfold parent_of. rewrite Hty, (type_split defs Hwf d Hd). reflexivity. }
    induction ls as [|l ls IH]; intros Hok Href seen queue.
    - simpl. rewrite !app_nil_r. reflexivity.
    - cbn [forallb] in Hok. apply andb_true_iff in Hok. destruct Hok as [Hl Hok].
      cbn [map filter]. destruct (nonempty_b (render_dline l)) eqn:En.
      + rewrite scan_lines_cons, Hpar, (line_ref_render _ _ Hpkg Hl).
        destruct (ref_of (md_pkg d) l) as [q|] eqn:Er.
        * assert (Hr : refs_of_lines (md_pkg d) (l :: ls) = q :: refs_of_lines (md_pkg d) ls)
            by (unfold refs_of_lines; cbn [flat_map]; rewrite Er; reflexivity).
          rewrite Hr in *. destruct (in_types q (Href q (or_introl eq_refl))) as (d' & Hd' & <-).
          unfold T. rewrite (get_schema_universe dir defs Hwf d' Hd'). cbn [bind].
          unfold enqueue. cbn [fresh]. destruct (mem_b (type_of d') seen); cbn [fst snd].
          -- apply IH; auto. intros x Hx. apply Href. right. exact Hx.
          -- fold T. rewrite IH; auto; [|intros x Hx; apply Href; right; exact Hx].
             cbn [map].
             change (mk_sd (md_pkg d) (type_of d'))
               with {| sd_parent := md_pkg d; sd_type := type_of d'; sd_schema := text_for (type_of d') |}.
             rewrite (text_for_type d' Hd'), <- !app_assoc. reflexivity.
        * assert (Hr : refs_of_lines (md_pkg d) (l :: ls) = refs_of_lines (md_pkg d) ls)
            by (unfold refs_of_lines; cbn [flat_map]; rewrite Er; reflexivity).
          rewrite Hr in *. apply IH; auto.
      + assert (Hr : refs_of_lines (md_pkg d) (l :: ls) = refs_of_lines (md_pkg d) ls)
          by (unfold refs_of_lines; cbn [flat_map]; rewrite (render_empty _ _ En); reflexivity).
        rewrite Hr in *. apply IH; auto.
  Qed.

  Lemma scan_def d sd : In d defs -> sd_type sd = type_of d -> sd_schema sd = text_of d -> forall seen queue,
    scan_lines T [dir] sd (fields_by 10 (sd_schema sd)) seen queue =
    Ok (seen ++ fresh (refs_of d) seen, queue ++ map (mk_sd (md_pkg d)) (fresh (refs_of d) seen)).
  Proof.
    intros Hd Hty Hsc seen queue. destruct (def_parts defs Hwf d Hd) as (_ & _ & _ & Hl).
    rewrite Hsc, (text_fields d Hl). apply scan_dlines; auto.
    intros q Hq. destruct (wf_parts defs Hwf) as (_ & _ & H). exact (H d q Hd Hq).
  Qed.

  (* the buffer after the definitions of the types in [order] have been appended *)
  Fixpoint render_q (first : bool) (buf : bytes) (order : list bytes) : bytes :=
    match order with
    | [] => buf
    | q :: r => render_q false (next_buf first buf q ++ text_for q) r
    end.

  Definition qok (sd : subdef) : Prop := exists d, In d defs /\ sd_type sd = type_of d /\ sd_schema sd = text_of d.

  Lemma fresh_types d seen x : In d defs -> In x (fresh (refs_of d) seen) -> In x types.
  Proof.
    intros Hd Hx. destruct (fresh_spec (refs_of d) seen) as [_ H]. destruct (H x Hx) as [Hr _].
    destruct (wf_parts defs Hwf) as (_ & _ & H3). exact (H3 d x Hd Hr).
  Qed.

  Theorem assemble_refine : forall f queue seen first buf added,
    buf_inv first buf queue -> Forall qok queue -> NoDup added -> incl added seen -> incl added types ->
    length queue + (length defs - length added) <= f ->
    assemble (S f) T [dir] queue seen first buf = Ok (render_q first buf (bfs f defs (map sd_type queue) seen)).
  Proof.
    induction f as [|f IH]; intros queue seen first buf added Hi Hq Hnd Hin Hty Hf.
    - destruct queue; [reflexivity|simpl in Hf; lia].
    - destruct queue as [|sd rest]; [reflexivity|].
      inversion Hq as [|? ? (d & Hd & Hsty & Hsc) Hrest]; subst.
      rewrite assemble_step by (apply (buf_inv_first _ _ _ Hi); discriminate).
      pose proof (scan_def d sd Hd Hsty Hsc seen rest) as Es. rewrite Es. cbn [bind].
      set (new := fresh (refs_of d) seen) in *.
      destruct (fresh_spec (refs_of d) seen) as [Hn1 Hn2]. fold new in Hn1, Hn2.
      assert (Hnd2 : NoDup (added ++ new)).
      { apply NoDup_app_intro; auto. intros x Hx Hx2. destruct (Hn2 x Hx2) as [_ Hn]. apply Hn, Hin, Hx. }
      assert (Hty2 : incl (added ++ new) types).
      { apply incl_app; auto. intros x Hx. eapply fresh_types; eauto. }
      pose proof (NoDup_incl_length Hnd2 Hty2) as Hlen. unfold types in Hlen. rewrite map_length, app_length in Hlen.
      rewrite (IH _ _ _ _ (added ++ new)); auto.
      + cbn [map bfs render_q]. rewrite Hsty, (lookup_type defs Hwf d Hd). cbv zeta. fold new.
        rewrite (text_for_type d Hd), map_app, map_mk, Hsc. reflexivity.
      + rewrite <- (map_mk (md_pkg d) new) in Es at 1. eapply buf_inv_step; eauto.
      + apply Forall_app. split; auto. apply Forall_forall. intros s Hs. apply in_map_iff in Hs.
        destruct Hs as (q & <- & Hq'). assert (Hqt : In q types) by (eapply fresh_types; eauto).
        destruct (in_types q Hqt) as (d' & Hd' & <-). exists d'. cbn [mk_sd sd_type sd_schema].
        rewrite (text_for_type d' Hd'). auto.
      + apply incl_app; [apply incl_appl; exact Hin|apply incl_appr; apply incl_refl].
      + rewrite !app_length, map_length. simpl in Hf. lia.
  Qed.

  Lemma bfs_types : forall f queue seen, incl queue types -> incl (bfs f defs queue seen) types.
  Proof.
    induction f as [|f IH]; intros queue seen Hq; [intros x []|].
    destruct queue as [|q rest]; [intros x []|]. cbn [bfs].
    intros x [<-|Hx]; [apply Hq; left; reflexivity|]. revert x Hx. apply IH.
    apply incl_app; [intros y Hy; apply Hq; right; exact Hy|].
    destruct (lookup defs q) as [d|] eqn:El; [|intros y []].
    destruct (lookup_In _ _ _ El) as [Hd _]. intros y Hy. eapply fresh_types; eauto.
  Qed.

  Lemma render_q_rest : forall order buf, incl order types ->
    render_q false buf order = render_rest buf (lookup_all defs order).
  Proof.
    induction order as [|q r IH]; intros buf Hin; [reflexivity|].
    destruct (in_types q (Hin q (or_introl eq_refl))) as (d & Hd & <-).
    unfold lookup_all. cbn [flat_map render_q]. rewrite (lookup_type defs Hwf d Hd). cbn [opt_list app render_rest].
    rewrite (text_for_type d Hd). fold (lookup_all defs r).
    rewrite IH by (intros y Hy; apply Hin; right; exact Hy). f_equal.
    unfold next_buf, header, type_of. cbn [join_slash].
    destruct (def_parts defs Hwf d Hd) as (Hp & _). apply nm_props in Hp. destruct Hp as (_ & Hp & _).
    rewrite (replace_msg_type _ _ Hp). rewrite <- !app_assoc. cbn [app]. rewrite <- !app_assoc. reflexivity.
  Qed.

  Lemma render_q_first order : incl order types -> render_q true [] order = render_defs (lookup_all defs order).
  Proof.
    destruct order as [|q r]; intros Hin; [reflexivity|].
    destruct (in_types q (Hin q (or_introl eq_refl))) as (d & Hd & <-).
    unfold lookup_all. cbn [flat_map render_q]. rewrite (lookup_type defs Hwf d Hd). cbn [opt_list app render_defs].
    rewrite (text_for_type d Hd). fold (lookup_all defs r). unfold next_buf. cbn [app].
    apply render_q_rest. intros y Hy. apply Hin. right. exact Hy.
  Qed.

  Lemma weight_defs : S (length defs) <= fs_weight T.
  Proof.
    unfold fs_weight. rewrite fold_weight. pose proof (sum_weight_ge (ft_files T)) as H.
    assert (L : length defs <= length (ft_files T)).
    { unfold T, tree_of. cbn [ft_files]. rewrite app_length, !map_length. lia. }
    lia.
  Qed.

  (* the definition assembled for a type of the universe is the expected one: the definitions of the types reachable
     from it in breadth-first order of first occurrence (cycles included), separated by the 80 '=' line and the
     "MSG: pkg/Name" line *)
  Theorem get_schema_for_universe d : In d defs ->
    get_schema_for T [dir] (type_of d) = Ok (expected_schema defs (type_of d)).
  Proof.
    intros Hd. unfold get_schema_for. unfold T at 1. rewrite (get_schema_universe dir defs Hwf d Hd). cbn [bind].
    fold T. apply assemble_mono with (f := S (length defs)); [|apply weight_defs].
    assert (Hty : In (type_of d) types) by (apply in_map; exact Hd).
    rewrite (assemble_refine (length defs) _ _ _ _ [type_of d]).
    - cbn [map sd_type]. unfold expected_schema, bfs_order. f_equal. apply render_q_first.
      apply bfs_types. intros x [<-|[]]. exact Hty.
    - right. right. auto.
    - constructor; [|constructor]. exists d. auto.
    - constructor; [intros []|constructor].
    - apply incl_refl.
    - intros x [<-|[]]. exact Hty.
    - destruct defs; [destruct Hd|]. simpl. lia.
  Qed.

  Theorem get_schemas_universe : forall tys acc, incl tys types ->
    get_schemas T [dir] tys acc = Ok (fold_left (fun a ty => sch_set ty (expected_schema defs ty) a) tys acc).
  Proof.
    induction tys as [|ty r IH]; intros acc Hin; [reflexivity|].
    destruct (in_types ty (Hin ty (or_introl eq_refl))) as (d & Hd & <-).
    cbn [get_schemas fold_left]. rewrite (get_schema_for_universe d Hd). cbn [bind].
    apply IH. intros y Hy. apply Hin. right. exact Hy.
  Qed.
End Universe2.

(* ------------------------------------------------------------------------------------------ *)
(* the specification does not depend on its fuel; special cases                                *)

Section Universe3.
  Variable defs : list mdef.
  Hypothesis Hwf : wf_defs defs = true.
  Let types := map type_of defs.

  Lemma fresh_types' d seen x : In d defs -> In x (fresh (refs_of d) seen) -> In x types.
  Proof.
    intros Hd Hx. destruct (fresh_spec (refs_of d) seen) as [_ H]. destruct (H x Hx) as [Hr _].
    destruct (wf_parts defs Hwf) as (_ & _ & H3). exact (H3 d x Hd Hr).
  Qed.

  (* any fuel that covers the queue and the types not yet seen gives the same order *)
  Lemma bfs_stable : forall f1 f2 queue seen added,
    incl queue types -> NoDup added -> incl added seen -> incl added types ->
    length queue + (length defs - length added) <= f1 ->
    length queue + (length defs - length added) <= f2 ->
    bfs f1 defs queue seen = bfs f2 defs queue seen.
  Proof.
    induction f1 as [|f1 IH]; intros f2 queue seen added Hq Hnd Hin Hty H1 H2.
    - destruct queue; [destruct f2; reflexivity|simpl in H1; lia].
    - destruct queue as [|q rest]; [destruct f2; reflexivity|].
      destruct f2 as [|f2]; [simpl in H2; lia|]. cbn [bfs]. f_equal.
      assert (Hqt : In q types) by (apply Hq; left; reflexivity).
      apply in_map_iff in Hqt. destruct Hqt as (d & <- & Hd). rewrite (lookup_type defs Hwf d Hd).
      set (new := fresh (refs_of d) seen).
      destruct (fresh_spec (refs_of d) seen) as [Hn1 Hn2]. fold new in Hn1, Hn2.
      assert (Hnd2 : NoDup (added ++ new)).
      { apply NoDup_app_intro; auto. intros x Hx Hx2. destruct (Hn2 x Hx2) as [_ Hn]. apply Hn, Hin, Hx. }
      assert (Hty2 : incl (added ++ new) types).
      { apply incl_app; auto. intros x Hx. eapply fresh_types'; eauto. }
      pose proof (NoDup_incl_length Hnd2 Hty2) as Hlen. unfold types in Hlen. rewrite map_length, app_length in Hlen.
      apply (IH _ _ _ (added ++ new)); auto.
      + apply incl_app; [intros y Hy; apply Hq; right; exact Hy|]. intros x Hx. eapply fresh_types'; eauto.
      + apply incl_app; [apply incl_appl; exact Hin|apply incl_appr; apply incl_refl].
      + rewrite !app_length. simpl in H1. lia.
      + rewrite !app_length. simpl in H2. lia.
  Qed.

  Theorem bfs_order_stable ty f : In ty types -> length defs <= f -> bfs f defs [ty] [ty] = bfs_order defs ty.
  Proof.
    intros Hty Hf. unfold bfs_order. apply (bfs_stable _ _ _ _ [ty]).
    - intros x [<-|[]]. exact Hty.
    - constructor; [intros []|constructor].
    - apply incl_refl.
    - intros x [<-|[]]. exact Hty.
    - destruct defs; [destruct Hty|]. simpl in *. lia.
    - destruct defs; [destruct Hty|]. simpl. lia.
  Qed.

  (* (a) a definition without references: the file content *)
  Theorem expected_leaf d : In d defs -> refs_of d = [] -> expected_schema defs (type_of d) = text_of d.
  Proof.
    intros Hd Hr. unfold expected_schema, bfs_order.
    assert (Hn : exists n, length defs = S n) by (destruct defs; [destruct Hd|eexists; reflexivity]).
    destruct Hn as [n ->]. cbn [bfs]. rewrite (lookup_type defs Hwf d Hd), Hr. cbn [fresh app].
    replace (bfs n defs [] [type_of d]) with (@nil bytes) by (destruct n; reflexivity).
    unfold lookup_all. cbn [flat_map]. rewrite (lookup_type defs Hwf d Hd). reflexivity.
  Qed.

  (* (b) one level: the referenced definitions have no references themselves *)
  Theorem expected_one_level d : In d defs ->
    (forall q d', In q (refs_of d) -> lookup defs q = Some d' -> refs_of d' = []) ->
    expected_schema defs (type_of d) = render_defs (d :: lookup_all defs (fresh (refs_of d) [type_of d])).
  Proof.
    intros Hd Hleaf. unfold expected_schema.
    assert (Hb : forall f new seen, (forall q, In q new -> In q (refs_of d)) -> length new <= f ->
                 bfs f defs new seen = new).
    { induction f as [|f IH]; intros new seen Hn Hl; [destruct new; [reflexivity|simpl in Hl; lia]|].
      destruct new as [|q r]; [reflexivity|]. cbn [bfs].
      assert (Hq : In q types) by (destruct (wf_parts defs Hwf) as (_ & _ & H3); apply (H3 d q Hd); apply Hn; left; reflexivity).
      apply in_map_iff in Hq. destruct Hq as (d' & <- & Hd'). rewrite (lookup_type defs Hwf d' Hd').
      rewrite (Hleaf (type_of d') d'); [|apply Hn; left; reflexivity|apply lookup_type; auto].
      cbn [fresh]. rewrite !app_nil_r. f_equal. apply IH; [intros x Hx; apply Hn; right; exact Hx|simpl in Hl; lia]. }
    set (new := fresh (refs_of d) [type_of d]).
    assert (Hnew : bfs_order defs (type_of d) = type_of d :: new).
    { rewrite <- (bfs_order_stable (type_of d) (S (length new + length defs))); [|apply in_map; exact Hd|lia].
      cbn [bfs]. rewrite (lookup_type defs Hwf d Hd). fold new. cbn [app]. f_equal. apply Hb; [|lia].
      intros q Hq. destruct (fresh_spec (refs_of d) [type_of d]) as [_ H]. destruct (H q Hq). auto. }
    rewrite Hnew. unfold lookup_all. cbn [flat_map]. rewrite (lookup_type defs Hwf d Hd). reflexivity.
  Qed.
End Universe3.

(* ------------------------------------------------------------------------------------------ *)
(* the map returned by getSchemas, as the conversion reads it                                  *)

Lemma schema_of_set ty k v : forall l, schema_of ty (sch_set k v l) = if bytes_eqb k ty then Some v else schema_of ty l.
Proof.
  induction l as [|[k' v'] r IH]; [reflexivity|]. cbn [sch_set fst].
  destruct (bytes_eqb k' k) eqn:E.
  - apply bytes_eqb_eq in E. subst k'. cbn [schema_of]. destruct (bytes_eqb k ty); reflexivity.
  - cbn [schema_of]. rewrite IH. destruct (bytes_eqb k' ty) eqn:E2; [|reflexivity].
    apply bytes_eqb_eq in E2. subst k'. destruct (bytes_eqb k ty) eqn:E3; [|reflexivity].
    apply bytes_eqb_eq in E3. subst k. rewrite bytes_eqb_refl in E. discriminate.
Qed.

Lemma schema_of_fold (F : bytes -> bytes) ty : forall tys acc,
  schema_of ty (fold_left (fun a t => sch_set t (F t) a) tys acc) = if mem_b ty tys then Some (F ty) else schema_of ty acc.
Proof.
  induction tys as [|t r IH]; intros acc; [reflexivity|]. cbn [fold_left mem_b]. rewrite IH, schema_of_set.
  destruct (mem_b ty r); [rewrite orb_true_r; reflexivity|]. rewrite orb_false_r.
  destruct (bytes_eqb t ty) eqn:E.
  - apply bytes_eqb_eq in E. subst. rewrite bytes_eqb_refl. reflexivity.
  - destruct (bytes_eqb ty t) eqn:E2; [|reflexivity]. apply bytes_eqb_eq in E2. subst. rewrite bytes_eqb_refl in E. discriminate.
Qed.

Definition schemas_of (defs : list mdef) (tys : list bytes) : list (bytes * bytes) :=
  fold_left (fun a ty => sch_set ty (expected_schema defs ty) a) tys [].

Theorem schemas_of_get defs tys ty : In ty tys -> schema_of ty (schemas_of defs tys) = Some (expected_schema defs ty).
Proof.
  intros H. unfold schemas_of. rewrite (schema_of_fold (expected_schema defs)).
  apply mem_b_In in H. rewrite H. reflexivity.
Qed.

(* part 2, the two cases apart *)
Theorem db3_to_mcap_fs_ok o lib compress t dirs topics msgs l :
  get_schemas t dirs (map t_type (filter (fun x => is_message_type (t_type x)) topics)) [] = Ok l ->
  db3_to_mcap_fs o lib compress t dirs topics msgs = Ok (db3_to_mcap o lib compress topics (Some l) msgs).
Proof. intros H. unfold db3_to_mcap_fs. rewrite H. reflexivity. Qed.

Theorem db3_to_mcap_fs_err o lib compress t dirs topics msgs e :
  get_schemas t dirs (map t_type (filter (fun x => is_message_type (t_type x)) topics)) [] = Err e ->
  db3_to_mcap_fs o lib compress t dirs topics msgs = Ok (db3_to_mcap o lib compress topics None msgs) /\
  dr_err (db3_to_mcap o lib compress topics None msgs) = Some EOther /\
  dr_writes (db3_to_mcap o lib compress topics None msgs) = [].
Proof. intros H. unfold db3_to_mcap_fs. rewrite H. split; [reflexivity|]. apply db3_err_schemas_failed. Qed.

(* the conversion over the tree of a universe that has the types of all message topics *)
Theorem db3_to_mcap_fs_universe o lib compress dir defs topics msgs :
  wf_defs defs = true ->
  (forall x, In x topics -> is_message_type (t_type x) = true -> In (t_type x) (map type_of defs)) ->
  let tys := map t_type (filter (fun x => is_message_type (t_type x)) topics) in
  db3_to_mcap_fs o lib compress (tree_of dir defs) [dir] topics msgs
  = Ok (db3_to_mcap o lib compress topics (Some (schemas_of defs tys)) msgs) /\
  forall x, In x topics -> is_message_type (t_type x) = true ->
            schema_of (t_type x) (schemas_of defs tys) = Some (expected_schema defs (t_type x)).
Proof.
  intros Hwf Hin tys. split.
  - apply db3_to_mcap_fs_ok. fold tys. apply get_schemas_universe; auto.
    intros ty Hty. unfold tys in Hty. apply in_map_iff in Hty. destruct Hty as (x & <- & Hx).
    apply filter_In in Hx. destruct Hx. auto.
  - intros x Hx Hm. apply schemas_of_get. unfold tys. apply in_map. apply filter_In. auto.
Qed.

(* ------------------------------------------------------------------------------------------ *)
(* examples (used by properties/C18_schema.v)                                                  *)

Definition B (s : String.string) : bytes := String.list_byte_of_string s.
Arguments B s%string.
Definition fld (t : ftype) (n : String.string) : dline := DField t [] (B n).
Arguments fld t n%string.

(* two packages; pa/A and pb/Bb refer to each other, both refer to pa/Leaf *)
Definition ex_defs : list mdef :=
  [ {| md_pkg := B "pa"; md_name := B "A";
       md_lines := [DComment (B " the root"); fld (FPrim (B "int32")) "x";
                    DField (FQual (B "pb") (B "Bb")) (B "[]") (B "bs"); fld (FLocal (B "Leaf")) "l"] |};
    {| md_pkg := B "pb"; md_name := B "Bb";
       md_lines := [fld (FQual (B "pa") (B "A")) "back"; DEmpty; fld (FQual (B "pa") (B "Leaf")) "l2"; DEmpty] |};
    {| md_pkg := B "pa"; md_name := B "Leaf";
       md_lines := [DField (FPrim (B "string")) (B "<=5") (B "s # bounded")] |} ].
Definition ex_dir : list bytes := [B "opt"; B "ros"].
Definition ex_tree : fstree := tree_of ex_dir ex_defs.

Definition ex_text_A : bytes := B
"# the root
int32 x
pb/Bb[] bs
Leaf l
================================================================================
MSG: pb/Bb
pa/A back

pa/Leaf l2
================================================================================
MSG: pa/Leaf
string<=5 s # bounded".

Definition ex_text_Bb : bytes := B
"pa/A back

pa/Leaf l2
================================================================================
MSG: pa/A
# the root
int32 x
pb/Bb[] bs
Leaf l
================================================================================
MSG: pa/Leaf
string<=5 s # bounded".

Definition ex_text_Leaf : bytes := B "string<=5 s # bounded".

(* hostile definitions: rendered without any check *)
Definition hostile_defs : list mdef :=
  [ {| md_pkg := B "p"; md_name := B "Slash"; md_lines := [fld (FLocal (B "/")) "x"] |};
    {| md_pkg := B "p"; md_name := B "Slashes"; md_lines := [fld (FLocal (B "//")) "y"] |};
    {| md_pkg := B "p"; md_name := B "Empty"; md_lines := [] |};
    {| md_pkg := B "p"; md_name := B "Dangling"; md_lines := [fld (FLocal (B "Nowhere")) "z"] |};
    {| md_pkg := B "p"; md_name := B "DotDot"; md_lines := [fld (FQual (B "..") (B "X")) "z"] |} ].
Definition hostile_tree : fstree := tree_of ex_dir hostile_defs.

(* the index entry of package pa is a directory / the definition file of pa/A is missing *)
Definition index_dir_tree : fstree :=
  {| ft_files := map (def_file ex_dir) ex_defs;
     ft_dirs := [ex_dir ++ [s_share; s_ament_index; s_resource_index; s_rosidl; B "pa"]] |}.
Definition index_below_file_tree : fstree :=
  {| ft_files := (ex_dir ++ [s_share; s_ament_index; s_resource_index; s_rosidl; B "pa"; B "x"], []) :: map (def_file ex_dir) ex_defs;
     ft_dirs := [] |}.
Definition missing_def_tree : fstree :=
  {| ft_files := map (index_file ex_dir ex_defs) (pkgs ex_defs) ++ map (def_file ex_dir) (tl ex_defs); ft_dirs := [] |}.

(* one level of references: pa/Top refers to pa/Leaf (twice) and pb/Other *)
Definition ex_defs2 : list mdef :=
  [ {| md_pkg := B "pa"; md_name := B "Top";
       md_lines := [fld (FLocal (B "Leaf")) "a"; fld (FQual (B "pb") (B "Other")) "b"; fld (FQual (B "pa") (B "Leaf")) "c"; DEmpty] |};
    {| md_pkg := B "pa"; md_name := B "Leaf"; md_lines := [fld (FPrim (B "bool")) "x"] |};
    {| md_pkg := B "pb"; md_name := B "Other"; md_lines := [fld (FPrim (B "float64")) "y"; DEmpty] |} ].

Example ex_defs2_one_level :
  wf_defs ex_defs2 = true /\
  exists d, In d ex_defs2 /\ md_name d = B "Top" /\
            forall q d', In q (refs_of d) -> lookup ex_defs2 q = Some d' -> refs_of d' = [].
Proof.
  split; [vm_compute; reflexivity|]. eexists. split; [left; reflexivity|]. split; [reflexivity|].
  intros q d' Hq Hl. vm_compute in Hq.
  destruct Hq as [<-|[<-|[<-|[]]]]; vm_compute in Hl; injection Hl as <-; reflexivity.
Qed.

(* the initial state of get_schema_for satisfies the hypotheses of assemble_fine *)
Lemma assemble_fine_initial t dirs ty sc :
  let q := [{| sd_parent := hd [] (split_byte 47 ty); sd_type := ty; sd_schema := sc |}] in
  buf_inv true [] q /\ Forall sd_ok q /\ NoDup (@nil bytes) /\ incl [] [ty] /\ Forall (good t) [] /\
  length q + (length (keys t) - length (@nil bytes)) + 1 <= fs_weight t /\
  no_crash (assemble (fs_weight t) t dirs q [ty] true []) = true.
Proof.
  intros q.
  assert (H1 : buf_inv true [] q) by (right; right; auto).
  assert (H2 : Forall sd_ok q) by (constructor; [apply root_sd_ok|constructor]).
  assert (H3 : length q + (length (keys t) - length (@nil bytes)) + 1 <= fs_weight t)
    by (pose proof (keys_weight t) as H; simpl; lia).
  split; [exact H1|]. split; [exact H2|]. split; [constructor|]. split; [apply incl_nil_l|]. split; [constructor|].
  split; [exact H3|].
  apply (assemble_fine t dirs _ _ _ _ _ []); auto; [constructor|apply incl_nil_l].
Qed.

(* ------------------------------------------------------------------------------------------ *)
(* what the breadth-first order is: no repetition, closed under references, nothing else       *)

Lemma fresh_complete refs : forall seen x, In x refs -> In x seen \/ In x (fresh refs seen).
Proof.
  induction refs as [|q r IH]; simpl; intros seen x; [tauto|]. intros [<-|Hx].
  - destruct (mem_b q seen) eqn:E; [left; apply mem_b_In; exact E|right; left; reflexivity].
  - destruct (mem_b q seen); [apply IH; exact Hx|].
    destruct (IH (seen ++ [q]) x Hx) as [H|H]; [|right; right; exact H].
    apply in_app_or in H. destruct H as [H|[<-|[]]]; [left; exact H|right; left; reflexivity].
Qed.

Lemma type_of_pair_inj d d' : mdef_ok d = true -> mdef_ok d' = true -> type_of d = type_of d' ->
  md_pkg d = md_pkg d' /\ md_name d = md_name d'.
Proof.
  unfold mdef_ok. rewrite !andb_true_iff. intros [[H1 H2] _] [[H3 H4] _] H.
  apply name_pkg_ok in H2, H4. destruct H2 as [H2 _]. destruct H4 as [H4 _].
  assert (F : forall p n, pkg_ok p = true -> pkg_ok n = true -> fields_by 47 (join_slash [p; s_msg_word; n]) = [p; s_msg_word; n]).
  { intros p n Hp Hn. apply fields_join_slash. pose proof (nm_comp_ok _ Hp). pose proof (nm_comp_ok _ Hn).
    pose proof msg_comp_ok. fall. }
  pose proof (F _ _ H1 H2) as F1. pose proof (F _ _ H3 H4) as F2. unfold type_of in H. rewrite H, F2 in F1.
  injection F1 as -> ->. auto.
Qed.

Section Universe4.
  Variable defs : list mdef.
  Hypothesis Hwf : wf_defs defs = true.
  Let types := map type_of defs.

  Definition refers (q r : bytes) : Prop := exists d, lookup defs q = Some d /\ In r (refs_of d).

  Lemma bfs_shape : forall f queue seen added,
    incl queue types -> NoDup added -> incl added seen -> incl added types ->
    length queue + (length defs - length added) <= f ->
    exists extra, bfs f defs queue seen = queue ++ extra /\ NoDup extra /\
      (forall x, In x extra -> ~ In x seen) /\
      (forall q r, In q (queue ++ extra) -> refers q r -> In r seen \/ In r extra) /\
      (forall x, In x extra -> exists q, In q (queue ++ extra) /\ refers q x).
  Proof.
    induction f as [|f IH]; intros queue seen added Hq Hnd Hin Hty Hf.
    - destruct queue; [|simpl in Hf; lia]. exists []. simpl. repeat split; try constructor; tauto.
    - destruct queue as [|q rest].
      { exists []. simpl. repeat split; try constructor; tauto. }
      cbn [bfs].
      assert (Hqt : In q types) by (apply Hq; left; reflexivity).
      apply in_map_iff in Hqt. destruct Hqt as (d & <- & Hd). rewrite (lookup_type defs Hwf d Hd).
      set (new := fresh (refs_of d) seen).
      destruct (fresh_spec (refs_of d) seen) as [Hn1 Hn2]. fold new in Hn1, Hn2.
      assert (Hnd2 : NoDup (added ++ new)).
      { apply NoDup_app_intro; auto. intros x Hx Hx2. destruct (Hn2 x Hx2) as [_ Hn]. apply Hn, Hin, Hx. }
      assert (Hty2 : incl (added ++ new) types).
      { apply incl_app; auto. intros x Hx. eapply fresh_types'; eauto. }
      pose proof (NoDup_incl_length Hnd2 Hty2) as Hlen. unfold types in Hlen. rewrite map_length, app_length in Hlen.
      destruct (IH (rest ++ new) (seen ++ new) (added ++ new)) as (extra & E1 & E2 & E3 & E4 & E5); auto.
      + apply incl_app; [intros y Hy; apply Hq; right; exact Hy|]. intros x Hx. eapply fresh_types'; eauto.
      + apply incl_app; [apply incl_appl; exact Hin|apply incl_appr; apply incl_refl].
      + rewrite !app_length. simpl in Hf. lia.
      + exists (new ++ extra). rewrite E1. split; [cbn [app]; rewrite <- app_assoc; reflexivity|].
        split; [|split; [|split]].
        * apply NoDup_app_intro; auto. intros x Hx Hx2. apply (E3 x Hx2). apply in_or_app. right. exact Hx.
        * intros x Hx Hs. apply in_app_or in Hx. destruct Hx as [Hx|Hx].
          -- destruct (Hn2 x Hx) as [_ Hn]. contradiction.
          -- apply (E3 x Hx). apply in_or_app. left. exact Hs.
        * intros q0 r Hq0 (d0 & Hl0 & Hr0). cbn [app] in Hq0. destruct Hq0 as [<-|Hq0].
          -- rewrite (lookup_type defs Hwf d Hd) in Hl0. injection Hl0 as <-.
             destruct (fresh_complete (refs_of d) seen r Hr0) as [H|H]; [left; exact H|].
             right. apply in_or_app. left. exact H.
          -- rewrite app_assoc in Hq0. destruct (E4 q0 r Hq0) as [H|H]; [exists d0; auto| |].
             ++ apply in_app_or in H. destruct H as [H|H]; [left; exact H|right; apply in_or_app; left; exact H].
             ++ right. apply in_or_app. right. exact H.
        * intros x Hx. apply in_app_or in Hx. destruct Hx as [Hx|Hx].
          -- exists (type_of d). split; [left; reflexivity|]. exists d. split; [apply lookup_type; auto|].
             destruct (Hn2 x Hx). auto.
          -- destruct (E5 x Hx) as (q0 & Hq0 & Hr0). exists q0. split; [|exact Hr0].
             cbn [app]. right. rewrite app_assoc. exact Hq0.
  Qed.

  (* bfs_order starts with ty, has no repetition, contains every type that one of its members refers to, and every
     member but ty is referred to by a member *)
  Theorem bfs_order_spec ty : In ty types ->
    exists extra, bfs_order defs ty = ty :: extra /\ NoDup (ty :: extra) /\
      (forall q r, In q (ty :: extra) -> refers q r -> In r (ty :: extra)) /\
      (forall x, In x extra -> exists q, In q (ty :: extra) /\ refers q x).
  Proof.
    intros Hty. destruct (bfs_shape (length defs) [ty] [ty] [ty]) as (extra & E1 & E2 & E3 & E4 & E5).
    - intros x [<-|[]]. exact Hty.
    - constructor; [intros []|constructor].
    - apply incl_refl.
    - intros x [<-|[]]. exact Hty.
    - destruct defs; [destruct Hty|]. simpl. lia.
    - exists extra. split; [exact E1|]. split; [|split].
      + constructor; auto. intros H. apply (E3 ty H). left. reflexivity.
      + intros q r Hq Hr. destruct (E4 q r Hq Hr) as [[<-|[]]|H]; [left; reflexivity|right; exact H].
      + exact E5.
  Qed.
End Universe4.

Definition ex_topic (id : Z) (ty : bytes) : topic_row :=
  {| t_id := id; t_name := B "/t"; t_type := ty; t_fmt := B "cdr"; t_qos := None |}.
(* the second topic is a service topic: not message-typed, its type is not looked up *)
Definition ex_fs_topics : list topic_row :=
  [ex_topic 1 (B "pa/msg/A"); ex_topic 2 (B "pa/srv/S"); ex_topic 3 (B "pb/msg/Bb")].

Example ex_fs_topics_in_universe :
  wf_defs ex_defs = true /\
  forall x, In x ex_fs_topics -> is_message_type (t_type x) = true -> In (t_type x) (map type_of ex_defs).
Proof.
  split; [vm_compute; reflexivity|].
  intros x [<-|[<-|[<-|[]]]] H; vm_compute in H; try discriminate H; vm_compute; auto.
Qed.
