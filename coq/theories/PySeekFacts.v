(* PySeekFacts.v - ordering theory of the Python seeking reader model (Py.v):
     A. CPython's heapq (siftdown / siftup / heappush / heappop of Py.v) is a priority queue;
     B. the order q_lt of _message_queue.py;
     C. SeekingReader.iter_messages (sk_loop) returns every selected message once, in order. *)
From Coq Require Import List NArith ZArith Bool Arith Lia ZifyN ZifyNat ZifyBool Permutation Sorted.
From Coq.Strings Require Import Byte.
From Mcap Require Import Bytes GoSem Crc32 Records Py.
Import ListNotations.

(* ------------------------------------------------------------------ *)
(* lists: lset / nth                                                   *)
(* ------------------------------------------------------------------ *)
Lemma length_lset {A} (l : list A) i x : length (lset l i x) = length l.
Proof. revert i; induction l as [|y l IH]; intros [|i]; simpl; auto. Qed.

Lemma nth_lset_eq {A} (l : list A) i x d : (i < length l)%nat -> nth i (lset l i x) d = x.
Proof.
  revert i; induction l as [|y l IH]; intros [|i]; simpl; intros H; try lia; auto.
  apply IH; lia.
Qed.

Lemma nth_lset_neq {A} (l : list A) i j x d : i <> j -> nth j (lset l i x) d = nth j l d.
Proof.
  revert i j; induction l as [|y l IH]; intros [|i] [|j]; simpl; intros H; try congruence; auto.
Qed.

Lemma lset_perm {A} (l : list A) i x d :
  (i < length l)%nat -> Permutation (nth i l d :: lset l i x) (x :: l).
Proof.
  revert i; induction l as [|y l IH]; intros [|i]; simpl; intros H; try lia.
  - apply perm_swap.
  - eapply perm_trans; [apply perm_swap|].
    eapply perm_trans; [apply perm_skip, IH; lia|]. apply perm_swap.
Qed.

Lemma Forall_lset {A} (P : A -> Prop) (l : list A) i x : Forall P l -> P x -> Forall P (lset l i x).
Proof.
  revert i; induction l as [|y l IH]; intros [|i] Hl Hx; simpl; auto;
    inversion Hl; subst; constructor; auto.
Qed.

Lemma Forall_nth_lt {A} (P : A -> Prop) (l : list A) i d : Forall P l -> (i < length l)%nat -> P (nth i l d).
Proof. intros H Hi. rewrite Forall_forall in H. apply H, nth_In, Hi. Qed.

(* ------------------------------------------------------------------ *)
(* parent / child index arithmetic                                      *)
(* ------------------------------------------------------------------ *)
Definition parent (i : nat) : nat := Nat.div2 (i - 1).

Lemma parent_spec i : (0 < i)%nat -> i = (2 * parent i + 1)%nat \/ i = (2 * parent i + 2)%nat.
Proof.
  intros H. unfold parent. pose proof (Nat.div2_odd (i - 1)) as E.
  destruct (Nat.odd (i - 1)); simpl in E; lia.
Qed.

Lemma parent_left p : parent (2 * p + 1) = p.
Proof. unfold parent. replace (2 * p + 1 - 1)%nat with (2 * p)%nat by lia. apply Nat.div2_double. Qed.

Lemma parent_right p : parent (2 * p + 2) = p.
Proof. unfold parent. replace (2 * p + 2 - 1)%nat with (S (2 * p)) by lia. apply Nat.div2_succ_double. Qed.

Lemma parent_lt i : (0 < i)%nat -> (parent i < i)%nat.
Proof. intros H. destruct (parent_spec i H); lia. Qed.

(* ------------------------------------------------------------------ *)
(* A. heapq                                                            *)
(* ------------------------------------------------------------------ *)
Section HeapBasic.
Variable lt : qitem -> qitem -> bool.
Variable dflt : qitem.
Notation get h i := (nth i h dflt).

Lemma siftdown_length fuel : forall h sp pos x, length (siftdown lt dflt fuel h sp pos x) = length h.
Proof.
  induction fuel; intros; simpl; [apply length_lset|].
  destruct (Nat.ltb sp pos); [|apply length_lset].
  destruct (lt x _); [|apply length_lset].
  rewrite IHfuel, length_lset; auto.
Qed.

Lemma siftdown_perm fuel : forall h sp pos x,
  (pos < length h)%nat ->
  Permutation (get h pos :: siftdown lt dflt fuel h sp pos x) (x :: h).
Proof.
  induction fuel; intros h sp pos x Hp; simpl; [apply lset_perm; auto|].
  destruct (Nat.ltb_spec sp pos) as [Hpos|Hpos]; [|apply lset_perm; auto].
  unfold hget. fold (parent pos).
  destruct (lt x (get h (parent pos))) eqn:Elt; [|apply lset_perm; auto].
  assert (Hpp : (parent pos < pos)%nat) by (apply parent_lt; lia).
  set (pp := parent pos) in *.
  pose proof (IHfuel (lset h pos (get h pp)) sp pp x) as IH.
  rewrite length_lset in IH. specialize (IH ltac:(lia)).
  rewrite nth_lset_neq in IH by lia.
  pose proof (lset_perm h pos (get h pp) dflt Hp) as L.
  apply Permutation_cons_inv with (a := get h pp).
  eapply perm_trans; [apply perm_swap|].
  eapply perm_trans; [apply perm_skip, IH|].
  eapply perm_trans; [apply perm_swap|].
  eapply perm_trans; [apply perm_skip, L|].
  apply perm_swap.
Qed.

(* ---- heappush ---- *)
Lemma heappush_length h x : length (heappush lt dflt h x) = S (length h).
Proof. unfold heappush. rewrite siftdown_length, app_length; simpl; lia. Qed.

Lemma heappush_perm h x : Permutation (heappush lt dflt h x) (x :: h).
Proof.
  unfold heappush.
  pose proof (siftdown_perm (length (h ++ [x])) (h ++ [x]) 0 (length h) x) as H.
  rewrite app_length in H. simpl in H. specialize (H ltac:(lia)).
  rewrite app_nth2, Nat.sub_diag in H by lia. simpl in H.
  apply Permutation_cons_inv in H.
  eapply perm_trans; [rewrite app_length; simpl; exact H|].
  apply Permutation_sym, Permutation_cons_append.
Qed.

Lemma siftup_loop_basic fuel : forall h n pos h' p,
  length h = n -> (pos < n)%nat ->
  siftup_loop lt dflt fuel h n pos = (h', p) ->
  length h' = n /\ (p < n)%nat /\ Permutation (get h pos :: h') (get h' p :: h).
Proof.
  induction fuel; intros h n pos h' p Hn Hp E; cbn [siftup_loop] in E.
  - inversion E; subst. auto.
  - destruct (Nat.ltb_spec (2 * pos + 1) n) as [Hc|Hc].
    2:{ inversion E; subst. auto. }
    unfold hget in E.
    set (c := if Nat.ltb (2 * pos + 1 + 1) n && negb (lt (get h (2 * pos + 1)) (get h (2 * pos + 1 + 1)))
              then (2 * pos + 1 + 1)%nat else (2 * pos + 1)%nat) in *.
    assert (Hcv : (c = 2 * pos + 1 \/ c = 2 * pos + 2)%nat /\ (c < n)%nat).
    { subst c. destruct (Nat.ltb_spec (2 * pos + 1 + 1) n); cbn [andb negb]; [|lia].
      destruct (lt _ _); cbn [andb negb]; lia. }
    destruct Hcv as (Hcv & Hcl).
    apply IHfuel in E; [|rewrite length_lset; auto|auto].
    destruct E as (L' & Hp' & Perm). split; [exact L'|]. split; [exact Hp'|].
    rewrite nth_lset_neq in Perm by lia.
    pose proof (lset_perm h pos (get h c) dflt ltac:(lia)) as L.
    apply Permutation_cons_inv with (a := get h c).
    eapply perm_trans; [apply perm_swap|].
    eapply perm_trans; [apply perm_skip, Perm|].
    eapply perm_trans; [apply perm_swap|].
    eapply perm_trans; [apply perm_skip, L|].
    apply perm_swap.
Qed.

Lemma siftup_perm h pos : (pos < length h)%nat -> Permutation (siftup lt dflt h pos) h.
Proof.
  intros Hpos. unfold siftup, hget.
  destruct (siftup_loop lt dflt (length h) h (length h) pos) as [h' p] eqn:E.
  apply siftup_loop_basic in E; auto.
  destruct E as (L' & Hp & Perm). rewrite <- L' in Hp.
  set (x := get h pos) in *.
  pose proof (siftdown_perm (length h) (lset h' p x) pos p x) as S1.
  rewrite length_lset in S1. specialize (S1 Hp). rewrite nth_lset_eq in S1 by auto.
  apply Permutation_cons_inv in S1.
  eapply perm_trans; [exact S1|].
  pose proof (lset_perm h' p x dflt Hp) as L.
  apply Permutation_cons_inv with (a := get h' p).
  eapply perm_trans; [exact L|]. exact Perm.
Qed.

Lemma heappop_none h : heappop lt dflt h = None <-> h = [].
Proof.
  unfold heappop. split.
  - destruct (rev h) as [|l r] eqn:E.
    + intros _. apply (f_equal (@rev _)) in E. rewrite rev_involutive in E. exact E.
    + destruct (rev r); discriminate.
  - intros ->. reflexivity.
Qed.

Lemma heappop_cases h x h' :
  heappop lt dflt h = Some (x, h') ->
  (h = [x] /\ h' = []) \/
  (exists tl last, h = x :: tl ++ [last] /\ h' = siftup lt dflt (last :: tl) 0).
Proof.
  unfold heappop. destruct (rev h) as [|l r] eqn:E; [discriminate|].
  apply (f_equal (@rev _)) in E. rewrite rev_involutive in E. simpl in E.
  destruct (rev r) as [|top tl] eqn:Er; intros H; inversion H; subst.
  - left. auto.
  - right. exists tl, l. auto.
Qed.

Lemma heappop_perm h x h' : heappop lt dflt h = Some (x, h') -> Permutation h (x :: h').
Proof.
  intros H. apply heappop_cases in H. destruct H as [(-> & ->)|(tl & last & -> & ->)]; [auto|].
  apply perm_skip.
  eapply perm_trans; [apply Permutation_sym, Permutation_cons_append|].
  apply Permutation_sym, siftup_perm. simpl; lia.
Qed.

(* ---- pushing a sequence, draining the heap ---- *)
Definition push_all (h : list qitem) (xs : list qitem) : list qitem := fold_left (heappush lt dflt) xs h.

Fixpoint drain (fuel : nat) (h : list qitem) : list qitem :=
  match fuel with
  | O => []
  | S f => match heappop lt dflt h with
           | None => []
           | Some (x, h') => x :: drain f h'
           end
  end.

Lemma push_all_perm xs : forall h, Permutation (push_all h xs) (xs ++ h).
Proof.
  induction xs as [|x xs IH]; intros h; simpl; auto.
  eapply perm_trans; [apply IH|].
  eapply perm_trans; [apply Permutation_app_head, heappush_perm|].
  apply Permutation_sym, Permutation_middle.
Qed.

End HeapBasic.

Section HeapFacts.
Variable lt : qitem -> qitem -> bool.
Variable dflt : qitem.
(* the elements the order is well behaved on *)
Variable P : qitem -> Prop.
(* the relation the heap invariant is stated with: a preorder on P that the comparisons decide.
   Instances: R a b := (lt b a = false) for a strict weak order lt; and, for q_lt, the coarser
   "log time of a <= log time of b", which needs no distinctness assumption at all. *)
Variable R : qitem -> qitem -> Prop.
Hypothesis le_refl : forall a, P a -> R a a.
Hypothesis le_trans : forall a b c, P a -> P b -> P c -> R a b -> R b c -> R a c.
Hypothesis lt_R : forall a b, P a -> P b -> lt a b = true -> R a b.
Hypothesis nlt_R : forall a b, P a -> P b -> lt a b = false -> R b a.

Notation get h i := (nth i h dflt).
Notation le a b := (R a b).

(* the heap invariant of heapq: no element is smaller than its parent *)
Definition heap (h : list qitem) : Prop :=
  forall i, (0 < i)%nat -> (i < length h)%nat -> le (get h (parent i)) (get h i).

(* heap with a hole at pos that is about to receive x (the state of _siftdown) *)
Definition hole_inv (h : list qitem) (pos : nat) (x : qitem) : Prop :=
  (pos < length h)%nat /\
  (forall i, (0 < i)%nat -> (i < length h)%nat -> i <> pos -> parent i <> pos -> le (get h (parent i)) (get h i)) /\
  (forall i, (0 < i)%nat -> (i < length h)%nat -> parent i = pos -> (0 < pos)%nat -> le (get h (parent pos)) (get h i)) /\
  (forall i, (0 < i)%nat -> (i < length h)%nat -> parent i = pos -> le x (get h i)).

Lemma lset_heap h pos x :
  hole_inv h pos x -> (pos = 0%nat \/ le (get h (parent pos)) x) -> heap (lset h pos x).
Proof.
  intros (Hp & H2 & H3 & H4) Hx i Hi0 Hi. rewrite length_lset in Hi.
  destruct (Nat.eq_dec i pos) as [->|Hne].
  - rewrite nth_lset_eq by auto. pose proof (parent_lt pos Hi0).
    rewrite nth_lset_neq by lia. destruct Hx; [lia|auto].
  - rewrite (nth_lset_neq h pos i) by auto.
    destruct (Nat.eq_dec (parent i) pos) as [E|E].
    + rewrite E, nth_lset_eq by auto. apply H4; auto.
    + rewrite nth_lset_neq by auto. apply H2; auto.
Qed.

Lemma siftdown_heap fuel : forall h pos x,
  (pos <= fuel)%nat -> Forall P h -> P x -> hole_inv h pos x ->
  heap (siftdown lt dflt fuel h 0 pos x).
Proof.
  induction fuel; intros h pos x Hf HP Hx Hinv; simpl.
  - apply lset_heap; auto. left; lia.
  - destruct (Nat.ltb_spec 0 pos) as [Hpos|Hpos]; [|apply lset_heap; auto; left; lia].
    unfold hget. fold (parent pos).
    pose proof (parent_lt pos Hpos) as Hpp.
    assert (Ppp : P (get h (parent pos))) by (apply Forall_nth_lt; auto; destruct Hinv; lia).
    destruct (lt x (get h (parent pos))) eqn:Elt; [|apply lset_heap; auto].
    destruct Hinv as (Hp & H2 & H3 & H4).
    assert (Hle : le x (get h (parent pos))) by (apply lt_R; auto).
    apply IHfuel; [lia|apply Forall_lset; auto|auto|].
    set (pp := parent pos) in *.
    assert (Hg : forall j, j <> pos -> get (lset h pos (get h pp)) j = get h j)
      by (intros; apply nth_lset_neq; auto).
    assert (Hgp : get (lset h pos (get h pp)) pos = get h pp) by (apply nth_lset_eq; auto).
    repeat split; rewrite ?length_lset.
    + lia.
    + intros i Hi0 Hi Hne1 Hne2.
      assert (i <> pos) by (intros ->; apply Hne2; reflexivity).
      rewrite (Hg i) by auto.
      destruct (Nat.eq_dec (parent i) pos) as [E|E].
      * rewrite E, Hgp. apply H3; auto.
      * rewrite Hg by auto. apply H2; auto.
    + intros i Hi0 Hi Hpi Hpp0.
      pose proof (parent_lt pp Hpp0) as Hppp.
      rewrite (Hg (parent pp)) by lia.
      assert (Hedge : le (get h (parent pp)) (get h pp)) by (apply H2; lia).
      destruct (Nat.eq_dec i pos) as [->|Hne].
      * rewrite Hgp. exact Hedge.
      * rewrite Hg by auto.
        apply le_trans with (b := get h pp); auto; try (apply Forall_nth_lt; auto; lia).
        rewrite <- Hpi. apply H2; auto. lia.
    + intros i Hi0 Hi Hpi.
      destruct (Nat.eq_dec i pos) as [->|Hne].
      * rewrite Hgp. exact Hle.
      * rewrite Hg by auto.
        apply le_trans with (b := get h pp); auto; try (apply Forall_nth_lt; auto; lia).
        rewrite <- Hpi. apply H2; auto. lia.
Qed.

Lemma siftdown_Forall fuel : forall h sp pos x,
  Forall P h -> P x -> (pos < length h)%nat -> Forall P (siftdown lt dflt fuel h sp pos x).
Proof.
  intros h sp pos x Hh Hx Hp.
  pose proof (siftdown_perm lt dflt fuel h sp pos x Hp) as Hperm.
  assert (F : Forall P (x :: h)) by (constructor; auto).
  apply (Permutation_Forall (Permutation_sym Hperm)) in F. inversion F; auto.
Qed.

Lemma heappush_heap h x : Forall P h -> P x -> heap h -> heap (heappush lt dflt h x).
Proof.
  intros Hh Hx Hheap. unfold heappush. apply siftdown_heap; auto.
  - rewrite app_length; simpl; lia.
  - apply Forall_app; split; auto.
  - assert (Hlen : length (h ++ [x]) = S (length h)) by (rewrite app_length; simpl; lia).
    repeat split; rewrite ?Hlen.
    + lia.
    + intros i Hi0 Hi Hne _. pose proof (parent_lt i Hi0).
      rewrite !app_nth1 by lia. apply Hheap; lia.
    + intros i Hi0 Hi Hpi _. pose proof (parent_lt i Hi0). lia.
    + intros i Hi0 Hi Hpi. pose proof (parent_lt i Hi0). lia.
Qed.

(* ---- _siftup: the hole travels down to a leaf ---- *)
Definition down_inv (h : list qitem) (pos : nat) : Prop :=
  (pos < length h)%nat /\
  (forall i, (0 < i)%nat -> (i < length h)%nat -> i <> pos -> parent i <> pos -> le (get h (parent i)) (get h i)) /\
  (forall i, (0 < i)%nat -> (i < length h)%nat -> parent i = pos -> (0 < pos)%nat -> le (get h (parent pos)) (get h i)).

Lemma siftup_loop_spec fuel : forall h pos h' p,
  (length h <= fuel + pos)%nat -> Forall P h -> down_inv h pos ->
  siftup_loop lt dflt fuel h (length h) pos = (h', p) ->
  length h' = length h /\ Forall P h' /\ down_inv h' p /\ (length h' <= 2 * p + 1)%nat.
Proof.
  induction fuel; intros h pos h' p Hf HP Hinv E; cbn [siftup_loop] in E.
  - inversion E; subst. destruct Hinv as (Hp & _). lia.
  - destruct (Nat.ltb_spec (2 * pos + 1) (length h)) as [Hc|Hc].
    2:{ inversion E; subst. repeat split; auto; try apply Hinv. }
    unfold hget in E.
    set (c := if Nat.ltb (2 * pos + 1 + 1) (length h) && negb (lt (get h (2 * pos + 1)) (get h (2 * pos + 1 + 1)))
              then (2 * pos + 1 + 1)%nat else (2 * pos + 1)%nat) in *.
    destruct Hinv as (Hp & H2 & H3).
    assert (Hcr : (c = 2 * pos + 1 \/ c = 2 * pos + 2)%nat /\ (c < length h)%nat /\
                  forall i, (i < length h)%nat -> parent i = pos -> (0 < i)%nat -> le (get h c) (get h i)).
    { subst c. destruct (Nat.ltb_spec (2 * pos + 1 + 1) (length h)) as [Hr|Hr]; cbn [andb negb].
      - assert (Pl : P (get h (2 * pos + 1))) by (apply Forall_nth_lt; auto).
        assert (Pr : P (get h (2 * pos + 1 + 1))) by (apply Forall_nth_lt; auto).
        destruct (lt (get h (2 * pos + 1)) (get h (2 * pos + 1 + 1))) eqn:El; cbn [andb negb].
        + split; [lia|]. split; [lia|]. intros i Hi Hpi Hi0.
          destruct (parent_spec i Hi0) as [Ei|Ei]; rewrite Hpi in Ei; subst i.
          * apply le_refl; auto.
          * replace (2 * pos + 2)%nat with (2 * pos + 1 + 1)%nat by lia. apply lt_R; auto.
        + split; [lia|]. split; [lia|]. intros i Hi Hpi Hi0.
          destruct (parent_spec i Hi0) as [Ei|Ei]; rewrite Hpi in Ei; subst i.
          * apply nlt_R; auto.
          * replace (2 * pos + 2)%nat with (2 * pos + 1 + 1)%nat by lia. apply le_refl; auto.
      - split; [lia|]. split; [lia|]. intros i Hi Hpi Hi0.
        destruct (parent_spec i Hi0) as [Ei|Ei]; rewrite Hpi in Ei; subst i.
        + apply le_refl. apply Forall_nth_lt; auto.
        + lia. }
    destruct Hcr as (Hcv & Hcl & Hcmin).
    assert (Hpc : parent c = pos) by (destruct Hcv as [-> | ->]; [apply parent_left|apply parent_right]).
    assert (Pc : P (get h c)) by (apply Forall_nth_lt; auto).
    set (h2 := lset h pos (get h c)) in *.
    assert (Hlen2 : length h2 = length h) by apply length_lset.
    assert (Hg : forall j, j <> pos -> get h2 j = get h j) by (intros; apply nth_lset_neq; auto).
    assert (Hgp : get h2 pos = get h c) by (apply nth_lset_eq; auto).
    rewrite <- Hlen2 in E.
    apply IHfuel in E.
    + destruct E as (L' & F' & D' & Leaf).
      rewrite Hlen2 in L'. auto.
    + lia.
    + apply Forall_lset; auto.
    + repeat split; rewrite ?Hlen2.
      * exact Hcl.
      * intros i Hi0 Hi Hne1 Hne2.
        destruct (Nat.eq_dec i pos) as [->|Hip].
        { rewrite Hgp. pose proof (parent_lt pos Hi0). rewrite Hg by lia. apply H3; auto; lia. }
        rewrite (Hg i) by auto.
        destruct (Nat.eq_dec (parent i) pos) as [Epi|Epi].
        { rewrite Epi, Hgp. apply Hcmin; auto. }
        rewrite Hg by auto. apply H2; auto.
      * intros i Hi0 Hi Hpi _. rewrite Hpc, Hgp.
        assert (i <> pos) by (pose proof (parent_lt i Hi0); lia).
        rewrite Hg by auto. rewrite <- Hpi. apply H2; auto; lia.
Qed.

Lemma siftup_heap h : Forall P h -> down_inv h 0 -> heap (siftup lt dflt h 0).
Proof.
  intros HP Hinv. unfold siftup, hget.
  destruct (siftup_loop lt dflt (length h) h (length h) 0) as [h' p] eqn:E.
  apply siftup_loop_spec in E; auto; [|lia].
  destruct E as (L' & F' & (Hp & D2 & D3) & Leaf).
  assert (Px : P (get h 0)) by (apply Forall_nth_lt; auto; destruct Hinv; auto).
  set (x := get h 0) in *.
  apply siftdown_heap; auto; [lia|apply Forall_lset; auto|].
  repeat split; rewrite ?length_lset.
  + exact Hp.
  + intros i Hi0 Hi Hne1 Hne2. rewrite !nth_lset_neq by auto. apply D2; auto.
  + intros i Hi0 Hi Hpi _. destruct (parent_spec i Hi0); lia.
  + intros i Hi0 Hi Hpi. destruct (parent_spec i Hi0); lia.
Qed.

(* ---- heappop ---- *)
Lemma heap_prefix h y : heap (h ++ [y]) -> heap h.
Proof.
  intros H i Hi0 Hi. pose proof (parent_lt i Hi0).
  specialize (H i Hi0). rewrite app_length in H. simpl in H. specialize (H ltac:(lia)).
  rewrite !app_nth1 in H by lia. exact H.
Qed.

Lemma heappop_heap h x h' : heappop lt dflt h = Some (x, h') -> Forall P h -> heap h -> heap h'.
Proof.
  intros H HP Hh. apply heappop_cases in H. destruct H as [(-> & ->)|(tl & last & -> & ->)].
  - intros i Hi0 Hi. simpl in Hi. lia.
  - assert (F : Forall P (last :: tl)).
    { inversion HP as [|? ? _ F]; subst. apply Forall_app in F. destruct F as (F1 & F2).
      inversion F2; subst. constructor; auto. }
    apply siftup_heap; auto.
    change (x :: tl ++ [last]) with ((x :: tl) ++ [last]) in Hh. apply heap_prefix in Hh.
    repeat split.
    + simpl; lia.
    + intros i Hi0 Hi Hne1 Hne2. specialize (Hh i Hi0 Hi).
      destruct i as [|i]; [lia|]. destruct (parent (S i)) as [|k] eqn:Ek; [lia|].
      exact Hh.
    + intros; lia.
Qed.

(* the root of a heap is a minimum *)
Lemma heap_root_min h : Forall P h -> heap h -> forall i, (i < length h)%nat -> le (get h 0) (get h i).
Proof.
  intros HP Hh i. induction i as [i IH] using lt_wf_ind. intros Hi.
  destruct (Nat.eq_dec i 0) as [->|Hne].
  - apply le_refl. apply Forall_nth_lt; auto.
  - assert (Hi0 : (0 < i)%nat) by lia. pose proof (parent_lt i Hi0) as Hpl.
    apply le_trans with (b := get h (parent i)); try (apply Forall_nth_lt; auto; lia).
    + apply IH; lia.
    + apply Hh; auto.
Qed.

Lemma heappop_min h x h' :
  heappop lt dflt h = Some (x, h') -> Forall P h -> heap h -> Forall (fun y => le x y) h'.
Proof.
  intros H HP Hh. pose proof (heappop_perm lt dflt _ _ _ H) as Perm.
  assert (Hx : x = get h 0).
  { apply heappop_cases in H. destruct H as [(-> & _)|(tl & last & -> & _)]; reflexivity. }
  assert (All : Forall (fun y => le x y) h).
  { apply Forall_forall. intros y Hy. destruct (In_nth _ _ dflt Hy) as (i & Hi & <-).
    rewrite Hx. apply heap_root_min; auto. }
  apply (Permutation_Forall Perm) in All. inversion All; auto.
Qed.

Lemma push_all_heap xs : forall h, Forall P xs -> Forall P h -> heap h -> heap (push_all lt dflt h xs).
Proof.
  induction xs as [|x xs IH]; intros h Hxs Hh Hheap; simpl; auto.
  inversion Hxs; subst. apply IH; auto.
  - eapply Permutation_Forall; [apply Permutation_sym, heappush_perm|]. constructor; auto.
  - apply heappush_heap; auto.
Qed.

Lemma heap_nil : heap [].
Proof. intros i _ Hi. simpl in Hi. inversion Hi. Qed.

Lemma drain_spec fuel : forall h,
  (length h <= fuel)%nat -> Forall P h -> heap h ->
  Permutation (drain lt dflt fuel h) h /\ StronglySorted R (drain lt dflt fuel h).
Proof.
  induction fuel; intros h Hf HP Hh; simpl.
  - destruct h; simpl in Hf; [|lia]. split; constructor.
  - destruct (heappop lt dflt h) as [[x h']|] eqn:E.
    + pose proof (heappop_perm lt dflt _ _ _ E) as Perm.
      pose proof (heappop_heap _ _ _ E HP Hh) as Hh'.
      pose proof (heappop_min _ _ _ E HP Hh) as Hmin.
      assert (HP' : Forall P h').
      { apply (Permutation_Forall Perm) in HP. inversion HP; auto. }
      apply Permutation_length in Perm. simpl in Perm.
      destruct (IHfuel h' ltac:(lia) HP' Hh') as (IP & IS).
      split.
      * eapply perm_trans; [apply perm_skip, IP|]. apply Permutation_sym, (heappop_perm lt dflt), E.
      * constructor; auto. eapply Permutation_Forall; [apply Permutation_sym, IP|]. exact Hmin.
    + apply heappop_none in E. subst. split; constructor.
Qed.

(* A.4: heapsort *)
Theorem heapsort_spec xs :
  Forall P xs ->
  let out := drain lt dflt (length xs) (push_all lt dflt [] xs) in
  Permutation out xs /\ StronglySorted R out.
Proof.
  intros HP out.
  pose proof (push_all_perm lt dflt xs []) as Perm. rewrite app_nil_r in Perm.
  destruct (drain_spec (length xs) (push_all lt dflt [] xs)) as (DP & DS).
  - apply Permutation_length in Perm. lia.
  - eapply Permutation_Forall; [apply Permutation_sym, Perm|]. exact HP.
  - apply push_all_heap; auto. apply heap_nil.
  - split; auto. eapply perm_trans; eauto.
Qed.

End HeapFacts.

(* ---- strict weak / strict total orders on the elements of a list ---- *)
Definition swo_on (lt : qitem -> qitem -> bool) (l : list qitem) : Prop :=
  (forall a b, In a l -> In b l -> lt a b = true -> lt b a = false) /\
  (forall a b c, In a l -> In b l -> In c l -> lt b a = false -> lt c b = false -> lt c a = false).

Definition sto_on (lt : qitem -> qitem -> bool) (l : list qitem) : Prop :=
  (forall a, In a l -> lt a a = false) /\
  (forall a b c, In a l -> In b l -> In c l -> lt a b = true -> lt b c = true -> lt a c = true) /\
  (forall a b, In a l -> In b l -> lt a b = false -> lt b a = false -> a = b).

Lemma sto_swo lt l : sto_on lt l -> swo_on lt l.
Proof.
  intros (Irr & Tr & Tot). split.
  - intros a b Ha Hb Hab. destruct (lt b a) eqn:E; auto.
    rewrite <- (Irr a Ha). symmetry. eapply Tr; eauto.
  - intros a b c Ha Hb Hc Hba Hcb. destruct (lt c a) eqn:E; auto.
    destruct (lt a b) eqn:Eab.
    + rewrite <- Hcb. symmetry. apply (Tr c a b); auto.
    + assert (a = b) by (apply Tot; auto). subst. congruence.
Qed.

Lemma swo_on_incl lt l l' : incl l' l -> swo_on lt l -> swo_on lt l'.
Proof. intros I (A & B). split; intros; eauto 10. Qed.

Definition heap_lt (lt : qitem -> qitem -> bool) (dflt : qitem) (h : list qitem) : Prop :=
  forall i, (0 < i)%nat -> (i < length h)%nat -> lt (nth i h dflt) (nth (parent i) h dflt) = false.

Section HeapLt.
Variable lt : qitem -> qitem -> bool.
Variable dflt : qitem.
Variable l : list qitem.
Hypothesis Hswo : swo_on lt l.
Let P := fun a => In a l.
Let R := fun a b => lt b a = false.

Lemma swo_refl a : P a -> R a a.
Proof. intros Ha. unfold R. destruct (lt a a) eqn:E; auto. pose proof (proj1 Hswo a a Ha Ha E). congruence. Qed.
Lemma swo_trans a b c : P a -> P b -> P c -> R a b -> R b c -> R a c.
Proof. intros. apply (proj2 Hswo) with (b := b); auto. Qed.
Lemma swo_lt_R a b : P a -> P b -> lt a b = true -> R a b.
Proof. intros. apply (proj1 Hswo); auto. Qed.
Lemma swo_nlt_R a b : P a -> P b -> lt a b = false -> R b a.
Proof. auto. Qed.

(* A.1 *)
Theorem heappush_heap_lt h x :
  incl (x :: h) l -> heap_lt lt dflt h -> heap_lt lt dflt (heappush lt dflt h x).
Proof.
  intros I Hh. apply (heappush_heap lt dflt P R swo_refl swo_trans swo_lt_R swo_nlt_R); auto.
  - apply Forall_forall. intros y Hy. apply I. right; auto.
  - apply I. left; auto.
Qed.

Theorem heappop_heap_lt h x h' :
  incl h l -> heap_lt lt dflt h -> heappop lt dflt h = Some (x, h') -> heap_lt lt dflt h'.
Proof.
  intros I Hh E. apply (heappop_heap lt dflt P R swo_refl swo_trans swo_lt_R swo_nlt_R h x h'); auto.
  apply Forall_forall. intros y Hy. apply I; auto.
Qed.

(* A.3 *)
Theorem heappop_min_lt h x h' :
  incl h l -> heap_lt lt dflt h -> heappop lt dflt h = Some (x, h') -> Forall (fun y => lt y x = false) h'.
Proof.
  intros I Hh E. apply (heappop_min lt dflt P R swo_refl swo_trans swo_lt_R swo_nlt_R h x h'); auto.
  apply Forall_forall. intros y Hy. apply I; auto.
Qed.
End HeapLt.

(* A.4 *)
Theorem heapsort_lt lt dflt xs :
  swo_on lt xs ->
  let out := drain lt dflt (length xs) (push_all lt dflt [] xs) in
  Permutation out xs /\ StronglySorted (fun a b => lt b a = false) out.
Proof.
  intros H.
  apply (heapsort_spec lt dflt (fun a => In a xs) (fun a b => lt b a = false)
           (swo_refl lt xs H) (swo_trans lt xs H) (swo_lt_R lt xs H) (swo_nlt_R lt xs)).
  apply Forall_forall; auto.
Qed.

Corollary heapsort_sto lt dflt xs :
  sto_on lt xs ->
  let out := drain lt dflt (length xs) (push_all lt dflt [] xs) in
  Permutation out xs /\ StronglySorted (fun a b => lt b a = false) out.
Proof. intros H. apply heapsort_lt, sto_swo, H. Qed.

(* ------------------------------------------------------------------ *)
(* B. the order of _message_queue.py                                   *)
(* ------------------------------------------------------------------ *)
Ltac n_cases :=
  repeat match goal with
  | |- context [N.eqb ?a ?b] => destruct (N.eqb_spec a b)
  | |- context [N.ltb ?a ?b] => destruct (N.ltb_spec a b)
  | H : context [N.eqb ?a ?b] |- _ => destruct (N.eqb_spec a b)
  | H : context [N.ltb ?a ?b] |- _ => destruct (N.ltb_spec a b)
  end.

Ltac q_unfold := unfold q_lt, q_cmp, q_pos, q_log in *.

Lemma q_lt_irrefl r x : q_lt r x x = false.
Proof. destruct x, r; q_unfold; n_cases; try lia; try congruence. Qed.

Lemma q_lt_trans r x y z : q_lt r x y = true -> q_lt r y z = true -> q_lt r x z = true.
Proof.
  destruct x, y, z, r; q_unfold; intros H1 H2; n_cases; try lia; try congruence.
Qed.

Lemma q_lt_asym r x y : q_lt r x y = true -> q_lt r y x = false.
Proof.
  intros H. destruct (q_lt r y x) eqn:E; auto.
  rewrite <- (q_lt_irrefl r x). symmetry. eapply q_lt_trans; eauto.
Qed.

(* two items neither of which is before the other *)
Definition q_tie (r : bool) (x y : qitem) : Prop :=
  q_log r x = q_log r y /\ fst (q_pos r x) = fst (q_pos r y) /\
  match snd (q_pos r x), snd (q_pos r y) with
  | Some a, Some b => a = b
  | _, _ => True
  end.

Lemma q_tie_iff r x y : (q_lt r x y = false /\ q_lt r y x = false) <-> q_tie r x y.
Proof.
  unfold q_tie. destruct x, y, r; q_unfold; cbn [fst snd]; split.
  all: try (intros (H1 & H2); n_cases; try discriminate; repeat split; lia).
  all: intros (H1 & H2 & H3); n_cases; try lia; auto.
Qed.

(* what a tie is, case by case *)
Lemma q_tie_chunks r a b :
  q_tie r (QChunk a) (QChunk b) <->
  (if r then ci_end a = ci_end b /\ ci_offset a + ci_length a = ci_offset b + ci_length b
   else ci_start a = ci_start b /\ ci_offset a = ci_offset b).
Proof. unfold q_tie; destruct r; cbn; tauto. Qed.

Lemma q_tie_msgs r t1 o1 i1 t2 o2 i2 :
  q_tie r (QMsg t1 o1 i1) (QMsg t2 o2 i2) <-> (t_log t1 = t_log t2 /\ o1 = o2 /\ i1 = i2).
Proof. unfold q_tie; destruct r; cbn; tauto. Qed.

Lemma q_tie_chunk_msg r c t o i :
  q_tie r (QChunk c) (QMsg t o i) <->
  (if r then ci_end c = t_log t /\ ci_offset c + ci_length c = o
   else ci_start c = t_log t /\ ci_offset c = o).
Proof. unfold q_tie; destruct r; cbn; tauto. Qed.

Lemma q_tie_sym r x y : q_tie r x y -> q_tie r y x.
Proof. intros H. apply q_tie_iff. apply q_tie_iff in H. tauto. Qed.

Definition q_distinct (r : bool) (l : list qitem) : Prop :=
  forall x y, In x l -> In y l -> q_tie r x y -> x = y.

(* B: q_lt is a strict total order on any list of items without ties *)
Theorem q_lt_sto r l : q_distinct r l -> sto_on (q_lt r) l.
Proof.
  intros D. repeat split.
  - intros; apply q_lt_irrefl.
  - intros; eapply q_lt_trans; eauto.
  - intros a b Ha Hb H1 H2. apply D; auto. apply q_tie_iff; auto.
Qed.

Corollary q_lt_swo r l : q_distinct r l -> swo_on (q_lt r) l.
Proof. intros; apply sto_swo, q_lt_sto; auto. Qed.

(* on message items q_lt is the lexicographic order on (log time, chunk offset, index) *)
Lemma q_lt_msgs r t1 o1 i1 t2 o2 i2 :
  q_lt r (QMsg t1 o1 i1) (QMsg t2 o2 i2) = true <->
  (if r
   then (t_log t2 < t_log t1 \/ (t_log t1 = t_log t2 /\ (o2 < o1 \/ (o1 = o2 /\ i2 < i1))))
   else (t_log t1 < t_log t2 \/ (t_log t1 = t_log t2 /\ (o1 < o2 \/ (o1 = o2 /\ i1 < i2)))))%N.
Proof. destruct r; q_unfold; split; intros H; n_cases; try lia; try congruence. Qed.

(* the coarser preorder: compare log times only.  q_lt decides it without any assumption. *)
Definition log_le (r : bool) (a b : qitem) : Prop :=
  if r then (q_log r b <= q_log r a)%N else (q_log r a <= q_log r b)%N.

Lemma log_le_refl r a : log_le r a a.
Proof. unfold log_le; destruct r; lia. Qed.
Lemma log_le_trans r a b c : log_le r a b -> log_le r b c -> log_le r a c.
Proof. unfold log_le; destruct r; lia. Qed.
Lemma q_lt_log_le r a b : q_lt r a b = true -> log_le r a b.
Proof. unfold log_le, q_lt, q_cmp. destruct r; intros H; n_cases; try lia; try congruence. Qed.
Lemma q_nlt_log_le r a b : q_lt r a b = false -> log_le r b a.
Proof. unfold log_le, q_lt, q_cmp. destruct r; intros H; n_cases; try lia; try congruence. Qed.

(* ------------------------------------------------------------------ *)
(* C. SeekingReader.iter_messages                                      *)
(* ------------------------------------------------------------------ *)
Definition is_msg (x : qitem) : Prop := match x with QMsg _ _ _ => True | QChunk _ => False end.
Definition q_idx (x : qitem) : N := match x with QMsg _ _ i => i | QChunk _ => 0%N end.
Definition q_triples (l : list qitem) : list triple :=
  flat_map (fun x => match x with QMsg t _ _ => [t] | QChunk _ => [] end) l.

Lemma q_triples_app a b : q_triples (a ++ b) = q_triples a ++ q_triples b.
Proof. apply flat_map_app. Qed.

(* the queue items one chunk contributes: the pure content of push_chunk_msgs *)
Fixpoint sel_items (su : summary) (flt : mfilter) (off : N) (recs : list prec) (i : N) : option (list qitem) :=
  match recs with
  | [] => Some []
  | PMessage m :: r =>
    match pn_get (m_chan m) (su_channels su) with
    | None => None
    | Some c =>
      if msg_selected flt c m then
        if (c_schema c =? 0)%N then option_map (cons (QMsg (None, c, m) off i)) (sel_items su flt off r (i + 1))
        else match pn_get (c_schema c) (su_schemas su) with
             | None => None
             | Some sc => option_map (cons (QMsg (Some sc, c, m) off i)) (sel_items su flt off r (i + 1))
             end
      else sel_items su flt off r (i + 1)
    end
  | _ :: r => sel_items su flt off r (i + 1)
  end.

Lemma push_chunk_msgs_sel su flt off recs : forall i q,
  push_chunk_msgs su flt off recs i q =
  match sel_items su flt off recs i with
  | Some its => POk (fold_left q_push its q)
  | None => PRaise PKey
  end.
Proof.
  induction recs as [|r recs IH]; intros i q; [reflexivity|].
  destruct r; cbn [push_chunk_msgs sel_items]; try apply IH.
  destruct (pn_get (m_chan m) (su_channels su)) as [c|]; [|reflexivity].
  destruct (msg_selected flt c m); [|apply IH].
  destruct (c_schema c =? 0)%N.
  - rewrite IH. destruct (sel_items su flt off recs (i + 1)); reflexivity.
  - destruct (pn_get (c_schema c) (su_schemas su)) as [sc|]; [|reflexivity].
    rewrite IH. destruct (sel_items su flt off recs (i + 1)); reflexivity.
Qed.

(* declaratively: the selected messages in record order, numbered by their record index *)
Definition msg_item (su : summary) (flt : mfilter) (off : N) (r : prec) (j : N) : list qitem :=
  match r with
  | PMessage m =>
    match pn_get (m_chan m) (su_channels su) with
    | Some c =>
      if msg_selected flt c m
      then [QMsg (if (c_schema c =? 0)%N then None else pn_get (c_schema c) (su_schemas su), c, m) off j]
      else []
    | None => []
    end
  | _ => []
  end.
Fixpoint sel_spec (su : summary) (flt : mfilter) (off : N) (recs : list prec) (i : N) : list qitem :=
  match recs with
  | [] => []
  | r :: rs => msg_item su flt off r i ++ sel_spec su flt off rs (i + 1)
  end.

Lemma sel_items_spec su flt off recs : forall i its,
  sel_items su flt off recs i = Some its -> its = sel_spec su flt off recs i.
Proof.
  induction recs as [|r recs IH]; intros i its H; [inversion H; reflexivity|].
  destruct r; cbn [sel_items sel_spec msg_item app] in *; try (apply IH; assumption).
  destruct (pn_get (m_chan m) (su_channels su)) as [c|]; [|discriminate].
  destruct (msg_selected flt c m); [|apply IH; assumption].
  destruct (c_schema c =? 0)%N.
  - destruct (sel_items su flt off recs (i + 1)) as [its'|] eqn:E; [|discriminate].
    inversion H; subst. simpl. f_equal. apply IH; auto.
  - destruct (pn_get (c_schema c) (su_schemas su)) as [sc|]; [|discriminate].
    destruct (sel_items su flt off recs (i + 1)) as [its'|] eqn:E; [|discriminate].
    inversion H; subst. simpl. f_equal. apply IH; auto.
Qed.

(* when every message's channel, and its schema if it has one, is in the summary, nothing raises *)
Definition rec_resolvable (su : summary) (r : prec) : Prop :=
  match r with
  | PMessage m => exists c, pn_get (m_chan m) (su_channels su) = Some c /\
                            (c_schema c = 0%N \/ exists sc, pn_get (c_schema c) (su_schemas su) = Some sc)
  | _ => True
  end.

Lemma sel_items_total su flt off recs : Forall (rec_resolvable su) recs ->
  forall i, sel_items su flt off recs i = Some (sel_spec su flt off recs i).
Proof.
  induction 1 as [|r recs Hr _ IH]; intros i; [reflexivity|].
  destruct r; cbn [sel_items sel_spec msg_item app]; try apply IH.
  destruct Hr as (c & Hc & Hs). rewrite Hc.
  destruct (msg_selected flt c m); [|apply IH].
  destruct (N.eqb_spec (c_schema c) 0).
  - rewrite IH. reflexivity.
  - destruct Hs as [|(sc & Hsc)]; [contradiction|]. rewrite Hsc, IH. reflexivity.
Qed.

Lemma sel_spec_shape su flt off recs : forall i x,
  In x (sel_spec su flt off recs i) -> exists t j, x = QMsg t off j /\ (i <= j)%N.
Proof.
  induction recs as [|r recs IH]; intros i x H; [destruct H|].
  cbn [sel_spec] in H. apply in_app_or in H. destruct H as [H|H].
  - destruct r; cbn [msg_item] in H; try destruct H.
    destruct (pn_get (m_chan m) (su_channels su)) as [c|]; [|destruct H].
    destruct (msg_selected flt c m); [|destruct H].
    destruct H as [<-|[]]. eexists _, i. split; [reflexivity|lia].
  - apply IH in H. destruct H as (t & j & -> & Hj). exists t, j. split; auto. lia.
Qed.

(* the index identifies the item *)
Lemma sel_spec_idx_inj su flt off recs : forall i x y,
  In x (sel_spec su flt off recs i) -> In y (sel_spec su flt off recs i) -> q_idx x = q_idx y -> x = y.
Proof.
  induction recs as [|r recs IH]; intros i x y Hx Hy E; [destruct Hx|].
  cbn [sel_spec] in Hx, Hy. apply in_app_or in Hx. apply in_app_or in Hy.
  assert (Hhead : forall z, In z (msg_item su flt off r i) -> q_idx z = i /\ forall z', In z' (msg_item su flt off r i) -> z' = z).
  { intros z Hz. destruct r; cbn [msg_item] in *; try destruct Hz.
    destruct (pn_get (m_chan m) (su_channels su)) as [c|]; [|destruct Hz].
    destruct (msg_selected flt c m); [|destruct Hz].
    destruct Hz as [<-|[]]. split; [reflexivity|]. intros z' [<-|[]]. reflexivity. }
  assert (Htail : forall z, In z (sel_spec su flt off recs (i + 1)) -> (i + 1 <= q_idx z)%N).
  { intros z Hz. apply sel_spec_shape in Hz. destruct Hz as (t & j & -> & Hj). exact Hj. }
  destruct Hx as [Hx|Hx], Hy as [Hy|Hy].
  - apply (proj2 (Hhead y Hy)); auto.
  - apply Hhead in Hx. apply Htail in Hy. lia.
  - apply Hhead in Hy. apply Htail in Hx. lia.
  - eapply IH; eauto.
Qed.

Lemma sel_spec_sorted su flt off recs : forall i,
  StronglySorted (fun a b => (q_idx a < q_idx b)%N) (sel_spec su flt off recs i).
Proof.
  induction recs as [|r recs IH]; intros i; [constructor|].
  cbn [sel_spec].
  assert (T : Forall (fun z => (i < q_idx z)%N) (sel_spec su flt off recs (i + 1))).
  { apply Forall_forall. intros z Hz. apply sel_spec_shape in Hz. destruct Hz as (t & j & -> & Hj). simpl. lia. }
  destruct r; cbn [msg_item app]; try apply IH.
  destruct (pn_get (m_chan m) (su_channels su)) as [c|]; [|apply IH].
  destruct (msg_selected flt c m); [|apply IH].
  simpl. constructor; [apply IH|exact T].
Qed.

(* reading one chunk through its index *)
Definition chunk_items (file : bytes) (validate : bool) (su : summary) (flt : mfilter) (c : chunkindex)
  : option (list qitem) :=
  match chunk_at file (ci_offset c) with
  | POk k => match breakup_chunk k validate with
             | POk recs => sel_items su flt (ci_offset c) recs 0
             | _ => None
             end
  | _ => None
  end.

Lemma chunk_items_shape file validate su flt c its x :
  chunk_items file validate su flt c = Some its -> In x its ->
  exists t j, x = QMsg t (ci_offset c) j.
Proof.
  unfold chunk_items. destruct (chunk_at file (ci_offset c)); try discriminate.
  destruct (breakup_chunk a validate); try discriminate.
  intros H Hx. apply sel_items_spec in H. subst. apply sel_spec_shape in Hx.
  destruct Hx as (t & j & -> & _). eauto.
Qed.

Lemma chunk_items_idx_inj file validate su flt c its x y :
  chunk_items file validate su flt c = Some its -> In x its -> In y its -> q_idx x = q_idx y -> x = y.
Proof.
  unfold chunk_items. destruct (chunk_at file (ci_offset c)); try discriminate.
  destruct (breakup_chunk a validate); try discriminate.
  intros H. apply sel_items_spec in H. subst. apply sel_spec_idx_inj.
Qed.

Lemma chunk_items_sorted file validate su flt c its :
  chunk_items file validate su flt c = Some its -> StronglySorted (fun a b => (q_idx a < q_idx b)%N) its.
Proof.
  unfold chunk_items. destruct (chunk_at file (ci_offset c)); try discriminate.
  destruct (breakup_chunk a validate); try discriminate.
  intros H. apply sel_items_spec in H. subst. apply sel_spec_sorted.
Qed.

Lemma chunk_items_msgs file validate su flt c its :
  chunk_items file validate su flt c = Some its -> Forall is_msg its.
Proof.
  intros H. apply Forall_forall. intros x Hx.
  destruct (chunk_items_shape _ _ _ _ _ _ _ H Hx) as (t & j & ->). exact I.
Qed.

(* one turn of the loop *)
Lemma sk_loop_msg f file validate su flt q q' acc t o i :
  q_pop q = Some (QMsg t o i, q') ->
  sk_loop (S f) file validate su flt q acc = sk_loop f file validate su flt q' (t :: acc).
Proof. intros H. cbn [sk_loop]. rewrite H. reflexivity. Qed.

Lemma sk_loop_chunk f file validate su flt q q' acc c its :
  q_pop q = Some (QChunk c, q') -> chunk_items file validate su flt c = Some its ->
  sk_loop (S f) file validate su flt q acc = sk_loop f file validate su flt (fold_left q_push its q') acc.
Proof.
  intros H Hc. cbn [sk_loop]. rewrite H. unfold chunk_items in Hc.
  destruct (chunk_at file (ci_offset c)) as [k| |]; try discriminate. cbn [pbind].
  destruct (breakup_chunk k validate) as [recs| |]; try discriminate. cbn [pbind].
  rewrite push_chunk_msgs_sel, Hc. reflexivity.
Qed.

Lemma sk_loop_none f file validate su flt q acc :
  q_pop q = None -> sk_loop (S f) file validate su flt q acc = (rev acc, EStop).
Proof. intros H. cbn [sk_loop]. rewrite H. reflexivity. Qed.

Lemma fold_push_heap r its : forall h,
  fold_left q_push its (QHeap r h) = QHeap r (push_all (q_lt r) q_dflt h its).
Proof. induction its as [|x its IH]; intros h; simpl; auto. Qed.

Lemma fold_push_fifo its : forall l, fold_left q_push its (QFifo l) = QFifo (l ++ its).
Proof.
  induction its as [|x its IH]; intros l; simpl; [rewrite app_nil_r; auto|].
  rewrite IH, <- app_assoc. reflexivity.
Qed.

(* ---- the generic loop theorem ---- *)
Section Loop.
Variable file : bytes.
Variable validate : bool.
Variable su : summary.
Variable flt : mfilter.
Variable rev_ : bool.

Notation items c := (chunk_items file validate su flt c).

(* what an item stands for: a message for itself, a chunk for its selected messages *)
Definition pend1 (x : qitem) : list qitem :=
  match x with
  | QMsg _ _ _ => [x]
  | QChunk c => match items c with Some its => its | None => [] end
  end.
Definition pending (l : list qitem) : list qitem := flat_map pend1 l.
(* the number of loop turns an item costs *)
Definition expand1 (x : qitem) : list qitem :=
  match x with
  | QMsg _ _ _ => [x]
  | QChunk c => x :: match items c with Some its => its | None => [] end
  end.
Definition turns (l : list qitem) : nat := length (flat_map expand1 l).

Lemma pending_msgs its : Forall is_msg its -> pending its = its.
Proof.
  induction 1 as [|x its Hx _ IH]; [reflexivity|].
  unfold pending in *. simpl. rewrite IH. destruct x; [destruct Hx|reflexivity].
Qed.

Lemma turns_msgs its : Forall is_msg its -> turns its = length its.
Proof.
  induction 1 as [|x its Hx _ IH]; [reflexivity|].
  unfold turns in *. simpl. rewrite app_length, IH. destruct x; [destruct Hx|reflexivity].
Qed.

Lemma turns_app a b : turns (a ++ b) = (turns a + turns b)%nat.
Proof. unfold turns. rewrite flat_map_app, app_length. reflexivity. Qed.

Lemma pending_app a b : pending (a ++ b) = pending a ++ pending b.
Proof. apply flat_map_app. Qed.

Lemma turns_cons_msg t o i L : turns (QMsg t o i :: L) = S (turns L).
Proof. reflexivity. Qed.

Lemma turns_cons_chunk c its L : items c = Some its -> turns (QChunk c :: L) = S (length its + turns L).
Proof. intros H. unfold turns. cbn [flat_map expand1]. rewrite H. simpl. rewrite app_length. reflexivity. Qed.

Lemma pending_cons_chunk c its L : items c = Some its -> pending (QChunk c :: L) = its ++ pending L.
Proof. intros H. unfold pending. cbn [flat_map pend1]. rewrite H. reflexivity. Qed.

Lemma turns_perm a b : Permutation a b -> turns a = turns b.
Proof. intros H. unfold turns. apply Permutation_length, Permutation_flat_map, H. Qed.

Lemma pending_perm a b : Permutation a b -> Permutation (pending a) (pending b).
Proof. intros H. apply Permutation_flat_map, H. Qed.

Variable R : qitem -> qitem -> Prop.
(* J: what is known about the contents of the queue *)
Variable J : list qitem -> Prop.
Hypothesis J_perm : forall L L', Permutation L L' -> J L -> J L'.
Hypothesis J_pop : forall x L, J (x :: L) -> J L.
Hypothesis J_chunk : forall c L, J (QChunk c :: L) -> exists its, items c = Some its /\ J (its ++ L).
Hypothesis J_refl : forall L a, J L -> In a L -> R a a.
Hypothesis J_trans : forall L a b c, J L -> In a L -> In b L -> In c L -> R a b -> R b c -> R a c.
Hypothesis J_lt : forall L a b, J L -> In a L -> In b L -> q_lt rev_ a b = true -> R a b.
Hypothesis J_nlt : forall L a b, J L -> In a L -> In b L -> q_lt rev_ a b = false -> R b a.
(* popping a message before a chunk is popped is safe for the messages of that chunk *)
Hypothesis J_safe : forall t o i L c m,
  J (QMsg t o i :: L) -> In (QChunk c) L -> In m (pend1 (QChunk c)) ->
  R (QMsg t o i) (QChunk c) -> R (QMsg t o i) m.

Notation hp := (heap q_dflt R).

Lemma all_in (L : list qitem) : Forall (fun a => In a L) L.
Proof. apply Forall_forall; auto. Qed.

Lemma loop_spec fuel : forall h acc,
  hp h -> J h -> (turns h < fuel)%nat ->
  exists out,
    sk_loop fuel file validate su flt (QHeap rev_ h) acc = (rev acc ++ q_triples out, EStop) /\
    Permutation out (pending h) /\ StronglySorted R out.
Proof.
  induction fuel; intros h acc Hh HJ Hf; [lia|].
  destruct (heappop (q_lt rev_) q_dflt h) as [[x h']|] eqn:E.
  - pose proof (heappop_perm _ _ _ _ _ E) as Perm.
    assert (Hh' : hp h').
    { apply (heappop_heap (q_lt rev_) q_dflt (fun a => In a h) R
               (fun a => J_refl h a HJ) (fun a b c => J_trans h a b c HJ)
               (fun a b => J_lt h a b HJ) (fun a b => J_nlt h a b HJ) h x h' E (all_in h) Hh). }
    assert (Hmin : Forall (fun y => R x y) h').
    { apply (heappop_min (q_lt rev_) q_dflt (fun a => In a h) R
               (fun a => J_refl h a HJ) (fun a b c => J_trans h a b c HJ)
               (fun a b => J_lt h a b HJ) (fun a b => J_nlt h a b HJ) h x h' E (all_in h) Hh). }
    assert (HJx : J (x :: h')) by (eapply J_perm; eauto).
    pose proof (turns_perm _ _ Perm) as Ht.
    destruct x as [c|t o i].
    + (* a chunk index: its messages go on the queue *)
      destruct (J_chunk c h' HJx) as (its & Hits & HJ2).
      pose proof (chunk_items_msgs _ _ _ _ _ _ Hits) as Hmsgs.
      rewrite (sk_loop_chunk fuel file validate su flt (QHeap rev_ h) (QHeap rev_ h') acc c its);
        [|cbn [q_pop]; rewrite E; reflexivity|exact Hits].
      rewrite fold_push_heap.
      set (h2 := push_all (q_lt rev_) q_dflt h' its).
      assert (Perm2 : Permutation h2 (its ++ h')) by apply push_all_perm.
      assert (Hh2 : hp h2).
      { apply (push_all_heap (q_lt rev_) q_dflt (fun a => In a (its ++ h')) R
                 (fun a => J_refl _ a HJ2) (fun a b c => J_trans _ a b c HJ2)
                 (fun a b => J_lt _ a b HJ2) (fun a b => J_nlt _ a b HJ2)); auto.
        - apply Forall_forall; intros; apply in_or_app; auto.
        - apply Forall_forall; intros; apply in_or_app; auto. }
      assert (HJh2 : J h2) by (eapply J_perm; [apply Permutation_sym, Perm2|exact HJ2]).
      destruct (IHfuel h2 acc Hh2 HJh2) as (out & Hout & Pout & Sout).
      { rewrite (turns_perm _ _ Perm2), turns_app, turns_msgs by auto.
        rewrite (turns_cons_chunk c its h' Hits) in Ht. lia. }
      exists out. split; [exact Hout|]. split; [|exact Sout].
      eapply perm_trans; [exact Pout|].
      eapply perm_trans; [apply pending_perm, Perm2|].
      rewrite pending_app, pending_msgs by auto.
      eapply perm_trans; [|apply Permutation_sym, pending_perm, Perm].
      rewrite (pending_cons_chunk c its h' Hits). apply Permutation_refl.
    + (* a message: it is yielded *)
      rewrite (sk_loop_msg fuel file validate su flt (QHeap rev_ h) (QHeap rev_ h') acc t o i);
        [|cbn [q_pop]; rewrite E; reflexivity].
      assert (HJh' : J h') by (eapply J_pop; eauto).
      destruct (IHfuel h' (t :: acc) Hh' HJh') as (out & Hout & Pout & Sout).
      { rewrite turns_cons_msg in Ht. lia. }
      exists (QMsg t o i :: out). split; [|split].
      * rewrite Hout. simpl. rewrite <- app_assoc. reflexivity.
      * eapply perm_trans; [apply perm_skip, Pout|].
        eapply perm_trans; [|apply Permutation_sym, pending_perm, Perm]. apply Permutation_refl.
      * constructor; auto.
        eapply Permutation_Forall; [apply Permutation_sym, Pout|].
        apply Forall_forall. intros y Hy. unfold pending in Hy. apply in_flat_map in Hy.
        destruct Hy as (z & Hz & Hy).
        rewrite Forall_forall in Hmin. specialize (Hmin z Hz).
        destruct z as [c|t' o' i'].
        -- eapply J_safe; eauto.
        -- destruct Hy as [<-|[]]. exact Hmin.
  - apply heappop_none in E. subst h.
    rewrite sk_loop_none by (cbn [q_pop]; reflexivity).
    exists []. rewrite app_nil_r. repeat split; constructor.
Qed.

(* from the queue SeekingReader.iter_messages builds *)
Theorem sk_heap_spec cis fuel :
  J (map QChunk cis) -> (turns (map QChunk cis) < fuel)%nat ->
  exists out,
    sk_loop fuel file validate su flt (fold_left q_push (map QChunk cis) (QHeap rev_ [])) [] = (q_triples out, EStop) /\
    Permutation out (pending (map QChunk cis)) /\ StronglySorted R out.
Proof.
  intros HJ Hf. rewrite fold_push_heap.
  set (h := push_all (q_lt rev_) q_dflt [] (map QChunk cis)).
  assert (Perm : Permutation h (map QChunk cis)).
  { pose proof (push_all_perm (q_lt rev_) q_dflt (map QChunk cis) []) as H. rewrite app_nil_r in H. exact H. }
  assert (Hh : hp h).
  { apply (push_all_heap (q_lt rev_) q_dflt (fun a => In a (map QChunk cis)) R
             (fun a => J_refl _ a HJ) (fun a b c => J_trans _ a b c HJ)
             (fun a b => J_lt _ a b HJ) (fun a b => J_nlt _ a b HJ)); auto.
    - apply all_in.
    - apply (heap_nil q_dflt R). }
  destruct (loop_spec fuel h [] Hh) as (out & Hout & Pout & Sout).
  - eapply J_perm; [apply Permutation_sym, Perm|exact HJ].
  - rewrite (turns_perm _ _ Perm). exact Hf.
  - exists out. split; [exact Hout|]. split; [|exact Sout].
    eapply perm_trans; [exact Pout|]. apply pending_perm, Perm.
Qed.
End Loop.

(* ---- instances ---- *)
Definition chunks_of (l : list qitem) : list chunkindex :=
  flat_map (fun x => match x with QChunk c => [c] | QMsg _ _ _ => [] end) l.

Lemma chunks_of_msgs its : Forall is_msg its -> chunks_of its = [].
Proof. induction 1 as [|x its Hx _ IH]; [reflexivity|]. destruct x; [destruct Hx|exact IH]. Qed.

Lemma chunks_of_map cis : chunks_of (map QChunk cis) = cis.
Proof. induction cis as [|c cis IH]; simpl; congruence. Qed.

Lemma in_chunks_of c l : In (QChunk c) l <-> In c (chunks_of l).
Proof.
  unfold chunks_of. rewrite in_flat_map. split.
  - intros H. exists (QChunk c). split; simpl; auto.
  - intros (x & Hx & Hc). destruct x as [c0|]; [destruct Hc as [<-|[]]; exact Hx|destruct Hc].
Qed.

Lemma in_msgs_not_chunk c its : Forall is_msg its -> ~ In (QChunk c) its.
Proof. intros H Hc. rewrite Forall_forall in H. exact (H _ Hc). Qed.

Lemma NoDup_map_inj {A B} (f : A -> B) l x y :
  NoDup (map f l) -> In x l -> In y l -> f x = f y -> x = y.
Proof.
  induction l as [|a l IH]; intros ND Hx Hy E; [destruct Hx|].
  simpl in ND. apply NoDup_cons_iff in ND. destruct ND as (Na & ND).
  destruct Hx as [->|Hx], Hy as [->|Hy]; auto.
  - exfalso. apply Na. rewrite E. apply in_map, Hy.
  - exfalso. apply Na. rewrite <- E. apply in_map, Hx.
Qed.

Definition t_le (r : bool) (a b : triple) : Prop := if r then (t_log b <= t_log a)%N else (t_log a <= t_log b)%N.

Lemma sorted_triples r (R : qitem -> qitem -> Prop) out :
  (forall a b, R a b -> log_le r a b) ->
  StronglySorted R out -> StronglySorted (t_le r) (q_triples out).
Proof.
  intros HR. induction 1 as [|x l Hs IH Hx]; [constructor|].
  destruct x as [c|t o i]; [exact IH|].
  change (q_triples (QMsg t o i :: l)) with (t :: q_triples l). constructor; [exact IH|].
  apply Forall_forall. intros t' Ht'. unfold q_triples in Ht'. apply in_flat_map in Ht'.
  destruct Ht' as (y & Hy & Ht'). rewrite Forall_forall in Hx. specialize (Hx y Hy). apply HR in Hx.
  destruct y as [c|t2 o2 i2]; [destruct Ht'|]. destruct Ht' as [<-|[]].
  unfold log_le, t_le in *. destruct r; exact Hx.
Qed.

Section Instances.
Variable file : bytes.
Variable validate : bool.
Variable su : summary.
Variable flt : mfilter.
Variable rev_ : bool.

Notation items c := (chunk_items file validate su flt c).
Notation pend1' := (pend1 file validate su flt).

(* the chunk reads without error and its index time range is sound for the direction read:
   forward  message_start_time <= log time of every selected message,
   reverse  log time of every selected message <= message_end_time *)
Definition chunk_sound (c : chunkindex) : Prop :=
  exists its, items c = Some its /\ Forall (fun m => log_le rev_ (QChunk c) m) its.

(* every selected message of every chunk, chunk by chunk in the order of the list *)
Definition all_items (cis : list chunkindex) : list qitem :=
  flat_map (fun c => match items c with Some its => its | None => [] end) cis.

Lemma pending_chunks cis : pending file validate su flt (map QChunk cis) = all_items cis.
Proof. unfold pending, all_items. rewrite flat_map_concat_map, map_map, <- flat_map_concat_map. reflexivity. Qed.

Definition total_turns (cis : list chunkindex) : nat := (length cis + length (all_items cis))%nat.

Lemma turns_chunks cis : turns file validate su flt (map QChunk cis) = total_turns cis.
Proof.
  unfold total_turns, all_items. induction cis as [|c cis IH]; [reflexivity|].
  change (map QChunk (c :: cis)) with (QChunk c :: map QChunk cis).
  unfold turns in *. cbn [flat_map expand1]. simpl. rewrite !app_length, IH. lia.
Qed.

(* -- 1: log time order, no distinctness assumption -- *)
Definition J1 (L : list qitem) : Prop := forall c, In (QChunk c) L -> chunk_sound c.

Theorem sk_log_sorted cis fuel :
  (forall c, In c cis -> chunk_sound c) ->
  (total_turns cis < fuel)%nat ->
  exists res,
    sk_loop fuel file validate su flt (fold_left q_push (map QChunk cis) (QHeap rev_ [])) [] = (res, EStop) /\
    Permutation res (q_triples (all_items cis)) /\
    StronglySorted (t_le rev_) res.
Proof.
  intros Hs Hf.
  destruct (sk_heap_spec file validate su flt rev_ (log_le rev_) J1) with (cis := cis) (fuel := fuel)
    as (out & Hout & Pout & Sout).
  - intros L L' HP HJ c Hc. apply HJ. eapply Permutation_in; [apply Permutation_sym, HP|exact Hc].
  - intros x L HJ c Hc. apply HJ. right; exact Hc.
  - intros c L HJ. destruct (HJ c (or_introl eq_refl)) as (its & Hits & Hsound).
    exists its. split; [exact Hits|]. intros c' Hc'. apply in_app_or in Hc'. destruct Hc' as [Hc'|Hc'].
    + exfalso. eapply in_msgs_not_chunk; [eapply chunk_items_msgs; eauto|exact Hc'].
    + apply HJ. right; exact Hc'.
  - intros; apply log_le_refl.
  - intros; eapply log_le_trans; eauto.
  - intros; apply q_lt_log_le; auto.
  - intros; apply q_nlt_log_le; auto.
  - intros t o i L c m HJ Hc Hm Hx.
    destruct (HJ c (or_intror Hc)) as (its & Hits & Hsound).
    cbn [pend1] in Hm. rewrite Hits in Hm. rewrite Forall_forall in Hsound.
    eapply log_le_trans; [exact Hx|]. apply Hsound, Hm.
  - intros c Hc. apply in_map_iff in Hc. destruct Hc as (c' & E & Hc'). inversion E; subst. auto.
  - rewrite turns_chunks. exact Hf.
  - exists (q_triples out). split; [exact Hout|]. split.
    + rewrite <- pending_chunks. apply Permutation_flat_map, Pout.
    + eapply sorted_triples; [|exact Sout]. auto.
Qed.

(* -- 2: the full order, ties included -- *)
Variable cis : list chunkindex.
Hypothesis G1 : NoDup (map ci_offset cis).
Hypothesis G2 : forall c, In c cis -> chunk_sound c.
Hypothesis G3 : forall c c', In c cis -> In c' cis -> q_tie rev_ (QChunk c) (QChunk c') -> c = c'.
Hypothesis G4 : forall c c' m, In c cis -> In c' cis -> c <> c' -> In m (pend1' (QChunk c')) ->
                ~ q_tie rev_ (QChunk c) m.

Definition J2 (L : list qitem) : Prop :=
  (forall c, In (QChunk c) L -> In c cis) /\
  NoDup (map ci_offset (chunks_of L)) /\
  (forall t o i, In (QMsg t o i) L ->
     exists c', In c' cis /\ o = ci_offset c' /\ In (QMsg t o i) (pend1' (QChunk c')) /\
                forall c, In (QChunk c) L -> ci_offset c <> o).

Lemma J2_perm L L' : Permutation L L' -> J2 L -> J2 L'.
Proof.
  intros HP (A & B & C). pose proof (Permutation_sym HP) as HP'. repeat split.
  - intros c Hc. apply A. eapply Permutation_in; eauto.
  - eapply Permutation_NoDup; [|exact B]. apply Permutation_map. unfold chunks_of. apply Permutation_flat_map, HP.
  - intros t o i Hm. destruct (C t o i) as (c' & H1 & H2 & H3 & H4); [eapply Permutation_in; eauto|].
    exists c'. repeat split; auto. intros c Hc. apply H4. eapply Permutation_in; eauto.
Qed.

Lemma J2_pop x L : J2 (x :: L) -> J2 L.
Proof.
  intros (A & B & C). repeat split.
  - intros c Hc. apply A. right; auto.
  - destruct x; simpl in B; auto. apply NoDup_cons_iff in B. apply B.
  - intros t o i Hm. destruct (C t o i) as (c' & H1 & H2 & H3 & H4); [right; auto|].
    exists c'. repeat split; auto. intros c Hc. apply H4. right; auto.
Qed.

Lemma J2_chunk c L : J2 (QChunk c :: L) -> exists its, items c = Some its /\ J2 (its ++ L).
Proof.
  intros (A & B & C).
  assert (Hc : In c cis) by (apply A; left; reflexivity).
  destruct (G2 c Hc) as (its & Hits & Hsound). exists its. split; [exact Hits|].
  pose proof (chunk_items_msgs _ _ _ _ _ _ Hits) as Hmsgs.
  simpl in B. apply NoDup_cons_iff in B. destruct B as (Bc & B).
  assert (Hch : forall c1, In (QChunk c1) (its ++ L) -> In (QChunk c1) L).
  { intros c1 H1. apply in_app_or in H1. destruct H1 as [H1|H1]; auto.
    exfalso. eapply in_msgs_not_chunk; eauto. }
  repeat split.
  - intros c1 H1. apply A. right. auto.
  - unfold chunks_of. rewrite flat_map_app. fold (chunks_of its). fold (chunks_of L).
    rewrite chunks_of_msgs by auto. exact B.
  - intros t o i Hm. apply in_app_or in Hm. destruct Hm as [Hm|Hm].
    + destruct (chunk_items_shape _ _ _ _ _ _ _ Hits Hm) as (t' & j & E). inversion E; subst.
      exists c. repeat split; auto.
      * cbn [pend1]. rewrite Hits. exact Hm.
      * intros c1 H1 E1. apply Hch in H1. apply Bc. rewrite <- E1.
        apply in_map. apply in_chunks_of. exact H1.
    + destruct (C t o i) as (c' & H1 & H2 & H3 & H4); [right; auto|].
      exists c'. repeat split; auto. intros c1 Hc1. apply H4. right. auto.
Qed.

Lemma J2_distinct L : J2 L -> q_distinct rev_ L.
Proof.
  intros (A & B & C).
  assert (CM : forall c t o i, In (QChunk c) L -> In (QMsg t o i) L -> ~ q_tie rev_ (QChunk c) (QMsg t o i)).
  { intros c t o i Hc Hm. destruct (C t o i Hm) as (c' & H1 & H2 & H3 & H4).
    apply G4 with (c' := c'); auto. intros ->. exact (H4 c' Hc (eq_sym H2)). }
  intros x y Hx Hy T. destruct x as [c|t o i], y as [c2|t2 o2 i2].
  - f_equal. apply G3; auto.
  - exfalso. eapply CM; eauto.
  - exfalso. apply q_tie_sym in T. eapply CM; eauto.
  - destruct (C t o i Hx) as (c' & H1 & H2 & H3 & _).
    destruct (C t2 o2 i2 Hy) as (c2' & K1 & K2 & K3 & _).
    apply q_tie_msgs in T. destruct T as (_ & To & Ti).
    assert (c' = c2') by (apply (NoDup_map_inj ci_offset cis c' c2' G1 H1 K1); congruence). subst c2'.
    destruct (G2 c' H1) as (its & Hits & _). cbn [pend1] in H3, K3. rewrite Hits in H3, K3.
    eapply chunk_items_idx_inj; eauto.
Qed.

Lemma q_safe c t o i tm j :
  log_le rev_ (QChunk c) (QMsg tm (ci_offset c) j) -> ci_offset c <> o ->
  q_lt rev_ (QChunk c) (QMsg t o i) = false ->
  q_lt rev_ (QMsg tm (ci_offset c) j) (QMsg t o i) = false.
Proof.
  unfold log_le. destruct rev_; unfold q_lt, q_cmp, q_pos, q_log; intros H1 H2 H3; n_cases; try lia; try congruence.
Qed.

Theorem sk_full_order fuel :
  (total_turns cis < fuel)%nat ->
  exists out,
    sk_loop fuel file validate su flt (fold_left q_push (map QChunk cis) (QHeap rev_ [])) [] = (q_triples out, EStop) /\
    Permutation out (all_items cis) /\
    StronglySorted (fun a b => q_lt rev_ b a = false) out.
Proof.
  intros Hf.
  destruct (sk_heap_spec file validate su flt rev_ (fun a b => q_lt rev_ b a = false) J2)
    with (cis := cis) (fuel := fuel) as (out & Hout & Pout & Sout).
  - exact J2_perm.
  - exact J2_pop.
  - exact J2_chunk.
  - intros L a HJ Ha. apply q_lt_irrefl.
  - intros L a b c HJ Ha Hb Hc. apply (swo_trans (q_lt rev_) L (q_lt_swo rev_ L (J2_distinct L HJ))); auto.
  - intros L a b HJ Ha Hb. apply q_lt_asym.
  - intros; auto.
  - intros t o i L c m HJ Hc Hm Hx.
    destruct HJ as (A & B & C).
    assert (Hcc : In c cis) by (apply A; right; auto).
    destruct (G2 c Hcc) as (its & Hits & Hsound).
    cbn [pend1] in Hm. rewrite Hits in Hm.
    destruct (chunk_items_shape _ _ _ _ _ _ _ Hits Hm) as (tm & j & ->).
    rewrite Forall_forall in Hsound. specialize (Hsound _ Hm).
    destruct (C t o i (or_introl eq_refl)) as (_ & _ & _ & _ & H4).
    apply q_safe; auto. apply H4. right; auto.
  - repeat split.
    + intros c Hc. apply in_map_iff in Hc. destruct Hc as (c' & E & Hc'). inversion E; subst. auto.
    + rewrite chunks_of_map. exact G1.
    + intros t o i Hm. apply in_map_iff in Hm. destruct Hm as (c' & E & _). discriminate.
  - rewrite turns_chunks. exact Hf.
  - exists out. rewrite <- pending_chunks. auto.
Qed.
End Instances.

(* ---- the statements for the two directions ---- *)
Lemma all_items_msgs file validate su flt cis : Forall is_msg (all_items file validate su flt cis).
Proof.
  apply Forall_forall. intros x Hx. unfold all_items in Hx. apply in_flat_map in Hx.
  destruct Hx as (c & _ & Hx). destruct (chunk_items file validate su flt c) as [its|] eqn:E; [|destruct Hx].
  destruct (chunk_items_shape _ _ _ _ _ _ _ E Hx) as (t & j & ->). exact I.
Qed.

(* the meaning of "not after" on messages: lexicographic on (log time, chunk offset, index) *)
Definition msg_key_le (r : bool) (a b : qitem) : Prop :=
  match a, b with
  | QMsg t1 o1 i1, QMsg t2 o2 i2 =>
    if r then (t_log t2 < t_log t1 \/ (t_log t1 = t_log t2 /\ (o2 < o1 \/ (o1 = o2 /\ i2 <= i1))))%N
    else (t_log t1 < t_log t2 \/ (t_log t1 = t_log t2 /\ (o1 < o2 \/ (o1 = o2 /\ i1 <= i2))))%N
  | _, _ => True
  end.

Lemma q_le_msg_key r a b : q_lt r b a = false -> msg_key_le r a b.
Proof.
  destruct a as [|t1 o1 i1], b as [|t2 o2 i2]; try exact (fun _ => I).
  unfold msg_key_le. destruct r; q_unfold; intros H; n_cases; try lia; try congruence.
Qed.

Lemma StronglySorted_impl {A} (R1 R2 : A -> A -> Prop) l :
  (forall a b, R1 a b -> R2 a b) -> StronglySorted R1 l -> StronglySorted R2 l.
Proof.
  intros H. induction 1; constructor; auto.
  eapply Forall_impl; [|eassumption]. intros; apply H; auto.
Qed.

(* ascending: distinct chunk offsets and sound start times are all that is needed *)
Theorem sk_ascending file validate su flt cis fuel :
  NoDup (map ci_offset cis) ->
  (forall c, In c cis -> chunk_sound file validate su flt false c) ->
  (total_turns file validate su flt cis < fuel)%nat ->
  exists out,
    sk_loop fuel file validate su flt (fold_left q_push (map QChunk cis) (QHeap false [])) [] = (q_triples out, EStop) /\
    Permutation out (all_items file validate su flt cis) /\
    StronglySorted (fun a b => q_lt false b a = false) out.
Proof.
  intros G1 G2 Hf. apply sk_full_order; auto.
  - intros c c' Hc Hc' T. apply q_tie_chunks in T. destruct T as (_ & T).
    eapply NoDup_map_inj; eauto.
  - intros c c' m Hc Hc' Hne Hm T. cbn [pend1] in Hm.
    destruct (chunk_items file validate su flt c') as [its|] eqn:E; [|destruct Hm].
    destruct (chunk_items_shape _ _ _ _ _ _ _ E Hm) as (t & j & ->).
    apply q_tie_chunk_msg in T. destruct T as (_ & T). apply Hne.
    eapply NoDup_map_inj; eauto.
Qed.

(* descending: the queue compares a chunk index by the END of its record (offset + length) but a
   message by the START of its chunk, so two more conditions are needed for the tie order *)
Definition rev_chunks_distinct (cis : list chunkindex) : Prop :=
  forall c c', In c cis -> In c' cis -> ci_end c = ci_end c' ->
               ci_offset c + ci_length c = ci_offset c' + ci_length c' -> c = c'.
Definition rev_no_adjacent_tie file validate su flt (cis : list chunkindex) : Prop :=
  forall c c' t j, In c cis -> In c' cis -> c <> c' ->
    In (QMsg t (ci_offset c') j) (all_items file validate su flt [c']) ->
    ~ (ci_end c = t_log t /\ ci_offset c + ci_length c = ci_offset c').

Theorem sk_descending file validate su flt cis fuel :
  NoDup (map ci_offset cis) ->
  (forall c, In c cis -> chunk_sound file validate su flt true c) ->
  rev_chunks_distinct cis ->
  rev_no_adjacent_tie file validate su flt cis ->
  (total_turns file validate su flt cis < fuel)%nat ->
  exists out,
    sk_loop fuel file validate su flt (fold_left q_push (map QChunk cis) (QHeap true [])) [] = (q_triples out, EStop) /\
    Permutation out (all_items file validate su flt cis) /\
    StronglySorted (fun a b => q_lt true b a = false) out.
Proof.
  intros G1 G2 G3 G4 Hf. apply sk_full_order; auto.
  - intros c c' Hc Hc' T. apply q_tie_chunks in T. destruct T as (T1 & T2). apply G3; auto.
  - intros c c' m Hc Hc' Hne Hm T. cbn [pend1] in Hm.
    destruct (chunk_items file validate su flt c') as [its|] eqn:E; [|destruct Hm].
    destruct (chunk_items_shape _ _ _ _ _ _ _ E Hm) as (t & j & ->).
    apply q_tie_chunk_msg in T. apply (G4 c c' t j); auto.
    unfold all_items. cbn [flat_map]. rewrite E, app_nil_r. exact Hm.
Qed.

(* ---- file order: the FIFO queue ---- *)
Lemma fifo_loop_msgs file validate su flt msgs : forall fuel acc,
  Forall is_msg msgs -> (length msgs < fuel)%nat ->
  sk_loop fuel file validate su flt (QFifo msgs) acc = (rev acc ++ q_triples msgs, EStop).
Proof.
  induction msgs as [|x msgs IH]; intros fuel acc Hm Hf; (destruct fuel; [simpl in Hf; lia|]).
  - rewrite sk_loop_none by reflexivity. rewrite app_nil_r. reflexivity.
  - inversion Hm as [|? ? Hx Hm']; subst. destruct x as [c|t o i]; [destruct Hx|].
    rewrite (sk_loop_msg fuel file validate su flt (QFifo (QMsg t o i :: msgs)) (QFifo msgs) acc t o i) by reflexivity.
    rewrite IH by (auto; simpl in Hf; lia). simpl. rewrite <- app_assoc. reflexivity.
Qed.

Lemma fifo_loop file validate su flt cs : forall msgs fuel acc,
  Forall is_msg msgs ->
  (forall c, In c cs -> exists its, chunk_items file validate su flt c = Some its) ->
  (length cs + length msgs + length (all_items file validate su flt cs) < fuel)%nat ->
  sk_loop fuel file validate su flt (QFifo (map QChunk cs ++ msgs)) acc
  = (rev acc ++ q_triples (msgs ++ all_items file validate su flt cs), EStop).
Proof.
  induction cs as [|c cs IH]; intros msgs fuel acc Hm Hc Hf.
  - simpl. rewrite app_nil_r. apply fifo_loop_msgs; auto. simpl in Hf. lia.
  - destruct fuel; [lia|].
    destruct (Hc c (or_introl eq_refl)) as (its & Hits).
    change (map QChunk (c :: cs) ++ msgs) with (QChunk c :: (map QChunk cs ++ msgs)).
    rewrite (sk_loop_chunk fuel file validate su flt _ (QFifo (map QChunk cs ++ msgs)) acc c its) by (auto; reflexivity).
    rewrite fold_push_fifo, <- app_assoc.
    assert (E : all_items file validate su flt (c :: cs) = its ++ all_items file validate su flt cs).
    { unfold all_items. cbn [flat_map]. rewrite Hits. reflexivity. }
    rewrite E in *. rewrite IH.
    + rewrite <- app_assoc. reflexivity.
    + apply Forall_app. split; auto. eapply chunk_items_msgs; eauto.
    + intros c' Hc'. apply Hc. right; auto.
    + rewrite !app_length in *. simpl in Hf. lia.
Qed.

Theorem sk_file_order file validate su flt cis fuel :
  (forall c, In c cis -> exists its, chunk_items file validate su flt c = Some its) ->
  (total_turns file validate su flt cis < fuel)%nat ->
  sk_loop fuel file validate su flt (fold_left q_push (map QChunk cis) (QFifo [])) []
  = (q_triples (all_items file validate su flt cis), EStop).
Proof.
  intros Hc Hf. rewrite fold_push_fifo. simpl.
  pose proof (fifo_loop file validate su flt cis [] fuel [] (Forall_nil _) Hc) as H.
  rewrite app_nil_r in H. apply H. unfold total_turns in Hf. simpl. lia.
Qed.

(* ---- concrete material for the examples ---- *)
Definition ex_chan : channel := {| c_id := 1; c_schema := 0; c_topic := [x74]; c_menc := []; c_meta := [] |}.
Definition ex_su : summary :=
  {| su_stats := None; su_schemas := []; su_channels := [(1%N, ex_chan)]; su_chunks := []; su_atts := []; su_mds := [] |}.
Definition ex_flt : mfilter := {| mf_topics := None; mf_start := None; mf_end := None |}.
Definition ex_msg (seq log : N) : message := {| m_chan := 1; m_seq := seq; m_log := log; m_pub := 0; m_data := [] |}.
Definition ex_tr (seq log : N) : triple := (None, ex_chan, ex_msg seq log).
Definition ex_chunk (st en : N) (msgs : list message) : bytes :=
  let recs := concat (map (fun m => frame OpMessage (enc_message m)) msgs) in
  frame OpChunk (enc_chunk {| k_start := st; k_end := en; k_usize := blen recs; k_crc := 0; k_comp := []; k_records := recs |}).
Definition ex_ci (st en off len : N) : chunkindex :=
  {| ci_start := st; ci_end := en; ci_offset := off; ci_length := len; ci_mioffsets := []; ci_milength := 0;
     ci_comp := []; ci_csize := 0; ci_usize := 0 |}.

(* three chunks whose time ranges overlap; (seq, log time) *)
Definition ex_c1 := ex_chunk 5 10 [ex_msg 0 5; ex_msg 1 7; ex_msg 2 10].
Definition ex_c2 := ex_chunk 10 12 [ex_msg 3 10; ex_msg 4 10; ex_msg 5 10; ex_msg 6 12].
Definition ex_c3 := ex_chunk 3 10 [ex_msg 7 3; ex_msg 8 10].
Definition ex_file : bytes := ex_c1 ++ ex_c2 ++ ex_c3.
Definition ex_cis : list chunkindex :=
  [ex_ci 5 10 0 (blen ex_c1); ex_ci 10 12 (blen ex_c1) (blen ex_c2); ex_ci 3 10 (blen ex_c1 + blen ex_c2) (blen ex_c3)].
Definition ex_queue (log_order rev_ : bool) : queue :=
  fold_left q_push (map QChunk ex_cis) (if log_order then QHeap rev_ [] else QFifo []).
Definition ex_seqs (r : list triple * ending) : list (N * N) * ending :=
  (map (fun t : triple => (m_log (snd t), m_seq (snd t))) (fst r), snd r).

(* seven queue items whose log times tie in groups; they are pairwise distinct for the order *)
Definition ex_heap_items : list qitem :=
  [QMsg (ex_tr 0 10) 100 2; QChunk (ex_ci 10 20 300 50); QMsg (ex_tr 1 10) 100 0; QMsg (ex_tr 2 7) 500 9;
   QMsg (ex_tr 3 10) 40 5; QChunk (ex_ci 7 30 200 10); QMsg (ex_tr 4 10) 100 1].
Definition ex_heap_sorted : list qitem :=
  [QChunk (ex_ci 7 30 200 10); QMsg (ex_tr 2 7) 500 9; QMsg (ex_tr 3 10) 40 5; QMsg (ex_tr 1 10) 100 0;
   QMsg (ex_tr 4 10) 100 1; QMsg (ex_tr 0 10) 100 2; QChunk (ex_ci 10 20 300 50)].

Example ex_heap_run :
  drain (q_lt false) q_dflt 7 (push_all (q_lt false) q_dflt [] ex_heap_items) = ex_heap_sorted.
Proof. vm_compute. reflexivity. Qed.

Ltac in_cases H := simpl in H; repeat (destruct H as [<-|H]; [|]); try destruct H.

Example ex_heap_distinct : q_distinct false ex_heap_items.
Proof.
  intros x y Hx Hy T. apply q_tie_iff in T. destruct T as (T1 & T2).
  in_cases Hx; in_cases Hy; try reflexivity; exfalso;
    vm_compute in T1; vm_compute in T2; try discriminate T1; discriminate T2.
Qed.

Example ex_heap_sto : sto_on (q_lt false) ex_heap_items.
Proof. apply q_lt_sto, ex_heap_distinct. Qed.

(* B: without distinctness "not after" is not transitive: a chunk index ties with every message
   that has its position and log time, whatever the message's index *)
Example q_lt_not_weak :
  let a := QMsg (ex_tr 0 10) 100 3 in
  let b := QChunk (ex_ci 10 20 100 50) in
  let c := QMsg (ex_tr 1 10) 100 1 in
  q_lt false b a = false /\ q_lt false c b = false /\ q_lt false c a = true.
Proof. vm_compute. auto. Qed.

(* and then heapq need not return a minimum: [c] comes out after [a] although c < a *)
Example heap_needs_order :
  let a := QMsg (ex_tr 0 10) 100 3 in
  let b := QChunk (ex_ci 10 20 100 50) in
  let c := QMsg (ex_tr 1 10) 100 1 in
  let x := QChunk (ex_ci 10 20 900 50) in
  drain (q_lt false) q_dflt 4 (push_all (q_lt false) q_dflt [] [a; b; x; c]) = [a; b; c; x]
  /\ q_lt false c a = true.
Proof. vm_compute. auto. Qed.

(* the three chunk file *)
Example ex_ascending_run :
  ex_seqs (sk_loop 100 ex_file true ex_su ex_flt (ex_queue true false) [])
  = ([(3, 7); (5, 0); (7, 1); (10, 2); (10, 3); (10, 4); (10, 5); (10, 8); (12, 6)]%N, EStop).
Proof. vm_compute. reflexivity. Qed.

Example ex_file_order_run :
  ex_seqs (sk_loop 100 ex_file true ex_su ex_flt (ex_queue false false) [])
  = ([(5, 0); (7, 1); (10, 2); (10, 3); (10, 4); (10, 5); (12, 6); (3, 7); (10, 8)]%N, EStop).
Proof. vm_compute. reflexivity. Qed.

(* FINDING.  Read in reverse, the chunks of ex_file are adjacent (no message index records between
   them), chunk 1 ends at log time 10 and chunk 2 holds messages 3, 4, 5 with log time 10: the chunk
   index of chunk 1 ties with each of them, and 3 is returned before 4 - equal log times do NOT come out
   in descending (chunk offset, index) order.  The real package returns the same sequence. *)
Example ex_descending_run :
  ex_seqs (sk_loop 100 ex_file true ex_su ex_flt (ex_queue true true) [])
  = ([(12, 6); (10, 8); (10, 5); (10, 3); (10, 4); (10, 2); (7, 1); (5, 0); (3, 7)]%N, EStop).
Proof. vm_compute. reflexivity. Qed.

Example ex_adjacent_tie : ~ rev_no_adjacent_tie ex_file true ex_su ex_flt ex_cis.
Proof.
  intros H.
  apply (H (ex_ci 5 10 0 (blen ex_c1)) (ex_ci 10 12 (blen ex_c1) (blen ex_c2)) (ex_tr 3 10) 0%N).
  - left; reflexivity.
  - right; left; reflexivity.
  - intros E. apply (f_equal ci_start) in E. vm_compute in E. discriminate E.
  - vm_compute. left. reflexivity.
  - vm_compute. auto.
Qed.

(* hypotheses of the theorems on the example *)
Example ex_nodup : NoDup (map ci_offset ex_cis).
Proof.
  vm_compute. repeat constructor; simpl; intros H; repeat (destruct H as [H|H]; try discriminate H); auto.
Qed.

Example ex_sound r : forall c, In c ex_cis -> chunk_sound ex_file true ex_su ex_flt r c.
Proof.
  intros c Hc. in_cases Hc; (eexists; split; [vm_compute; reflexivity|]);
    repeat constructor; unfold log_le; destruct r; cbn; lia.
Qed.

Example ex_fuel : (total_turns ex_file true ex_su ex_flt ex_cis < 100)%nat.
Proof. vm_compute. lia. Qed.

Example ex_readable : forall c, In c ex_cis -> exists its, chunk_items ex_file true ex_su ex_flt c = Some its.
Proof. intros c Hc. destruct (ex_sound false c Hc) as (its & H & _). eauto. Qed.

(* the same chunks with one byte between them: now the reverse theorem applies *)
Definition ex_file_gap : bytes := ex_c1 ++ [x00] ++ ex_c2 ++ [x00] ++ ex_c3.
Definition ex_cis_gap : list chunkindex :=
  [ex_ci 5 10 0 (blen ex_c1); ex_ci 10 12 (blen ex_c1 + 1) (blen ex_c2);
   ex_ci 3 10 (blen ex_c1 + blen ex_c2 + 2) (blen ex_c3)].

Example ex_gap_nodup : NoDup (map ci_offset ex_cis_gap).
Proof.
  vm_compute. repeat constructor; simpl; intros H; repeat (destruct H as [H|H]; try discriminate H); auto.
Qed.

Example ex_gap_sound : forall c, In c ex_cis_gap -> chunk_sound ex_file_gap true ex_su ex_flt true c.
Proof.
  intros c Hc. in_cases Hc; (eexists; split; [vm_compute; reflexivity|]);
    repeat constructor; unfold log_le; cbn; lia.
Qed.

Example ex_gap_distinct : rev_chunks_distinct ex_cis_gap.
Proof.
  intros c c' Hc Hc' _ E. in_cases Hc; in_cases Hc'; try reflexivity; vm_compute in E; discriminate E.
Qed.

Example ex_gap_no_tie : rev_no_adjacent_tie ex_file_gap true ex_su ex_flt ex_cis_gap.
Proof.
  intros c c' t j Hc Hc' Hne _ (_ & E).
  in_cases Hc; in_cases Hc'; try (apply Hne; reflexivity); vm_compute in E; discriminate E.
Qed.

Example ex_gap_fuel : (total_turns ex_file_gap true ex_su ex_flt ex_cis_gap < 100)%nat.
Proof. vm_compute. lia. Qed.

Example ex_gap_descending_run :
  ex_seqs (sk_loop 100 ex_file_gap true ex_su ex_flt (fold_left q_push (map QChunk ex_cis_gap) (QHeap true [])) [])
  = ([(12, 6); (10, 8); (10, 5); (10, 4); (10, 3); (10, 2); (7, 1); (5, 0); (3, 7)]%N, EStop).
Proof. vm_compute. reflexivity. Qed.

Example ex_heap_swo : swo_on (q_lt false) ex_heap_items.
Proof. apply sto_swo, ex_heap_sto. Qed.

Example ex_heap_is_heap : heap_lt (q_lt false) q_dflt (push_all (q_lt false) q_dflt [] ex_heap_items).
Proof.
  intros i Hi0 Hi.
  do 7 (destruct i as [|i]; [try (exfalso; lia); vm_compute; reflexivity|]).
  vm_compute in Hi. lia.
Qed.

Example ex_heap_incl : incl (push_all (q_lt false) q_dflt [] ex_heap_items) ex_heap_items.
Proof.
  intros x Hx. eapply Permutation_in; [|exact Hx].
  pose proof (push_all_perm (q_lt false) q_dflt ex_heap_items []) as H. rewrite app_nil_r in H. exact H.
Qed.

(* ---- the top-level function reaches the loop with exactly this queue and fuel ---- *)
Lemma sk_iter_messages_loop file validate flt log_order reverse su cis :
  sk_get_summary file = POk (Some su) -> su_chunks su <> [] ->
  negb log_order && reverse = false ->
  chunks_matching su flt (su_chunks su) [] = POk cis ->
  sk_iter_messages file validate flt log_order reverse =
  sk_loop (2 * length file + length cis + 8) file validate su flt
          (fold_left q_push (map QChunk cis) (if log_order then QHeap reverse [] else QFifo [])) [].
Proof.
  intros Hs Hne Hv Hc. unfold sk_iter_messages. rewrite Hs.
  destruct (su_chunks su) as [|c0 cs] eqn:E; [contradiction|].
  rewrite Hv, Hc. reflexivity.
Qed.

Lemma chunks_matching_sub su flt cs : forall acc r,
  chunks_matching su flt cs acc = POk r ->
  NoDup (map ci_offset (acc ++ cs)) ->
  NoDup (map ci_offset r) /\ incl r (acc ++ cs).
Proof.
  induction cs as [|ci cs IH]; intros acc r H ND.
  - simpl in H. inversion H; subst. rewrite app_nil_r in *. split; [exact ND|apply incl_refl].
  - assert (Keep : forall r, chunks_matching su flt cs (acc ++ [ci]) = POk r ->
                   NoDup (map ci_offset r) /\ incl r (acc ++ ci :: cs)).
    { intros r0 H0. apply IH in H0.
      - rewrite <- app_assoc in H0. exact H0.
      - rewrite <- app_assoc. exact ND. }
    assert (Drop : forall r, chunks_matching su flt cs acc = POk r ->
                   NoDup (map ci_offset r) /\ incl r (acc ++ ci :: cs)).
    { intros r0 H0. apply IH in H0.
      - destruct H0 as (A & B). split; auto. intros x Hx. apply B in Hx.
        apply in_app_or in Hx. apply in_or_app. destruct Hx; [left|right; right]; auto.
      - rewrite map_app in *. simpl in ND. apply NoDup_remove_1 in ND. exact ND. }
    cbn [chunks_matching] in H.
    destruct (match mf_start flt with Some t => (ci_end ci <? t)%N | None => false end); [apply Drop, H|].
    destruct (match mf_end flt with Some t => negb (ci_start ci <? t)%N | None => false end); [apply Drop, H|].
    destruct (mf_topics flt) as [ts|]; [|apply Keep, H].
    destruct (ci_mioffsets ci) as [|p l]; [apply Keep, H|].
    destruct (any_topic 0 su ts (p :: l)) as [hit| |]; try discriminate H.
    cbn [pbind] in H. destruct hit; [apply Keep, H|apply Drop, H].
Qed.

(* SeekingReader.iter_messages(log_time_order=True) on a file whose chunk indexes have distinct offsets *)
Theorem sk_iter_messages_ascending file validate flt su cis :
  sk_get_summary file = POk (Some su) -> su_chunks su <> [] ->
  chunks_matching su flt (su_chunks su) [] = POk cis ->
  NoDup (map ci_offset (su_chunks su)) ->
  (forall c, In c cis -> chunk_sound file validate su flt false c) ->
  (length (all_items file validate su flt cis) < 2 * length file + 8)%nat ->
  exists out,
    sk_iter_messages file validate flt true false = (q_triples out, EStop) /\
    Permutation out (all_items file validate su flt cis) /\
    StronglySorted (fun a b => q_lt false b a = false) out.
Proof.
  intros Hs Hne Hc ND Hsound Hf.
  rewrite (sk_iter_messages_loop file validate flt true false su cis Hs Hne eq_refl Hc).
  apply sk_ascending; auto.
  - apply (chunks_matching_sub su flt (su_chunks su) [] cis Hc ND).
  - unfold total_turns. lia.
Qed.

(* ---- an end-to-end instance: a file written by the Python writer model ---- *)
Definition ex_opts : pwopts :=
  {| po_chunk_size := 60; po_idx_att := true; po_idx_chunk := true; po_idx_msg := true; po_idx_md := true;
     po_repeat_channels := true; po_repeat_schemas := true; po_chunking := true; po_statistics := true;
     po_summary_offsets := true; po_crcs := true; po_data_crcs := true |}.
Definition ex_calls : list pcall :=
  [PcStart [] []; PcChannel [x74] [] 0 [];
   PcMessage 1 5 [x61] 0 0; PcMessage 1 20 [x62] 0 1; PcMessage 1 10 [x63] 0 2; PcMessage 1 30 [x64] 0 3;
   PcMessage 1 7 [x65] 0 4; PcMessage 1 15 [x66] 0 5; PcFinish].
Definition ex_pyfile : bytes := match py_write ex_opts ex_calls with POk b => b | _ => [] end.
Definition ex_pysu : summary := match sk_get_summary ex_pyfile with POk (Some su) => su | _ => empty_summary end.
Definition ex_pycis : list chunkindex :=
  match chunks_matching ex_pysu ex_flt (su_chunks ex_pysu) [] with POk l => l | _ => [] end.

Example ex_py_summary : sk_get_summary ex_pyfile = POk (Some ex_pysu).
Proof. vm_compute. reflexivity. Qed.
Example ex_py_chunks : su_chunks ex_pysu <> [].
Proof. vm_compute. discriminate. Qed.
Example ex_py_matching : chunks_matching ex_pysu ex_flt (su_chunks ex_pysu) [] = POk ex_pycis.
Proof. vm_compute. reflexivity. Qed.
Example ex_py_nodup : NoDup (map ci_offset (su_chunks ex_pysu)).
Proof.
  vm_compute. repeat constructor; simpl; intros H; repeat (destruct H as [H|H]; try discriminate H); auto.
Qed.
Example ex_py_sound : forall c, In c ex_pycis -> chunk_sound ex_pyfile true ex_pysu ex_flt false c.
Proof.
  intros c Hc.
  let v := eval vm_compute in ex_pycis in
    assert (E : ex_pycis = v) by (vm_compute; reflexivity); rewrite E in Hc; clear E.
  in_cases Hc.
  all: match goal with |- chunk_sound ?f ?v ?s ?fl _ ?c =>
         exists (match chunk_items f v s fl c with Some its => its | None => [] end) end.
  all: split; [vm_compute; reflexivity|vm_compute; repeat constructor; intro H; discriminate H].
Qed.
Example ex_py_fuel : (length (all_items ex_pyfile true ex_pysu ex_flt ex_pycis) < 2 * length ex_pyfile + 8)%nat.
Proof. vm_compute. lia. Qed.
Example ex_py_run :
  ex_seqs (sk_iter_messages ex_pyfile true ex_flt true false)
  = ([(5, 0); (7, 4); (10, 2); (15, 5); (20, 1); (30, 3)]%N, EStop).
Proof. vm_compute. reflexivity. Qed.

(* ---- reading the conclusions ---- *)
Lemma parent_div i : parent i = ((i - 1) / 2)%nat.
Proof. unfold parent. apply Nat.div2_div. Qed.

Lemma heap_lt_div lt dflt h :
  heap_lt lt dflt h <->
  (forall i, (0 < i)%nat -> (i < length h)%nat -> lt (nth i h dflt) (nth ((i - 1) / 2) h dflt) = false).
Proof. unfold heap_lt. split; intros H i Hi0 Hi; specialize (H i Hi0 Hi); rewrite parent_div in *; exact H. Qed.

(* what "sorted for q_lt" says about a list of message items and about the triples returned *)
Lemma full_sorted_consequences r out :
  StronglySorted (fun a b => q_lt r b a = false) out ->
  StronglySorted (msg_key_le r) out /\ StronglySorted (t_le r) (q_triples out).
Proof.
  intros H. split.
  - eapply StronglySorted_impl; [|exact H]. intros a b; apply q_le_msg_key.
  - eapply sorted_triples; [|exact H]. intros a b; apply q_nlt_log_le.
Qed.

Lemma chunk_sound_forward file validate su flt c :
  chunk_sound file validate su flt false c <->
  exists its, chunk_items file validate su flt c = Some its /\
              forall t o i, In (QMsg t o i) its -> (ci_start c <= t_log t)%N.
Proof.
  unfold chunk_sound. split; intros (its & H & F); exists its; split; auto.
  - intros t o i Hm. rewrite Forall_forall in F. exact (F _ Hm).
  - apply Forall_forall. intros m Hm.
    destruct (chunk_items_shape _ _ _ _ _ _ _ H Hm) as (t & j & ->). exact (F _ _ _ Hm).
Qed.

Lemma chunk_sound_reverse file validate su flt c :
  chunk_sound file validate su flt true c <->
  exists its, chunk_items file validate su flt c = Some its /\
              forall t o i, In (QMsg t o i) its -> (t_log t <= ci_end c)%N.
Proof.
  unfold chunk_sound. split; intros (its & H & F); exists its; split; auto.
  - intros t o i Hm. rewrite Forall_forall in F. exact (F _ Hm).
  - apply Forall_forall. intros m Hm.
    destruct (chunk_items_shape _ _ _ _ _ _ _ H Hm) as (t & j & ->). exact (F _ _ _ Hm).
Qed.

(* a simpler sufficient condition for the reverse tie order: record ends are distinct and no chunk
   record ends exactly where another one starts *)
Lemma rev_gap_conditions file validate su flt cis :
  (forall c c', In c cis -> In c' cis ->
     (ci_offset c + ci_length c = ci_offset c' + ci_length c')%N -> c = c') ->
  (forall c c', In c cis -> In c' cis -> c <> c' -> (ci_offset c + ci_length c <> ci_offset c')%N) ->
  rev_chunks_distinct cis /\ rev_no_adjacent_tie file validate su flt cis.
Proof.
  intros H1 H2. split.
  - intros c c' Hc Hc' _ E. apply H1; auto.
  - intros c c' t j Hc Hc' Hne _ (_ & E). exact (H2 c c' Hc Hc' Hne E).
Qed.
