(* PySeekFacts.v - ordering theory of the Python seeking reader model (Py.v):
     A. CPython's heapq (siftdown / siftup / heappush / heappop of Py.v) is a priority queue;
     B. the order q_lt of _message_queue.py;
     C. SeekingReader.iter_messages (sk_loop) returns every selected message once, in order. *)
From Coq Require Import List NArith ZArith Bool Arith Lia ZifyN ZifyNat ZifyBool Permutation Sorted.
From Coq.Strings Require Import Byte.
From Mcap Require Import Bytes GoSem Crc32 Records Py.
Import ListNotations.

(* ------------------------------------------------------------------ *)
(* lists: lset / nth                                                   *)
(* ------------------------------------------------------------------ *)
Lemma length_lset {A} (l : list A) i x : length (lset l i x) = length l.
Proof. revert i; induction l as [|y l IH]; intros [|i]; simpl; auto. Qed.

Lemma nth_lset_eq {A} (l : list A) i x d : (i < length l)%nat -> nth i (lset l i x) d = x.
Proof.
  revert i; induction l as [|y l IH]; intros [|i]; simpl; intros H; try lia; auto.
  apply IH; lia.
Qed.

Lemma nth_lset_neq {A} (l : list A) i j x d : i <> j -> nth j (lset l i x) d = nth j l d.
Proof.
  revert i j; induction l as [|y l IH]; intros [|i] [|j]; simpl; intros H; try congruence; auto.
Qed.

Lemma lset_perm {A} (l : list A) i x d :
  (i < length l)%nat -> Permutation (nth i l d :: lset l i x) (x :: l).
Proof.
  revert i; induction l as [|y l IH]; intros [|i]; simpl; intros H; try lia.
  - apply perm_swap.
  - eapply perm_trans; [apply perm_swap|].
    eapply perm_trans; [apply perm_skip, IH; lia|]. apply perm_swap.
Qed.

Lemma Forall_lset {A} (P : A -> Prop) (l : list A) i x : Forall P l -> P x -> Forall P (lset l i x).
Proof.
  revert i; induction l as [|y l IH]; intros [|i] Hl Hx; simpl; auto;
    inversion Hl; subst; constructor; auto.
Qed.

Lemma Forall_nth_lt {A} (P : A -> Prop) (l : list A) i d : Forall P l -> (i < length l)%nat -> P (nth i l d).
Proof. intros H Hi. rewrite Forall_forall in H. apply H, nth_In, Hi. Qed.

(* ------------------------------------------------------------------ *)
(* parent / child index arithmetic                                      *)
(* ------------------------------------------------------------------ *)
Definition parent (i : nat) : nat := Nat.div2 (i - 1).

Lemma parent_spec i : (0 < i)%nat -> i = (2 * parent i + 1)%nat \/ i = (2 * parent i + 2)%nat.
Proof.
  intros H. unfold parent. pose proof (Nat.div2_odd (i - 1)) as E.
  destruct (Nat.odd (i - 1)); simpl in E; lia.
Qed.

Lemma parent_left p : parent (2 * p + 1) = p.
Proof. unfold parent. replace (2 * p + 1 - 1)%nat with (2 * p)%nat by lia. apply Nat.div2_double. Qed.

Lemma parent_right p : parent (2 * p + 2) = p.
Proof. unfold parent. replace (2 * p + 2 - 1)%nat with (S (2 * p)) by lia. apply Nat.div2_succ_double. Qed.

Lemma parent_lt i : (0 < i)%nat -> (parent i < i)%nat.
Proof. intros H. destruct (parent_spec i H); lia. Qed.

(* ------------------------------------------------------------------ *)
(* A. heapq                                                            *)
(* ------------------------------------------------------------------ *)
Section HeapFacts.
Variable lt : qitem -> qitem -> bool.
Variable dflt : qitem.
(* the elements the order is well behaved on *)
Variable P : qitem -> Prop.
Hypothesis lt_asym : forall a b, P a -> P b -> lt a b = true -> lt b a = false.
Hypothesis le_trans : forall a b c, P a -> P b -> P c -> lt b a = false -> lt c b = false -> lt c a = false.

Notation get h i := (nth i h dflt).
Notation le a b := (lt b a = false).

Lemma le_refl a : P a -> le a a.
Proof. intros Ha. destruct (lt a a) eqn:E; auto. pose proof (lt_asym a a Ha Ha E). congruence. Qed.

(* the heap invariant of heapq: no element is smaller than its parent *)
Definition heap (h : list qitem) : Prop :=
  forall i, (0 < i)%nat -> (i < length h)%nat -> lt (get h i) (get h (parent i)) = false.

(* heap with a hole at pos that is about to receive x (the state of _siftdown) *)
Definition hole_inv (h : list qitem) (pos : nat) (x : qitem) : Prop :=
  (pos < length h)%nat /\
  (forall i, (0 < i)%nat -> (i < length h)%nat -> i <> pos -> parent i <> pos -> le (get h (parent i)) (get h i)) /\
  (forall i, (0 < i)%nat -> (i < length h)%nat -> parent i = pos -> (0 < pos)%nat -> le (get h (parent pos)) (get h i)) /\
  (forall i, (0 < i)%nat -> (i < length h)%nat -> parent i = pos -> le x (get h i)).

Lemma lset_heap h pos x :
  hole_inv h pos x -> (pos = 0%nat \/ le (get h (parent pos)) x) -> heap (lset h pos x).
Proof.
  intros (Hp & H2 & H3 & H4) Hx i Hi0 Hi. rewrite length_lset in Hi.
  destruct (Nat.eq_dec i pos) as [->|Hne].
  - rewrite nth_lset_eq by auto. pose proof (parent_lt pos Hi0).
    rewrite nth_lset_neq by lia. destruct Hx; [lia|auto].
  - rewrite (nth_lset_neq h pos i) by auto.
    destruct (Nat.eq_dec (parent i) pos) as [E|E].
    + rewrite E, nth_lset_eq by auto. apply H4; auto.
    + rewrite nth_lset_neq by auto. apply H2; auto.
Qed.

Lemma siftdown_length fuel : forall h sp pos x, length (siftdown lt dflt fuel h sp pos x) = length h.
Proof.
  induction fuel; intros; simpl; [apply length_lset|].
  destruct (Nat.ltb sp pos); [|apply length_lset].
  destruct (lt x _); [|apply length_lset].
  rewrite IHfuel, length_lset; auto.
Qed.

Lemma siftdown_heap fuel : forall h pos x,
  (pos <= fuel)%nat -> Forall P h -> P x -> hole_inv h pos x ->
  heap (siftdown lt dflt fuel h 0 pos x).
Proof.
  induction fuel; intros h pos x Hf HP Hx Hinv; simpl.
  - apply lset_heap; auto. left; lia.
  - destruct (Nat.ltb_spec 0 pos) as [Hpos|Hpos]; [|apply lset_heap; auto; left; lia].
    unfold hget. fold (parent pos).
    destruct (lt x (get h (parent pos))) eqn:Elt; [|apply lset_heap; auto].
    pose proof (parent_lt pos Hpos) as Hpp.
    destruct Hinv as (Hp & H2 & H3 & H4).
    assert (Ppp : P (get h (parent pos))) by (apply Forall_nth_lt; auto; lia).
    assert (Hle : le x (get h (parent pos))) by (apply lt_asym; auto).
    apply IHfuel; [lia|apply Forall_lset; auto|auto|].
    set (pp := parent pos) in *.
    assert (Hg : forall j, j <> pos -> get (lset h pos (get h pp)) j = get h j)
      by (intros; apply nth_lset_neq; auto).
    assert (Hgp : get (lset h pos (get h pp)) pos = get h pp) by (apply nth_lset_eq; auto).
    repeat split; rewrite ?length_lset.
    + lia.
    + intros i Hi0 Hi Hne1 Hne2.
      assert (i <> pos) by (intros ->; apply Hne2; reflexivity).
      rewrite (Hg i) by auto.
      destruct (Nat.eq_dec (parent i) pos) as [E|E].
      * rewrite E, Hgp. apply H3; auto.
      * rewrite Hg by auto. apply H2; auto.
    + intros i Hi0 Hi Hpi Hpp0.
      pose proof (parent_lt pp Hpp0) as Hppp.
      rewrite (Hg (parent pp)) by lia.
      assert (Hedge : le (get h (parent pp)) (get h pp)) by (apply H2; lia).
      destruct (Nat.eq_dec i pos) as [->|Hne].
      * rewrite Hgp. exact Hedge.
      * rewrite Hg by auto.
        apply le_trans with (b := get h pp); auto; try (apply Forall_nth_lt; auto; lia).
        rewrite <- Hpi. apply H2; auto. lia.
    + intros i Hi0 Hi Hpi.
      destruct (Nat.eq_dec i pos) as [->|Hne].
      * rewrite Hgp. exact Hle.
      * rewrite Hg by auto.
        apply le_trans with (b := get h pp); auto; try (apply Forall_nth_lt; auto; lia).
        rewrite <- Hpi. apply H2; auto. lia.
Qed.

Lemma siftdown_perm fuel : forall h sp pos x,
  (pos < length h)%nat ->
  Permutation (get h pos :: siftdown lt dflt fuel h sp pos x) (x :: h).
Proof.
  induction fuel; intros h sp pos x Hp; simpl; [apply lset_perm; auto|].
  destruct (Nat.ltb_spec sp pos) as [Hpos|Hpos]; [|apply lset_perm; auto].
  unfold hget. fold (parent pos).
  destruct (lt x (get h (parent pos))) eqn:Elt; [|apply lset_perm; auto].
  assert (Hpp : (parent pos < pos)%nat) by (apply parent_lt; lia).
  set (pp := parent pos) in *.
  pose proof (IHfuel (lset h pos (get h pp)) sp pp x) as IH.
  rewrite length_lset in IH. specialize (IH ltac:(lia)).
  rewrite nth_lset_neq in IH by lia.
  pose proof (lset_perm h pos (get h pp) dflt Hp) as L.
  apply Permutation_cons_inv with (a := get h pp).
  eapply perm_trans; [apply perm_swap|].
  eapply perm_trans; [apply perm_skip, IH|].
  eapply perm_trans; [apply perm_swap|].
  eapply perm_trans; [apply perm_skip, L|].
  apply perm_swap.
Qed.

Lemma siftdown_Forall fuel : forall h sp pos x,
  Forall P h -> P x -> (pos < length h)%nat -> Forall P (siftdown lt dflt fuel h sp pos x).
Proof.
  intros h sp pos x Hh Hx Hp.
  pose proof (siftdown_perm fuel h sp pos x Hp) as Hperm.
  assert (F : Forall P (x :: h)) by (constructor; auto).
  apply (Permutation_Forall (Permutation_sym Hperm)) in F. inversion F; auto.
Qed.

(* ---- heappush ---- *)
Lemma heappush_length h x : length (heappush lt dflt h x) = S (length h).
Proof. unfold heappush. rewrite siftdown_length, app_length; simpl; lia. Qed.

Lemma heappush_perm h x : Permutation (heappush lt dflt h x) (x :: h).
Proof.
  unfold heappush.
  pose proof (siftdown_perm (length (h ++ [x])) (h ++ [x]) 0 (length h) x) as H.
  rewrite app_length in H. simpl in H. specialize (H ltac:(lia)).
  rewrite app_nth2, Nat.sub_diag in H by lia. simpl in H.
  apply Permutation_cons_inv in H.
  eapply perm_trans; [rewrite app_length; simpl; exact H|].
  apply Permutation_sym, Permutation_cons_append.
Qed.

Lemma heappush_heap h x : Forall P h -> P x -> heap h -> heap (heappush lt dflt h x).
Proof.
  intros Hh Hx Hheap. unfold heappush. apply siftdown_heap; auto.
  - rewrite app_length; simpl; lia.
  - apply Forall_app; split; auto.
  - assert (Hlen : length (h ++ [x]) = S (length h)) by (rewrite app_length; simpl; lia).
    repeat split; rewrite ?Hlen.
    + lia.
    + intros i Hi0 Hi Hne _. pose proof (parent_lt i Hi0).
      rewrite !app_nth1 by lia. apply Hheap; lia.
    + intros i Hi0 Hi Hpi _. pose proof (parent_lt i Hi0). lia.
    + intros i Hi0 Hi Hpi. pose proof (parent_lt i Hi0). lia.
Qed.

(* ---- _siftup: the hole travels down to a leaf ---- *)
Definition down_inv (h : list qitem) (pos : nat) : Prop :=
  (pos < length h)%nat /\
  (forall i, (0 < i)%nat -> (i < length h)%nat -> i <> pos -> parent i <> pos -> le (get h (parent i)) (get h i)) /\
  (forall i, (0 < i)%nat -> (i < length h)%nat -> parent i = pos -> (0 < pos)%nat -> le (get h (parent pos)) (get h i)).

Lemma siftup_loop_basic fuel : forall h n pos h' p,
  length h = n -> (pos < n)%nat ->
  siftup_loop lt dflt fuel h n pos = (h', p) ->
  length h' = n /\ (p < n)%nat /\ Permutation (get h pos :: h') (get h' p :: h).
Proof.
  induction fuel; intros h n pos h' p Hn Hp E; cbn [siftup_loop] in E.
  - inversion E; subst. auto.
  - destruct (Nat.ltb_spec (2 * pos + 1) n) as [Hc|Hc].
    2:{ inversion E; subst. auto. }
    unfold hget in E.
    set (c := if Nat.ltb (2 * pos + 1 + 1) n && negb (lt (get h (2 * pos + 1)) (get h (2 * pos + 1 + 1)))
              then (2 * pos + 1 + 1)%nat else (2 * pos + 1)%nat) in *.
    assert (Hcv : (c = 2 * pos + 1 \/ c = 2 * pos + 2)%nat /\ (c < n)%nat).
    { subst c. destruct (Nat.ltb_spec (2 * pos + 1 + 1) n); cbn [andb negb]; [|lia].
      destruct (lt _ _); cbn [andb negb]; lia. }
    destruct Hcv as (Hcv & Hcl).
    apply IHfuel in E; [|rewrite length_lset; auto|auto].
    destruct E as (L' & Hp' & Perm). split; [exact L'|]. split; [exact Hp'|].
    rewrite nth_lset_neq in Perm by lia.
    pose proof (lset_perm h pos (get h c) dflt ltac:(lia)) as L.
    apply Permutation_cons_inv with (a := get h c).
    eapply perm_trans; [apply perm_swap|].
    eapply perm_trans; [apply perm_skip, Perm|].
    eapply perm_trans; [apply perm_swap|].
    eapply perm_trans; [apply perm_skip, L|].
    apply perm_swap.
Qed.

Lemma siftup_perm h pos : (pos < length h)%nat -> Permutation (siftup lt dflt h pos) h.
Proof.
  intros Hpos. unfold siftup, hget.
  destruct (siftup_loop lt dflt (length h) h (length h) pos) as [h' p] eqn:E.
  apply siftup_loop_basic in E; auto.
  destruct E as (L' & Hp & Perm). rewrite <- L' in Hp.
  set (x := get h pos) in *.
  pose proof (siftdown_perm (length h) (lset h' p x) pos p x) as S1.
  rewrite length_lset in S1. specialize (S1 Hp). rewrite nth_lset_eq in S1 by auto.
  apply Permutation_cons_inv in S1.
  eapply perm_trans; [exact S1|].
  pose proof (lset_perm h' p x dflt Hp) as L.
  apply Permutation_cons_inv with (a := get h' p).
  eapply perm_trans; [exact L|]. exact Perm.
Qed.

Lemma siftup_loop_spec fuel : forall h pos h' p,
  (length h <= fuel + pos)%nat -> Forall P h -> down_inv h pos ->
  siftup_loop lt dflt fuel h (length h) pos = (h', p) ->
  length h' = length h /\ Forall P h' /\ down_inv h' p /\ (length h' <= 2 * p + 1)%nat.
Proof.
  induction fuel; intros h pos h' p Hf HP Hinv E; cbn [siftup_loop] in E.
  - inversion E; subst. destruct Hinv as (Hp & _). lia.
  - destruct (Nat.ltb_spec (2 * pos + 1) (length h)) as [Hc|Hc].
    2:{ inversion E; subst. repeat split; auto; try apply Hinv. }
    unfold hget in E.
    set (c := if Nat.ltb (2 * pos + 1 + 1) (length h) && negb (lt (get h (2 * pos + 1)) (get h (2 * pos + 1 + 1)))
              then (2 * pos + 1 + 1)%nat else (2 * pos + 1)%nat) in *.
    destruct Hinv as (Hp & H2 & H3).
    assert (Hcr : (c = 2 * pos + 1 \/ c = 2 * pos + 2)%nat /\ (c < length h)%nat /\
                  forall i, (i < length h)%nat -> parent i = pos -> (0 < i)%nat -> le (get h c) (get h i)).
    { subst c. destruct (Nat.ltb_spec (2 * pos + 1 + 1) (length h)) as [Hr|Hr]; cbn [andb negb].
      - assert (Pl : P (get h (2 * pos + 1))) by (apply Forall_nth_lt; auto).
        assert (Pr : P (get h (2 * pos + 1 + 1))) by (apply Forall_nth_lt; auto).
        destruct (lt (get h (2 * pos + 1)) (get h (2 * pos + 1 + 1))) eqn:El; cbn [andb negb].
        + split; [lia|]. split; [lia|]. intros i Hi Hpi Hi0.
          destruct (parent_spec i Hi0) as [Ei|Ei]; rewrite Hpi in Ei; subst i.
          * apply le_refl; auto.
          * replace (2 * pos + 2)%nat with (2 * pos + 1 + 1)%nat by lia. apply lt_asym; auto.
        + split; [lia|]. split; [lia|]. intros i Hi Hpi Hi0.
          destruct (parent_spec i Hi0) as [Ei|Ei]; rewrite Hpi in Ei; subst i.
          * exact El.
          * replace (2 * pos + 2)%nat with (2 * pos + 1 + 1)%nat by lia. apply le_refl; auto.
      - split; [lia|]. split; [lia|]. intros i Hi Hpi Hi0.
        destruct (parent_spec i Hi0) as [Ei|Ei]; rewrite Hpi in Ei; subst i.
        + apply le_refl. apply Forall_nth_lt; auto.
        + lia. }
    destruct Hcr as (Hcv & Hcl & Hcmin).
    assert (Hpc : parent c = pos) by (destruct Hcv as [-> | ->]; [apply parent_left|apply parent_right]).
    assert (Pc : P (get h c)) by (apply Forall_nth_lt; auto).
    set (h2 := lset h pos (get h c)) in *.
    assert (Hlen2 : length h2 = length h) by apply length_lset.
    assert (Hg : forall j, j <> pos -> get h2 j = get h j) by (intros; apply nth_lset_neq; auto).
    assert (Hgp : get h2 pos = get h c) by (apply nth_lset_eq; auto).
    rewrite <- Hlen2 in E.
    apply IHfuel in E.
    + destruct E as (L' & F' & D' & Leaf).
      rewrite Hlen2 in L'. auto.
    + lia.
    + apply Forall_lset; auto.
    + repeat split; rewrite ?Hlen2.
      * exact Hcl.
      * intros i Hi0 Hi Hne1 Hne2.
        destruct (Nat.eq_dec i pos) as [->|Hip].
        { rewrite Hgp. pose proof (parent_lt pos Hi0). rewrite Hg by lia. apply H3; auto; lia. }
        rewrite (Hg i) by auto.
        destruct (Nat.eq_dec (parent i) pos) as [Epi|Epi].
        { rewrite Epi, Hgp. apply Hcmin; auto. }
        rewrite Hg by auto. apply H2; auto.
      * intros i Hi0 Hi Hpi _. rewrite Hpc, Hgp.
        assert (i <> pos) by (pose proof (parent_lt i Hi0); lia).
        rewrite Hg by auto. rewrite <- Hpi. apply H2; auto; lia.
Qed.

Lemma siftup_heap h : Forall P h -> down_inv h 0 -> heap (siftup lt dflt h 0).
Proof.
  intros HP Hinv. unfold siftup, hget.
  destruct (siftup_loop lt dflt (length h) h (length h) 0) as [h' p] eqn:E.
  apply siftup_loop_spec in E; auto; [|lia].
  destruct E as (L' & F' & (Hp & D2 & D3) & Leaf).
  assert (Px : P (get h 0)) by (apply Forall_nth_lt; auto; destruct Hinv; auto).
  set (x := get h 0) in *.
  apply siftdown_heap; auto; [lia|apply Forall_lset; auto|].
  repeat split; rewrite ?length_lset.
  + exact Hp.
  + intros i Hi0 Hi Hne1 Hne2. rewrite !nth_lset_neq by auto. apply D2; auto.
  + intros i Hi0 Hi Hpi _. destruct (parent_spec i Hi0); lia.
  + intros i Hi0 Hi Hpi. destruct (parent_spec i Hi0); lia.
Qed.

(* ---- heappop ---- *)
Lemma heap_prefix h y : heap (h ++ [y]) -> heap h.
Proof.
  intros H i Hi0 Hi. pose proof (parent_lt i Hi0).
  specialize (H i Hi0). rewrite app_length in H. simpl in H. specialize (H ltac:(lia)).
  rewrite !app_nth1 in H by lia. exact H.
Qed.

Lemma heappop_none h : heappop lt dflt h = None <-> h = [].
Proof.
  unfold heappop. split.
  - destruct (rev h) as [|l r] eqn:E.
    + intros _. apply (f_equal (@rev _)) in E. rewrite rev_involutive in E. exact E.
    + destruct (rev r); discriminate.
  - intros ->. reflexivity.
Qed.

Lemma heappop_cases h x h' :
  heappop lt dflt h = Some (x, h') ->
  (h = [x] /\ h' = []) \/
  (exists tl last, h = x :: tl ++ [last] /\ h' = siftup lt dflt (last :: tl) 0).
Proof.
  unfold heappop. destruct (rev h) as [|l r] eqn:E; [discriminate|].
  apply (f_equal (@rev _)) in E. rewrite rev_involutive in E. simpl in E.
  destruct (rev r) as [|top tl] eqn:Er; intros H; inversion H; subst.
  - left. auto.
  - right. exists tl, l. auto.
Qed.

Lemma heappop_perm h x h' : heappop lt dflt h = Some (x, h') -> Permutation h (x :: h').
Proof.
  intros H. apply heappop_cases in H. destruct H as [(-> & ->)|(tl & last & -> & ->)]; [auto|].
  apply perm_skip.
  eapply perm_trans; [apply Permutation_sym, Permutation_cons_append|].
  apply Permutation_sym, siftup_perm. simpl; lia.
Qed.

Lemma heappop_heap h x h' : heappop lt dflt h = Some (x, h') -> Forall P h -> heap h -> heap h'.
Proof.
  intros H HP Hh. apply heappop_cases in H. destruct H as [(-> & ->)|(tl & last & -> & ->)].
  - intros i Hi0 Hi. simpl in Hi. lia.
  - assert (F : Forall P (last :: tl)).
    { inversion HP as [|? ? _ F]; subst. apply Forall_app in F. destruct F as (F1 & F2).
      inversion F2; subst. constructor; auto. }
    apply siftup_heap; auto.
    change (x :: tl ++ [last]) with ((x :: tl) ++ [last]) in Hh. apply heap_prefix in Hh.
    repeat split.
    + simpl; lia.
    + intros i Hi0 Hi Hne1 Hne2. specialize (Hh i Hi0 Hi).
      destruct i as [|i]; [lia|]. destruct (parent (S i)) as [|k] eqn:Ek; [lia|].
      exact Hh.
    + intros; lia.
Qed.

(* the root of a heap is a minimum *)
Lemma heap_root_min h : Forall P h -> heap h -> forall i, (i < length h)%nat -> le (get h 0) (get h i).
Proof.
  intros HP Hh i. induction i as [i IH] using lt_wf_ind. intros Hi.
  destruct (Nat.eq_dec i 0) as [->|Hne].
  - apply le_refl. apply Forall_nth_lt; auto.
  - assert (Hi0 : (0 < i)%nat) by lia. pose proof (parent_lt i Hi0) as Hpl.
    apply le_trans with (b := get h (parent i)); try (apply Forall_nth_lt; auto; lia).
    + apply IH; lia.
    + apply Hh; auto.
Qed.

Lemma heappop_min h x h' :
  heappop lt dflt h = Some (x, h') -> Forall P h -> heap h -> Forall (fun y => lt y x = false) h'.
Proof.
  intros H HP Hh. pose proof (heappop_perm _ _ _ H) as Perm.
  assert (Hx : x = get h 0).
  { apply heappop_cases in H. destruct H as [(-> & _)|(tl & last & -> & _)]; reflexivity. }
  assert (All : Forall (fun y => lt y x = false) h).
  { apply Forall_forall. intros y Hy. destruct (In_nth _ _ dflt Hy) as (i & Hi & <-).
    rewrite Hx. apply heap_root_min; auto. }
  apply (Permutation_Forall Perm) in All. inversion All; auto.
Qed.

End HeapFacts.
