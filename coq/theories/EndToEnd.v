(* EndToEnd.v - property C02 end to end over the writer model: a file written by Writer.W (index
   enabled or not, chunked or not, compressed or not) read back by Reader.read_messages / Reader.info /
   Reader.get_attachment / Reader.get_metadata.

   The statement C02_full_statement of properties/C02.v is FALSE of the model (section 7:
   C02_full_statement_false_thm and two more counterexamples); what is proved is the corrected
   statement C02_e2e_statement (section 6: C02_e2e_thm), whose additional hypotheses are
     comp_ok      the compression name is one the reader knows ("", zstd, lz4), and with the name "" the
                  compressor is the identity (the Go writer has no compressor then);
     call_small   record bodies shorter than 2^64 bytes (any Go slice);
     no_header    no second WriteHeader call (WriterFactsC.legal_shape; the theorems used need it; runs
                  with a second header computed by vm_compute read back correctly, so it is not known to be
                  a necessary hypothesis);
     e2e_bounds   every record body is shorter than MaxInt32, every chunk decompresses to less than
                  MaxInt32 bytes and its header fields fit their wire formats, the statistics record and the
                  chunk index records fit their wire formats (the attachment and metadata index records,
                  the attachments and the footer are shown to fit);
     e2e_fuel     the fuel of the model (the file size in bytes) covers the number of lexer steps: proved
                  for files whose chunks are stored uncompressed (C02_e2e_fuel_uncompressed_thm), a
                  hypothesis otherwise;
   and in part (a) "index enabled -> index-based read" holds when statistics are written or a channel
   was written (otherwise the summary lacks what CanReadMessagesUsingIndex asks for).

   Contents
     E2E_Writer   summary section with explicit groups, tables of the final state, scoping of the calls
     E2E_Scan     scan_spec on typed records
     E2E_Indexed  the indexed iterator against the abstract iterator, with the messages themselves
     0.-5.        composition: shape of the written file, Info, the sequential read, the index-based read
     6.           the end-to-end statement and its parts
     7.           counterexamples to C02_full_statement
     8.           non-vacuity *)
From Coq Require Import List NArith ZArith Bool Lia ZifyN ZifyNat ZifyBool Permutation Sorted PeanoNat.
From Coq.Strings Require Import Byte.
From RecordUpdate Require Import RecordSet.
From Mcap Require Import Bytes BytesFacts GoSem Crc32 Crc32Facts Records RecordsFacts Writer WriterFactsA WriterFactsB WriterFactsC.
From McapProps Require C05.
Import ListNotations RecordSetNotations.
Open Scope N_scope.
Ltac Zify.zify_post_hook ::= Z.div_mod_to_equations.

(* ====================================================================================== *)
(** * Writer side *)
Module E2E_Writer.
(* every table entry is stored under its own id *)
Definition keyed (s : wstate) : Prop :=
  Forall (fun p => fst p = s_id (snd p)) (w_schemas s) /\ Forall (fun p => fst p = c_id (snd p)) (w_channels s).

Definition xB1 (o : wopts) (s : wstate) : list bytes :=
  if o_skip_rsh o then [] else map enc_schema (map snd (w_schemas s)).
Definition xB2 (o : wopts) (s : wstate) : list bytes :=
  if o_skip_rch o then [] else map enc_channel (map snd (w_channels s)).
Definition xB3 (o : wopts) (s : wstate) : list bytes :=
  if o_skip_stats o then [] else [enc_statistics (stats_record s)].

(* WriterFactsC.ClosedFile with B1 B2 B3 explicit *)
Definition ClosedFileX (o : wopts) (compress : nat -> bytes -> bytes) (pre : list item) (s' : wstate) : Prop :=
  exists D de ss sos crc,
    let gs := summary_groups o (xB1 o s') (xB2 o s') (xB3 o s') s' in
    let data := pre ++ flatten D ++ [IRec OpDataEnd de] in
    let offs := group_offsets (offset_of data) gs in
    let off_items := if o_skip_so o then [] else map so_item offs in
    rev (w_trace s') = data ++ sum_items gs ++ off_items ++ [IFooter ss sos crc; IMagic] /\
    Inv1 s' /\
    DataOk o compress pre D (w_chunk_indexes s') (w_att_indexes s') (w_md_indexes s') /\
    ss = match gs with [] => 0 | _ => offset_of data end /\
    sos = match off_items with [] => 0 | _ => offset_of (data ++ sum_items gs) end.

(* first-wins tables, as AddSchema / AddChannel build them *)
Definition fw_add {A} (key : A -> N) (t : list (N * A)) (x : A) : list (N * A) :=
  match assoc_get (key x) t with Some _ => t | None => t ++ [(key x, x)] end.
Definition schema_calls (cs : list wcall) : list schema :=
  flat_map (fun c => match c with CSchema s => [s] | _ => [] end) cs.
Definition channel_calls (cs : list wcall) : list channel :=
  flat_map (fun c => match c with CChannel c => [c] | _ => [] end) cs.

(* scoping of a call list; chs / schs: channel / schema ids already registered *)
Fixpoint call_scoped (chs schs : list N) (cs : list wcall) : Prop :=
  match cs with
  | [] => True
  | CSchema s :: r => s_id s <> 0 /\ call_scoped chs (s_id s :: schs) r
  | CChannel c :: r => (c_schema c = 0 \/ In (c_schema c) schs) /\ call_scoped (c_id c :: chs) schs r
  | CMessage m :: r => In (m_chan m) chs /\ call_scoped chs schs r
  | _ :: r => call_scoped chs schs r
  end.

(* ====================================================================================== *)
(* auxiliary development                                                                    *)
(* ====================================================================================== *)
Set Default Proof Using "Type".

(* ---------- the fields the tables / statistics groups are made of ---------- *)
Definition T3 (s : wstate) := (w_schemas s, w_channels s, w_channel_ids s).
Definition tabs (s : wstate) :=
  (T3 s, w_schema_ids s,
   (w_st_messages s, w_st_schemas s, w_st_channels s, w_st_attachments s, w_st_metadata s),
   (w_st_chunks s, w_st_start s, w_st_end s, w_st_counts s)).
Definition same_tabs (s s' : wstate) : Prop := tabs s' = tabs s.

Lemma T3_proj s s' : T3 s = T3 s' ->
  w_schemas s = w_schemas s' /\ w_channels s = w_channels s' /\ w_channel_ids s = w_channel_ids s'.
Proof. unfold T3. intro H. injection H. intros. repeat split; assumption. Qed.
Lemma tabs_T3 s s' : tabs s = tabs s' -> T3 s = T3 s'.
Proof. intro H. exact (f_equal (fun v => fst (fst (fst v))) H). Qed.
Lemma tabs_stats s s' : tabs s = tabs s' -> stats_record s = stats_record s'.
Proof.
  destruct s, s'. unfold tabs, T3, stats_record. wsimpl. intro H. injection H. intros. subst. reflexivity.
Qed.

Lemma keyed_T3 s s' : T3 s' = T3 s -> keyed s -> keyed s'.
Proof. intro H. destruct (T3_proj _ _ H) as (H1 & H2 & _). unfold keyed. rewrite H1, H2. auto. Qed.

Lemma xB_tabs o s s' : tabs s' = tabs s -> xB1 o s' = xB1 o s /\ xB2 o s' = xB2 o s /\ xB3 o s' = xB3 o s.
Proof.
  intro H. pose proof (tabs_stats _ _ H) as HS. destruct (T3_proj _ _ (tabs_T3 _ _ H)) as (H1 & H2 & _).
  unfold xB1, xB2, xB3. rewrite H1, H2, HS. auto.
Qed.

(* ---------- first-wins tables ---------- *)
Lemma keyed_get {A} (key : A -> N) (t : list (N * A)) x :
  Forall (fun p => fst p = key (snd p)) t -> In x (map snd t) -> assoc_get (key x) t <> None.
Proof.
  induction t as [|p t IH]; intros HF HI; cbn [map assoc_get] in *; [destruct HI|].
  inversion HF as [|p' t' Hp Ht]; subst.
  destruct (fst p =? key x) eqn:E; [discriminate|].
  destruct HI as [<-|HI]; [|apply IH; assumption].
  rewrite Hp, N.eqb_refl in E. discriminate.
Qed.

Lemma fw_add_keyed {A} (key : A -> N) t x :
  Forall (fun p => fst p = key (snd p)) t -> Forall (fun p => fst p = key (snd p)) (fw_add key t x).
Proof.
  intro H. unfold fw_add. destruct (assoc_get (key x) t); [exact H|].
  apply Forall_app. split; [exact H|]. constructor; [reflexivity | constructor].
Qed.

Lemma fw_add_in {A} (key : A -> N) t x k : In k (map fst (fw_add key t x)) -> k = key x \/ In k (map fst t).
Proof.
  unfold fw_add. destruct (assoc_get (key x) t); [auto|].
  rewrite map_app, in_app_iff. cbn [map fst In]. intros [H|[H|[]]]; auto.
Qed.

Lemma fw_add_fst {A} (key : A -> N) t x :
  map fst (fw_add key t x) = match assoc_get (key x) t with Some _ => map fst t | None => map fst t ++ [key x] end.
Proof. unfold fw_add. destruct (assoc_get (key x) t); [reflexivity|]. rewrite map_app. reflexivity. Qed.

(* ---------- scoping is monotone in the registered ids ---------- *)
Lemma call_scoped_mono cs : forall chs schs chs' schs',
  (forall x, In x chs -> In x chs') -> (forall x, In x schs -> In x schs') ->
  call_scoped chs schs cs -> call_scoped chs' schs' cs.
Proof.
  induction cs as [|c r IH]; intros chs schs chs' schs' H1 H2 H; [exact I|].
  destruct c as [h|sc|c|m|a src|m|]; cbn [call_scoped] in *.
  - eapply IH; eassumption.
  - destruct H as [Hz H]. split; [exact Hz|].
    eapply IH; [exact H1 | | exact H]. intros x [<-|Hx]; [left; reflexivity | right; auto].
  - destruct H as [Hz H]. split; [destruct Hz; auto|].
    eapply IH; [| exact H2 | exact H]. intros x [<-|Hx]; [left; reflexivity | right; auto].
  - destruct H as [Hz H]. split; [auto|]. eapply IH; eassumption.
  - eapply IH; eassumption.
  - eapply IH; eassumption.
  - eapply IH; eassumption.
Qed.

(* ---------- generic invariant of write_all ---------- *)
Lemma write_all_inv {A} (f : A -> wstate -> wres) (P : wstate -> Prop) l :
  (forall x s s', In x l -> P s -> f x s = (s', None) -> P s') ->
  forall s s', P s -> write_all f l s = (s', None) -> P s'.
Proof.
  induction l as [|x r IH]; intros Hf s s' HP H; cbn [write_all] in H.
  - injection H as <-. exact HP.
  - destruct (f x s) as [s1 [e|]] eqn:E; cbn [bindw] in H; [discriminate|].
    apply IH with (s := s1); [| | exact H].
    + intros y sa sb Hy. apply Hf. right. exact Hy.
    + eapply Hf; [left; reflexivity | exact HP | exact E].
Qed.

Section FrameO.
Variable o : wopts.
Notation dw := (dw o).
Notation rec_dst := (rec_dst o).

(* ---------- frame facts ---------- *)
Lemma tabs_dw p s : tabs (dw p s) = tabs s. Proof. reflexivity. Qed.
Lemma tabs_lg it s : tabs (lg it s) = tabs s. Proof. reflexivity. Qed.
Lemma tabs_cw p s : tabs (cw p s) = tabs s. Proof. reflexivity. Qed.
Lemma tabs_rec_dst op body s : tabs (rec_dst op body s) = tabs s. Proof. reflexivity. Qed.
Lemma tabs_rec_chunk op body s : tabs (rec_chunk op body s) = tabs s. Proof. reflexivity. Qed.
Lemma tabs_closed b s : tabs (s <| w_closed := b |>) = tabs s. Proof. reflexivity. Qed.
Lemma tabs_crc c s : tabs (s <| w_crc := c |>) = tabs s. Proof. reflexivity. Qed.
Lemma tabs_footer ss sos s : tabs (footer_state o ss sos s) = tabs s. Proof. reflexivity. Qed.

Lemma T3_rec_dst op body s : T3 (rec_dst op body s) = T3 s. Proof. reflexivity. Qed.
Lemma T3_rec_chunk op body s : T3 (rec_chunk op body s) = T3 s. Proof. reflexivity. Qed.
Lemma T3_chunk_dst k s : T3 (chunk_dst o k s) = T3 s. Proof. reflexivity. Qed.
Lemma T3_wmis mis : forall s, T3 (wmis o mis s) = T3 s.
Proof.
  induction mis as [|mi r IH]; intro s; cbn [wmis fold_left]; [reflexivity|].
  etransitivity; [apply IH | apply T3_rec_dst].
Qed.
Lemma T3_chunk_written k mis s : T3 (chunk_written o k mis s) = T3 s.
Proof.
  unfold chunk_written. cbv zeta.
  set (X := wmis o mis (chunk_dst o k s)).
  transitivity (T3 X); [reflexivity|]. unfold X. rewrite T3_wmis. apply T3_chunk_dst.
Qed.
Lemma T3_flushed compress s : T3 (flushed o compress s) = T3 s.
Proof.
  unfold flushed. cbv zeta.
  match goal with |- T3 (set _ _ (set _ _ (set _ _ (set _ _ ?Y)))) = _ => set (X := Y) end.
  transitivity (T3 X); [reflexivity|]. unfold X. rewrite T3_chunk_written. reflexivity.
Qed.
Lemma T3_flush compress s s' : flush_active_chunk o compress None s = (s', None) -> T3 s' = T3 s.
Proof.
  intro H. destruct (w_cbuf s) eqn:E.
  - rewrite flush_nil in H by exact E. injection H as <-. reflexivity.
  - rewrite flush_eq in H by congruence. injection H as <-. apply T3_flushed.
Qed.
Lemma T3_stats_time t s : T3 (stats_time t s) = T3 s.
Proof.
  unfold stats_time.
  destruct (w_st_end s <? t); wsimpl;
  match goal with |- context [if ?c then _ else _] => destruct c end; reflexivity.
Qed.
Lemma T3_msg_pre m s : T3 (msg_pre m s) = T3 s. Proof. reflexivity. Qed.
Lemma T3_msg_chunk_state m s : T3 (msg_chunk_state m s) = T3 s. Proof. reflexivity. Qed.
Lemma T3_frags fr : forall s, T3 (frags o fr s) = T3 s.
Proof.
  induction fr as [|p r IH]; intro s; cbn [frags fold_left]; [reflexivity|].
  etransitivity; [apply IH | reflexivity].
Qed.
Lemma T3_att_state a src s : T3 (att_state o a src s) = T3 s.
Proof.
  unfold att_state. cbv zeta.
  match goal with |- T3 (set _ _ (set _ _ (lg _ (dw _ (frags o ?f ?Y))))) = _ => set (X := frags o f Y) end.
  transitivity (T3 X); [reflexivity|]. unfold X. rewrite T3_frags. reflexivity.
Qed.
Lemma T3_md_state m s : T3 (md_state o m s) = T3 s. Proof. reflexivity. Qed.

End FrameO.

(* ====================================================================================== *)
(* the summary section with explicit groups                                                 *)
(* ====================================================================================== *)
Section SummaryX.
Variable o : wopts.
Notation dw := (dw o).
Notation rec_dst := (rec_dst o).

Lemma in_chunk_closed s : w_closed s = true -> in_chunk o s = false.
Proof. intro H. unfold in_chunk. rewrite H. apply andb_false_r. Qed.

(* re-writing a registered schema / channel on a closed state does not touch the tables *)
Lemma add_schema_found sc s : assoc_get (s_id sc) (w_schemas s) <> None -> add_schema sc s = s.
Proof. unfold add_schema. destruct (assoc_get (s_id sc) (w_schemas s)); [reflexivity | congruence]. Qed.
Lemma add_channel_found c s : assoc_get (c_id c) (w_channels s) <> None -> add_channel c s = s.
Proof. unfold add_channel. destruct (assoc_get (c_id c) (w_channels s)); [reflexivity | congruence]. Qed.
Lemma schemas_rec_dst op body s : w_schemas (rec_dst op body s) = w_schemas s.
Proof. reflexivity. Qed.
Lemma channels_rec_dst op body s : w_channels (rec_dst op body s) = w_channels s.
Proof. reflexivity. Qed.

Lemma closed_schema_tabs sc s s' :
  w_closed s = true -> assoc_get (s_id sc) (w_schemas s) <> None ->
  write_schema o None sc s = (s', None) -> tabs s' = tabs s.
Proof.
  intros Hc Hk H. apply write_schema_eq in H. rewrite (in_chunk_closed _ Hc) in H. subst s'.
  rewrite add_schema_found; [apply tabs_rec_dst|]. rewrite schemas_rec_dst. exact Hk.
Qed.
Lemma closed_channel_tabs c s s' :
  w_closed s = true -> assoc_get (c_id c) (w_channels s) <> None ->
  write_channel o None c s = (s', None) -> tabs s' = tabs s.
Proof.
  intros Hc Hk H. apply write_channel_eq in H. rewrite (in_chunk_closed _ Hc) in H. subst s'.
  rewrite add_channel_found; [apply tabs_rec_dst|]. rewrite channels_rec_dst. exact Hk.
Qed.

Lemma stage_inv (P : wstate -> Prop) s (offs : list sumoffset) (cond : bool) (run : wstate -> wres) op s1 offs1 :
  P s -> (forall s', run s = (s', None) -> P s') ->
  (if cond then
     match run s with
     | (s', None) => (s', None, offs ++ [group op (w_size s) s'])
     | (s', Some e) => (s', Some e, offs)
     end
   else (s, None, offs)) = (s1, @None err, offs1) -> P s1.
Proof.
  intros HP Hrun H. destruct cond.
  - destruct (run s) as [s' [e|]] eqn:E; [discriminate|]. injection H as <- <-. apply Hrun. reflexivity.
  - injection H as <- <-. exact HP.
Qed.

Lemma write_all_rec_tabs {A} op (enc : A -> bytes) l s s' :
  write_all (fun x => write_record_dst o None op (enc x)) l s = (s', None) -> tabs s' = tabs s.
Proof.
  apply (write_all_inv _ (fun z => tabs z = tabs s)); [|reflexivity].
  intros x sa sb _ HP Hw. cbv beta in Hw. rewrite wrd_eq in Hw. injection Hw as <-.
  rewrite tabs_rec_dst. exact HP.
Qed.

Ltac stage_destruct H E s1 offs1 :=
  match type of H with (match ?X with _ => _ end) = _ =>
    let e1 := fresh "e" in
    destruct X as [[s1 e1] offs1] eqn:E; destruct e1; [discriminate|] end.

Lemma summary_ok_x s0 s' offs :
  w_closed s0 = true -> keyed s0 -> write_summary o None s0 = (s', None, offs) ->
  SumInv s0 s' offs
    (filter nonempty_group
       [(OpSchema, xB1 o s0); (OpChannel, xB2 o s0); (OpStatistics, xB3 o s0);
        (OpChunkIndex, if o_skip_ci o then [] else map enc_chunkindex (w_chunk_indexes s0));
        (OpAttachmentIndex, if o_skip_ai o then [] else map enc_attindex (w_att_indexes s0));
        (OpMetadataIndex, if o_skip_mdi o then [] else map enc_mdindex (w_md_indexes s0))]) /\
  tabs s' = tabs s0.
Proof.
  intros Hc [Ks Kc] H. unfold write_summary in H. cbv zeta in H.
  pose proof (SumInv_init s0 Hc) as I0.
  (* schemas *)
  stage_destruct H E1 s1 offs1.
  assert (T1 : tabs s1 = tabs s0).
  { refine (stage_inv (fun z => tabs z = tabs s0) _ _ _ _ _ _ _ eq_refl _ E1).
    intros s'' Hr.
    refine (proj2 (write_all_inv _ (fun z => w_closed z = true /\ tabs z = tabs s0) _ _ _ _ (conj Hc eq_refl) Hr)).
    intros x sa sb Hx [Hca HTa] Hw. split.
    - destruct (closed_schema o _ _ _ Hca Hw) as [_ (K & _)]. congruence.
    - rewrite <- HTa. apply (closed_schema_tabs x sa sb Hca); [|exact Hw].
      destruct (T3_proj _ _ (tabs_T3 _ _ HTa)) as (-> & _). apply (keyed_get s_id); assumption. }
  eapply (stage_ok _ _ _ _ _ _ _ (map enc_schema (map snd (w_schemas s0)))) in E1; [| exact I0 | |].
  2:{ intros s'' Hr. rewrite map_map. eapply write_all_rel; [| exact Hc | exact Hr].
      intros x s2 s3. apply closed_schema. }
  2:{ intro HH. rewrite map_map. revert HH. apply isnil_map. }
  rewrite map_map, stage_group in E1. cbn [app] in E1.
  assert (K1 : keeps s0 s1) by (apply E1). assert (Hc1 : w_closed s1 = true) by (apply E1).
  destruct (T3_proj _ _ (tabs_T3 _ _ T1)) as (T1s & T1c & _).
  (* channels *)
  stage_destruct H E2 s2 offs2.
  assert (T2 : tabs s2 = tabs s0).
  { refine (stage_inv (fun z => tabs z = tabs s0) _ _ _ _ _ _ _ T1 _ E2).
    intros s'' Hr.
    refine (proj2 (write_all_inv _ (fun z => w_closed z = true /\ tabs z = tabs s0) _ _ _ _ (conj Hc1 T1) Hr)).
    intros x sa sb Hx [Hca HTa] Hw. split.
    - destruct (closed_channel o _ _ _ Hca Hw) as [_ (K & _)]. congruence.
    - rewrite <- HTa. apply (closed_channel_tabs x sa sb Hca); [|exact Hw].
      destruct (T3_proj _ _ (tabs_T3 _ _ HTa)) as (_ & -> & _). rewrite T1c in Hx.
      apply (keyed_get c_id); assumption. }
  eapply (stage_ok _ _ _ _ _ _ _ (map enc_channel (map snd (w_channels s1)))) in E2; [| exact E1 | |].
  2:{ intros s'' Hr. rewrite map_map. eapply write_all_rel; [| exact Hc1 | exact Hr].
      intros x s3 s4. apply closed_channel. }
  2:{ intro HH. rewrite map_map. revert HH. apply isnil_map. }
  rewrite map_map, stage_group, <- filter_app in E2. cbn [app] in E2.
  assert (K2 : keeps s0 s2) by (apply E2). assert (Hc2 : w_closed s2 = true) by (apply E2).
  (* statistics *)
  stage_destruct H E3 s3 offs3.
  assert (T3' : tabs s3 = tabs s0).
  { refine (stage_inv (fun z => tabs z = tabs s0) _ _ _ (write_record_dst o None OpStatistics (enc_statistics (stats_record s2))) _ _ _ T2 _ E3).
    intros s'' Hr. rewrite wrd_eq in Hr. injection Hr as <-. rewrite tabs_rec_dst. exact T2. }
  eapply (stage_ok _ _ _ _ _ _ _ [enc_statistics (stats_record s2)]) in E3; [| exact E2 | |].
  2:{ intros s'' Hr. rewrite wrd_eq in Hr. injection Hr as <-. apply step_rel_rec_dst. }
  2:{ discriminate. }
  rewrite stage_group1, <- filter_app in E3. cbn [app] in E3.
  assert (K3 : keeps s0 s3) by (apply E3). assert (Hc3 : w_closed s3 = true) by (apply E3).
  (* chunk indexes *)
  stage_destruct H E4 s4 offs4.
  assert (T4 : tabs s4 = tabs s0).
  { refine (stage_inv (fun z => tabs z = tabs s0) _ _ _ _ _ _ _ T3' _ E4).
    intros s'' Hr. rewrite (write_all_rec_tabs _ _ _ _ _ Hr). exact T3'. }
  eapply (stage_ok _ _ _ _ _ _ _ (map enc_chunkindex (w_chunk_indexes s3))) in E4; [| exact E3 | |].
  2:{ intros s'' Hr. rewrite map_map. eapply write_all_rel; [| exact Hc3 | exact Hr].
      intros x s5 s6 _ Hw. cbv beta in Hw. rewrite wrd_eq in Hw. injection Hw as <-. apply step_rel_rec_dst. }
  2:{ apply isnil_map. }
  rewrite stage_group, <- filter_app in E4. cbn [app] in E4.
  assert (K4 : keeps s0 s4) by (apply E4). assert (Hc4 : w_closed s4 = true) by (apply E4).
  (* attachment indexes *)
  stage_destruct H E5 s5 offs5.
  assert (T5 : tabs s5 = tabs s0).
  { refine (stage_inv (fun z => tabs z = tabs s0) _ _ _ _ _ _ _ T4 _ E5).
    intros s'' Hr. rewrite (write_all_rec_tabs _ _ _ _ _ Hr). exact T4. }
  eapply (stage_ok _ _ _ _ _ _ _ (map enc_attindex (w_att_indexes s4))) in E5; [| exact E4 | |].
  2:{ intros s'' Hr. rewrite map_map. eapply write_all_rel; [| exact Hc4 | exact Hr].
      intros x s6 s7 _ Hw. cbv beta in Hw. rewrite wrd_eq in Hw. injection Hw as <-. apply step_rel_rec_dst. }
  2:{ apply isnil_map. }
  rewrite stage_group, <- filter_app in E5. cbn [app] in E5.
  assert (K5 : keeps s0 s5) by (apply E5). assert (Hc5 : w_closed s5 = true) by (apply E5).
  (* metadata indexes *)
  assert (T6 : tabs s' = tabs s0).
  { refine (stage_inv (fun z => tabs z = tabs s0) _ _ _ _ _ _ _ T5 _ H).
    intros s'' Hr. rewrite (write_all_rec_tabs _ _ _ _ _ Hr). exact T5. }
  eapply (stage_ok _ _ _ _ _ _ _ (map enc_mdindex (w_md_indexes s5))) in H; [| exact E5 | |].
  2:{ intros s'' Hr. rewrite map_map. eapply write_all_rel; [| exact Hc5 | exact Hr].
      intros x s6 s7 _ Hw. cbv beta in Hw. rewrite wrd_eq in Hw. injection Hw as <-. apply step_rel_rec_dst. }
  2:{ apply isnil_map. }
  rewrite stage_group, <- filter_app in H. cbn [app] in H.
  destruct K3 as (_ & K3c & _). destruct K4 as (_ & _ & K4a & _). destruct K5 as (_ & _ & _ & K5m).
  rewrite K3c, K4a, K5m in H.
  split; [|exact T6].
  rewrite T1c, (tabs_stats _ _ T2) in H. unfold xB1, xB2, xB3. rewrite !map_map. exact H.
Qed.

End SummaryX.

(* ====================================================================================== *)
(* Close with explicit groups                                                               *)
(* ====================================================================================== *)
Section CloseX.
Variable o : wopts.
Variable compress : nat -> bytes -> bytes.

Notation dw := (dw o).
Notation rec_dst := (rec_dst o).
Notation G := (G o compress).

Lemma close_tail_spec_x s1 s' :
  Inv1 s1 -> keyed s1 -> close_tail o s1 = (s', None) ->
  tabs s' = tabs s1 /\
  exists de ss sos crc,
    let gs := summary_groups o (xB1 o s') (xB2 o s') (xB3 o s') s' in
    let data := rev (w_trace s1) ++ [IRec OpDataEnd de] in
    let offs := group_offsets (offset_of data) gs in
    let off_items := if o_skip_so o then [] else map so_item offs in
    emit s1 s' (IRec OpDataEnd de :: sum_items gs ++ off_items ++ [IFooter ss sos crc; IMagic]) /\
    (w_chunk_indexes s' = w_chunk_indexes s1 /\ w_att_indexes s' = w_att_indexes s1 /\
     w_md_indexes s' = w_md_indexes s1) /\
    ss = match gs with [] => 0 | _ => offset_of data end /\
    sos = match off_items with [] => 0 | _ => offset_of (data ++ sum_items gs) end.
Proof using Type.
  clear compress.
  intros HI1 HK1 H.
  unfold close_tail in H. cbv zeta in H. rewrite wrd_eq in H. cbn [bindw] in H.
  set (s2 := s1 <| w_closed := true |>) in *.
  assert (E12 : emit s1 s2 []) by (apply emit_same; reflexivity).
  assert (K12 : w_chunk_indexes s2 = w_chunk_indexes s1 /\ w_att_indexes s2 = w_att_indexes s1 /\
                w_md_indexes s2 = w_md_indexes s1) by (repeat split).
  assert (Hc2 : w_closed s2 = true) by reflexivity.
  assert (T12 : tabs s2 = tabs s1) by (apply tabs_closed).
  clearbody s2.
  set (de := enc_dataend {| de_crc := checksum o s2 |}) in *. clearbody de.
  pose proof (step_rel_rec_dst o OpDataEnd de s2) as R23.
  pose proof (tabs_rec_dst o OpDataEnd de s2) as T23.
  set (s3 := rec_dst OpDataEnd de s2) in *. clearbody s3.
  set (s4 := s3 <| w_crc := crc_init |>) in *.
  assert (R34 : step_rel s3 s4 []).
  { split; [apply emit_same; reflexivity | repeat split]. }
  assert (T34 : tabs s4 = tabs s3) by (apply tabs_crc).
  clearbody s4.
  pose proof (step_rel_trans _ _ _ _ _ R23 R34) as R24. rewrite app_nil_r in R24. clear R23 R34.
  assert (T14 : tabs s4 = tabs s1) by congruence. clear T12 T23 T34 s3.
  assert (HK4 : keyed s4) by (apply (keyed_T3 s1); [apply tabs_T3; exact T14 | exact HK1]).
  assert (Hc4 : w_closed s4 = true) by (destruct R24 as [_ (K & _)]; congruence).
  destruct (write_summary o None s4) as [[s5 e5] offs] eqn:ES. destruct e5; [discriminate|].
  apply summary_ok_x in ES; [|exact Hc4|exact HK4]. destruct ES as (SI & T45).
  match type of SI with SumInv _ _ _ ?g => set (gs := g) in * end.
  destruct SI as (R45 & Hc5 & Hoffs & Hne).
  set (wo := negb (o_skip_so o) && negb (match offs with [] => true | _ => false end)) in *.
  set (off_items := if o_skip_so o then [] else map so_item offs).
  destruct (if wo then write_all (fun so => write_record_dst o None OpSummaryOffset (enc_sumoffset so)) offs s5
            else (s5, None)) as [s6 [e|]] eqn:E6; cbn [bindw] in H; [discriminate|].
  assert (T56 : tabs s6 = tabs s5).
  { destruct wo; [exact (write_all_rec_tabs o _ _ _ _ _ E6) | injection E6 as <-; reflexivity]. }
  assert (R56 : step_rel s5 s6 off_items /\ (wo = false -> off_items = [])).
  { unfold off_items. destruct wo eqn:Ewo.
    - unfold wo in Ewo. apply andb_true_iff in Ewo. destruct Ewo as [Es _].
      destruct (o_skip_so o); [discriminate|]. split; [|discriminate].
      eapply write_all_rel; [| exact Hc5 | exact E6].
      intros x sa sb _ Hw. cbv beta in Hw. rewrite wrd_eq in Hw. injection Hw as <-. apply step_rel_rec_dst.
    - injection E6 as <-. unfold wo in Ewo. destruct (o_skip_so o); cbn [negb andb] in Ewo.
      + split; [apply step_rel_refl | reflexivity].
      + destruct offs; [|discriminate]. split; [apply step_rel_refl | reflexivity]. }
  destruct R56 as [R56 Hwo].
  rewrite write_footer_eq in H. cbn [bindw] in H. rewrite dst_write_none in H. cbn [bindw] in H.
  rewrite log_eq in H.
  match type of H with context [footer_state o ?a ?b s6] => set (ss := a) in *; set (sos := b) in * end.
  destruct (step_rel_footer o ss sos s6) as (crc & R67).
  pose proof (tabs_footer o ss sos s6) as T67.
  set (s7 := footer_state o ss sos s6) in *. clearbody s7.
  pose proof (step_rel_magic o s7) as R78.
  assert (T78 : tabs (lg IMagic (dw magic s7)) = tabs s7) by reflexivity.
  injection H as H. rewrite H in R78, T78. clear H.
  assert (T4' : tabs s' = tabs s4) by congruence.
  pose proof (step_rel_trans _ _ _ _ _ R24
               (step_rel_trans _ _ _ _ _ R45
                 (step_rel_trans _ _ _ _ _ R56 (step_rel_trans _ _ _ _ _ R67 R78)))) as R2.
  destruct R2 as [E2 (_ & K2c & K2a & K2m)].
  pose proof (emit_trans _ _ _ _ _ E12 E2) as E1. cbn [app] in E1.
  destruct K12 as (K1c & K1a & K1m).
  destruct R24 as [E24 (_ & K4c & K4a & K4m)].
  assert (Hsz4 : w_size s4 = offset_of (rev (w_trace s1) ++ [IRec OpDataEnd de])).
  { destruct E24 as (_ & _ & Z). destruct E12 as (_ & _ & Z0).
    rewrite Z, Z0, (Inv1_size _ HI1), rendered_nil, blen_nil, N.add_0_r, offset_of_app. reflexivity. }
  assert (Hsz5 : w_size s5 = offset_of ((rev (w_trace s1) ++ [IRec OpDataEnd de]) ++ sum_items gs)).
  { destruct R45 as [(_ & _ & Z) _]. rewrite Z, Hsz4, (offset_of_app (rev (w_trace s1) ++ [IRec OpDataEnd de])).
    reflexivity. }
  split; [congruence|].
  exists de, ss, sos, crc. cbv zeta.
  assert (Hgs : summary_groups o (xB1 o s') (xB2 o s') (xB3 o s') s' = gs).
  { destruct (xB_tabs o _ _ T4') as (X1 & X2 & X3).
    unfold summary_groups, gs. rewrite X1, X2, X3, K2c, K2a, K2m, K4c, K4a, K4m. reflexivity. }
  rewrite Hgs, <- Hsz4, <- Hoffs. fold off_items.
  split; [|split; [|split]].
  - exact E1.
  - rewrite K2c, K2a, K2m, K1c, K1a, K1m. repeat split.
  - unfold ss. rewrite Hoffs. destruct gs; reflexivity.
  - unfold sos. rewrite <- Hsz5.
    assert (Hw1 : wo = true -> off_items <> []).
    { unfold wo, off_items. destruct (o_skip_so o); [discriminate|]. destruct offs; discriminate. }
    destruct wo.
    + destruct off_items; [exfalso; apply Hw1; reflexivity | reflexivity].
    + rewrite Hwo by reflexivity. reflexivity.
Qed.

Lemma close_tail_ok_x pre s1 D s' :
  G pre s1 D -> keyed s1 -> close_tail o s1 = (s', None) -> ClosedFileX o compress pre s' /\ tabs s' = tabs s1.
Proof.
  intros HG HK H.
  pose proof (G_inv1 _ _ _ _ _ HG) as HI1.
  assert (HD : DataOk o compress pre D (w_chunk_indexes s1) (w_att_indexes s1) (w_md_indexes s1)).
  { destruct HG as [(_ & _ & _ & _ & G5 & G6 & G7 & G8 & _ & G10) _]. repeat split; assumption. }
  assert (HT : rev (w_trace s1) = pre ++ flatten D) by apply HG.
  destruct (close_tail_spec_x _ _ HI1 HK H) as (HTab & de & ss & sos & crc & HS).
  split; [|exact HTab].
  cbv zeta in HS. destruct HS as (E1 & (Kc & Ka & Km) & Hss & Hsos).
  exists D, de, ss, sos, crc. cbv zeta.
  rewrite HT, <- app_assoc in Hss, Hsos, E1.
  split; [|split; [|split; [|split]]].
  - destruct E1 as (T & _). rewrite T, rev_app_distr, rev_involutive, HT, <- !app_assoc. reflexivity.
  - eapply Inv1_emit; [exact HI1 | exact E1].
  - rewrite Kc, Ka, Km. exact HD.
  - exact Hss.
  - exact Hsos.
Qed.

Lemma close_G_x pre s D s' :
  G pre s D -> keyed s -> close o compress None s = (s', None) -> ClosedFileX o compress pre s'.
Proof.
  intros HG HK H. rewrite close_split in H.
  assert (exists s1 D1, G pre s1 D1 /\ keyed s1 /\ close_tail o s1 = (s', None)) as (s1 & D1 & HG1 & HK1 & HT).
  { destruct (o_chunked o) eqn:Hc.
    - destruct (flush_active_chunk o compress None s) as [s1 [e|]] eqn:EF;
        [rewrite bindw_err in H; discriminate | rewrite bindw_ok in H].
      destruct (flush_G _ _ _ _ _ _ HG Hc EF) as (D' & HG').
      exists s1, (D ++ D'). split; [exact HG'|]. split; [|exact H].
      apply (keyed_T3 s); [exact (T3_flush o compress _ _ EF) | exact HK].
    - rewrite bindw_ok in H. eauto. }
  exact (proj1 (close_tail_ok_x _ _ _ _ HG1 HK1 HT)).
Qed.

(* Close on an arbitrary (consistent) state with keyed tables leaves the three tables alone *)
Lemma close_T3 s s' : Inv1 s -> keyed s -> close o compress None s = (s', None) -> T3 s' = T3 s.
Proof.
  intros HI HK H. rewrite close_split in H.
  assert (exists s1, Inv1 s1 /\ T3 s1 = T3 s /\ close_tail o s1 = (s', None)) as (s1 & HI1 & HT1 & HT).
  { destruct (o_chunked o).
    - destruct (flush_active_chunk o compress None s) as [s1 [e|]] eqn:EF;
        [rewrite bindw_err in H; discriminate | rewrite bindw_ok in H].
      exists s1. split; [|split; [exact (T3_flush o compress _ _ EF) | exact H]].
      destruct (flush_emit o compress _ _ EF) as (it1 & E1). eapply Inv1_emit; eassumption.
    - rewrite bindw_ok in H. exists s. split; [exact HI | split; [reflexivity | exact H]]. }
  rewrite <- HT1. apply tabs_T3.
  exact (proj1 (close_tail_spec_x _ _ HI1 (keyed_T3 _ _ HT1 HK) HT)).
Qed.

End CloseX.

(* ====================================================================================== *)
(* tables and scoping along a run                                                           *)
(* ====================================================================================== *)
Lemma call_scoped_same c r chs schs :
  match c with CSchema _ | CChannel _ | CMessage _ => False | _ => True end ->
  call_scoped chs schs (c :: r) = call_scoped chs schs r.
Proof. destruct c; intros []; reflexivity. Qed.

Section RunX.
Variable o : wopts.
Variable lib_id : bytes.
Variable compress : nat -> bytes -> bytes.

Notation dw := (dw o).
Notation rec_dst := (rec_dst o).
Notation G := (G o compress).
Notation step := (step o lib_id compress None).
Notation run_ok := (run_ok o lib_id compress).

Lemma schema_step sc s s' : write_schema o None sc s = (s', None) ->
  s_id sc <> 0 /\ w_schemas s' = fw_add s_id (w_schemas s) sc /\
  w_channels s' = w_channels s /\ w_channel_ids s' = w_channel_ids s.
Proof.
  intro H. split.
  - unfold write_schema in H. destruct (s_id sc =? 0) eqn:E; [discriminate|]. apply N.eqb_neq. exact E.
  - apply write_schema_eq in H.
    set (X := if in_chunk o s then rec_chunk OpSchema (enc_schema sc) s else rec_dst OpSchema (enc_schema sc) s) in H.
    assert (HX : T3 X = T3 s) by (unfold X; destruct (in_chunk o s); reflexivity).
    clearbody X. destruct (T3_proj _ _ HX) as (X1 & X2 & X3). subst s'.
    unfold add_schema, fw_add. rewrite X1.
    destruct (assoc_get (s_id sc) (w_schemas s)); wsimpl; rewrite ?X1; auto.
Qed.

Lemma channel_step c s s' : write_channel o None c s = (s', None) ->
  (c_schema c = 0 \/ In (c_schema c) (map fst (w_schemas s))) /\ w_schemas s' = w_schemas s /\
  w_channels s' = fw_add c_id (w_channels s) c /\
  w_channel_ids s' = match assoc_get (c_id c) (w_channels s) with
                     | Some _ => w_channel_ids s | None => w_channel_ids s ++ [c_id c] end.
Proof.
  intro H. split.
  - unfold write_channel in H.
    destruct (0 <? c_schema c) eqn:E0; [|left; apply N.ltb_ge in E0; apply N.le_0_r; exact E0].
    destruct (assoc_get (c_schema c) (w_schemas s)) as [sc|] eqn:E1; cbn [andb negb] in H; [|discriminate].
    right. eapply assoc_get_Some_in. exact E1.
  - apply write_channel_eq in H.
    set (X := if in_chunk o s then rec_chunk OpChannel (enc_channel c) s else rec_dst OpChannel (enc_channel c) s) in H.
    assert (HX : T3 X = T3 s) by (unfold X; destruct (in_chunk o s); reflexivity).
    clearbody X. destruct (T3_proj _ _ HX) as (X1 & X2 & X3). subst s'.
    unfold add_channel, fw_add. rewrite X2.
    destruct (assoc_get (c_id c) (w_channels s)); wsimpl; rewrite ?X1, ?X2, ?X3; auto.
Qed.

Lemma message_step m s s' : write_message o compress None m s = (s', None) ->
  In (m_chan m) (map fst (w_channels s)) /\ T3 s' = T3 s.
Proof.
  intro H. apply write_message_eq in H. destruct H as (ch & Hch & ->). split.
  - eapply assoc_get_Some_in. exact Hch.
  - rewrite T3_stats_time. destruct (in_chunk o s).
    + destruct (o_chunksize o <? Z.of_N (blen (w_cbuf (msg_chunk_state m s))))%Z.
      * rewrite T3_flushed. apply T3_msg_chunk_state.
      * apply T3_msg_chunk_state.
    + rewrite T3_rec_dst. apply T3_msg_pre.
Qed.

(* the calls that leave the tables alone *)
Lemma other_step c s s' :
  match c with CSchema _ | CChannel _ | CMessage _ => False | _ => True end ->
  Inv1 s -> keyed s -> step c s = (s', None) -> T3 s' = T3 s.
Proof.
  intros Hc HI HK H. destruct c as [h|sc|c|m|a src|m|]; try destruct Hc; cbn [Writer.step] in H.
  - rewrite write_header_eq in H. injection H as <-. apply T3_rec_dst.
  - apply write_attachment_eq in H. destruct H as [-> _]. apply T3_att_state.
  - rewrite write_metadata_eq in H. injection H as <-. apply T3_md_state.
  - eapply close_T3; eassumption.
Qed.

Lemma T3_keep_inv s s1 : T3 s1 = T3 s -> keyed s -> w_channel_ids s = map fst (w_channels s) ->
  keyed s1 /\ w_channel_ids s1 = map fst (w_channels s1).
Proof.
  intros HT HK HC. split; [eapply keyed_T3; eassumption|].
  destruct (T3_proj _ _ HT) as (_ & -> & ->). exact HC.
Qed.

Lemma run_tabs cs : forall s s',
  Inv1 s -> keyed s -> w_channel_ids s = map fst (w_channels s) -> run_ok cs s = Some s' ->
  w_schemas s' = fold_left (fw_add s_id) (schema_calls cs) (w_schemas s) /\
  w_channels s' = fold_left (fw_add c_id) (channel_calls cs) (w_channels s) /\
  w_channel_ids s' = map fst (w_channels s') /\ keyed s' /\
  call_scoped (map fst (w_channels s)) (map fst (w_schemas s)) cs.
Proof.
  induction cs as [|c r IH]; intros s s' HI HK HC H; cbn [WriterFactsC.run_ok] in H.
  - injection H as <-. cbn [schema_calls channel_calls flat_map fold_left call_scoped]. auto.
  - destruct (step c s) as [s1 [e|]] eqn:E; [discriminate|].
    pose proof (step_inv1 _ _ _ _ _ _ HI E) as HI1.
    assert (Hsame : T3 s1 = T3 s ->
              w_schemas s' = fold_left (fw_add s_id) (schema_calls r) (w_schemas s) /\
              w_channels s' = fold_left (fw_add c_id) (channel_calls r) (w_channels s) /\
              w_channel_ids s' = map fst (w_channels s') /\ keyed s' /\
              call_scoped (map fst (w_channels s)) (map fst (w_schemas s)) r).
    { intro HT. destruct (T3_keep_inv _ _ HT HK HC) as (HK1 & HC1).
      destruct (T3_proj _ _ HT) as (T1 & T2 & _). rewrite <- T1, <- T2.
      apply IH; assumption. }
    destruct c as [h|sc|c|m|a src|m|].
    + rewrite call_scoped_same by exact I. apply Hsame. apply (other_step (CHeader h)); auto.
    + cbn [Writer.step] in E. destruct (schema_step _ _ _ E) as (Hz & S1 & S2 & S3).
      assert (HK1 : keyed s1).
      { destruct HK as [Ks Kc]. split; [rewrite S1; apply fw_add_keyed; exact Ks | rewrite S2; exact Kc]. }
      assert (HC1 : w_channel_ids s1 = map fst (w_channels s1)) by (rewrite S2, S3; exact HC).
      destruct (IH _ _ HI1 HK1 HC1 H) as (R1 & R2 & R3 & R4 & R5).
      rewrite S1 in R1. rewrite S2 in R2.
      change (schema_calls (CSchema sc :: r)) with (sc :: schema_calls r).
      change (channel_calls (CSchema sc :: r)) with (channel_calls r).
      cbn [fold_left call_scoped].
      split; [exact R1|]. split; [exact R2|]. split; [exact R3|]. split; [exact R4|]. split; [exact Hz|].
      eapply call_scoped_mono; [| | exact R5].
      * rewrite S2. auto.
      * rewrite S1. intros x Hx. apply fw_add_in in Hx. destruct Hx as [->|Hx]; [left; reflexivity | right; exact Hx].
    + cbn [Writer.step] in E. destruct (channel_step _ _ _ E) as (Hz & S1 & S2 & S3).
      assert (HK1 : keyed s1).
      { destruct HK as [Ks Kc]. split; [rewrite S1; exact Ks | rewrite S2; apply fw_add_keyed; exact Kc]. }
      assert (HC1 : w_channel_ids s1 = map fst (w_channels s1)).
      { rewrite S2, S3, fw_add_fst. destruct (assoc_get (c_id c) (w_channels s)); rewrite HC; reflexivity. }
      destruct (IH _ _ HI1 HK1 HC1 H) as (R1 & R2 & R3 & R4 & R5).
      rewrite S1 in R1. rewrite S2 in R2.
      change (schema_calls (CChannel c :: r)) with (schema_calls r).
      change (channel_calls (CChannel c :: r)) with (c :: channel_calls r).
      cbn [fold_left call_scoped].
      split; [exact R1|]. split; [exact R2|]. split; [exact R3|]. split; [exact R4|]. split; [exact Hz|].
      eapply call_scoped_mono; [| | exact R5].
      * rewrite S2. intros x Hx. apply fw_add_in in Hx. destruct Hx as [->|Hx]; [left; reflexivity | right; exact Hx].
      * rewrite S1. auto.
    + cbn [Writer.step] in E. destruct (message_step _ _ _ E) as (Hm & HT).
      destruct (Hsame HT) as (R1 & R2 & R3 & R4 & R5).
      change (schema_calls (CMessage m :: r)) with (schema_calls r).
      change (channel_calls (CMessage m :: r)) with (channel_calls r).
      cbn [call_scoped]. split; [exact R1|]. split; [exact R2|]. split; [exact R3|]. split; [exact R4|]. split; [exact Hm | exact R5].
    + rewrite call_scoped_same by exact I. apply Hsame. apply (other_step (CAttachment a src)); auto.
    + rewrite call_scoped_same by exact I. apply Hsame. apply (other_step (CMetadata m)); auto.
    + rewrite call_scoped_same by exact I. apply Hsame. apply (other_step CClose); auto.
Qed.

(* ---------- start of the run ---------- *)
Lemma new_writer_T3 s0 : new_writer o None = (s0, None) -> T3 s0 = T3 init_state.
Proof using Type.
  clear lib_id compress. unfold new_writer. destruct (o_skip_magic o).
  - rewrite bindw_ok. intro H.
    assert (s0 = init_state) as ->.
    { destruct (o_chunked o); [|congruence]. destruct (o_custom o).
      - destruct (bytes_eqb (o_comp o) []); congruence.
      - destruct (bytes_eqb (o_comp o) comp_zstd || bytes_eqb (o_comp o) comp_lz4 || bytes_eqb (o_comp o) []); congruence. }
    reflexivity.
  - rewrite dst_write_none, bindw_ok, log_eq, bindw_ok. intro H.
    assert (s0 = lg IMagic (dw magic init_state)) as ->.
    { destruct (o_chunked o); [|congruence]. destruct (o_custom o).
      - destruct (bytes_eqb (o_comp o) []); congruence.
      - destruct (bytes_eqb (o_comp o) comp_zstd || bytes_eqb (o_comp o) comp_lz4 || bytes_eqb (o_comp o) []); congruence. }
    reflexivity.
Qed.

Lemma new_writer_tabs s0 : new_writer o None = (s0, None) ->
  Inv1 s0 /\ keyed s0 /\ w_channel_ids s0 = map fst (w_channels s0) /\ w_schemas s0 = [] /\ w_channels s0 = [].
Proof using Type.
  clear lib_id compress. intro HN. destruct (new_writer_ok _ _ HN) as (HI & _).
  destruct (T3_proj _ _ (new_writer_T3 _ HN)) as (T1 & T2 & T3').
  cbn [init_state w_schemas w_channels w_channel_ids] in T1, T2, T3'.
  unfold keyed. rewrite T1, T2, T3'. split; [exact HI|]. split; [split; constructor|]. repeat split; reflexivity.
Qed.

Theorem run_tables s0 cs s' :
  new_writer o None = (s0, None) -> run_ok cs s0 = Some s' ->
  w_schemas s' = fold_left (fw_add s_id) (schema_calls cs) [] /\
  w_channels s' = fold_left (fw_add c_id) (channel_calls cs) [] /\
  w_channel_ids s' = map fst (w_channels s') /\ keyed s' /\ call_scoped [] [] cs.
Proof.
  intros HN HR. destruct (new_writer_tabs _ HN) as (HI & HK & HC & HS0 & HC0).
  pose proof (run_tabs _ _ _ HI HK HC HR) as HT. rewrite HS0, HC0 in HT. exact HT.
Qed.

Theorem run_closed_file_x s0 cs s' :
  new_writer o None = (s0, None) -> legal_shape cs = true -> Forall att_small_call cs ->
  run_ok cs s0 = Some s' ->
  exists h, (exists body, cs = CHeader h :: body ++ [CClose]) /\ ClosedFileX o compress (file_prefix o lib_id h) s'.
Proof.
  intros HN HL HA HR. destruct (legal_shape_inv _ HL) as (h & body & -> & HB).
  exists h. split; [eauto|].
  change (CHeader h :: body ++ [CClose]) with ((CHeader h :: body) ++ [CClose]) in HR.
  destruct (run_ok_app _ _ _ _ _ _ _ HR) as (s2 & HR2 & HR3).
  assert (HK2 : keyed s2) by (apply (run_tables _ _ _ HN HR2)).
  cbn [WriterFactsC.run_ok] in HR2. destruct (step (CHeader h) s0) as [s1 [e|]] eqn:E1; [discriminate|].
  pose proof (header_G _ _ _ _ _ _ HN E1) as HG1.
  assert (HD : Forall (data_call) body).
  { inversion HA as [|x l _ HA']; subst. apply Forall_app in HA'. destruct HA' as [HA' _].
    rewrite Forall_forall in *. intros c HI. destruct (HB c HI). repeat split; auto. }
  destruct (run_G _ _ _ _ _ _ _ _ HD HG1 HR2) as (D2 & HG2).
  cbn [WriterFactsC.run_ok Writer.step] in HR3.
  destruct (close o compress None s2) as [s3 [e|]] eqn:E3; [discriminate|]. injection HR3 as <-.
  eapply close_G_x; eassumption.
Qed.

End RunX.

(* ====================================================================================== *)
(* the two theorems                                                                         *)
(* ====================================================================================== *)
Theorem closed_file_x : forall (o : wopts) (lib_id : bytes) (compress : nat -> bytes -> bytes) (cs : list wcall),
  let R := W o lib_id compress None cs in
  let eo := effective_opts o in
  r_new R = None -> all_ok (r_calls R) -> legal_shape cs = true -> Forall att_small_call cs ->
  exists h, (exists body, cs = CHeader h :: body ++ [CClose]) /\
    ClosedFileX eo compress (file_prefix eo lib_id h) (r_final R).
Proof.
  intros o lib_id compress cs R eo HN HA HL HS.
  destruct (W_run o lib_id compress cs HN HA) as (s0 & HN0 & HR & _).
  exact (run_closed_file_x _ _ _ _ _ _ HN0 HL HS HR).
Qed.

(* any successful run (no shape hypothesis): tables and scoping *)
Theorem tables_of_run : forall (o : wopts) (lib_id : bytes) (compress : nat -> bytes -> bytes) (cs : list wcall),
  let R := W o lib_id compress None cs in
  r_new R = None -> all_ok (r_calls R) ->
  w_schemas (r_final R) = fold_left (fw_add s_id) (schema_calls cs) [] /\
  w_channels (r_final R) = fold_left (fw_add c_id) (channel_calls cs) [] /\
  w_channel_ids (r_final R) = map fst (w_channels (r_final R)) /\
  keyed (r_final R) /\
  call_scoped [] [] cs.
Proof.
  intros o lib_id compress cs R HN HA.
  destruct (W_run o lib_id compress cs HN HA) as (s0 & HN0 & HR & _).
  exact (run_tables _ _ _ _ _ _ HN0 HR).
Qed.



(* ====================================================================================== *)
(* non-vacuity                                                                              *)
(* ====================================================================================== *)

(* both theorems instantiated on the workload of properties/C05.v: chunked (chunk size 1: every
   message closes a chunk) and unchunked; hypotheses by vm_compute, see C05.ex_hyps_chunked and C05.ex_hyps_unchunked *)
Example ex_closed_file_x_chunked :
  let o := C05.ex_o true 1 in
  exists h, (exists body, C05.ex_cs = CHeader h :: body ++ [CClose]) /\
    ClosedFileX (effective_opts o) C05.ex_id (file_prefix (effective_opts o) [x6c] h)
      (r_final (W o [x6c] C05.ex_id None C05.ex_cs)).
Proof.
  destruct C05.ex_hyps_chunked as (H1 & H2 & H3 & H4).
  exact (closed_file_x _ _ _ _ H1 H2 H3 H4).
Qed.
Example ex_closed_file_x_unchunked :
  let o := C05.ex_o false 0 in
  exists h, (exists body, C05.ex_cs = CHeader h :: body ++ [CClose]) /\
    ClosedFileX (effective_opts o) C05.ex_id (file_prefix (effective_opts o) [x6c] h)
      (r_final (W o [x6c] C05.ex_id None C05.ex_cs)).
Proof.
  destruct C05.ex_hyps_unchunked as (H1 & H2 & H3 & H4).
  exact (closed_file_x _ _ _ _ H1 H2 H3 H4).
Qed.

Example ex_tables_of_run_chunked :
  let s := r_final (W (C05.ex_o true 1) [x6c] C05.ex_id None C05.ex_cs) in
  w_schemas s = fold_left (fw_add s_id) (schema_calls C05.ex_cs) [] /\
  w_channels s = fold_left (fw_add c_id) (channel_calls C05.ex_cs) [] /\
  w_channel_ids s = map fst (w_channels s) /\ keyed s /\ call_scoped [] [] C05.ex_cs.
Proof.
  destruct C05.ex_hyps_chunked as (H1 & H2 & _).
  exact (tables_of_run _ _ _ _ H1 H2).
Qed.
Example ex_tables_of_run_unchunked :
  let s := r_final (W (C05.ex_o false 0) [x6c] C05.ex_id None C05.ex_cs) in
  w_schemas s = fold_left (fw_add s_id) (schema_calls C05.ex_cs) [] /\
  w_channels s = fold_left (fw_add c_id) (channel_calls C05.ex_cs) [] /\
  w_channel_ids s = map fst (w_channels s) /\ keyed s /\ call_scoped [] [] C05.ex_cs.
Proof.
  destruct C05.ex_hyps_unchunked as (H1 & H2 & _).
  exact (tables_of_run _ _ _ _ H1 H2).
Qed.
(* the tables are not empty, and a repeated registration is dropped (first wins) *)
Example ex_tables_values :
  let s := r_final (W (C05.ex_o true 1) [x6c] C05.ex_id None C05.ex_cs) in
  map fst (w_schemas s) = [1] /\ map fst (w_channels s) = [1; 2] /\ w_channel_ids s = [1; 2] /\
  map fst (fold_left (fw_add c_id) (channel_calls (C05.ex_cs ++ C05.ex_cs)) []) = [1; 2].
Proof. vm_compute. repeat split. Qed.

(* the explicit groups of the chunked run: one schema, two channels, one statistics record; six
   non-empty groups with ten records in all, and these are exactly the ten trace items between the
   DataEnd record (item 12) and the six summary offset records *)
Example ex_groups_chunked :
  let o := effective_opts (C05.ex_o true 1) in
  let s := r_final (W (C05.ex_o true 1) [x6c] C05.ex_id None C05.ex_cs) in
  let gs := summary_groups o (xB1 o s) (xB2 o s) (xB3 o s) s in
  let tr := rev (w_trace s) in
  length (xB1 o s) = 1%nat /\ length (xB2 o s) = 2%nat /\ length (xB3 o s) = 1%nat /\
  map fst gs = [OpSchema; OpChannel; OpStatistics; OpChunkIndex; OpAttachmentIndex; OpMetadataIndex] /\
  map (fun g => length (snd g)) gs = [1; 2; 1; 4; 1; 1]%nat /\
  length (sum_items gs) = 10%nat /\ length tr = 31%nat /\
  map (fun it => match it with IRec op _ => Some op | _ => None end) (firstn 1 (skipn 12 tr)) = [Some OpDataEnd] /\
  firstn 10 (skipn 13 tr) = sum_items gs /\
  skipn 23 tr = map so_item (group_offsets (offset_of (firstn 13 tr)) gs) ++ skipn 29 tr /\
  map (fun it => match it with IFooter _ _ _ => 1 | IMagic => 2 | _ => 0 end) (skipn 29 tr) = [1; 2].
Proof. vm_compute. repeat split. Qed.
End E2E_Writer.

From Mcap Require Import Lexer LexSpec LexerFactsB ComposeFacts Reader Iter ReaderFacts ReaderFacts2.

(* ====================================================================================== *)
(** * The sequential read on typed records *)
Module E2E_Scan.
(* typed schema / channel / message records *)
Inductive arec := ASchema (s : schema) | AChannel (c : channel) | AMessage (m : message).
Definition arec_ev (a : arec) : event :=
  match a with
  | ASchema s => EvToken OpSchema (enc_schema s)
  | AChannel c => EvToken OpChannel (enc_channel c)
  | AMessage m => EvToken OpMessage (enc_message m)
  end.
Definition wf_arec (a : arec) : Prop :=
  match a with ASchema s => wf_schema s | AChannel c => wf_channel c | AMessage m => wf_message m end.
Definition amsgs (l : list arec) : list message :=
  flat_map (fun a => match a with AMessage m => [m] | _ => [] end) l.

(* the message part of scan_spec on typed records; None = the scan ends with an error *)
Fixpoint ascan (ro : ropts) (sch : list (N * schema)) (chs : list (N * channel)) (l : list arec)
  : option (list triple) :=
  match l with
  | [] => Some []
  | ASchema s :: r => ascan ro (tab_set (s_id s) s sch) chs r
  | AChannel c :: r =>
    if topic_selected (ro_topics ro) (c_topic c)
    then ascan ro sch (tab_set (c_id c) (channel_norm c) chs) r
    else ascan ro sch chs r
  | AMessage m :: r =>
    match tab_get (m_chan m) chs with
    | None => ascan ro sch chs r
    | Some c =>
      if in_window ro (m_log m) then
        match tab_get (c_schema c) sch with
        | Some sc => option_map (cons (Some sc, c, m)) (ascan ro sch chs r)
        | None => if c_schema c =? 0 then option_map (cons (None, c, m)) (ascan ro sch chs r) else None
        end
      else ascan ro sch chs r
    end
  end.

(* events the scan tolerates: tokens only; a metadata token must parse when a callback is installed *)
Definition ev_benign (ro : ropts) (e : event) : Prop :=
  match e with
  | EvToken op body => op = OpMetadata -> ro_md_cb ro = true -> exists md, parse_metadata body = Ok md
  | _ => False
  end.

(* ---- auxiliary facts for D1 ---- *)
Lemma auto_op_false op :
  Byte.eqb op OpSchema = false -> Byte.eqb op OpChannel = false -> Byte.eqb op OpMessage = false ->
  auto_op op = false.
Proof. intros E1 E2 E3. unfold auto_op. rewrite E1, E2, E3. reflexivity. Qed.

Lemma arec_ev_schema a body : arec_ev a = EvToken OpSchema body -> exists s, a = ASchema s /\ body = enc_schema s.
Proof.
  destruct a as [s|c|m]; cbn [arec_ev]; intro H.
  - inversion H. eauto.
  - exfalso. unfold OpChannel, OpSchema in H. discriminate H.
  - exfalso. unfold OpMessage, OpSchema in H. discriminate H.
Qed.
Lemma arec_ev_channel a body : arec_ev a = EvToken OpChannel body -> exists c, a = AChannel c /\ body = enc_channel c.
Proof.
  destruct a as [s|c|m]; cbn [arec_ev]; intro H.
  - exfalso. unfold OpChannel, OpSchema in H. discriminate H.
  - inversion H. eauto.
  - exfalso. unfold OpMessage, OpChannel in H. discriminate H.
Qed.
Lemma arec_ev_message a body : arec_ev a = EvToken OpMessage body -> exists m, a = AMessage m /\ body = enc_message m.
Proof.
  destruct a as [s|c|m]; cbn [arec_ev]; intro H.
  - exfalso. unfold OpMessage, OpSchema in H. discriminate H.
  - exfalso. unfold OpMessage, OpChannel in H. discriminate H.
  - inversion H. eauto.
Qed.

Lemma parse_enc_schema0 s : wf_schema s -> parse_schema (enc_schema s) = Ok s.
Proof. intro W. rewrite <- (app_nil_r (enc_schema s)). apply parse_enc_schema, W. Qed.
Lemma parse_enc_channel0 c : wf_channel c -> parse_channel (enc_channel c) = Ok (channel_norm c).
Proof. intro W. rewrite <- (app_nil_r (enc_channel c)). apply parse_enc_channel, W. Qed.

Lemma cons_msg_Ok t ms mds fin : cons_msg t (Ok (ms, mds, fin)) = Ok (t :: ms, mds, fin).
Proof. reflexivity. Qed.
Lemma cons_md_Ok m ms mds fin : cons_md m (Ok (ms, mds, fin)) = Ok (ms, m :: mds, fin).
Proof. reflexivity. Qed.

Lemma option_map_some {A B} (f : A -> B) o y : option_map f o = Some y -> exists x, o = Some x /\ y = f x.
Proof. destruct o as [x|]; cbn [option_map]; intro H; inversion H. eauto. Qed.

(* D1: scan_spec factors through the schema/channel/message tokens (ComposeFacts.ev_auto) *)
Theorem scan_spec_auto ro : forall evs sch chs fin L ms,
  filter ev_auto evs = map arec_ev L -> Forall wf_arec L -> Forall (ev_benign ro) evs ->
  ascan ro sch chs L = Some ms ->
  scan_spec ro sch chs evs fin = Ok (ms, (if ro_md_cb ro then md_list evs else []), fin).
Proof.
  destruct (ro_md_cb ro) eqn:Hcb.
  - (* callback installed *)
    induction evs as [|ev evs IH]; intros sch chs fin L ms HF HW HB HA.
    + cbn [filter] in HF. destruct L as [|a L]; [|discriminate HF].
      cbn [ascan] in HA. inversion HA; subst. reflexivity.
    + inversion HB as [|? ? Hb HB']; subst.
      destruct ev as [op body| |a0]; [|destruct Hb|destruct Hb].
      cbn [scan_spec md_list]. cbn [filter ev_auto] in HF.
      destruct (Byte.eqb op OpSchema) eqn:E1.
      { apply byte_eqb_eq in E1. subst op.
        change (auto_op OpSchema) with true in HF. cbv iota in HF.
        destruct L as [|a L]; [discriminate HF|]. cbn [map] in HF.
        injection HF as Ha HF. symmetry in Ha. apply arec_ev_schema in Ha. destruct Ha as (s & -> & ->).
        inversion HW as [|? ? Hw HW']; subst. cbn [wf_arec] in Hw.
        rewrite (parse_enc_schema0 s Hw). change (Byte.eqb OpSchema OpMetadata) with false. cbv iota.
        cbn [ascan] in HA. apply IH with (L := L); assumption. }
      destruct (Byte.eqb op OpChannel) eqn:E2.
      { apply byte_eqb_eq in E2. subst op.
        change (auto_op OpChannel) with true in HF. cbv iota in HF.
        destruct L as [|a L]; [discriminate HF|]. cbn [map] in HF.
        injection HF as Ha HF. symmetry in Ha. apply arec_ev_channel in Ha. destruct Ha as (c & -> & ->).
        inversion HW as [|? ? Hw HW']; subst. cbn [wf_arec] in Hw.
        rewrite (parse_enc_channel0 c Hw). change (Byte.eqb OpChannel OpMetadata) with false. cbv iota.
        cbn [ascan] in HA. change (c_topic (channel_norm c)) with (c_topic c).
        change (c_id (channel_norm c)) with (c_id c).
        destruct (topic_selected (ro_topics ro) (c_topic c)); apply IH with (L := L); assumption. }
      destruct (Byte.eqb op OpMessage) eqn:E3.
      { apply byte_eqb_eq in E3. subst op.
        change (auto_op OpMessage) with true in HF. cbv iota in HF.
        destruct L as [|a L]; [discriminate HF|]. cbn [map] in HF.
        injection HF as Ha HF. symmetry in Ha. apply arec_ev_message in Ha. destruct Ha as (m & -> & ->).
        inversion HW as [|? ? Hw HW']; subst. cbn [wf_arec] in Hw.
        rewrite (parse_enc_message m Hw). change (Byte.eqb OpMessage OpMetadata) with false. cbv iota.
        cbn [ascan] in HA.
        destruct (tab_get (m_chan m) chs) as [c|]; [|apply IH with (L := L); assumption].
        destruct (in_window ro (m_log m)); [|apply IH with (L := L); assumption].
        destruct (tab_get (c_schema c) sch) as [sc|].
        - apply option_map_some in HA. destruct HA as (ms' & HA & ->).
          rewrite (IH sch chs fin L ms' HF HW' HB' HA). reflexivity.
        - destruct (c_schema c =? 0); [|discriminate HA].
          apply option_map_some in HA. destruct HA as (ms' & HA & ->).
          rewrite (IH sch chs fin L ms' HF HW' HB' HA). reflexivity. }
      rewrite (auto_op_false op E1 E2 E3) in HF. rewrite Hcb, andb_true_r.
      destruct (Byte.eqb op OpMetadata) eqn:E4.
      { cbn [ev_benign] in Hb. apply byte_eqb_eq in E4.
        destruct (Hb E4 Hcb) as (md & Hmd). rewrite Hmd.
        rewrite (IH sch chs fin L ms HF HW HB' HA). reflexivity. }
      apply IH with (L := L); assumption.
  - (* no callback *)
    induction evs as [|ev evs IH]; intros sch chs fin L ms HF HW HB HA.
    + cbn [filter] in HF. destruct L as [|a L]; [|discriminate HF].
      cbn [ascan] in HA. inversion HA; subst. reflexivity.
    + inversion HB as [|? ? Hb HB']; subst.
      destruct ev as [op body| |a0]; [|destruct Hb|destruct Hb].
      cbn [scan_spec]. cbn [filter ev_auto] in HF.
      destruct (Byte.eqb op OpSchema) eqn:E1.
      { apply byte_eqb_eq in E1. subst op.
        change (auto_op OpSchema) with true in HF. cbv iota in HF.
        destruct L as [|a L]; [discriminate HF|]. cbn [map] in HF.
        injection HF as Ha HF. symmetry in Ha. apply arec_ev_schema in Ha. destruct Ha as (s & -> & ->).
        inversion HW as [|? ? Hw HW']; subst. cbn [wf_arec] in Hw.
        rewrite (parse_enc_schema0 s Hw).
        cbn [ascan] in HA. apply IH with (L := L); assumption. }
      destruct (Byte.eqb op OpChannel) eqn:E2.
      { apply byte_eqb_eq in E2. subst op.
        change (auto_op OpChannel) with true in HF. cbv iota in HF.
        destruct L as [|a L]; [discriminate HF|]. cbn [map] in HF.
        injection HF as Ha HF. symmetry in Ha. apply arec_ev_channel in Ha. destruct Ha as (c & -> & ->).
        inversion HW as [|? ? Hw HW']; subst. cbn [wf_arec] in Hw.
        rewrite (parse_enc_channel0 c Hw).
        cbn [ascan] in HA. change (c_topic (channel_norm c)) with (c_topic c).
        change (c_id (channel_norm c)) with (c_id c).
        destruct (topic_selected (ro_topics ro) (c_topic c)); apply IH with (L := L); assumption. }
      destruct (Byte.eqb op OpMessage) eqn:E3.
      { apply byte_eqb_eq in E3. subst op.
        change (auto_op OpMessage) with true in HF. cbv iota in HF.
        destruct L as [|a L]; [discriminate HF|]. cbn [map] in HF.
        injection HF as Ha HF. symmetry in Ha. apply arec_ev_message in Ha. destruct Ha as (m & -> & ->).
        inversion HW as [|? ? Hw HW']; subst. cbn [wf_arec] in Hw.
        rewrite (parse_enc_message m Hw).
        cbn [ascan] in HA.
        destruct (tab_get (m_chan m) chs) as [c|]; [|apply IH with (L := L); assumption].
        destruct (in_window ro (m_log m)); [|apply IH with (L := L); assumption].
        destruct (tab_get (c_schema c) sch) as [sc|].
        - apply option_map_some in HA. destruct HA as (ms' & HA & ->).
          rewrite (IH sch chs fin L ms' HF HW' HB' HA). reflexivity.
        - destruct (c_schema c =? 0); [|discriminate HA].
          apply option_map_some in HA. destruct HA as (ms' & HA & ->).
          rewrite (IH sch chs fin L ms' HF HW' HB' HA). reflexivity. }
      rewrite (auto_op_false op E1 E2 E3) in HF. rewrite Hcb, andb_false_r.
      apply IH with (L := L); assumption.
Qed.

(* the channel / schema a record list binds an id to (first definition) *)
Definition chan_of (L : list arec) (id : N) : option channel :=
  match find (fun a => match a with AChannel c => c_id c =? id | _ => false end) L with
  | Some (AChannel c) => Some c | _ => None end.
Definition schema_of (L : list arec) (id : N) : option schema :=
  match find (fun a => match a with ASchema s => s_id s =? id | _ => false end) L with
  | Some (ASchema s) => Some s | _ => None end.
Definition triple_of (L : list arec) (m : message) : option triple :=
  match chan_of L (m_chan m) with
  | None => None
  | Some c =>
    match schema_of L (c_schema c) with
    | Some sc => Some (Some sc, channel_norm c, m)
    | None => if c_schema c =? 0 then Some (None, channel_norm c, m) else None
    end
  end.

(* every message follows a record of its channel, every channel follows a record of its schema
   (or has schema id 0); chs / schs: ids already defined *)
Fixpoint scoped (chs schs : list N) (l : list arec) : Prop :=
  match l with
  | [] => True
  | ASchema s :: r => scoped chs (s_id s :: schs) r
  | AChannel c :: r => (c_schema c = 0 \/ In (c_schema c) schs) /\ scoped (c_id c :: chs) schs r
  | AMessage m :: r => In (m_chan m) chs /\ scoped chs schs r
  end.

(* ---- auxiliary facts for D2 ---- *)
Lemma chan_of_in L c :
  (forall c c', In (AChannel c) L -> In (AChannel c') L -> c_id c = c_id c' -> c = c') ->
  In (AChannel c) L -> chan_of L (c_id c) = Some c.
Proof.
  intros HC Hin. unfold chan_of.
  destruct (find (fun a => match a with AChannel c0 => c_id c0 =? c_id c | _ => false end) L) as [a|] eqn:F.
  - apply find_some in F. destruct F as [Ha Hp]. destruct a as [s|c'|m]; try discriminate Hp.
    apply N.eqb_eq in Hp. rewrite (HC c' c Ha Hin Hp). reflexivity.
  - pose proof (find_none _ _ F _ Hin) as Hp. cbv beta iota in Hp. rewrite N.eqb_refl in Hp. discriminate Hp.
Qed.

Lemma schema_of_in L s :
  (forall s s', In (ASchema s) L -> In (ASchema s') L -> s_id s = s_id s' -> s = s') ->
  In (ASchema s) L -> schema_of L (s_id s) = Some s.
Proof.
  intros HS Hin. unfold schema_of.
  destruct (find (fun a => match a with ASchema s0 => s_id s0 =? s_id s | _ => false end) L) as [a|] eqn:F.
  - apply find_some in F. destruct F as [Ha Hp]. destruct a as [s'|c|m]; try discriminate Hp.
    apply N.eqb_eq in Hp. rewrite (HS s' s Ha Hin Hp). reflexivity.
  - pose proof (find_none _ _ F _ Hin) as Hp. cbv beta iota in Hp. rewrite N.eqb_refl in Hp. discriminate Hp.
Qed.

Lemma schema_of_0 L : (forall s, In (ASchema s) L -> s_id s <> 0) -> schema_of L 0 = None.
Proof.
  intro H0. unfold schema_of.
  destruct (find (fun a => match a with ASchema s0 => s_id s0 =? 0 | _ => false end) L) as [a|] eqn:F; [|reflexivity].
  apply find_some in F. destruct F as [Ha Hp]. destruct a as [s'|c|m]; try reflexivity.
  apply N.eqb_eq in Hp. exfalso. exact (H0 s' Ha Hp).
Qed.

Lemma amsgs_schema s r : amsgs (ASchema s :: r) = amsgs r.
Proof. reflexivity. Qed.
Lemma amsgs_channel c r : amsgs (AChannel c :: r) = amsgs r.
Proof. reflexivity. Qed.
Lemma amsgs_message m r : amsgs (AMessage m :: r) = m :: amsgs r.
Proof. reflexivity. Qed.

Lemma ascan_inv ro L :
  ro_topics ro = [] -> (forall t, in_window ro t = true) ->
  (forall c c', In (AChannel c) L -> In (AChannel c') L -> c_id c = c_id c' -> c = c') ->
  (forall s s', In (ASchema s) L -> In (ASchema s') L -> s_id s = s_id s' -> s = s') ->
  (forall s, In (ASchema s) L -> s_id s <> 0) ->
  forall L2 sch chs chids schids,
  incl L2 L -> scoped chids schids L2 ->
  (forall id, In id chids -> exists c, In (AChannel c) L /\ c_id c = id /\
      tab_get id chs = Some (channel_norm c) /\ (c_schema c = 0 \/ In (c_schema c) schids)) ->
  (forall id, In id schids -> exists s, In (ASchema s) L /\ s_id s = id /\ tab_get id sch = Some s) ->
  tab_get 0 sch = None ->
  exists ts, ascan ro sch chs L2 = Some ts /\ Forall2 (fun t m => triple_of L m = Some t) ts (amsgs L2).
Proof.
  intros Htop Hwin HcC HcS Hs0.
  induction L2 as [|a L2 IH]; intros sch chs chids schids Hincl Hsc HC HS H0.
  - exists []. split; [reflexivity|constructor].
  - assert (Hin : In a L) by (apply Hincl; left; reflexivity).
    assert (Hincl' : incl L2 L) by (intros x Hx; apply Hincl; right; exact Hx).
    destruct a as [s|c|m]; cbn [scoped] in Hsc; cbn [ascan].
    + (* schema *)
      rewrite amsgs_schema.
      apply IH with (chids := chids) (schids := s_id s :: schids); try assumption.
      * intros id Hid. destruct (HC id Hid) as (c & Hc & Hcid & Hget & Hsch).
        exists c. repeat split; try assumption.
        destruct Hsch as [Hz|Hi]; [left; exact Hz|right; right; exact Hi].
      * intros id Hid.
        destruct (N.eq_dec (s_id s) id) as [E|E].
        { exists s. repeat split; try assumption. rewrite <- E. apply tab_get_set_same. }
        destruct Hid as [Hid|Hid]; [contradiction|].
        destruct (HS id Hid) as (s' & Hs' & Hsid & Hget).
        exists s'. repeat split; try assumption.
        rewrite tab_get_set_other by exact E. exact Hget.
      * rewrite tab_get_set_other by (apply Hs0; exact Hin). exact H0.
    + (* channel *)
      rewrite amsgs_channel. rewrite Htop. cbn [topic_selected].
      destruct Hsc as [Hsch Hsc].
      apply IH with (chids := c_id c :: chids) (schids := schids); try assumption.
      intros id Hid.
      destruct (N.eq_dec (c_id c) id) as [E|E].
      { exists c. repeat split; try assumption. rewrite <- E. apply tab_get_set_same. }
      destruct Hid as [Hid|Hid]; [contradiction|].
      destruct (HC id Hid) as (c' & Hc' & Hcid & Hget & Hsch').
      exists c'. repeat split; try assumption.
      rewrite tab_get_set_other by exact E. exact Hget.
    + (* message *)
      rewrite amsgs_message. destruct Hsc as [Hch Hsc].
      destruct (HC _ Hch) as (c & Hc & Hcid & Hget & Hsch).
      rewrite Hget, Hwin. change (c_schema (channel_norm c)) with (c_schema c).
      destruct (IH sch chs chids schids Hincl' Hsc HC HS H0) as (ts & Hts & HF).
      rewrite Hts. cbn [option_map].
      assert (Hco : chan_of L (m_chan m) = Some c) by (rewrite <- Hcid; apply chan_of_in; assumption).
      destruct (N.eq_dec (c_schema c) 0) as [Ez|Ez].
      * rewrite Ez, H0. change (0 =? 0) with true. cbv iota.
        eexists. split; [reflexivity|]. constructor; [|exact HF].
        unfold triple_of. rewrite Hco, Ez, (schema_of_0 L Hs0). reflexivity.
      * destruct Hsch as [Hz|Hi]; [contradiction|].
        destruct (HS _ Hi) as (s & Hs & Hsid & Hgs). rewrite Hgs.
        eexists. split; [reflexivity|]. constructor; [|exact HF].
        unfold triple_of. rewrite Hco, <- Hsid, (schema_of_in L s HcS Hs). reflexivity.
Qed.

(* D2: with consistent ids, every message is returned, bound to the (unique) channel and schema *)
Theorem ascan_consistent ro L :
  ro_topics ro = [] -> (forall t, in_window ro t = true) ->
  scoped [] [] L ->
  (forall c c', In (AChannel c) L -> In (AChannel c') L -> c_id c = c_id c' -> c = c') ->
  (forall s s', In (ASchema s) L -> In (ASchema s') L -> s_id s = s_id s' -> s = s') ->
  (forall s, In (ASchema s) L -> s_id s <> 0) ->
  exists ts, ascan ro [] [] L = Some ts /\ Forall2 (fun t m => triple_of L m = Some t) ts (amsgs L).
Proof.
  intros Htop Hwin Hsc HcC HcS Hs0.
  apply (ascan_inv ro L Htop Hwin HcC HcS Hs0 L [] [] [] []).
  - apply incl_refl.
  - exact Hsc.
  - intros id [].
  - intros id [].
  - reflexivity.
Qed.

(* D3: the metadata handed to the callback only depends on the metadata tokens *)
Theorem md_list_filter evs : md_list evs = md_list (filter (ev_op OpMetadata) evs).
Proof.
  induction evs as [|ev evs IH]; [reflexivity|].
  destruct ev as [op body| |a]; cbn [filter ev_op md_list]; try exact IH.
  destruct (Byte.eqb op OpMetadata) eqn:E.
  - cbn [md_list]. rewrite E, <- IH. reflexivity.
  - exact IH.
Qed.

(* non-vacuity: an Example with a concrete L of two schemas (one repeated), two channels (one with
   schema id 0, one repeated after its first message) and four messages, and evs := map arec_ev L
   interleaved with a metadata token, an OpDataEnd token and an OpStatistics token, showing that the
   hypotheses of scan_spec_auto and ascan_consistent hold (ro := finalize default_ropts with
   ro_md_cb set), and the resulting value of scan_spec by vm_compute. *)

(* ---- non-vacuity ---- *)
Definition ex_s1 : schema := {| s_id := 1; s_name := [x41]; s_encoding := [x65]; s_data := [x00; xff] |}.
Definition ex_s2 : schema := {| s_id := 2; s_name := [x42]; s_encoding := []; s_data := [] |}.
(* channel 1 uses schema 2 and has unsorted user data (the reader returns it sorted: channel_norm) *)
Definition ex_c1 : channel :=
  {| c_id := 1; c_schema := 2; c_topic := [x2f; x61]; c_menc := [x6a];
     c_meta := [([x7a], [x01]); ([x61], [x02])] |}.
Definition ex_c2 : channel :=
  {| c_id := 2; c_schema := 0; c_topic := [x2f; x62]; c_menc := []; c_meta := [] |}.
Definition ex_m1 : message := {| m_chan := 1; m_seq := 1; m_log := 10; m_pub := 10; m_data := [x01] |}.
Definition ex_m2 : message := {| m_chan := 2; m_seq := 1; m_log := 5; m_pub := 6; m_data := [] |}.
Definition ex_m3 : message := {| m_chan := 1; m_seq := 2; m_log := 0; m_pub := 0; m_data := [x02; x03] |}.
Definition ex_m4 : message :=
  {| m_chan := 2; m_seq := 2; m_log := 18446744073709551615; m_pub := 7; m_data := [xff] |}.
Definition ex_md : metadata := {| md_name := [x6e]; md_meta := [([x62], [x01]); ([x61], [])] |}.

(* two schemas (schema 1 repeated), two channels (channel 2 has schema id 0, channel 1 is repeated
   after its first message), four messages *)
Definition ex_L : list arec :=
  [ASchema ex_s1; ASchema ex_s2; AChannel ex_c1; AMessage ex_m1; ASchema ex_s1; AChannel ex_c2;
   AMessage ex_m2; AChannel ex_c1; AMessage ex_m3; AMessage ex_m4].
(* the same records as tokens, interleaved with a metadata, a DataEnd and a Statistics token *)
Definition ex_evs : list event :=
  [arec_ev (ASchema ex_s1); arec_ev (ASchema ex_s2); EvToken OpMetadata (enc_metadata ex_md);
   arec_ev (AChannel ex_c1); arec_ev (AMessage ex_m1); arec_ev (ASchema ex_s1);
   arec_ev (AChannel ex_c2); EvToken OpStatistics []; arec_ev (AMessage ex_m2);
   arec_ev (AChannel ex_c1); arec_ev (AMessage ex_m3); EvToken OpDataEnd [x00; x00; x00; x00];
   arec_ev (AMessage ex_m4)].
Definition ex_ro : ropts := finalize (default_ropts <| ro_md_cb := true |>).
Definition ex_ms : list triple :=
  [(Some ex_s2, channel_norm ex_c1, ex_m1); (None, channel_norm ex_c2, ex_m2);
   (Some ex_s2, channel_norm ex_c1, ex_m3); (None, channel_norm ex_c2, ex_m4)].

(* the hypotheses of scan_spec_auto and ascan_consistent hold for ex_ro / ex_evs / ex_L, the theorems
   apply, and the value of scan_spec is the four messages (bound to schema 2 / no schema and to
   the normalised channels), the metadata record handed to the callback, and the final error *)
Example scan_spec_auto_ex :
  (* hypotheses of scan_spec_auto *)
  filter ev_auto ex_evs = map arec_ev ex_L /\
  Forall wf_arec ex_L /\
  Forall (ev_benign ex_ro) ex_evs /\
  ascan ex_ro [] [] ex_L = Some ex_ms /\
  (* hypotheses of ascan_consistent *)
  ro_topics ex_ro = [] /\
  (forall t, in_window ex_ro t = true) /\
  scoped [] [] ex_L /\
  (forall c c', In (AChannel c) ex_L -> In (AChannel c') ex_L -> c_id c = c_id c' -> c = c') /\
  (forall s s', In (ASchema s) ex_L -> In (ASchema s') ex_L -> s_id s = s_id s' -> s = s') /\
  (forall s, In (ASchema s) ex_L -> s_id s <> 0) /\
  (* the metadata callback is installed, the tokens other than schema/channel/message are there *)
  ro_md_cb ex_ro = true /\
  filter (ev_op OpMetadata) ex_evs = [EvToken OpMetadata (enc_metadata ex_md)] /\
  length (filter (fun e => negb (ev_auto e)) ex_evs) = 3%nat /\
  amsgs ex_L = [ex_m1; ex_m2; ex_m3; ex_m4] /\
  (* the resulting values *)
  scan_spec ex_ro [] [] ex_evs EEOF = Ok (ex_ms, [metadata_norm ex_md], EEOF) /\
  md_list ex_evs = [metadata_norm ex_md] /\
  Forall2 (fun t m => triple_of ex_L m = Some t) ex_ms (amsgs ex_L).
Proof.
  assert (HinC : forall c, In (AChannel c) ex_L -> c = ex_c1 \/ c = ex_c2).
  { intros c H. unfold ex_L in H. cbn [In] in H.
    repeat match type of H with _ \/ _ => destruct H as [H|H] end;
      try discriminate H; try contradiction; inversion H; auto. }
  assert (HinS : forall s, In (ASchema s) ex_L -> s = ex_s1 \/ s = ex_s2).
  { intros s H. unfold ex_L in H. cbn [In] in H.
    repeat match type of H with _ \/ _ => destruct H as [H|H] end;
      try discriminate H; try contradiction; inversion H; auto. }
  split; [vm_compute; reflexivity|].
  split.
  { unfold ex_L.
    repeat (apply Forall_cons;
      [cbn [wf_arec];
       first [apply wf_schemab_iff | apply wf_channelb_iff | apply wf_messageb_iff];
       vm_compute; reflexivity|]).
    apply Forall_nil. }
  split.
  { unfold ex_evs.
    repeat (apply Forall_cons;
      [cbn [ev_benign arec_ev]; intros Hop Hcb;
       first [ eexists; vm_compute; reflexivity | exfalso; vm_compute in Hop; discriminate Hop ]|]).
    apply Forall_nil. }
  split; [vm_compute; reflexivity|].
  split; [reflexivity|].
  split.
  { intro t. unfold in_window.
    change (ro_start_n ex_ro) with 0. change (ro_unbounded ex_ro) with true.
    rewrite orb_true_r, andb_true_r. apply N.leb_le. lia. }
  split; [vm_compute; tauto|].
  split.
  { intros c c' H1 H2 E. apply HinC in H1, H2.
    destruct H1 as [-> | ->], H2 as [-> | ->]; try reflexivity; vm_compute in E; discriminate E. }
  split.
  { intros s s' H1 H2 E. apply HinS in H1, H2.
    destruct H1 as [-> | ->], H2 as [-> | ->]; try reflexivity; vm_compute in E; discriminate E. }
  split.
  { intros s H E. apply HinS in H. destruct H as [-> | ->]; vm_compute in E; discriminate E. }
  split; [reflexivity|].
  split; [vm_compute; reflexivity|].
  split; [vm_compute; reflexivity|].
  split; [reflexivity|].
  split; [vm_compute; reflexivity|].
  split; [vm_compute; reflexivity|].
  unfold ex_ms. change (amsgs ex_L) with [ex_m1; ex_m2; ex_m3; ex_m4].
  repeat (apply Forall2_cons; [vm_compute; reflexivity|]). apply Forall2_nil.
Qed.

(* the same value obtained through the theorems *)
Example scan_spec_auto_ex_thm :
  scan_spec ex_ro [] [] ex_evs EEOF = Ok (ex_ms, md_list (filter (ev_op OpMetadata) ex_evs), EEOF) /\
  exists ts, ascan ex_ro [] [] ex_L = Some ts /\
             Forall2 (fun t m => triple_of ex_L m = Some t) ts (amsgs ex_L).
Proof.
  destruct scan_spec_auto_ex as (H1 & H2 & H3 & H4 & H5 & H6 & H7 & H8 & H9 & H10 & H11 & _).
  split.
  - rewrite (scan_spec_auto ex_ro ex_evs [] [] EEOF ex_L ex_ms H1 H2 H3 H4), H11, <- md_list_filter.
    reflexivity.
  - apply ascan_consistent; assumption.
Qed.
End E2E_Scan.

(* ====================================================================================== *)
(** * The indexed iterator with the messages themselves *)
Module E2E_Indexed.
(* the triple Reader.yield hands out for message m under summary sm; None = yield ends with an error *)
Definition tr_opt (sm : summ) (m : message) : option triple :=
  match tab_get (m_chan m) (sm_channels sm) with
  | None => None
  | Some c =>
    match tab_get (c_schema c) (sm_schemas sm) with
    | Some sc => Some (Some sc, c, m)
    | None => if c_schema c =? 0 then Some (None, c, m) else None
    end
  end.

(* at offset off of the decompressed chunk there is the framed message record of m *)
Definition rec_at (plain : bytes) (off : N) (m : message) : Prop :=
  wf_message m /\ exists pre post, plain = pre ++ frame OpMessage (enc_message m) ++ post /\ blen pre = off.

(* ---------------------------------------------------------------------------------------- *)
(* auxiliary facts (no section variables)                                                   *)
(* ---------------------------------------------------------------------------------------- *)

(* what Reader.yield reads at a rec_at position *)
Lemma rec_at_read buf off m : blen buf < two64 -> rec_at buf off m ->
  parse_message (take (unle (take 8 (drop (off + 1) buf))) (drop (off + 9) buf)) = Ok m.
Proof.
  intros H64 (W & pre & post & E & Hoff). subst off. subst buf.
  set (body := enc_message m) in *.
  assert (Hsz : blen (pre ++ frame OpMessage body ++ post) = blen pre + 9 + blen body + blen post).
  { unfold frame. rewrite !blen_app, frame_head_blen. lia. }
  assert (Hhd : take 9 (drop (blen pre) (pre ++ frame OpMessage body ++ post)) = frame_head OpMessage (blen body)).
  { rewrite drop_app_exact. apply take9_frame. }
  assert (Hbd : take (blen body) (drop (blen pre + 9) (pre ++ frame OpMessage body ++ post)) = body).
  { unfold frame. replace (blen pre + 9) with (blen (pre ++ frame_head OpMessage (blen body)))
      by (rewrite blen_app, frame_head_blen; reflexivity).
    rewrite <- !app_assoc, (app_assoc pre), drop_app_exact. apply take_app_exact. }
  rewrite <- head_len_eq, Hhd.
  change (skipn 1 (frame_head OpMessage (blen body))) with (u64 (blen body)).
  rewrite unle_u64 by lia. rewrite Hbd. apply parse_enc_message, W.
Qed.

(* the state Reader.yield returns once the record parses *)
Definition yield_st (e : entry) (s : istate) : istate :=
  s <| i_slots := slot_dec (i_slots s) (en_slot e) |> <| i_queue := tl (i_queue s) |>.
Lemma yield_st_cis e s : i_cis (yield_st e s) = i_cis s.
Proof. reflexivity. Qed.
Lemma yield_st_queue e s : i_queue (yield_st e s) = tl (i_queue s).
Proof. reflexivity. Qed.
Lemma yield_st_slots e s : i_slots (yield_st e s) = slot_dec (i_slots s) (en_slot e).
Proof. reflexivity. Qed.
Lemma set_cis_cis (s : istate) r : i_cis (s <| i_cis := r |>) = r.
Proof. reflexivity. Qed.
Lemma set_cis_queue (s : istate) r : i_queue (s <| i_cis := r |>) = i_queue s.
Proof. reflexivity. Qed.
Lemma set_cis_slots (s : istate) r : i_slots (s <| i_cis := r |>) = i_slots s.
Proof. reflexivity. Qed.

Lemma yield_x sm e s n buf m :
  nth_error (i_slots s) (en_slot e) = Some (n, buf) -> blen buf < two64 -> rec_at buf (en_off e) m ->
  yield sm e s = match tr_opt sm m with
                 | Some t => (IMsg t, yield_st e s)
                 | None => (IEnd EOther, yield_st e s)
                 end.
Proof.
  intros Hn H64 Hr. unfold yield. rewrite Hn. cbv beta iota zeta.
  rewrite (rec_at_read _ _ _ H64 Hr). unfold tr_opt, yield_st.
  destruct (tab_get (m_chan m) (sm_channels sm)) as [c|]; [|reflexivity].
  destruct (tab_get (c_schema c) (sm_schemas sm)) as [sc|]; [reflexivity|].
  destruct (c_schema c =? 0); reflexivity.
Qed.

Lemma merge_Forall2 (R : entry -> aentry -> Prop) o q aq new anew :
  (forall e x, R e x -> en_ts e = ae_ts x) ->
  Forall2 R q aq -> Forall2 R new anew -> Forall2 R (merge_queue o q new) (a_merge o aq anew).
Proof.
  intros HK Hq Hn. destruct o; cbn [merge_queue a_merge].
  - apply Forall2_app; assumption.
  - rewrite en_sort_asc_sortd. apply (sortd_Forall2 en_ts ae_ts R true HK).
    apply Forall2_app; assumption.
  - rewrite en_sort_desc_sortd. apply (sortd_Forall2 en_ts ae_ts R false HK).
    apply Forall2_app; [assumption|apply Forall2_rev; assumption].
Qed.

Lemma Forall2_impl_in {A B} (R R' : A -> B -> Prop) l l' :
  Forall2 R l l' -> (forall a b, In a l -> In b l' -> R a b -> R' a b) -> Forall2 R' l l'.
Proof.
  induction 1 as [|a b l l' Hab H IH]; intro HI; constructor.
  - apply HI; [left; reflexivity|left; reflexivity|exact Hab].
  - apply IH. intros a' b' Ha Hb. apply HI; right; assumption.
Qed.

(* a chunk that load_chunk_i accepts decompresses to fewer than 2^31 bytes *)
Lemma load_chunk_i_plain_bound dall ro sm f ci s s' : load_chunk_i dall ro sm f ci s = Ok s' ->
  exists n plain, i_slots s' = slot_set (i_slots s) (islot s) (n, plain) /\ blen plain < max_int32.
Proof.
  unfold load_chunk_i, bind.
  destruct (seek_ok _ _); try discriminate.
  destruct (ci_length ci <? 9); try discriminate.
  destruct (fs_size f - ci_offset ci <? ci_length ci); try discriminate.
  destruct (rd_full _ _) as [[rec e] r']. destruct e; try discriminate.
  destruct (parse_chunk _) as [k| | | |]; try discriminate.
  match goal with |- context[match ?x with Ok _ => _ | Err e => Err e | Panic p => _ | Exit q => _ | OutOfFuel => _ end] =>
    destruct x as [plain| | | |] eqn:PL end; try discriminate.
  change (Iter.chunk_plain dall k = Ok plain) in PL.
  destruct (chunk_plain_len _ _ _ PL) as [Hpl Hus].
  set (s0 := if i_reccap s <? ci_length ci then _ else s).
  assert (E1 : i_slots s0 = i_slots s) by (unfold s0; destruct (i_reccap s <? ci_length ci); reflexivity).
  clearbody s0. rewrite !E1.
  destruct (walk _ _ _ _ _ _ _) as [new| | | |] eqn:W; try discriminate.
  intro H. inversion H; subst. exists (N.of_nat (length new)), plain. cbn. rewrite E1.
  split; [reflexivity|lia].
Qed.

Section StrongRefinement.
Variable dall : dalloracle.
Variable ro : ropts.
Variable sm : summ.
Variable f : fsrc.
Variable sel : amsg -> bool.
Variable pairs : list (chunkindex * achunk).
Variable M : nat -> message.          (* am_uid -> the message it stands for *)

(* strong loader hypothesis: like Iter.loader_ok, and every new queue entry points at the record of
   the message its abstract counterpart stands for *)
Definition loader_ok_x : Prop :=
  forall ci c s, In (ci, c) pairs ->
  exists s' new plain,
    load_chunk_i dall ro sm f ci s = Ok s' /\
    i_slots s' = slot_set (i_slots s) (islot s) (N.of_nat (length new), plain) /\
    i_queue s' = merge_queue (ro_order ro) (i_queue s) new /\
    Forall2 (fun e m => en_ts e = am_ts m /\ en_slot e = islot s /\ rec_at plain (en_off e) (M (am_uid m)))
            new (filter sel (ac_msgs c)).

(* ---- the strong invariant ---- *)
Definition xen (slots : list (N * bytes)) (e : entry) (x : aentry) : Prop :=
  en_ts e = ae_ts x /\ en_slot e = snd x /\
  exists n buf, nth_error slots (en_slot e) = Some (n, buf) /\ blen buf < two64 /\
                rec_at buf (en_off e) (M (am_uid (fst x))).
Definition xinv (s : istate) (a : astate) : Prop :=
  Forall2 (ci_match pairs) (i_cis s) (a_cks a) /\
  Forall2 (xen (i_slots s)) (i_queue s) (a_queue a) /\
  map fst (i_slots s) = a_slots a /\ counts_ok a.

Lemma xen_match sl e x : xen sl e x -> en_match e x.
Proof. intros (H1 & H2 & _). split; assumption. Qed.
Lemma xen_key sl e x : xen sl e x -> en_ts e = ae_ts x.
Proof. intros (H1 & _). exact H1. Qed.

Lemma xinv_st s a : xinv s a -> st_match pairs s a.
Proof.
  intros (Hc & Hq & Hs & _). split; [exact Hc|]. split; [|exact Hs].
  eapply Forall2_impl'; [|exact Hq]. intros e x. apply xen_match.
Qed.

Lemma load_x s a ci rest c arest : loader_ok_x -> xinv s a ->
  i_cis s = ci :: rest -> a_cks a = c :: arest ->
  exists s', load_chunk_i dall ro sm f ci s = Ok s' /\
             xinv (s' <| i_cis := rest |>) (a_load sel (ro_order ro) c arest a).
Proof.
  intros HL (Hc & Hq & Hs & K1) Eci Ec. rewrite Eci, Ec in Hc.
  inversion Hc as [|? ? ? ? (Hin & _) Hrest]; subst.
  destruct (HL ci c s Hin) as (s' & new & plain & Hload & Hslots & Hqueue & Hnew).
  destruct (load_chunk_i_plain_bound _ _ _ _ _ _ _ Hload) as (n0 & plain0 & Hs0 & Hb0).
  assert (Hpl : blen plain < max_int32).
  { assert (E : nth_error (i_slots s') (islot s) = Some (N.of_nat (length new), plain)).
    { rewrite Hslots, nth_error_slot_set by apply islot_le. rewrite Nat.eqb_refl. reflexivity. }
    rewrite Hs0, nth_error_slot_set in E by apply islot_le. rewrite Nat.eqb_refl in E.
    inversion E; subst. exact Hb0. }
  exists s'. split; [exact Hload|].
  unfold xinv. rewrite set_cis_cis, set_cis_queue, set_cis_slots.
  split; [exact Hrest|]. split; [|split; [|apply counts_load, K1]].
  - cbn [a_load a_queue]. rewrite Hqueue, Hslots, <- Hs, <- islot_slot_of.
    apply merge_Forall2.
    + intros e x. apply xen_key.
    + eapply Forall2_impl_in; [exact Hq|].
      intros e x He Hx (T1 & T2 & n & buf & Hn & Hb & Hr).
      split; [exact T1|]. split; [exact T2|]. exists n, buf. split; [|split; assumption].
      rewrite nth_error_slot_set by apply islot_le.
      destruct (Nat.eqb_spec (en_slot e) (islot s)) as [E|_]; [exfalso|exact Hn].
      assert (Hj0 : cnt (slot_of (a_slots a)) (a_queue a) = O).
      { pose proof (K1 (slot_of (a_slots a))) as H. rewrite slot_of_nth in H. lia. }
      rewrite islot_slot_of, Hs in E. destruct x as [m k]. cbn [snd] in T2.
      rewrite <- E, T2 in Hj0. apply cnt_in_pos in Hx. lia.
    + apply Forall2_map_r. eapply Forall2_impl'; [|exact Hnew].
      intros e m (T1 & T2 & Hr). split; [exact T1|]. split; [exact T2|]. cbn [fst].
      exists (N.of_nat (length new)), plain. split; [|split].
      * rewrite T2, nth_error_slot_set by apply islot_le. rewrite Nat.eqb_refl. reflexivity.
      * unfold max_int32, two64 in *. lia.
      * exact Hr.
  - cbn [a_load a_slots]. rewrite Hslots, slot_set_map, <- Hs, <- islot_slot_of.
    rewrite (Forall2_length' _ _ _ Hnew). reflexivity.
Qed.

Lemma yield_inv s a e q x aq : xinv s a -> i_queue s = e :: q -> a_queue a = x :: aq ->
  xinv (yield_st e s) (a_yield x a).
Proof.
  intros (Hc & Hq & Hs & K1) Eq Eaq. pose proof Hq as Hq0. rewrite Eq, Eaq in Hq0.
  inversion Hq0 as [|? ? ? ? Hex Hq']; subst.
  unfold xinv. rewrite yield_st_cis, yield_st_queue, yield_st_slots.
  split; [exact Hc|]. split; [|split; [|eapply counts_yield; eauto]].
  - cbn [a_yield a_queue]. rewrite Eq, Eaq. cbn [tl].
    eapply Forall2_impl'; [|exact Hq'].
    intros e' x' (T1 & T2 & n & buf & Hn & Hb & Hr). split; [exact T1|]. split; [exact T2|].
    destruct (slot_dec_buf _ (en_slot e) _ _ _ Hn) as (n' & Hn'). exists n', buf. auto.
  - cbn [a_yield a_slots]. rewrite slot_dec_map, Hs. destruct Hex as (_ & T2 & _). rewrite T2. reflexivity.
Qed.

(* one call of NextInto under the strong invariant: completely determined by the abstract step *)
Lemma i_next_x : loader_ok_x -> forall fuel s a, xinv s a ->
  match a_next sel (ro_order ro) fuel a with
  | None => i_next dall ro sm f fuel s = OutOfFuel
  | Some (AEnd, a') => exists s', i_next dall ro sm f fuel s = Ok (IEnd EEOF, s') /\ xinv s' a'
  | Some (AMsg m, a') =>
      match tr_opt sm (M (am_uid m)) with
      | Some t => exists s', i_next dall ro sm f fuel s = Ok (IMsg t, s') /\ xinv s' a'
      | None => exists s', i_next dall ro sm f fuel s = Ok (IEnd EOther, s')
      end
  end.
Proof.
  intros HL. induction fuel as [|fu IH]; intros s a HX; [reflexivity|].
  cbn [i_next a_next]. unfold a_step.
  pose proof HX as (Hc & Hq & Hs & K1).
  assert (Hyield : forall e x q aq, i_queue s = e :: q -> a_queue a = x :: aq ->
     match tr_opt sm (M (am_uid (fst x))) with
     | Some t => exists s', Ok (yield sm e s) = Ok (IMsg t, s') /\ xinv s' (a_yield x a)
     | None => exists s', Ok (yield sm e s) = Ok (IEnd EOther, s')
     end).
  { intros e x q aq Eq Eaq. pose proof Hq as Hq0. rewrite Eq, Eaq in Hq0.
    inversion Hq0 as [|? ? ? ? (T1 & T2 & n & buf & Hn & Hb & Hr) _]; subst.
    rewrite (yield_x sm e s n buf _ Hn Hb Hr).
    destruct (tr_opt sm (M (am_uid (fst x)))) as [t|].
    - exists (yield_st e s). split; [reflexivity|]. eapply yield_inv; eauto.
    - exists (yield_st e s). reflexivity. }
  assert (Hload : forall ci rest c arest, i_cis s = ci :: rest -> a_cks a = c :: arest ->
            exists s', load_chunk_i dall ro sm f ci s = Ok s' /\
                       xinv (s' <| i_cis := rest |>) (a_load sel (ro_order ro) c arest a)).
  { intros ci rest c arest Ec Eac. eapply load_x; eauto. }
  destruct (i_queue s) as [|e q] eqn:Eq; destruct (a_queue a) as [|x aq] eqn:Eaq; try solve [inversion Hq];
  destruct (i_cis s) as [|ci rest] eqn:Ec; destruct (a_cks a) as [|c arest] eqn:Eac; try solve [inversion Hc].
  - exists s. split; [reflexivity|exact HX].
  - destruct (Hload ci rest c arest eq_refl eq_refl) as (s' & Hl & HX'). rewrite Hl. apply IH. exact HX'.
  - exact (Hyield e x q aq eq_refl eq_refl).
  - assert (Hex : en_match e x) by (inversion Hq; eapply xen_match; eassumption).
    assert (Hcc : ci_match pairs ci c) by (inversion Hc; assumption).
    rewrite (load_first_match pairs (ro_order ro) ci c e x Hcc Hex).
    destruct (a_load_first (ro_order ro) c x).
    + destruct (Hload ci rest c arest eq_refl eq_refl) as (s' & Hl & HX'). rewrite Hl. apply IH. exact HX'.
    + exact (Hyield e x q aq eq_refl eq_refl).
Qed.

Lemma fwd_x : loader_ok_x -> forall fuel n s a acc aacc st out st',
  xinv s a -> a_run sel (ro_order ro) fuel n a aacc st = Some (aacc ++ out, st') ->
  Forall (fun m => tr_opt sm (M (am_uid m)) <> None) out ->
  exists ms, indexed_all dall fuel n ro sm f s acc st = Ok (acc ++ ms, EEOF, st') /\
             Forall2 (fun t m => tr_opt sm (M (am_uid m)) = Some t) ms out.
Proof.
  intros HL fuel. induction n as [|n IH]; intros s a acc aacc st out st' HX H HP; [discriminate|].
  cbn [indexed_all a_run] in *.
  pose proof (i_next_x HL fuel s a HX) as R.
  destruct (a_next sel (ro_order ro) fuel a) as [[[m|] a1]|]; [| |discriminate].
  - pose proof H as H'. apply a_run_arun in H'. destruct H' as (es & s'' & Ho & _ & _).
    rewrite <- app_assoc in Ho. apply app_inv_head in Ho. cbn [app] in Ho. subst out.
    inversion HP as [|? ? Pm HP']; subst.
    destruct (tr_opt sm (M (am_uid m))) as [t|] eqn:T; [|contradiction Pm; reflexivity].
    destruct R as (s1 & Hn & HX1). rewrite Hn. cbv beta iota.
    rewrite (slot_stats_match _ _ _ (xinv_st _ _ HX1)).
    destruct (IH s1 a1 (acc ++ [t]) (aacc ++ [m]) (max2 st (a_slot_stats a1)) (map fst es) st' HX1) as (ms & Hr & Hf).
    + rewrite <- app_assoc. exact H.
    + exact HP'.
    + exists (t :: ms). split; [rewrite Hr, <- app_assoc; reflexivity|]. constructor; assumption.
  - destruct R as (s1 & Hn & HX1). rewrite Hn. cbv beta iota. inversion H as [[Ho Hst]].
    assert (E : aacc ++ [] = aacc ++ out) by (rewrite app_nil_r; exact Ho).
    apply app_inv_head in E. subst out.
    exists []. rewrite app_nil_r, (slot_stats_match _ _ _ (xinv_st _ _ HX1)). split; [reflexivity|constructor].
Qed.

Lemma bwd_x : loader_ok_x -> forall fuel n s a acc aacc st ms st',
  xinv s a -> indexed_all dall fuel n ro sm f s acc st = Ok (ms, EEOF, st') ->
  exists out ms', ms = acc ++ ms' /\
     a_run sel (ro_order ro) fuel n a aacc st = Some (aacc ++ out, st') /\
     Forall2 (fun t m => tr_opt sm (M (am_uid m)) = Some t) ms' out.
Proof.
  intros HL fuel. induction n as [|n IH]; intros s a acc aacc st ms st' HX H; [discriminate|].
  cbn [indexed_all a_run] in *.
  pose proof (i_next_x HL fuel s a HX) as R.
  destruct (a_next sel (ro_order ro) fuel a) as [[[m|] a1]|].
  - destruct (tr_opt sm (M (am_uid m))) as [t|] eqn:T.
    + destruct R as (s1 & Hn & HX1). rewrite Hn in H. cbv beta iota in H.
      rewrite (slot_stats_match _ _ _ (xinv_st _ _ HX1)) in H.
      destruct (IH _ _ _ (aacc ++ [m]) _ _ _ HX1 H) as (out & ms' & E & Hr & Hf).
      exists (m :: out), (t :: ms'). split; [rewrite E, <- app_assoc; reflexivity|].
      split; [rewrite Hr, <- app_assoc; reflexivity|]. constructor; assumption.
    + destruct R as (s1 & Hn). rewrite Hn in H. discriminate.
  - destruct R as (s1 & Hn & HX1). rewrite Hn in H. cbv beta iota in H. inversion H; subst.
    exists [], []. rewrite !app_nil_r, (slot_stats_match _ _ _ (xinv_st _ _ HX1)).
    split; [reflexivity|]. split; [reflexivity|constructor].
  - rewrite R in H. discriminate.
Qed.

Lemma xinv_init cis cks : Forall2 (ci_match pairs) cis cks ->
  xinv (i_init ro cis) (a_init (ac_sort (ro_order ro) cks)).
Proof.
  intro H. split; [apply ci_sort_match, H|]. split; [constructor|]. split; [reflexivity|].
  intro i. destruct i; reflexivity.
Qed.

(* if the abstract read terminates and every message it returns can be bound to its channel and
   schema, the byte-level read returns exactly those triples and ends with io.EOF *)
Theorem indexed_read_x_forward : loader_ok_x -> forall fuel n cis cks out st,
  Forall2 (ci_match pairs) cis cks ->
  a_read sel (ro_order ro) fuel n cks = Some (out, st) ->
  Forall (fun m => tr_opt sm (M (am_uid m)) <> None) out ->
  exists ms, indexed_all dall fuel n ro sm f (i_init ro cis) [] (O, O) = Ok (ms, EEOF, st) /\
             Forall2 (fun t m => tr_opt sm (M (am_uid m)) = Some t) ms out.
Proof.
  intros HL fuel n cis cks out st Hm H HP. unfold a_read in H.
  destruct (fwd_x HL fuel n _ _ [] [] (O, O) out st (xinv_init _ _ Hm) H HP) as (ms & Hr & Hf).
  exists ms. split; [exact Hr|exact Hf].
Qed.

(* conversely, a byte-level read that ends with io.EOF returned the triples of the abstract read *)
Theorem indexed_read_x_backward : loader_ok_x -> forall fuel n cis cks ms st,
  Forall2 (ci_match pairs) cis cks ->
  indexed_all dall fuel n ro sm f (i_init ro cis) [] (O, O) = Ok (ms, EEOF, st) ->
  exists out, a_read sel (ro_order ro) fuel n cks = Some (out, st) /\
              Forall2 (fun t m => tr_opt sm (M (am_uid m)) = Some t) ms out.
Proof.
  intros HL fuel n cis cks ms st Hm H.
  destruct (bwd_x HL fuel n _ _ [] [] _ ms st (xinv_init _ _ Hm) H) as (out & ms' & E & Hr & Hf).
  cbn [app] in E. subst ms'. exists out. split; [exact Hr|exact Hf].
Qed.

End StrongRefinement.

(* abstract messages of a list of messages, numbered from base *)
Fixpoint number (base : nat) (ms : list message) : list amsg :=
  match ms with
  | [] => []
  | m :: r => {| am_ts := m_log m; am_chan := m_chan m; am_uid := base |} :: number (S base) r
  end.

Lemma kmsgs_cons_msg m recs : kmsgs (KMsg m :: recs) = m :: kmsgs recs.
Proof. reflexivity. Qed.
Lemma kmsgs_cons_other op body recs : kmsgs (KOther op body :: recs) = kmsgs recs.
Proof. reflexivity. Qed.

Definition krel (slot : nat) (M : nat -> message) (plain : bytes) (e : entry) (m : amsg) : Prop :=
  en_ts e = am_ts m /\ en_slot e = slot /\ rec_at plain (en_off e) (M (am_uid m)).

Lemma kentries_x sm ro slot M : forall recs pre base,
  Forall wf_krec recs ->
  (forall j m, nth_error (kmsgs recs) j = Some m -> M (base + j)%nat = m) ->
  Forall2 (krel slot M (pre ++ kplain recs))
          (kentries sm ro slot (blen pre) recs)
          (filter (tw_sel (sm_channels sm) ro) (number base (kmsgs recs))).
Proof.
  induction recs as [|r recs IH]; intros pre base HW HM.
  - constructor.
  - inversion HW as [|? ? Wr HW']; subst.
    assert (Htail : forall base',
              (forall j m, nth_error (kmsgs recs) j = Some m -> M (base' + j)%nat = m) ->
              Forall2 (krel slot M (pre ++ kplain (r :: recs)))
                      (kentries sm ro slot (blen pre + blen (krec_bytes r)) recs)
                      (filter (tw_sel (sm_channels sm) ro) (number base' (kmsgs recs)))).
    { intros base' HM'. rewrite kplain_cons, app_assoc, <- blen_app. apply IH; assumption. }
    destruct r as [m|op body].
    + rewrite kmsgs_cons_msg in *. cbn [kentries number filter].
      assert (E : tw_sel (sm_channels sm) ro {| am_ts := m_log m; am_chan := m_chan m; am_uid := base |}
                  = ksel sm ro m).
      { unfold tw_sel, known_chan, ksel. cbn [am_ts am_chan]. destruct (tab_get _ _); reflexivity. }
      rewrite E.
      assert (Hrest : Forall2 (krel slot M (pre ++ kplain (KMsg m :: recs)))
                        (kentries sm ro slot (blen pre + blen (krec_bytes (KMsg m))) recs)
                        (filter (tw_sel (sm_channels sm) ro) (number (S base) (kmsgs recs)))).
      { apply Htail. intros j m' Hj. replace (S base + j)%nat with (base + S j)%nat by lia.
        exact (HM (S j) m' Hj). }
      destruct (ksel sm ro m); cbn [app]; [constructor; [|exact Hrest]|exact Hrest].
      unfold krel. cbn [en_ts en_off en_slot am_ts am_uid]. split; [reflexivity|]. split; [reflexivity|].
      pose proof (HM O m eq_refl) as H0. rewrite Nat.add_0_r in H0. rewrite H0.
      split; [exact Wr|]. exists pre, (kplain recs). split; reflexivity.
    + rewrite kmsgs_cons_other in *. cbn [kentries app]. apply Htail. exact HM.
Qed.

(* the strong loader hypothesis holds for rendered chunks (cf. ReaderFacts2.C02_loader_ok_rendered_thm) *)
Theorem loader_ok_x_rendered dall ro sm F pairs M :
  blen F < two63 ->
  (forall ci c, In (ci, c) pairs -> exists k recs base,
      chunk_at F ci k /\ wf_chunk k /\ Iter.chunk_plain dall k = Ok (kplain recs) /\ Forall wf_krec recs /\
      ac_msgs c = number base (kmsgs recs) /\
      (forall j m, nth_error (kmsgs recs) j = Some m -> M (base + j)%nat = m)) ->
  loader_ok_x dall ro sm {| fs_data := F; fs_fail := None |} (tw_sel (sm_channels sm) ro) pairs M.
Proof.
  intros H63 Hall. unfold loader_ok_x. intros ci c s Hin.
  destruct (Hall ci c Hin) as (k & recs & base & Hat & Wk & Hplain & HW & Hmsgs & HM).
  destruct (load_chunk_i_rendered dall ro sm F ci k (kplain recs) recs s H63 Hat Wk Hplain eq_refl HW)
    as (s' & Hl & Hs & Hq).
  exists s', (kentries sm ro (islot s) 0 recs), (kplain recs).
  split; [exact Hl|]. split; [exact Hs|]. split; [exact Hq|].
  rewrite Hmsgs. exact (kentries_x sm ro (islot s) M recs [] base HW HM).
Qed.

(* non-vacuity: instantiate loader_ok_x_rendered and indexed_read_x_forward/backward on the file
   ReaderFacts2.y_F (chunks y_chunks, chunk indexes y_cis, oracle x_dall), with
   pairs := combine y_cis (abstract chunks built with `number`), M := nth of the concatenated messages.
   State and prove an Example showing all hypotheses hold there (vm_compute where possible). *)

(* ---- the instance ---- *)
Definition z_recs (x : N * chunk) : list krec := decode_plain (k_records (snd x)).
Definition z_ac (base : nat) (x : N * chunk) : achunk :=
  {| ac_start := k_start (snd x); ac_end := k_end (snd x); ac_off := fst x;
     ac_msgs := number base (kmsgs (z_recs x)) |}.
Fixpoint z_acs (base : nat) (l : list (N * chunk)) : list achunk :=
  match l with
  | [] => []
  | x :: r => z_ac base x :: z_acs (base + length (kmsgs (z_recs x))) r
  end.
Definition z_pairs : list (chunkindex * achunk) := combine y_cis (z_acs 0 y_chunks).
Definition z_all : list message := flat_map (fun x => kmsgs (z_recs x)) y_chunks.
Definition z_dm : message := {| m_chan := 0; m_seq := 0; m_log := 0; m_pub := 0; m_data := [] |}.
Definition z_M (i : nat) : message := nth i z_all z_dm.
Definition z_file : fsrc := {| fs_data := y_F; fs_fail := None |}.
Definition z_sel : amsg -> bool := tw_sel (sm_channels (y_sm y_ro1)) y_ro1.

Lemma number_M_ok (M : nat -> message) : forall l base,
  map M (seq base (length l)) = l ->
  forall j m, nth_error l j = Some m -> M (base + j)%nat = m.
Proof.
  induction l as [|a l IH]; intros base E j m Hj; destruct j as [|j]; cbn [nth_error] in Hj; try discriminate.
  - cbn [length seq map] in E. inversion E as [[E1 E2]]. inversion Hj; subst m. rewrite Nat.add_0_r.
    rewrite E1. reflexivity.
  - cbn [length seq map] in E. inversion E as [[E1 E2]]. rewrite Nat.add_succ_r.
    apply (IH (S base) E2 j m Hj).
Qed.

Definition z_chunk_hyp (dall : dalloracle) (F : bytes) (M : nat -> message) (ci : chunkindex) (c : achunk) : Prop :=
  exists k recs base,
    chunk_at F ci k /\ wf_chunk k /\ Iter.chunk_plain dall k = Ok (kplain recs) /\ Forall wf_krec recs /\
    ac_msgs c = number base (kmsgs recs) /\
    (forall j m, nth_error (kmsgs recs) j = Some m -> M (base + j)%nat = m).

Lemma z_chunk_hyp_intro dall F M i tr k base ci c :
  F = render tr -> nth_error tr i = Some (IChunk k) ->
  ci_offset ci = blen (render (firstn i tr)) -> ci_length ci = blen (render_item (IChunk k)) ->
  wf_chunk k -> Iter.chunk_plain dall k = Ok (kplain (decode_plain (k_records k))) ->
  Forall wf_krec (decode_plain (k_records k)) ->
  ac_msgs c = number base (kmsgs (decode_plain (k_records k))) ->
  map M (seq base (length (kmsgs (decode_plain (k_records k))))) = kmsgs (decode_plain (k_records k)) ->
  z_chunk_hyp dall F M ci c.
Proof.
  intros HF Hn Ho Hl Wk Hp HW Hm HM. exists k, (decode_plain (k_records k)), base.
  split; [|split; [exact Wk|split; [exact Hp|split; [exact HW|split; [exact Hm|apply number_M_ok, HM]]]]].
  exists (firstn i tr), (skipn (S i) tr). split; [|auto].
  rewrite HF. f_equal. rewrite <- (firstn_skipn i tr) at 1. f_equal.
  clear - Hn. revert i Hn. induction tr as [|x tr IH]; intros [|i] Hn; try discriminate.
  - inversion Hn; subst. reflexivity.
  - cbn [nth_error] in Hn. cbn [skipn]. rewrite IH by exact Hn. reflexivity.
Qed.

Ltac z_chunk i b :=
  eapply (z_chunk_hyp_intro x_dall y_F z_M i y_tr _ b);
  [ vm_compute; reflexivity | vm_compute; reflexivity | vm_compute; reflexivity | vm_compute; reflexivity
  | apply wf_chunkb_iff; vm_compute; reflexivity | vm_compute; reflexivity
  | apply wf_krecb_ok; vm_compute; reflexivity | vm_compute; reflexivity | vm_compute; reflexivity ].

Definition z_pairs_list : list (chunkindex * achunk) :=
  [ (nth 0 y_cis x_ci, z_ac 0 (nth 0 y_chunks (0, x_chunk)));
    (nth 1 y_cis x_ci, z_ac 1 (nth 1 y_chunks (0, x_chunk)));
    (nth 2 y_cis x_ci, z_ac 2 (nth 2 y_chunks (0, x_chunk)));
    (nth 3 y_cis x_ci, z_ac 3 (nth 3 y_chunks (0, x_chunk))) ].
Example z_pairs_list_eq : z_pairs = z_pairs_list.
Proof. vm_compute. reflexivity. Qed.

Example z_chunks_ok : forall ci c, In (ci, c) z_pairs -> z_chunk_hyp x_dall y_F z_M ci c.
Proof.
  assert (H : Forall (fun x => z_chunk_hyp x_dall y_F z_M (fst x) (snd x)) z_pairs_list).
  { unfold z_pairs_list.
    constructor; [|constructor; [|constructor; [|constructor; [|constructor]]]]; cbn [fst snd].
    - z_chunk 2%nat 0%nat.
    - z_chunk 4%nat 1%nat.
    - z_chunk 7%nat 2%nat.
    - z_chunk 10%nat 3%nat. }
  intros ci c Hin. rewrite z_pairs_list_eq in Hin. rewrite Forall_forall in H. exact (H (ci, c) Hin).
Qed.

Example z_read_value :
  match indexed_all x_dall 12 12 y_ro1 (y_sm y_ro1) z_file (i_init y_ro1 y_cis) [] (O, O) with
  | Ok (ms, e, st) => Some (map log_of ms, e) | _ => None end = Some ([3; 7; 10; 12], EEOF).
Proof. vm_compute. reflexivity. Qed.

(* every hypothesis of loader_ok_x_rendered, indexed_read_x_forward and indexed_read_x_backward holds
   for the four-chunk file y_F read in log-time order; the messages are bound both to a channel with
   a schema (channel 1) and to a channel with schema id 0 (channel 2) *)
Example z_hyps :
  blen y_F < two63 /\
  (forall ci c, In (ci, c) z_pairs -> exists k recs base,
      chunk_at y_F ci k /\ wf_chunk k /\ Iter.chunk_plain x_dall k = Ok (kplain recs) /\ Forall wf_krec recs /\
      ac_msgs c = number base (kmsgs recs) /\
      (forall j m, nth_error (kmsgs recs) j = Some m -> z_M (base + j)%nat = m)) /\
  loader_ok_x x_dall y_ro1 (y_sm y_ro1) z_file z_sel z_pairs z_M /\
  Forall2 (ci_match z_pairs) y_cis (map snd z_pairs) /\
  (exists out st, a_read z_sel (ro_order y_ro1) 12 12 (map snd z_pairs) = Some (out, st) /\
                  map am_uid out = [3; 1; 0; 2]%nat /\
                  Forall (fun m => tr_opt (y_sm y_ro1) (z_M (am_uid m)) <> None) out) /\
  (exists ms st, indexed_all x_dall 12 12 y_ro1 (y_sm y_ro1) z_file (i_init y_ro1 y_cis) [] (O, O) = Ok (ms, EEOF, st) /\
                 map log_of ms = [3; 7; 10; 12]).
Proof.
  split; [vm_compute; reflexivity|]. split; [exact z_chunks_ok|].
  split; [apply loader_ok_x_rendered; [vm_compute; reflexivity|exact z_chunks_ok]|].
  split.
  { assert (E : y_cis = map fst z_pairs) by (vm_compute; reflexivity). rewrite E.
    apply ci_match_pairs. rewrite z_pairs_list_eq. unfold z_pairs_list.
    constructor; [vm_compute; repeat split|]. constructor; [vm_compute; repeat split|].
    constructor; [vm_compute; repeat split|]. constructor; [vm_compute; repeat split|]. constructor. }
  split.
  { eexists. eexists. split; [vm_compute; reflexivity|]. split; [reflexivity|].
    repeat constructor; vm_compute; intro H; discriminate H. }
  pose proof z_read_value as H.
  destruct (indexed_all x_dall 12 12 y_ro1 (y_sm y_ro1) z_file (i_init y_ro1 y_cis) [] (O, O))
    as [[[ms e] st]| | | |]; try discriminate.
  exists ms, st. inversion H. split; reflexivity.
Qed.

(* the three theorems applied to the instance *)
Example z_forward_applies :
  exists out st ms,
    a_read z_sel (ro_order y_ro1) 12 12 (map snd z_pairs) = Some (out, st) /\
    indexed_all x_dall 12 12 y_ro1 (y_sm y_ro1) z_file (i_init y_ro1 y_cis) [] (O, O) = Ok (ms, EEOF, st) /\
    Forall2 (fun t m => tr_opt (y_sm y_ro1) (z_M (am_uid m)) = Some t) ms out /\ length out = 4%nat.
Proof.
  destruct z_hyps as (_ & _ & HL & Hm & (out & st & Hr & Hu & HP) & _).
  destruct (indexed_read_x_forward x_dall y_ro1 (y_sm y_ro1) z_file z_sel z_pairs z_M HL 12 12 y_cis
              (map snd z_pairs) out st Hm Hr HP) as (ms & Hi & Hf).
  exists out, st, ms. split; [exact Hr|]. split; [exact Hi|]. split; [exact Hf|].
  rewrite <- (map_length am_uid), Hu. reflexivity.
Qed.

Example z_backward_applies :
  exists ms st out,
    indexed_all x_dall 12 12 y_ro1 (y_sm y_ro1) z_file (i_init y_ro1 y_cis) [] (O, O) = Ok (ms, EEOF, st) /\
    a_read z_sel (ro_order y_ro1) 12 12 (map snd z_pairs) = Some (out, st) /\
    Forall2 (fun t m => tr_opt (y_sm y_ro1) (z_M (am_uid m)) = Some t) ms out /\ length ms = 4%nat.
Proof.
  destruct z_hyps as (_ & _ & HL & Hm & _ & (ms & st & Hi & Hl)).
  destruct (indexed_read_x_backward x_dall y_ro1 (y_sm y_ro1) z_file z_sel z_pairs z_M HL 12 12 y_cis
              (map snd z_pairs) ms st Hm Hi) as (out & Hr & Hf).
  exists ms, st, out. split; [exact Hi|]. split; [exact Hr|]. split; [exact Hf|].
  rewrite <- (map_length log_of), Hl. reflexivity.
Qed.
End E2E_Indexed.

From McapProps Require Import C02.
Import E2E_Indexed E2E_Writer E2E_Scan.

(* ====================================================================================== *)
(** * 0. hypotheses of the end-to-end statement *)

Definition comp_ok (o : wopts) (compress : nat -> bytes -> bytes) : Prop :=
  o_chunked o = true ->
  (o_comp o = [] /\ forall i b, compress i b = b) \/ o_comp o = comp_zstd \/ o_comp o = comp_lz4.

Definition item_fits (it : item) : Prop :=
  match it with
  | IMagic => True
  | IRec _ body => blen body < max_int32
  | IChunk k => wf_chunk k /\ k_usize k < max_int32
  | IAttach a data crc => True
  | IFooter ss sos crc => True
  end.

Definition e2e_bounds (w : wresult) : Prop :=
  let s := r_final w in
  Forall item_fits (rev (w_trace s)) /\ wf_statistics (stats_record s) /\
  Forall wf_chunkindex (w_chunk_indexes s).

Definition e2e_fuel (ds : doracle) (w : wresult) : Prop :=
  (file_steps scan_lopts ds (rev (w_trace (r_final w))) <= N.to_nat (blen (file_of w)))%nat.

Definition no_header (cs : list wcall) : Prop := Forall (fun c => is_hdr c = false) cs.

(* ====================================================================================== *)
(** * 1. generic list lemmas *)

Lemma firstn_app_len {A} (a b : list A) : firstn (length a) (a ++ b) = a.
Proof. rewrite firstn_app, Nat.sub_diag, firstn_all. cbn [firstn]. apply app_nil_r. Qed.
Lemma skipn_app_len {A} (a b : list A) : skipn (length a) (a ++ b) = b.
Proof. rewrite skipn_app, Nat.sub_diag, skipn_all. reflexivity. Qed.

Lemma concat_eq_map_split {A B C} (g : C -> list B) (h : A -> B) :
  forall (cks : list C) (L : list A),
  concat (map g cks) = map h L ->
  exists Ls, concat Ls = L /\ Forall2 (fun k Lk => g k = map h Lk) cks Ls.
Proof.
  induction cks as [|k cks IH]; intros L H; cbn [map concat] in H.
  - destruct L; [|discriminate]. exists []. split; [reflexivity|constructor].
  - pose proof (f_equal (firstn (length (g k))) H) as H1. rewrite firstn_app_len, firstn_map in H1.
    pose proof (f_equal (skipn (length (g k))) H) as H2. rewrite skipn_app_len, skipn_map in H2.
    destruct (IH _ H2) as (Ls & HL & HF).
    exists (firstn (length (g k)) L :: Ls). split.
    + cbn [concat]. rewrite HL. apply firstn_skipn.
    + constructor; [exact H1|exact HF].
Qed.

(* ====================================================================================== *)
(** * 2. the run: basic facts *)

Lemma call_wf_not_close c : call_wf c -> is_close c = false.
Proof. destruct c; cbn; auto. contradiction. Qed.

Lemma call_wf_att_small c : call_wf c -> att_small_call c.
Proof.
  destruct c as [h|sc|c|m|a src|m|]; cbn [call_wf att_small_call]; auto.
  intros (_ & _ & _ & _ & Hs & _ & Hb). unfold att_len.
  unfold attach_body in Hb. rewrite !blen_app, blen_u32 in Hb. unfold two63, two64 in *. lia.
Qed.

Lemma legal_shape_intro hd cs :
  Forall call_wf cs -> no_header cs -> legal_shape (CHeader hd :: cs ++ [CClose]) = true.
Proof.
  intros Hw Hh. cbn [legal_shape]. rewrite rev_app_distr. cbn [rev app].
  apply forallb_forall. intros c Hc. apply in_rev in Hc.
  unfold no_header in Hh. rewrite Forall_forall in Hw, Hh. rewrite (call_wf_not_close c (Hw c Hc)), (Hh c Hc). reflexivity.
Qed.

Lemma call_scoped_app_l l r : forall a b, call_scoped a b (l ++ r) -> call_scoped a b l.
Proof.
  induction l as [|c l IH]; intros a b H; [exact I|].
  destruct c; cbn [call_scoped app] in *; try (apply IH; exact H);
    (destruct H as [H1 H2]; split; [exact H1|apply IH; exact H2]).
Qed.


(* ====================================================================================== *)
(** * 3. typed records of the calls, and of the chunks *)

Definition auto_recs (cs : list wcall) : list arec :=
  flat_map (fun c => match c with
                     | CSchema s => [ASchema s] | CChannel c => [AChannel c] | CMessage m => [AMessage m]
                     | _ => [] end) cs.
Definition apair (a : arec) : byte * bytes :=
  match a with
  | ASchema s => (OpSchema, enc_schema s)
  | AChannel c => (OpChannel, enc_channel c)
  | AMessage m => (OpMessage, enc_message m)
  end.
Definition krec_of (a : arec) : krec :=
  match a with
  | AMessage m => KMsg m
  | ASchema s => KOther OpSchema (enc_schema s)
  | AChannel c => KOther OpChannel (enc_channel c)
  end.
Definition messages_of (cs : list wcall) : list message :=
  flat_map (fun c => match c with CMessage m => [m] | _ => [] end) cs.

Lemma krec_pair_of a : krec_pair (krec_of a) = apair a.
Proof. destruct a; reflexivity. Qed.
Lemma kplain_of As : kplain (map krec_of As) = frames (map apair As).
Proof. unfold kplain. rewrite map_map. f_equal. apply map_ext. apply krec_pair_of. Qed.
Lemma kmsgs_of As : kmsgs (map krec_of As) = amsgs As.
Proof.
  unfold kmsgs, amsgs. induction As as [|a As IH]; [reflexivity|].
  cbn [map flat_map]. rewrite IH. destruct a; reflexivity.
Qed.
Lemma amsgs_auto_recs cs : amsgs (auto_recs cs) = messages_of cs.
Proof.
  unfold amsgs, auto_recs, messages_of. induction cs as [|c cs IH]; [reflexivity|].
  cbn [flat_map]. rewrite flat_map_app, IH. destruct c; reflexivity.
Qed.
Lemma amsgs_app a b : amsgs (a ++ b) = amsgs a ++ amsgs b.
Proof. apply flat_map_app. Qed.
Lemma wf_krec_of a : wf_arec a -> wf_krec (krec_of a).
Proof. destruct a; cbn [wf_arec krec_of wf_krec]; auto; intros _; discriminate. Qed.
Lemma auto_op_apair a : auto_op (fst (apair a)) = true.
Proof. destruct a; reflexivity. Qed.

Lemma expected_auto o lib cs :
  expected_records o lib (filter call_auto cs) = map (fun a => cr_of (apair a)) (auto_recs cs).
Proof.
  unfold expected_records, auto_recs. induction cs as [|c cs IH]; [reflexivity|].
  cbn [filter flat_map]. destruct c; cbn [call_auto flat_map call_rec app]; rewrite ?map_app, ?IH; reflexivity.
Qed.

Lemma wf_auto_recs cs : Forall call_wf cs -> Forall wf_arec (auto_recs cs).
Proof.
  intro H. unfold auto_recs. induction H as [|c cs Hc _ IH]; [constructor|].
  cbn [flat_map]. apply Forall_app. split; [|exact IH].
  destruct c; cbn [call_wf] in Hc; try apply Forall_nil; (apply Forall_cons; [exact Hc|apply Forall_nil]).
Qed.

Lemma map_cr_of_inj a b : map cr_of a = map cr_of b -> a = b.
Proof.
  revert b. induction a as [|[op body] a IH]; intros [|[op' body'] b] H; try discriminate; [reflexivity|].
  cbn [map] in H. injection H as H1 H2 H3. cbn [fst snd] in *. subst. f_equal. apply IH. exact H3.
Qed.

(* the chunks of a structured data section, with their offsets *)
Definition schunks (off : N) (D : list sitem) : list (N * chunk * list msgindex) :=
  flat_map (fun p => match snd p with SChunk k mis => [(fst p, k, mis)] | _ => [] end) (slocated off D).

Lemma schunks_cons off x D :
  schunks off (x :: D) =
  match x with SChunk k mis => [(off, k, mis)] | _ => [] end ++ schunks (off + offset_of (flat1 x)) D.
Proof. reflexivity. Qed.

Lemma exp_ci_schunks D : forall off,
  flat_map exp_ci (slocated off D) = map (fun c => mk_ci (snd (fst c)) (snd c) (fst (fst c))) (schunks off D).
Proof.
  induction D as [|x D IH]; intro off; [reflexivity|].
  rewrite schunks_cons. cbn [slocated flat_map]. rewrite map_app, IH. destruct x; reflexivity.
Qed.

Lemma frames_app a b : frames (a ++ b) = frames a ++ frames b.
Proof. unfold frames. rewrite map_app, concat_app. reflexivity. Qed.

Lemma frames_body_le r inner : In r inner -> blen (snd r) <= blen (frames inner).
Proof.
  intro H. apply in_split in H. destruct H as (a & b & ->).
  rewrite frames_app, frames_cons, !LexerFactsB.blen_app. unfold frame. rewrite !LexerFactsB.blen_app. lia.
Qed.

Definition cpair (r : WriterFactsC.crec) : byte * bytes :=
  match r with
  | CRSchema sc => (OpSchema, enc_schema sc)
  | CRChannel c => (OpChannel, enc_channel c)
  | CRMessage m => (OpMessage, enc_message m)
  end.
Lemma plain_of_frames recs : plain_of recs = frames (map cpair recs).
Proof.
  unfold plain_of, frames. rewrite map_map. f_equal. apply map_ext. intros []; reflexivity.
Qed.
Lemma cpair_auto recs : Forall (fun r => auto_op (fst r) = true) (map cpair recs).
Proof. apply Forall_forall. intros r Hr. apply in_map_iff in Hr. destruct Hr as ([] & <- & _); reflexivity. Qed.

(* ====================================================================================== *)
(** * 4. what the two readers make of a chunk the writer flushed *)

Section Decode.
Variable ds : doracle.
Variable dall : dalloracle.
Variable o : wopts.
Variable compress : nat -> bytes -> bytes.
Hypothesis Hcodec : codec_ok ds dall (o_comp o) compress.
Hypothesis Hcomp0 : o_chunked o = true ->
  (o_comp o = [] /\ forall i b, compress i b = b) \/ o_comp o = comp_zstd \/ o_comp o = comp_lz4.
Hypothesis Hch : o_chunked o = true.
Let Hcomp := Hcomp0 Hch.

Definition chunk_decodes (k : chunk) (inner : list (byte * bytes)) : Prop :=
  chunk_stream scan_lopts ds (k_comp k) (k_records k) None = (frames inner, None) /\
  Iter.chunk_plain dall k = Ok (frames inner) /\
  k_usize k = blen (frames inner) /\ (k_crc k = 0 \/ k_crc k = crc32 (frames inner)) /\
  Forall (fun r => auto_op (fst r) = true) inner /\
  comp_supported scan_lopts (k_comp k) = true /\ blen (k_comp k) + 8 < max_int32.

Lemma stream_decodes n plain :
  chunk_stream scan_lopts ds (o_comp o) (compress n plain) None = (plain, None).
Proof.
  unfold chunk_stream. cbn [scan_lopts lo_custom mem_bytes negb andb].
  destruct Hcomp as [[Hc Hid]|[Hc|Hc]]; rewrite Hc.
  - cbn [bytes_eqb andb]. rewrite Hid. reflexivity.
  - change (bytes_eqb comp_zstd [] && true) with false. cbv iota. rewrite <- Hc. apply Hcodec.
  - change (bytes_eqb comp_lz4 [] && true) with false. cbv iota. rewrite <- Hc. apply Hcodec.
Qed.

Lemma chunk_ok_decodes n k mis :
  chunk_ok o compress n k mis -> k_usize k < max_int32 -> exists inner, chunk_decodes k inner.
Proof.
  intros (recs & Hr & Hu & _ & Hc & Hcrc & _ & _) Hlt.
  exists (map cpair recs). unfold chunk_decodes. rewrite <- plain_of_frames.
  split; [rewrite Hc, Hr; apply stream_decodes|].
  split; [|split; [exact Hu|split; [|split; [apply cpair_auto|]]]].
  - destruct Hcomp as [[Hc' Hid]|Hc'].
    + rewrite <- (Hid n (plain_of recs)), <- Hr. apply chunk_plain_uncompressed.
      * rewrite Hc. exact Hc'.
      * rewrite Hr, Hid. exact Hu.
      * rewrite Hr, Hid, <- Hu. exact Hlt.
    + apply chunk_plain_oracle.
      * rewrite Hc. exact Hc'.
      * rewrite Hc, Hr, Hu. apply Hcodec.
      * symmetry. exact Hu.
      * exact Hlt.
  - destruct (o_crc o); [right|left]; exact Hcrc.
  - rewrite Hc. destruct Hcomp as [[Hc' _]|[Hc'|Hc']]; rewrite Hc'; split; reflexivity.
Qed.

Lemma all_records_cons unz it l : all_records unz (it :: l) = item_records unz it ++ all_records unz l.
Proof. reflexivity. Qed.

Lemma all_records_mi unz mis :
  filter is_auto (all_records unz (map mi_item mis)) = [] /\
  Forall (fun r => is_dataend r = false) (all_records unz (map mi_item mis)).
Proof.
  induction mis as [|mi mis [IH1 IH2]]; [split; [reflexivity|constructor]|].
  cbn [map all_records flat_map mi_item item_records app filter]. fold (all_records unz (map mi_item mis)).
  change (is_auto (CR OpMessageIndex (enc_msgindex mi))) with false. cbv iota.
  split; [exact IH1|]. constructor; [reflexivity|exact IH2].
Qed.

Lemma auto_inner_facts inner : Forall (fun r => auto_op (fst r) = true) inner ->
  filter is_auto (map cr_of inner) = map cr_of inner /\
  Forall (fun r => is_dataend r = false) (map cr_of inner).
Proof.
  intro H. induction H as [|[op body] l Hr _ [IH1 IH2]]; [split; [reflexivity|constructor]|].
  cbn [map cr_of fst snd filter is_auto]. cbn [fst] in Hr. rewrite Hr, IH1.
  split; [reflexivity|]. constructor; [|exact IH2]. cbn [is_dataend]. apply (auto_not_direct _ Hr).
Qed.

Lemma D_decodes D : forall n off,
  Forall (data_sitem o) D -> chunks_ok o compress n D -> Forall item_fits (flatten D) ->
  exists inners,
    Forall2 (fun ck inner => chunk_decodes (snd (fst ck)) inner) (schunks off D) inners /\
    filter is_auto (all_records (lunz scan_lopts ds) (flatten D)) = concat (map (map cr_of) inners) /\
    Forall (fun r => is_dataend r = false) (all_records (lunz scan_lopts ds) (flatten D)) /\
    (forall k mis, In (SChunk k mis) D ->
       Forall (fun r => is_auto r = true) (item_records (lunz scan_lopts ds) (IChunk k))).
Proof.
  induction D as [|x D IH]; intros n off HD HK HF.
  - exists []. split; [constructor|]. split; [reflexivity|]. split; [constructor|intros ? ? []].
  - inversion HD as [|? ? Hx HD']; subst.
    change (flatten (x :: D)) with (flat1 x ++ flatten D) in *.
    apply Forall_app in HF. destruct HF as [HFx HF'].
    rewrite all_records_app, filter_app, schunks_cons.
    destruct x as [it|m|k mis].
    + cbn [chunks_ok] in HK. destruct (IH n (off + offset_of (flat1 (SItem it))) HD' HK HF') as (inners & I1 & I2 & I3 & I4).
      exists inners. cbn [app]. split; [exact I1|].
      destruct it as [|op body|k|a data crc|ss sos crc]; cbn [data_sitem] in Hx; try contradiction.
      * destruct Hx as [Hx _]. congruence.
      * cbn [flat1 all_records flat_map item_records app filter is_auto is_dataend].
        split; [exact I2|]. split; [constructor; [reflexivity|exact I3]|].
        intros k' mis' [E|Hin]; [discriminate|exact (I4 k' mis' Hin)].
    + cbn [chunks_ok] in HK. destruct (IH n (off + offset_of (flat1 (SMeta m))) HD' HK HF') as (inners & I1 & I2 & I3 & I4).
      exists inners. cbn [app]. split; [exact I1|].
      cbn [flat1 all_records flat_map item_records app filter].
      change (is_auto (CR OpMetadata (enc_metadata m))) with false. cbv iota.
      split; [exact I2|]. split; [constructor; [reflexivity|exact I3]|].
      intros k' mis' [E|Hin]; [discriminate|exact (I4 k' mis' Hin)].
    + cbn [chunks_ok] in HK. destruct HK as [HK1 HK2].
      destruct (IH (S n) (off + offset_of (flat1 (SChunk k mis))) HD' HK2 HF') as (inners & I1 & I2 & I3 & I4).
      cbn [flat1] in HFx. inversion HFx as [|? ? Hk _]; subst. cbn [item_fits] in Hk. destruct Hk as [_ Hlt].
      destruct (chunk_ok_decodes n k mis HK1 Hlt) as (inner & Hdec).
      exists (inner :: inners). split; [constructor; [exact Hdec|exact I1]|].
      destruct Hdec as (Hs & _ & Hu & _ & Hauto & _).
      assert (Hsm : Forall (fun r => blen (snd r) < two64) inner).
      { apply Forall_forall. intros r Hr. pose proof (frames_body_le r inner Hr). unfold max_int32, two64 in *. lia. }
      cbn [flat1]. rewrite !(all_records_cons (lunz scan_lopts ds) (IChunk k)).
      rewrite (item_records_chunk _ _ _ _ Hs Hsm).
      destruct (auto_inner_facts inner Hauto) as [A1 A2].
      destruct (all_records_mi (lunz scan_lopts ds) mis) as [M1 M2].
      rewrite filter_app, A1, M1, app_nil_r. cbn [map concat]. rewrite I2.
      split; [reflexivity|]. split; [apply Forall_app; split; [apply Forall_app; split; assumption|exact I3]|].
      intros k' mis' [E|Hin]; [|exact (I4 k' mis' Hin)]. injection E as <- <-.
      rewrite (item_records_chunk _ _ _ _ Hs Hsm). clear - Hauto.
      induction Hauto as [|[op body] l Hr _ IH]; [constructor|]. cbn [map cr_of fst snd]. constructor; [exact Hr|exact IH].
Qed.

End Decode.

(* ---------- every item of the data section is well-formed for the scanning lexer ---------- *)
Definition item_ok (it : item) : Prop := item_fits it /\ blen (render_item it) < two63.

Lemma len_ok_scan n : len_ok scan_lopts n.
Proof. reflexivity. Qed.

Definition plain_op (op : byte) : Prop := op <> OpChunk /\ op <> OpAttachment /\ op <> x00.

Lemma wf_item_rec op body : plain_op op -> blen body < max_int32 -> forall ds, wf_item scan_lopts ds (IRec op body).
Proof.
  intros (H1 & H2 & H3) Hl ds. cbn [wf_item]. unfold plain_rec_ok. cbn [fst snd].
  repeat split; try assumption.
Qed.

Lemma auto_op_cases op : auto_op op = true -> op = OpSchema \/ op = OpChannel \/ op = OpMessage.
Proof.
  unfold auto_op. intro H. apply orb_prop in H. destruct H as [H|H]; [apply orb_prop in H; destruct H as [H|H]|];
    apply byte_eqb_eq in H; auto.
Qed.
Lemma auto_op_plain op : auto_op op = true -> plain_op op.
Proof. intro H. destruct (auto_op_cases op H) as [->|[->| ->]]; repeat split; discriminate. Qed.

Lemma wf_attach_scan a data crc : wf_attach_ra a data crc -> forall ds, wf_item scan_lopts ds (IAttach a data crc).
Proof.
  intros (H1 & H2 & H3 & H4 & H5 & H6 & H7) ds. cbn [wf_item]. unfold wf_attach_item.
  repeat split; try assumption. left. reflexivity.
Qed.

Section Decode2.
Variable ds : doracle.
Variable dall : dalloracle.
Variable o : wopts.
Variable compress : nat -> bytes -> bytes.
Hypothesis Hcodec : codec_ok ds dall (o_comp o) compress.
Hypothesis Hcomp0 : o_chunked o = true ->
  (o_comp o = [] /\ forall i b, compress i b = b) \/ o_comp o = comp_zstd \/ o_comp o = comp_lz4.

Lemma chunk_wf_scan k inner :
  chunk_decodes ds dall k inner -> wf_chunk k -> k_usize k < max_int32 -> blen (render_item (IChunk k)) < two63 ->
  wf_item scan_lopts ds (IChunk k).
Proof.
  intros (Hs & _ & Hu & Hcrc & Hauto & Hsup & Hcl) Wk Hlt Hsz.
  cbn [wf_item]. unfold wf_chunk_item. split; [exact Wk|]. split; [apply len_ok_scan|].
  change (lo_emit_chunks scan_lopts) with false. cbv iota.
  split; [exact Hsup|]. split; [exact Hcl|]. split.
  - cbn [render_item] in Hsz. rewrite blen_frame in Hsz. unfold enc_chunk in Hsz.
    rewrite WriterFactsC.blen_app in Hsz. lia.
  - exists inner. split; [exact Hs|]. split; [exact Hu|]. split; [|split; [exact Hcrc|discriminate]].
    apply Forall_forall. intros r Hr. rewrite Forall_forall in Hauto.
    destruct (auto_op_plain _ (Hauto r Hr)) as (P1 & P2 & P3).
    unfold plain_rec_ok. split; [exact P1|]. split; [exact P2|]. split; [exact P3|]. split; [|apply len_ok_scan].
    pose proof (frames_body_le r inner Hr). lia.
Qed.

Definition att_ok (it : item) : Prop :=
  match it with IAttach a data crc => wf_attach_ra a data crc | _ => True end.

Lemma D_wf_items D : forall n,
  Forall (data_sitem o) D -> chunks_ok o compress n D -> Forall item_ok (flatten D) -> Forall att_ok (flatten D) ->
  Forall (wf_item scan_lopts ds) (flatten D).
Proof.
  induction D as [|x D IH]; intros n HD HK HF HA; [constructor|].
  inversion HD as [|? ? Hx HD']; subst.
  change (flatten (x :: D)) with (flat1 x ++ flatten D) in *.
  apply Forall_app in HF. destruct HF as [HFx HF']. apply Forall_app in HA. destruct HA as [HAx HA']. apply Forall_app.
  destruct x as [it|m|k mis].
  - cbn [chunks_ok] in HK. split; [|exact (IH n HD' HK HF' HA')].
    cbn [flat1] in *. inversion HFx as [|? ? [Hfit _] _]; subst. inversion HAx as [|? ? Hatt _]; subst. constructor; [|constructor].
    destruct it as [|op body|k|a data crc|ss sos crc]; cbn [data_sitem] in Hx; try contradiction.
    + destruct Hx as [_ Hop]. apply wf_item_rec; [|exact Hfit].
      destruct Hop as [->|[->| ->]]; repeat split; discriminate.
    + apply wf_attach_scan. exact Hatt.
  - cbn [chunks_ok] in HK. split; [|exact (IH n HD' HK HF' HA')].
    cbn [flat1] in *. inversion HFx as [|? ? [Hfit _] _]; subst. constructor; [|constructor].
    apply wf_item_rec; [repeat split; discriminate|exact Hfit].
  - cbn [chunks_ok] in HK. destruct HK as [HK1 HK2]. split; [|exact (IH (S n) HD' HK2 HF' HA')].
    cbn [data_sitem] in Hx. cbn [flat1] in *. inversion HFx as [|? ? Hk0 HFm]; subst.
    destruct Hk0 as [Hf0 Hsz]. cbn [item_fits] in Hf0. destruct Hf0 as [Wk Hlt].
    constructor.
    + destruct (chunk_ok_decodes ds dall o compress Hcodec Hcomp0 Hx n k mis HK1 Hlt) as (inner & Hdec).
      exact (chunk_wf_scan k inner Hdec Wk Hlt Hsz).
    + apply Forall_forall. intros it Hit. rewrite Forall_forall in HFm. destruct (HFm it Hit) as [Hfit _].
      apply in_map_iff in Hit. destruct Hit as (mi & <- & _). unfold mi_item in *.
      apply wf_item_rec; [repeat split; discriminate|exact Hfit].
Qed.

End Decode2.

(* ====================================================================================== *)
(** * 4b. the summary section as a list of typed summary records *)

Definition mk_summary (sch : list schema) (chs : list channel) (sts : list statistics)
  (cis : list chunkindex) (ais : list attindex) (mxs : list mdindex) : list (srec * bytes) :=
  map (fun x => (SSchema x, [])) sch ++ map (fun x => (SChannel x, [])) chs ++
  map (fun x => (SStats x, [])) sts ++ map (fun x => (SChunkIdx x, [])) cis ++
  map (fun x => (SAttIdx x, [])) ais ++ map (fun x => (SMdIdx x, [])) mxs.

Lemma sum_items_filter groups : sum_items (filter nonempty_group groups) = sum_items groups.
Proof.
  induction groups as [|g groups IH]; [reflexivity|]. cbn [filter].
  destruct g as [op [|b bs]]; cbn [nonempty_group snd]; cbn [sum_items flat_map]; fold (sum_items groups);
    fold (sum_items (filter nonempty_group groups)); rewrite IH; reflexivity.
Qed.

Lemma group_sum_item {A} (op : byte) (enc : A -> bytes) (mk : A -> srec) (l : list A) :
  (forall x, srec_op (mk x) = op) -> (forall x, srec_body (mk x) = enc x) ->
  group_items (op, map enc l) = map sum_item (map (fun x => (mk x, [])) l).
Proof.
  intros H1 H2. unfold group_items. cbn [fst snd]. rewrite !map_map. apply map_ext. intro x.
  unfold sum_item. cbn [fst snd]. rewrite H1, H2, app_nil_r. reflexivity.
Qed.

Lemma sum_items_mk sch chs sts cis ais mxs :
  sum_items [(OpSchema, map enc_schema sch); (OpChannel, map enc_channel chs);
             (OpStatistics, map enc_statistics sts); (OpChunkIndex, map enc_chunkindex cis);
             (OpAttachmentIndex, map enc_attindex ais); (OpMetadataIndex, map enc_mdindex mxs)]
  = map sum_item (mk_summary sch chs sts cis ais mxs).
Proof.
  unfold mk_summary. rewrite !map_app. cbn [sum_items flat_map]. rewrite app_nil_r.
  rewrite (group_sum_item OpSchema enc_schema SSchema), (group_sum_item OpChannel enc_channel SChannel),
    (group_sum_item OpStatistics enc_statistics SStats), (group_sum_item OpChunkIndex enc_chunkindex SChunkIdx),
    (group_sum_item OpAttachmentIndex enc_attindex SAttIdx), (group_sum_item OpMetadataIndex enc_mdindex SMdIdx);
    reflexivity.
Qed.

Lemma flat_map_tag {A B} (g : srec -> list B) (mk : A -> srec) (f : A -> list B) (l : list A) :
  (forall x, g (mk x) = f x) ->
  flat_map g (map fst (map (fun x => (mk x, @nil byte)) l)) = flat_map f l.
Proof.
  intro H. rewrite !map_map. cbn [fst]. induction l as [|x l IH]; [reflexivity|].
  cbn [map flat_map]. rewrite H, IH. reflexivity.
Qed.

Lemma flat_map_nil' {A B} (l : list A) : flat_map (fun _ : A => @nil B) l = [].
Proof. induction l; [reflexivity|assumption]. Qed.
Lemma flat_map_single {A B} (f : A -> B) (l : list A) : flat_map (fun x => [f x]) l = map f l.
Proof. induction l as [|x l IH]; [reflexivity|]. cbn [flat_map map app]. rewrite IH. reflexivity. Qed.

Lemma mk_summary_fields sch chs sts cis ais mxs (offs : list sumoffset) :
  let rs := map fst (mk_summary sch chs sts cis ais mxs ++ map (fun so => (so_srec so, [])) offs) in
  schemas_of rs = sch /\ channels_of rs = map channel_norm chs /\ stats_of rs = map statistics_norm sts /\
  cis_of rs = map chunkindex_norm cis /\ ais_of rs = ais /\ mxs_of rs = mxs.
Proof.
  cbv zeta. unfold mk_summary. rewrite !map_app.
  unfold schemas_of, channels_of, stats_of, cis_of, ais_of, mxs_of.
  rewrite !flat_map_app.
  repeat split.
  - rewrite (flat_map_tag _ SSchema (fun x => [x])), (flat_map_tag _ SChannel (fun _ => [])),
      (flat_map_tag _ SStats (fun _ => [])), (flat_map_tag _ SChunkIdx (fun _ => [])),
      (flat_map_tag _ SAttIdx (fun _ => [])), (flat_map_tag _ SMdIdx (fun _ => [])), flat_map_so by reflexivity.
    rewrite !flat_map_nil', !app_nil_r, flat_map_single, map_id. reflexivity.
  - rewrite (flat_map_tag _ SSchema (fun _ => [])), (flat_map_tag _ SChannel (fun x => [channel_norm x])),
      (flat_map_tag _ SStats (fun _ => [])), (flat_map_tag _ SChunkIdx (fun _ => [])),
      (flat_map_tag _ SAttIdx (fun _ => [])), (flat_map_tag _ SMdIdx (fun _ => [])), flat_map_so by reflexivity.
    rewrite !flat_map_nil', !app_nil_r, flat_map_single. reflexivity.
  - rewrite (flat_map_tag _ SSchema (fun _ => [])), (flat_map_tag _ SChannel (fun _ => [])),
      (flat_map_tag _ SStats (fun x => [statistics_norm x])), (flat_map_tag _ SChunkIdx (fun _ => [])),
      (flat_map_tag _ SAttIdx (fun _ => [])), (flat_map_tag _ SMdIdx (fun _ => [])), flat_map_so by reflexivity.
    rewrite !flat_map_nil', !app_nil_r, flat_map_single. reflexivity.
  - rewrite (flat_map_tag _ SSchema (fun _ => [])), (flat_map_tag _ SChannel (fun _ => [])),
      (flat_map_tag _ SStats (fun _ => [])), (flat_map_tag _ SChunkIdx (fun x => [chunkindex_norm x])),
      (flat_map_tag _ SAttIdx (fun _ => [])), (flat_map_tag _ SMdIdx (fun _ => [])), flat_map_so by reflexivity.
    rewrite !flat_map_nil', !app_nil_r, flat_map_single. reflexivity.
  - rewrite (flat_map_tag _ SSchema (fun _ => [])), (flat_map_tag _ SChannel (fun _ => [])),
      (flat_map_tag _ SStats (fun _ => [])), (flat_map_tag _ SChunkIdx (fun _ => [])),
      (flat_map_tag _ SAttIdx (fun x => [x])), (flat_map_tag _ SMdIdx (fun _ => [])), flat_map_so by reflexivity.
    rewrite !flat_map_nil', !app_nil_r, flat_map_single, map_id. reflexivity.
  - rewrite (flat_map_tag _ SSchema (fun _ => [])), (flat_map_tag _ SChannel (fun _ => [])),
      (flat_map_tag _ SStats (fun _ => [])), (flat_map_tag _ SChunkIdx (fun _ => [])),
      (flat_map_tag _ SAttIdx (fun _ => [])), (flat_map_tag _ SMdIdx (fun x => [x])), flat_map_so by reflexivity.
    rewrite !flat_map_nil', !app_nil_r, flat_map_single, map_id. reflexivity.
Qed.

(* ====================================================================================== *)
(** * 4c. first-wins tables *)

Lemma fw_add_in {A} (key : A -> N) t x p :
  In p (fw_add key t x) -> In p t \/ p = (key x, x).
Proof.
  unfold fw_add. destruct (assoc_get (key x) t); [auto|]. intro H. apply in_app_or in H.
  destruct H as [H|[H|[]]]; auto.
Qed.

Lemma fw_fold_in {A} (key : A -> N) (l : list A) : forall t0 p,
  In p (fold_left (fw_add key) l t0) -> In p t0 \/ (In (snd p) l /\ fst p = key (snd p)).
Proof.
  induction l as [|x l IH]; intros t0 p H; cbn [fold_left] in H; [auto|].
  destruct (IH _ _ H) as [H1|[H1 H2]].
  - destruct (fw_add_in _ _ _ _ H1) as [H3| ->]; [auto|]. right. cbn [fst snd]. split; [left; reflexivity|reflexivity].
  - right. split; [right; exact H1|exact H2].
Qed.

Lemma assoc_get_app {A} k (a b : list (N * A)) :
  assoc_get k (a ++ b) = match assoc_get k a with Some v => Some v | None => assoc_get k b end.
Proof.
  induction a as [|x a IH]; [reflexivity|]. cbn [app assoc_get]. destruct (fst x =? k); [reflexivity|exact IH].
Qed.

Lemma fw_fold_get {A} (key : A -> N) id (l : list A) : forall t0,
  assoc_get id (fold_left (fw_add key) l t0) =
  match assoc_get id t0 with Some v => Some v | None => find (fun x => key x =? id) l end.
Proof.
  induction l as [|x l IH]; intro t0; cbn [fold_left find].
  - destruct (assoc_get id t0); reflexivity.
  - rewrite IH. unfold fw_add. destruct (assoc_get (key x) t0) as [v|] eqn:E.
    + destruct (assoc_get id t0) as [v'|] eqn:E'; [reflexivity|].
      destruct (N.eqb_spec (key x) id) as [K|K]; [|reflexivity]. rewrite K, E' in E. discriminate.
    + rewrite assoc_get_app. destruct (assoc_get id t0) as [v'|] eqn:E'; [reflexivity|].
      cbn [assoc_get fst snd]. destruct (key x =? id); reflexivity.
Qed.

Lemma offset_of_le_app a b : offset_of a <= blen (render (a ++ b)).
Proof. unfold offset_of, rendered, render. rewrite map_app, concat_app, LexerFactsB.blen_app. lia. Qed.

Lemma NoDup_snoc {A} (l : list A) x : NoDup l -> ~ In x l -> NoDup (l ++ [x]).
Proof.
  intros H Hx. apply NoDup_rev in H. rewrite <- (rev_involutive (l ++ [x])), rev_app_distr. apply NoDup_rev.
  cbn [rev app]. constructor; [rewrite <- in_rev; exact Hx|exact H].
Qed.

Lemma fw_fold_nodup {A} (key : A -> N) (l : list A) : forall t0,
  NoDup (map fst t0) -> NoDup (map fst (fold_left (fw_add key) l t0)).
Proof.
  induction l as [|x l IH]; intros t0 H; cbn [fold_left]; [exact H|]. apply IH.
  unfold fw_add. destruct (assoc_get (key x) t0) eqn:E; [exact H|].
  rewrite map_app. cbn [map fst]. apply NoDup_snoc; [exact H|].
  apply assoc_get_None_notin. exact E.
Qed.

Lemma fw_fold_nonempty {A} (key : A -> N) (l : list A) t0 :
  l <> [] \/ t0 <> [] -> fold_left (fw_add key) l t0 <> [].
Proof.
  revert t0. induction l as [|x l IH]; intros t0 H; cbn [fold_left].
  - destruct H as [H|H]; [contradiction|exact H].
  - apply IH. right. unfold fw_add. destruct (assoc_get (key x) t0) eqn:E.
    + destruct t0; [discriminate|discriminate].
    + destruct t0; discriminate.
Qed.

Lemma in_schema_calls sc cs : In sc (schema_calls cs) <-> In (CSchema sc) cs.
Proof.
  unfold schema_calls. rewrite in_flat_map. split.
  - intros (c & Hc & H). destruct c; cbn in H; try contradiction. destruct H as [<-|[]]. exact Hc.
  - intro H. exists (CSchema sc). split; [exact H|left; reflexivity].
Qed.
Lemma in_channel_calls c cs : In c (channel_calls cs) <-> In (CChannel c) cs.
Proof.
  unfold channel_calls. rewrite in_flat_map. split.
  - intros (c0 & Hc & H). destruct c0; cbn in H; try contradiction. destruct H as [<-|[]]. exact Hc.
  - intro H. exists (CChannel c). split; [exact H|left; reflexivity].
Qed.

(* read options of the statement: no topic filter, the full time window *)
Definition plain_ro (r : ropts) : Prop := ro_topics r = [] /\ ro_start_n r = 0 /\ ro_unbounded r = true.

Lemma plain_window r t : plain_ro r -> in_window r t = true.
Proof.
  intros (_ & H1 & H2). unfold in_window. rewrite H1, H2, orb_true_r, andb_true_r.
  destruct (N.leb_spec 0 t); [reflexivity|lia].
Qed.
Lemma plain_time_ok r im ci : plain_ro r -> ci_time_ok r im ci = true.
Proof.
  intros (_ & H1 & H2). unfold ci_time_ok. rewrite H1, H2, orb_true_r.
  destruct (N.leb_spec 0 (ci_end ci)); [|lia]. cbn [andb]. apply orb_true_r.
Qed.

Lemma tab_set_nonempty {A} k (v : A) l : tab_set k v l <> [].
Proof. destruct l as [|x l]; cbn [tab_set]; [discriminate|]. destruct (fst x =? k); [discriminate|]. destruct (k <? fst x); discriminate. Qed.
Lemma tab_of_nonempty {A} (key : A -> N) l : forall t0, l <> [] \/ t0 <> [] -> tab_of key l t0 <> [].
Proof.
  induction l as [|x l IH]; intros t0 H; unfold tab_of in *; cbn [fold_left].
  - destruct H; [contradiction|assumption].
  - apply IH. right. apply tab_set_nonempty.
Qed.
Lemma ci_sort_nil o l : ci_sort o l = [] <-> l = [].
Proof.
  rewrite ci_sort_gsort. split; intro H.
  - pose proof (gsort_perm (ci_before o) l) as P. rewrite H in P. apply Permutation_nil in P. exact P.
  - subst. reflexivity.
Qed.

Lemma render_item_le it l : In it l -> blen (render_item it) <= blen (render l).
Proof.
  intro H. apply in_split in H. destruct H as (a & b & ->).
  rewrite render_app, render_cons, !LexerFactsB.blen_app. lia.
Qed.

Lemma summary_op_plain op : In op summary_ops -> plain_op op.
Proof.
  unfold summary_ops. cbn [In]. intro H.
  repeat (destruct H as [<-|H]; [repeat split; discriminate|]). destruct H.
Qed.

(* ---------- records and events ---------- *)
Lemma filter_map_true {A B} (p : B -> bool) (f : A -> B) l : (forall x, p (f x) = true) -> filter p (map f l) = map f l.
Proof. intro H. induction l as [|x l IH]; [reflexivity|]. cbn [map filter]. rewrite H, IH. reflexivity. Qed.
Lemma filter_map_false {A B} (p : B -> bool) (f : A -> B) l : (forall x, p (f x) = false) -> filter p (map f l) = [].
Proof. intro H. induction l as [|x l IH]; [reflexivity|]. cbn [map filter]. rewrite H, IH. reflexivity. Qed.

Lemma all_records_sum_items u S :
  all_records u (map sum_item S) = map (fun x => CR (srec_op (fst x)) (srec_body (fst x) ++ snd x)) S.
Proof. induction S as [|x S IH]; [reflexivity|]. cbn [map]. rewrite all_records_cons, IH. reflexivity. Qed.

Lemma so_auto_false (offs : list sumoffset) p :
  (forall body, p (CR OpSummaryOffset body) = false) ->
  filter p (map (fun x : srec * bytes => CR (srec_op (fst x)) (srec_body (fst x) ++ snd x))
                (map (fun so => (so_srec so, [])) offs)) = [].
Proof. intro H. rewrite map_map. apply filter_map_false. intro so. apply H. Qed.

Lemma summary_auto_records u sch chs sts cis ais mxs (offs : list sumoffset) :
  filter is_auto (all_records u (map sum_item (mk_summary sch chs sts cis ais mxs ++ map (fun so => (so_srec so, [])) offs)))
  = map (fun a => cr_of (apair a)) (map ASchema sch ++ map AChannel chs).
Proof.
  rewrite all_records_sum_items. unfold mk_summary. rewrite !map_app, !filter_app, !map_map.
  rewrite (filter_map_true is_auto (fun x : schema => _)) by reflexivity.
  rewrite (filter_map_true is_auto (fun x : channel => _)) by reflexivity.
  rewrite (filter_map_false is_auto (fun x : statistics => _)) by reflexivity.
  rewrite (filter_map_false is_auto (fun x : chunkindex => _)) by reflexivity.
  rewrite (filter_map_false is_auto (fun x : attindex => _)) by reflexivity.
  rewrite (filter_map_false is_auto (fun x : mdindex => _)) by reflexivity.
  rewrite (filter_map_false is_auto (fun x : sumoffset => _)) by reflexivity.
  rewrite !app_nil_r. f_equal; apply map_ext; intro x; cbn [fst snd srec_op srec_body apair cr_of]; rewrite app_nil_r; reflexivity.
Qed.

Lemma summary_md_records u sch chs sts cis ais mxs (offs : list sumoffset) :
  filter (is_op OpMetadata) (all_records u (map sum_item (mk_summary sch chs sts cis ais mxs ++ map (fun so => (so_srec so, [])) offs))) = [].
Proof.
  rewrite all_records_sum_items. unfold mk_summary. rewrite !map_app, !filter_app, !map_map.
  rewrite (filter_map_false _ (fun x : schema => _)) by reflexivity.
  rewrite (filter_map_false _ (fun x : channel => _)) by reflexivity.
  rewrite (filter_map_false _ (fun x : statistics => _)) by reflexivity.
  rewrite (filter_map_false _ (fun x : chunkindex => _)) by reflexivity.
  rewrite (filter_map_false _ (fun x : attindex => _)) by reflexivity.
  rewrite (filter_map_false _ (fun x : mdindex => _)) by reflexivity.
  rewrite (filter_map_false _ (fun x : sumoffset => _)) by reflexivity.
  reflexivity.
Qed.

Lemma auto_events lo (L : list arec) :
  flat_map (crec_events lo) (map (fun a => cr_of (apair a)) L) = map arec_ev L.
Proof.
  induction L as [|a L IH]; [reflexivity|]. cbn [map flat_map]. rewrite IH. destruct a; reflexivity.
Qed.

Lemma expected_md o lib cs :
  expected_records o lib (filter is_metadata cs) = map (fun m => CR OpMetadata (enc_metadata m)) (metadata_of cs).
Proof.
  unfold expected_records, metadata_of. induction cs as [|c cs IH]; [reflexivity|].
  destruct c; cbn [filter is_metadata flat_map call_rec app map]; rewrite ?IH; reflexivity.
Qed.

Lemma expected_att o lib cs :
  expected_records o lib (filter is_attachment cs)
  = map (fun ad => CA (fst ad) (snd ad) (crc32 (enc_attachment_fields (fst ad) ++ snd ad))) (attachments_of cs).
Proof.
  unfold expected_records, attachments_of. induction cs as [|c cs IH]; [reflexivity|].
  destruct c; cbn [filter is_attachment flat_map call_rec app map fst snd]; rewrite ?IH; reflexivity.
Qed.

Lemma md_events lo (ms : list metadata) :
  flat_map (crec_events lo) (map (fun m => CR OpMetadata (enc_metadata m)) ms)
  = map (fun m => EvToken OpMetadata (enc_metadata m)) ms.
Proof. induction ms as [|m ms IH]; [reflexivity|]. cbn [map flat_map]. rewrite IH. reflexivity. Qed.

Lemma md_list_tokens (ms : list metadata) : Forall wf_metadata ms ->
  md_list (map (fun m => EvToken OpMetadata (enc_metadata m)) ms) = map metadata_norm ms.
Proof.
  induction 1 as [|m ms Hm _ IH]; [reflexivity|]. cbn [map md_list].
  change (Byte.eqb OpMetadata OpMetadata) with true. cbv iota.
  rewrite <- (app_nil_r (enc_metadata m)), (parse_enc_metadata m [] Hm), IH. reflexivity.
Qed.

Lemma crec_events_tokens lo : lo_cb lo = CbNone -> forall R,
  Forall (fun e => match e with EvToken _ _ => True | _ => False end) (flat_map (crec_events lo) R).
Proof.
  intros Hcb R. induction R as [|r R IH]; [constructor|]. cbn [flat_map]. apply Forall_app. split; [|exact IH].
  destruct r as [op body|a data crc]; cbn [crec_events].
  - unfold rec_events. cbn [fst snd]. destruct (known_op op); repeat constructor.
  - rewrite Hcb. constructor.
Qed.

(* ---------- scoping of the typed records of a call list ---------- *)
Lemma scoped_incl l : forall chs schs chs' schs',
  incl chs chs' -> incl schs schs' -> scoped chs schs l -> scoped chs' schs' l.
Proof.
  induction l as [|a l IH]; intros chs schs chs' schs' H1 H2 H; [exact I|].
  destruct a as [sc|c|m]; cbn [scoped] in *.
  - apply (IH chs (s_id sc :: schs)); [exact H1| |exact H].
    intros x [<-|Hx]; [left; reflexivity|right; apply H2; exact Hx].
  - destruct H as [Ha Hb]. split.
    + destruct Ha as [Ha|Ha]; [left; exact Ha|right; apply H2; exact Ha].
    + apply (IH (c_id c :: chs) schs); [|exact H2|exact Hb].
      intros x [<-|Hx]; [left; reflexivity|right; apply H1; exact Hx].
  - destruct H as [Ha Hb]. split; [apply H1; exact Ha|]. apply (IH chs schs); assumption.
Qed.

Lemma scoped_calls_tail cs : forall chs schs tail,
  call_scoped chs schs cs ->
  (forall chs' schs', incl chs chs' -> incl schs schs' ->
     (forall sc, In (CSchema sc) cs -> In (s_id sc) schs') ->
     (forall c, In (CChannel c) cs -> In (c_id c) chs') -> scoped chs' schs' tail) ->
  scoped chs schs (auto_recs cs ++ tail).
Proof.
  induction cs as [|c cs IH]; intros chs schs tail H HT.
  - cbn [auto_recs flat_map app]. apply (HT chs schs); [apply incl_refl|apply incl_refl| |]; intros ? [].
  - destruct c as [h|sc|ch|m|a src|m|]; cbn [call_scoped] in H; cbn [auto_recs flat_map app]; fold (auto_recs cs);
      try (apply IH; [exact H|]; intros chs' schs' I1 I2 I3 I4; apply HT; try assumption;
           [intros sc' [E|Hsc']; [discriminate|apply I3; exact Hsc']
           |intros c' [E|Hc']; [discriminate|apply I4; exact Hc']]).
    + destruct H as [_ H]. cbn [scoped]. apply IH; [exact H|].
      intros chs' schs' I1 I2 I3 I4. apply HT; try assumption.
      * intros x Hx. apply I2. right. exact Hx.
      * intros sc' [E|Hsc']; [injection E as <-; apply I2; left; reflexivity|apply I3; exact Hsc'].
      * intros c' [E|Hc']; [discriminate|apply I4; exact Hc'].
    + destruct H as [Ha H]. cbn [scoped]. split; [exact Ha|]. apply IH; [exact H|].
      intros chs' schs' I1 I2 I3 I4. apply HT; try assumption.
      * intros x Hx. apply I1. right. exact Hx.
      * intros sc' [E|Hsc']; [discriminate|apply I3; exact Hsc'].
      * intros c' [E|Hc']; [injection E as <-; apply I1; left; reflexivity|apply I4; exact Hc'].
    + destruct H as [Ha H]. cbn [scoped]. split; [exact Ha|]. apply IH; [exact H|].
      intros chs' schs' I1 I2 I3 I4. apply HT; try assumption.
      * intros sc' [E|Hsc']; [discriminate|apply I3; exact Hsc'].
      * intros c' [E|Hc']; [discriminate|apply I4; exact Hc'].
Qed.

Lemma call_scoped_schema_nz cs : forall chs schs sc, call_scoped chs schs cs -> In (CSchema sc) cs -> s_id sc <> 0.
Proof.
  induction cs as [|c cs IH]; intros chs schs sc H Hin; [destruct Hin|].
  destruct Hin as [E|Hin].
  - subst c. cbn [call_scoped] in H. apply H.
  - destruct c; cbn [call_scoped] in H; try (exact (IH _ _ _ H Hin)); destruct H as [_ H]; exact (IH _ _ _ H Hin).
Qed.

Lemma call_scoped_chan_schema cs : forall chs schs c, call_scoped chs schs cs -> In (CChannel c) cs ->
  c_schema c = 0 \/ In (c_schema c) schs \/ exists sc, In (CSchema sc) cs /\ s_id sc = c_schema c.
Proof.
  induction cs as [|c0 cs IH]; intros chs schs c H Hin; [destruct Hin|].
  destruct Hin as [E|Hin].
  - subst c0. cbn [call_scoped] in H. destruct H as [[Ha|Ha] _]; auto.
  - destruct c0; cbn [call_scoped] in H;
      try (destruct (IH _ _ _ H Hin) as [A|[A|(sc & A1 & A2)]]; [auto|auto|right; right; exists sc; split; [right; exact A1|exact A2]]).
    + destruct H as [_ H]. destruct (IH _ _ _ H Hin) as [A|[[A|A]|(sc & A1 & A2)]]; auto.
      * right. right. exists s. split; [left; reflexivity|exact A].
      * right. right. exists sc. split; [right; exact A1|exact A2].
    + destruct H as [_ H]. destruct (IH _ _ _ H Hin) as [A|[A|(sc & A1 & A2)]]; auto.
      right. right. exists sc. split; [right; exact A1|exact A2].
    + destruct H as [_ H]. destruct (IH _ _ _ H Hin) as [A|[A|(sc & A1 & A2)]]; auto.
      right. right. exists sc. split; [right; exact A1|exact A2].
Qed.

Lemma call_scoped_msg_chan cs : forall chs schs m, call_scoped chs schs cs -> In (CMessage m) cs ->
  In (m_chan m) chs \/ exists c, In (CChannel c) cs /\ c_id c = m_chan m.
Proof.
  induction cs as [|c0 cs IH]; intros chs schs m H Hin; [destruct Hin|].
  destruct Hin as [E|Hin].
  - subst c0. cbn [call_scoped] in H. left. apply H.
  - destruct c0; cbn [call_scoped] in H;
      try (destruct (IH _ _ _ H Hin) as [A|(c & A1 & A2)]; [auto|right; exists c; split; [right; exact A1|exact A2]]).
    + destruct H as [_ H]. destruct (IH _ _ _ H Hin) as [A|(c & A1 & A2)]; [auto|right; exists c; split; [right; exact A1|exact A2]].
    + destruct H as [_ H]. destruct (IH _ _ _ H Hin) as [[A|A]|(c1 & A1 & A2)].
      * right. exists c. split; [left; reflexivity|exact A].
      * auto.
      * right. exists c1. split; [right; exact A1|exact A2].
    + destruct H as [_ H]. destruct (IH _ _ _ H Hin) as [A|(c & A1 & A2)]; [auto|right; exists c; split; [right; exact A1|exact A2]].
Qed.

Lemma in_auto_recs_schema sc cs : In (ASchema sc) (auto_recs cs) <-> In (CSchema sc) cs.
Proof.
  unfold auto_recs. rewrite in_flat_map. split.
  - intros (c & Hc & H). destruct c; cbn in H; try contradiction; destruct H as [E|[]]; try discriminate.
    injection E as <-. exact Hc.
  - intro H. exists (CSchema sc). split; [exact H|left; reflexivity].
Qed.
Lemma in_auto_recs_channel c cs : In (AChannel c) (auto_recs cs) <-> In (CChannel c) cs.
Proof.
  unfold auto_recs. rewrite in_flat_map. split.
  - intros (c0 & Hc & H). destruct c0; cbn in H; try contradiction; destruct H as [E|[]]; try discriminate.
    injection E as <-. exact Hc.
  - intro H. exists (CChannel c). split; [exact H|left; reflexivity].
Qed.

Lemma scoped_schemas l : forall chs schs rest,
  scoped chs (rev (map s_id l) ++ schs) rest -> scoped chs schs (map ASchema l ++ rest).
Proof.
  induction l as [|sc l IH]; intros chs schs rest H; [exact H|].
  cbn [map app scoped]. apply IH. cbn [map rev] in H. rewrite <- app_assoc in H. exact H.
Qed.

Lemma scoped_channels l : forall chs schs,
  (forall c, In c l -> c_schema c = 0 \/ In (c_schema c) schs) -> scoped chs schs (map AChannel l).
Proof.
  induction l as [|c l IH]; intros chs schs H; [exact I|].
  cbn [map scoped]. split; [apply H; left; reflexivity|]. apply IH. intros c' Hc'. apply H. right. exact Hc'.
Qed.

(* ---------- chunk descriptors: a chunk, its typed records and the number of messages before it ---------- *)
Record cdesc := { cd_off : N; cd_k : chunk; cd_mis : list msgindex; cd_A : list arec; cd_base : nat }.

Fixpoint zipb (base : nat) (CK : list (N * chunk * list msgindex)) (As : list (list arec)) : list cdesc :=
  match CK, As with
  | ck :: CK', Ak :: As' =>
    {| cd_off := fst (fst ck); cd_k := snd (fst ck); cd_mis := snd ck; cd_A := Ak; cd_base := base |}
    :: zipb (base + length (amsgs Ak)) CK' As'
  | _, _ => []
  end.

Definition cd_ck (z : cdesc) : N * chunk * list msgindex := (cd_off z, cd_k z, cd_mis z).
Definition cd_ci (z : cdesc) : chunkindex := chunkindex_norm (mk_ci (cd_k z) (cd_mis z) (cd_off z)).
Definition cd_ac (z : cdesc) : achunk :=
  {| ac_start := k_start (cd_k z); ac_end := k_end (cd_k z); ac_off := cd_off z;
     ac_msgs := number (cd_base z) (amsgs (cd_A z)) |}.

Lemma zipb_ck R CK As : Forall2 R CK As -> forall base, map cd_ck (zipb base CK As) = CK.
Proof.
  induction 1 as [|ck Ak CK As _ _ IH]; intro base; [reflexivity|].
  cbn [zipb map]. rewrite IH. unfold cd_ck. cbn. destruct ck as [[a b] c]. reflexivity.
Qed.

Lemma zipb_props (R : N * chunk * list msgindex -> list arec -> Prop) CK As : Forall2 R CK As ->
  forall base pm, length pm = base -> forall z, In z (zipb base CK As) ->
  In (cd_ck z) CK /\ R (cd_ck z) (cd_A z) /\
  (forall j m, nth_error (amsgs (cd_A z)) j = Some m ->
     nth_error (pm ++ concat (map amsgs As)) (cd_base z + j) = Some m).
Proof.
  induction 1 as [|ck Ak CK As Hr _ IH]; intros base pm Hl z Hz; [destruct Hz|].
  cbn [zipb] in Hz. destruct Hz as [<-|Hz].
  - unfold cd_ck. cbn [cd_off cd_k cd_mis cd_A cd_base]. destruct ck as [[a b] c]. cbn [fst snd].
    split; [left; reflexivity|]. split; [exact Hr|].
    intros j m Hj. cbn [map concat]. rewrite nth_error_app2 by lia.
    replace (base + j - length pm)%nat with j by lia. rewrite nth_error_app1; [exact Hj|].
    apply nth_error_Some. rewrite Hj. discriminate.
  - destruct (IH (base + length (amsgs Ak))%nat (pm ++ amsgs Ak) ltac:(rewrite app_length; lia) z Hz) as (I1 & I2 & I3).
    split; [right; exact I1|]. split; [exact I2|]. intros j m Hj. cbn [map concat].
    rewrite app_assoc. apply I3. exact Hj.
Qed.

Lemma zipb_A R CK As : Forall2 R CK As -> forall base, map cd_A (zipb base CK As) = As.
Proof.
  induction 1 as [|ck Ak CK As _ _ IH]; intro base; [reflexivity|]. cbn [zipb map cd_A]. rewrite IH. reflexivity.
Qed.

Lemma zipb_A_in CK : forall As base z, In z (zipb base CK As) -> In (cd_A z) As.
Proof.
  induction CK as [|ck CK IH]; intros As base z Hz; [destruct Hz|].
  destruct As as [|Ak As]; [destruct Hz|]. cbn [zipb] in Hz.
  destruct Hz as [<-|Hz]; [left; reflexivity|right; eapply IH; exact Hz].
Qed.

Lemma pairs_match_gen (ZL : list cdesc) :
  Forall2 (ci_match (map (fun z => (cd_ci z, cd_ac z)) ZL)) (map cd_ci ZL) (map cd_ac ZL).
Proof.
  assert (G : forall L, incl L ZL ->
            Forall2 (ci_match (map (fun z => (cd_ci z, cd_ac z)) ZL)) (map cd_ci L) (map cd_ac L)).
  { induction L as [|z L IH]; intro Hincl; [constructor|]. cbn [map]. constructor.
    - split; [|repeat split]. apply in_map_iff. exists z. split; [reflexivity|]. apply Hincl. left. reflexivity.
    - apply IH. intros x Hx. apply Hincl. right. exact Hx. }
  apply G. apply incl_refl.
Qed.

Definition msel (chs : list (N * channel)) (ro : ropts) (m : message) : bool :=
  known_chan chs (m_chan m) && in_window ro (m_log m).

Lemma number_filter_map (M : nat -> message) chs ro l : forall base,
  (forall j m, nth_error l j = Some m -> M (base + j)%nat = m) ->
  map (fun a => M (am_uid a)) (filter (tw_sel chs ro) (number base l)) = filter (msel chs ro) l.
Proof.
  induction l as [|m l IH]; intros base H; [reflexivity|].
  cbn [number filter]. unfold tw_sel at 1. cbn [am_chan am_ts]. fold (msel chs ro m).
  assert (IH' : map (fun a => M (am_uid a)) (filter (tw_sel chs ro) (number (S base) l)) = filter (msel chs ro) l).
  { apply IH. intros j m' Hj. replace (S base + j)%nat with (base + S j)%nat by lia. apply H. exact Hj. }
  destruct (msel chs ro m); [|exact IH'].
  cbn [map am_uid]. rewrite IH'. f_equal. rewrite <- (Nat.add_0_r base). apply H. reflexivity.
Qed.

Lemma number_app l1 : forall base l2, number base (l1 ++ l2) = number base l1 ++ number (base + length l1) l2.
Proof.
  induction l1 as [|m l1 IH]; intros base l2; cbn [app number length].
  - rewrite Nat.add_0_r. reflexivity.
  - rewrite IH. replace (S base + length l1)%nat with (base + S (length l1))%nat by lia. reflexivity.
Qed.

Lemma zipb_all_msgs R CK As : Forall2 R CK As -> forall base,
  all_msgs (map cd_ac (zipb base CK As)) = number base (concat (map amsgs As)).
Proof.
  induction 1 as [|ck Ak CK As _ _ IH]; intro base; [reflexivity|].
  cbn [zipb map concat]. unfold all_msgs in *. cbn [map concat]. rewrite IH, number_app. reflexivity.
Qed.

Lemma amsgs_concat As : amsgs (concat As) = concat (map amsgs As).
Proof. induction As as [|A As IH]; [reflexivity|]. cbn [concat map]. rewrite amsgs_app, IH. reflexivity. Qed.

Lemma number_length l : forall base, length (number base l) = length l.
Proof. induction l as [|m l IH]; intro base; [reflexivity|]. cbn [number length]. rewrite IH. reflexivity. Qed.

Lemma number_nth (d : message) l : forall base j, (j < length l)%nat ->
  exists a, nth_error (number base l) j = Some a /\ am_uid a = (base + j)%nat /\ am_ts a = m_log (nth j l d) /\ am_chan a = m_chan (nth j l d).
Proof.
  induction l as [|m l IH]; intros base j Hj; [cbn in Hj; lia|].
  destruct j as [|j]; cbn [number nth_error nth].
  - eexists. split; [reflexivity|]. cbn. repeat split. lia.
  - cbn [length] in Hj. destruct (IH (S base) j ltac:(lia)) as (a & H1 & H2 & H3 & H4).
    exists a. repeat split; try assumption. lia.
Qed.

Lemma number_map (M : nat -> message) l : forall base,
  (forall j m, nth_error l j = Some m -> M (base + j)%nat = m) ->
  map (fun a => M (am_uid a)) (number base l) = l.
Proof.
  induction l as [|m l IH]; intros base H; [reflexivity|].
  cbn [number map am_uid]. f_equal.
  - rewrite <- (Nat.add_0_r base). apply H. reflexivity.
  - apply IH. intros j m' Hj. replace (S base + j)%nat with (base + S j)%nat by lia. apply H. exact Hj.
Qed.

Lemma in_schunks off D ck : In ck (schunks off D) ->
  exists Sa Sb, D = Sa ++ SChunk (snd (fst ck)) (snd ck) :: Sb /\ fst (fst ck) = off + offset_of (flatten Sa).
Proof.
  unfold schunks. intro H. apply in_flat_map in H. destruct H as (p & Hp & H).
  destruct (In_slocated _ _ _ Hp) as (Sa & Sb & E1 & E2).
  destruct p as [o x]. cbn [fst snd] in *. destruct x as [it|m|k mis]; cbn [In] in H; try contradiction.
  destruct H as [<-|H]; [|contradiction]. cbn [fst snd]. exists Sa, Sb. split; [exact E1|exact E2].
Qed.

Lemma flat1_pos o x : data_sitem o x -> 0 < offset_of (flat1 x).
Proof.
  destruct x as [it|m|k mis]; cbn [flat1 data_sitem].
  - destruct it as [|op body|k|a data crc|ss sos crc]; try contradiction; intros _; unfold offset_of;
      rewrite rendered_one; cbn [render_item]; rewrite blen_frame; lia.
  - intros _. unfold offset_of. rewrite rendered_one. cbn [render_item]. rewrite blen_frame. lia.
  - intros _. unfold offset_of. rewrite rendered_cons, WriterFactsC.blen_app. cbn [render_item]. rewrite blen_frame. lia.
Qed.

Lemma schunks_sorted o D : Forall (data_sitem o) D -> forall off,
  StronglySorted (fun a b : N * chunk * list msgindex => fst (fst a) < fst (fst b)) (schunks off D) /\
  Forall (fun a => off <= fst (fst a)) (schunks off D).
Proof.
  induction 1 as [|x D Hx _ IH]; intro off; [split; constructor|].
  rewrite schunks_cons. destruct (IH (off + offset_of (flat1 x))) as [I1 I2].
  pose proof (flat1_pos o x Hx) as Hp.
  assert (I2' : Forall (fun a : N * chunk * list msgindex => off <= fst (fst a)) (schunks (off + offset_of (flat1 x)) D)).
  { eapply Forall_impl; [|exact I2]. intros a Ha. cbv beta in *. lia. }
  destruct x as [it|m|k mis]; cbn [app]; try (split; assumption).
  split.
  - constructor; [exact I1|]. eapply Forall_impl; [|exact I2]. intros a Ha. cbn [fst]. cbv beta in Ha. lia.
  - constructor; [cbn [fst]; lia|exact I2'].
Qed.

(* ---------- metadata records and attachments of a structured data section, with offsets ---------- *)
Definition smetas (off : N) (D : list sitem) : list (N * metadata) :=
  flat_map (fun p => match snd p with SMeta m => [(fst p, m)] | _ => [] end) (slocated off D).
Definition satts (off : N) (D : list sitem) : list (N * (attachment * bytes * N)) :=
  flat_map (fun p => match snd p with SItem (IAttach a data crc) => [(fst p, (a, data, crc))] | _ => [] end)
           (slocated off D).

Lemma smetas_cons off x D :
  smetas off (x :: D) = match x with SMeta m => [(off, m)] | _ => [] end ++ smetas (off + offset_of (flat1 x)) D.
Proof. reflexivity. Qed.
Lemma satts_cons off x D :
  satts off (x :: D) = match x with SItem (IAttach a data crc) => [(off, (a, data, crc))] | _ => [] end
                       ++ satts (off + offset_of (flat1 x)) D.
Proof. reflexivity. Qed.

Definition mx_of (p : N * metadata) : mdindex :=
  {| mx_offset := fst p; mx_length := blen (frame OpMetadata (enc_metadata (snd p))); mx_name := md_name (snd p) |}.
Definition ai_of (p : N * (attachment * bytes * N)) : attindex :=
  let '(a, data, crc) := snd p in
  {| ai_offset := fst p; ai_length := blen (render_item (IAttach a data crc));
     ai_log := a_log a; ai_create := a_create a; ai_size := blen data; ai_name := a_name a; ai_media := a_media a |}.

Lemma exp_md_smetas D : forall off, flat_map exp_md (slocated off D) = map mx_of (smetas off D).
Proof.
  induction D as [|x D IH]; intro off; [reflexivity|].
  rewrite smetas_cons. cbn [slocated flat_map]. rewrite map_app, IH. destruct x; reflexivity.
Qed.
Lemma exp_att_satts D : forall off, flat_map exp_att (slocated off D) = map ai_of (satts off D).
Proof.
  induction D as [|x D IH]; intro off; [reflexivity|].
  rewrite satts_cons. cbn [slocated flat_map]. rewrite map_app, IH. destruct x as [[]| |]; reflexivity.
Qed.

Lemma in_smetas off D p : In p (smetas off D) ->
  exists Sa Sb, D = Sa ++ SMeta (snd p) :: Sb /\ fst p = off + offset_of (flatten Sa).
Proof.
  unfold smetas. intro H. apply in_flat_map in H. destruct H as (q & Hq & H).
  destruct (In_slocated _ _ _ Hq) as (Sa & Sb & E1 & E2).
  destruct q as [o x]. cbn [fst snd] in *. destruct x as [it|m|k mis]; cbn [In] in H; try contradiction.
  destruct H as [<-|H]; [|contradiction]. cbn [fst snd]. exists Sa, Sb. split; [exact E1|exact E2].
Qed.
Lemma in_satts off D p : In p (satts off D) ->
  exists Sa Sb, D = Sa ++ SItem (IAttach (fst (fst (snd p))) (snd (fst (snd p))) (snd (snd p))) :: Sb /\
                fst p = off + offset_of (flatten Sa).
Proof.
  unfold satts. intro H. apply in_flat_map in H. destruct H as (q & Hq & H).
  destruct (In_slocated _ _ _ Hq) as (Sa & Sb & E1 & E2).
  destruct q as [o x]. cbn [fst snd] in *. destruct x as [it|m|k mis]; cbn [In] in H; try contradiction.
  destruct it as [|op body|k|a data crc|ss sos crc]; cbn [In] in H; try contradiction.
  destruct H as [<-|H]; [|contradiction]. cbn [fst snd]. exists Sa, Sb. split; [exact E1|exact E2].
Qed.

Lemma auto_not_md_att l : Forall (fun r => is_auto r = true) l ->
  filter (is_op OpMetadata) l = [] /\ filter is_att l = [].
Proof.
  induction 1 as [|r l Hr _ [IH1 IH2]]; [split; reflexivity|].
  destruct r as [op body|a data crc]; cbn [is_auto] in Hr; [|discriminate].
  cbn [filter is_op is_att]. destruct (auto_op_cases op Hr) as [->|[->| ->]]; split; assumption.
Qed.

Lemma D_direct o u D : Forall (data_sitem o) D ->
  (forall k mis, In (SChunk k mis) D -> Forall (fun r => is_auto r = true) (item_records u (IChunk k))) ->
  forall off,
  filter (is_op OpMetadata) (all_records u (flatten D)) = map (fun p => CR OpMetadata (enc_metadata (snd p))) (smetas off D) /\
  filter is_att (all_records u (flatten D))
  = map (fun p => CA (fst (fst (snd p))) (snd (fst (snd p))) (snd (snd p))) (satts off D).
Proof.
  induction 1 as [|x D Hx _ IH]; intros HC off; [split; reflexivity|].
  change (flatten (x :: D)) with (flat1 x ++ flatten D). rewrite all_records_app, !filter_app, smetas_cons, satts_cons, !map_app.
  destruct (IH (fun k mis Hin => HC k mis (or_intror Hin)) (off + offset_of (flat1 x))) as [I1 I2].
  rewrite I1, I2.
  destruct x as [it|m|k mis]; cbn [data_sitem] in Hx.
  - destruct it as [|op body|k|a data crc|ss sos crc]; try contradiction.
    + destruct Hx as [_ Hop]. cbn [flat1 all_records flat_map item_records app filter is_op is_att map].
      destruct Hop as [->|[->| ->]]; split; reflexivity.
    + cbn [flat1 all_records flat_map item_records app filter is_op is_att map fst snd]. split; reflexivity.
  - cbn [flat1 all_records flat_map item_records app filter is_op is_att map fst snd].
    change (Byte.eqb OpMetadata OpMetadata) with true. cbv iota. split; reflexivity.
  - cbn [flat1]. rewrite all_records_cons, !filter_app.
    destruct (auto_not_md_att _ (HC k mis (or_introl eq_refl))) as [A1 A2]. rewrite A1, A2.
    assert (M1 : filter (is_op OpMetadata) (all_records u (map mi_item mis)) = [] /\ filter is_att (all_records u (map mi_item mis)) = []).
    { clear. induction mis as [|mi mis [IH1 IH2]]; [split; reflexivity|].
      cbn [map]. rewrite all_records_cons. cbn [mi_item item_records app filter is_op is_att].
      change (Byte.eqb OpMessageIndex OpMetadata) with false. cbv iota. split; assumption. }
    destruct M1 as [M1 M2]. rewrite M1, M2. split; reflexivity.
Qed.

Lemma map_eq_Forall2 {A B C} (f : A -> C) (g : B -> C) : forall l l',
  map f l = map g l' -> Forall2 (fun a b => f a = g b) l l'.
Proof.
  induction l as [|a l IH]; intros [|b l'] H; try discriminate; [constructor|].
  cbn [map] in H. injection H as H1 H2. constructor; [exact H1|apply IH; exact H2].
Qed.

(* ---------- table lookups ---------- *)
Definition call_chan (cs : list wcall) (id : N) : option channel := find (fun c => c_id c =? id) (channel_calls cs).
Definition call_schema (cs : list wcall) (id : N) : option schema := find (fun sc => s_id sc =? id) (schema_calls cs).

Lemma find_unique {A} (key : A -> N) id (l : list A) x :
  NoDup (map key l) -> In x l -> key x = id -> find (fun y => key y =? id) l = Some x.
Proof.
  induction l as [|y l IH]; intros Hn Hin Hk; [destruct Hin|]. cbn [map] in Hn. inversion Hn as [|? ? Hny Hn']; subst.
  cbn [find]. destruct Hin as [->|Hin].
  - rewrite N.eqb_refl. reflexivity.
  - destruct (N.eqb_spec (key y) (key x)) as [E|E]; [|apply IH; auto].
    exfalso. apply Hny. rewrite E. apply in_map. exact Hin.
Qed.

Lemma find_rev_nodup {A} (key : A -> N) id (l : list A) :
  NoDup (map key l) -> find (fun y => key y =? id) (rev l) = find (fun y => key y =? id) l.
Proof.
  intro Hn. destruct (find (fun y => key y =? id) l) as [x|] eqn:E.
  - apply find_some in E. destruct E as [Hin Hk]. apply N.eqb_eq in Hk.
    apply find_unique; [|apply -> in_rev; exact Hin|exact Hk].
    rewrite map_rev. apply NoDup_rev. exact Hn.
  - destruct (find (fun y => key y =? id) (rev l)) as [x|] eqn:E'; [|reflexivity].
    apply find_some in E'. destruct E' as [Hin Hk]. apply in_rev in Hin.
    pose proof (find_none _ _ E x Hin) as Hc. cbv beta in Hc. congruence.
Qed.

Lemma tab_lookup {A} (key : A -> N) (norm : A -> A) (T : list (N * A)) id :
  (forall x, key (norm x) = key x) ->
  NoDup (map fst T) -> Forall (fun p => fst p = key (snd p)) T ->
  tab_get id (tab_of key (map norm (map snd T)) []) = option_map norm (assoc_get id T).
Proof.
  intros Hk Hn Hkeyed. rewrite tab_get_tab_of. cbn [tab_get].
  assert (Hkeys : map key (map norm (map snd T)) = map fst T).
  { rewrite !map_map. apply map_ext_in. intros p Hp. rewrite Forall_forall in Hkeyed. rewrite Hk. symmetry. apply Hkeyed. exact Hp. }
  rewrite find_rev_nodup by (rewrite Hkeys; exact Hn).
  clear Hn Hkeys. induction Hkeyed as [|p T Hp _ IH]; [reflexivity|].
  cbn [map find assoc_get]. rewrite Hk, <- Hp. destruct (fst p =? id); [reflexivity|]. rewrite IH.
  destruct (assoc_get id T); reflexivity.
Qed.

Lemma find_app {A} (f : A -> bool) a b : find f (a ++ b) = match find f a with Some x => Some x | None => find f b end.
Proof. induction a as [|x a IH]; [reflexivity|]. cbn [app find]. destruct (f x); [reflexivity|exact IH]. Qed.

Lemma find_auto_chan cs id :
  find (fun a => match a with AChannel c => c_id c =? id | _ => false end) (auto_recs cs)
  = option_map AChannel (call_chan cs id).
Proof.
  unfold call_chan, channel_calls, auto_recs. induction cs as [|c cs IH]; [reflexivity|].
  cbn [flat_map]. rewrite !find_app, IH. destruct c; cbn [find option_map]; try reflexivity.
  destruct (c_id c =? id); reflexivity.
Qed.
Lemma find_auto_schema cs id :
  find (fun a => match a with ASchema sc => s_id sc =? id | _ => false end) (auto_recs cs)
  = option_map ASchema (call_schema cs id).
Proof.
  unfold call_schema, schema_calls, auto_recs. induction cs as [|c cs IH]; [reflexivity|].
  cbn [flat_map]. rewrite !find_app, IH. destruct c; cbn [find option_map]; try reflexivity.
  destruct (s_id s =? id); reflexivity.
Qed.

(* ---------- an index-based read without chunk indexes ---------- *)
Lemma indexed_all_nil dall fuel n ro sm f :
  indexed_all dall (S fuel) (S n) ro sm f (i_init ro []) [] (O, O) = Ok ([], EEOF, (O, O)).
Proof. reflexivity. Qed.

(* ---------- fuel: the chunks and the records in them are counted by file_steps ---------- *)
Lemma D_steps ds D : forall off inners,
  Forall2 (fun ck inner => chunk_inner scan_lopts ds (snd (fst ck)) = inner) (schunks off D) inners ->
  (length (schunks off D) + length (concat inners) <= file_steps scan_lopts ds (flatten D))%nat.
Proof.
  induction D as [|x D IH]; intros off inners H.
  - inversion H; subst. cbn. lia.
  - rewrite schunks_cons in *. change (flatten (x :: D)) with (flat1 x ++ flatten D). rewrite file_steps_app.
    destruct x as [it|m|k mis]; cbn [app] in *.
    + specialize (IH _ _ H). lia.
    + specialize (IH _ _ H). lia.
    + inversion H as [|? inner ? inners' Hk H']; subst. specialize (IH _ _ H').
      cbn [flat1 length concat]. rewrite app_length.
      change (file_steps scan_lopts ds (IChunk k :: map mi_item mis))
        with (item_steps scan_lopts ds (IChunk k) + file_steps scan_lopts ds (map mi_item mis))%nat.
      cbn [item_steps]. change (lo_emit_chunks scan_lopts) with false. cbv iota.
      cbn [fst snd] in *. lia.
Qed.

(* ---------- relations that are functions ---------- *)
Lemma Forall2_fun_map {A B} (f : B -> option A) (d : A) l m :
  Forall2 (fun t x => f x = Some t) l m -> l = map (fun x => match f x with Some t => t | None => d end) m.
Proof. induction 1 as [|t x l m H _ IH]; [reflexivity|]. cbn [map]. rewrite H, <- IH. reflexivity. Qed.

Lemma Forall2_fun_eq {A B} (f : B -> option A) l1 l2 m :
  Forall2 (fun t x => f x = Some t) l1 m -> Forall2 (fun t x => f x = Some t) l2 m -> l1 = l2.
Proof.
  intro H. revert l2. induction H as [|t x l m H _ IH]; intros l2 H2; inversion H2; subst; [reflexivity|].
  f_equal; [congruence|apply IH; assumption].
Qed.

Lemma Forall2_fun_perm {A B} (f : B -> option A) l1 l2 m1 m2 :
  Forall2 (fun t x => f x = Some t) l1 m1 -> Forall2 (fun t x => f x = Some t) l2 m2 ->
  Permutation m1 m2 -> Permutation l1 l2.
Proof.
  intros H1 H2 P. destruct l1 as [|d l1'].
  - inversion H1; subst. apply Permutation_nil in P. subst. inversion H2; subst. constructor.
  - rewrite (Forall2_fun_map f d _ _ H1), (Forall2_fun_map f d _ _ H2). apply Permutation_map. exact P.
Qed.

Lemma filter_all_true {A} (p : A -> bool) l : (forall x, In x l -> p x = true) -> filter p l = l.
Proof.
  induction l as [|x l IH]; intro H; [reflexivity|]. cbn [filter]. rewrite (H x (or_introl eq_refl)), IH; [reflexivity|].
  intros y Hy. apply H. right. exact Hy.
Qed.

(* ---------- the option lists of the statement ---------- *)
Definition r_md (b : bool) : ropts := if b then default_ropts <| ro_md_cb := true |> else default_ropts.
Definition pre_md (b : bool) : list ropt := if b then [OMetadataCb] else [].

Lemma apply_pre_md b : apply_opts (pre_md b) default_ropts = Ok (r_md b).
Proof. destruct b; reflexivity. Qed.
Lemma finalize_r_md b : finalize (r_md b) = r_md b.
Proof. destruct b; reflexivity. Qed.
Lemma plain_r_md b : plain_ro (r_md b).
Proof. destruct b; repeat split. Qed.
Lemma plain_r_md_noindex b : plain_ro (finalize (r_md b <| ro_use_index := false |>)).
Proof. destruct b; repeat split. Qed.
Lemma md_cb_noindex b : ro_md_cb (finalize (r_md b <| ro_use_index := false |>)) = b.
Proof. destruct b; reflexivity. Qed.

Definition r_ord (ord : rorder) : ropts := default_ropts <| ro_order := ord |>.
Lemma apply_ord ord : apply_opts [OInOrder ord] default_ropts = Ok (r_ord ord).
Proof. reflexivity. Qed.
Lemma finalize_r_ord ord : finalize (r_ord ord) = r_ord ord.
Proof. reflexivity. Qed.
Lemma plain_r_ord ord : plain_ro (r_ord ord).
Proof. repeat split. Qed.

Lemma eff_skips o :
  o_skip_ai (effective_opts o) = o_skip_ai o /\ o_skip_mdi (effective_opts o) = o_skip_mdi o /\
  o_skip_stats (effective_opts o) = o_skip_stats o.
Proof. unfold effective_opts. destruct (_ && _); repeat split. Qed.
Lemma eff_skips2 o :
  o_skip_ci (effective_opts o) = o_skip_ci o /\ o_skip_rch (effective_opts o) = o_skip_rch o /\
  o_skip_rsh (effective_opts o) = o_skip_rsh o /\ o_chunked (effective_opts o) = o_chunked o.
Proof. unfold effective_opts. destruct (_ && _); repeat split. Qed.

Lemma read_dispatch_err ds dall f os e ri :
  messages_dispatch ds f os = Err e -> read_messages ds dall f os = Ok ri -> rr_end ri = e /\ rr_mode ri = None.
Proof.
  intros Hd H. unfold read_messages in H. destruct (new_reader ds f true) as [[h l]| | | |]; cbn [bind] in H; try discriminate.
  rewrite Hd in H. injection H as <-. split; reflexivity.
Qed.

(* ---------- fuel: a file whose chunks are stored uncompressed has at least as many bytes as steps ---------- *)
Lemma frames_len_ge inner : (9 * length inner <= length (frames inner))%nat.
Proof.
  induction inner as [|r inner IH]; [cbn; lia|]. rewrite frames_cons, app_length, frame_length. cbn [length]. lia.
Qed.

Lemma steps_le_bytes ds items :
  Forall (fun it => it = IMagic \/ (wf_item scan_lopts ds it /\ match it with IChunk k => k_comp k = [] | _ => True end)) items ->
  (file_steps scan_lopts ds items <= length (render items))%nat.
Proof.
  induction 1 as [|it items Hit _ IH]; [cbn; lia|].
  rewrite render_cons, app_length. change (file_steps scan_lopts ds (it :: items))
    with (item_steps scan_lopts ds it + file_steps scan_lopts ds items)%nat.
  assert (Hi : (item_steps scan_lopts ds it <= length (render_item it))%nat); [|lia].
  destruct Hit as [->|[Hw Hc]]; [cbn; lia|].
  destruct it as [|op body|k|a data crc|ss sos crc]; cbn [item_steps render_item]; try (rewrite frame_length; lia).
  - cbn; lia.
  - change (lo_emit_chunks scan_lopts) with false. cbv iota. rewrite frame_length.
    cbn [wf_item] in Hw. destruct Hw as (_ & _ & Hw). change (lo_emit_chunks scan_lopts) with false in Hw. cbv iota in Hw.
    destruct Hw as (_ & _ & _ & inner & Hs & _ & Hp & _).
    rewrite (chunk_inner_eq scan_lopts ds k inner Hs Hp).
    unfold chunk_stream in Hs. rewrite Hc in Hs. cbn in Hs. injection Hs as Hs.
    unfold enc_chunk. rewrite app_length, Hs. pose proof (frames_len_ge inner). lia.
Qed.

(* ====================================================================================== *)
(** * 5. the run *)

Section Run.
Variable ds : doracle.
Variable dall : dalloracle.
Variable o : wopts.
Variable lib : bytes.
Variable compress : nat -> bytes -> bytes.
Variable hd : header.
Variable cs : list wcall.

Let eo := effective_opts o.
Let w := W o lib compress None (CHeader hd :: cs ++ [CClose]).
Let s := r_final w.
Let tr := rev (w_trace s).
Let F := file_of w.

Hypothesis Hwf : Forall call_wf cs.
Hypothesis Hnh : no_header cs.
Hypothesis Hok : all_ok w.

Lemma run_C05_hyps : C05_hyps o lib compress (CHeader hd :: cs ++ [CClose]).
Proof.
  destruct Hok as [H1 H2]. split; [exact H1|]. split; [exact H2|]. split.
  - apply legal_shape_intro; assumption.
  - constructor; [exact I|]. apply Forall_app. split.
    + eapply Forall_impl; [|exact Hwf]. apply call_wf_att_small.
    + constructor; [exact I|constructor].
Qed.

Lemma run_C06_hyps : C06_hyps o lib compress (CHeader hd :: cs).
Proof.
  destruct Hok as [H1 H2]. split; [exact H1|]. split; [exact H2|].
  constructor; [discriminate|]. eapply Forall_impl; [|exact Hwf].
  intros c Hc ->. exact Hc.
Qed.

Lemma run_file_is_trace : F = render tr.
Proof. exact (C01_file_is_trace_thm o lib compress (CHeader hd :: cs) run_C06_hyps). Qed.

Lemma run_closed : ClosedFileX eo compress (file_prefix eo lib hd) s.
Proof.
  destruct run_C05_hyps as (H1 & H2 & H3 & H4).
  destruct (closed_file_x o lib compress (CHeader hd :: cs ++ [CClose]) H1 H2 H3 H4) as (h & (body & Hb) & HC).
  injection Hb as Hh Hb. apply app_inj_tail in Hb. destruct Hb as [Hb _]. subst h. exact HC.
Qed.

Lemma run_tables :
  w_schemas s = fold_left (fw_add s_id) (schema_calls cs) [] /\
  w_channels s = fold_left (fw_add c_id) (channel_calls cs) [] /\
  w_channel_ids s = map fst (w_channels s) /\ keyed s /\ call_scoped [] [] cs.
Proof.
  destruct run_C05_hyps as (H1 & H2 & _).
  destruct (tables_of_run o lib compress (CHeader hd :: cs ++ [CClose]) H1 H2) as (T1 & T2 & T3 & T4 & T5).
  assert (E1 : schema_calls (CHeader hd :: cs ++ [CClose]) = schema_calls cs).
  { unfold schema_calls. cbn [flat_map app]. rewrite flat_map_app. cbn [flat_map]. rewrite app_nil_r. reflexivity. }
  assert (E2 : channel_calls (CHeader hd :: cs ++ [CClose]) = channel_calls cs).
  { unfold channel_calls. cbn [flat_map app]. rewrite flat_map_app. cbn [flat_map]. rewrite app_nil_r. reflexivity. }
  rewrite E1 in T1. rewrite E2 in T2.
  split; [exact T1|]. split; [exact T2|]. split; [exact T3|]. split; [exact T4|].
  cbn [call_scoped] in T5. exact (call_scoped_app_l cs [CClose] [] [] T5).
Qed.


(* ---------- further hypotheses ---------- *)
Hypothesis Hcodec : codec_ok ds dall (o_comp o) compress.
Hypothesis Hcomp : comp_ok o compress.
Hypothesis Hsmall : Forall call_small cs.
Hypothesis Hcons : ids_consistent cs.
Hypothesis Hsize : blen F < two63.
Hypothesis Hbounds : e2e_bounds w.
Hypothesis Hfuel : e2e_fuel ds w.

Let pre := file_prefix eo lib hd.
Let gs := summary_groups eo (xB1 eo s) (xB2 eo s) (xB3 eo s) s.
Let unz := lunz scan_lopts ds.

Definition Shape (D : list sitem) (de : bytes) (ss sos crc : N) : Prop :=
  let data := pre ++ flatten D ++ [IRec OpDataEnd de] in
  let offs := group_offsets (offset_of data) gs in
  let off_items := if o_skip_so eo then [] else map so_item offs in
  tr = data ++ sum_items gs ++ off_items ++ [IFooter ss sos crc; IMagic] /\
  Inv1 s /\ DataOk eo compress pre D (w_chunk_indexes s) (w_att_indexes s) (w_md_indexes s) /\
  ss = match gs with [] => 0 | _ => offset_of data end /\
  sos = match off_items with [] => 0 | _ => offset_of (data ++ sum_items gs) end.

Lemma run_shape : exists D de ss sos crc, Shape D de ss sos crc.
Proof. exact run_closed. Qed.

Lemma chunked_eff : o_chunked eo = o_chunked o.
Proof. unfold eo, effective_opts. destruct (_ && _); reflexivity. Qed.

Lemma comp_eff : o_comp eo = o_comp o.
Proof. apply o_comp_eff. Qed.

Lemma call_small_all : Forall call_small (CHeader hd :: cs).
Proof. constructor; [exact I|exact Hsmall]. Qed.

Section WithShape.
Variable D : list sitem.
Variable de : bytes.
Variables ss sos crc : N.
Hypothesis HS : Shape D de ss sos crc.

Let data := pre ++ flatten D ++ [IRec OpDataEnd de].
Let offs := group_offsets (offset_of data) gs.
Let off_items := if o_skip_so eo then [] else map so_item offs.
Let rest := sum_items gs ++ off_items ++ [IFooter ss sos crc; IMagic].

Lemma shape_tr : tr = pre ++ flatten D ++ IRec OpDataEnd de :: rest.
Proof.
  destruct HS as (H & _). rewrite H. unfold data, rest. rewrite <- !app_assoc. reflexivity.
Qed.

Lemma shape_data_ok : Forall (data_sitem eo) D /\ chunks_ok eo compress 0 D /\
  w_chunk_indexes s = flat_map exp_ci (slocated (offset_of pre) D) /\
  w_att_indexes s = flat_map exp_att (slocated (offset_of pre) D) /\
  w_md_indexes s = flat_map exp_md (slocated (offset_of pre) D).
Proof. destruct HS as (_ & _ & (H1 & H2 & H3 & H4 & H5) & _). auto. Qed.


Let hb := enc_header {| h_profile := h_profile hd; h_library := header_library eo lib hd |}.

Lemma pre_eq : pre = (if o_skip_magic eo then [] else [IMagic]) ++ [IRec OpHeader hb].
Proof. reflexivity. Qed.

Lemma pre_records u : all_records u pre = [CR OpHeader hb].
Proof. rewrite pre_eq. destruct (o_skip_magic eo); reflexivity. Qed.

Definition nochunk (it : item) : Prop := match it with IChunk _ => False | _ => True end.

Lemma all_records_nochunk u u' l : Forall nochunk l -> all_records u l = all_records u' l.
Proof.
  induction 1 as [|it l Hit _ IH]; [reflexivity|]. rewrite !all_records_cons, IH.
  destruct it; try reflexivity. contradiction.
Qed.

Lemma D_unchunked u : o_chunked eo = false ->
  Forall nochunk (flatten D) /\ Forall (fun r => is_dataend r = false) (all_records u (flatten D)).
Proof.
  intro Hch. destruct shape_data_ok as (HD & _). clear HS.
  induction HD as [|x D' Hx _ [IH1 IH2]]; [split; constructor|].
  change (flatten (x :: D')) with (flat1 x ++ flatten D'). rewrite all_records_app.
  destruct x as [it|m|k mis]; cbn [data_sitem] in Hx.
  - destruct it as [|op body|k|a data0 crc0|ss0 sos0 crc0]; try contradiction.
    + destruct Hx as [_ Hop]. cbn [flat1 app]. split; [constructor; [exact I|exact IH1]|].
      cbn [all_records flat_map item_records app]. constructor; [|exact IH2].
      cbn [is_dataend]. destruct Hop as [->|[->| ->]]; reflexivity.
    + cbn [flat1 app]. split; [constructor; [exact I|exact IH1]|].
      cbn [all_records flat_map item_records app]. constructor; [reflexivity|exact IH2].
  - cbn [flat1 app]. split; [constructor; [exact I|exact IH1]|].
    cbn [all_records flat_map item_records app]. constructor; [reflexivity|exact IH2].
  - congruence.
Qed.

Lemma Hcomp_eff : o_chunked eo = true ->
  (o_comp eo = [] /\ forall i b, compress i b = b) \/ o_comp eo = comp_zstd \/ o_comp eo = comp_lz4.
Proof. rewrite chunked_eff, comp_eff. exact Hcomp. Qed.

Lemma Hcodec_eff : codec_ok ds dall (o_comp eo) compress.
Proof. rewrite comp_eff. exact Hcodec. Qed.

Lemma fits_tr : Forall item_fits tr.
Proof. apply Hbounds. Qed.

Lemma fits_D : Forall item_fits (flatten D).
Proof.
  pose proof fits_tr as H. rewrite shape_tr in H. apply Forall_app in H. destruct H as [_ H].
  apply Forall_app in H. apply H.
Qed.

(* the chunks of the data section, decoded *)
Lemma D_chunked : o_chunked eo = true ->
  exists inners,
    Forall2 (fun ck inner => chunk_decodes ds dall (snd (fst ck)) inner) (schunks (offset_of pre) D) inners /\
    filter is_auto (all_records unz (flatten D)) = concat (map (map cr_of) inners) /\
    Forall (fun r => is_dataend r = false) (all_records unz (flatten D)) /\
    (forall k mis, In (SChunk k mis) D -> Forall (fun r => is_auto r = true) (item_records unz (IChunk k))).
Proof.
  intro Hch. destruct shape_data_ok as (HD & HK & _).
  exact (D_decodes ds dall eo compress Hcodec_eff Hcomp_eff Hch D 0%nat (offset_of pre) HD HK fits_D).
Qed.

Lemma data_records_tr u :
  Forall (fun r => is_dataend r = false) (all_records u (flatten D)) ->
  data_records u tr = CR OpHeader hb :: all_records u (flatten D).
Proof.
  intro H. unfold data_records. rewrite shape_tr, !all_records_app, pre_records, all_records_cons.
  cbn [item_records app].
  change (CR OpHeader hb :: all_records u (flatten D) ++ CR OpDataEnd de :: all_records u rest)
    with ((CR OpHeader hb :: all_records u (flatten D)) ++ CR OpDataEnd de :: all_records u rest).
  apply upto_dataend_app; [constructor; [reflexivity|exact H]|reflexivity].
Qed.

Definition unz2 : bytes -> bytes -> bytes := fun comp stored => fst (ds comp stored None).

Lemma classes_link :
  Forall (fun r => is_dataend r = false) (all_records unz (flatten D)) /\
  filter is_auto (all_records unz (flatten D)) = map (fun a => cr_of (apair a)) (auto_recs cs) /\
  filter is_att (all_records unz (flatten D)) = expected_records o lib (filter is_attachment cs) /\
  filter (is_op OpMetadata) (all_records unz (flatten D)) = expected_records o lib (filter is_metadata cs).
Proof.
  assert (exists u, (forall n plain, u (o_comp o) (compress n plain) = plain) /\
                    all_records u (flatten D) = all_records unz (flatten D) /\
                    Forall (fun r => is_dataend r = false) (all_records unz (flatten D))) as (u & Hu & Eu & Hde).
  { destruct (o_chunked eo) eqn:Hch.
    - exists unz. split; [|split; [reflexivity|]].
      + intros n plain. unfold unz, lunz. rewrite <- comp_eff.
        rewrite (stream_decodes ds dall eo compress Hcodec_eff Hcomp_eff Hch). reflexivity.
      + destruct (D_chunked Hch) as (inners & _ & _ & H & _). exact H.
    - exists unz2. destruct (D_unchunked unz Hch) as [N1 N2]. split; [|split; [|exact N2]].
      + intros n plain. unfold unz2. destruct (Hcodec n plain) as [H _]. rewrite H. reflexivity.
      + apply all_records_nochunk. exact N1. }
  assert (Hde' : Forall (fun r => is_dataend r = false) (all_records u (flatten D))) by (rewrite Eu; exact Hde).
  pose proof (C01_trace_classes_thm o lib compress u (CHeader hd :: cs) run_C06_hyps Hu call_small_all) as HC.
  cbv zeta in HC.
  change (rev (w_trace (r_final (W o lib compress None ((CHeader hd :: cs) ++ [CClose]))))) with tr in HC.
  rewrite (data_records_tr u Hde'), Eu in HC.
  destruct HC as (C1 & C2 & C3 & _).
  split; [exact Hde|].
  cbn [filter is_auto auto_op call_auto] in C1. change (auto_op OpHeader) with false in C1. cbv iota in C1.
  rewrite expected_auto in C1.
  cbn [filter is_att is_attachment] in C2.
  cbn [filter is_op is_metadata] in C3. change (Byte.eqb OpHeader OpMetadata) with false in C3. cbv iota in C3.
  split; [exact C1|]. split; [exact C2|exact C3].
Qed.


(* ---------- metadata records and attachments: positions and contents ---------- *)
Lemma chunk_auto_all : forall k mis, In (SChunk k mis) D ->
  Forall (fun r => is_auto r = true) (item_records unz (IChunk k)).
Proof.
  intros k mis Hin. destruct (o_chunked eo) eqn:Hch.
  - destruct (D_chunked Hch) as (inners & _ & _ & _ & H). exact (H k mis Hin).
  - destruct shape_data_ok as (HD & _). rewrite Forall_forall in HD. specialize (HD _ Hin). cbn [data_sitem] in HD. congruence.
Qed.

Lemma md_link :
  w_md_indexes s = map mx_of (smetas (offset_of pre) D) /\
  Forall2 (fun p m => enc_metadata (snd p) = enc_metadata m) (smetas (offset_of pre) D) (metadata_of cs).
Proof.
  destruct shape_data_ok as (HD & _ & _ & _ & H5). split; [rewrite H5; apply exp_md_smetas|].
  destruct (D_direct eo unz D HD chunk_auto_all (offset_of pre)) as [E1 _].
  destruct classes_link as (_ & _ & _ & C3). rewrite C3, expected_md in E1. symmetry in E1.
  apply map_eq_Forall2 in E1. eapply Forall2_impl'; [|exact E1]. intros p m H. exact (f_equal (fun r => match r with CR _ b => b | CA _ _ _ => [] end) H).
Qed.

Lemma att_link :
  w_att_indexes s = map ai_of (satts (offset_of pre) D) /\
  map snd (satts (offset_of pre) D)
  = map (fun ad => (fst ad, snd ad, crc32 (enc_attachment_fields (fst ad) ++ snd ad))) (attachments_of cs).
Proof.
  destruct shape_data_ok as (HD & _ & _ & H4 & _). split; [rewrite H4; apply exp_att_satts|].
  destruct (D_direct eo unz D HD chunk_auto_all (offset_of pre)) as [_ E2].
  destruct classes_link as (_ & _ & C2 & _). rewrite C2, expected_att in E2.
  revert E2. generalize (attachments_of cs). generalize (satts (offset_of pre) D).
  induction l as [|p l IH]; intros [|ad l'] Eq0; try discriminate; [reflexivity|].
  cbn [map] in *. injection Eq0 as Eq1 Eq2 Eq3 Eq4. f_equal; [|apply IH; exact Eq4].
  destruct p as [o0 [[a d] c]]. cbn [fst snd] in *. subst. reflexivity.
Qed.

Lemma smeta_in_tr p : In p (smetas (offset_of pre) D) ->
  exists pp post, tr = pp ++ IRec OpMetadata (enc_metadata (snd p)) :: post /\ fst p = blen (render pp).
Proof.
  intro Hin. apply in_smetas in Hin. destruct Hin as (Sa & Sb & ED & Eoff).
  exists (pre ++ flatten Sa), (flatten Sb ++ IRec OpDataEnd de :: rest). split.
  - rewrite shape_tr, ED, flatten_app. change (flatten (SMeta (snd p) :: Sb)) with (flat1 (SMeta (snd p)) ++ flatten Sb).
    cbn [flat1]. rewrite <- !app_assoc. cbn [app]. reflexivity.
  - rewrite Eoff. change (render (pre ++ flatten Sa)) with (rendered (pre ++ flatten Sa)).
    rewrite rendered_app, WriterFactsC.blen_app. reflexivity.
Qed.

Lemma satt_in_tr p : In p (satts (offset_of pre) D) ->
  exists pp post, tr = pp ++ IAttach (fst (fst (snd p))) (snd (fst (snd p))) (snd (snd p)) :: post /\ fst p = blen (render pp).
Proof.
  intro Hin. apply in_satts in Hin. destruct Hin as (Sa & Sb & ED & Eoff).
  exists (pre ++ flatten Sa), (flatten Sb ++ IRec OpDataEnd de :: rest). split.
  - rewrite shape_tr, ED, flatten_app.
    change (flatten (SItem (IAttach (fst (fst (snd p))) (snd (fst (snd p))) (snd (snd p))) :: Sb))
      with ([IAttach (fst (fst (snd p))) (snd (fst (snd p))) (snd (snd p))] ++ flatten Sb).
    rewrite <- !app_assoc. cbn [app]. reflexivity.
  - rewrite Eoff. change (render (pre ++ flatten Sa)) with (rendered (pre ++ flatten Sa)).
    rewrite rendered_app, WriterFactsC.blen_app. reflexivity.
Qed.

(* every attachment item of the file is an attachment call *)
Lemma att_item_wf : Forall att_ok (flatten D).
Proof.
  destruct att_link as [_ E2]. apply Forall_forall. intros it Hit.
  destruct it as [|op body|k|a data0 crc0|ss0 sos0 crc0]; try exact I. cbn [att_ok].
  assert (Hin : In (a, data0, crc0) (map snd (satts (offset_of pre) D))).
  { clear E2. unfold flatten in Hit. apply in_flat_map in Hit. destruct Hit as (x & Hx & Hit).
    generalize (offset_of pre). revert Hx. clear - Hit. induction D as [|y D' IH]; intros Hx off; [destruct Hx|].
    rewrite satts_cons, map_app. apply in_or_app. destruct Hx as [->|Hx]; [left|right; apply IH; exact Hx].
    destruct x as [it|m|k mis]; cbn [flat1 In] in Hit.
    - destruct Hit as [->|[]]. left. reflexivity.
    - destruct Hit as [E0|[]]. discriminate.
    - destruct Hit as [E0|Hit]; [discriminate|]. apply in_map_iff in Hit. destruct Hit as (mi & E0 & _). discriminate. }
  rewrite E2 in Hin. apply in_map_iff in Hin. destruct Hin as (ad & E0 & Had). injection E0 as <- <- <-.
  unfold attachments_of in Had. apply in_flat_map in Had. destruct Had as (c & Hc & Had).
  destruct c as [h|sc|c|m|a src|m|]; cbn [In] in Had; try contradiction. destruct Had as [<-|[]]. cbn [fst snd].
  rewrite Forall_forall in Hwf. exact (Hwf _ Hc).
Qed.

(* the attachment and metadata index entries fit their wire formats *)
Lemma in_tr_size it : In it tr -> blen (render_item it) < two63.
Proof. intro H. pose proof (render_item_le it tr H) as L. rewrite <- run_file_is_trace in L. lia. Qed.

Lemma off_size pp it post : tr = pp ++ it :: post -> blen (render pp) < two63.
Proof.
  intro Et. pose proof Hsize as Hs. rewrite run_file_is_trace, Et, render_app, LexerFactsB.blen_app in Hs. lia.
Qed.

Lemma ais_wf : Forall wf_attindex (w_att_indexes s).
Proof.
  destruct att_link as [E1 _]. rewrite E1. apply Forall_forall. intros ai Hai. apply in_map_iff in Hai.
  destruct Hai as (p & <- & Hp). destruct (satt_in_tr p Hp) as (pp & post & Et & Eoff).
  pose proof (off_size _ _ _ Et) as Ho.
  assert (Hit : In (IAttach (fst (fst (snd p))) (snd (fst (snd p))) (snd (snd p))) tr) by (rewrite Et; apply in_or_app; right; left; reflexivity).
  pose proof (in_tr_size _ Hit) as Hl.
  pose proof att_item_wf as Hf. rewrite Forall_forall in Hf.
  destruct (in_satts _ _ _ Hp) as (Sa & Sb & ED & _).
  assert (Hw : wf_attach_ra (fst (fst (snd p))) (snd (fst (snd p))) (snd (snd p))).
  { apply (Hf (IAttach (fst (fst (snd p))) (snd (fst (snd p))) (snd (snd p)))). rewrite ED, flatten_app. apply in_or_app. right. left. reflexivity. }
  destruct p as [o0 [[a d] c]]. cbn [fst snd] in *. destruct Hw as (W1 & W2 & W3 & W4 & W5 & W6 & W7).
  unfold wf_attindex, ai_of. cbn [snd fst ai_offset ai_length ai_log ai_create ai_size ai_name ai_media].
  unfold attach_body in W7. rewrite !LexerFactsB.blen_app in W7. unfold two63, two64 in *.
  repeat split; try assumption; try lia.
Qed.

Lemma enc_metadata_name_le m : 4 + blen (md_name m) <= blen (enc_metadata m).
Proof. unfold enc_metadata, pstr. rewrite !LexerFactsB.blen_app, blen_u32. lia. Qed.

Lemma mxs_wf_aux : forall l ms, incl l (smetas (offset_of pre) D) ->
  Forall2 (fun p m => enc_metadata (snd p) = enc_metadata m) l ms ->
  Forall (fun m => blen (enc_metadata m) < max_int32) ms -> Forall wf_mdindex (map mx_of l).
Proof.
  induction l as [|p l IH]; intros ms Hincl HF2 Hc; [constructor|]. inversion HF2 as [|? m ? ms' Hpm HF2']; subst.
  inversion Hc as [|? ? Hm Hc']; subst. cbn [map]. constructor.
  - destruct (smeta_in_tr p (Hincl p (or_introl eq_refl))) as (pp & post & Et & Eoff).
    pose proof (off_size _ _ _ Et) as Ho.
    assert (Hit : In (IRec OpMetadata (enc_metadata (snd p))) tr) by (rewrite Et; apply in_or_app; right; left; reflexivity).
    pose proof (in_tr_size _ Hit) as Hl. cbn [render_item] in Hl. rewrite blen_frame in Hl.
    pose proof (enc_metadata_name_le (snd p)) as Hn. rewrite Hpm in Hn.
    unfold wf_mdindex, mx_of. cbn [mx_offset mx_length mx_name]. rewrite blen_frame.
    unfold two63, two64, two32, max_int32 in *. repeat split; lia.
  - apply (IH ms' (fun x Hx => Hincl x (or_intror Hx)) HF2' Hc').
Qed.

Lemma mxs_wf : Forall wf_mdindex (w_md_indexes s).
Proof.
  destruct md_link as [E1 HF2]. rewrite E1.
  assert (Hcalls : Forall (fun m => blen (enc_metadata m) < max_int32) (metadata_of cs)).
  { apply Forall_forall. intros m Hm. unfold metadata_of in Hm. apply in_flat_map in Hm. destruct Hm as (c & Hc & Hm).
    destruct c; cbn in Hm; try contradiction. destruct Hm as [<-|[]]. rewrite Forall_forall in Hwf. apply (Hwf _ Hc). }
  exact (mxs_wf_aux _ _ (incl_refl _) HF2 Hcalls).
Qed.

(* ---------- the summary section of the written file ---------- *)
Let sch' := if o_skip_rsh eo then [] else map snd (w_schemas s).
Let chs' := if o_skip_rch eo then [] else map snd (w_channels s).
Let sts' := if o_skip_stats eo then [] else [stats_record s].
Let cis' := if o_skip_ci eo then [] else w_chunk_indexes s.
Let ais' := if o_skip_ai eo then [] else w_att_indexes s.
Let mxs' := if o_skip_mdi eo then [] else w_md_indexes s.
Let Ssum := mk_summary sch' chs' sts' cis' ais' mxs'.
Let Soff : list (srec * bytes) := if o_skip_so eo then [] else map (fun so => (so_srec so, [])) offs.
Let ft := {| f_summary_start := ss; f_summary_offset_start := sos; f_crc := crc |}.

Lemma gs_items : sum_items gs = map sum_item Ssum.
Proof.
  unfold gs, summary_groups. rewrite sum_items_filter. unfold Ssum. rewrite <- sum_items_mk.
  unfold xB1, xB2, xB3, sch', chs', sts', cis', ais', mxs'.
  destruct (o_skip_rsh eo), (o_skip_rch eo), (o_skip_stats eo), (o_skip_ci eo), (o_skip_ai eo), (o_skip_mdi eo);
    reflexivity.
Qed.

Lemma off_items_eq : off_items = map sum_item Soff.
Proof.
  unfold off_items, Soff. destruct (o_skip_so eo); [reflexivity|]. symmetry. apply map_so_items.
Qed.

Lemma tr_summ : tr = data ++ map sum_item (Ssum ++ Soff) ++ [footer_item ft; IMagic].
Proof.
  destruct HS as (H & _). rewrite H. fold data. fold offs. fold off_items.
  rewrite gs_items, off_items_eq, map_app, <- !app_assoc. reflexivity.
Qed.

Lemma F_summ_file : F = summ_file data (Ssum ++ Soff) ft.
Proof. rewrite run_file_is_trace, tr_summ. reflexivity. Qed.

Lemma gs_nil_iff : gs = [] <-> Ssum = [].
Proof.
  split; intro H.
  - pose proof gs_items as E. rewrite H in E. cbn [sum_items flat_map] in E.
    symmetry in E. apply map_eq_nil in E. exact E.
  - pose proof gs_items as E. rewrite H in E. cbn [map] in E.
    assert (Hne : forallb nonempty_group gs = true).
    { unfold gs, summary_groups. apply forallb_forall. intros g Hg. apply filter_In in Hg. apply Hg. }
    destruct gs as [|g gs0]; [reflexivity|]. cbn [forallb] in Hne. apply andb_prop in Hne. destruct Hne as [Hg _].
    cbn [sum_items flat_map] in E. destruct g as [op [|b bs]]; [discriminate|]. discriminate.
Qed.

Lemma data_len_pos : 0 < offset_of data.
Proof.
  unfold data, offset_of. rewrite pre_eq, !rendered_app, !WriterFactsC.blen_app. rewrite rendered_one.
  cbn [render_item]. rewrite blen_frame. lia.
Qed.

Lemma data_len_le : offset_of data <= blen F.
Proof.
  rewrite run_file_is_trace, tr_summ. apply offset_of_le_app.
Qed.

Lemma data_sum_len_le : offset_of (data ++ sum_items gs) <= blen F.
Proof.
  destruct HS as (H & _). rewrite run_file_is_trace, H. fold data.
  rewrite app_assoc. apply offset_of_le_app.
Qed.

Lemma footer_fits : crc < two32.
Proof.
  destruct (C06_structure_thm o lib compress (CHeader hd :: cs) run_C06_hyps) as (Tpre & Tsum & ss0 & sos0 & c1 & c2 & Et & _ & _ & Ec & _).
  change (rev (w_trace (r_final (W o lib compress None ((CHeader hd :: cs) ++ [CClose]))))) with tr in Et.
  rewrite tr_summ in Et.
  change (Tpre ++ IRec OpDataEnd (enc_dataend {| de_crc := c1 |}) :: Tsum ++ [IFooter ss0 sos0 c2; IMagic])
    with (Tpre ++ (IRec OpDataEnd (enc_dataend {| de_crc := c1 |}) :: Tsum) ++ [IFooter ss0 sos0 c2; IMagic]) in Et.
  rewrite !app_assoc in Et.
  change [footer_item ft; IMagic] with ([footer_item ft] ++ [IMagic]) in Et.
  change [IFooter ss0 sos0 c2; IMagic] with ([IFooter ss0 sos0 c2] ++ [IMagic]) in Et.
  rewrite !app_assoc in Et. apply app_inj_tail in Et. destruct Et as [Et _]. apply app_inj_tail in Et. destruct Et as [_ Et].
  injection Et as _ _ <-. rewrite Ec. destruct (o_crc o); [|reflexivity].
  match goal with |- crc32 ?x < _ => pose proof (crc32_bound x) as Hb end.
  change (2 ^ 32) with 4294967296 in Hb. exact Hb.
Qed.

Lemma ft_wf : wf_footer ft.
Proof.
  unfold wf_footer, ft. cbn [f_summary_start f_summary_offset_start f_crc].
  destruct HS as (_ & _ & _ & Hss & Hsos). fold data in Hss, Hsos. fold offs in Hsos. fold off_items in Hsos.
  pose proof data_len_le. pose proof data_sum_len_le. pose proof footer_fits.
  split; [|split; [|assumption]].
  - rewrite Hss. destruct gs; unfold two63, two64 in *; lia.
  - rewrite Hsos. destruct off_items; unfold two63, two64 in *; lia.
Qed.

Lemma ss_eq : ss = if match Ssum with [] => true | _ => false end then 0 else offset_of data.
Proof.
  destruct HS as (_ & _ & _ & Hss & _). fold data in Hss. rewrite Hss.
  destruct Ssum eqn:E.
  - apply gs_nil_iff in E. rewrite E. reflexivity.
  - destruct gs eqn:E'; [|reflexivity]. apply gs_nil_iff in E'. congruence.
Qed.


Lemma tab_schema_in sc : In sc (map snd (w_schemas s)) -> In (CSchema sc) cs.
Proof.
  intro H. apply in_map_iff in H. destruct H as (p & <- & Hp).
  destruct run_tables as (T1 & _). rewrite T1 in Hp. apply fw_fold_in in Hp.
  destruct Hp as [[]|[Hp _]]. apply in_schema_calls. exact Hp.
Qed.
Lemma tab_channel_in c : In c (map snd (w_channels s)) -> In (CChannel c) cs.
Proof.
  intro H. apply in_map_iff in H. destruct H as (p & <- & Hp).
  destruct run_tables as (_ & T2 & _). rewrite T2 in Hp. apply fw_fold_in in Hp.
  destruct Hp as [[]|[Hp _]]. apply in_channel_calls. exact Hp.
Qed.

Lemma sch'_in sc : In sc sch' -> In (CSchema sc) cs.
Proof. unfold sch'. destruct (o_skip_rsh eo); [intros []|apply tab_schema_in]. Qed.
Lemma chs'_in c : In c chs' -> In (CChannel c) cs.
Proof. unfold chs'. destruct (o_skip_rch eo); [intros []|apply tab_channel_in]. Qed.

Lemma call_wf_in c : In c cs -> call_wf c.
Proof. intro H. rewrite Forall_forall in Hwf. exact (Hwf c H). Qed.

Lemma Ssum_srec_wf : Forall (fun x => wf_srec (fst x)) (Ssum ++ Soff).
Proof.
  destruct Hbounds as (_ & B2 & B3). pose proof ais_wf as B4. pose proof mxs_wf as B5.
  apply Forall_app. split.
  - unfold Ssum, mk_summary. repeat (apply Forall_app; split); apply Forall_forall; intros x Hx;
      apply in_map_iff in Hx; destruct Hx as (y & <- & Hy); cbn [fst wf_srec].
    + exact (call_wf_in _ (sch'_in _ Hy)).
    + exact (call_wf_in _ (chs'_in _ Hy)).
    + unfold sts' in Hy. destruct (o_skip_stats eo); [destruct Hy|]. destruct Hy as [<-|[]]. exact B2.
    + unfold cis' in Hy. destruct (o_skip_ci eo); [destruct Hy|]. rewrite Forall_forall in B3. exact (B3 _ Hy).
    + unfold ais' in Hy. destruct (o_skip_ai eo); [destruct Hy|]. rewrite Forall_forall in B4. exact (B4 _ Hy).
    + unfold mxs' in Hy. destruct (o_skip_mdi eo); [destruct Hy|]. rewrite Forall_forall in B5. exact (B5 _ Hy).
  - unfold Soff. destruct (o_skip_so eo); [constructor|]. apply Forall_forall. intros x Hx.
    apply in_map_iff in Hx. destruct Hx as (so & <- & _). apply (wf_so_item so).
Qed.

Lemma Ssum_wf : Forall wf_sitem (Ssum ++ Soff).
Proof.
  pose proof fits_tr as H. rewrite tr_summ in H. apply Forall_app in H. destruct H as [_ H].
  apply Forall_app in H. destruct H as [H _].
  pose proof Ssum_srec_wf as H2. rewrite Forall_forall in H, H2. apply Forall_forall. intros x Hx.
  split; [exact (H2 x Hx)|]. exact (H (sum_item x) (in_map sum_item _ _ Hx)).
Qed.

Lemma parse_summary_written ro im :
  parse_summary ds (mem_file F) ro im =
  Ok (summ_finish ro (fold_left (summ_step ro im) (map fst (Ssum ++ Soff)) (empty_summ <| sm_footer := Some ft |>))).
Proof.
  unfold mem_file. destruct Ssum eqn:E.
  - assert (Hg : gs = []) by (apply gs_nil_iff; exact E).
    assert (Hoff : Soff = []).
    { unfold Soff, offs. rewrite Hg. destruct (o_skip_so eo); reflexivity. }
    rewrite F_summ_file, E, Hoff. cbn [app map fold_left].
    rewrite summ_file_eq. change (render (map sum_item [])) with (@nil byte). cbn [app].
    rewrite parse_summary_no_summary_thm; [|exact ft_wf|].
    + unfold summ_finish. cbn. destruct (ro_topics ro); reflexivity.
    + cbn [ft f_summary_start]. rewrite ss_eq, E. reflexivity.
  - rewrite <- E. rewrite F_summ_file. apply parse_summary_rendered_thm.
    + exact Ssum_wf.
    + exact ft_wf.
    + cbn [ft f_summary_start]. rewrite ss_eq, E. reflexivity.
    + cbn [ft f_summary_start]. rewrite ss_eq, E. exact data_len_pos.
    + cbn [ft f_summary_start]. rewrite ss_eq, E. pose proof data_len_le. lia.
Qed.


Definition sm_of (ro : ropts) (im : bool) : summ :=
  summ_finish ro (fold_left (summ_step ro im) (map fst (Ssum ++ Soff)) (empty_summ <| sm_footer := Some ft |>)).

Lemma sm_fields ro im : ro_topics ro = [] -> (forall ci, ci_time_ok ro im ci = true) ->
  sm_schemas (sm_of ro im) = tab_of s_id sch' [] /\
  sm_channels (sm_of ro im) = tab_of c_id (map channel_norm chs') [] /\
  sm_stats (sm_of ro im) = last_or (map statistics_norm sts') None /\
  sm_cis (sm_of ro im) = ci_sort (ro_order ro) (map chunkindex_norm cis') /\
  sm_ais (sm_of ro im) = ais' /\ sm_mxs (sm_of ro im) = mxs' /\ sm_footer (sm_of ro im) = Some ft.
Proof.
  intros Ht Hc. unfold sm_of.
  destruct (summ_result_fields ro im (map fst (Ssum ++ Soff)) ft) as (F1 & F2 & F3 & F4 & F5 & F6 & F7).
  assert (Es : Soff = map (fun so => (so_srec so, [])) (if o_skip_so eo then [] else offs)).
  { unfold Soff. destruct (o_skip_so eo); reflexivity. }
  rewrite Es in *. unfold Ssum in *.
  destruct (mk_summary_fields sch' chs' sts' cis' ais' mxs' (if o_skip_so eo then [] else offs))
    as (M1 & M2 & M3 & M4 & M5 & M6).
  rewrite M1 in F1. rewrite M2 in F2. rewrite M3 in F3. rewrite M4 in F4. rewrite M5 in F5. rewrite M6 in F6.
  rewrite Ht in F4. rewrite (filter_true _ _ Hc) in F4.
  rewrite (filter_true (chan_sel ro)) in F2 by (intro c; unfold chan_sel; rewrite Ht; reflexivity).
  repeat split; assumption.
Qed.

Lemma info_written : info ds (mem_file F) = Ok (sm_of info_opts true).
Proof. unfold info. apply parse_summary_written. Qed.


Lemma hb_small_early : blen hb < max_int32.
Proof.
  pose proof fits_tr as H. rewrite shape_tr, pre_eq in H. apply Forall_app in H. destruct H as [H _].
  apply Forall_app in H. destruct H as [_ H]. inversion H as [|? ? H1 _]; subst. exact H1.
Qed.

(* ---------- the file as the sequential reader sees it ---------- *)
Let recs := flatten D ++ IRec OpDataEnd de :: sum_items gs ++ off_items ++ [IFooter ss sos crc].

Lemma tr_data_file : o_skip_magic eo = false -> tr = data_file hb recs.
Proof.
  intro Hm. rewrite shape_tr, pre_eq, Hm. unfold data_file, recs, rest.
  cbn [app]. rewrite <- !app_assoc. cbn [app]. rewrite <- !app_assoc. reflexivity.
Qed.

Lemma items_ok : Forall item_ok tr.
Proof.
  pose proof fits_tr as H. rewrite Forall_forall in H. apply Forall_forall. intros it Hit.
  split; [exact (H it Hit)|]. pose proof (render_item_le it tr Hit) as L.
  rewrite <- run_file_is_trace in L. lia.
Qed.

Lemma recs_in_tr it : In it recs -> In it tr.
Proof.
  intro H. rewrite shape_tr. apply in_or_app. right. unfold recs in H. apply in_app_or in H.
  destruct H as [H|H]; [apply in_or_app; left; exact H|]. apply in_or_app. right.
  destruct H as [<-|H]; [left; reflexivity|]. right. unfold rest.
  apply in_app_or in H. destruct H as [H|H]; [apply in_or_app; left; exact H|]. apply in_or_app. right.
  apply in_app_or in H. destruct H as [H|H]; [apply in_or_app; left; exact H|]. apply in_or_app. right.
  destruct H as [<-|[]]. left. reflexivity.
Qed.

Lemma recs_wf : Forall (wf_item scan_lopts ds) recs.
Proof.
  assert (Hok' : forall it, In it recs -> item_ok it).
  { intros it H. pose proof items_ok as A. rewrite Forall_forall in A. exact (A it (recs_in_tr it H)). }
  unfold recs in *. apply Forall_app. split.
  - destruct shape_data_ok as (HD & HK & _).
    apply (D_wf_items ds dall eo compress Hcodec_eff Hcomp_eff D 0%nat HD HK); [|exact att_item_wf].
    apply Forall_forall. intros it H. apply Hok'. apply in_or_app. left. exact H.
  - constructor.
    + apply wf_item_rec; [repeat split; discriminate|]. apply (Hok' (IRec OpDataEnd de)). apply in_or_app. right. left. reflexivity.
    + apply Forall_app. split; [|apply Forall_app; split].
      * apply Forall_forall. intros it H.
        assert (Hin : In it (flatten D ++ IRec OpDataEnd de :: sum_items gs ++ off_items ++ [IFooter ss sos crc])).
        { apply in_or_app. right. right. apply in_or_app. left. exact H. }
        destruct (sum_items_ops _ _ _ _ _ _ H) as (op & body & -> & Hop).
        apply wf_item_rec; [apply summary_op_plain; exact Hop|apply (Hok' _ Hin)].
      * apply Forall_forall. intros it H.
        assert (Hin : In it (flatten D ++ IRec OpDataEnd de :: sum_items gs ++ off_items ++ [IFooter ss sos crc])).
        { apply in_or_app. right. right. apply in_or_app. right. apply in_or_app. left. exact H. }
        unfold off_items in H. destruct (o_skip_so eo); [destruct H|].
        apply in_map_iff in H. destruct H as (so & <- & _).
        apply wf_item_rec; [repeat split; discriminate|apply (Hok' _ Hin)].
      * constructor; [|constructor]. destruct ft_wf as (W1 & W2 & W3). cbn [wf_item].
        repeat split; try assumption.
Qed.


(* ---------- the events of the sequential read ---------- *)
Let EV := file_events scan_lopts ds recs.
Let RC := all_records unz recs.
Let L_all := auto_recs cs ++ map ASchema sch' ++ map AChannel chs'.
Let offs' := if o_skip_so eo then [] else offs.

Lemma Soff_eq : Soff = map (fun so => (so_srec so, [])) offs'.
Proof. unfold Soff, offs'. destruct (o_skip_so eo); reflexivity. Qed.

Lemma E_records : EV = flat_map (crec_events scan_lopts) RC.
Proof. apply file_events_records. reflexivity. Qed.

Lemma R_split : RC = all_records unz (flatten D) ++ CR OpDataEnd de ::
                    all_records unz (map sum_item (Ssum ++ Soff)) ++
                    [CR OpFooter (enc_footer {| f_summary_start := ss; f_summary_offset_start := sos; f_crc := crc |})].
Proof.
  unfold RC, recs. rewrite all_records_app, all_records_cons. cbn [item_records app].
  rewrite app_assoc, all_records_app, gs_items, off_items_eq, <- map_app. reflexivity.
Qed.

Lemma R_auto : filter is_auto RC = map (fun a => cr_of (apair a)) L_all.
Proof.
  rewrite R_split, filter_app. destruct classes_link as (_ & C1 & _). rewrite C1.
  cbn [filter is_auto]. change (auto_op OpDataEnd) with false. cbv iota.
  rewrite filter_app. unfold Ssum. rewrite Soff_eq, summary_auto_records.
  cbn [filter is_auto]. change (auto_op OpFooter) with false. cbv iota. rewrite app_nil_r.
  unfold L_all. rewrite !map_app. reflexivity.
Qed.

Lemma R_md : filter (is_op OpMetadata) RC = map (fun m => CR OpMetadata (enc_metadata m)) (metadata_of cs).
Proof.
  rewrite R_split, filter_app. destruct classes_link as (_ & _ & _ & C3). rewrite C3, expected_md.
  cbn [filter is_op]. change (Byte.eqb OpDataEnd OpMetadata) with false. cbv iota.
  rewrite filter_app. unfold Ssum. rewrite Soff_eq, summary_md_records.
  cbn [filter is_op]. change (Byte.eqb OpFooter OpMetadata) with false. cbv iota. rewrite app_nil_r. reflexivity.
Qed.

Lemma E_auto : filter ev_auto EV = map arec_ev L_all.
Proof.
  rewrite E_records, (filter_events_records scan_lopts ev_auto is_auto RC compat_auto), R_auto.
  apply auto_events.
Qed.

Lemma E_md : filter (ev_op OpMetadata) EV = map (fun m => EvToken OpMetadata (enc_metadata m)) (metadata_of cs).
Proof.
  rewrite E_records, (filter_events_records scan_lopts (ev_op OpMetadata) (is_op OpMetadata) RC (compat_op OpMetadata eq_refl)), R_md.
  apply md_events.
Qed.

Lemma metadata_wf : Forall wf_metadata (metadata_of cs) /\ Forall (fun m => blen (enc_metadata m) < max_int32) (metadata_of cs).
Proof.
  split; apply Forall_forall; intros m Hm; unfold metadata_of in Hm; apply in_flat_map in Hm;
    destruct Hm as (c & Hc & Hm); destruct c; cbn in Hm; try contradiction; destruct Hm as [<-|[]];
    apply (call_wf_in _ Hc).
Qed.

Lemma E_md_list : md_list EV = map metadata_norm (metadata_of cs).
Proof. rewrite md_list_filter, E_md. apply md_list_tokens. apply metadata_wf. Qed.

Lemma E_benign ro : Forall (ev_benign ro) EV.
Proof.
  pose proof (crec_events_tokens scan_lopts eq_refl RC) as HT. rewrite <- E_records in HT.
  apply Forall_forall. intros e He. rewrite Forall_forall in HT. specialize (HT e He).
  destruct e as [op body| |a]; try contradiction. cbn [ev_benign]. intros -> _.
  assert (Hin : In (EvToken OpMetadata body) (filter (ev_op OpMetadata) EV)).
  { apply filter_In. split; [exact He|reflexivity]. }
  rewrite E_md in Hin. apply in_map_iff in Hin. destruct Hin as (m & Hm & Hmin).
  injection Hm as <-. exists (metadata_norm m).
  destruct metadata_wf as [W _]. rewrite Forall_forall in W.
  rewrite <- (app_nil_r (enc_metadata m)). apply parse_enc_metadata. exact (W m Hmin).
Qed.


(* ---------- the fuel hypothesis holds when chunks are stored uncompressed ---------- *)
Lemma chunk_comp k : In (IChunk k) (flatten D) -> k_comp k = o_comp eo /\ o_chunked eo = true.
Proof.
  intro Hin. destruct shape_data_ok as (HD & HK & _).
  unfold flatten in Hin. apply in_flat_map in Hin. destruct Hin as (x & Hx & Hin).
  rewrite Forall_forall in HD. specialize (HD x Hx).
  destruct x as [it|m|k0 mis]; cbn [flat1 In] in Hin.
  - destruct Hin as [E0|[]]. subst it. cbn [data_sitem] in HD. contradiction.
  - destruct Hin as [E0|[]]. discriminate.
  - destruct Hin as [E0|Hin].
    + injection E0 as <-. cbn [data_sitem] in HD. split; [|exact HD].
      apply in_split in Hx. destruct Hx as (Sa & Sb & ED).
      destruct (chunks_ok_split eo compress D 0%nat Sa k0 mis Sb HK ED) as (recs0 & _ & _ & _ & Hc & _). exact Hc.
    + apply in_map_iff in Hin. destruct Hin as (mi & E0 & _). discriminate.
Qed.

Lemma fuel_uncompressed : (o_chunked eo = true -> o_comp eo = []) -> e2e_fuel ds w.
Proof.
  intro Hu. unfold e2e_fuel. fold s tr F. rewrite run_file_is_trace. unfold blen. rewrite Nnat.Nat2N.id.
  apply steps_le_bytes. rewrite shape_tr, pre_eq.
  apply Forall_app. split.
  - apply Forall_app. split; [case (o_skip_magic eo); repeat constructor|].
    constructor; [|constructor]. right. split; [|exact I]. apply wf_item_rec; [repeat split; discriminate|exact hb_small_early].
  - assert (Hr : Forall (fun it => it = IMagic \/ (wf_item scan_lopts ds it /\ match it with IChunk k => k_comp k = [] | _ => True end)) recs).
    { pose proof recs_wf as W. rewrite Forall_forall in W. apply Forall_forall. intros it Hit. right. split; [exact (W it Hit)|].
      destruct it as [|op body|k|a data0 crc0|ss0 sos0 crc0]; try exact I.
      unfold recs in Hit. apply in_app_or in Hit. destruct Hit as [Hit|Hit].
      - destruct (chunk_comp k Hit) as [Hc Hch]. rewrite Hc. exact (Hu Hch).
      - exfalso. destruct Hit as [E0|Hit]; [discriminate|].
        apply in_app_or in Hit. destruct Hit as [Hit|Hit].
        + destruct (sum_items_ops _ _ _ _ _ _ Hit) as (op & body & E0 & _). discriminate.
        + apply in_app_or in Hit. destruct Hit as [Hit|Hit].
          * unfold off_items in Hit. revert Hit. case (o_skip_so eo); [intros []|]. intro Hit.
            apply in_map_iff in Hit. destruct Hit as (so & E0 & _). discriminate.
          * destruct Hit as [E0|[]]. discriminate. }
    unfold recs in Hr. apply Forall_app in Hr. destruct Hr as [Hr1 Hr2].
    apply Forall_app. split; [exact Hr1|].
    inversion Hr2 as [|? ? H1 H2]; subst. constructor; [exact H1|].
    unfold rest. apply Forall_app in H2. destruct H2 as [H2 H3]. apply Forall_app. split; [exact H2|].
    apply Forall_app in H3. destruct H3 as [H3 H4]. apply Forall_app. split; [exact H3|].
    inversion H4 as [|? ? H5 _]; subst. constructor; [exact H5|]. constructor; [left; reflexivity|constructor].
Qed.

(* ---------- the typed record list of the whole file is scoped and consistent ---------- *)
Lemma L_all_channel c : In (AChannel c) L_all -> In (CChannel c) cs.
Proof.
  unfold L_all. intro H. apply in_app_or in H. destruct H as [H|H]; [apply in_auto_recs_channel; exact H|].
  apply in_app_or in H. destruct H as [H|H]; apply in_map_iff in H; destruct H as (x & Ex & Hx); [discriminate|].
  injection Ex as <-. apply chs'_in. exact Hx.
Qed.
Lemma L_all_schema sc : In (ASchema sc) L_all -> In (CSchema sc) cs.
Proof.
  unfold L_all. intro H. apply in_app_or in H. destruct H as [H|H]; [apply in_auto_recs_schema; exact H|].
  apply in_app_or in H. destruct H as [H|H]; apply in_map_iff in H; destruct H as (x & Ex & Hx); [|discriminate].
  injection Ex as <-. apply sch'_in. exact Hx.
Qed.

Lemma L_all_scoped : scoped [] [] L_all.
Proof.
  destruct run_tables as (_ & _ & _ & _ & HSC).
  unfold L_all. apply scoped_calls_tail; [exact HSC|].
  intros chs1 schs1 _ _ I3 I4. apply scoped_schemas. apply scoped_channels.
  intros c Hc. apply chs'_in in Hc.
  destruct (call_scoped_chan_schema cs [] [] c HSC Hc) as [A|[[]|(sc & A1 & A2)]]; [left; exact A|].
  right. apply in_or_app. right. rewrite <- A2. apply I3. exact A1.
Qed.

Lemma L_all_wf : Forall wf_arec L_all.
Proof.
  unfold L_all. apply Forall_app. split; [apply wf_auto_recs; exact Hwf|].
  apply Forall_app. split; apply Forall_forall; intros x Hx; apply in_map_iff in Hx; destruct Hx as (y & <- & Hy).
  - exact (call_wf_in _ (sch'_in _ Hy)).
  - exact (call_wf_in _ (chs'_in _ Hy)).
Qed.

Lemma L_all_msgs : amsgs L_all = messages_of cs.
Proof.
  unfold L_all. rewrite !amsgs_app, amsgs_auto_recs.
  assert (E1 : amsgs (map ASchema sch') = []) by (unfold amsgs; induction sch'; [reflexivity|assumption]).
  assert (E2 : amsgs (map AChannel chs') = []) by (unfold amsgs; induction chs'; [reflexivity|assumption]).
  rewrite E1, E2, !app_nil_r. reflexivity.
Qed.

Lemma L_all_scan ro : plain_ro ro ->
  exists ts, ascan ro [] [] L_all = Some ts /\ Forall2 (fun t m => triple_of L_all m = Some t) ts (messages_of cs).
Proof.
  intro Hp. rewrite <- L_all_msgs. apply ascan_consistent.
  - apply Hp.
  - intro t. apply plain_window. exact Hp.
  - exact L_all_scoped.
  - intros c c' H1 H2. apply (proj1 Hcons); apply L_all_channel; assumption.
  - intros sc sc' H1 H2. apply (proj2 Hcons); apply L_all_schema; assumption.
  - intros sc H. destruct run_tables as (_ & _ & _ & _ & HSC).
    exact (call_scoped_schema_nz cs [] [] sc HSC (L_all_schema sc H)).
Qed.

(* ---------- the sequential read of the written file ---------- *)
Lemma hb_small : blen hb < max_int32.
Proof.
  pose proof fits_tr as H. rewrite shape_tr, pre_eq in H. apply Forall_app in H. destruct H as [H _].
  apply Forall_app in H. destruct H as [_ H]. inversion H as [|? ? H1 _]; subst. exact H1.
Qed.

Lemma scan_fuel : o_skip_magic eo = false ->
  (file_steps scan_lopts ds recs + 1 <= N.to_nat (fs_size (mem_file (render (data_file hb recs)))))%nat.
Proof.
  intro Hm. unfold e2e_fuel in Hfuel. fold s tr F in Hfuel. rewrite (tr_data_file Hm) in Hfuel.
  rewrite <- (tr_data_file Hm), <- run_file_is_trace. unfold fs_size, mem_file. cbn [fs_data].
  unfold data_file in Hfuel.
  change (IMagic :: IRec OpHeader hb :: recs ++ [IMagic]) with ([IMagic; IRec OpHeader hb] ++ recs ++ [IMagic]) in Hfuel.
  rewrite !file_steps_app in Hfuel. cbn [file_steps fold_right item_steps] in Hfuel. lia.
Qed.

Lemma scan_read os r rs : o_skip_magic eo = false ->
  messages_dispatch ds (mem_file F) os = Ok (MScan, r) -> plain_ro r ->
  read_messages ds dall (mem_file F) os = Ok rs ->
  rr_mode rs = Some MScan /\ rr_end rs = EEOF /\
  Forall2 (fun t m => triple_of L_all m = Some t) (rr_msgs rs) (messages_of cs) /\
  rr_mds rs = (if ro_md_cb r then map metadata_norm (metadata_of cs) else []).
Proof.
  intros Hm Hd Hp Hr.
  assert (EF : F = render (data_file hb recs)) by (rewrite run_file_is_trace, (tr_data_file Hm); reflexivity).
  rewrite EF in Hd, Hr.
  rewrite (C02_read_scan_thm ds dall hb recs os r hb_small recs_wf Hd (scan_fuel Hm)) in Hr.
  destruct (L_all_scan r Hp) as (ts & Hts & HF2).
  fold EV in Hr. rewrite (scan_spec_auto r EV [] [] EEOF L_all ts E_auto L_all_wf (E_benign r) Hts) in Hr.
  destruct (parse_header hb) as [h| | | |]; cbn [bind] in Hr; try discriminate.
  injection Hr as <-. cbn [rr_mode rr_end rr_msgs rr_mds].
  split; [reflexivity|]. split; [reflexivity|]. split; [exact HF2|].
  destruct (ro_md_cb r); [apply E_md_list|reflexivity].
Qed.


(* ---------- the chunks, typed ---------- *)
Let CK := schunks (offset_of pre) D.

Lemma Forall2_compose {A B C} (R1 : A -> B -> Prop) (R2 : B -> C -> Prop) (R3 : A -> C -> Prop) la lb lc :
  (forall a b c, R1 a b -> R2 b c -> R3 a c) -> Forall2 R1 la lb -> Forall2 R2 lb lc -> Forall2 R3 la lc.
Proof.
  intros H H1. revert lc. induction H1 as [|a b la lb Hab _ IH]; intros lc H2; inversion H2; subst; constructor; eauto.
Qed.

Lemma chunks_typed : o_chunked eo = true ->
  exists As, concat As = auto_recs cs /\
    Forall2 (fun ck Ak => chunk_decodes ds dall (snd (fst ck)) (map apair Ak)) CK As.
Proof.
  intro Hch. destruct (D_chunked Hch) as (inners & F2 & E1 & _ & _).
  destruct classes_link as (_ & C1 & _). rewrite C1 in E1. symmetry in E1.
  destruct (concat_eq_map_split (map cr_of) (fun a => cr_of (apair a)) inners (auto_recs cs) E1) as (As & HA & HF).
  exists As. split; [exact HA|].
  eapply Forall2_compose; [|exact F2|exact HF].
  intros ck inner Ak H1 H2. cbv beta in *. rewrite <- (map_map apair cr_of Ak) in H2. apply map_cr_of_inj in H2. subst inner. exact H1.
Qed.

Lemma cis_w_eq : w_chunk_indexes s = map (fun c => mk_ci (snd (fst c)) (snd c) (fst (fst c))) CK.
Proof. destruct shape_data_ok as (_ & _ & H & _). rewrite H. apply exp_ci_schunks. Qed.

Lemma unchunked_no_chunks : o_chunked eo = false -> CK = [].
Proof.
  intro Hch. destruct shape_data_ok as (HD & _). unfold CK. clear HS.
  generalize (offset_of pre). induction HD as [|x D' Hx _ IH]; intro off; [reflexivity|].
  rewrite schunks_cons, IH. destruct x; try reflexivity. cbn [data_sitem] in Hx. congruence.
Qed.

(* the metadata callbacks of the index-based read *)
Lemma md_F2 : forall l ms, incl l (smetas (offset_of pre) D) ->
  Forall2 (fun p m => enc_metadata (snd p) = enc_metadata m) l ms ->
  Forall wf_metadata ms -> Forall (fun m => blen (enc_metadata m) < max_int32) ms ->
  Forall2 (fun x m => md_at F (mx_offset x) m /\ wf_metadata m /\ blen (enc_metadata m) < max_int32) (map mx_of l) ms.
Proof.
  induction l as [|p l IH]; intros ms Hincl HF2 W1 W2; inversion HF2; subst; [constructor|].
  inversion W1; subst. inversion W2; subst. cbn [map]. constructor.
  - split; [|split; assumption]. cbn [mx_of mx_offset].
    destruct (smeta_in_tr p (Hincl p (or_introl eq_refl))) as (pp & post & Et & Eoff).
    exists (render pp), (render post). split; [|symmetry; exact Eoff].
    rewrite run_file_is_trace, Et, render_app, render_cons. cbn [render_item]. congruence.
  - apply IH; try assumption. intros x Hx. apply Hincl. right. exact Hx.
Qed.

Lemma md_callbacks_written :
  md_callbacks (mem_file F) (w_md_indexes s) [] = (map metadata_norm (metadata_of cs), None).
Proof.
  destruct md_link as [E1 HF2]. destruct metadata_wf as [W1 W2].
  rewrite (C02_indexed_metadata_thm F Hsize (w_md_indexes s) (metadata_of cs) []); [reflexivity|].
  rewrite E1. apply md_F2; try assumption. apply incl_refl.
Qed.

(* random access through the index entries *)
Lemma ra_md_aux : forall l ms, incl l (smetas (offset_of pre) D) ->
  Forall2 (fun p m => enc_metadata (snd p) = enc_metadata m) l ms ->
  Forall wf_metadata ms -> Forall (fun m => blen (enc_metadata m) < max_int32) ms ->
  map (fun mx => get_metadata ds (mem_file F) (mx_offset mx)) (map mx_of l) = map (fun m => Ok (metadata_norm m)) ms.
Proof.
  induction l as [|p l IH]; intros ms Hincl HF2 W1 W2; inversion HF2; subst; [reflexivity|].
  inversion W1; subst. inversion W2; subst. cbn [map]. f_equal.
  - cbn [mx_of mx_offset].
    destruct (smeta_in_tr p (Hincl p (or_introl eq_refl))) as (pp & post & Et & Eoff).
    rewrite Eoff, run_file_is_trace, Et. match goal with H : enc_metadata (snd p) = _ |- _ => rewrite H end.
    apply C02_get_metadata_thm; try assumption.
    match goal with H : enc_metadata (snd p) = _ |- _ => rewrite <- H end. rewrite <- Et, <- run_file_is_trace. exact Hsize.
  - apply IH; try assumption. intros x Hx. apply Hincl. right. exact Hx.
Qed.

Lemma random_access_md :
  map (fun mx => get_metadata ds (mem_file F) (mx_offset mx)) (w_md_indexes s)
  = map (fun m => Ok (metadata_norm m)) (metadata_of cs).
Proof.
  destruct md_link as [E1 HF2]. destruct metadata_wf as [W1 W2]. rewrite E1.
  apply ra_md_aux; try assumption. apply incl_refl.
Qed.

Lemma ra_att_aux : forall l, incl l (satts (offset_of pre) D) ->
  map (fun ai => get_attachment (mem_file F) (ai_offset ai)) (map ai_of l)
  = map (fun x => Ok (attach_obs_ra (fst (fst x)) (snd (fst x)) (snd x))) (map snd l).
Proof.
  induction l as [|p l IH]; intro Hincl; [reflexivity|]. cbn [map]. f_equal.
  - destruct (satt_in_tr p (Hincl p (or_introl eq_refl))) as (pp & post & Et & Eoff).
    destruct p as [o0 [[a d] c]]. cbn [fst snd ai_of ai_offset] in *.
    rewrite Eoff, run_file_is_trace, Et. apply C02_get_attachment_thm.
    + pose proof att_item_wf as Hf. rewrite Forall_forall in Hf.
      destruct (in_satts _ _ _ (Hincl _ (or_introl eq_refl))) as (Sa & Sb & ED & _). cbn [fst snd] in ED.
      apply (Hf (IAttach a d c)). rewrite ED, flatten_app. apply in_or_app. right. left. reflexivity.
    + rewrite <- Et, <- run_file_is_trace. exact Hsize.
  - apply IH. intros x Hx. apply Hincl. right. exact Hx.
Qed.

Lemma random_access_att :
  map (fun ai => get_attachment (mem_file F) (ai_offset ai)) (w_att_indexes s)
  = map (fun ad => Ok (attach_obs_ra (fst ad) (snd ad) (crc32 (enc_attachment_fields (fst ad) ++ snd ad))))
        (attachments_of cs).
Proof.
  destruct att_link as [E1 E2]. rewrite E1, (ra_att_aux _ (incl_refl _)), E2, map_map. reflexivity.
Qed.

(* ---------- channel and schema lookups: the summary tables against the scan tables ---------- *)
Lemma w_chan_lookup id : assoc_get id (w_channels s) = call_chan cs id.
Proof. destruct run_tables as (_ & T2 & _). rewrite T2, fw_fold_get. reflexivity. Qed.
Lemma w_schema_lookup id : assoc_get id (w_schemas s) = call_schema cs id.
Proof. destruct run_tables as (T1 & _). rewrite T1, fw_fold_get. reflexivity. Qed.
Lemma w_channels_nodup : NoDup (map fst (w_channels s)).
Proof. destruct run_tables as (_ & T2 & _). rewrite T2. apply fw_fold_nodup. constructor. Qed.
Lemma w_schemas_nodup : NoDup (map fst (w_schemas s)).
Proof. destruct run_tables as (T1 & _). rewrite T1. apply fw_fold_nodup. constructor. Qed.

Lemma sm_chan_lookup sm id : sm_channels sm = tab_of c_id (map channel_norm chs') [] -> o_skip_rch eo = false ->
  tab_get id (sm_channels sm) = option_map channel_norm (call_chan cs id).
Proof.
  intros -> Hk. unfold chs'. rewrite Hk, <- w_chan_lookup.
  destruct run_tables as (_ & _ & _ & (_ & K2) & _).
  apply (tab_lookup c_id channel_norm); [reflexivity|exact w_channels_nodup|exact K2].
Qed.

Lemma sm_schema_lookup sm id : sm_schemas sm = tab_of s_id sch' [] ->
  tab_get id (sm_schemas sm) = if o_skip_rsh eo then None else call_schema cs id.
Proof.
  intros ->. unfold sch'. destruct (o_skip_rsh eo); [reflexivity|]. rewrite <- w_schema_lookup.
  destruct run_tables as (_ & _ & _ & (K1 & _) & _).
  rewrite <- (map_id (map snd (w_schemas s))).
  rewrite (tab_lookup s_id (fun x => x)); [destruct (assoc_get id (w_schemas s)); reflexivity|reflexivity|exact w_schemas_nodup|exact K1].
Qed.

Lemma chan_of_L_all id : chan_of L_all id = call_chan cs id.
Proof.
  unfold chan_of, L_all. rewrite find_app, find_auto_chan.
  destruct (call_chan cs id) as [c|] eqn:E; [reflexivity|]. cbn [option_map].
  destruct (find _ (map ASchema sch' ++ map AChannel chs')) as [a|] eqn:E2; [|reflexivity].
  apply find_some in E2. destruct E2 as [Hin Hp]. destruct a as [sc|c|m]; try discriminate.
  apply in_app_or in Hin. destruct Hin as [Hin|Hin]; apply in_map_iff in Hin; destruct Hin as (x & Ex & Hx); [discriminate|].
  injection Ex as <-. apply chs'_in in Hx. apply in_channel_calls in Hx.
  unfold call_chan in E. pose proof (find_none _ _ E x Hx) as Hn. cbv beta in Hn. congruence.
Qed.

Lemma schema_of_L_all id : schema_of L_all id = call_schema cs id.
Proof.
  unfold schema_of, L_all. rewrite find_app, find_auto_schema.
  destruct (call_schema cs id) as [c|] eqn:E0; [reflexivity|]. cbn [option_map].
  destruct (find _ (map ASchema sch' ++ map AChannel chs')) as [a|] eqn:E2; [|reflexivity].
  apply find_some in E2. destruct E2 as [Hin Hp]. destruct a as [sc|c|m]; try discriminate.
  apply in_app_or in Hin. destruct Hin as [Hin|Hin]; apply in_map_iff in Hin; destruct Hin as (x & Ex & Hx); [|discriminate].
  injection Ex as <-. apply sch'_in in Hx. apply in_schema_calls in Hx.
  unfold call_schema in E0. pose proof (find_none _ _ E0 x Hx) as Hn. cbv beta in Hn. congruence.
Qed.

Lemma call_schema_0 : call_schema cs 0 = None.
Proof.
  destruct (call_schema cs 0) as [sc|] eqn:E0; [|reflexivity]. unfold call_schema in E0.
  apply find_some in E0. destruct E0 as [Hin Hp]. apply N.eqb_eq in Hp. apply in_schema_calls in Hin.
  destruct run_tables as (_ & _ & _ & _ & HSC). exfalso. exact (call_scoped_schema_nz cs [] [] sc HSC Hin Hp).
Qed.

Lemma tr_opt_triple sm m t :
  sm_channels sm = tab_of c_id (map channel_norm chs') [] -> sm_schemas sm = tab_of s_id sch' [] ->
  o_skip_rch eo = false -> tr_opt sm m = Some t -> triple_of L_all m = Some t.
Proof.
  intros Hc Hs Hk. unfold tr_opt, triple_of.
  rewrite (sm_chan_lookup sm _ Hc Hk), chan_of_L_all.
  destruct (call_chan cs (m_chan m)) as [c|]; cbn [option_map]; [|discriminate].
  rewrite (sm_schema_lookup sm _ Hs), schema_of_L_all.
  change (c_schema (channel_norm c)) with (c_schema c).
  destruct (o_skip_rsh eo); [|auto].
  destruct (N.eqb_spec (c_schema c) 0) as [E0|E0]; [|discriminate]. rewrite E0, call_schema_0. auto.
Qed.

Lemma msg_in_calls m : In m (messages_of cs) -> In (CMessage m) cs.
Proof.
  unfold messages_of. intro H. apply in_flat_map in H. destruct H as (c & Hc & H).
  destruct c; cbn in H; try contradiction. destruct H as [<-|[]]. exact Hc.
Qed.

Lemma msg_chan_declared m : In m (messages_of cs) -> exists c, call_chan cs (m_chan m) = Some c /\ In (CChannel c) cs.
Proof.
  intro H. apply msg_in_calls in H. destruct run_tables as (_ & _ & _ & _ & HSC).
  destruct (call_scoped_msg_chan cs [] [] m HSC H) as [[]|(c & Hc & Hid)].
  unfold call_chan. destruct (find (fun c0 => c_id c0 =? m_chan m) (channel_calls cs)) as [c0|] eqn:E0.
  - exists c0. split; [reflexivity|]. apply find_some in E0. apply in_channel_calls. apply E0.
  - apply in_channel_calls in Hc. pose proof (find_none _ _ E0 c Hc) as Hn. cbv beta in Hn. rewrite Hid, N.eqb_refl in Hn. discriminate.
Qed.

Lemma tr_opt_defined sm m :
  sm_channels sm = tab_of c_id (map channel_norm chs') [] -> sm_schemas sm = tab_of s_id sch' [] ->
  o_skip_rch eo = false -> o_skip_rsh eo = false -> In m (messages_of cs) -> tr_opt sm m <> None.
Proof.
  intros Hc Hs Hk Hk2 Hm. unfold tr_opt. rewrite (sm_chan_lookup sm _ Hc Hk).
  destruct (msg_chan_declared m Hm) as (c & Ec & Hcin). rewrite Ec. cbn [option_map].
  rewrite (sm_schema_lookup sm _ Hs), Hk2. change (c_schema (channel_norm c)) with (c_schema c).
  destruct run_tables as (_ & _ & _ & _ & HSC).
  destruct (call_scoped_chan_schema cs [] [] c HSC Hcin) as [A|[[]|(sc & A1 & A2)]].
  - rewrite A, call_schema_0. discriminate.
  - unfold call_schema. destruct (find (fun sc0 => s_id sc0 =? c_schema c) (schema_calls cs)) as [sc0|] eqn:E0; [discriminate|].
    apply in_schema_calls in A1. pose proof (find_none _ _ E0 sc A1) as Hn. cbv beta in Hn. rewrite A2, N.eqb_refl in Hn. discriminate.
Qed.

Lemma msel_all sm ro m :
  sm_channels sm = tab_of c_id (map channel_norm chs') [] -> o_skip_rch eo = false -> plain_ro ro ->
  In m (messages_of cs) -> msel (sm_channels sm) ro m = true.
Proof.
  intros Hc Hk Hp Hm. unfold msel, known_chan. rewrite (sm_chan_lookup sm _ Hc Hk).
  destruct (msg_chan_declared m Hm) as (c & Ec & _). rewrite Ec. cbn [option_map andb]. apply plain_window. exact Hp.
Qed.

Section Typed.
Variable As : list (list arec).
Hypothesis HA1 : concat As = auto_recs cs.
Hypothesis HA2 : Forall2 (fun ck Ak => chunk_decodes ds dall (snd (fst ck)) (map apair Ak)) CK As.

Let ZL := zipb 0 CK As.
Let pairs := map (fun z => (cd_ci z, cd_ac z)) ZL.
Let cks := map cd_ac ZL.
Let cisN := map cd_ci ZL.
Definition dmsg : message := {| m_chan := 0; m_seq := 0; m_log := 0; m_pub := 0; m_data := [] |}.
Let M (uid : nat) : message := nth uid (messages_of cs) dmsg.

Lemma msgs_concat : messages_of cs = concat (map amsgs As).
Proof. rewrite <- amsgs_auto_recs, <- HA1. apply amsgs_concat. Qed.

Lemma ZL_ck : map cd_ck ZL = CK.
Proof. exact (zipb_ck _ CK As HA2 0%nat). Qed.

Lemma cisN_eq : cisN = map chunkindex_norm (w_chunk_indexes s).
Proof.
  rewrite cis_w_eq, <- ZL_ck. unfold cisN, cd_ci. rewrite !map_map. apply map_ext. intro z. reflexivity.
Qed.

Lemma cks_all_msgs : all_msgs cks = number 0 (messages_of cs).
Proof. unfold cks, ZL. rewrite (zipb_all_msgs _ CK As HA2 0%nat), msgs_concat. reflexivity. Qed.

Lemma ZL_props z : In z ZL ->
  In (cd_ck z) CK /\ chunk_decodes ds dall (cd_k z) (map apair (cd_A z)) /\
  (forall j m, nth_error (amsgs (cd_A z)) j = Some m -> M (cd_base z + j)%nat = m).
Proof.
  intro Hz. destruct (zipb_props _ CK As HA2 0%nat [] eq_refl z Hz) as (P1 & P2 & P3).
  split; [exact P1|]. split; [exact P2|]. intros j m Hj. specialize (P3 j m Hj). cbn [app] in P3.
  unfold M. rewrite msgs_concat. apply nth_error_nth. exact P3.
Qed.

Lemma chunk_in_tr z : In z ZL ->
  exists p post, tr = p ++ IChunk (cd_k z) :: post /\ cd_off z = blen (render p).
Proof.
  intro Hz. destruct (ZL_props z Hz) as (Hin & _). apply in_schunks in Hin.
  destruct Hin as (Sa & Sb & ED & Eoff). cbn [cd_ck fst snd] in *.
  exists (pre ++ flatten Sa), (map mi_item (cd_mis z) ++ flatten Sb ++ IRec OpDataEnd de :: rest). split.
  - rewrite shape_tr, ED, flatten_app. change (flatten (SChunk (cd_k z) (cd_mis z) :: Sb))
      with (flat1 (SChunk (cd_k z) (cd_mis z)) ++ flatten Sb). cbn [flat1]. rewrite <- !app_assoc. cbn [app].
    rewrite <- ?app_assoc. reflexivity.
  - rewrite Eoff. change (render (pre ++ flatten Sa)) with (rendered (pre ++ flatten Sa)).
    rewrite rendered_app, WriterFactsC.blen_app. reflexivity.
Qed.

Lemma chunk_fits z : In z ZL -> wf_chunk (cd_k z) /\ k_usize (cd_k z) < max_int32.
Proof.
  intro Hz. destruct (chunk_in_tr z Hz) as (p & post & Et & _).
  pose proof fits_tr as H. rewrite Et in H. apply Forall_app in H. destruct H as [_ H].
  inversion H as [|? ? H1 _]; subst. exact H1.
Qed.

Lemma pairs_rendered : forall ci c, In (ci, c) pairs -> exists k recs base,
  chunk_at F ci k /\ wf_chunk k /\ Iter.chunk_plain dall k = Ok (kplain recs) /\ Forall wf_krec recs /\
  ac_msgs c = number base (kmsgs recs) /\
  (forall j m, nth_error (kmsgs recs) j = Some m -> M (base + j)%nat = m).
Proof.
  intros ci c Hin. unfold pairs in Hin. apply in_map_iff in Hin. destruct Hin as (z & Ez & Hz).
  injection Ez as <- <-.
  destruct (ZL_props z Hz) as (Hck & Hdec & HM). destruct (chunk_in_tr z Hz) as (p & post & Et & Eoff).
  destruct (chunk_fits z Hz) as [Wk _].
  exists (cd_k z), (map krec_of (cd_A z)), (cd_base z).
  split; [|split; [exact Wk|split; [|split; [|split]]]].
  - exists p, post. split; [rewrite run_file_is_trace, Et; reflexivity|]. split; [exact Eoff|reflexivity].
  - rewrite kplain_of. apply Hdec.
  - assert (Hin : incl (cd_A z) (auto_recs cs)).
    { rewrite <- HA1. intros a Ha. apply in_concat. exists (cd_A z). split; [|exact Ha].
      exact (zipb_A_in CK As 0%nat z Hz). }
    pose proof (wf_auto_recs cs Hwf) as W. rewrite Forall_forall in W.
    apply Forall_forall. intros r Hr. apply in_map_iff in Hr. destruct Hr as (a & <- & Ha). apply wf_krec_of. apply W. apply Hin. exact Ha.
  - rewrite kmsgs_of. reflexivity.
  - rewrite kmsgs_of. exact HM.
Qed.

Lemma pairs_match : Forall2 (ci_match pairs) cisN cks.
Proof. apply pairs_match_gen. Qed.

Lemma cks_file_ordered : file_ordered cks.
Proof.
  destruct shape_data_ok as (HD & _). destruct (schunks_sorted eo D HD (offset_of pre)) as [HS1 _]. fold CK in HS1.
  rewrite <- ZL_ck in HS1. unfold file_ordered, cks. clear - HS1. induction ZL as [|z L IH]; [constructor|].
  cbn [map] in *. inversion HS1 as [|? ? H1 H2]; subst. constructor; [apply IH; exact H1|].
  clear - H2. induction L as [|y L IH]; [constructor|]. cbn [map] in *. inversion H2; subst. constructor; [assumption|apply IH; assumption].
Qed.


Lemma M_ok : forall j m, nth_error (messages_of cs) j = Some m -> M (0 + j)%nat = m.
Proof. intros j m H. unfold M. cbn [Nat.add]. apply nth_error_nth. exact H. Qed.

Lemma loader_typed ro sm :
  loader_ok_x dall ro sm (mem_file F) (tw_sel (sm_channels sm) ro) pairs M.
Proof. apply loader_ok_x_rendered; [exact Hsize|exact pairs_rendered]. Qed.

Lemma indexed_typed_backward ro sm fuel n ms st :
  indexed_all dall fuel n ro sm (mem_file F) (i_init ro cisN) [] (O, O) = Ok (ms, EEOF, st) ->
  exists outm, Permutation outm (filter (msel (sm_channels sm) ro) (messages_of cs)) /\
    (ro_order ro = FileOrder -> outm = filter (msel (sm_channels sm) ro) (messages_of cs)) /\
    Forall2 (fun t m => tr_opt sm m = Some t) ms outm.
Proof.
  intro H.
  destruct (indexed_read_x_backward dall ro sm (mem_file F) _ pairs M (loader_typed ro sm) fuel n cisN cks ms st pairs_match H)
    as (out & Hr & HF).
  exists (map (fun a => M (am_uid a)) out). split; [|split].
  - rewrite <- (number_filter_map M (sm_channels sm) ro (messages_of cs) 0%nat M_ok), <- cks_all_msgs.
    apply Permutation_map. eapply a_read_perm. exact Hr.
  - intro Ho. rewrite Ho in Hr. apply a_read_file in Hr.
    rewrite (ac_sort_file_id cks cks_file_ordered), cks_all_msgs in Hr. rewrite Hr.
    apply number_filter_map. exact M_ok.
  - clear - HF. induction HF; cbn [map]; constructor; assumption.
Qed.

Lemma indexed_typed_forward ro sm fuel n :
  (length CK + 1 <= fuel)%nat -> (length (messages_of cs) + 1 <= n)%nat ->
  (forall m, In m (messages_of cs) -> tr_opt sm m <> None) ->
  exists ms st, indexed_all dall fuel n ro sm (mem_file F) (i_init ro cisN) [] (O, O) = Ok (ms, EEOF, st).
Proof.
  intros Hf Hn Hall.
  assert (Hlen : length cks = length CK) by (unfold cks; rewrite map_length, <- ZL_ck, map_length; reflexivity).
  destruct (a_read_total (tw_sel (sm_channels sm) ro) (ro_order ro) fuel n cks) as (out & st & Hr).
  - lia.
  - rewrite cks_all_msgs. pose proof (filter_length_le' (tw_sel (sm_channels sm) ro) (number 0 (messages_of cs))) as L.
    rewrite number_length in L. lia.
  - destruct (indexed_read_x_forward dall ro sm (mem_file F) _ pairs M (loader_typed ro sm) fuel n cisN cks out st pairs_match Hr)
      as (ms & Hi & _).
    + apply Forall_forall. intros a Ha. apply Hall.
      apply a_read_perm in Hr. apply (Permutation_in _ Hr) in Ha. apply filter_In in Ha. destruct Ha as [Ha _].
      rewrite cks_all_msgs in Ha. apply In_nth_error in Ha. destruct Ha as (j & Hj).
      assert (Hlt : (j < length (messages_of cs))%nat).
      { rewrite <- (number_length (messages_of cs) 0%nat). apply nth_error_Some. rewrite Hj. discriminate. }
      destruct (number_nth dmsg (messages_of cs) 0%nat j Hlt) as (a' & E1 & E2 & _). rewrite Hj in E1. injection E1 as <-.
      rewrite E2. unfold M. cbn [Nat.add]. apply nth_In. exact Hlt.
    + exists ms, st. exact Hi.
Qed.


Lemma typed_inner : Forall2 (fun ck inner => chunk_inner scan_lopts ds (snd (fst ck)) = inner) CK (map (map apair) As).
Proof.
  assert (G : forall L, incl L ZL -> Forall2 (fun ck inner => chunk_inner scan_lopts ds (snd (fst ck)) = inner)
                                           (map cd_ck L) (map (fun z => map apair (cd_A z)) L)).
  { induction L as [|z L IH]; intro Hincl; [constructor|]. cbn [map]. constructor.
    - assert (Hz : In z ZL) by (apply Hincl; left; reflexivity).
      destruct (ZL_props z Hz) as (_ & (Hs & _ & Hu & _ & Hauto & _) & _). destruct (chunk_fits z Hz) as [_ Hlt].
      cbn [cd_ck fst snd]. apply (chunk_inner_eq scan_lopts ds _ _ Hs).
      apply Forall_forall. intros r Hr. rewrite Forall_forall in Hauto.
      destruct (auto_op_plain _ (Hauto r Hr)) as (P1 & P2 & P3).
      split; [exact P1|]. split; [exact P2|]. split; [exact P3|]. split; [|apply len_ok_scan].
      pose proof (frames_body_le r _ Hr). lia.
    - apply IH. intros x Hx. apply Hincl. right. exact Hx. }
  specialize (G ZL (incl_refl _)). rewrite ZL_ck in G.
  assert (E0 : map (fun z => map apair (cd_A z)) ZL = map (map apair) As).
  { transitivity (map (map apair) (map cd_A ZL)); [rewrite map_map; reflexivity|].
    unfold ZL. rewrite (zipb_A _ CK As HA2 0%nat). reflexivity. }
  rewrite E0 in G. exact G.
Qed.

Lemma typed_fuel : (length CK + length (messages_of cs) <= file_steps scan_lopts ds (flatten D))%nat.
Proof.
  pose proof (D_steps ds D (offset_of pre) _ typed_inner) as H. fold CK in H.
  assert (L1 : length (concat (map (map apair) As)) = length (auto_recs cs)).
  { rewrite <- HA1. clear. induction As as [|A As0 IH]; [reflexivity|]. cbn [map concat]. rewrite !app_length, map_length, IH. reflexivity. }
  assert (L2 : (length (messages_of cs) <= length (auto_recs cs))%nat).
  { rewrite <- amsgs_auto_recs. unfold amsgs. clear. induction (auto_recs cs) as [|a l IH]; [cbn; lia|].
    cbn [flat_map length]. rewrite app_length. destruct a; cbn [length]; lia. }
  lia.
Qed.

End Typed.


(* ---------- when the index is usable ---------- *)
Lemma stats_messages : w_st_messages s = N.of_nat (length (messages_of cs)).
Proof.
  destruct Hok as [H1 H2].
  destruct (C08_writer_statistics_proof o lib compress None (CHeader hd :: cs ++ [CClose]) H1 H2) as (HM & _).
  fold w s in HM. rewrite HM. cbn [true_stats ag_messages]. unfold count_calls. f_equal.
  cbn [filter is_message]. rewrite filter_app. cbn [filter is_message]. rewrite app_nil_r.
  unfold messages_of. clear. induction cs as [|c l IH]; [reflexivity|].
  destruct c; cbn [filter is_message flat_map app length]; rewrite ?IH; reflexivity.
Qed.

Lemma info_fields :
  let sm := sm_of info_opts true in
  sm_channels sm = tab_of c_id (map channel_norm chs') [] /\
  sm_stats sm = last_or (map statistics_norm sts') None /\
  sm_cis sm = ci_sort FileOrder (map chunkindex_norm cis') /\
  sm_ais sm = ais' /\ sm_mxs sm = mxs'.
Proof.
  destruct (sm_fields info_opts true eq_refl (fun ci => ci_time_ok_info info_opts ci)) as (_ & F2 & F3 & F4 & F5 & F6 & _).
  cbv zeta. auto.
Qed.

Lemma usable_cases : index_usable (sm_of info_opts true) ->
  (cis' <> [] /\ chs' <> []) \/ messages_of cs = [].
Proof.
  destruct info_fields as (F2 & F3 & F4 & _). intros [[U1 U2]|(st & U1 & U2)].
  - left. split.
    + intro E0. apply U1. rewrite F4, E0. reflexivity.
    + intro E0. apply U2. rewrite F2, E0. reflexivity.
  - right. rewrite F3 in U1. unfold sts' in U1. revert U1. case (o_skip_stats eo); [discriminate|].
    cbn [map last_or fold_left]. intro U1. injection U1 as <-. cbn [statistics_norm st_messages stats_record] in U2.
    rewrite stats_messages in U2. destruct (messages_of cs); [reflexivity|cbn [length] in U2; lia].
Qed.

Lemma usable_intro :
  (cis' <> [] /\ chs' <> []) \/ (o_skip_stats eo = false /\ messages_of cs = []) ->
  index_usable (sm_of info_opts true).
Proof.
  destruct info_fields as (F2 & F3 & F4 & _). intros [[U1 U2]|[U1 U2]].
  - left. split.
    + rewrite F4. intro E0. apply ci_sort_nil in E0. apply map_eq_nil in E0. exact (U1 E0).
    + rewrite F2. apply tab_of_nonempty. left. intro E0. apply map_eq_nil in E0. exact (U2 E0).
  - right. exists (statistics_norm (stats_record s)). split.
    + rewrite F3. unfold sts'. rewrite U1. reflexivity.
    + cbn [statistics_norm st_messages stats_record]. rewrite stats_messages, U2. reflexivity.
Qed.

(* ---------- the index-based read of the written file ---------- *)
Definition indexed_result (r : ropts) (sm : summ) : outcome readres :=
  let size := N.to_nat (fs_size (mem_file F)) in
  let '(mds, e) := if ro_md_cb r then md_callbacks (mem_file F) (sm_mxs sm) [] else ([], None) in
  match e with
  | Some e => Ok {| rr_mode := Some MIndexed; rr_msgs := []; rr_mds := mds; rr_end := e; rr_slots := (O, O) |}
  | None =>
    bind (indexed_all dall (S size + S size) (S size) r sm (mem_file F)
            {| i_cis := sm_cis sm; i_queue := []; i_slots := []; i_reccap := 0; i_allocs := [] |} [] (O, O))
         (fun '(ms, e, st) =>
            Ok {| rr_mode := Some MIndexed; rr_msgs := ms; rr_mds := mds; rr_end := e; rr_slots := st |})
  end.

Lemma read_indexed_unfold os r : o_skip_magic eo = false ->
  messages_dispatch ds (mem_file F) os = Ok (MIndexed, r) ->
  read_messages ds dall (mem_file F) os = bind (parse_header hb) (fun _ => indexed_result r (sm_of r false)).
Proof.
  intros Hm Hd. unfold read_messages. rewrite Hd, (parse_summary_written r false).
  assert (EF : F = render (IMagic :: IRec OpHeader hb :: recs ++ [IMagic])).
  { rewrite run_file_is_trace, (tr_data_file Hm). reflexivity. }
  destruct (new_reader_ok ds hb (recs ++ [IMagic]) true hb_small) as (l0 & _ & E0).
  rewrite <- EF in E0. rewrite E0.
  destruct (parse_header hb) as [h0| | | |]; try reflexivity.
Qed.

Lemma md_part r : plain_ro r ->
  (if ro_md_cb r then md_callbacks (mem_file F) (sm_mxs (sm_of r false)) [] else ([], None))
  = ((if ro_md_cb r then (if o_skip_mdi eo then [] else map metadata_norm (metadata_of cs)) else []), None).
Proof.
  intro Hp. destruct (sm_fields r false (proj1 Hp) (fun ci => plain_time_ok r false ci Hp)) as (_ & _ & _ & _ & _ & Hmx & _).
  rewrite Hmx. unfold mxs'. destruct (ro_md_cb r); [|reflexivity].
  case (o_skip_mdi eo); [reflexivity|]. apply md_callbacks_written.
Qed.

Lemma cis'_cases :
  (o_chunked eo = true /\ cis' = w_chunk_indexes s) \/ cis' = [].
Proof.
  unfold cis'. case (o_skip_ci eo); [right; reflexivity|].
  case_eq (o_chunked eo); intro Hch; [left; auto|right].
  rewrite cis_w_eq, (unchunked_no_chunks Hch). reflexivity.
Qed.

Lemma fuel_bounds : o_chunked eo = true ->
  forall As, concat As = auto_recs cs ->
  Forall2 (fun ck Ak => chunk_decodes ds dall (snd (fst ck)) (map apair Ak)) CK As ->
  (length CK + length (messages_of cs) + 3 <= N.to_nat (fs_size (mem_file F)))%nat.
Proof.
  intros Hch As HA1 HA2. pose proof (typed_fuel As HA1 HA2) as H1.
  unfold e2e_fuel in Hfuel. fold s tr F in Hfuel. rewrite shape_tr, pre_eq in Hfuel.
  rewrite !file_steps_app in Hfuel.
  change (file_steps scan_lopts ds (IRec OpDataEnd de :: rest)) with (1 + file_steps scan_lopts ds rest)%nat in Hfuel.
  unfold rest in Hfuel. rewrite !file_steps_app in Hfuel. cbn [file_steps fold_right item_steps] in Hfuel.
  unfold fs_size, mem_file. cbn [fs_data]. lia.
Qed.

Lemma indexed_read os r ri : o_skip_magic eo = false ->
  messages_dispatch ds (mem_file F) os = Ok (MIndexed, r) -> plain_ro r ->
  read_messages ds dall (mem_file F) os = Ok ri ->
  let sm := sm_of r false in
  rr_mode ri = Some MIndexed /\
  rr_mds ri = (if ro_md_cb r then (if o_skip_mdi eo then [] else map metadata_norm (metadata_of cs)) else []) /\
  (rr_end ri = EEOF ->
     exists outm, Permutation outm (filter (msel (sm_channels sm) r) (messages_of cs)) /\
       (ro_order r = FileOrder -> outm = filter (msel (sm_channels sm) r) (messages_of cs)) /\
       Forall2 (fun t m => tr_opt sm m = Some t) (rr_msgs ri) outm) /\
  ((forall m, In m (messages_of cs) -> tr_opt sm m <> None) -> rr_end ri = EEOF).
Proof.
  intros Hm Hd Hp Hr sm. rewrite (read_indexed_unfold os r Hm Hd) in Hr.
  destruct (parse_header hb) as [h0| | | |]; cbn [bind] in Hr; try discriminate.
  unfold indexed_result in Hr. rewrite (md_part r Hp) in Hr. cbv zeta in Hr. fold sm in Hr.
  destruct (sm_fields r false (proj1 Hp) (fun ci => plain_time_ok r false ci Hp)) as (_ & _ & _ & Hcis & _).
  fold sm in Hcis.
  change {| i_cis := sm_cis sm; i_queue := []; i_slots := []; i_reccap := 0; i_allocs := [] |}
    with (i_init r (map chunkindex_norm cis')) in Hr || (rewrite Hcis in Hr; fold (i_init r (map chunkindex_norm cis')) in Hr).
  destruct cis'_cases as [[Hch Ec]|Ec].
  - destruct (chunks_typed Hch) as (As & HA1 & HA2).
    rewrite Ec, <- (cisN_eq As HA2) in Hr.
    set (size := N.to_nat (fs_size (mem_file F))) in *.
    pose proof (fuel_bounds Hch As HA1 HA2) as Hfb. fold size in Hfb.
    destruct (indexed_all dall (S size + S size) (S size) r sm (mem_file F) _ [] (O, O)) as [[[ms e] st]| | | |] eqn:Ei;
      cbn [bind] in Hr; try discriminate.
    injection Hr as <-. cbn [rr_mode rr_mds rr_end rr_msgs].
    split; [reflexivity|]. split; [reflexivity|]. split.
    + intros ->. exact (indexed_typed_backward As HA1 HA2 r sm _ _ ms st Ei).
    + intro Hall.
      destruct (indexed_typed_forward As HA1 HA2 r sm (S size + S size) (S size)) as (ms' & st' & Ei'); [lia|lia|exact Hall|].
      rewrite Ei' in Ei. injection Ei as _ <- _. reflexivity.
  - rewrite Ec in Hr. cbn [map] in Hr. cbn [Nat.add] in Hr. rewrite indexed_all_nil in Hr. cbn [bind] in Hr.
    injection Hr as <-. cbn [rr_mode rr_mds rr_end rr_msgs].
    split; [reflexivity|]. split; [reflexivity|]. split; [|reflexivity].
    intros _. exists [].
    destruct (C02_dispatch_thm ds (mem_file F) os) as (D1 & _).
    destruct (D1 r Hd) as (r0 & sm0 & _ & _ & _ & Hi & Hu). rewrite info_written in Hi. injection Hi as <-.
    destruct (usable_cases Hu) as [[U1 _]|U]; [contradiction|]. rewrite U. cbn [filter].
    split; [constructor|]. split; [reflexivity|constructor].
Qed.


(* ---------- a file written without the leading magic cannot be opened ---------- *)
Lemma read_skip_magic os : o_skip_magic eo = true -> read_messages ds dall (mem_file F) os = Err EBadMagic.
Proof.
  intro Hm. unfold read_messages, new_reader. rewrite fs_stream_0.
  assert (EF : exists t, F = x01 :: t).
  { rewrite run_file_is_trace, shape_tr, pre_eq, Hm. cbn [app]. rewrite render_cons. cbn [render_item].
    unfold frame, frame_head. cbn [app]. eexists. reflexivity. }
  destruct EF as (t & ->).
  unfold new_lexer. change (lo_skip_magic reader_lopts) with false. cbv iota.
  unfold rd_full. change (8 =? 0) with false. cbv iota. cbn [rd r_buf r_end r_seek].
  destruct (8 <=? blen (x01 :: t)) eqn:E8.
  - unfold take. apply N.leb_le in E8. rewrite N.min_l by exact E8. change (N.to_nat 8) with 8%nat.
    cbn [firstn bytes_eqb magic]. change (Byte.eqb x01 x89) with false. cbn [andb bind]. reflexivity.
  - cbn [bind]. reflexivity.
Qed.


(* ---------- the default read (index if usable, else scan) ---------- *)
Lemma dispatch_cases os r0 : apply_opts os default_ropts = Ok r0 -> ro_use_index r0 = true ->
  (index_usable (sm_of info_opts true) /\ messages_dispatch ds (mem_file F) os = Ok (MIndexed, finalize r0)) \/
  (~ index_usable (sm_of info_opts true) /\
   messages_dispatch ds (mem_file F) os = match ro_order r0 with FileOrder => Ok (MScan, finalize r0) | _ => Err EOther end).
Proof.
  intros Ha Hu. destruct (C02_dispatch_thm ds (mem_file F) os) as (_ & D2 & D3 & _).
  destruct (can_use_index (sm_of info_opts true)) eqn:Ec.
  - left. apply can_use_index_iff in Ec. split; [exact Ec|]. exact (D2 r0 _ Ha Hu info_written Ec).
  - right. assert (Hn : ~ index_usable (sm_of info_opts true)).
    { intro H. apply can_use_index_iff in H. congruence. }
    split; [exact Hn|]. exact (D3 r0 _ Ha Hu info_written Hn).
Qed.

Lemma indexed_msgs os r ri : o_skip_magic eo = false ->
  messages_dispatch ds (mem_file F) os = Ok (MIndexed, r) -> plain_ro r ->
  read_messages ds dall (mem_file F) os = Ok ri -> rr_end ri = EEOF ->
  exists outm, Permutation outm (messages_of cs) /\ (ro_order r = FileOrder -> outm = messages_of cs) /\
    Forall2 (fun t m => triple_of L_all m = Some t) (rr_msgs ri) outm.
Proof.
  intros Hm Hd Hp Hr He.
  destruct (indexed_read os r ri Hm Hd Hp Hr) as (_ & _ & H3 & _). destruct (H3 He) as (outm & P1 & P2 & P3).
  destruct (sm_fields r false (proj1 Hp) (fun ci => plain_time_ok r false ci Hp)) as (Fs & Fc & _).
  destruct (C02_dispatch_thm ds (mem_file F) os) as (D1 & _).
  destruct (D1 r Hd) as (r0 & sm0 & _ & _ & _ & Hi & Hu). rewrite info_written in Hi. injection Hi as <-.
  destruct (usable_cases Hu) as [[_ U2]|U].
  - assert (Hk : o_skip_rch eo = false).
    { revert U2. unfold chs'. case (o_skip_rch eo); [intro H; exfalso; apply H; reflexivity|reflexivity]. }
    assert (Hall : filter (msel (sm_channels (sm_of r false)) r) (messages_of cs) = messages_of cs).
    { apply filter_all_true. intros m Hin. exact (msel_all _ r m Fc Hk Hp Hin). }
    rewrite Hall in P1, P2. exists outm. split; [exact P1|]. split; [exact P2|].
    eapply Forall2_impl'; [|exact P3]. intros t m Ht. exact (tr_opt_triple _ m t Fc Fs Hk Ht).
  - rewrite U in P1, P2. cbn [filter] in P1, P2. apply Permutation_sym, Permutation_nil in P1. subst outm.
    inversion P3; subst. exists []. rewrite U. split; [constructor|]. split; [reflexivity|constructor].
Qed.

Lemma default_read_msgs os r0 ri : o_skip_magic eo = false ->
  apply_opts os default_ropts = Ok r0 -> ro_use_index r0 = true -> plain_ro (finalize r0) ->
  read_messages ds dall (mem_file F) os = Ok ri -> rr_end ri = EEOF ->
  exists outm, Permutation outm (messages_of cs) /\ (ro_order r0 = FileOrder -> outm = messages_of cs) /\
    Forall2 (fun t m => triple_of L_all m = Some t) (rr_msgs ri) outm.
Proof.
  intros Hm Ha Hu Hp Hr He. destruct (dispatch_cases os r0 Ha Hu) as [[_ Hd]|[_ Hd]].
  - rewrite <- (finalize_order r0). exact (indexed_msgs os _ ri Hm Hd Hp Hr He).
  - destruct (ro_order r0) eqn:Eo.
    + destruct (scan_read os _ ri Hm Hd Hp Hr) as (_ & _ & H3 & _).
      exists (messages_of cs). split; [apply Permutation_refl|]. split; [reflexivity|exact H3].
    + destruct (read_dispatch_err _ _ _ _ _ _ Hd Hr) as [H1 _]. congruence.
    + destruct (read_dispatch_err _ _ _ _ _ _ Hd Hr) as [H1 _]. congruence.
Qed.

Lemma noindex_read b rs : o_skip_magic eo = false ->
  read_messages ds dall (mem_file F) (pre_md b ++ [OUsingIndex false]) = Ok rs ->
  rr_mode rs = Some MScan /\ rr_end rs = EEOF /\
  Forall2 (fun t m => triple_of L_all m = Some t) (rr_msgs rs) (messages_of cs) /\
  rr_mds rs = (if b then map metadata_norm (metadata_of cs) else []).
Proof.
  intros Hm Hr.
  assert (Hd : messages_dispatch ds (mem_file F) (pre_md b ++ [OUsingIndex false])
               = Ok (MScan, finalize (r_md b <| ro_use_index := false |>))).
  { apply C02_dispatch_no_index_thm; [apply apply_pre_md|destruct b; reflexivity]. }
  destruct (scan_read _ _ rs Hm Hd (plain_r_md_noindex b) Hr) as (H1 & H2 & H3 & H4).
  rewrite md_cb_noindex in H4. auto.
Qed.

(* index enabled, and statistics or a channel: the index is usable *)
Lemma enabled_usable : index_enabled eo ->
  o_skip_stats eo = false \/ (exists c, In (CChannel c) cs) -> index_usable (sm_of info_opts true).
Proof.
  intros (E1 & E2 & E3 & E4) Hx.
  destruct (channel_calls cs) as [|c0 l0] eqn:Ecc.
  - assert (Hnm : messages_of cs = []).
    { destruct (messages_of cs) as [|m l] eqn:Em; [reflexivity|].
      assert (Hin : In m (messages_of cs)) by (rewrite Em; left; reflexivity).
      destruct (msg_chan_declared m Hin) as (c & _ & Hcin). apply in_channel_calls in Hcin. rewrite Ecc in Hcin. destruct Hcin. }
    destruct Hx as [Hx|(c & Hc)].
    + apply usable_intro. right. auto.
    + apply in_channel_calls in Hc. rewrite Ecc in Hc. destruct Hc.
  - assert (Hc : In (CChannel c0) cs) by (apply in_channel_calls; rewrite Ecc; left; reflexivity).
    apply usable_intro. left. split.
    + unfold cis'. rewrite E2. rewrite cis_w_eq. intro E0. apply map_eq_nil in E0.
      destruct (chunks_typed E1) as (As & HA1 & HA2). rewrite E0 in HA2. inversion HA2; subst.
      cbn [concat] in HA1. apply in_auto_recs_channel in Hc. rewrite <- HA1 in Hc. destruct Hc.
    + unfold chs'. rewrite E3. destruct run_tables as (_ & T2 & _). rewrite T2. intro E0. apply map_eq_nil in E0.
      revert E0. apply fw_fold_nonempty. left. rewrite Ecc. discriminate.
Qed.


(* ---------- the four parts of the statement ---------- *)
Lemma magic_cases os r : read_messages ds dall (mem_file F) os = Ok r -> o_skip_magic eo = false.
Proof.
  intro H. destruct (o_skip_magic eo) eqn:Hm; [|reflexivity]. rewrite (read_skip_magic os Hm) in H. discriminate.
Qed.

Lemma part_a b ri rs :
  read_messages ds dall (mem_file F) (pre_md b) = Ok ri ->
  read_messages ds dall (mem_file F) (pre_md b ++ [OUsingIndex false]) = Ok rs ->
  rr_end rs = EEOF /\ (rr_end ri = EEOF -> rr_msgs ri = rr_msgs rs) /\
  (index_enabled eo -> o_skip_stats o = false \/ (exists c, In (CChannel c) cs) ->
   rr_mode ri = Some MIndexed /\ rr_end ri = EEOF).
Proof.
  intros Hri Hrs. pose proof (magic_cases _ _ Hri) as Hm.
  destruct (noindex_read b rs Hm Hrs) as (_ & S2 & S3 & _).
  assert (Hp : plain_ro (finalize (r_md b))) by (rewrite finalize_r_md; apply plain_r_md).
  assert (Hu : ro_use_index (r_md b) = true) by (destruct b; reflexivity).
  split; [exact S2|]. split.
  - intro He. destruct (default_read_msgs _ _ ri Hm (apply_pre_md b) Hu Hp Hri He) as (outm & _ & P2 & P3).
    rewrite (P2 ltac:(destruct b; reflexivity)) in P3. exact (Forall2_fun_eq _ _ _ _ P3 S3).
  - intros Hen Hx. destruct (eff_skips o) as (_ & _ & K3). fold eo in K3. rewrite <- K3 in Hx.
    pose proof (enabled_usable Hen Hx) as Hus.
    destruct (dispatch_cases _ _ (apply_pre_md b) Hu) as [[_ Hd]|[Hn _]]; [|contradiction].
    destruct (indexed_read _ _ ri Hm Hd Hp Hri) as (I1 & _ & _ & I4). split; [exact I1|]. apply I4.
    destruct (sm_fields (finalize (r_md b)) false (proj1 Hp) (fun ci => plain_time_ok _ false ci Hp)) as (Fs & Fc & _).
    destruct Hen as (_ & _ & E3 & E4). intros m Hin. exact (tr_opt_defined _ m Fc Fs E3 E4 Hin).
Qed.

Lemma part_b ord ri rs :
  read_messages ds dall (mem_file F) [OInOrder ord] = Ok ri ->
  read_messages ds dall (mem_file F) [OUsingIndex false] = Ok rs ->
  rr_end ri = EEOF -> Permutation (rr_msgs ri) (rr_msgs rs).
Proof.
  intros Hri Hrs He. pose proof (magic_cases _ _ Hri) as Hm.
  destruct (noindex_read false rs Hm Hrs) as (_ & _ & S3 & _).
  assert (Hp : plain_ro (finalize (r_ord ord))) by (rewrite finalize_r_ord; apply plain_r_ord).
  destruct (default_read_msgs _ _ ri Hm (apply_ord ord) eq_refl Hp Hri He) as (outm & P1 & _ & P3).
  exact (Forall2_fun_perm _ _ _ _ _ P3 S3 P1).
Qed.

Lemma part_c sm : info ds (mem_file F) = Ok sm ->
  (o_skip_ai o = false ->
     map (fun ai => get_attachment (mem_file F) (ai_offset ai)) (sm_ais sm)
     = map (fun ad => Ok (attach_obs_ra (fst ad) (snd ad) (crc32 (enc_attachment_fields (fst ad) ++ snd ad))))
           (attachments_of cs)) /\
  (o_skip_mdi o = false ->
     map (fun mx => get_metadata ds (mem_file F) (mx_offset mx)) (sm_mxs sm)
     = map (fun m => Ok (metadata_norm m)) (metadata_of cs)).
Proof.
  intro Hi. rewrite info_written in Hi. injection Hi as <-.
  destruct info_fields as (_ & _ & _ & F5 & F6). destruct (eff_skips o) as (K1 & K2 & _). fold eo in K1, K2.
  split; intro Hk.
  - rewrite F5. unfold ais'. rewrite K1, Hk. apply random_access_att.
  - rewrite F6. unfold mxs'. rewrite K2, Hk. apply random_access_md.
Qed.

Lemma part_d ri rs :
  read_messages ds dall (mem_file F) [OMetadataCb] = Ok ri ->
  read_messages ds dall (mem_file F) [OMetadataCb; OUsingIndex false] = Ok rs ->
  rr_mds rs = map metadata_norm (metadata_of cs) /\
  (rr_mode ri = Some MIndexed -> rr_end ri = EEOF ->
   rr_mds ri = if o_skip_mdi o then [] else map metadata_norm (metadata_of cs)).
Proof.
  intros Hri Hrs. pose proof (magic_cases _ _ Hri) as Hm.
  destruct (noindex_read true rs Hm Hrs) as (_ & _ & _ & S4). split; [exact S4|].
  intros Hmode _.
  assert (Hp : plain_ro (finalize (r_md true))) by (rewrite finalize_r_md; apply plain_r_md).
  destruct (eff_skips o) as (_ & K2 & _). fold eo in K2. rewrite <- K2.
  destruct (dispatch_cases _ _ (apply_pre_md true) eq_refl) as [[_ Hd]|[_ Hd]].
  - destruct (indexed_read _ _ ri Hm Hd Hp Hri) as (_ & I2 & _). exact I2.
  - cbn [r_md ro_order] in Hd. destruct (scan_read _ _ ri Hm Hd Hp Hri) as (H1 & _). congruence.
Qed.


(* ---------- Info and the dispatch, in terms of the writer's final state ---------- *)
Lemma info_of_written :
  exists sm, info ds (mem_file F) = Ok sm /\
    sm_ais sm = (if o_skip_ai o then [] else w_att_indexes s) /\
    sm_mxs sm = (if o_skip_mdi o then [] else w_md_indexes s) /\
    sm_cis sm = ci_sort FileOrder (map chunkindex_norm (if o_skip_ci o then [] else w_chunk_indexes s)) /\
    sm_stats sm = (if o_skip_stats o then None else Some (statistics_norm (stats_record s))) /\
    (forall id, tab_get id (sm_channels sm) = if o_skip_rch o then None else option_map channel_norm (call_chan cs id)) /\
    (forall id, tab_get id (sm_schemas sm) = if o_skip_rsh o then None else call_schema cs id) /\
    (index_usable sm <->
       ((if o_skip_ci o then [] else w_chunk_indexes s) <> [] /\ o_skip_rch o = false /\ channel_calls cs <> [])
       \/ (o_skip_stats o = false /\ messages_of cs = [])).
Proof.
  exists (sm_of info_opts true). split; [exact info_written|].
  destruct (sm_fields info_opts true eq_refl (fun ci => ci_time_ok_info info_opts ci)) as (F1 & F2 & F3 & F4 & F5 & F6 & _).
  destruct (eff_skips o) as (K1 & K2 & K3). destruct (eff_skips2 o) as (K4 & K5 & K6 & _). fold eo in K1, K2, K3, K4, K5, K6.
  split; [rewrite F5; unfold ais'; rewrite K1; reflexivity|].
  split; [rewrite F6; unfold mxs'; rewrite K2; reflexivity|].
  split; [rewrite F4; unfold cis'; rewrite K4; reflexivity|].
  split; [rewrite F3; unfold sts'; rewrite K3; case (o_skip_stats o); reflexivity|].
  split; [|split].
  - intro id. rewrite <- K5. case_eq (o_skip_rch eo); intro Hk.
    + rewrite F2. unfold chs'. rewrite Hk. reflexivity.
    + exact (sm_chan_lookup _ id F2 Hk).
  - intro id. rewrite <- K6. exact (sm_schema_lookup _ id F1).
  - rewrite <- K3, <- K4, <- K5. split.
    + intro Hu. destruct (can_use_index (sm_of info_opts true)) eqn:Ec; [|apply can_use_index_iff in Hu; congruence].
      clear Ec. destruct Hu as [[U1 U2]|(st & U1 & U2)].
      * left. rewrite F4 in U1. rewrite F2 in U2. split; [|split].
        -- intro E0. apply U1. unfold cis'. rewrite E0. reflexivity.
        -- revert U2. unfold chs'. case (o_skip_rch eo); [intro U2; exfalso; apply U2; reflexivity|reflexivity].
        -- intro E0. apply U2. unfold chs'. destruct run_tables as (_ & T2 & _). rewrite T2, E0.
           case (o_skip_rch eo); reflexivity.
      * right. rewrite F3 in U1. unfold sts' in U1. revert U1. case (o_skip_stats eo); [discriminate|].
        cbn [map last_or fold_left]. intro U1. injection U1 as <-. cbn [statistics_norm st_messages stats_record] in U2.
        rewrite stats_messages in U2. split; [reflexivity|]. destruct (messages_of cs); [reflexivity|cbn [length] in U2; lia].
    + intros [(U1 & U2 & U3)|[U1 U2]]; apply usable_intro.
      * left. split; [exact U1|]. unfold chs'. rewrite U2. destruct run_tables as (_ & T2 & _). rewrite T2.
        intro E0. apply map_eq_nil in E0. revert E0. apply fw_fold_nonempty. left. exact U3.
      * right. auto.
Qed.

Lemma dispatch_enabled os r0 :
  index_enabled eo -> o_skip_stats o = false \/ (exists c, In (CChannel c) cs) ->
  apply_opts os default_ropts = Ok r0 -> ro_use_index r0 = true ->
  messages_dispatch ds (mem_file F) os = Ok (MIndexed, finalize r0).
Proof.
  intros Hen Hx Ha Hu. destruct (eff_skips o) as (_ & _ & K3). fold eo in K3. rewrite <- K3 in Hx.
  pose proof (enabled_usable Hen Hx) as Hus.
  destruct (dispatch_cases os r0 Ha Hu) as [[_ Hd]|[Hn _]]; [exact Hd|contradiction].
Qed.

Lemma dispatch_fallback os r0 :
  o_chunked o = false \/ o_skip_ci o = true \/ o_skip_rch o = true -> messages_of cs <> [] ->
  apply_opts os default_ropts = Ok r0 -> ro_use_index r0 = true ->
  messages_dispatch ds (mem_file F) os =
    match ro_order r0 with FileOrder => Ok (MScan, finalize r0) | _ => Err EOther end.
Proof.
  intros Hx Hm Ha Hu. destruct (dispatch_cases os r0 Ha Hu) as [[Hus _]|[_ Hd]]; [exfalso|exact Hd].
  destruct (eff_skips2 o) as (K4 & K5 & _ & K7). fold eo in K4, K5, K7.
  destruct (usable_cases Hus) as [[U1 U2]|U]; [|contradiction].
  destruct Hx as [Hx|[Hx|Hx]].
  - apply U1. unfold cis'. case (o_skip_ci eo); [reflexivity|]. rewrite cis_w_eq, unchunked_no_chunks; [reflexivity|congruence].
  - apply U1. unfold cis'. rewrite K4, Hx. reflexivity.
  - apply U2. unfold chs'. rewrite K5, Hx. reflexivity.
Qed.

End WithShape.


Lemma e2e_parts :
  let f := mem_file F in
  (forall pre ri rs, pre = [] \/ pre = [OMetadataCb] ->
     read_messages ds dall f pre = Ok ri -> read_messages ds dall f (pre ++ [OUsingIndex false]) = Ok rs ->
     rr_end rs = EEOF /\
     (rr_end ri = EEOF -> rr_msgs ri = rr_msgs rs) /\
     (index_enabled (effective_opts o) -> o_skip_stats o = false \/ (exists c, In (CChannel c) cs) ->
      rr_mode ri = Some MIndexed /\ rr_end ri = EEOF)) /\
  (forall ord ri rs,
     read_messages ds dall f [OInOrder ord] = Ok ri -> read_messages ds dall f [OUsingIndex false] = Ok rs ->
     rr_end ri = EEOF -> Permutation (rr_msgs ri) (rr_msgs rs)) /\
  (forall sm, info ds f = Ok sm ->
     (o_skip_ai o = false ->
        map (fun ai => get_attachment f (ai_offset ai)) (sm_ais sm)
        = map (fun ad => Ok (attach_obs_ra (fst ad) (snd ad) (crc32 (enc_attachment_fields (fst ad) ++ snd ad))))
              (attachments_of cs)) /\
     (o_skip_mdi o = false ->
        map (fun mx => get_metadata ds f (mx_offset mx)) (sm_mxs sm)
        = map (fun m => Ok (metadata_norm m)) (metadata_of cs))) /\
  (forall ri rs,
     read_messages ds dall f [OMetadataCb] = Ok ri -> read_messages ds dall f [OMetadataCb; OUsingIndex false] = Ok rs ->
     rr_mds rs = map metadata_norm (metadata_of cs) /\
     (rr_mode ri = Some MIndexed -> rr_end ri = EEOF ->
        rr_mds ri = if o_skip_mdi o then [] else map metadata_norm (metadata_of cs))).
Proof.
  cbv zeta. destruct run_shape as (D & de & ss & sos & crc & HS).
  split; [|split; [|split]].
  - intros pre0 ri rs [-> | ->] H1 H2.
    + exact (part_a D de ss sos crc HS false ri rs H1 H2).
    + exact (part_a D de ss sos crc HS true ri rs H1 H2).
  - intros ord ri rs. exact (part_b D de ss sos crc HS ord ri rs).
  - intros sm. exact (part_c D de ss sos crc HS sm).
  - intros ri rs. exact (part_d D de ss sos crc HS ri rs).
Qed.


Lemma e2e_info_run :
  exists sm, info ds (mem_file F) = Ok sm /\
    sm_ais sm = (if o_skip_ai o then [] else w_att_indexes s) /\
    sm_mxs sm = (if o_skip_mdi o then [] else w_md_indexes s) /\
    sm_cis sm = ci_sort FileOrder (map chunkindex_norm (if o_skip_ci o then [] else w_chunk_indexes s)) /\
    sm_stats sm = (if o_skip_stats o then None else Some (statistics_norm (stats_record s))) /\
    (forall id, tab_get id (sm_channels sm) = if o_skip_rch o then None else option_map channel_norm (call_chan cs id)) /\
    (forall id, tab_get id (sm_schemas sm) = if o_skip_rsh o then None else call_schema cs id) /\
    (index_usable sm <->
       ((if o_skip_ci o then [] else w_chunk_indexes s) <> [] /\ o_skip_rch o = false /\ channel_calls cs <> [])
       \/ (o_skip_stats o = false /\ messages_of cs = [])).
Proof. destruct run_shape as (D & de & ss & sos & crc & HS). exact (info_of_written D de ss sos crc HS). Qed.

Lemma e2e_dispatch_run :
  (forall os r0, index_enabled (effective_opts o) -> o_skip_stats o = false \/ (exists c, In (CChannel c) cs) ->
     apply_opts os default_ropts = Ok r0 -> ro_use_index r0 = true ->
     messages_dispatch ds (mem_file F) os = Ok (MIndexed, finalize r0)) /\
  (forall os r0, o_chunked o = false \/ o_skip_ci o = true \/ o_skip_rch o = true -> messages_of cs <> [] ->
     apply_opts os default_ropts = Ok r0 -> ro_use_index r0 = true ->
     messages_dispatch ds (mem_file F) os =
       match ro_order r0 with FileOrder => Ok (MScan, finalize r0) | _ => Err EOther end).
Proof.
  destruct run_shape as (D & de & ss & sos & crc & HS). split.
  - intros os r0. exact (dispatch_enabled D de ss sos crc HS os r0).
  - intros os r0. exact (dispatch_fallback D de ss sos crc HS os r0).
Qed.

Lemma fuel_uncompressed_run : (o_chunked o = true -> o_comp o = []) -> e2e_fuel ds w.
Proof.
  intro Hu. destruct run_shape as (D & de & ss & sos & crc & HS). apply (fuel_uncompressed D de ss sos crc HS).
  rewrite chunked_eff, comp_eff. exact Hu.
Qed.

End Run.

(* ====================================================================================== *)
(** * 6. the end-to-end statement *)

Definition C02_e2e_statement : Prop :=
  forall (ds : doracle) (dall : dalloracle) (o : wopts) (lib : bytes) (compress : nat -> bytes -> bytes)
         (hd : header) (cs : list wcall),
  codec_ok ds dall (o_comp o) compress -> comp_ok o compress ->
  Forall call_wf cs -> Forall call_small cs -> no_header cs -> ids_consistent cs ->
  let w := W o lib compress None (CHeader hd :: cs ++ [CClose]) in
  all_ok w -> blen (file_of w) < two63 -> e2e_bounds w -> e2e_fuel ds w ->
  let f := mem_file (file_of w) in
  (forall pre ri rs, pre = [] \/ pre = [OMetadataCb] ->
     read_messages ds dall f pre = Ok ri -> read_messages ds dall f (pre ++ [OUsingIndex false]) = Ok rs ->
     rr_end rs = EEOF /\
     (rr_end ri = EEOF -> rr_msgs ri = rr_msgs rs) /\
     (index_enabled (effective_opts o) -> o_skip_stats o = false \/ (exists c, In (CChannel c) cs) ->
      rr_mode ri = Some MIndexed /\ rr_end ri = EEOF)) /\
  (forall ord ri rs,
     read_messages ds dall f [OInOrder ord] = Ok ri -> read_messages ds dall f [OUsingIndex false] = Ok rs ->
     rr_end ri = EEOF -> Permutation (rr_msgs ri) (rr_msgs rs)) /\
  (forall sm, info ds f = Ok sm ->
     (o_skip_ai o = false ->
        map (fun ai => get_attachment f (ai_offset ai)) (sm_ais sm)
        = map (fun ad => Ok (attach_obs_ra (fst ad) (snd ad) (crc32 (enc_attachment_fields (fst ad) ++ snd ad))))
              (attachments_of cs)) /\
     (o_skip_mdi o = false ->
        map (fun mx => get_metadata ds f (mx_offset mx)) (sm_mxs sm)
        = map (fun m => Ok (metadata_norm m)) (metadata_of cs))) /\
  (forall ri rs,
     read_messages ds dall f [OMetadataCb] = Ok ri -> read_messages ds dall f [OMetadataCb; OUsingIndex false] = Ok rs ->
     rr_mds rs = map metadata_norm (metadata_of cs) /\
     (rr_mode ri = Some MIndexed -> rr_end ri = EEOF ->
        rr_mds ri = if o_skip_mdi o then [] else map metadata_norm (metadata_of cs))).

Theorem C02_e2e_thm : C02_e2e_statement.
Proof.
  intros ds dall o lib compress hd cs Hcodec Hcomp Hwf Hsmall Hnh Hcons w Hok Hsize Hbounds Hfuel.
  exact (e2e_parts ds dall o lib compress hd cs Hwf Hnh Hok Hcodec Hcomp Hsmall Hcons Hsize Hbounds Hfuel).
Qed.

(* ---------- the hypotheses as one bundle, and the parts as separate theorems ---------- *)
Definition e2e_hyps (ds : doracle) (dall : dalloracle) (o : wopts) (lib : bytes) (compress : nat -> bytes -> bytes)
  (hd : header) (cs : list wcall) : Prop :=
  codec_ok ds dall (o_comp o) compress /\ comp_ok o compress /\
  Forall call_wf cs /\ Forall call_small cs /\ no_header cs /\ ids_consistent cs /\
  all_ok (W o lib compress None (CHeader hd :: cs ++ [CClose])) /\
  blen (file_of (W o lib compress None (CHeader hd :: cs ++ [CClose]))) < two63 /\
  e2e_bounds (W o lib compress None (CHeader hd :: cs ++ [CClose])) /\
  e2e_fuel ds (W o lib compress None (CHeader hd :: cs ++ [CClose])).

Theorem C02_e2e_fuel_uncompressed_thm ds dall o lib compress hd cs :
  codec_ok ds dall (o_comp o) compress -> comp_ok o compress ->
  Forall call_wf cs -> Forall call_small cs -> no_header cs ->
  let w := W o lib compress None (CHeader hd :: cs ++ [CClose]) in
  all_ok w -> blen (file_of w) < two63 -> e2e_bounds w ->
  (o_chunked o = true -> o_comp o = []) -> e2e_fuel ds w.
Proof.
  intros Hcodec Hcomp Hwf Hsmall Hnh w Hok Hsize Hbounds Hu.
  exact (fuel_uncompressed_run ds dall o lib compress hd cs Hwf Hnh Hok Hcodec Hcomp Hsmall Hsize Hbounds Hu).
Qed.

Theorem C02_e2e_info_thm ds dall o lib compress hd cs : e2e_hyps ds dall o lib compress hd cs ->
  let w := W o lib compress None (CHeader hd :: cs ++ [CClose]) in
  let s := r_final w in
  exists sm, info ds (mem_file (file_of w)) = Ok sm /\
    sm_ais sm = (if o_skip_ai o then [] else w_att_indexes s) /\
    sm_mxs sm = (if o_skip_mdi o then [] else w_md_indexes s) /\
    sm_cis sm = ci_sort FileOrder (map chunkindex_norm (if o_skip_ci o then [] else w_chunk_indexes s)) /\
    sm_stats sm = (if o_skip_stats o then None else Some (statistics_norm (stats_record s))) /\
    (forall id, tab_get id (sm_channels sm) = if o_skip_rch o then None else option_map channel_norm (call_chan cs id)) /\
    (forall id, tab_get id (sm_schemas sm) = if o_skip_rsh o then None else call_schema cs id) /\
    (index_usable sm <->
       ((if o_skip_ci o then [] else w_chunk_indexes s) <> [] /\ o_skip_rch o = false /\ channel_calls cs <> [])
       \/ (o_skip_stats o = false /\ messages_of cs = [])).
Proof.
  intros (Hcodec & Hcomp & Hwf & Hsmall & Hnh & Hcons & Hok & Hsize & Hbounds & Hfuel).
  exact (e2e_info_run ds dall o lib compress hd cs Hwf Hnh Hok Hcodec Hcomp Hsmall Hsize Hbounds).
Qed.

Theorem C02_e2e_dispatch_thm ds dall o lib compress hd cs : e2e_hyps ds dall o lib compress hd cs ->
  let f := mem_file (file_of (W o lib compress None (CHeader hd :: cs ++ [CClose]))) in
  (forall os r0, index_enabled (effective_opts o) -> o_skip_stats o = false \/ (exists c, In (CChannel c) cs) ->
     apply_opts os default_ropts = Ok r0 -> ro_use_index r0 = true ->
     messages_dispatch ds f os = Ok (MIndexed, finalize r0)) /\
  (forall os r0, o_chunked o = false \/ o_skip_ci o = true \/ o_skip_rch o = true -> messages_of cs <> [] ->
     apply_opts os default_ropts = Ok r0 -> ro_use_index r0 = true ->
     messages_dispatch ds f os =
       match ro_order r0 with FileOrder => Ok (MScan, finalize r0) | _ => Err EOther end).
Proof.
  intros (Hcodec & Hcomp & Hwf & Hsmall & Hnh & Hcons & Hok & Hsize & Hbounds & Hfuel).
  exact (e2e_dispatch_run ds dall o lib compress hd cs Hwf Hnh Hok Hcodec Hcomp Hsmall Hsize Hbounds).
Qed.

Theorem C02_e2e_file_order_thm ds dall o lib compress hd cs : e2e_hyps ds dall o lib compress hd cs ->
  let f := mem_file (file_of (W o lib compress None (CHeader hd :: cs ++ [CClose]))) in
  forall pre ri rs, pre = [] \/ pre = [OMetadataCb] ->
    read_messages ds dall f pre = Ok ri -> read_messages ds dall f (pre ++ [OUsingIndex false]) = Ok rs ->
    rr_end rs = EEOF /\
    (rr_end ri = EEOF -> rr_msgs ri = rr_msgs rs) /\
    (index_enabled (effective_opts o) -> o_skip_stats o = false \/ (exists c, In (CChannel c) cs) ->
     rr_mode ri = Some MIndexed /\ rr_end ri = EEOF).
Proof.
  intros (Hcodec & Hcomp & Hwf & Hsmall & Hnh & Hcons & Hok & Hsize & Hbounds & Hfuel).
  exact (proj1 (C02_e2e_thm ds dall o lib compress hd cs Hcodec Hcomp Hwf Hsmall Hnh Hcons Hok Hsize Hbounds Hfuel)).
Qed.

Theorem C02_e2e_time_orders_thm ds dall o lib compress hd cs : e2e_hyps ds dall o lib compress hd cs ->
  let f := mem_file (file_of (W o lib compress None (CHeader hd :: cs ++ [CClose]))) in
  forall ord ri rs,
    read_messages ds dall f [OInOrder ord] = Ok ri -> read_messages ds dall f [OUsingIndex false] = Ok rs ->
    rr_end ri = EEOF -> Permutation (rr_msgs ri) (rr_msgs rs).
Proof.
  intros (Hcodec & Hcomp & Hwf & Hsmall & Hnh & Hcons & Hok & Hsize & Hbounds & Hfuel).
  exact (proj1 (proj2 (C02_e2e_thm ds dall o lib compress hd cs Hcodec Hcomp Hwf Hsmall Hnh Hcons Hok Hsize Hbounds Hfuel))).
Qed.

Theorem C02_e2e_random_access_thm ds dall o lib compress hd cs : e2e_hyps ds dall o lib compress hd cs ->
  let f := mem_file (file_of (W o lib compress None (CHeader hd :: cs ++ [CClose]))) in
  forall sm, info ds f = Ok sm ->
    (o_skip_ai o = false ->
       map (fun ai => get_attachment f (ai_offset ai)) (sm_ais sm)
       = map (fun ad => Ok (attach_obs_ra (fst ad) (snd ad) (crc32 (enc_attachment_fields (fst ad) ++ snd ad))))
             (attachments_of cs)) /\
    (o_skip_mdi o = false ->
       map (fun mx => get_metadata ds f (mx_offset mx)) (sm_mxs sm)
       = map (fun m => Ok (metadata_norm m)) (metadata_of cs)).
Proof.
  intros (Hcodec & Hcomp & Hwf & Hsmall & Hnh & Hcons & Hok & Hsize & Hbounds & Hfuel).
  exact (proj1 (proj2 (proj2 (C02_e2e_thm ds dall o lib compress hd cs Hcodec Hcomp Hwf Hsmall Hnh Hcons Hok Hsize Hbounds Hfuel)))).
Qed.

Theorem C02_e2e_callbacks_thm ds dall o lib compress hd cs : e2e_hyps ds dall o lib compress hd cs ->
  let f := mem_file (file_of (W o lib compress None (CHeader hd :: cs ++ [CClose]))) in
  forall ri rs,
    read_messages ds dall f [OMetadataCb] = Ok ri -> read_messages ds dall f [OMetadataCb; OUsingIndex false] = Ok rs ->
    rr_mds rs = map metadata_norm (metadata_of cs) /\
    (rr_mode ri = Some MIndexed -> rr_end ri = EEOF ->
       rr_mds ri = if o_skip_mdi o then [] else map metadata_norm (metadata_of cs)).
Proof.
  intros (Hcodec & Hcomp & Hwf & Hsmall & Hnh & Hcons & Hok & Hsize & Hbounds & Hfuel).
  exact (proj2 (proj2 (proj2 (C02_e2e_thm ds dall o lib compress hd cs Hcodec Hcomp Hwf Hsmall Hnh Hcons Hok Hsize Hbounds Hfuel)))).
Qed.

(* ====================================================================================== *)
(** * 7. the statement of properties/C02.v is false of the model: three counterexamples *)

Definition ce_hd : header := {| h_profile := []; h_library := [] |}.
Definition ce_id (n : nat) (b : bytes) : bytes := b.
Definition ce_dall : dalloracle := fun _ payload _ => Some payload.
Definition ce_view (r : outcome readres) : option (option mode * nat * err) :=
  match r with Ok r => Some (rr_mode r, length (rr_msgs r), rr_end r) | _ => None end.
Definition ce_dummy : readres := {| rr_mode := None; rr_msgs := []; rr_mds := []; rr_end := EOther; rr_slots := (O, O) |}.
Definition ce_get (r : outcome readres) : readres := match r with Ok r => r | _ => ce_dummy end.

Lemma ce_codec_id comp : codec_ok ds_id ce_dall comp ce_id.
Proof. intros i b. split; reflexivity. Qed.

(* 1. index enabled, statistics skipped, no channel written: the summary lacks what the index-based read
   needs and the reader falls back to the scan, so "index enabled -> MIndexed" fails *)
Definition ce1_o : wopts :=
  {| o_crc := true; o_chunked := true; o_chunksize := 1000; o_comp := []; o_custom := false;
     o_skip_mi := false; o_skip_stats := true; o_skip_rsh := false; o_skip_rch := false;
     o_skip_ai := false; o_skip_mdi := false; o_skip_ci := false; o_skip_so := false;
     o_override_lib := false; o_skip_magic := false |}.
Definition ce1_file : fsrc := mem_file (file_of (W ce1_o [x6c] ce_id None (CHeader ce_hd :: [] ++ [CClose]))).
Definition ce1_ri : readres := ce_get (read_messages ds_id ce_dall ce1_file []).
Definition ce1_rs : readres := ce_get (read_messages ds_id ce_dall ce1_file ([] ++ [OUsingIndex false])).

Lemma ce1_reads :
  read_messages ds_id ce_dall ce1_file [] = Ok ce1_ri /\
  read_messages ds_id ce_dall ce1_file ([] ++ [OUsingIndex false]) = Ok ce1_rs /\
  rr_mode ce1_ri = Some MScan.
Proof. split; [vm_compute; reflexivity|]. split; vm_compute; reflexivity. Qed.

Theorem C02_full_statement_false_thm : ~ C02_full_statement.
Proof.
  intro H.
  assert (Hok : all_ok (W ce1_o [x6c] ce_id None (CHeader ce_hd :: [] ++ [CClose]))).
  { split; [vm_compute; reflexivity|]. vm_compute. repeat constructor. }
  assert (Hsz : blen (file_of (W ce1_o [x6c] ce_id None (CHeader ce_hd :: [] ++ [CClose]))) < two63) by (vm_compute; reflexivity).
  assert (Hc : ids_consistent []) by (split; intros ? ? []).
  destruct (H ds_id ce_dall ce1_o [x6c] ce_id ce_hd [] (ce_codec_id _) (Forall_nil _) Hc Hok Hsz) as (A & _).
  destruct ce1_reads as (R1 & R2 & R3).
  destruct (A [] ce1_ri ce1_rs (or_introl eq_refl) R1 R2) as (_ & _ & A3).
  assert (Hen : index_enabled (effective_opts ce1_o)) by (repeat split).
  destruct (A3 Hen) as [A4 _]. rewrite R3 in A4. discriminate.
Qed.

(* 2. a caller-supplied compressor with a compression name the reader does not know: the scan
   (and the index-based read) end with an error, so "the scan ends with io.EOF" fails *)
Definition ce2_o : wopts :=
  {| o_crc := true; o_chunked := true; o_chunksize := 1000; o_comp := [x66]; o_custom := true;
     o_skip_mi := false; o_skip_stats := false; o_skip_rsh := false; o_skip_rch := false;
     o_skip_ai := false; o_skip_mdi := false; o_skip_ci := false; o_skip_so := false;
     o_override_lib := false; o_skip_magic := false |}.
Definition ce2_cs : list wcall := [CSchema x2_schema; CChannel x2_chan; CMessage x2_m1].
Definition ce2_w : wresult := W ce2_o [x6c] ce_id None (CHeader ce_hd :: ce2_cs ++ [CClose]).

Example ce2_unknown_compression :
  codec_ok ds_id ce_dall (o_comp ce2_o) ce_id /\
  r_new ce2_w = None /\ map fst (r_calls ce2_w) = [None; None; None; None; None] /\
  ce_view (read_messages ds_id ce_dall (mem_file (file_of ce2_w)) []) = Some (Some MIndexed, O, EOther) /\
  ce_view (read_messages ds_id ce_dall (mem_file (file_of ce2_w)) [OUsingIndex false]) = Some (Some MScan, O, EOther).
Proof. split; [apply ce_codec_id|]. vm_compute. repeat split. Qed.

(* 3. compression name "" with a compressor that is not the identity (the Go writer has no compressor
   when the name is empty; the model takes the compressor as an independent parameter): both readers take
   the stored bytes as they are *)
Definition ce3_comp (n : nat) (b : bytes) : bytes := xff :: b.
Definition ce3_ds : doracle := fun _ avail pend => (tl avail, pend).
Definition ce3_dall : dalloracle := fun _ b _ => Some (tl b).
Definition ce3_w : wresult := W x2_opts [x6c] ce3_comp None (CHeader ce_hd :: ce2_cs ++ [CClose]).

Example ce3_empty_name_not_identity :
  codec_ok ce3_ds ce3_dall (o_comp x2_opts) ce3_comp /\
  r_new ce3_w = None /\ map fst (r_calls ce3_w) = [None; None; None; None; None] /\
  ce_view (read_messages ce3_ds ce3_dall (mem_file (file_of ce3_w)) []) = Some (Some MIndexed, O, EOther) /\
  ce_view (read_messages ce3_ds ce3_dall (mem_file (file_of ce3_w)) [OUsingIndex false]) = Some (Some MScan, O, ETruncated).
Proof. split; [intros i b; split; reflexivity|]. vm_compute. repeat split. Qed.

(* ====================================================================================== *)
(** * 8. non-vacuity: concrete runs satisfying every hypothesis *)

Definition wf_attach_rab (a : attachment) (data : bytes) (crc : N) : bool :=
  (a_log a <? two64) && (a_create a <? two64) && (blen (a_name a) <? two32) && (blen (a_media a) <? two32)
  && (a_size a =? blen data) && (crc <? two32) && (blen (attach_body a data crc) <? two63).
Lemma wf_attach_rab_ok a data crc : wf_attach_rab a data crc = true -> wf_attach_ra a data crc.
Proof.
  unfold wf_attach_rab, wf_attach_ra. rewrite !andb_true_iff, !N.ltb_lt, N.eqb_eq. tauto.
Qed.

Definition item_fitsb (it : item) : bool :=
  match it with
  | IMagic => true
  | IRec _ body => blen body <? max_int32
  | IChunk k => wf_chunkb k && (k_usize k <? max_int32)
  | IAttach a data crc => true
  | IFooter ss sos crc => true
  end.
Lemma item_fitsb_ok it : item_fitsb it = true -> item_fits it.
Proof.
  destruct it as [|op body|k|a data crc|ss sos crc]; cbn [item_fitsb item_fits]; intro H.
  - exact I.
  - apply N.ltb_lt. exact H.
  - apply andb_prop in H. destruct H as [H1 H2]. split; [apply wf_chunkb_iff; exact H1|apply N.ltb_lt; exact H2].
  - exact I.
  - exact I.
Qed.

Lemma forallb_Forall' {A} (f : A -> bool) (P : A -> Prop) l :
  (forall x, f x = true -> P x) -> forallb f l = true -> Forall P l.
Proof.
  intros H Hf. apply Forall_forall. intros x Hx. apply H. rewrite forallb_forall in Hf. exact (Hf x Hx).
Qed.

Definition e2e_boundsb (w : wresult) : bool :=
  let s := r_final w in
  forallb item_fitsb (rev (w_trace s)) && wf_statisticsb (stats_record s) &&
  forallb wf_chunkindexb (w_chunk_indexes s).
Lemma e2e_boundsb_ok w : e2e_boundsb w = true -> e2e_bounds w.
Proof.
  unfold e2e_boundsb, e2e_bounds. cbv zeta. rewrite !andb_true_iff. intros ((H1 & H2) & H3).
  split; [exact (forallb_Forall' _ _ _ item_fitsb_ok H1)|].
  split; [apply wf_statisticsb_iff; exact H2|].
  exact (forallb_Forall' _ _ _ (fun x => proj1 (wf_chunkindexb_iff x)) H3).
Qed.

Definition call_wfb (c : wcall) : bool :=
  match c with
  | CHeader h => wf_headerb h
  | CSchema s => wf_schemab s
  | CChannel c => wf_channelb c
  | CMessage m => wf_messageb m
  | CAttachment a src => wf_attach_rab a (concat (as_frags src)) (crc32 (enc_attachment_fields a ++ concat (as_frags src)))
  | CMetadata m => wf_metadatab m && (blen (enc_metadata m) <? max_int32)
  | CClose => false
  end.
Lemma call_wfb_ok c : call_wfb c = true -> call_wf c.
Proof.
  destruct c as [h|sc|c|m|a src|m|]; cbn [call_wfb call_wf]; intro H.
  - apply wf_headerb_iff. exact H.
  - apply wf_schemab_iff. exact H.
  - apply wf_channelb_iff. exact H.
  - apply wf_messageb_iff. exact H.
  - apply wf_attach_rab_ok. exact H.
  - apply andb_prop in H. destruct H as [H1 H2]. split; [apply wf_metadatab_iff; exact H1|apply N.ltb_lt; exact H2].
  - discriminate.
Qed.
Definition call_smallb (c : wcall) : bool :=
  match c with
  | CSchema s => blen (enc_schema s) <? two64
  | CChannel c => blen (enc_channel c) <? two64
  | CMessage m => blen (enc_message m) <? two64
  | _ => true
  end.
Lemma call_smallb_ok c : call_smallb c = true -> call_small c.
Proof. destruct c; cbn [call_smallb call_small]; try (intros _; exact I); apply N.ltb_lt. Qed.

(* consistency of ids, decided through the first definition of every id *)
Definition ids_consistentb (cs : list wcall) : bool :=
  forallb (fun c => match call_chan cs (c_id c) with Some c' => bytes_eqb (enc_channel c) (enc_channel c') && (blen (enc_channel c) <? two64) | None => false end)
          (channel_calls cs)
  && forallb (fun sc => match call_schema cs (s_id sc) with Some sc' => bytes_eqb (enc_schema sc) (enc_schema sc') | None => false end)
             (schema_calls cs).

(* the calls of the examples (those of ReaderFacts2.y_cs): schema, two channels, four messages, an attachment
   from a two-fragment source, a metadata record *)
Definition ex_hd : header := {| h_profile := []; h_library := [] |}.
Definition ex_c1 : channel := {| c_id := 1; c_schema := 1; c_topic := [x74]; c_menc := []; c_meta := [] |}.
Definition ex_c2 : channel := {| c_id := 2; c_schema := 0; c_topic := [x75]; c_menc := []; c_meta := [([x6b], [x76])] |}.
Definition ex_sc : schema := {| s_id := 1; s_name := [x73]; s_encoding := []; s_data := [x01] |}.
Definition ex_cs : list wcall :=
  [CSchema ex_sc; CChannel ex_c1; CChannel ex_c2;
   CMessage {| m_chan := 1; m_seq := 0; m_log := 10; m_pub := 10; m_data := [x01; x02] |};
   CMessage {| m_chan := 2; m_seq := 0; m_log := 7; m_pub := 7; m_data := [x03] |};
   CAttachment {| a_log := 5; a_create := 6; a_name := [x61]; a_media := [x62]; a_size := 3; a_data := [] |}
               {| as_frags := [[x0a; x0b]; [x0c]]; as_fail := false |};
   CMessage {| m_chan := 1; m_seq := 1; m_log := 12; m_pub := 12; m_data := [] |};
   CMetadata {| md_name := [x6d]; md_meta := [([x61], [x62])] |};
   CMessage {| m_chan := 2; m_seq := 1; m_log := 3; m_pub := 3; m_data := [x04] |}].

Lemma ex_cs_consistent : ids_consistent ex_cs.
Proof.
  split.
  - intros c c' H1 H2 E0. unfold ex_cs in H1, H2. cbn [In] in H1, H2.
    repeat (destruct H1 as [H1|H1]; try discriminate); try contradiction;
    repeat (destruct H2 as [H2|H2]; try discriminate); try contradiction;
    injection H1 as <-; injection H2 as <-; try reflexivity; discriminate.
  - intros sc sc' H1 H2 E0. unfold ex_cs in H1, H2. cbn [In] in H1, H2.
    repeat (destruct H1 as [H1|H1]; try discriminate); try contradiction;
    repeat (destruct H2 as [H2|H2]; try discriminate); try contradiction;
    injection H1 as <-; injection H2 as <-; reflexivity.
Qed.

Lemma ex_cs_hyps : Forall call_wf ex_cs /\ Forall call_small ex_cs /\ no_header ex_cs.
Proof.
  split; [apply (forallb_Forall' call_wfb); [exact call_wfb_ok|vm_compute; reflexivity]|].
  split; [apply (forallb_Forall' call_smallb); [exact call_smallb_ok|vm_compute; reflexivity]|].
  unfold no_header, ex_cs. repeat constructor.
Qed.

(* run 1: chunk size 1 (four chunks), CRCs, no compression *)
Example ex1_hyps : e2e_hyps ds_id ce_dall y_o [x6c] ce_id ex_hd ex_cs.
Proof.
  destruct ex_cs_hyps as (H1 & H2 & H3).
  split; [apply ce_codec_id|]. split; [intros _; left; split; [reflexivity|intros; reflexivity]|].
  split; [exact H1|]. split; [exact H2|]. split; [exact H3|]. split; [exact ex_cs_consistent|].
  split; [split; [vm_compute; reflexivity|vm_compute; repeat constructor]|].
  split; [vm_compute; reflexivity|].
  split; [apply e2e_boundsb_ok; vm_compute; reflexivity|].
  unfold e2e_fuel. apply Nat.leb_le. vm_compute. reflexivity.
Qed.

(* run 2: chunk size 40, a codec that really changes the bytes (zstd name) *)
Definition ex2_o : wopts :=
  {| o_crc := true; o_chunked := true; o_chunksize := 40; o_comp := comp_zstd; o_custom := false;
     o_skip_mi := false; o_skip_stats := false; o_skip_rsh := false; o_skip_rch := false;
     o_skip_ai := false; o_skip_mdi := false; o_skip_ci := false; o_skip_so := false;
     o_override_lib := false; o_skip_magic := false |}.
Example ex2_hyps : e2e_hyps ce3_ds ce3_dall ex2_o [x6c] ce3_comp ex_hd ex_cs.
Proof.
  destruct ex_cs_hyps as (H1 & H2 & H3).
  split; [intros i b; split; reflexivity|]. split; [intros _; right; left; reflexivity|].
  split; [exact H1|]. split; [exact H2|]. split; [exact H3|]. split; [exact ex_cs_consistent|].
  split; [split; [vm_compute; reflexivity|vm_compute; repeat constructor]|].
  split; [vm_compute; reflexivity|].
  split; [apply e2e_boundsb_ok; vm_compute; reflexivity|].
  unfold e2e_fuel. apply Nat.leb_le. vm_compute. reflexivity.
Qed.

(* run 3: not chunked, no summary at all *)
Example ex3_hyps : e2e_hyps ds_id ce_dall y_o_nosummary [x6c] ce_id ex_hd ex_cs.
Proof.
  destruct ex_cs_hyps as (H1 & H2 & H3).
  split; [apply ce_codec_id|]. split; [intros Hc; discriminate|].
  split; [exact H1|]. split; [exact H2|]. split; [exact H3|]. split; [exact ex_cs_consistent|].
  split; [split; [vm_compute; reflexivity|vm_compute; repeat constructor]|].
  split; [vm_compute; reflexivity|].
  split; [apply e2e_boundsb_ok; vm_compute; reflexivity|].
  unfold e2e_fuel. apply Nat.leb_le. vm_compute. reflexivity.
Qed.

(* what the readers return on the three runs, computed independently of the theorems *)
Definition ex_view (r : outcome readres) :=
  match r with
  | Ok r => Some (rr_mode r, map (fun t : triple => (c_id (snd (fst t)), m_log (snd t))) (rr_msgs r), length (rr_mds r), rr_end r)
  | _ => None
  end.
Example ex_reads :
  let f1 := mem_file (file_of (W y_o [x6c] ce_id None (CHeader ex_hd :: ex_cs ++ [CClose]))) in
  let f2 := mem_file (file_of (W ex2_o [x6c] ce3_comp None (CHeader ex_hd :: ex_cs ++ [CClose]))) in
  let f3 := mem_file (file_of (W y_o_nosummary [x6c] ce_id None (CHeader ex_hd :: ex_cs ++ [CClose]))) in
  ex_view (read_messages ds_id ce_dall f1 [OMetadataCb]) = Some (Some MIndexed, [(1, 10); (2, 7); (1, 12); (2, 3)], 1%nat, EEOF) /\
  ex_view (read_messages ds_id ce_dall f1 [OMetadataCb; OUsingIndex false]) = Some (Some MScan, [(1, 10); (2, 7); (1, 12); (2, 3)], 1%nat, EEOF) /\
  ex_view (read_messages ds_id ce_dall f1 [OInOrder LogTimeOrder]) = Some (Some MIndexed, [(2, 3); (2, 7); (1, 10); (1, 12)], 0%nat, EEOF) /\
  ex_view (read_messages ce3_ds ce3_dall f2 []) = Some (Some MIndexed, [(1, 10); (2, 7); (1, 12); (2, 3)], 0%nat, EEOF) /\
  ex_view (read_messages ce3_ds ce3_dall f2 [OUsingIndex false]) = Some (Some MScan, [(1, 10); (2, 7); (1, 12); (2, 3)], 0%nat, EEOF) /\
  ex_view (read_messages ce3_ds ce3_dall f2 [OInOrder ReverseLogTimeOrder]) = Some (Some MIndexed, [(1, 12); (1, 10); (2, 7); (2, 3)], 0%nat, EEOF) /\
  ex_view (read_messages ds_id ce_dall f3 []) = Some (Some MScan, [(1, 10); (2, 7); (1, 12); (2, 3)], 0%nat, EEOF) /\
  ex_view (read_messages ds_id ce_dall f3 [OInOrder LogTimeOrder]) = Some (None, [], 0%nat, EOther).
Proof. vm_compute. repeat split. Qed.

(* the theorems instantiated on the runs *)
Example ex1_applies :
  let f := mem_file (file_of (W y_o [x6c] ce_id None (CHeader ex_hd :: ex_cs ++ [CClose]))) in
  (forall pre ri rs, pre = [] \/ pre = [OMetadataCb] ->
     read_messages ds_id ce_dall f pre = Ok ri -> read_messages ds_id ce_dall f (pre ++ [OUsingIndex false]) = Ok rs ->
     rr_end rs = EEOF /\ (rr_end ri = EEOF -> rr_msgs ri = rr_msgs rs) /\
     (index_enabled (effective_opts y_o) -> o_skip_stats y_o = false \/ (exists c, In (CChannel c) ex_cs) ->
      rr_mode ri = Some MIndexed /\ rr_end ri = EEOF)) /\
  (forall ord ri rs,
     read_messages ds_id ce_dall f [OInOrder ord] = Ok ri -> read_messages ds_id ce_dall f [OUsingIndex false] = Ok rs ->
     rr_end ri = EEOF -> Permutation (rr_msgs ri) (rr_msgs rs)).
Proof.
  split; [exact (C02_e2e_file_order_thm _ _ _ _ _ _ _ ex1_hyps)|exact (C02_e2e_time_orders_thm _ _ _ _ _ _ _ ex1_hyps)].
Qed.

Example ex2_applies :
  let f := mem_file (file_of (W ex2_o [x6c] ce3_comp None (CHeader ex_hd :: ex_cs ++ [CClose]))) in
  (forall sm, info ce3_ds f = Ok sm ->
     (o_skip_ai ex2_o = false ->
        map (fun ai => get_attachment f (ai_offset ai)) (sm_ais sm)
        = map (fun ad => Ok (attach_obs_ra (fst ad) (snd ad) (crc32 (enc_attachment_fields (fst ad) ++ snd ad))))
              (attachments_of ex_cs)) /\
     (o_skip_mdi ex2_o = false ->
        map (fun mx => get_metadata ce3_ds f (mx_offset mx)) (sm_mxs sm)
        = map (fun m => Ok (metadata_norm m)) (metadata_of ex_cs))) /\
  (forall ri rs,
     read_messages ce3_ds ce3_dall f [OMetadataCb] = Ok ri -> read_messages ce3_ds ce3_dall f [OMetadataCb; OUsingIndex false] = Ok rs ->
     rr_mds rs = map metadata_norm (metadata_of ex_cs) /\
     (rr_mode ri = Some MIndexed -> rr_end ri = EEOF ->
        rr_mds ri = if o_skip_mdi ex2_o then [] else map metadata_norm (metadata_of ex_cs))).
Proof.
  split; [exact (C02_e2e_random_access_thm _ _ _ _ _ _ _ ex2_hyps)|exact (C02_e2e_callbacks_thm _ _ _ _ _ _ _ ex2_hyps)].
Qed.

(* the fuel hypothesis of runs 1 and 3 also follows from C02_e2e_fuel_uncompressed_thm *)
Example ex1_fuel_applies : e2e_fuel ds_id (W y_o [x6c] ce_id None (CHeader ex_hd :: ex_cs ++ [CClose])).
Proof.
  destruct ex1_hyps as (H1 & H2 & H3 & H4 & H5 & _ & H7 & H8 & H9 & _).
  exact (C02_e2e_fuel_uncompressed_thm ds_id ce_dall y_o [x6c] ce_id ex_hd ex_cs H1 H2 H3 H4 H5 H7 H8 H9 (fun _ => eq_refl)).
Qed.

(* index enabled and a channel written: the premises of the last clause of part (a) and of the dispatch theorem *)
Example ex1_index_enabled :
  index_enabled (effective_opts y_o) /\ (exists c, In (CChannel c) ex_cs) /\
  index_enabled (effective_opts ex2_o) /\ ~ index_enabled (effective_opts y_o_nosummary) /\
  o_chunked y_o_nosummary = false /\ messages_of ex_cs <> [].
Proof.
  split; [repeat split|]. split; [exists ex_c1; right; left; reflexivity|]. split; [repeat split|].
  split; [intros (H & _); discriminate|]. split; [reflexivity|discriminate].
Qed.
