(* PyDecisions_gen.v - GENERATED on every run by tools/pytrans.py from the Python AST of /repo/python/mcap/mcap/reader.py
   and _message_queue.py. Do not edit. Each definition is one decision of the package, over the Python model's state. *)
From Coq Require Import List NArith ZArith Bool.
From Mcap Require Import Bytes GoSem Records Py.
Import ListNotations.

Definition py_isnone {A} (x : option A) : bool := match x with Some _ => false | None => true end.
Definition py_unsome (x : option N) : N := match x with Some v => v | None => 0%N end.

Definition py_cm_skip_start (flt : mfilter) (ci : chunkindex) : bool :=
  (match mf_start flt with Some start_time_v => (N.ltb (ci_end ci) (start_time_v)) | None => false end).
Definition py_cm_skip_end (flt : mfilter) (ci : chunkindex) : bool :=
  (match mf_end flt with Some end_time_v => (N.leb (end_time_v) (ci_start ci)) | None => false end).
Definition py_cm_all_topics (flt : mfilter) (ci : chunkindex) : bool :=
  (py_isnone (mf_topics flt)).
Definition py_cm_no_index (flt : mfilter) (ci : chunkindex) : bool :=
  (N.eqb (N.of_nat (List.length (ci_mioffsets ci))) 0%N).
Definition py_cm_topic_hit (ts : list bytes) (c : channel) : bool :=
  (mem_topic (c_topic c) ts).
Definition py_sk_skip_topic (flt : mfilter) (c : channel) (m : message) : bool :=
  (match mf_topics flt with Some topics_v => (negb (mem_topic (c_topic c) topics_v)) | None => false end).
Definition py_sk_skip_start (flt : mfilter) (c : channel) (m : message) : bool :=
  (match mf_start flt with Some start_time_v => (N.ltb (m_log m) (start_time_v)) | None => false end).
Definition py_sk_skip_end (flt : mfilter) (c : channel) (m : message) : bool :=
  (match mf_end flt with Some end_time_v => (N.leb (end_time_v) (m_log m)) | None => false end).
Definition py_ns_skip_topic (flt : mfilter) (c : channel) (m : message) : bool :=
  (match mf_topics flt with Some topics_v => (negb (mem_topic (c_topic c) topics_v)) | None => false end).
Definition py_ns_skip_start (flt : mfilter) (c : channel) (m : message) : bool :=
  (match mf_start flt with Some start_time_v => (N.ltb (m_log m) (start_time_v)) | None => false end).
Definition py_ns_skip_end (flt : mfilter) (c : channel) (m : message) : bool :=
  (match mf_end flt with Some end_time_v => (N.leb (end_time_v) (m_log m)) | None => false end).
Definition py_compare (rev_ : bool) (a b : N) : bool :=
  (if (rev_) then (N.ltb (b) (a)) else (N.ltb (a) (b))).
Definition py_chunk_log_time (rev_ : bool) (ci : chunkindex) : N :=
  (if (rev_) then (ci_end ci) else (ci_start ci)).
Definition py_chunk_position (rev_ : bool) (ci : chunkindex) : N * option N :=
  (if (rev_) then ((N.add (ci_offset ci) (ci_length ci)), None) else ((ci_offset ci), None)).
Definition py_msg_log_time (t : triple) : N :=
  (t_log t).
Definition py_msg_position (t : triple) (off i : N) : N * option N :=
  ((off), (Some i)).
Definition py_log_time (rev_ : bool) (x : qitem) : N :=
  match x with QChunk ci => py_chunk_log_time rev_ ci | QMsg t _ _ => py_msg_log_time t end.
Definition py_position (rev_ : bool) (x : qitem) : N * option N :=
  match x with QChunk ci => py_chunk_position rev_ ci | QMsg t off i => py_msg_position t off i end.
Definition py_position_less_than (rev_ : bool) (x y : qitem) : bool :=
  (if (orb (py_isnone (snd (py_position rev_ x))) (py_isnone (snd (py_position rev_ y)))) then (py_compare rev_ (fst (py_position rev_ x)) (fst (py_position rev_ y))) else (if (N.eqb (fst (py_position rev_ x)) (fst (py_position rev_ y))) then (py_compare rev_ (py_unsome (snd (py_position rev_ x))) (py_unsome (snd (py_position rev_ y)))) else (py_compare rev_ (fst (py_position rev_ x)) (fst (py_position rev_ y))))).
Definition py_lt (rev_ : bool) (x y : qitem) : bool :=
  (if (N.eqb (py_log_time rev_ x) (py_log_time rev_ y)) then (py_position_less_than rev_ x y) else (py_compare rev_ (py_log_time rev_ x) (py_log_time rev_ y))).
