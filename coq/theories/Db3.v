(* Db3.v - executable model of go/ros/ros2db3_to_mcap.go DB3ToMCAP, with the SQLite query results and the
   assembled schemas as inputs (rows in the order the engine returns them; schema assembly reads the file
   system and is checked by the harness against an independent implementation). *)
From Coq Require Import List NArith ZArith Bool.
From Coq.Strings Require Import Byte.
From Mcap Require Import Bytes GoSem Records Writer.
Import ListNotations.
Open Scope N_scope.

Record topic_row := { t_id : Z; t_name : bytes; t_type : bytes; t_fmt : bytes; t_qos : option bytes }.
Record msg_row := { mr_topic : Z; mr_ts : Z; mr_data : bytes }.

Definition is_word (b : byte) : bool :=
  let n := Byte.to_N b in
  ((48 <=? n) && (n <=? 57)) || ((65 <=? n) && (n <=? 90)) || ((97 <=? n) && (n <=? 122)) || (n =? 95).

Fixpoint starts_with (p s : bytes) : bool :=
  match p, s with
  | [], _ => true
  | _ :: _, [] => false
  | a :: p', b :: s' => Byte.eqb a b && starts_with p' s'
  end.

Definition s_msg_sep : bytes := map byte_of_N [47; 109; 115; 103; 47].        (* "/msg/" *)

(* regexp `\w+/msg/.*` (unanchored): a word character immediately followed by "/msg/" somewhere *)
Fixpoint is_message_type (s : bytes) : bool :=
  match s with
  | [] => false
  | b :: r => (is_word b && starts_with s_msg_sep r) || is_message_type r
  end.

Fixpoint schema_of (typ : bytes) (schemas : list (bytes * bytes)) : option bytes :=
  match schemas with
  | [] => None
  | (k, v) :: r => if bytes_eqb k typ then Some v else schema_of typ r
  end.

Definition s_ros2 : bytes := map byte_of_N [114; 111; 115; 50].
Definition s_ros2msg : bytes := map byte_of_N [114; 111; 115; 50; 109; 115; 103].
Definition s_qos : bytes := map byte_of_N [111;102;102;101;114;101;100;95;113;111;115;95;112;114;111;102;105;108;101;115].

Definition u16_ok (z : Z) : bool := ((0 <=? z) && (z <=? 65535))%Z.

Section Convert.
Variable o : wopts.
Variable lib_id : bytes.
Variable compress : nat -> bytes -> bytes.

Definition wstep (c : wcall) (w : wstate) : wstate * option err := step o lib_id compress None c w.

(* schema and channel per message-typed topic *)
Fixpoint write_topics (ts : list topic_row) (i : N) (schemas : list (bytes * bytes)) (w : wstate) : wstate * option err :=
  match ts with
  | [] => (w, None)
  | t :: r =>
    let sid := (i + 1) mod two16 in
    match schema_of (t_type t) schemas with
    | None => (w, Some EOther)
    | Some sc =>
      match wstep (CSchema {| s_id := sid; s_name := t_type t; s_encoding := s_ros2msg; s_data := sc |}) w with
      | (w1, Some e) => (w1, Some e)
      | (w1, None) =>
        let meta := match t_qos t with Some q => [(s_qos, q)] | None => [] end in
        match wstep (CChannel {| c_id := Z.to_N (t_id t); c_schema := sid; c_topic := t_name t; c_menc := t_fmt t; c_meta := meta |}) w1 with
        | (w2, Some e) => (w2, Some e)
        | (w2, None) => write_topics r (i + 1) schemas w2
        end
      end
    end
  end.

Fixpoint seq_get (k : N) (l : list (N * N)) : N :=
  match l with [] => 0 | x :: r => if fst x =? k then snd x else seq_get k r end.
Fixpoint seq_bump (k : N) (l : list (N * N)) : list (N * N) :=
  match l with
  | [] => [(k, 1)]
  | x :: r => if fst x =? k then (k, (snd x + 1) mod two32) :: r else x :: seq_bump k r
  end.
Fixpoint nmem (k : N) (l : list N) : bool := match l with [] => false | x :: r => (x =? k) || nmem k r end.

(* messages in the order the engine returns them; rows of topics that are not message-typed are skipped *)
Fixpoint write_msgs (ms : list msg_row) (known : list N) (seq : list (N * N)) (w : wstate) : wstate * option err :=
  match ms with
  | [] => (w, None)
  | m :: r =>
    if negb (u16_ok (mr_topic m)) then (w, Some EOther) else
    let ch := Z.to_N (mr_topic m) in
    if negb (nmem ch known) then write_msgs r known seq w else
    let ts := Z.to_N (mr_ts m mod 18446744073709551616)%Z in
    match wstep (CMessage {| m_chan := ch; m_seq := seq_get ch seq; m_log := ts; m_pub := ts; m_data := mr_data m |}) w with
    | (w1, Some e) => (w1, Some e)
    | (w1, None) => write_msgs r known (seq_bump ch seq) w1
    end
  end.

End Convert.

Record db3res := { dr_err : option err; dr_writes : list bytes; dr_final : wstate }.

(* DB3ToMCAP.  schemas_err: getSchemas failed (nothing is written in that case). *)
Definition db3_to_mcap (o : wopts) (lib_id : bytes) (compress : nat -> bytes -> bytes)
           (topics : list topic_row) (schemas : option (list (bytes * bytes))) (msgs : list msg_row) : db3res :=
  let o := effective_opts o in
  if negb (forallb (fun t => u16_ok (t_id t)) topics) then {| dr_err := Some EOther; dr_writes := []; dr_final := init_state |} else
  let mt := filter (fun t => is_message_type (t_type t)) topics in
  match schemas with
  | None => {| dr_err := Some EOther; dr_writes := []; dr_final := init_state |}
  | Some schemas =>
    match new_writer o None with
    | (w, Some e) => {| dr_err := Some e; dr_writes := rev (w_out w); dr_final := w |}
    | (w, None) =>
      let finish (w : wstate) (e : option err) :=
        let '(w', _) := close o compress None w in
        {| dr_err := e; dr_writes := rev (w_out w'); dr_final := w' |} in
      match wstep o lib_id compress (CHeader {| h_profile := s_ros2; h_library := [] |}) w with
      | (w1, Some e) => finish w1 (Some e)
      | (w1, None) =>
        match write_topics o lib_id compress mt 0 schemas w1 with
        | (w2, Some e) => finish w2 (Some e)
        | (w2, None) =>
          let '(w3, e) := write_msgs o lib_id compress msgs (map (fun t => Z.to_N (t_id t)) mt) [] w2 in
          finish w3 e
        end
      end
    end
  end.
